import SLModel.Core.Doc
/-!
# Lemmas/Doc — the stored projection is idempotent
-/
set_option linter.unusedSectionVars false
set_option linter.unusedSimpArgs false
namespace SL.Doc

variable {σ : Type} [DecidableEq σ]

/-! ## flat fields -/

theorem mem_filterJL {p : J σ → Bool} : ∀ {a : JL σ} {x : J σ}, x ∈ filterJL p a → p x = true
  | .nil, x, h => by simp [filterJL] at h
  | .cons h t, x, hx => by
    simp only [filterJL] at hx
    by_cases hp : p h = true
    · simp only [hp, if_true, List.mem_cons] at hx
      rcases hx with e | hx
      · rw [e]; exact hp
      · exact mem_filterJL hx
    · simp only [hp, if_false] at hx
      exact mem_filterJL hx

theorem filterJL_ofList {p : J σ → Bool} : ∀ (vs : List (J σ)), (∀ x ∈ vs, p x = true) →
    filterJL p (JL.ofList vs) = vs
  | [], _ => rfl
  | v :: vs, h => by
    have hv : p v = true := h v (List.mem_cons_self ..)
    simp only [JL.ofList, filterJL, hv, if_true]
    rw [filterJL_ofList vs (fun x hx => h x (List.mem_cons_of_mem _ hx))]

theorem accepts_arr (k : Kind) (a : JL σ) : k.accepts (J.arr a) = false := by
  cases k <;> rfl

theorem collect_accepts (k : Kind) (v : J σ) : ∀ x ∈ collect k v, k.accepts x = true := by
  intro x hx
  cases v with
  | arr a => exact mem_filterJL hx
  | null => simp only [collect] at hx; split at hx <;> simp_all
  | bool b => simp only [collect] at hx; split at hx <;> simp_all
  | num m e => simp only [collect] at hx; split at hx <;> simp_all
  | str s => simp only [collect] at hx; split at hx <;> simp_all
  | obj kv => simp only [collect] at hx; split at hx <;> simp_all

theorem collect_single (k : Kind) (v : J σ) (h : k.accepts v = true) : collect k v = [v] := by
  cases v with
  | arr a => rw [accepts_arr] at h; exact absurd h (by simp)
  | null => simp [collect, h]
  | bool b => simp [collect, h]
  | num m e => simp [collect, h]
  | str s => simp [collect, h]
  | obj kv => simp [collect, h]

theorem collect_norm (k : Kind) (vs : List (J σ)) (h : ∀ x ∈ vs, k.accepts x = true) :
    collect k (norm vs) = vs := by
  match vs, h with
  | [], _ => rfl
  | [v], h => exact collect_single k v (h v (List.mem_cons_self ..))
  | v :: w :: r, h =>
    show filterJL k.accepts (JL.ofList (v :: w :: r)) = v :: w :: r
    exact filterJL_ofList _ h

theorem storedFlat_idem (k : Kind) (v : J σ) : storedFlat k (storedFlat k v) = storedFlat k v := by
  unfold storedFlat
  rw [collect_norm k _ (collect_accepts k v)]

/-! ## nested fields -/

theorem storedNested_notNull {n : Nested σ} {v f : J σ} (h : storedNested n v = some f) :
    f.isNull = false := by
  cases v with
  | arr a =>
    simp only [storedNested] at h
    split at h
    · simp at h
    · simp at h; rw [← h]; rfl
  | obj kv =>
    simp only [storedNested] at h
    split at h
    · simp at h
    · simp at h; rw [← h]; rfl
  | null => simp [storedNested] at h
  | bool b => simp [storedNested] at h
  | num m e => simp [storedNested] at h
  | str s => simp [storedNested] at h

mutual
theorem storedNested_idem : ∀ (n : Nested σ) (v f : J σ), storedNested n v = some f →
    storedNested n f = some f
  | n, .arr a, f, h => by
    simp only [storedNested] at h
    split at h
    · simp at h
    · rename_i hn
      simp at h
      subst h
      simp only [storedNested, storedList_idem n a, hn, if_false]
      simp [hn]
  | n, .obj kv, f, h => by
    simp only [storedNested] at h
    split at h
    · simp at h
    · rename_i hn
      simp at h
      subst h
      simp only [storedNested, storedObj_idem n.props kv, hn, if_false]
      simp [hn]
  | _, .null, _, h => by simp [storedNested] at h
  | _, .bool _, _, h => by simp [storedNested] at h
  | _, .num _ _, _, h => by simp [storedNested] at h
  | _, .str _, _, h => by simp [storedNested] at h
theorem storedList_idem : ∀ (n : Nested σ) (a : JL σ),
    storedList n (storedList n a) = storedList n a
  | _, .nil => by simp [storedList]
  | n, .cons h t => by
    simp only [storedList]
    cases hs : storedNested n h with
    | none => simp only; exact storedList_idem n t
    | some f =>
      simp only [storedList, storedNested_idem n h f hs, storedList_idem n t]
theorem storedObj_idem : ∀ (props : NProps σ) (kv : JO σ),
    storedObj props (storedObj props kv) = storedObj props kv
  | _, .nil => by simp [storedObj]
  | props, .cons k v t => by
    have ih := storedObj_idem props t
    simp only [storedObj]
    cases hf : props.find k with
    | none => simp only; exact ih
    | some p =>
      cases p with
      | leaf l =>
        simp only
        by_cases hc : (!v.isNull && l.stored) = true
        · simp only [hc, if_true, storedObj, hf, ih]
        · simp only [hc, if_false]; exact ih
      | object child =>
        simp only
        cases hnull : v.isNull with
        | true => simp only [if_true]; exact ih
        | false =>
          simp only [Bool.false_eq_true, if_false]
          cases hs : storedNested child v with
          | none => simp only; exact ih
          | some c =>
            simp only [storedObj, hf, storedNested_notNull hs, Bool.false_eq_true, if_false,
              storedNested_idem child v c hs, ih]
end

/-! ## whole documents -/

theorem projFields_idem (s : Schema σ) : ∀ (kv : JO σ),
    projFields s (projFields s kv) = projFields s kv
  | .nil => by simp [projFields]
  | .cons k v t => by
    have ih := projFields_idem s t
    simp only [projFields]
    by_cases hk : k = s.idField
    · simp only [hk, if_true]; exact ih
    · simp only [hk, if_false]
      cases hf : s.findFlat k with
      | some l =>
        simp only
        by_cases hst : l.stored = true
        · simp only [hst, if_true, projFields, hk, if_false, hf, storedFlat_idem, ih]
        · simp only [hst, if_false]; exact ih
      | none =>
        simp only
        cases hn : s.findNested k with
        | none => simp only; exact ih
        | some n =>
          simp only
          cases hnull : v.isNull with
          | true => simp only [if_true]; exact ih
          | false =>
            simp only [Bool.false_eq_true, if_false]
            cases hs : storedNested n v with
            | none => simp only; exact ih
            | some f =>
              simp only [projFields, hk, if_false, hf, hn, storedNested_notNull hs,
                Bool.false_eq_true, storedNested_idem n v f hs, ih]

/-- **project_idem**: re-projecting a stored document changes nothing -/
theorem project_idem (s : Schema σ) (d : J σ) : project s (project s d) = project s d := by
  cases d with
  | obj kv =>
    simp only [project]
    cases hg : kv.get s.idField with
    | none => simp [project]
    | some v =>
      cases v with
      | str id =>
        simp only [project, JO.get, if_true, projFields, projFields_idem]
      | null => simp [project]
      | bool b => simp [project]
      | num m e => simp [project]
      | arr a => simp [project]
      | obj kv' => simp [project]
  | null => simp [project]
  | bool b => simp [project]
  | num m e => simp [project]
  | str x => simp [project]
  | arr a => simp [project]

/-! ## nested filters see the same values in the stored object -/

theorem find_leaf_safe : ∀ (props : NProps σ) (x : σ) (l : Leaf σ),
    propsSafe props = true → props.find x = some (.leaf l) → l.safe = true
  | .nil, _, _, _, h => by simp [NProps.find] at h
  | .cons p t, x, l, hs, h => by
    simp only [NProps.find] at h
    by_cases hp : p.name = x
    · simp only [hp, if_true] at h
      cases p with
      | leaf l' =>
        simp at h; subst h
        simp only [propsSafe, Bool.and_eq_true] at hs
        exact hs.1
      | object n => simp at h
    · simp only [hp, if_false] at h
      have hs' : propsSafe t = true := by
        cases p with
        | leaf l' => simp only [propsSafe, Bool.and_eq_true] at hs; exact hs.2
        | object n => simp only [propsSafe, Bool.and_eq_true] at hs; exact hs.2
      exact find_leaf_safe t x l hs' h

theorem strsOf_null_of_isNull {v : J σ} (h : v.isNull = true) : strsOf v = [] := by
  cases v <;> simp_all [J.isNull, strsOf]

/-- the strings recorded for a *stored* leaf are the same in the stored object -/
theorem fieldStrs_storedObj (props : NProps σ) (x : σ) (l : Leaf σ)
    (hx : props.find x = some (.leaf l)) (hst : l.stored = true) :
    ∀ (kv : JO σ), fieldStrs (storedObj props kv) x = fieldStrs kv x
  | .nil => by simp [storedObj]
  | .cons k v t => by
    have ih := fieldStrs_storedObj props x l hx hst t
    simp only [storedObj, fieldStrs]
    cases hf : props.find k with
    | none =>
      have hne : k ≠ x := by
        intro e; rw [e, hx] at hf; simp at hf
      simp only [hne, if_false, List.nil_append]; exact ih
    | some p =>
      cases p with
      | leaf l' =>
        simp only
        by_cases hc : (!v.isNull && l'.stored) = true
        · simp only [hc, if_true, fieldStrs, ih]
        · simp only [hc, if_false]
          by_cases hk : k = x
          · have : l' = l := by
              rw [hk, hx] at hf; simp at hf; exact hf.symm
            subst this
            have hn : v.isNull = true := by
              simp only [hst, Bool.and_true, Bool.not_eq_true', Bool.not_eq_false] at hc
              cases hv : v.isNull <;> simp_all
            simp only [hk, if_true, strsOf_null_of_isNull hn, List.nil_append]; exact ih
          · simp only [hk, if_false, List.nil_append]; exact ih
      | object child =>
        have hne : k ≠ x := by
          intro e; rw [e, hx] at hf; simp at hf
        simp only [hne, if_false, List.nil_append]
        cases hnull : v.isNull with
        | true => simp only [if_true]; exact ih
        | false =>
          simp only [Bool.false_eq_true, if_false]
          cases hs : storedNested child v with
          | none => simp only; exact ih
          | some c => simp only [fieldStrs, hne, if_false, List.nil_append]; exact ih

theorem evalObj_storedObj (props : NProps σ) (hsafe : propsSafe props = true) (kv : JO σ) :
    ∀ (f : NF σ), f.evalObj props (storedObj props kv) = f.evalObj props kv
  | .kwEq x v => by
    simp only [NF.evalObj]
    cases hfk : props.fastKeyword x with
    | false => simp
    | true =>
      simp only [Bool.true_and]
      unfold NProps.fastKeyword at hfk
      cases hf : props.find x with
      | none => simp [hf] at hfk
      | some p =>
        cases p with
        | object n => simp [hf] at hfk
        | leaf l =>
          simp only [hf, Bool.and_eq_true] at hfk
          have hls := find_leaf_safe props x l hsafe hf
          have hst : l.stored = true := by
            unfold Leaf.safe at hls
            have hk : l.kind = .keyword := by
              have := hfk.1
              cases hkk : l.kind <;> simp_all
            simp only [hk, hfk.2, Bool.or_true, Bool.not_true, Bool.false_or] at hls
            exact hls
          rw [fieldStrs_storedObj props x l hf hst kv]
  | .not f => by simp only [NF.evalObj, evalObj_storedObj props hsafe kv f]
  | .and f g => by
    simp only [NF.evalObj, evalObj_storedObj props hsafe kv f, evalObj_storedObj props hsafe kv g]
  | .or f g => by
    simp only [NF.evalObj, evalObj_storedObj props hsafe kv f, evalObj_storedObj props hsafe kv g]

theorem anyJL_storedList (n : Nested σ) (hsafe : propsSafe n.props = true) (f : NF σ) :
    ∀ (a : JL σ), keepsAll n.props a = true →
      anyJL (elemPasses n.props f) (storedList n a) = anyJL (elemPasses n.props f) a
  | .nil, _ => by simp [storedList]
  | .cons h t, hk => by
    cases h with
    | obj kv =>
      simp only [keepsAll, Bool.and_eq_true, Bool.not_eq_true'] at hk
      have hs : storedNested n (.obj kv) = some (.obj (storedObj n.props kv)) := by
        simp only [storedNested, hk.1]
        simp
      simp only [storedList, hs, anyJL, elemPasses, evalObj_storedObj n.props hsafe kv f,
        anyJL_storedList n hsafe f t hk.2]
    | null => simp [keepsAll] at hk
    | bool b => simp [keepsAll] at hk
    | num m e => simp [keepsAll] at hk
    | str x => simp [keepsAll] at hk
    | arr a => simp [keepsAll] at hk

end SL.Doc
