import SLModel.Core.Doc
/-!
# Lemmas/Doc — the stored projection is idempotent
-/
set_option linter.unusedSectionVars false
set_option linter.unusedSimpArgs false
namespace SL.Doc

variable {σ : Type} [DecidableEq σ]

/-! ## flat fields -/

theorem mem_filterJL {p : J σ → Bool} : ∀ {a : JL σ} {x : J σ}, x ∈ filterJL p a → p x = true
  | .nil, x, h => by simp [filterJL] at h
  | .cons h t, x, hx => by
    simp only [filterJL] at hx
    by_cases hp : p h = true
    · simp only [hp, if_true, List.mem_cons] at hx
      rcases hx with e | hx
      · rw [e]; exact hp
      · exact mem_filterJL hx
    · simp only [hp, if_false] at hx
      exact mem_filterJL hx

theorem filterJL_ofList {p : J σ → Bool} : ∀ (vs : List (J σ)), (∀ x ∈ vs, p x = true) →
    filterJL p (JL.ofList vs) = vs
  | [], _ => rfl
  | v :: vs, h => by
    have hv : p v = true := h v (List.mem_cons_self ..)
    simp only [JL.ofList, filterJL, hv, if_true]
    rw [filterJL_ofList vs (fun x hx => h x (List.mem_cons_of_mem _ hx))]

theorem accepts_arr (k : Kind) (a : JL σ) : k.accepts (J.arr a) = false := by
  cases k <;> rfl

theorem collect_accepts (k : Kind) (v : J σ) : ∀ x ∈ collect k v, k.accepts x = true := by
  intro x hx
  cases v with
  | arr a => exact mem_filterJL hx
  | null => simp only [collect] at hx; split at hx <;> simp_all
  | bool b => simp only [collect] at hx; split at hx <;> simp_all
  | num m e => simp only [collect] at hx; split at hx <;> simp_all
  | str s => simp only [collect] at hx; split at hx <;> simp_all
  | obj kv => simp only [collect] at hx; split at hx <;> simp_all

theorem collect_single (k : Kind) (v : J σ) (h : k.accepts v = true) : collect k v = [v] := by
  cases v with
  | arr a => rw [accepts_arr] at h; exact absurd h (by simp)
  | null => simp [collect, h]
  | bool b => simp [collect, h]
  | num m e => simp [collect, h]
  | str s => simp [collect, h]
  | obj kv => simp [collect, h]

theorem collect_norm (k : Kind) (vs : List (J σ)) (h : ∀ x ∈ vs, k.accepts x = true) :
    collect k (norm vs) = vs := by
  match vs, h with
  | [], _ => rfl
  | [v], h => exact collect_single k v (h v (List.mem_cons_self ..))
  | v :: w :: r, h =>
    show filterJL k.accepts (JL.ofList (v :: w :: r)) = v :: w :: r
    exact filterJL_ofList _ h

theorem storedFlat_idem (k : Kind) (v : J σ) : storedFlat k (storedFlat k v) = storedFlat k v := by
  unfold storedFlat
  rw [collect_norm k _ (collect_accepts k v)]

/-! ## nested fields -/

theorem storedNested_notNull {n : Nested σ} {v f : J σ} (h : storedNested n v = some f) :
    f.isNull = false := by
  cases v with
  | arr a =>
    simp only [storedNested] at h
    split at h
    · simp at h
    · simp at h; rw [← h]; rfl
  | obj kv =>
    simp only [storedNested] at h
    split at h
    · simp at h
    · simp at h; rw [← h]; rfl
  | null => simp [storedNested] at h
  | bool b => simp [storedNested] at h
  | num m e => simp [storedNested] at h
  | str s => simp [storedNested] at h

mutual
theorem storedNested_idem : ∀ (n : Nested σ) (v f : J σ), storedNested n v = some f →
    storedNested n f = some f
  | n, .arr a, f, h => by
    simp only [storedNested] at h
    split at h
    · simp at h
    · rename_i hn
      simp at h
      subst h
      simp only [storedNested, storedList_idem n a, hn, if_false]
      simp [hn]
  | n, .obj kv, f, h => by
    simp only [storedNested] at h
    split at h
    · simp at h
    · rename_i hn
      simp at h
      subst h
      simp only [storedNested, storedObj_idem n.props kv, hn, if_false]
      simp [hn]
  | _, .null, _, h => by simp [storedNested] at h
  | _, .bool _, _, h => by simp [storedNested] at h
  | _, .num _ _, _, h => by simp [storedNested] at h
  | _, .str _, _, h => by simp [storedNested] at h
theorem storedList_idem : ∀ (n : Nested σ) (a : JL σ),
    storedList n (storedList n a) = storedList n a
  | _, .nil => by simp [storedList]
  | n, .cons h t => by
    simp only [storedList]
    cases hs : storedNested n h with
    | none => simp only; exact storedList_idem n t
    | some f =>
      simp only [storedList, storedNested_idem n h f hs, storedList_idem n t]
theorem storedObj_idem : ∀ (props : NProps σ) (kv : JO σ),
    storedObj props (storedObj props kv) = storedObj props kv
  | _, .nil => by simp [storedObj]
  | props, .cons k v t => by
    have ih := storedObj_idem props t
    simp only [storedObj]
    cases hf : props.find k with
    | none => simp only; exact ih
    | some p =>
      cases p with
      | leaf l =>
        simp only
        by_cases hc : (!v.isNull && l.stored) = true
        · simp only [hc, if_true, storedObj, hf, ih]
        · simp only [hc, if_false]; exact ih
      | object child =>
        simp only
        cases hnull : v.isNull with
        | true => simp only [if_true]; exact ih
        | false =>
          simp only [Bool.false_eq_true, if_false]
          cases hs : storedNested child v with
          | none => simp only; exact ih
          | some c =>
            simp only [storedObj, hf, storedNested_notNull hs, Bool.false_eq_true, if_false,
              storedNested_idem child v c hs, ih]
end

/-! ## whole documents -/

theorem projFields_idem (s : Schema σ) : ∀ (kv : JO σ),
    projFields s (projFields s kv) = projFields s kv
  | .nil => by simp [projFields]
  | .cons k v t => by
    have ih := projFields_idem s t
    simp only [projFields]
    by_cases hk : k = s.idField
    · simp only [hk, if_true]; exact ih
    · simp only [hk, if_false]
      cases hf : s.findFlat k with
      | some l =>
        simp only
        by_cases hst : l.stored = true
        · simp only [hst, if_true, projFields, hk, if_false, hf, storedFlat_idem, ih]
        · simp only [hst, if_false]; exact ih
      | none =>
        simp only
        cases hn : s.findNested k with
        | none => simp only; exact ih
        | some n =>
          simp only
          cases hnull : v.isNull with
          | true => simp only [if_true]; exact ih
          | false =>
            simp only [Bool.false_eq_true, if_false]
            cases hs : storedNested n v with
            | none => simp only; exact ih
            | some f =>
              simp only [projFields, hk, if_false, hf, hn, storedNested_notNull hs,
                Bool.false_eq_true, storedNested_idem n v f hs, ih]

/-- **project_idem**: re-projecting a stored document changes nothing -/
theorem project_idem (s : Schema σ) (d : J σ) : project s (project s d) = project s d := by
  cases d with
  | obj kv =>
    simp only [project]
    cases hg : kv.get s.idField with
    | none => simp [project]
    | some v =>
      cases v with
      | str id =>
        simp only [project, JO.get, if_true, projFields, projFields_idem]
      | null => simp [project]
      | bool b => simp [project]
      | num m e => simp [project]
      | arr a => simp [project]
      | obj kv' => simp [project]
  | null => simp [project]
  | bool b => simp [project]
  | num m e => simp [project]
  | str x => simp [project]
  | arr a => simp [project]

end SL.Doc
