import SLModel.Core.Filter
/-!
# Lemmas/Filter — the columns written for a document are faithful to its tree (`eval_sim`), used
by `Props/C08`
-/
set_option linter.unusedSectionVars false
set_option linter.unusedSimpArgs false
set_option linter.unusedVariables false
namespace SL.Filter
open SL.Doc

variable {σ : Type} [DecidableEq σ]

/-! ## lists -/

theorem all_congr' {α : Type} {l : List α} {f g : α → Bool} (h : ∀ x, x ∈ l → f x = g x) :
    l.all f = l.all g := by
  induction l with
  | nil => rfl
  | cons a t ih =>
    simp only [List.all_cons]
    rw [h a (List.mem_cons_self ..), ih (fun x hx => h x (List.mem_cons_of_mem _ hx))]

theorem any_congr' {α : Type} {l : List α} {f g : α → Bool} (h : ∀ x, x ∈ l → f x = g x) :
    l.any f = l.any g := by
  induction l with
  | nil => rfl
  | cons a t ih =>
    simp only [List.any_cons]
    rw [h a (List.mem_cons_self ..), ih (fun x hx => h x (List.mem_cons_of_mem _ hx))]

theorem any_range_congr {n : Nat} {f g : Nat → Bool} (h : ∀ j, j < n → f j = g j) :
    (List.range n).any f = (List.range n).any g :=
  any_congr' (fun j hj => h j (List.mem_range.mp hj))

theorem any_range_false {n : Nat} {f : Nat → Bool} (h : ∀ j, j < n → f j = false) :
    (List.range n).any f = false := by
  rw [any_range_congr (g := fun _ => false) h]
  induction n with
  | zero => rfl
  | succ n ih => simp

theorem any_range_getD {α : Type} (d : α) (g : α → Bool) : ∀ (l : List α),
    (List.range l.length).any (fun j => g (l.getD j d)) = l.any g
  | [] => rfl
  | a :: t => by
    have ih := any_range_getD d g t
    simp only [List.length_cons, List.range_succ_eq_map, List.any_cons, List.any_map,
      List.getD_cons_zero]
    congr 1

theorem getD_map_range {α : Type} (n i : Nat) (g : Nat → α) (d : α) :
    ((List.range n).map g).getD i d = if i < n then g i else d := by
  by_cases h : i < n
  · rw [List.getD_eq_getElem?_getD, List.getElem?_eq_getElem (by simpa using h)]
    simp [h]
  · rw [List.getD_eq_getElem?_getD, List.getElem?_eq_none (by simpa using Nat.le_of_not_lt h)]
    simp [h]

theorem getD_map_fst {α β : Type} (l : List (α × β)) (j : Nat) (d : α × β) :
    (l.map (·.1)).getD j d.1 = (l.getD j d).1 := by
  simp only [List.getD_eq_getElem?_getD, List.getElem?_map]
  cases l[j]? <;> rfl

/-! ## schema lookups -/

theorem find_name : ∀ {props : NProps σ} {x : σ} {p : NProp σ},
    props.find x = some p → p.name = x
  | .nil, _, _, h => by simp [NProps.find] at h
  | .cons q t, x, p, h => by
    simp only [NProps.find] at h
    split at h
    · rename_i hq
      cases h
      exact hq
    · exact find_name h

/-- the entry found under a name is the column built for the property found under that name -/
theorem find_flattenProps (objs : List (PObj σ)) : ∀ (props : NProps σ) (x : σ),
    (flattenProps props objs).find x =
      match props.find x with
      | none => none
      | some (.leaf l) =>
        some (if l.fast then
          .leaf l.kind (objs.map (fun po => collect l.kind ((po.2.get l.name).getD .null)))
          else .skip)
      | some (.object (.mk nm _ ps)) =>
        some (.child (.mk (childObjsFrom nm 0 objs).length ((childObjsFrom nm 0 objs).map (·.1))
          (flattenProps ps (childObjsFrom nm 0 objs))))
  | .nil, x => by simp [flattenProps, NEntries.find, NProps.find]
  | .cons (.leaf l) t, x => by
    simp only [flattenProps, NEntries.find, NProps.find, NProp.name]
    by_cases h : l.name = x
    · simp [h]
    · simp only [h, if_false]
      exact find_flattenProps objs t x
  | .cons (.object (.mk nm nl ps)) t, x => by
    simp only [flattenProps, NEntries.find, NProps.find, NProp.name, Nested.name]
    by_cases h : nm = x
    · simp [h]
    · simp only [h, if_false]
      exact find_flattenProps objs t x

/-! ## the objects of a child path -/

/-- some object of the value of `o` under `r` satisfies `K` -/
def childAny (r : σ) (K : JO σ → Bool) (o : JO σ) : Bool :=
  match o.get r with
  | some v => (objsOf v).any K
  | none => false

theorem Spec.bind_eq (props : NProps σ) (kv : JO σ) (r : σ) (ks : NProps σ → JO σ → Bool) :
    Spec.bind props kv r ks =
      match props.find r with
      | some (.object n) => childAny r (ks n.props) kv
      | _ => false := by
  unfold Spec.bind childAny
  cases props.find r with
  | none => rfl
  | some p =>
    cases p with
    | leaf l => rfl
    | object n => cases kv.get r <;> rfl

/-- every child object points to a parent index inside the range of its parents -/
theorem childObjs_parent {r : σ} : ∀ {objs : List (PObj σ)} {b : Nat} {p : PObj σ},
    p ∈ childObjsFrom r b objs → ∃ i, p.1 = some i ∧ b ≤ i ∧ i < b + objs.length
  | [], _, _, h => by simp [childObjsFrom] at h
  | po :: t, b, p, h => by
    simp only [childObjsFrom, List.mem_append] at h
    rcases h with h | h
    · cases hg : po.2.get r with
      | none => simp [hg] at h
      | some v =>
        simp only [hg, List.mem_map] at h
        obtain ⟨o, _, rfl⟩ := h
        exact ⟨b, rfl, Nat.le_refl _, by simp⟩
    · obtain ⟨i, h1, h2, h3⟩ := childObjs_parent h
      exact ⟨i, h1, by omega, by simp only [List.length_cons]; omega⟩

/-- the child objects, whatever their parent -/
theorem any_childObjs (r : σ) (K : JO σ → Bool) : ∀ (objs : List (PObj σ)) (b : Nat),
    (childObjsFrom r b objs).any (fun p => K p.2) = objs.any (fun po => childAny r K po.2)
  | [], _ => rfl
  | po :: t, b => by
    simp only [childObjsFrom, List.any_append, List.any_cons, any_childObjs r K t (b + 1)]
    congr 1
    unfold childAny
    cases po.2.get r with
    | none => rfl
    | some v => simp [List.any_map, Function.comp_def]

/-- the child objects whose parent index is that of the `k`-th parent object are exactly the
objects of that parent's value -/
theorem any_childObjs_parent (r : σ) (K : JO σ → Bool) : ∀ (objs : List (PObj σ)) (b k : Nat),
    k < objs.length →
    (childObjsFrom r b objs).any (fun p => p.1 == some (b + k) && K p.2) =
      childAny r K (objs.getD k (none, .nil)).2
  | [], _, _, h => by simp at h
  | po :: t, b, k, hk => by
    simp only [childObjsFrom, List.any_append]
    cases k with
    | zero =>
      have h2 : (childObjsFrom r (b + 1) t).any (fun p => p.1 == some (b + 0) && K p.2) = false := by
        rw [List.any_eq_false]
        intro p hp
        obtain ⟨i, h1, h2, _⟩ := childObjs_parent hp
        have : i ≠ b := by omega
        simp [h1, this]
      rw [h2, Bool.or_false]
      simp only [List.getD_cons_zero]
      unfold childAny
      cases po.2.get r with
      | none => rfl
      | some v => simp [List.any_map, Function.comp_def]
    | succ k =>
      have ih := any_childObjs_parent r K t (b + 1) k (by simpa using hk)
      have e : b + 1 + k = b + (k + 1) := by omega
      rw [e] at ih
      simp only [List.getD_cons_succ]
      rw [← ih]
      have hb : (b == b + (k + 1)) = false := by
        rw [beq_eq_false_iff_ne]; omega
      cases po.2.get r with
      | none => simp
      | some v => simp [List.any_map, Function.comp_def, hb]

/-! ## the simulation -/

/-- the object loop of the code over the columns finds exactly the objects of the child value
of the bound object -/
theorem bind_sim (props : NProps σ) (objs : List (PObj σ)) (g : Nat) (r : σ)
    (kc : NEntries σ → Nat → Bool) (ks : NProps σ → JO σ → Bool) (hg : g < objs.length)
    (hk : ∀ (nm : σ) (nl : Bool) (ps : NProps σ) (j : Nat),
        props.find r = some (.object (.mk nm nl ps)) → j < (childObjsFrom nm 0 objs).length →
        kc (flattenProps ps (childObjsFrom nm 0 objs)) j =
          ks ps ((childObjsFrom nm 0 objs).getD j (none, .nil)).2) :
    Col.bind (flattenProps props objs) (some g) r kc =
      Spec.bind props (objs.getD g (none, .nil)).2 r ks := by
  unfold Col.bind
  rw [find_flattenProps, Spec.bind_eq]
  cases hf : props.find r with
  | none => rfl
  | some p =>
    cases p with
    | leaf l => cases hfast : l.fast <;> simp [hfast]
    | object c =>
      obtain ⟨nm, nl, ps⟩ := c
      have hnm : nm = r := by simpa [NProp.name, Nested.name] using find_name hf
      simp only [Nested.props]
      have h := any_childObjs_parent nm (ks ps) objs 0 g hg
      simp only [Nat.zero_add] at h
      rw [← hnm, ← h, ← any_range_getD (none, .nil) _ (childObjsFrom nm 0 objs)]
      apply any_range_congr
      intro j hj
      rw [hk nm nl ps j hf hj]
      show ((List.map (·.1) (childObjsFrom nm 0 objs)).getD j none == some g && _) = _
      rw [show (none : Option Nat) = ((none, JO.nil) : PObj σ).1 from rfl, getD_map_fst]

/-- at the top level (one object, no object index) the loop does not look at the parent column;
all child objects belong to the one object anyway -/
theorem bind_none_eq (props : NProps σ) (po : PObj σ) (r : σ) (kc : NEntries σ → Nat → Bool) :
    Col.bind (flattenProps props [po]) none r kc =
      Col.bind (flattenProps props [po]) (some 0) r kc := by
  unfold Col.bind
  rw [find_flattenProps]
  cases hf : props.find r with
  | none => rfl
  | some p =>
    cases p with
    | leaf l => cases hfast : l.fast <;> simp [hfast]
    | object c =>
      obtain ⟨nm, nl, ps⟩ := c
      simp only
      apply any_range_congr
      intro j hj
      have hmem : (childObjsFrom nm 0 [po]).getD j (none, .nil) ∈ childObjsFrom nm 0 [po] := by
        rw [List.getD_eq_getElem?_getD, List.getElem?_eq_getElem hj]
        simp
      obtain ⟨i, h1, _, h3⟩ := childObjs_parent hmem
      have hi : i = 0 := by simpa using h3
      rw [show (none : Option Nat) = ((none, JO.nil) : PObj σ).1 from rfl, getD_map_fst, h1, hi]
      simp

theorem allPlain_mem : ∀ {fs : List (Filter σ)} {g : Filter σ},
    allPlainList fs = true → g ∈ fs → g.allPlain = true
  | [], _, _, hg => by simp at hg
  | f :: t, g, h, hg => by
    simp only [allPlainList, Bool.and_eq_true] at h
    rcases List.mem_cons.mp hg with rfl | hg
    · exact h.1
    · exact allPlain_mem h.2 hg

theorem allPlain_inners (r : σ) : ∀ {fs : List (Filter σ)},
    allPlainList fs = true → allPlainList (inners r fs) = true
  | [], _ => rfl
  | f :: t, h => by
    simp only [allPlainList, Bool.and_eq_true] at h
    have ih := allPlain_inners r h.2
    cases f with
    | nested q g =>
      simp only [inners]
      split
      · simp only [allPlainList, Bool.and_eq_true]
        exact ⟨by simpa [Filter.allPlain] using h.1, ih⟩
      · exact ih
    | leaf p c => simpa [inners] using ih
    | and gs => simpa [inners] using ih
    | or gs => simpa [inners] using ih
    | not g => simpa [inners] using ih

theorem leaf_sim (fold : σ → σ) (c : Clause σ) (props : NProps σ) (objs : List (PObj σ))
    (g : Nat) (a : σ) (hg : g < objs.length) :
    Col.leafPasses fold c (some g) (flattenProps props objs) [a] =
      Spec.leafPasses fold c props (objs.getD g (none, .nil)).2 [a] := by
  simp only [Col.leafPasses, Spec.leafPasses]
  rw [find_flattenProps]
  cases hf : props.find a with
  | none => rfl
  | some p =>
    cases p with
    | object n =>
      obtain ⟨nm, nl, ps⟩ := n
      rfl
    | leaf l =>
      have hname : l.name = a := by simpa [NProp.name] using find_name hf
      cases hfast : l.fast with
      | false => simp [hfast]
      | true =>
        simp only [hfast, if_true, Bool.true_and]
        rw [List.getD_eq_getElem?_getD, List.getElem?_map, List.getElem?_eq_getElem hg]
        rw [List.getD_eq_getElem?_getD, List.getElem?_eq_getElem hg]
        simp [hname]

/-- **the simulation**: over the columns written for the objects `objs` of a nested path, the
code's evaluation at object index `g` equals the documented semantics on the `g`-th object — for
every list of objects (any number of parents) and every filter whose leaf clauses name plain
fields -/
theorem eval_sim (fold : σ → σ) : ∀ (fuel : Nat) (props : NProps σ) (objs : List (PObj σ))
    (g : Nat) (f : Filter σ), g < objs.length → f.allPlain = true →
    Col.eval fold fuel (flattenProps props objs) (some g) f =
      Spec.eval fold fuel props (objs.getD g (none, .nil)).2 f
  | 0, _, _, _, _, _, _ => by simp [Col.eval, Spec.eval]
  | n + 1, props, objs, g, f, hg, hp => by
    cases f with
    | leaf path c =>
      simp only [Filter.allPlain, beq_iff_eq] at hp
      match path, hp with
      | [a], _ =>
        simp only [Col.eval, Spec.eval]
        exact leaf_sim fold c props objs g a hg
    | nested r q =>
      simp only [Col.eval, Spec.eval]
      apply bind_sim props objs g r _ _ hg
      intro nm nl ps j _ hj
      exact eval_sim fold n ps (childObjsFrom nm 0 objs) j q hj
        (by simpa [Filter.allPlain] using hp)
    | and fs =>
      simp only [Filter.allPlain] at hp
      simp only [Col.eval, Spec.eval]
      congr 1
      · apply all_congr'
        intro q hq
        exact eval_sim fold n props objs g q hg (allPlain_mem hp (List.mem_filter.mp hq).1)
      · apply all_congr'
        intro r _
        apply bind_sim props objs g r _ _ hg
        intro nm nl ps j _ hj
        exact eval_sim fold n ps (childObjsFrom nm 0 objs) j (.and (inners r fs)) hj
          (by simpa [Filter.allPlain] using allPlain_inners r hp)
    | or fs =>
      simp only [Filter.allPlain] at hp
      simp only [Col.eval, Spec.eval]
      apply any_congr'
      intro q hq
      exact eval_sim fold n props objs g q hg (allPlain_mem hp hq)
    | not q =>
      simp only [Col.eval, Spec.eval]
      rw [eval_sim fold n props objs g q hg (by simpa [Filter.allPlain] using hp)]

end SL.Filter
