import SLModel.Core.Filter
/-!
# Lemmas/Filter — the columns of a document with at most one carrier per nested path are
faithful (`eval_sim`), used by `Props/C08`
-/
set_option linter.unusedSectionVars false
set_option linter.unusedSimpArgs false
set_option linter.unusedVariables false
namespace SL.Filter
open SL.Doc

variable {σ : Type} [DecidableEq σ]

/-! ## lists -/

theorem all_congr' {α : Type} {l : List α} {f g : α → Bool} (h : ∀ x, x ∈ l → f x = g x) :
    l.all f = l.all g := by
  induction l with
  | nil => rfl
  | cons a t ih =>
    simp only [List.all_cons]
    rw [h a (List.mem_cons_self ..), ih (fun x hx => h x (List.mem_cons_of_mem _ hx))]

theorem any_congr' {α : Type} {l : List α} {f g : α → Bool} (h : ∀ x, x ∈ l → f x = g x) :
    l.any f = l.any g := by
  induction l with
  | nil => rfl
  | cons a t ih =>
    simp only [List.any_cons]
    rw [h a (List.mem_cons_self ..), ih (fun x hx => h x (List.mem_cons_of_mem _ hx))]

theorem any_range_congr {n : Nat} {f g : Nat → Bool} (h : ∀ j, j < n → f j = g j) :
    (List.range n).any f = (List.range n).any g :=
  any_congr' (fun j hj => h j (List.mem_range.mp hj))

theorem any_range_false {n : Nat} {f : Nat → Bool} (h : ∀ j, j < n → f j = false) :
    (List.range n).any f = false := by
  rw [any_range_congr (g := fun _ => false) h]
  induction n with
  | zero => rfl
  | succ n ih => simp

theorem any_range_getD {α : Type} (d : α) (g : α → Bool) : ∀ (l : List α),
    (List.range l.length).any (fun j => g (l.getD j d)) = l.any g
  | [] => rfl
  | a :: t => by
    have ih := any_range_getD d g t
    simp only [List.length_cons, List.range_succ_eq_map, List.any_cons, List.any_map,
      List.getD_cons_zero]
    congr 1

theorem getD_map_range {α : Type} (n i : Nat) (g : Nat → α) (d : α) :
    ((List.range n).map g).getD i d = if i < n then g i else d := by
  by_cases h : i < n
  · rw [List.getD_eq_getElem?_getD, List.getElem?_eq_getElem (by simpa using h)]
    simp [h]
  · rw [List.getD_eq_getElem?_getD, List.getElem?_eq_none (by simpa using Nat.le_of_not_lt h)]
    simp [h]

/-! ## schema lookups -/

theorem find_name : ∀ {props : NProps σ} {x : σ} {p : NProp σ},
    props.find x = some p → p.name = x
  | .nil, _, _, h => by simp [NProps.find] at h
  | .cons q t, x, p, h => by
    simp only [NProps.find] at h
    split at h
    · rename_i hq
      cases h
      exact hq
    · exact find_name h

/-- the entry found under a name is the column built for the property found under that name -/
theorem find_flattenProps (invs : List (Inv σ)) : ∀ (props : NProps σ) (x : σ),
    (flattenProps props invs).find x =
      match props.find x with
      | none => none
      | some (.leaf l) => some (if l.fast then .leaf l.kind (leafObjs l invs) else .skip)
      | some (.object (.mk nm _ ps)) =>
        some (.child (.mk (lastCount (childInvs nm invs)) (parentsOf (childInvs nm invs))
          (flattenProps ps (childInvs nm invs))))
  | .nil, x => by simp [flattenProps, NEntries.find, NProps.find]
  | .cons (.leaf l) t, x => by
    simp only [flattenProps, NEntries.find, NProps.find, NProp.name]
    by_cases h : l.name = x
    · simp [h]
    · simp only [h, if_false]
      exact find_flattenProps invs t x
  | .cons (.object (.mk nm nl ps)) t, x => by
    simp only [flattenProps, NEntries.find, NProps.find, NProp.name, Nested.name]
    by_cases h : nm = x
    · simp [h]
    · simp only [h, if_false]
      exact find_flattenProps invs t x

theorem singleProps_find : ∀ {props : NProps σ} {os : List (JO σ)} {r nm : σ} {nl : Bool}
    {ps : NProps σ}, singleProps props os = true →
    props.find r = some (.object (.mk nm nl ps)) →
    (match carriersFrom nm 0 os with
     | [] => true
     | [inv] => singleProps ps (objsOf inv.2)
     | _ => false) = true
  | .nil, _, _, _, _, _, _, hf => by simp [NProps.find] at hf
  | .cons (.leaf l) t, os, r, nm, nl, ps, hs, hf => by
    simp only [singleProps] at hs
    simp only [NProps.find, NProp.name] at hf
    by_cases hq : l.name = r
    · simp [hq] at hf
    · simp only [hq, if_false] at hf
      exact singleProps_find hs hf
  | .cons (.object (.mk nm' nl' ps')) t, os, r, nm, nl, ps, hs, hf => by
    simp only [singleProps, Bool.and_eq_true] at hs
    simp only [NProps.find, NProp.name, Nested.name] at hf
    by_cases hq : nm' = r
    · subst hq
      simp only [↓reduceIte, Option.some.injEq, NProp.object.injEq, Nested.mk.injEq] at hf
      obtain ⟨h1, _, h3⟩ := hf
      subst h1 h3
      exact hs.1
    · simp only [hq, if_false] at hf
      exact singleProps_find hs.2 hf

/-! ## one invocation -/

theorem objsOf_of_isNull {v : J σ} (h : v.isNull = true) : objsOf v = [] := by
  cases v <;> simp_all [J.isNull, objsOf]

theorem lastCount_single (par : Option Nat) (v : J σ) :
    lastCount [(par, v)] = (objsOf v).length := by
  simp [lastCount]

theorem maxCount_single (par : Option Nat) (v : J σ) :
    maxCount [(par, v)] = (objsOf v).length := by
  simp [maxCount]

theorem parentsOf_single (k : Nat) (w : J σ) (j : Nat) (hj : j < (objsOf w).length) :
    (parentsOf [(some k, w)]).getD j none = some k := by
  cases w with
  | arr a =>
    simp only [objsOf, List.length_map] at hj
    simp only [parentsOf, List.foldl_cons, List.foldl_nil, parentsStep, Option.getD_none,
      List.length_replicate, Nat.sub_self, List.replicate_zero, List.append_nil,
      Option.getD_some]
    rw [List.getD_eq_getElem?_getD, List.getElem?_append_left (by simpa using hj)]
    simp [hj]
  | obj kv =>
    simp only [objsOf, List.length_singleton] at hj
    have : j = 0 := by omega
    subst this
    simp [parentsOf, parentsStep]
  | null => simp [objsOf] at hj
  | bool b => simp [objsOf] at hj
  | num m e => simp [objsOf] at hj
  | str s => simp [objsOf] at hj

theorem leafObjs_single (l : Leaf σ) (par : Option Nat) (v : J σ) (i : Nat)
    (hi : i < (objsOf v).length) :
    (leafObjs l [(par, v)]).getD i [] =
      collect l.kind ((((objsOf v).getD i .nil).get l.name).getD .null) := by
  unfold leafObjs
  rw [getD_map_range, maxCount_single]
  simp only [hi, if_true, List.flatMap_cons, List.flatMap_nil, List.append_nil]
  rw [List.getD_eq_getElem?_getD, List.getElem?_eq_getElem hi]
  simp

theorem leafObjs_single_one (l : Leaf σ) (par : Option Nat) (v : J σ)
    (h1 : (objsOf v).length = 1) :
    leafObjs l [(par, v)] = [(leafObjs l [(par, v)]).getD 0 []] := by
  have : (leafObjs l [(par, v)]).length = 1 := by
    simp [leafObjs, maxCount_single, h1]
  match hl : leafObjs l [(par, v)], this with
  | [x], _ => simp

/-! ## which objects carry a child -/

/-- object `o` has a non-null value under `r` -/
def carries (o : JO σ) (r : σ) : Bool :=
  match o.get r with
  | some v => !v.isNull
  | none => false

theorem carriers_nil {r : σ} : ∀ {b : Nat} {os : List (JO σ)},
    carriersFrom r b os = [] → ∀ o, o ∈ os → carries o r = false
  | _, [], _, o, ho => by simp at ho
  | b, o' :: t, h, o, ho => by
    simp only [carriersFrom, List.append_eq_nil_iff] at h
    rcases List.mem_cons.mp ho with rfl | ho
    · unfold carries
      cases hg : o.get r with
      | none => rfl
      | some v =>
        cases hn : v.isNull with
        | true => simp [hn]
        | false => simp [hg, hn] at h
    · exact carriers_nil h.2 o ho

theorem carriers_single {r : σ} : ∀ {b : Nat} {os : List (JO σ)} {inv : Inv σ},
    carriersFrom r b os = [inv] →
    ∃ k w, inv = (some (b + k), w) ∧ k < os.length ∧ (os.getD k .nil).get r = some w ∧
      w.isNull = false ∧ ∀ i, i < os.length → i ≠ k → carries (os.getD i .nil) r = false
  | _, [], _, h => by simp [carriersFrom] at h
  | b, o :: t, inv, h => by
    simp only [carriersFrom] at h
    cases hg : o.get r with
    | none =>
      simp only [hg, List.nil_append] at h
      obtain ⟨k, w, h1, h2, h3, h4, h5⟩ := carriers_single h
      refine ⟨k + 1, w, by rw [h1]; congr 2; omega, by simpa using h2, by simpa using h3, h4, ?_⟩
      intro i hi hne
      cases i with
      | zero => simp [carries, hg]
      | succ i =>
        simp only [List.getD_cons_succ]
        exact h5 i (by simpa using hi) (by omega)
    | some v =>
      cases hn : v.isNull with
      | true =>
        simp only [hg, hn, if_true, List.nil_append] at h
        obtain ⟨k, w, h1, h2, h3, h4, h5⟩ := carriers_single h
        refine ⟨k + 1, w, by rw [h1]; congr 2; omega, by simpa using h2, by simpa using h3, h4, ?_⟩
        intro i hi hne
        cases i with
        | zero => simp [carries, hg, hn]
        | succ i =>
          simp only [List.getD_cons_succ]
          exact h5 i (by simpa using hi) (by omega)
      | false =>
        simp only [hg, hn, Bool.false_eq_true, if_false, List.cons_append, List.nil_append,
          List.cons.injEq] at h
        refine ⟨0, v, by rw [← h.1]; rfl, by simp, by simpa using hg, hn, ?_⟩
        intro i hi hne
        cases i with
        | zero => exact absurd rfl hne
        | succ i =>
          simp only [List.getD_cons_succ]
          have hi' : i < t.length := by simpa using hi
          have : t.getD i .nil ∈ t := by
            rw [List.getD_eq_getElem?_getD, List.getElem?_eq_getElem hi']
            simp
          exact carriers_nil h.2 _ this

theorem Spec.bind_not_carrier (props : NProps σ) (o : JO σ) (r : σ)
    (ks : NProps σ → JO σ → Bool) (h : carries o r = false) : Spec.bind props o r ks = false := by
  unfold Spec.bind
  unfold carries at h
  cases hf : props.find r with
  | none => rfl
  | some p =>
    cases p with
    | leaf l => rfl
    | object n =>
      cases hg : o.get r with
      | none => rfl
      | some v =>
        simp only [hg, Bool.not_eq_eq_eq_not, Bool.not_false] at h
        simp [objsOf_of_isNull h]

/-! ## the simulation -/

/-- the object loop of the code over the columns of a single invocation finds exactly the objects
of the child value of the bound object -/
theorem bind_sim (props : NProps σ) (par : Option Nat) (v : J σ) (i : Nat) (idx : Option Nat)
    (r : σ) (kc : NEntries σ → Nat → Bool) (ks : NProps σ → JO σ → Bool)
    (hs : singleProps props (objsOf v) = true) (hi : i < (objsOf v).length)
    (hidx : idx = some i ∨ (idx = none ∧ (objsOf v).length = 1))
    (hk : ∀ (nm : σ) (nl : Bool) (ps : NProps σ) (k : Nat) (w : J σ) (j : Nat),
        props.find r = some (.object (.mk nm nl ps)) → singleProps ps (objsOf w) = true →
        j < (objsOf w).length →
        kc (flattenProps ps [(some k, w)]) j = ks ps ((objsOf w).getD j .nil)) :
    Col.bind (flattenProps props [(par, v)]) idx r kc =
      Spec.bind props ((objsOf v).getD i .nil) r ks := by
  unfold Col.bind
  rw [find_flattenProps]
  cases hf : props.find r with
  | none => simp [Spec.bind, hf]
  | some p =>
    cases p with
    | leaf l =>
      cases hfast : l.fast <;> simp [Spec.bind, hf, hfast]
    | object c =>
      obtain ⟨nm, nl, ps⟩ := c
      have hnm : nm = r := by simpa [NProp.name, Nested.name] using find_name hf
      have hsingle := singleProps_find hs hf
      have hci : childInvs nm [(par, v)] = carriersFrom nm 0 (objsOf v) := by
        simp [childInvs]
      simp only [hci]
      cases hc : carriersFrom nm 0 (objsOf v) with
      | nil =>
        have hnc := carriers_nil hc ((objsOf v).getD i .nil) (by
          rw [List.getD_eq_getElem?_getD, List.getElem?_eq_getElem hi]; simp)
        rw [hnm] at hnc
        rw [Spec.bind_not_carrier props _ r ks hnc]
        simp [lastCount]
      | cons inv rest =>
        cases rest with
        | cons x y => simp [hc] at hsingle
        | nil =>
          simp only [hc] at hsingle
          obtain ⟨k, w, hinv, hklt, hget, hwn, hothers⟩ := carriers_single hc
          subst hinv
          simp only [Nat.zero_add] at hsingle ⊢
          simp only [lastCount_single]
          by_cases hki : k = i
          · subst hki
            have hspec : Spec.bind props ((objsOf v).getD k .nil) r ks = (objsOf w).any (ks ps) := by
              unfold Spec.bind
              rw [hf]
              simp only [Nested.props]
              rw [← hnm, hget]
            rw [hspec, ← any_range_getD .nil (ks ps) (objsOf w)]
            apply any_range_congr
            intro j hj
            rw [hk nm nl ps k w j hf hsingle hj]
            rcases hidx with h | ⟨h, _⟩
            · subst h
              show ((parentsOf [(some k, w)]).getD j none == some k && _) = _
              rw [parentsOf_single k w j hj]
              simp
            · subst h
              simp
          · have hnc := hothers i hi (Ne.symm hki)
            rw [hnm] at hnc
            rw [Spec.bind_not_carrier props _ r ks hnc]
            rcases hidx with h | ⟨_, h1⟩
            · subst h
              apply any_range_false
              intro j hj
              show ((parentsOf [(some k, w)]).getD j none == some i && _) = false
              rw [parentsOf_single k w j hj]
              simp [hki]
            · omega

theorem allPlain_mem : ∀ {fs : List (Filter σ)} {g : Filter σ},
    allPlainList fs = true → g ∈ fs → g.allPlain = true
  | [], _, _, hg => by simp at hg
  | f :: t, g, h, hg => by
    simp only [allPlainList, Bool.and_eq_true] at h
    rcases List.mem_cons.mp hg with rfl | hg
    · exact h.1
    · exact allPlain_mem h.2 hg

theorem allPlain_inners (r : σ) : ∀ {fs : List (Filter σ)},
    allPlainList fs = true → allPlainList (inners r fs) = true
  | [], _ => rfl
  | f :: t, h => by
    simp only [allPlainList, Bool.and_eq_true] at h
    have ih := allPlain_inners r h.2
    cases f with
    | nested q g =>
      simp only [inners]
      split
      · simp only [allPlainList, Bool.and_eq_true]
        exact ⟨by simpa [Filter.allPlain] using h.1, ih⟩
      · exact ih
    | leaf p c => simpa [inners] using ih
    | and gs => simpa [inners] using ih
    | or gs => simpa [inners] using ih
    | not g => simpa [inners] using ih

theorem leaf_sim (fold : σ → σ) (c : Clause σ) (props : NProps σ) (par : Option Nat) (v : J σ)
    (i : Nat) (idx : Option Nat) (a : σ) (hi : i < (objsOf v).length)
    (hidx : idx = some i ∨ (idx = none ∧ (objsOf v).length = 1)) :
    Col.leafPasses fold c idx (flattenProps props [(par, v)]) [a] =
      Spec.leafPasses fold c props ((objsOf v).getD i .nil) [a] := by
  simp only [Col.leafPasses, Spec.leafPasses]
  rw [find_flattenProps]
  cases hf : props.find a with
  | none => rfl
  | some p =>
    cases p with
    | object n =>
      obtain ⟨nm, nl, ps⟩ := n
      rfl
    | leaf l =>
      have hname : l.name = a := by simpa [NProp.name] using find_name hf
      cases hfast : l.fast with
      | false => simp [hfast]
      | true =>
        simp only [hfast, if_true, Bool.true_and]
        rcases hidx with h | ⟨h, h1⟩
        · subst h
          simp only [leafObjs_single l par v i hi, hname]
        · subst h
          have i0 : i = 0 := by omega
          subst i0
          rw [leafObjs_single_one l par v h1]
          simp only [List.any_cons, List.any_nil, Bool.or_false]
          rw [leafObjs_single l par v 0 hi, hname]

/-- **the simulation**: over the columns of a single invocation whose objects have at most one
carrier per child path (recursively), the code's evaluation at object `i` equals the documented
semantics on the `i`-th object — for filters whose leaf clauses name plain fields -/
theorem eval_sim (fold : σ → σ) : ∀ (fuel : Nat) (props : NProps σ) (par : Option Nat)
    (v : J σ) (i : Nat) (idx : Option Nat) (f : Filter σ),
    singleProps props (objsOf v) = true → i < (objsOf v).length →
    (idx = some i ∨ (idx = none ∧ (objsOf v).length = 1)) → f.allPlain = true →
    Col.eval fold fuel (flattenProps props [(par, v)]) idx f =
      Spec.eval fold fuel props ((objsOf v).getD i .nil) f
  | 0, _, _, _, _, _, _, _, _, _, _ => by simp [Col.eval, Spec.eval]
  | n + 1, props, par, v, i, idx, f, hs, hi, hidx, hp => by
    cases f with
    | leaf path c =>
      simp only [Filter.allPlain, beq_iff_eq] at hp
      match path, hp with
      | [a], _ =>
        simp only [Col.eval, Spec.eval]
        exact leaf_sim fold c props par v i idx a hi hidx
    | nested r g =>
      simp only [Col.eval, Spec.eval]
      apply bind_sim props par v i idx r _ _ hs hi hidx
      intro nm nl ps k w j _ hs' hj
      exact eval_sim fold n ps (some k) w j (some j) g hs' hj (Or.inl rfl)
        (by simpa [Filter.allPlain] using hp)
    | and fs =>
      simp only [Filter.allPlain] at hp
      simp only [Col.eval, Spec.eval]
      congr 1
      · apply all_congr'
        intro g hg
        exact eval_sim fold n props par v i idx g hs hi hidx
          (allPlain_mem hp (List.mem_filter.mp hg).1)
      · apply all_congr'
        intro r _
        apply bind_sim props par v i idx r _ _ hs hi hidx
        intro nm nl ps k w j _ hs' hj
        exact eval_sim fold n ps (some k) w j (some j) (.and (inners r fs)) hs' hj (Or.inl rfl)
          (by simpa [Filter.allPlain] using allPlain_inners r hp)
    | or fs =>
      simp only [Filter.allPlain] at hp
      simp only [Col.eval, Spec.eval]
      apply any_congr'
      intro g hg
      exact eval_sim fold n props par v i idx g hs hi hidx (allPlain_mem hp hg)
    | not g =>
      simp only [Col.eval, Spec.eval]
      rw [eval_sim fold n props par v i idx g hs hi hidx (by simpa [Filter.allPlain] using hp)]

end SL.Filter
