import SLModel.Lemmas.Filter
/-!
# Lemmas/FilterMore — dotted top-level paths (`eval_top_sim`) and fuel independence of the
documented semantics (`Spec.eval_fuel`)
-/
set_option linter.unusedSectionVars false
set_option linter.unusedSimpArgs false
set_option linter.unusedVariables false
namespace SL.Filter
open SL.Doc

variable {σ : Type} [DecidableEq σ]

/-! ## sizes -/

theorem Filter.size_pos (f : Filter σ) : 1 ≤ f.size := by
  cases f <;> simp [Filter.size]

theorem size_le_sizeList : ∀ {fs : List (Filter σ)} {g : Filter σ}, g ∈ fs → g.size ≤ sizeList fs
  | [], _, h => by simp at h
  | f :: t, g, h => by
    simp only [sizeList]
    rcases List.mem_cons.mp h with rfl | h
    · omega
    · have := size_le_sizeList h
      omega

theorem mem_groupPaths {r : σ} : ∀ {fs : List (Filter σ)}, r ∈ groupPaths fs →
    ∃ g, Filter.nested r g ∈ fs
  | [], h => by simp [groupPaths] at h
  | f :: t, h => by
    cases f with
    | nested q g =>
      simp only [groupPaths] at h
      split at h
      · obtain ⟨g', hg'⟩ := mem_groupPaths h
        exact ⟨g', List.mem_cons_of_mem _ hg'⟩
      · rcases List.mem_cons.mp h with rfl | h
        · exact ⟨g, List.mem_cons_self ..⟩
        · obtain ⟨g', hg'⟩ := mem_groupPaths h
          exact ⟨g', List.mem_cons_of_mem _ hg'⟩
    | leaf p c =>
      obtain ⟨g', hg'⟩ := mem_groupPaths (by simpa [groupPaths] using h)
      exact ⟨g', List.mem_cons_of_mem _ hg'⟩
    | and gs =>
      obtain ⟨g', hg'⟩ := mem_groupPaths (by simpa [groupPaths] using h)
      exact ⟨g', List.mem_cons_of_mem _ hg'⟩
    | or gs =>
      obtain ⟨g', hg'⟩ := mem_groupPaths (by simpa [groupPaths] using h)
      exact ⟨g', List.mem_cons_of_mem _ hg'⟩
    | not g =>
      obtain ⟨g', hg'⟩ := mem_groupPaths (by simpa [groupPaths] using h)
      exact ⟨g', List.mem_cons_of_mem _ hg'⟩

theorem sizeList_inners_le (r : σ) : ∀ (fs : List (Filter σ)),
    sizeList (inners r fs) ≤ sizeList fs
  | [] => by simp [inners, sizeList]
  | f :: t => by
    have ih := sizeList_inners_le r t
    cases f with
    | nested q g =>
      simp only [inners]
      split <;> simp only [sizeList, Filter.size] <;> omega
    | leaf p c => simp only [inners, sizeList, Filter.size]; omega
    | and gs => simp only [inners, sizeList, Filter.size]; omega
    | or gs => simp only [inners, sizeList, Filter.size]; omega
    | not g => simp only [inners, sizeList, Filter.size]; omega

/-- removing the `Nested` wrappers of a path that occurs makes the list strictly smaller -/
theorem sizeList_inners_lt {r : σ} : ∀ {fs : List (Filter σ)} {g : Filter σ},
    Filter.nested r g ∈ fs → sizeList (inners r fs) + 1 ≤ sizeList fs
  | [], _, h => by simp at h
  | f :: t, g, h => by
    rcases List.mem_cons.mp h with rfl | h
    · have := sizeList_inners_le r t
      simp only [inners, if_true, sizeList, Filter.size]
      omega
    · have ih := sizeList_inners_lt h
      cases f with
      | nested q g' =>
        simp only [inners]
        split <;> simp only [sizeList, Filter.size] <;> omega
      | leaf p c => simp only [inners, sizeList, Filter.size]; omega
      | and gs => simp only [inners, sizeList, Filter.size]; omega
      | or gs => simp only [inners, sizeList, Filter.size]; omega
      | not g' => simp only [inners, sizeList, Filter.size]; omega

/-! ## the documented semantics does not depend on the fuel -/

theorem Spec.bind_congr (props : NProps σ) (kv : JO σ) (r : σ)
    {k k' : NProps σ → JO σ → Bool} (h : ∀ p o, k p o = k' p o) :
    Spec.bind props kv r k = Spec.bind props kv r k' := by
  have : k = k' := funext (fun p => funext (h p))
  rw [this]

/-- any fuel of at least the size of the filter gives the same answer -/
theorem Spec.eval_fuel (fold : σ → σ) : ∀ (n : Nat) (props : NProps σ) (kv : JO σ)
    (f : Filter σ), f.size ≤ n → Spec.eval fold n props kv f = Spec.eval fold f.size props kv f := by
  intro n
  induction n using Nat.strongRecOn with
  | _ n ih =>
    intro props kv f hf
    cases n with
    | zero =>
      have := Filter.size_pos f
      omega
    | succ n =>
      cases f with
      | leaf path c => simp [Filter.size, Spec.eval]
      | nested r g =>
        simp only [Filter.size] at hf ⊢
        simp only [Spec.eval]
        apply Spec.bind_congr
        intro p o
        exact ih n (by omega) p o g (by omega)
      | not g =>
        simp only [Filter.size] at hf ⊢
        simp only [Spec.eval]
        rw [ih n (by omega) props kv g (by omega)]
      | or fs =>
        simp only [Filter.size] at hf ⊢
        simp only [Spec.eval]
        apply any_congr'
        intro g hg
        have h1 := size_le_sizeList hg
        rw [ih n (by omega) props kv g (by omega),
          ih (sizeList fs) (by omega) props kv g h1]
      | and fs =>
        simp only [Filter.size] at hf ⊢
        simp only [Spec.eval]
        congr 1
        · apply all_congr'
          intro g hg
          have h1 := size_le_sizeList (List.mem_filter.mp hg).1
          rw [ih n (by omega) props kv g (by omega),
            ih (sizeList fs) (by omega) props kv g h1]
        · apply all_congr'
          intro r hr
          obtain ⟨g, hg⟩ := mem_groupPaths hr
          have h1 := sizeList_inners_lt hg
          apply Spec.bind_congr
          intro p o
          have hs : (Filter.and (inners r fs)).size ≤ sizeList fs := by
            simp only [Filter.size]; omega
          rw [ih n (by omega) p o (.and (inners r fs)) (by omega),
            ih (sizeList fs) (by omega) p o (.and (inners r fs)) hs]

/-- the documented semantics at an object, without fuel -/
def Spec.sat (fold : σ → σ) (props : NProps σ) (kv : JO σ) (f : Filter σ) : Bool :=
  Spec.eval fold f.size props kv f

theorem Spec.sat_leaf (fold : σ → σ) (props : NProps σ) (kv : JO σ) (path : List σ)
    (c : Clause σ) :
    Spec.sat fold props kv (.leaf path c) = Spec.leafPasses fold c props kv path := by
  simp [Spec.sat, Filter.size, Spec.eval]

theorem Spec.sat_not (fold : σ → σ) (props : NProps σ) (kv : JO σ) (g : Filter σ) :
    Spec.sat fold props kv (.not g) = !Spec.sat fold props kv g := by
  simp [Spec.sat, Filter.size, Spec.eval]

theorem Spec.sat_nested (fold : σ → σ) (props : NProps σ) (kv : JO σ) (r : σ) (g : Filter σ) :
    Spec.sat fold props kv (.nested r g) =
      Spec.bind props kv r (fun p o => Spec.sat fold p o g) := by
  simp [Spec.sat, Filter.size, Spec.eval]

theorem Spec.sat_or (fold : σ → σ) (props : NProps σ) (kv : JO σ) (fs : List (Filter σ)) :
    Spec.sat fold props kv (.or fs) = fs.any (Spec.sat fold props kv) := by
  simp only [Spec.sat, Filter.size, Spec.eval]
  apply any_congr'
  intro g hg
  exact Spec.eval_fuel fold _ props kv g (size_le_sizeList hg)

/-- `And`: every other member holds, and for every path named by nested members one object of
that child satisfies all of their inner filters together -/
theorem Spec.sat_and (fold : σ → σ) (props : NProps σ) (kv : JO σ) (fs : List (Filter σ)) :
    Spec.sat fold props kv (.and fs) =
      ((fs.filter (fun f => !f.isNested)).all (Spec.sat fold props kv) &&
       (groupPaths fs).all (fun r =>
         Spec.bind props kv r (fun p o => Spec.sat fold p o (.and (inners r fs))))) := by
  simp only [Spec.sat, Filter.size, Spec.eval]
  congr 1
  · apply all_congr'
    intro g hg
    exact Spec.eval_fuel fold _ props kv g (size_le_sizeList (List.mem_filter.mp hg).1)
  · apply all_congr'
    intro r hr
    obtain ⟨g, hg⟩ := mem_groupPaths hr
    have h1 := sizeList_inners_lt hg
    apply Spec.bind_congr
    intro p o
    exact Spec.eval_fuel fold _ p o (.and (inners r fs)) (by simp only [Filter.size]; omega)

/-! ## dotted paths at the top level -/

mutual
/-- leaf clauses below a `Nested` clause name plain fields (dotted paths are documented at the top
level only) -/
def Filter.plainInside : Filter σ → Bool
  | .leaf _ _ => true
  | .nested _ g => g.allPlain
  | .and fs => plainInsideList fs
  | .or fs => plainInsideList fs
  | .not g => g.plainInside
def plainInsideList : List (Filter σ) → Bool
  | [] => true
  | f :: t => f.plainInside && plainInsideList t
end

theorem plainInside_mem : ∀ {fs : List (Filter σ)} {g : Filter σ},
    plainInsideList fs = true → g ∈ fs → g.plainInside = true
  | [], _, _, hg => by simp at hg
  | f :: t, g, h, hg => by
    simp only [plainInsideList, Bool.and_eq_true] at h
    rcases List.mem_cons.mp hg with rfl | hg
    · exact h.1
    · exact plainInside_mem h.2 hg

theorem allPlain_inners_of_inside (r : σ) : ∀ {fs : List (Filter σ)},
    plainInsideList fs = true → allPlainList (inners r fs) = true
  | [], _ => rfl
  | f :: t, h => by
    simp only [plainInsideList, Bool.and_eq_true] at h
    have ih := allPlain_inners_of_inside r h.2
    cases f with
    | nested q g =>
      simp only [inners]
      split
      · simp only [allPlainList, Bool.and_eq_true]
        exact ⟨by simpa [Filter.plainInside] using h.1, ih⟩
      · exact ih
    | leaf p c => simpa [inners] using ih
    | and gs => simpa [inners] using ih
    | or gs => simpa [inners] using ih
    | not g => simpa [inners] using ih

theorem allPlain_plainInside : ∀ (f : Filter σ), f.allPlain = true → f.plainInside = true := by
  intro f
  induction f using Filter.rec (motive_2 := fun fs => allPlainList fs = true → plainInsideList fs = true) with
  | leaf p c => intro _; rfl
  | nested r g ih => intro h; simpa [Filter.plainInside, Filter.allPlain] using h
  | and fs ih => intro h; simpa [Filter.plainInside, Filter.allPlain] using ih (by simpa [Filter.allPlain] using h)
  | or fs ih => intro h; simpa [Filter.plainInside, Filter.allPlain] using ih (by simpa [Filter.allPlain] using h)
  | not g ih => intro h; simpa [Filter.plainInside, Filter.allPlain] using ih (by simpa [Filter.allPlain] using h)
  | nil => rfl
  | cons f t ihf iht =>
    rename_i h
    simp only [allPlainList, Bool.and_eq_true] at h
    simp only [plainInsideList, Bool.and_eq_true]
    exact ⟨ihf h.1, iht h.2⟩

theorem Col.leafPasses_cons2 (fold : σ → σ) (c : Clause σ) (idx : Option Nat) (es : NEntries σ)
    (a b : σ) (rest : List σ) :
    Col.leafPasses fold c idx es (a :: b :: rest) =
      match es.find a with
      | some (.child (.mk _ _ es')) => Col.leafPasses fold c idx es' (b :: rest)
      | _ => false := by
  rw [Col.leafPasses]
  cases es.find a with
  | none => rfl
  | some e =>
    cases e with
    | leaf _ _ => rfl
    | skip => rfl
    | child c => cases c; rfl

theorem Spec.leafPasses_cons2 (fold : σ → σ) (c : Clause σ) (props : NProps σ) (kv : JO σ)
    (a b : σ) (rest : List σ) :
    Spec.leafPasses fold c props kv (a :: b :: rest) =
      match props.find a with
      | some (.object n) =>
        match kv.get a with
        | some v => (objsOf v).any (fun o => Spec.leafPasses fold c n.props o (b :: rest))
        | none => false
      | _ => false := by
  rw [Spec.leafPasses]
  cases props.find a with
  | none => rfl
  | some p =>
    cases p with
    | leaf _ => rfl
    | object n => cases kv.get a <;> rfl

/-- a dotted path evaluated with "any object" over the columns finds exactly the values reachable
along the path from the objects of the path -/
theorem dotted_any (fold : σ → σ) (c : Clause σ) : ∀ (path : List σ) (props : NProps σ)
    (objs : List (PObj σ)),
    Col.leafPasses fold c none (flattenProps props objs) path =
      objs.any (fun po => Spec.leafPasses fold c props po.2 path)
  | [], props, objs => by
    simp [Col.leafPasses, Spec.leafPasses]
  | [a], props, objs => by
    simp only [Col.leafPasses, Spec.leafPasses]
    rw [find_flattenProps]
    cases hf : props.find a with
    | none => simp
    | some p =>
      cases p with
      | object n => obtain ⟨nm, nl, ps⟩ := n; simp
      | leaf l =>
        have hname : l.name = a := by simpa [NProp.name] using find_name hf
        cases hfast : l.fast with
        | false => simp [hfast]
        | true => simp [hfast, List.any_map, Function.comp_def, hname]
  | a :: b :: rest, props, objs => by
    rw [Col.leafPasses_cons2, find_flattenProps]
    cases hf : props.find a with
    | none =>
      simp only [Spec.leafPasses_cons2, hf]
      simp
    | some p =>
      cases p with
      | leaf l =>
        simp only [Spec.leafPasses_cons2, hf]
        cases hfast : l.fast <;> simp [hfast]
      | object n =>
        obtain ⟨nm, nl, ps⟩ := n
        have hnm : nm = a := by simpa [NProp.name, Nested.name] using find_name hf
        simp only
        rw [dotted_any fold c (b :: rest) ps (childObjsFrom nm 0 objs)]
        rw [any_childObjs nm (fun o => Spec.leafPasses fold c ps o (b :: rest)) objs 0]
        apply any_congr'
        intro po _
        simp only [Spec.leafPasses_cons2, hf, Nested.props, childAny, hnm]
        cases po.2.get a <;> rfl

/-- the simulation at the top level: as `eval_sim` with "no object index", where leaf clauses
may name dotted paths -/
theorem eval_top_sim (fold : σ → σ) : ∀ (fuel : Nat) (props : NProps σ) (po : PObj σ)
    (f : Filter σ), f.plainInside = true →
    Col.eval fold fuel (flattenProps props [po]) none f = Spec.eval fold fuel props po.2 f
  | 0, _, _, _, _ => by simp [Col.eval, Spec.eval]
  | n + 1, props, po, f, hp => by
    cases f with
    | leaf path c =>
      simp only [Col.eval, Spec.eval]
      rw [dotted_any fold c path props [po]]
      simp
    | nested r q =>
      simp only [Col.eval, Spec.eval]
      rw [bind_none_eq]
      have := bind_sim props [po] 0 r (fun es' j => Col.eval fold n es' (some j) q)
        (fun p o => Spec.eval fold n p o q) (by simp)
        (fun nm nl ps j _ hj => eval_sim fold n ps (childObjsFrom nm 0 [po]) j q hj
          (by simpa [Filter.plainInside] using hp))
      simpa using this
    | and fs =>
      simp only [Filter.plainInside] at hp
      simp only [Col.eval, Spec.eval]
      congr 1
      · apply all_congr'
        intro q hq
        exact eval_top_sim fold n props po q (plainInside_mem hp (List.mem_filter.mp hq).1)
      · apply all_congr'
        intro r _
        rw [bind_none_eq]
        have := bind_sim props [po] 0 r
          (fun es' j => Col.eval fold n es' (some j) (.and (inners r fs)))
          (fun p o => Spec.eval fold n p o (.and (inners r fs))) (by simp)
          (fun nm nl ps j _ hj => eval_sim fold n ps (childObjsFrom nm 0 [po]) j
            (.and (inners r fs)) hj
            (by simpa [Filter.allPlain] using allPlain_inners_of_inside r hp))
        simpa using this
    | or fs =>
      simp only [Filter.plainInside] at hp
      simp only [Col.eval, Spec.eval]
      apply any_congr'
      intro q hq
      exact eval_top_sim fold n props po q (plainInside_mem hp hq)
    | not q =>
      simp only [Col.eval, Spec.eval]
      rw [eval_top_sim fold n props po q (by simpa [Filter.plainInside] using hp)]

end SL.Filter
