import SLModel.Core.HistFill
/-! Lemmas for `Core/HistFill` (used by `Props/C16`). -/
namespace SL.HistFill

theorem keysFrom_snoc : ∀ (n : Nat) (s : Int), keysFrom s (n + 1) = keysFrom s n ++ [s + n]
  | 0, s => by simp [keysFrom]
  | n + 1, s => by
    have := keysFrom_snoc n (s + 1)
    simp only [keysFrom] at this ⊢
    rw [this]
    simp
    omega

theorem keysFrom_length : ∀ (n : Nat) (s : Int), (keysFrom s n).length = n
  | 0, _ => rfl
  | n + 1, s => by simp [keysFrom, keysFrom_length n]

/-- the repaired loop from `cur` with `stop - cur = d`: done after `d + 1` insertions -/
theorem fill_spec : ∀ (d : Nat) (cur stop : Int) (acc : List Int), stop ≤ i64Max → stop - cur = d →
    fill (d + 1) cur stop acc = some (.done (acc ++ keysFrom cur (d + 1)))
  | 0, cur, stop, acc, _, hd => by
    have : cur = stop := by omega
    subst this
    simp [fill, keysFrom]
  | d + 1, cur, stop, acc, hmax, hd => by
    have hle : cur ≤ stop := by omega
    have hne : ¬ cur = stop := by omega
    have hnm : ¬ cur = i64Max := by omega
    rw [fill]
    simp only [hle, hne, hnm, if_true, if_false]
    rw [fill_spec d (cur + 1) stop (acc ++ [cur]) hmax (by omega)]
    simp [keysFrom]

/-- more fuel does not change a result -/
theorem fill_fuel_mono : ∀ (n : Nat) (cur stop : Int) (acc : List Int) (r : Out),
    fill n cur stop acc = some r → fill (n + 1) cur stop acc = some r
  | 0, _, _, _, _, h => by simp [fill] at h
  | n + 1, cur, stop, acc, r, h => by
    rw [fill] at h ⊢
    split
    · rename_i hle
      simp only [hle, if_true] at h
      split
      · rename_i he; simpa [he] using h
      · rename_i he
        simp only [he, if_false] at h
        split
        · rename_i hm; simpa [hm] using h
        · rename_i hm
          simp only [hm, if_false] at h
          exact fill_fuel_mono n (cur + 1) stop (acc ++ [cur]) r h
    · rename_i hle
      simpa [hle] using h

/-- date fill: with a step of at least 1 the loop ends within `stop - cur + 1` iterations -/
theorem dateFill_terminates (step : Int) (hs : 1 ≤ step) : ∀ (n : Nat) (cur stop : Int) (k : Nat),
    stop - cur < n → ∃ r, dateFill step (n + 1) cur stop k = some r
  | 0, cur, stop, k, h => by
    have : ¬ cur ≤ stop := by omega
    exact ⟨.past k, by simp [dateFill, this]⟩
  | n + 1, cur, stop, k, h => by
    rw [dateFill]
    split
    · split
      · exact ⟨_, rfl⟩
      · exact dateFill_terminates step hs n (cur + step) stop (k + 1) (by omega)
    · exact ⟨_, rfl⟩

/-- date fill with step 0 (legacy: accepted by validation): whatever the fuel, never done -/
theorem dateFill_zero_never : ∀ (n : Nat) (cur stop : Int) (k : Nat), cur ≤ stop → inI64 cur = true →
    dateFill 0 n cur stop k = none
  | 0, _, _, _, _, _ => rfl
  | n + 1, cur, stop, k, hle, hin => by
    have h1 : ¬ (cur + 0 > i64Max ∨ cur + 0 < i64Min) := by
      simp only [inI64, Bool.and_eq_true, decide_eq_true_eq] at hin
      omega
    rw [dateFill]
    simp only [hle, if_true, h1, if_false]
    have : cur + 0 = cur := by omega
    rw [this]
    exact dateFill_zero_never n cur stop (k + 1) hle hin

end SL.HistFill
