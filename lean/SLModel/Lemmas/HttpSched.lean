import SLModel.Core.HttpSched
/-!
# Lemmas/HttpSched — with the lock taken first, every interleaving of handler steps is serial
-/
set_option linter.unusedSectionVars false
namespace SL.HttpSched
open SL.Contents

variable {ι δ : Type} [DecidableEq ι]

/-- the thread is inside its critical section -/
def holds (x : Th ι δ) : Bool :=
  match x.job with
  | .write _ => x.pc == 1 || x.pc == 2
  | .commit => x.pc == 1 || x.pc == 2 || x.pc == 3

/-- a commit handler that has taken its snapshot and not yet applied it -/
def snapped (x : Th ι δ) : Bool :=
  match x.job with
  | .write _ => false
  | .commit => x.pc == 2

structure Inv (proj : δ → δ) (s : St ι δ) : Prop where
  /-- mutual exclusion: whoever is inside holds the lock -/
  excl : ∀ u, holds (s.th u) = true → s.lock = some u
  /-- a snapshot waiting to be applied is the current log -/
  snap : ∀ u, snapped (s.th u) = true → (s.th u).snap = s.log
  /-- the state is the atomic execution of the jobs in the order of their effect steps -/
  flat : (s.committed, s.log) = serial proj s.hist ([], [])

theorem serial_append (proj : δ → δ) (js ks : List (Job ι δ)) (f : List (ι × δ) × List (Op ι δ)) :
    serial proj (js ++ ks) f = serial proj ks (serial proj js f) := by
  induction js generalizing f with
  | nil => rfl
  | cons j js ih => cases j <;> simp [serial, ih]

theorem upd_same {α : Type} (f : Nat → α) (t : Nat) (v : α) : upd f t v t = v := by simp [upd]

theorem upd_other {α : Type} (f : Nat → α) (t u : Nat) (v : α) (h : u ≠ t) : upd f t v u = f u := by
  simp [upd, h]

theorem inv_start (proj : δ → δ) (jobs : Nat → Job ι δ) : Inv proj (start jobs) := by
  constructor
  · intro u h
    simp only [start, holds] at h
    cases hj : jobs u <;> simp [hj] at h
  · intro u h
    simp only [start, snapped] at h
    cases hj : jobs u <;> simp [hj] at h
  · rfl

/-- a thread other than the lock holder is outside, and is no snapshot holder -/
theorem outside_of_lock {proj : δ → δ} {s : St ι δ} (hi : Inv proj s) {t u : Nat}
    (hl : s.lock = some t) (hne : u ≠ t) : holds (s.th u) = false := by
  cases h : holds (s.th u) with
  | false => rfl
  | true =>
    have := hi.excl u h
    rw [hl] at this
    exact absurd (Option.some.inj this).symm hne

theorem snapped_holds (x : Th ι δ) (h : snapped x = true) : holds x = true := by
  unfold snapped at h
  unfold holds
  cases hj : x.job with
  | write ops => simp [hj] at h
  | commit => simp [hj] at h; simp [h]

theorem step_inv (proj : δ → δ) {s : St ι δ} (hi : Inv proj s) (t : Nat) :
    Inv proj (step true proj s t) := by
  unfold step
  cases hj : (s.th t).job with
  | write ops =>
    simp only []
    unfold stepWrite
    match hpc : (s.th t).pc with
    | 0 =>
      simp only []
      cases hl : s.lock with
      | some w => simp only [Option.isNone_some, Bool.false_eq_true, if_false]; exact hi
      | none =>
        simp only [Option.isNone_none, if_true]
        refine ⟨?_, ?_, hi.flat⟩
        · intro u hu
          by_cases e : u = t
          · rw [e]
          · simp only [upd_other _ _ _ _ e] at hu
            have := hi.excl u hu
            rw [hl] at this; cases this
        · intro u hu
          by_cases e : u = t
          · subst e; simp [upd_same, snapped, hj] at hu
          · simp only [upd_other _ _ _ _ e] at hu ⊢
            exact hi.snap u hu
    | 1 =>
      simp only []
      have ht : holds (s.th t) = true := by simp [holds, hj, hpc]
      have hl := hi.excl t ht
      refine ⟨?_, ?_, ?_⟩
      · intro u hu
        by_cases e : u = t
        · rw [e]; exact hl
        · simp only [upd_other _ _ _ _ e] at hu
          exact hi.excl u hu
      · intro u hu
        by_cases e : u = t
        · subst e; simp [upd_same, snapped, hj] at hu
        · simp only [upd_other _ _ _ _ e] at hu
          have := outside_of_lock hi hl e
          rw [snapped_holds _ hu] at this; cases this
      · show (s.committed, s.log ++ ops) = serial proj (s.hist ++ [Job.write ops]) ([], [])
        rw [serial_append, ← hi.flat]
        rfl
    | 2 =>
      simp only []
      have ht : holds (s.th t) = true := by simp [holds, hj, hpc]
      have hl := hi.excl t ht
      refine ⟨?_, ?_, hi.flat⟩
      · intro u hu
        by_cases e : u = t
        · subst e; simp [upd_same, holds, hj] at hu
        · simp only [upd_other _ _ _ _ e] at hu
          have := outside_of_lock hi hl e
          rw [hu] at this; cases this
      · intro u hu
        by_cases e : u = t
        · subst e; simp [upd_same, snapped, hj] at hu
        · simp only [upd_other _ _ _ _ e] at hu ⊢
          exact hi.snap u hu
    | n + 3 => exact hi
  | commit =>
    simp only [if_true]
    unfold stepCommitL
    match hpc : (s.th t).pc with
    | 0 =>
      simp only []
      cases hl : s.lock with
      | some w => simp only [Option.isNone_some, Bool.false_eq_true, if_false]; exact hi
      | none =>
        simp only [Option.isNone_none, if_true]
        refine ⟨?_, ?_, hi.flat⟩
        · intro u hu
          by_cases e : u = t
          · rw [e]
          · simp only [upd_other _ _ _ _ e] at hu
            have := hi.excl u hu
            rw [hl] at this; cases this
        · intro u hu
          by_cases e : u = t
          · subst e; simp [upd_same, snapped, hj] at hu
          · simp only [upd_other _ _ _ _ e] at hu ⊢
            exact hi.snap u hu
    | 1 =>
      simp only []
      have ht : holds (s.th t) = true := by simp [holds, hj, hpc]
      have hl := hi.excl t ht
      refine ⟨?_, ?_, hi.flat⟩
      · intro u hu
        by_cases e : u = t
        · rw [e]; exact hl
        · simp only [upd_other _ _ _ _ e] at hu
          exact hi.excl u hu
      · intro u hu
        by_cases e : u = t
        · subst e; simp [upd_same]
        · simp only [upd_other _ _ _ _ e] at hu ⊢
          exact hi.snap u hu
    | 2 =>
      simp only []
      have ht : holds (s.th t) = true := by simp [holds, hj, hpc]
      have hl := hi.excl t ht
      have hs : (s.th t).snap = s.log := hi.snap t (by simp [snapped, hj, hpc])
      refine ⟨?_, ?_, ?_⟩
      · intro u hu
        by_cases e : u = t
        · rw [e]; exact hl
        · simp only [upd_other _ _ _ _ e] at hu
          exact hi.excl u hu
      · intro u hu
        by_cases e : u = t
        · subst e; simp [upd_same, snapped, hj] at hu
        · simp only [upd_other _ _ _ _ e] at hu
          have := outside_of_lock hi hl e
          rw [snapped_holds _ hu] at this; cases this
      · show ((s.th t).snap.foldl (Spec.apply proj) s.committed, ([] : List (Op ι δ)))
            = serial proj (s.hist ++ [Job.commit]) ([], [])
        rw [serial_append, ← hi.flat, hs]
        rfl
    | 3 =>
      simp only []
      have ht : holds (s.th t) = true := by simp [holds, hj, hpc]
      have hl := hi.excl t ht
      refine ⟨?_, ?_, hi.flat⟩
      · intro u hu
        by_cases e : u = t
        · subst e; simp [upd_same, holds, hj] at hu
        · simp only [upd_other _ _ _ _ e] at hu
          have := outside_of_lock hi hl e
          rw [hu] at this; cases this
      · intro u hu
        by_cases e : u = t
        · subst e; simp [upd_same, snapped, hj] at hu
        · simp only [upd_other _ _ _ _ e] at hu ⊢
          exact hi.snap u hu
    | n + 4 => exact hi

theorem run_inv (proj : δ → δ) (sched : List Nat) :
    ∀ {s : St ι δ}, Inv proj s → Inv proj (run true proj s sched) := by
  induction sched with
  | nil => intro s hi; exact hi
  | cons t ts ih => intro s hi; exact ih (step_inv proj hi t)

/-- operations of the write jobs of a history, in order -/
def histOps : List (Job ι δ) → List (Op ι δ)
  | [] => []
  | .write ops :: js => ops ++ histOps js
  | .commit :: js => histOps js

/-- the atomic semantics never loses an operation: committed-then-pending folds to the fold of
every write of the history, in order -/
theorem serial_total (proj : δ → δ) (js : List (Job ι δ)) :
    ∀ (f : List (ι × δ) × List (Op ι δ)),
      (serial proj js f).2.foldl (Spec.apply proj) (serial proj js f).1
        = (f.2 ++ histOps js).foldl (Spec.apply proj) f.1 := by
  induction js with
  | nil => intro f; simp [serial, histOps]
  | cons j js ih =>
    intro f
    cases j with
    | write ops => simp only [serial, histOps, ih]; simp [List.append_assoc]
    | commit => simp only [serial, histOps, ih]; simp [List.foldl_append]

end SL.HttpSched
