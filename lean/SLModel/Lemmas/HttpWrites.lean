import SLModel.Core.HttpWrites
import SLModel.Lemmas.ContentsInv
/-!
# Lemmas/HttpWrites — simulation of the call-level denotation by the (committed, pending) fold,
and refinement of the mechanism run (segments) for the extended call set.
-/
set_option linter.unusedSectionVars false
namespace SL.HttpWrites
open SL.Contents

variable {ι δ : Type} [DecidableEq ι]

/-- spec state between two requests: no handle, append-only log -/
def R (c : List (ι × δ)) (ops : List (Op ι δ)) (n : Nat) : Spec.St ι δ :=
  { committed := c, log := .fs ops, handles := [], nextSer := n }

/-- spec state inside a request: the request's writer handle with queue `q` -/
def W (c : List (ι × δ)) (ops q : List (Op ι δ)) (n : Nat) : Spec.St ι δ :=
  { committed := c, log := .fs ops, handles := [(0, { queue := q, pos := 0 })], nextSer := n }

theorem init_eq : (Spec.init false : Spec.St ι δ) = R [] [] 0 := rfl

theorem step_newWriter (proj : δ → δ) (c : List (ι × δ)) (ops : List (Op ι δ)) (n : Nat) :
    specStep proj (R c ops n) (.lib (.newWriter 0)) = W c ops ops n := by
  simp [specStep, Spec.step, R, W, Log.openCut, Log.pending, Log.len, alDel]

theorem step_op (proj : δ → δ) (c : List (ι × δ)) (ops q : List (Op ι δ)) (n : Nat) (op : Op ι δ) :
    specStep proj (W c ops q n) (.lib (opCall 0 op)) = W c (ops ++ [op]) (q ++ [op]) (n + 1) := by
  cases op <;> simp [specStep, opCall, Spec.step, W, alGet, Log.append, alSet]

theorem fold_ops (proj : δ → δ) (c : List (ι × δ)) (l : List (Op ι δ)) :
    ∀ (ops q : List (Op ι δ)) (n : Nat),
      (l.map (fun op => HCall.lib (opCall 0 op))).foldl (specStep proj) (W c ops q n)
        = W c (ops ++ l) (q ++ l) (n + l.length) := by
  induction l with
  | nil => intro ops q n; simp
  | cons op l ih =>
    intro ops q n
    simp only [List.map_cons, List.foldl_cons, step_op, ih, List.length_cons]
    simp only [List.append_assoc, List.singleton_append]
    congr 1
    omega

theorem step_rollback (proj : δ → δ) (c : List (ι × δ)) (ops q : List (Op ι δ)) (n : Nat) :
    specStep proj (W c ops q n) (.lib (.rollback 0)) = W c [] [] n := by
  simp [specStep, Spec.step, W, alGet, alSet, Log.clear]

theorem step_rollbackOwn (proj : δ → δ) (c : List (ι × δ)) (ops q : List (Op ι δ)) (n k : Nat) :
    specStep proj (W c ops q n) (.rollbackOwn 0 k)
      = W c (ops.take (ops.length - k)) (q.take (q.length - k)) n := by
  simp [specStep, W, alGet, alSet, dropLast]

theorem step_drop (proj : δ → δ) (c : List (ι × δ)) (ops q : List (Op ι δ)) (n : Nat) :
    specStep proj (W c ops q n) (.lib (.dropWriter 0)) = R c ops n := by
  simp [specStep, Spec.step, W, R, alDel]

theorem step_commit (proj : δ → δ) (c : List (ι × δ)) (ops q : List (Op ι δ)) (n : Nat) :
    specStep proj (W c ops q n) (.lib (.commit 0))
      = if q.isEmpty then W c ops q n else W (q.foldl (Spec.apply proj) c) [] [] n := by
  cases q with
  | nil => simp [specStep, Spec.step, W, alGet]
  | cons a q => simp [specStep, Spec.step, W, alGet, alSet, Log.clear]

theorem pending_R (c : List (ι × δ)) (ops : List (Op ι δ)) (n : Nat) :
    (R c ops n).log.pending = ops := rfl

/-- `/add` with at least one document, `/bulk` with a non-empty array -/
theorem fold_ingest (b : Bool) (ru : Rules ι δ) (proj : δ → δ) (c : List (ι × δ))
    (ops : List (Op ι δ)) (n : Nat) (docs : List δ) :
    ∃ n', (ingest b ru 0 docs).foldl (specStep proj) (R c ops n) =
      R c (if (firstOps ru docs).2 then (if b then ops else []) else ops ++ (firstOps ru docs).1) n' := by
  unfold ingest
  cases b with
  | false =>
    simp only [Bool.false_eq_true, if_false, List.foldl_append, List.foldl_cons, List.foldl_nil,
      step_newWriter, fold_ops]
    cases hf : (firstOps ru docs).2 with
    | false =>
      simp only [Bool.false_eq_true, if_false, List.foldl_nil, step_drop]
      exact ⟨_, rfl⟩
    | true =>
      simp only [if_true, List.foldl_cons, List.foldl_nil, step_rollback, step_drop]
      exact ⟨_, rfl⟩
  | true =>
    simp only [if_true, List.foldl_append, List.foldl_cons, List.foldl_nil, step_newWriter]
    cases hf : (firstOps ru docs).2 with
    | false =>
      simp only [Bool.false_eq_true, if_false, fold_ops, step_drop]
      exact ⟨_, rfl⟩
    | true =>
      simp only [if_true, List.foldl_nil, step_drop]
      exact ⟨_, rfl⟩

theorem acked_of_rollsBack (ru : Rules ι δ) (r : Req ι δ) (h : rollsBack ru r = true) :
    ackedOps ru r = [] := by
  cases r <;> simp_all [rollsBack, ackedOps]

/-- **simulation**: one request on the call level = one `flatStep` -/
theorem specServe_R (b : Bool) (ru : Rules ι δ) (proj : δ → δ) (c : List (ι × δ))
    (ops : List (Op ι δ)) (n : Nat) (r : Req ι δ) :
    ∃ n', specServe b ru proj (R c ops n) r =
      R (flatStep b ru proj ⟨c, ops⟩ r).committed (flatStep b ru proj ⟨c, ops⟩ r).pending n' := by
  cases r with
  | add docs =>
    cases hd : docs.isEmpty with
    | true =>
      have : docs = [] := by simpa using hd
      subst this
      exact ⟨n, by simp [specServe, denote, flatStep, Req.isCommit, rollsBack, firstOps, ackedOps]⟩
    | false =>
      obtain ⟨n', h⟩ := fold_ingest b ru proj c ops n docs
      refine ⟨n', ?_⟩
      simp only [specServe, denote, hd, Bool.false_eq_true, if_false, h]
      cases hf : (firstOps ru docs).2 <;> cases b <;>
        simp [flatStep, Req.isCommit, rollsBack, ackedOps, hf]
  | bulk docs =>
    cases hd : docs.isEmpty with
    | true =>
      have : docs = [] := by simpa using hd
      subst this
      exact ⟨n, by simp [specServe, denote, flatStep, Req.isCommit, rollsBack, firstOps, ackedOps]⟩
    | false =>
      obtain ⟨n', h⟩ := fold_ingest b ru proj c ops n docs
      refine ⟨n', ?_⟩
      simp only [specServe, denote, hd, Bool.false_eq_true, if_false, h]
      cases hf : (firstOps ru docs).2 <;> cases b <;>
        simp [flatStep, Req.isCommit, rollsBack, ackedOps, hf, hd]
  | delete ids =>
    cases hc : (ids.isEmpty || !ids.all ru.idOk) with
    | true =>
      exact ⟨n, by simp [specServe, denote, flatStep, Req.isCommit, rollsBack, ackedOps, hc]⟩
    | false =>
      refine ⟨n + (ids.map (Op.del (δ := δ))).length, ?_⟩
      have hm : ids.map (fun i => (HCall.lib (.del 0 i 1) : HCall ι δ))
          = (ids.map (Op.del (δ := δ))).map (fun op => HCall.lib (opCall 0 op)) := by
        simp [List.map_map, Function.comp_def, opCall]
      simp only [specServe, denote, hc, Bool.false_eq_true, if_false, hm, List.foldl_append,
        List.foldl_cons, List.foldl_nil, step_newWriter, fold_ops, step_drop]
      simp [flatStep, Req.isCommit, rollsBack, ackedOps, hc]
  | malformed =>
    exact ⟨n, by simp [specServe, denote, flatStep, Req.isCommit, rollsBack, ackedOps]⟩
  | commit =>
    refine ⟨n, ?_⟩
    simp only [specServe, denote, List.foldl_cons, List.foldl_nil, step_newWriter, step_commit]
    cases ops with
    | nil => simp [step_drop, flatStep, Req.isCommit]
    | cons a ops => simp [step_drop, flatStep, Req.isCommit]
  | refresh =>
    exact ⟨n, by simp [specServe, denote, flatStep, Req.isCommit, rollsBack, ackedOps]⟩
  | compact =>
    exact ⟨n, by simp [specServe, denote, specStep, Spec.step, flatStep, Req.isCommit, rollsBack, ackedOps]⟩
  | search =>
    exact ⟨n, by simp [specServe, denote, flatStep, Req.isCommit, rollsBack, ackedOps]⟩

def flatFold (b : Bool) (ru : Rules ι δ) (proj : δ → δ) (f : Flat ι δ) (rs : List (Req ι δ)) :
    Flat ι δ :=
  rs.foldl (flatStep b ru proj) f

theorem flatRun_eq (b : Bool) (ru : Rules ι δ) (proj : δ → δ) (rs : List (Req ι δ)) :
    flatRun b ru proj rs = flatFold b ru proj ⟨[], []⟩ rs := rfl

theorem specFold_R (b : Bool) (ru : Rules ι δ) (proj : δ → δ) (rs : List (Req ι δ)) :
    ∀ (c : List (ι × δ)) (ops : List (Op ι δ)) (n : Nat),
      ∃ n', rs.foldl (specServe b ru proj) (R c ops n) =
        R (flatFold b ru proj ⟨c, ops⟩ rs).committed (flatFold b ru proj ⟨c, ops⟩ rs).pending n' := by
  induction rs with
  | nil => intro c ops n; exact ⟨n, rfl⟩
  | cons r rs ih =>
    intro c ops n
    obtain ⟨n1, h1⟩ := specServe_R b ru proj c ops n r
    obtain ⟨n2, h2⟩ := ih (flatStep b ru proj ⟨c, ops⟩ r).committed
      (flatStep b ru proj ⟨c, ops⟩ r).pending n1
    exact ⟨n2, by simp only [List.foldl_cons, h1, h2, flatFold]⟩

/-- the call-level run of a request sequence is the (committed, pending) fold -/
theorem specRun_flat (b : Bool) (ru : Rules ι δ) (proj : δ → δ) (rs : List (Req ι δ)) :
    ∃ n, specRun b ru proj rs = R (flatRun b ru proj rs).committed (flatRun b ru proj rs).pending n := by
  unfold specRun
  rw [init_eq]
  exact specFold_R b ru proj rs [] [] 0

/-! ## facts about the fold -/

theorem flatFold_append (b : Bool) (ru : Rules ι δ) (proj : δ → δ) (f : Flat ι δ)
    (xs ys : List (Req ι δ)) :
    flatFold b ru proj f (xs ++ ys) = flatFold b ru proj (flatFold b ru proj f xs) ys := by
  simp [flatFold, List.foldl_append]

/-- without a commit: the committed map stays and (repaired) the pending list grows by exactly the
acknowledged operations, in order -/
theorem flatFold_noCommit (ru : Rules ι δ) (proj : δ → δ) (rs : List (Req ι δ)) :
    ∀ (f : Flat ι δ), (∀ r ∈ rs, r.isCommit = false) →
      flatFold true ru proj f rs = ⟨f.committed, f.pending ++ rs.flatMap (ackedOps ru)⟩ := by
  induction rs with
  | nil => intro f _; simp [flatFold]
  | cons r rs ih =>
    intro f h
    have hr : r.isCommit = false := h r (List.mem_cons_self ..)
    have ih' := ih (flatStep true ru proj f r) (fun x hx => h x (List.mem_cons_of_mem _ hx))
    simp only [flatFold, List.foldl_cons] at ih' ⊢
    rw [ih']
    simp [flatStep, hr, List.flatMap_cons, List.append_assoc]

theorem committed_noCommit (b : Bool) (ru : Rules ι δ) (proj : δ → δ) (rs : List (Req ι δ)) :
    ∀ (f : Flat ι δ), (∀ r ∈ rs, r.isCommit = false) →
      (flatFold b ru proj f rs).committed = f.committed := by
  induction rs with
  | nil => intro f _; rfl
  | cons r rs ih =>
    intro f h
    have hr : r.isCommit = false := h r (List.mem_cons_self ..)
    have ih' := ih (flatStep b ru proj f r) (fun x hx => h x (List.mem_cons_of_mem _ hx))
    simp only [flatFold, List.foldl_cons] at ih' ⊢
    rw [ih']
    simp only [flatStep, hr, Bool.false_eq_true, if_false]
    split <;> rfl

theorem ackedOps_commit (ru : Rules ι δ) (r : Req ι δ) (h : r.isCommit = true) :
    ackedOps ru r = [] := by
  cases r <;> simp_all [Req.isCommit, ackedOps]

/-- (repaired) committed-then-pending always folds to the fold of everything acknowledged -/
theorem flatFold_total (ru : Rules ι δ) (proj : δ → δ) (rs : List (Req ι δ)) :
    ∀ (f : Flat ι δ),
      (flatFold true ru proj f rs).pending.foldl (Spec.apply proj) (flatFold true ru proj f rs).committed
        = (f.pending ++ rs.flatMap (ackedOps ru)).foldl (Spec.apply proj) f.committed := by
  induction rs with
  | nil => intro f; simp [flatFold]
  | cons r rs ih =>
    intro f
    have ih' := ih (flatStep true ru proj f r)
    simp only [flatFold, List.foldl_cons] at ih' ⊢
    rw [ih']
    cases hr : r.isCommit with
    | true =>
      simp [flatStep, hr, List.flatMap_cons, ackedOps_commit ru r hr, List.foldl_append]
    | false =>
      simp [flatStep, hr, List.flatMap_cons, List.append_assoc]

/-- the hypothesis of the legacy `_partial` theorems: no request reaches `rollback()` while operations of
earlier requests are pending (`p` = pending operations before the first request) -/
def noLateRollback (ru : Rules ι δ) : List (Op ι δ) → List (Req ι δ) → Bool
  | _, [] => true
  | p, r :: rs =>
    (!rollsBack ru r || p.isEmpty) &&
      noLateRollback ru (if r.isCommit then [] else p ++ ackedOps ru r) rs

theorem flatStep_pending_true (ru : Rules ι δ) (proj : δ → δ) (f : Flat ι δ) (r : Req ι δ) :
    (flatStep true ru proj f r).pending = if r.isCommit then [] else f.pending ++ ackedOps ru r := by
  cases hr : r.isCommit <;> simp [flatStep, hr]

theorem flatFold_partial (ru : Rules ι δ) (proj : δ → δ) (rs : List (Req ι δ)) :
    ∀ (f : Flat ι δ), noLateRollback ru f.pending rs = true →
      flatFold false ru proj f rs = flatFold true ru proj f rs := by
  induction rs with
  | nil => intro f _; rfl
  | cons r rs ih =>
    intro f h
    simp only [noLateRollback, Bool.and_eq_true, Bool.or_eq_true, Bool.not_eq_true'] at h
    obtain ⟨h1, h2⟩ := h
    have hs : flatStep false ru proj f r = flatStep true ru proj f r := by
      cases hr : r.isCommit with
      | true => simp [flatStep, hr]
      | false =>
        cases hb : rollsBack ru r with
        | false => simp [flatStep, hr, hb]
        | true =>
          have hp : f.pending = [] := by
            rcases h1 with h1 | h1
            · rw [hb] at h1; cases h1
            · simpa using h1
          simp [flatStep, hr, hb, hp, acked_of_rollsBack ru r hb]
    have h2' : noLateRollback ru (flatStep true ru proj f r).pending rs = true := by
      rw [flatStep_pending_true]; exact h2
    simp only [flatFold, List.foldl_cons]
    rw [hs]
    exact ih _ h2'

/-! ## the mechanism (segments) refines the call-level spec, also for `rollbackOwn` -/

theorem mechStep_preserves (cfg : Cfg δ) (hproj : ∀ d, cfg.proj (cfg.proj d) = cfg.proj d)
    {s : St ι δ} {t : Spec.St ι δ} (hi : Inv cfg.proj s) (hr : Refines s t) (c : HCall ι δ) :
    Inv cfg.proj (mechStep cfg s c) ∧ Refines (mechStep cfg s c) (specStep cfg.proj t c) := by
  cases c with
  | lib c => exact step_preserves cfg hproj hi hr c
  | rollbackOwn h k =>
    cases hg : alGet s.handles h with
    | none =>
      have ht : alGet t.handles h = none := by rw [handles_get hr, hg]; rfl
      simp only [mechStep, specStep, hg, ht]
      exact ⟨hi, hr⟩
    | some hd =>
      have ht : alGet t.handles h = some (absH hd) := by rw [handles_get hr, hg]; rfl
      simp only [mechStep, specStep, hg, ht]
      constructor
      · refine ⟨hi.seg, ?_⟩
        exact forall_alSet (P := fun (x : Handle ι δ) => CacheOK s.segs x.live x.liveGen) hi.handles
          (hi.handles _ (alGet_some_mem hg))
      · refine ⟨?_, hr.ser, ?_, hr.contents⟩
        · simp only [hr.log]
        · simp only [← hr.handles]
          exact (alSet_map_val absH s.handles h _).symm

theorem mechFold_preserves (cfg : Cfg δ) (hproj : ∀ d, cfg.proj (cfg.proj d) = cfg.proj d)
    (cs : List (HCall ι δ)) :
    ∀ {s : St ι δ} {t : Spec.St ι δ}, Inv cfg.proj s → Refines s t →
      Inv cfg.proj (cs.foldl (mechStep cfg) s) ∧
      Refines (cs.foldl (mechStep cfg) s) (cs.foldl (specStep cfg.proj) t) := by
  induction cs with
  | nil => intro s t hi hr; exact ⟨hi, hr⟩
  | cons c cs ih =>
    intro s t hi hr
    obtain ⟨hi', hr'⟩ := mechStep_preserves cfg hproj hi hr c
    exact ih hi' hr'

theorem mechRun_preserves (b : Bool) (ru : Rules ι δ) (cfg : Cfg δ)
    (hproj : ∀ d, cfg.proj (cfg.proj d) = cfg.proj d) (rs : List (Req ι δ)) :
    Inv cfg.proj (mechRun b ru cfg rs) ∧ Refines (mechRun b ru cfg rs) (specRun b ru cfg.proj rs) := by
  unfold mechRun specRun
  suffices h : ∀ (s : St ι δ) (t : Spec.St ι δ), Inv cfg.proj s → Refines s t →
      Inv cfg.proj (rs.foldl (mechServe b ru cfg) s) ∧
      Refines (rs.foldl (mechServe b ru cfg) s) (rs.foldl (specServe b ru cfg.proj) t) from
    h _ _ (inv_init cfg.proj false) (refines_init false)
  induction rs with
  | nil => intro s t hi hr; exact ⟨hi, hr⟩
  | cons r rs ih =>
    intro s t hi hr
    obtain ⟨hi', hr'⟩ := mechFold_preserves cfg hproj (denote b ru 0 r) hi hr
    exact ih _ _ hi' hr'

/-- what a reader sees and what the log holds after a request sequence, in terms of the fold -/
theorem mechRun_flat (b : Bool) (ru : Rules ι δ) (cfg : Cfg δ)
    (hproj : ∀ d, cfg.proj (cfg.proj d) = cfg.proj d) (rs : List (Req ι δ)) :
    (mechRun b ru cfg rs).log.pending = (flatRun b ru cfg.proj rs).pending ∧
    (mechRun b ru cfg rs).handles = [] ∧
    ∀ i, copies (mechRun b ru cfg rs).segs i
      = (alGet (flatRun b ru cfg.proj rs).committed i).toList := by
  obtain ⟨hi, hr⟩ := mechRun_preserves b ru cfg hproj rs
  obtain ⟨n, hs⟩ := specRun_flat b ru cfg.proj rs
  refine ⟨?_, ?_, fun i => ?_⟩
  · rw [hr.log, hs]; rfl
  · have := hr.handles
    rw [hs] at this
    simpa [R] using this
  · have hc : (specRun b ru cfg.proj rs).committed = (flatRun b ru cfg.proj rs).committed := by
      rw [hs]; rfl
    rw [← hc]
    unfold copies
    rw [filter_key_of_nodup hi.seg.nodup]
    congr 1
    apply Option.ext
    intro d
    constructor
    · intro h
      exact (hr.contents i d).mp (alGet_some_mem h)
    · intro h
      exact alGet_of_mem_nodup hi.seg.nodup ((hr.contents i d).mpr h)

end SL.HttpWrites
