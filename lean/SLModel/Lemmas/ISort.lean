/-! scratch: generic structural insertion sort and permutation invariance -/
namespace SL.ISort
variable {α : Type} (lt : α → α → Bool)

def ins (x : α) : List α → List α
  | [] => [x]
  | y :: ys => if lt x y then x :: y :: ys else y :: ins x ys

def isort : List α → List α
  | [] => []
  | x :: xs => ins lt x (isort xs)

structure StrictTotal (lt : α → α → Bool) : Prop where
  irrefl : ∀ a, lt a a = false
  trans  : ∀ a b c, lt a b = true → lt b c = true → lt a c = true
  total  : ∀ a b, a ≠ b → lt a b = true ∨ lt b a = true

def Sorted (l : List α) : Prop := l.Pairwise (fun a b => lt b a = false)

variable {lt}

theorem asymm (h : StrictTotal lt) {a b : α} (hab : lt a b = true) : lt b a = false := by
  cases hba : lt b a with
  | false => rfl
  | true =>
    have := h.trans a b a hab hba
    rw [h.irrefl] at this; exact absurd this (by simp)

theorem mem_ins {x z : α} : ∀ {l : List α}, z ∈ ins lt x l → z = x ∨ z ∈ l := by
  intro l
  induction l with
  | nil => intro hz; simp [ins] at hz; exact Or.inl hz
  | cons w ws ih =>
    intro hz
    unfold ins at hz
    split at hz
    · rcases List.mem_cons.mp hz with rfl | hz
      · exact Or.inl rfl
      · exact Or.inr hz
    · rcases List.mem_cons.mp hz with rfl | hz
      · exact Or.inr (by simp)
      · rcases ih hz with h | h
        · exact Or.inl h
        · exact Or.inr (by simp [h])

theorem ins_sorted (h : StrictTotal lt) (x : α) (l : List α) (hs : Sorted lt l) : Sorted lt (ins lt x l) := by
  induction l with
  | nil => simp [ins, Sorted]
  | cons y ys ih =>
    unfold Sorted at hs
    rw [List.pairwise_cons] at hs
    unfold ins
    split
    · rename_i hxy
      unfold Sorted
      rw [List.pairwise_cons]
      refine ⟨?_, List.pairwise_cons.mpr hs⟩
      intro z hz
      rcases List.mem_cons.mp hz with rfl | hz
      · exact asymm h hxy
      · -- lt z x = false : otherwise lt z y by trans, contradiction with hs.1
        cases hzx : lt z x with
        | false => rfl
        | true =>
          have := h.trans z x y hzx hxy
          rw [hs.1 z hz] at this; exact absurd this (by simp)
    · rename_i hxy
      unfold Sorted
      rw [List.pairwise_cons]
      refine ⟨?_, ih hs.2⟩
      intro z hz
      rcases mem_ins hz with rfl | hz
      · simpa using hxy
      · exact hs.1 z hz

theorem isort_sorted (h : StrictTotal lt) (l : List α) : Sorted lt (isort lt l) := by
  induction l with
  | nil => simp [isort, Sorted]
  | cons x xs ih => exact ins_sorted h x _ ih

/-- inserting two distinct elements into a sorted list commutes -/
theorem ins_comm (h : StrictTotal lt) (x y : α) (l : List α) (hs : Sorted lt l) :
    ins lt x (ins lt y l) = ins lt y (ins lt x l) := by
  by_cases hxy : x = y
  · subst hxy; rfl
  induction l with
  | nil =>
    simp only [ins]
    rcases h.total x y hxy with hlt | hlt
    · simp [hlt, asymm h hlt]
    · simp [hlt, asymm h hlt]
  | cons z zs ih =>
    unfold Sorted at hs
    rw [List.pairwise_cons] at hs
    have ih := ih hs.2
    cases hyz : lt y z <;> cases hxz : lt x z
    · -- neither before z
      simp [ins, hyz, hxz, ih]
    · -- x before z, y not
      have hyx : lt y x = false := by
        cases hyx : lt y x with
        | false => rfl
        | true => have := h.trans y x z hyx hxz; rw [hyz] at this; exact absurd this (by simp)
      simp [ins, hyz, hxz, hyx]
    · -- y before z, x not
      have hxy' : lt x y = false := by
        cases hxy' : lt x y with
        | false => rfl
        | true => have := h.trans x y z hxy' hyz; rw [hxz] at this; exact absurd this (by simp)
      simp [ins, hyz, hxz, hxy']
    · -- both before z
      rcases h.total x y hxy with hlt | hlt
      · simp [ins, hyz, hxz, hlt, asymm h hlt]
      · simp [ins, hyz, hxz, hlt, asymm h hlt]

theorem isort_perm (h : StrictTotal lt) {l₁ l₂ : List α} (p : l₁.Perm l₂) : isort lt l₁ = isort lt l₂ := by
  induction p with
  | nil => rfl
  | cons x _ ih => simp [isort, ih]
  | swap x y l => simp only [isort]; exact (ins_comm h y x _ (isort_sorted h l))
  | trans _ _ ih1 ih2 => exact ih1.trans ih2

end SL.ISort
