import SLModel.Core.Idb
/-!
# Lemmas/Idb — basic facts about the association lists and projections of `Core/Idb`
-/
namespace SL.Idb

section assoc
variable {β : Type}

@[simp] theorem aget_nil (k : Nat) : aget k ([] : List (Nat × β)) = none := rfl

theorem aget_aset_eq (k : Nat) (v : β) (l : List (Nat × β)) : aget k (aset k v l) = some v := by
  induction l with
  | nil => simp [aset, aget]
  | cons a r ih =>
    obtain ⟨k', v'⟩ := a
    by_cases h : k' = k
    · simp [aset, aget, h]
    · simp [aset, aget, h, ih]

theorem aget_aset_ne {k k' : Nat} (h : k' ≠ k) (v : β) (l : List (Nat × β)) :
    aget k' (aset k v l) = aget k' l := by
  induction l with
  | nil => simp [aset, aget]; intro h2; exact absurd h2.symm h
  | cons a r ih =>
    obtain ⟨k2, v2⟩ := a
    by_cases h2 : k2 = k
    · subst h2
      have : ¬ k2 = k' := fun e => h e.symm
      simp [aset, aget, this]
    · by_cases h3 : k2 = k'
      · subst h3; simp [aset, aget, h2]
      · simp [aset, aget, h2, h3, ih]

theorem aget_adel_eq (k : Nat) (l : List (Nat × β)) : aget k (adel k l) = none := by
  induction l with
  | nil => rfl
  | cons a r ih =>
    obtain ⟨k', v'⟩ := a
    by_cases h : k' = k
    · simp [adel, h, ih]
    · simp [adel, aget, h, ih]

theorem aget_adel_ne {k k' : Nat} (h : k' ≠ k) (l : List (Nat × β)) :
    aget k' (adel k l) = aget k' l := by
  induction l with
  | nil => rfl
  | cons a r ih =>
    obtain ⟨k2, v2⟩ := a
    by_cases h2 : k2 = k
    · subst h2
      have : ¬ k2 = k' := fun e => h e.symm
      simp [adel, aget, this, ih]
    · by_cases h3 : k2 = k'
      · subst h3; simp [adel, aget, h2]
      · simp [adel, aget, h2, h3, ih]

theorem aget_mem {k : Nat} {v : β} {l : List (Nat × β)} (h : aget k l = some v) : (k, v) ∈ l := by
  induction l with
  | nil => simp [aget] at h
  | cons a r ih =>
    obtain ⟨k', v'⟩ := a
    by_cases h2 : k' = k
    · simp [aget, h2] at h
      subst h2; subst h
      exact List.mem_cons_self
    · simp [aget, h2] at h
      exact List.mem_cons_of_mem _ (ih h)

/-- everything stored in `aset k v l` is `(k, v)` or was in `l` -/
theorem mem_aset {k : Nat} {v : β} {l : List (Nat × β)} {x : Nat × β} (h : x ∈ aset k v l) :
    x = (k, v) ∨ x ∈ l := by
  induction l with
  | nil => simp [aset] at h; exact Or.inl h
  | cons a r ih =>
    obtain ⟨k', v'⟩ := a
    by_cases h2 : k' = k
    · simp [aset, h2] at h
      rcases h with h | h
      · exact Or.inl h
      · exact Or.inr (List.mem_cons_of_mem _ h)
    · simp [aset, h2] at h
      rcases h with h | h
      · exact Or.inr (by rw [h]; exact List.mem_cons_self)
      · rcases ih h with h | h
        · exact Or.inl h
        · exact Or.inr (List.mem_cons_of_mem _ h)

theorem mem_adel {k : Nat} {l : List (Nat × β)} {x : Nat × β} (h : x ∈ adel k l) : x ∈ l := by
  induction l with
  | nil => simp [adel] at h
  | cons a r ih =>
    obtain ⟨k', v'⟩ := a
    by_cases h2 : k' = k
    · simp [adel, h2] at h
      exact List.mem_cons_of_mem _ (ih h)
    · simp [adel, h2] at h
      rcases h with h | h
      · rw [h]; exact List.mem_cons_self
      · exact List.mem_cons_of_mem _ (ih h)

end assoc

/-! ## projections of the queue operations -/

@[simp] theorem doSched_store (σ : St) (p : Path) (d : Data) : (doSched σ p d).store = σ.store := by
  unfold doSched; simp only []; split <;> rfl
@[simp] theorem doSched_done (σ : St) (p : Path) (d : Data) : (doSched σ p d).done = σ.done := by
  unfold doSched; simp only []; split <;> rfl
@[simp] theorem doSched_txs (σ : St) (p : Path) (d : Data) : (doSched σ p d).txs = σ.txs := by
  unfold doSched; simp only []; split <;> rfl
@[simp] theorem doSched_resolved (σ : St) (p : Path) (d : Data) : (doSched σ p d).resolved = σ.resolved := by
  unfold doSched; simp only []; split <;> rfl
@[simp] theorem doSched_dropped (σ : St) (p : Path) (d : Data) : (doSched σ p d).dropped = σ.dropped := by
  unfold doSched; simp only []; split <;> rfl
@[simp] theorem doSched_flushes (σ : St) (p : Path) (d : Data) : (doSched σ p d).flushes = σ.flushes := by
  unfold doSched; simp only []; split <;> rfl
@[simp] theorem doSched_awaitComplete (σ : St) (p : Path) (d : Data) :
    (doSched σ p d).awaitComplete = σ.awaitComplete := by
  unfold doSched; simp only []; split <;> rfl
@[simp] theorem doSched_nextTx (σ : St) (p : Path) (d : Data) : (doSched σ p d).nextTx = σ.nextTx := by
  unfold doSched; simp only []; split <;> rfl
@[simp] theorem doSched_hist (σ : St) (p : Path) (d : Data) : (doSched σ p d).hist = σ.hist ++ [(p, d)] := by
  unfold doSched; simp only []; split <;> rfl
@[simp] theorem doSched_rxs (σ : St) (p : Path) (d : Data) :
    (doSched σ p d).rxs = σ.rxs ++ [σ.hist.length] := by
  unfold doSched; simp only []; split <;> rfl
@[simp] theorem doSched_queue (σ : St) (p : Path) (d : Data) :
    (doSched σ p d).queue =
      aset p ⟨some ⟨d, σ.hist.length⟩, ((aget p σ.queue).getD ⟨none, [], false⟩).waiters ++ [σ.hist.length], true⟩ σ.queue := by
  unfold doSched; simp only []; split <;> rfl

@[simp] theorem loopTop_store (σ : St) (t : Nat) (p : Path) : (loopTop σ t p).store = σ.store := by
  unfold loopTop; split
  · rfl
  · split <;> rfl
@[simp] theorem loopTop_done (σ : St) (t : Nat) (p : Path) : (loopTop σ t p).done = σ.done := by
  unfold loopTop; split
  · rfl
  · split <;> rfl
@[simp] theorem loopTop_resolved (σ : St) (t : Nat) (p : Path) : (loopTop σ t p).resolved = σ.resolved := by
  unfold loopTop; split
  · rfl
  · split <;> rfl
@[simp] theorem loopTop_dropped (σ : St) (t : Nat) (p : Path) : (loopTop σ t p).dropped = σ.dropped := by
  unfold loopTop; split
  · rfl
  · split <;> rfl
@[simp] theorem loopTop_hist (σ : St) (t : Nat) (p : Path) : (loopTop σ t p).hist = σ.hist := by
  unfold loopTop; split
  · rfl
  · split <;> rfl
@[simp] theorem loopTop_flushes (σ : St) (t : Nat) (p : Path) : (loopTop σ t p).flushes = σ.flushes := by
  unfold loopTop; split
  · rfl
  · split <;> rfl
@[simp] theorem loopTop_rxs (σ : St) (t : Nat) (p : Path) : (loopTop σ t p).rxs = σ.rxs := by
  unfold loopTop; split
  · rfl
  · split <;> rfl
@[simp] theorem loopTop_awaitComplete (σ : St) (t : Nat) (p : Path) :
    (loopTop σ t p).awaitComplete = σ.awaitComplete := by
  unfold loopTop; split
  · rfl
  · split <;> rfl

theorem all_congr_mem {α : Type} {l : List α} {f g : α → Bool} (h : ∀ x ∈ l, f x = g x) :
    l.all f = l.all g := by
  induction l with
  | nil => rfl
  | cons a r ih =>
    simp only [List.all_cons]
    rw [h a List.mem_cons_self, ih (fun x hx => h x (List.mem_cons_of_mem _ hx))]

theorem replay_append (done : List Op) (o : Op) : replay (done ++ [o]) = applyOp (replay done) o := by
  simp [replay, List.foldl_append]

end SL.Idb
