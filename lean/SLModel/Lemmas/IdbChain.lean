import SLModel.Core.Idb
import SLModel.Lemmas.Idb
import SLModel.Lemmas.IdbQueue
import SLModel.Lemmas.IdbProgram
/-!
# Lemmas/IdbChain — per path, snapshots are written in the order they were scheduled

For every path the sequence numbers along *completed puts, open transactions, pending
snapshot* are strictly increasing (`CInv`).  Consequences: the store holds the newest
completed snapshot of every path (`store_newest`): coalescing plus "writers of one key keep
their creation order" never lets an older snapshot overwrite a newer one.
-/
namespace SL.Idb

def opSeq (p : Path) : Op → Option Nat
  | .put q v => if q = p then some v.seq else none
  | .del _ => none

def doneSeqs (σ : St) (p : Path) : List Nat := σ.done.filterMap (opSeq p)

def txSeqs (txs : List Tx) (p : Path) : List Nat := txs.filterMap (fun x => opSeq p x.op)

def pendSeq (σ : St) (p : Path) : List Nat :=
  match aget p σ.queue with
  | some e => match e.pending with
    | some v => [v.seq]
    | none => []
  | none => []

def chain (σ : St) (p : Path) : List Nat := doneSeqs σ p ++ txSeqs σ.txs p ++ pendSeq σ p

structure CInv (σ : St) : Prop where
  inc : ∀ p, (chain σ p).Pairwise (· < ·)
  bnd : ∀ p, ∀ s ∈ chain σ p, s < σ.hist.length

theorem cinv_init (ac : Bool) : CInv { awaitComplete := ac } := by
  constructor <;> intro p <;> simp [chain, doneSeqs, txSeqs, pendSeq, aget]

/-- the chain only depends on `done`, `txs` and the queue entry of the path -/
theorem chain_congr {σ σ' : St} {p : Path} (hd : σ'.done = σ.done) (ht : σ'.txs = σ.txs)
    (hq : aget p σ'.queue = aget p σ.queue) : chain σ' p = chain σ p := by
  unfold chain doneSeqs pendSeq
  rw [hd, ht, hq]

theorem cinv_of_chain_eq {σ σ' : St} (c : CInv σ) (hh : σ.hist.length ≤ σ'.hist.length)
    (h : ∀ p, chain σ' p = chain σ p) : CInv σ' := by
  constructor
  · intro p; rw [h p]; exact c.inc p
  · intro p s hs; rw [h p] at hs; exact Nat.lt_of_lt_of_le (c.bnd p s hs) hh

theorem cinv_same {σ σ' : St} (c : CInv σ) (hd : σ'.done = σ.done) (ht : σ'.txs = σ.txs)
    (hq : σ'.queue = σ.queue) (hh : σ'.hist = σ.hist) : CInv σ' := by
  refine cinv_of_chain_eq c ?_ ?_
  · rw [hh]; exact Nat.le_refl _
  · intro p; exact chain_congr hd ht (by rw [hq])

/-! ### `schedule` -/

theorem cinv_doSched {σ : St} (c : CInv σ) (p : Path) (d : Data) : CInv (doSched σ p d) := by
  have hchain : ∀ q, q ≠ p → chain (doSched σ p d) q = chain σ q := by
    intro q hq
    apply chain_congr (by simp) (by simp)
    rw [doSched_queue, aget_aset_ne hq]
  have hp : chain (doSched σ p d) p = doneSeqs σ p ++ txSeqs σ.txs p ++ [σ.hist.length] := by
    unfold chain doneSeqs pendSeq
    simp only [doSched_done, doSched_txs, doSched_queue, aget_aset_eq]
  have hsub : (doneSeqs σ p ++ txSeqs σ.txs p).Sublist (chain σ p) := by
    unfold chain
    exact List.sublist_append_left _ _
  constructor
  · intro q
    by_cases hq : q = p
    · subst hq
      rw [hp, List.pairwise_append]
      refine ⟨List.Pairwise.sublist hsub (c.inc q), by simp, ?_⟩
      intro a ha b hb
      simp only [List.mem_singleton] at hb
      subst hb
      exact c.bnd q a (hsub.subset ha)
    · rw [hchain q hq]; exact c.inc q
  · intro q s hs
    rw [doSched_hist, List.length_append, List.length_singleton]
    by_cases hq : q = p
    · subst hq
      rw [hp, List.mem_append, List.mem_singleton] at hs
      rcases hs with hs | hs
      · have := c.bnd q s (hsub.subset hs); omega
      · omega
    · rw [hchain q hq] at hs
      have := c.bnd q s hs; omega

/-! ### dropping the queue entry (`schedule_delete`) -/

theorem pendSeq_sublist_of_adel (σ : St) (p q : Path) :
    (pendSeq { σ with queue := adel p σ.queue } q).Sublist (pendSeq σ q) := by
  unfold pendSeq
  by_cases hq : q = p
  · subst hq
    simp only [aget_adel_eq]
    exact List.nil_sublist _
  · simp only [aget_adel_ne hq]
    exact List.Sublist.refl _

/-! ### one pass of the `persist_queue` loop -/

theorem txSeqs_append (txs : List Tx) (x : Tx) (p : Path) :
    txSeqs (txs ++ [x]) p = txSeqs txs p ++ (opSeq p x.op).toList := by
  unfold txSeqs
  rw [List.filterMap_append]
  cases h : opSeq p x.op <;> simp [h]

theorem cinv_loopTop {σ : St} (c : CInv σ) (tid : Nat) (p : Path) : CInv (loopTop σ tid p) := by
  unfold loopTop
  split
  · exact cinv_same c rfl rfl rfl rfl
  · rename_i e he
    split
    · rename_i hpend
      refine cinv_of_chain_eq c ?_ ?_
      · exact Nat.le_refl _
      intro q
      unfold chain doneSeqs pendSeq
      simp only []
      by_cases hw : e.waiters.isEmpty = true
      · simp only [hw, if_true]
        by_cases hq : q = p
        · subst hq; simp [aget_adel_eq, he, hpend]
        · rw [aget_adel_ne hq]
      · simp only [hw, Bool.false_eq_true, if_false]
        by_cases hq : q = p
        · subst hq; simp [aget_aset_eq, he, hpend]
        · rw [aget_aset_ne hq]
    · rename_i v hpend
      refine cinv_of_chain_eq c ?_ ?_
      · exact Nat.le_refl _
      intro q
      unfold chain doneSeqs pendSeq
      simp only [txSeqs_append, opSeq]
      by_cases hq : q = p
      · subst hq
        simp [aget_aset_eq, he, hpend]
      · have hpq : ¬ p = q := fun e => hq e.symm
        simp [aget_aset_ne hq, hpq]

/-! ### browser events -/

theorem txSeqs_markSucc (t : Nat) (txs : List Tx) (p : Path) : txSeqs (markSucc t txs) p = txSeqs txs p := by
  unfold txSeqs
  rw [markSucc_eq, List.filterMap_map]
  congr 1
  funext x
  simp

theorem dropTx_of_all_ne {t : Nat} {txs : List Tx} (h : ∀ y ∈ txs, y.id ≠ t) : dropTx t txs = txs := by
  unfold dropTx
  rw [List.filter_eq_self]
  intro y hy
  simp [h y hy]

/-- removing the completed transaction `x` (the oldest one on its path) from the open
transactions removes exactly the head of its path's sequence -/
theorem txSeqs_dropTx {t : Nat} {txs : List Tx} {x : Tx}
    (hids : (txs.map (·.id)).Pairwise (· < ·)) (hx : findTx t txs = some x)
    (hguard : earlierSamePath txs x = false) (p : Path) :
    txSeqs txs p = (if x.op.path = p then (opSeq p x.op).toList else []) ++ txSeqs (dropTx t txs) p ∧
    (x.op.path ≠ p → opSeq p x.op = none) := by
  constructor
  · induction txs with
    | nil => simp [findTx] at hx
    | cons y r ih =>
      simp only [List.map_cons, List.pairwise_cons] at hids
      simp only [findTx] at hx
      by_cases hy : y.id = t
      · simp only [hy, if_true, Option.some.injEq] at hx
        subst hx
        have hr : dropTx t r = r := by
          apply dropTx_of_all_ne
          intro z hz
          have := hids.1 z.id (List.mem_map_of_mem hz)
          omega
        rw [dropTx_cons, if_pos hy, hr]
        unfold txSeqs
        simp only [List.filterMap_cons]
        by_cases hp : y.op.path = p
        · simp only [hp, if_true]
          cases h : opSeq p y.op <;> simp
        · simp only [hp, if_false, List.nil_append]
          have : opSeq p y.op = none := by
            cases hop : y.op with
            | put q v => simp only [opSeq]; rw [hop] at hp; simp only [Op.path] at hp; simp [hp]
            | del q => rfl
          simp [this]
      · simp only [hy, if_false] at hx
        have hxmem := (findTx_some hx).2
        have hlt : y.id < x.id := hids.1 x.id (List.mem_map_of_mem hxmem)
        have hyp : y.op.path ≠ x.op.path := by
          intro e
          unfold earlierSamePath at hguard
          simp only [List.any_cons, Bool.or_eq_false_iff] at hguard
          have := hguard.1
          simp [hlt, e] at this
        have hg' : earlierSamePath r x = false := by
          unfold earlierSamePath at hguard ⊢
          simp only [List.any_cons, Bool.or_eq_false_iff] at hguard
          exact hguard.2
        have ih' := ih hids.2 hx hg'
        rw [dropTx_cons, if_neg hy]
        unfold txSeqs at ih' ⊢
        simp only [List.filterMap_cons]
        by_cases hp : x.op.path = p
        · have hyn : opSeq p y.op = none := by
            cases hop : y.op with
            | put q v =>
              simp only [opSeq]
              rw [hop] at hyp; simp only [Op.path] at hyp
              have : ¬ q = p := fun e => hyp (e.trans hp.symm)
              simp [this]
            | del q => rfl
          simp only [hyn]
          exact ih'
        · simp only [hp, if_false, List.nil_append] at ih' ⊢
          cases h : opSeq p y.op with
          | none => simp only []; exact ih'
          | some a => simp only [List.cons.injEq, true_and]; exact ih'
  · intro hp
    cases hop : x.op with
    | put q v => simp only [opSeq]; rw [hop] at hp; simp only [Op.path] at hp; simp [hp]
    | del q => rfl

theorem cinv_step {σ σ' : St} (c : CInv σ) (inv : QInv σ) {l : Label} (h : step σ l = some σ') : CInv σ' := by
  cases l with
  | sched p d => simp [step] at h; subst h; exact cinv_doSched c p d
  | schedDel p =>
    simp [step] at h; subst h
    have hsub : ∀ q, (chain (doSchedDel σ p) q).Sublist (chain σ q) := by
      intro q
      unfold chain doneSeqs
      exact List.Sublist.append (List.Sublist.refl _) (pendSeq_sublist_of_adel σ p q)
    constructor
    · intro q; exact List.Pairwise.sublist (hsub q) (c.inc q)
    · intro q s hs; exact c.bnd q s ((hsub q).subset hs)
  | flushTake =>
    simp [step] at h; subst h
    exact cinv_same c rfl rfl rfl rfl
  | run t =>
    simp only [step, doRun] at h
    split at h
    · simp at h; subst h; exact cinv_loopTop c t _
    · simp at h; subst h
      apply cinv_loopTop
      exact cinv_same c rfl rfl rfl rfl
    · rename_i p _
      simp at h; subst h
      refine cinv_of_chain_eq c ?_ ?_
      · exact Nat.le_refl _
      intro q
      unfold chain doneSeqs pendSeq
      simp only [txSeqs_append, opSeq]
      simp
    · simp at h; subst h
      exact cinv_same c rfl rfl rfl rfl
    · simp at h
  | succ t =>
    simp only [step, doSucc] at h
    split at h
    · simp at h
    · split at h
      · simp at h
      · simp at h; subst h
        refine cinv_of_chain_eq c ?_ ?_
        · exact Nat.le_refl _
        intro q
        unfold chain doneSeqs pendSeq
        simp only [txSeqs_markSucc]
  | complete t =>
    simp only [step, doComplete] at h
    split at h
    · simp at h
    · rename_i x hx
      split at h
      · simp at h
      · rename_i hguard
        simp at h; subst h
        have hg : earlierSamePath σ.txs x = false := by
          simp only [Bool.or_eq_true, not_or] at hguard
          simpa using hguard.2
        refine cinv_of_chain_eq c ?_ ?_
        · exact Nat.le_refl _
        intro q
        obtain ⟨h1, h2⟩ := txSeqs_dropTx inv.ids hx hg q
        unfold chain doneSeqs pendSeq
        simp only [List.filterMap_append, List.filterMap_cons, List.filterMap_nil]
        rw [h1]
        by_cases hp : x.op.path = q
        · simp only [hp, if_true]
          cases hs : opSeq q x.op <;> simp
        · simp only [hp, if_false, List.nil_append, h2 hp]
          simp

/-! ## the store holds the newest completed snapshot -/

/-- the last put on `p` in a completion log -/
def lastPut (p : Path) : List Op → Option Ver
  | [] => none
  | o :: os =>
    match lastPut p os with
    | some v => some v
    | none => match o with
      | .put q v => if q = p then some v else none
      | .del _ => none

theorem foldl_lastPut (p : Path) (done : List Op) (hput : ∀ o ∈ done, o.isPut = true) :
    ∀ s, aget p (done.foldl applyOp s) = (match lastPut p done with | some v => some v | none => aget p s) := by
  induction done with
  | nil => intro s; rfl
  | cons o os ih =>
    intro s
    simp only [List.foldl_cons, lastPut]
    rw [ih (fun o ho => hput o (List.mem_cons_of_mem _ ho))]
    cases hl : lastPut p os with
    | some v => rfl
    | none =>
      simp only []
      cases o with
      | put q v =>
        by_cases hq : q = p
        · subst hq; simp [applyOp, aget_aset_eq]
        · have : ¬ p = q := fun e => hq e.symm
          simp [applyOp, aget_aset_ne this, hq]
      | del q =>
        have := hput (Op.del q) List.mem_cons_self
        simp [Op.isPut] at this

theorem lastPut_seqs (p : Path) : ∀ (done : List Op) (v : Ver), lastPut p done = some v →
    ∃ l, done.filterMap (opSeq p) = l ++ [v.seq] := by
  intro done
  induction done with
  | nil => intro v h; simp [lastPut] at h
  | cons o os ih =>
    intro v h
    simp only [lastPut] at h
    cases hl : lastPut p os with
    | some w =>
      rw [hl] at h
      have hwv : w = v := by simpa using h
      subst hwv
      obtain ⟨l, hl'⟩ := ih w hl
      simp only [List.filterMap_cons]
      cases ho : opSeq p o with
      | none => exact ⟨l, hl'⟩
      | some a => exact ⟨a :: l, by simp [hl']⟩
    | none =>
      rw [hl] at h
      have hnone : os.filterMap (opSeq p) = [] := by
        clear ih h
        induction os with
        | nil => rfl
        | cons o2 os2 ih2 =>
          simp only [lastPut] at hl
          cases hl2 : lastPut p os2 with
          | some w => rw [hl2] at hl; cases hl
          | none =>
            rw [hl2] at hl
            simp only [List.filterMap_cons]
            cases o2 with
            | put q w =>
              simp only [] at hl
              by_cases hq : q = p
              · simp [hq] at hl
              · simp [opSeq, hq, ih2 hl2]
            | del q => simp [opSeq, ih2 hl2]
      cases o with
      | put q w =>
        simp only [] at h
        by_cases hq : q = p
        · simp only [hq, if_true, Option.some.injEq] at h
          subst h
          exact ⟨[], by simp [opSeq, hq, hnone]⟩
        · simp [hq] at h
      | del q => simp at h

/-- **store_newest.**  In a run without deletes, whatever completed put there is on `p`, the
store holds a snapshot of `p` at least as new. -/
theorem store_newest {σ : St} (c : CInv σ) (nd : NoDelSt σ) (sr : σ.store = replay σ.done)
    {p : Path} {v : Ver} (hv : Op.put p v ∈ σ.done) :
    ∃ v', aget p σ.store = some v' ∧ v.seq ≤ v'.seq := by
  have hget := foldl_lastPut p σ.done nd.done []
  cases hl : lastPut p σ.done with
  | none =>
    -- impossible: there is a put on `p`
    obtain ⟨v', hv'⟩ := replay_has σ.done nd.done p v hv
    unfold replay at hv'
    rw [hget, hl] at hv'
    simp at hv'
  | some v' =>
    refine ⟨v', by rw [sr]; unfold replay; rw [hget, hl], ?_⟩
    obtain ⟨l, hl'⟩ := lastPut_seqs p σ.done v' hl
    have hmem : v.seq ∈ σ.done.filterMap (opSeq p) := by
      rw [List.mem_filterMap]
      exact ⟨Op.put p v, hv, by simp [opSeq]⟩
    rw [hl'] at hmem
    have hinc : (l ++ [v'.seq]).Pairwise (· < ·) := by
      have := c.inc p
      unfold chain doneSeqs at this
      rw [hl'] at this
      exact (List.pairwise_append.mp (List.pairwise_append.mp this).1).1 |> fun _ =>
        (List.pairwise_append.mp this).1 |> fun h => (List.pairwise_append.mp h).1
    simp only [List.mem_append, List.mem_singleton] at hmem
    rcases hmem with hm | hm
    · have := (List.pairwise_append.mp hinc).2.2 v.seq hm v'.seq (by simp)
      omega
    · omega

end SL.Idb
