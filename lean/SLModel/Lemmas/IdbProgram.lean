import SLModel.Core.Idb
import SLModel.Lemmas.Idb
import SLModel.Lemmas.IdbQueue
/-!
# Lemmas/IdbProgram — queue facts used by the program-level theorems of C27

* `GInv`: no invented data — every snapshot in the queue, in a transaction or in the
  completion log was handed to `schedule` (it is in `hist`);
* `NoDelSt`: a run without `schedule_delete` has no delete tasks/transactions and no dropped
  receivers;
* frame facts of the adversary steps (`run`, `succ`, `complete`);
* replay facts of put-only completion logs.
-/
namespace SL.Idb

/-! ## no invented data -/

structure GInv (σ : St) : Prop where
  g1 : ∀ p e v, aget p σ.queue = some e → e.pending = some v → (p, v.data) ∈ σ.hist
  g2 : ∀ x ∈ σ.txs, ∀ p v, x.op = Op.put p v → (p, v.data) ∈ σ.hist
  g3 : ∀ p v, Op.put p v ∈ σ.done → (p, v.data) ∈ σ.hist

theorem ginv_init (ac : Bool) : GInv { awaitComplete := ac } := by
  constructor <;> simp [aget]

theorem ginv_doSched {σ : St} (g : GInv σ) (p : Path) (d : Data) : GInv (doSched σ p d) := by
  constructor
  · intro q e v hq hv
    rw [doSched_queue] at hq
    rw [doSched_hist]
    by_cases hqp : q = p
    · subst hqp
      rw [aget_aset_eq] at hq
      cases hq
      simp only [Option.some.injEq] at hv
      subst hv
      simp
    · rw [aget_aset_ne hqp] at hq
      exact List.mem_append_left _ (g.g1 q e v hq hv)
  · intro x hx q v hop
    rw [doSched_txs] at hx
    rw [doSched_hist]
    exact List.mem_append_left _ (g.g2 x hx q v hop)
  · intro q v hd
    rw [doSched_done] at hd
    rw [doSched_hist]
    exact List.mem_append_left _ (g.g3 q v hd)

theorem ginv_loopTop {σ : St} (g : GInv σ) (tid : Nat) (p : Path) : GInv (loopTop σ tid p) := by
  unfold loopTop
  split
  · exact ⟨g.g1, g.g2, g.g3⟩
  · rename_i e he
    split
    · rename_i hpend
      refine ⟨?_, g.g2, g.g3⟩
      intro q e' v hq hv
      simp only [] at hq
      split at hq
      · by_cases hqp : q = p
        · subst hqp; rw [aget_adel_eq] at hq; cases hq
        · rw [aget_adel_ne hqp] at hq; exact g.g1 q e' v hq hv
      · by_cases hqp : q = p
        · subst hqp
          rw [aget_aset_eq] at hq
          cases hq
          simp only [] at hv
          rw [hpend] at hv; cases hv
        · rw [aget_aset_ne hqp] at hq; exact g.g1 q e' v hq hv
    · rename_i v hpend
      refine ⟨?_, ?_, g.g3⟩
      · intro q e' v' hq hv
        simp only [] at hq
        by_cases hqp : q = p
        · subst hqp
          rw [aget_aset_eq] at hq
          cases hq
          simp at hv
        · rw [aget_aset_ne hqp] at hq; exact g.g1 q e' v' hq hv
      · intro x hx q v' hop
        simp only [List.mem_append, List.mem_singleton] at hx
        rcases hx with hx | hx
        · exact g.g2 x hx q v' hop
        · subst hx
          simp only [Op.put.injEq] at hop
          obtain ⟨rfl, rfl⟩ := hop
          exact g.g1 p e v he hpend

theorem ginv_step {σ σ' : St} (g : GInv σ) {l : Label} (h : step σ l = some σ') : GInv σ' := by
  cases l with
  | sched p d => simp [step] at h; subst h; exact ginv_doSched g p d
  | schedDel p =>
    simp [step, doSchedDel] at h; subst h
    refine ⟨?_, g.g2, g.g3⟩
    intro q e v hq hv
    simp only [] at hq
    by_cases hqp : q = p
    · subst hqp; rw [aget_adel_eq] at hq; cases hq
    · rw [aget_adel_ne hqp] at hq; exact g.g1 q e v hq hv
  | flushTake => simp [step] at h; subst h; exact ⟨g.g1, g.g2, g.g3⟩
  | run t =>
    simp only [step, doRun] at h
    split at h
    · simp at h; subst h; exact ginv_loopTop g t _
    · simp at h; subst h
      apply ginv_loopTop
      exact ⟨g.g1, g.g2, g.g3⟩
    · simp at h; subst h
      refine ⟨g.g1, ?_, g.g3⟩
      intro x hx q v hop
      simp only [List.mem_append, List.mem_singleton] at hx
      rcases hx with hx | hx
      · exact g.g2 x hx q v hop
      · subst hx; cases hop
    · simp at h; subst h; exact ⟨g.g1, g.g2, g.g3⟩
    · simp at h
  | succ t =>
    simp only [step, doSucc] at h
    split at h
    · simp at h
    · split at h
      · simp at h
      · simp at h; subst h
        refine ⟨g.g1, ?_, g.g3⟩
        intro x hx q v hop
        simp only [] at hx
        rw [markSucc_eq] at hx
        obtain ⟨z, hz, rfl⟩ := List.mem_map.mp hx
        rw [setSucc_op] at hop
        exact g.g2 z hz q v hop
  | complete t =>
    simp only [step, doComplete] at h
    split at h
    · simp at h
    · rename_i x hx
      split at h
      · simp at h
      · simp at h; subst h
        refine ⟨g.g1, ?_, ?_⟩
        · intro y hy q v hop
          exact g.g2 y (mem_dropTx.mp hy).1 q v hop
        · intro q v hd
          simp only [List.mem_append, List.mem_singleton] at hd
          rcases hd with hd | hd
          · exact g.g3 q v hd
          · exact g.g2 x (findTx_some hx).2 q v hd.symm

/-! ## runs without `schedule_delete` -/

def Op.isPut : Op → Bool
  | .put _ _ => true
  | .del _ => false

def Task.isPersist : Task → Bool
  | .top _ => true
  | .wait _ _ _ => true
  | .woken _ _ => true
  | _ => false

structure NoDelSt (σ : St) : Prop where
  dropped : σ.dropped = []
  tasks : ∀ it ∈ σ.tasks, it.2.isPersist = true
  txs : ∀ x ∈ σ.txs, x.op.isPut = true
  done : ∀ o ∈ σ.done, o.isPut = true

theorem nodel_init (ac : Bool) : NoDelSt { awaitComplete := ac } := by
  constructor <;> simp

theorem nodel_doSched {σ : St} (n : NoDelSt σ) (p : Path) (d : Data) : NoDelSt (doSched σ p d) := by
  refine ⟨by simpa using n.dropped, ?_, by simpa using n.txs, by simpa using n.done⟩
  intro it hit
  rcases mem_doSched_tasks hit with h | h
  · exact n.tasks it h
  · subst h; rfl

theorem nodel_loopTop {σ : St} (n : NoDelSt σ) (tid : Nat) (p : Path) : NoDelSt (loopTop σ tid p) := by
  unfold loopTop
  split
  · exact ⟨n.dropped, fun it hit => n.tasks it (mem_adel hit), n.txs, n.done⟩
  · split
    · exact ⟨n.dropped, fun it hit => n.tasks it (mem_adel hit), n.txs, n.done⟩
    · refine ⟨n.dropped, ?_, ?_, n.done⟩
      · intro it hit
        simp only [] at hit
        rcases mem_aset hit with h | h
        · subst h; rfl
        · exact n.tasks it h
      · intro x hx
        simp only [List.mem_append, List.mem_singleton] at hx
        rcases hx with hx | hx
        · exact n.txs x hx
        · subst hx; rfl

theorem isPersist_wakeTask (t : Nat) (o : Task) : (wakeTask t o).isPersist = o.isPersist := by
  cases o with
  | wait p t' ws => simp only [wakeTask]; split <;> rfl
  | dwait p t' => simp only [wakeTask]; split <;> rfl
  | top _ => rfl
  | woken _ _ => rfl
  | dtop _ => rfl
  | dwoken _ => rfl

theorem nodel_wake {σ : St} (n : NoDelSt σ) (t : Nat) : ∀ it ∈ wake t σ.tasks, it.2.isPersist = true := by
  intro it hit
  obtain ⟨o, ho, hw⟩ := mem_wake hit
  rw [hw, isPersist_wakeTask]
  exact n.tasks (it.1, o) ho

theorem nodel_step {σ σ' : St} (n : NoDelSt σ) {l : Label} (hl : l.isAdv = true ∨ l = Label.flushTake)
    (h : step σ l = some σ') : NoDelSt σ' := by
  cases l with
  | sched p d => simp [Label.isAdv] at hl
  | schedDel p => simp [Label.isAdv] at hl
  | flushTake => simp [step] at h; subst h; exact ⟨n.dropped, n.tasks, n.txs, n.done⟩
  | run t =>
    simp only [step, doRun] at h
    split at h
    · simp at h; subst h; exact nodel_loopTop n t _
    · simp at h; subst h
      apply nodel_loopTop
      exact ⟨n.dropped, n.tasks, n.txs, n.done⟩
    · rename_i p htask
      have := n.tasks _ (aget_mem htask)
      simp [Task.isPersist] at this
    · rename_i p htask
      have := n.tasks _ (aget_mem htask)
      simp [Task.isPersist] at this
    · simp at h
  | succ t =>
    simp only [step, doSucc] at h
    split at h
    · simp at h
    · split at h
      · simp at h
      · simp at h; subst h
        refine ⟨n.dropped, ?_, ?_, n.done⟩
        · simp only []
          split
          · exact n.tasks
          · exact nodel_wake n t
        · intro x hx
          simp only [] at hx
          rw [markSucc_eq] at hx
          obtain ⟨z, hz, rfl⟩ := List.mem_map.mp hx
          rw [setSucc_op]
          exact n.txs z hz
  | complete t =>
    simp only [step, doComplete] at h
    split at h
    · simp at h
    · rename_i x hx
      split at h
      · simp at h
      · simp at h; subst h
        refine ⟨n.dropped, ?_, ?_, ?_⟩
        · simp only []
          split
          · exact nodel_wake n t
          · exact n.tasks
        · intro y hy
          exact n.txs y (mem_dropTx.mp hy).1
        · intro o ho
          simp only [List.mem_append, List.mem_singleton] at ho
          rcases ho with ho | ho
          · exact n.done o ho
          · subst ho; exact n.txs x (findTx_some hx).2

/-! ## frame facts of the adversary steps -/

theorem loopTop_frame (σ : St) (tid : Nat) (p : Path) :
    (loopTop σ tid p).rxs = σ.rxs ∧ (loopTop σ tid p).flushes = σ.flushes ∧
    (loopTop σ tid p).hist = σ.hist ∧ (loopTop σ tid p).awaitComplete = σ.awaitComplete ∧
    (loopTop σ tid p).resolved = σ.resolved := by
  simp

theorem adv_frame {σ σ' : St} {l : Label} (hl : l.isAdv = true) (h : step σ l = some σ') :
    σ'.rxs = σ.rxs ∧ σ'.flushes = σ.flushes ∧ σ'.hist = σ.hist ∧
    σ'.awaitComplete = σ.awaitComplete ∧ (∀ r ∈ σ.resolved, r ∈ σ'.resolved) := by
  cases l with
  | sched p d => simp [Label.isAdv] at hl
  | schedDel p => simp [Label.isAdv] at hl
  | flushTake => simp [Label.isAdv] at hl
  | run t =>
    simp only [step, doRun] at h
    split at h
    · simp at h; subst h; simp
    · simp at h; subst h; simp
      intro r hr; exact Or.inl hr
    · simp at h; subst h; simp
    · simp at h; subst h; simp
    · simp at h
  | succ t =>
    simp only [step, doSucc] at h
    split at h
    · simp at h
    · split at h
      · simp at h
      · simp at h; subst h; simp
  | complete t =>
    simp only [step, doComplete] at h
    split at h
    · simp at h
    · split at h
      · simp at h
      · simp at h; subst h; simp

theorem step_awaitComplete {σ σ' : St} {l : Label} (h : step σ l = some σ') :
    σ'.awaitComplete = σ.awaitComplete := by
  cases l with
  | sched p d => simp [step] at h; subst h; simp
  | schedDel p => simp [step, doSchedDel] at h; subst h; rfl
  | flushTake => simp [step] at h; subst h; rfl
  | run t => exact (adv_frame rfl h).2.2.2.1
  | succ t => exact (adv_frame rfl h).2.2.2.1
  | complete t => exact (adv_frame rfl h).2.2.2.1

theorem exec_awaitComplete {σ σ' : St} {ls : List Label} (h : exec σ ls = some σ') :
    σ'.awaitComplete = σ.awaitComplete := by
  induction ls generalizing σ with
  | nil => simp [exec] at h; subst h; rfl
  | cons l ls ih =>
    simp only [exec] at h
    split at h
    · simp at h
    · rename_i σ1 h1
      rw [ih h, step_awaitComplete h1]

/-- what a `complete` step does to the durable side -/
theorem complete_effect {σ σ' : St} {t : Nat} (h : step σ (Label.complete t) = some σ') :
    ∃ x, x ∈ σ.txs ∧ σ'.store = applyOp σ.store x.op ∧ σ'.done = σ.done ++ [x.op] := by
  simp only [step, doComplete] at h
  split at h
  · simp at h
  · rename_i x hx
    split at h
    · simp at h
    · simp at h; subst h
      exact ⟨x, (findTx_some hx).2, rfl, rfl⟩

theorem noncomplete_durable {σ σ' : St} {l : Label} (hl : ∀ t, l ≠ Label.complete t)
    (h : step σ l = some σ') : σ'.store = σ.store ∧ σ'.done = σ.done := by
  cases l with
  | sched p d => simp [step] at h; subst h; simp
  | schedDel p => simp [step, doSchedDel] at h; subst h; exact ⟨rfl, rfl⟩
  | flushTake => simp [step] at h; subst h; exact ⟨rfl, rfl⟩
  | run t =>
    simp only [step, doRun] at h
    split at h
    · simp at h; subst h; simp
    · simp at h; subst h; simp
    · simp at h; subst h; simp
    · simp at h; subst h; simp
    · simp at h
  | succ t =>
    simp only [step, doSucc] at h
    split at h
    · simp at h
    · split at h
      · simp at h
      · simp at h; subst h; simp
  | complete t => exact absurd rfl (hl t)

/-! ## replay of put-only logs -/

theorem foldl_get_mem (done : List Op) (p : Path) (v : Ver) :
    ∀ s, aget p (done.foldl applyOp s) = some v → Op.put p v ∈ done ∨ aget p s = some v := by
  induction done with
  | nil => intro s h; exact Or.inr h
  | cons o ds ih =>
    intro s h
    simp only [List.foldl_cons] at h
    rcases ih _ h with h1 | h1
    · exact Or.inl (List.mem_cons_of_mem _ h1)
    · cases o with
      | put q w =>
        simp only [applyOp] at h1
        by_cases hq : p = q
        · subst hq
          rw [aget_aset_eq] at h1
          cases h1
          exact Or.inl List.mem_cons_self
        · rw [aget_aset_ne hq] at h1
          exact Or.inr h1
      | del q =>
        simp only [applyOp] at h1
        by_cases hq : p = q
        · subst hq; rw [aget_adel_eq] at h1; cases h1
        · rw [aget_adel_ne hq] at h1
          exact Or.inr h1

/-- whatever the store holds for `p` was written by a completed put -/
theorem replay_get_mem (done : List Op) (p : Path) (v : Ver) (h : aget p (replay done) = some v) :
    Op.put p v ∈ done := by
  rcases foldl_get_mem done p v [] h with h1 | h1
  · exact h1
  · simp at h1

theorem foldl_has (done : List Op) (hput : ∀ o ∈ done, o.isPut = true) (p : Path) :
    ∀ s, ((∃ v, Op.put p v ∈ done) ∨ (∃ v, aget p s = some v)) →
      ∃ v', aget p (done.foldl applyOp s) = some v' := by
  induction done with
  | nil =>
    intro s h
    rcases h with ⟨v, hv⟩ | h
    · simp at hv
    · exact h
  | cons o ds ih =>
    intro s h
    simp only [List.foldl_cons]
    apply ih (fun o ho => hput o (List.mem_cons_of_mem _ ho))
    cases o with
    | put q w =>
      by_cases hq : p = q
      · subst hq
        exact Or.inr ⟨w, by simp [applyOp, aget_aset_eq]⟩
      · rcases h with ⟨v, hv⟩ | ⟨v, hv⟩
        · simp only [List.mem_cons, Op.put.injEq] at hv
          rcases hv with hv | hv
          · exact absurd hv.1 hq
          · exact Or.inl ⟨v, hv⟩
        · exact Or.inr ⟨v, by simp only [applyOp]; rw [aget_aset_ne hq]; exact hv⟩
    | del q =>
      have := hput (Op.del q) List.mem_cons_self
      simp [Op.isPut] at this

/-- in a put-only log, a path that was written once stays in the store -/
theorem replay_has (done : List Op) (hput : ∀ o ∈ done, o.isPut = true) (p : Path) (v : Ver)
    (h : Op.put p v ∈ done) : ∃ v', aget p (replay done) = some v' :=
  foldl_has done hput p [] (Or.inl ⟨v, h⟩)

/-! ## the stored image is the replay of the completion log -/

theorem step_store_replay {σ σ' : St} {l : Label} (h : step σ l = some σ')
    (inv : σ.store = replay σ.done) : σ'.store = replay σ'.done := by
  cases l with
  | sched p d => simp [step] at h; subst h; simpa using inv
  | schedDel p => simp [step, doSchedDel] at h; subst h; simpa using inv
  | flushTake => simp [step] at h; subst h; simpa using inv
  | run t =>
    simp only [step, doRun] at h
    split at h
    · simp at h; subst h; simpa using inv
    · simp at h; subst h; simpa using inv
    · simp at h; subst h; simpa using inv
    · simp at h; subst h; simpa using inv
    · simp at h
  | succ t =>
    simp only [step, doSucc] at h
    split at h
    · simp at h
    · split at h
      · simp at h
      · simp at h; subst h; simpa using inv
  | complete t =>
    simp only [step, doComplete] at h
    split at h
    · simp at h
    · split at h
      · simp at h
      · simp at h; subst h
        simp [replay_append, inv]

theorem exec_store_replay {σ σ' : St} {ls : List Label} (h : exec σ ls = some σ')
    (inv : σ.store = replay σ.done) : σ'.store = replay σ'.done := by
  induction ls generalizing σ with
  | nil => simp [exec] at h; subst h; exact inv
  | cons l ls ih =>
    simp only [exec] at h
    split at h
    · simp at h
    · rename_i σ1 h1
      exact ih h (step_store_replay h1 inv)

theorem progStep_q {s s' : PSt} (h : progStep s = some s') :
    s'.q = s.q ∨ (∃ p d, s'.q = doSched s.q p d) ∨
      s'.q = { s.q with flushes := s.q.flushes ++ [s.q.rxs], rxs := [] } := by
  unfold progStep at h
  split at h
  · split at h
    · split at h <;> (simp at h; subst h; exact Or.inl rfl)
    · simp at h
  · split at h
    · split at h
      · rename_i pd is _
        simp at h; subst h; exact Or.inr (Or.inl ⟨pd.1, pd.2, rfl⟩)
      · simp at h; subst h; exact Or.inr (Or.inr rfl)
    · split at h
      · simp at h
      · simp at h; subst h; exact Or.inl rfl
      · simp at h; subst h; exact Or.inl rfl

theorem pstep_store_replay {s s' : PSt} {l : PLabel} (h : pstep s l = some s')
    (inv : s.q.store = replay s.q.done) : s'.q.store = replay s'.q.done := by
  cases l with
  | prog =>
    simp only [pstep] at h
    rcases progStep_q h with hq | ⟨p, d, hq⟩ | hq
    · rw [hq]; exact inv
    · rw [hq]; simpa using inv
    · rw [hq]; exact inv
  | adv l =>
    simp only [pstep] at h
    split at h
    · split at h
      · rename_i q' hq
        simp at h; subst h
        exact step_store_replay hq inv
      · simp at h
    · simp at h

theorem pexec_store_replay {s s' : PSt} {ls : List PLabel} (h : pexec s ls = some s')
    (inv : s.q.store = replay s.q.done) : s'.q.store = replay s'.q.done := by
  induction ls generalizing s with
  | nil => simp [pexec] at h; subst h; exact inv
  | cons l ls ih =>
    simp only [pexec] at h
    split at h
    · simp at h
    · rename_i s1 h1
      exact ih h (pstep_store_replay h1 inv)

/-! ## images that reopen -/

theorem filesPresent_congr {s s' : List (Path × Ver)} {fs : List (Path × Data)}
    (h : ∀ f ∈ fs, aget f.1 s' = aget f.1 s) : filesPresent s' fs = filesPresent s fs := by
  unfold filesPresent
  apply all_congr_mem
  intro f hf
  rw [h f hf]

/-- `recover ≠ broken`, spelled out -/
def Openable (cs : List Commit) (s : List (Path × Ver)) : Prop :=
  ∀ v, aget manifestPath s = some v →
    ∃ k, findManifest v.data cs = some k ∧ (cs.take (k + 1)).all (fun c => filesPresent s c.files) = true

theorem openable_iff (cs : List Commit) (s : List (Path × Ver)) :
    Openable cs s ↔ recover cs s ≠ Rec.broken := by
  unfold Openable recover
  cases hm : aget manifestPath s with
  | none => simp
  | some v =>
    cases hk : findManifest v.data cs with
    | none => simp [hk]
    | some k =>
      by_cases hall : (cs.take (k + 1)).all (fun c => filesPresent s c.files) = true
      · simp only [hk, hall, if_true]
        constructor
        · intro _; simp
        · intro _ v' hv'; cases hv'; exact ⟨k, hk, hall⟩
      · simp only [hk, hall]
        constructor
        · intro h
          obtain ⟨k', hk', hall'⟩ := h v rfl
          rw [hk] at hk'
          cases hk'
          exact absurd hall' hall
        · intro h; simp at h

theorem openable_nil (cs : List Commit) : Openable cs [] := by
  intro v hv; simp at hv


end SL.Idb
