import SLModel.Core.Idb
import SLModel.Lemmas.Idb
/-!
# Lemmas/IdbQueue — the invariant of the persistence queue

`QInv` relates receivers (waiters) to the snapshot that will be, is being, or has been
written for them.  It is preserved by every step of `Core/Idb.step`, for both settings of
`awaitComplete` and also in the presence of `schedule_delete`.
-/
namespace SL.Idb

/-! ## transactions -/

theorem findTx_some {t : Nat} {txs : List Tx} {x : Tx} (h : findTx t txs = some x) :
    x.id = t ∧ x ∈ txs := by
  induction txs with
  | nil => simp [findTx] at h
  | cons y r ih =>
    simp only [findTx] at h
    split at h
    · rename_i hy
      cases h
      exact ⟨hy, List.mem_cons_self⟩
    · obtain ⟨h1, h2⟩ := ih h
      exact ⟨h1, List.mem_cons_of_mem _ h2⟩

theorem findTx_append_of_some {t : Nat} {txs : List Tx} {x : Tx} (h : findTx t txs = some x) (y : Tx) :
    findTx t (txs ++ [y]) = some x := by
  induction txs with
  | nil => simp [findTx] at h
  | cons z r ih =>
    simp only [findTx, List.cons_append] at h ⊢
    split
    · rename_i hz; simp [hz] at h; exact congrArg some h
    · rename_i hz; simp [hz] at h; exact ih h

theorem findTx_append_new {txs : List Tx} {y : Tx} (h : ∀ x ∈ txs, x.id ≠ y.id) :
    findTx y.id (txs ++ [y]) = some y := by
  induction txs with
  | nil => simp [findTx]
  | cons z r ih =>
    simp only [findTx, List.cons_append]
    have hz : ¬ z.id = y.id := h z List.mem_cons_self
    simp only [hz, if_false]
    exact ih (fun x hx => h x (List.mem_cons_of_mem _ hx))

def setSucc (t : Nat) (u : Tx) : Tx := if u.id = t then { u with succeeded := true } else u

theorem markSucc_eq (t : Nat) (txs : List Tx) : markSucc t txs = txs.map (setSucc t) := rfl

@[simp] theorem setSucc_id (t : Nat) (u : Tx) : (setSucc t u).id = u.id := by
  unfold setSucc; split <;> rfl

@[simp] theorem setSucc_op (t : Nat) (u : Tx) : (setSucc t u).op = u.op := by
  unfold setSucc; split <;> rfl

theorem setSucc_ne {t : Nat} {u : Tx} (h : u.id ≠ t) : setSucc t u = u := by
  unfold setSucc; simp [h]

theorem setSucc_succeeded {t : Nat} {u : Tx} (h : u.succeeded = true) : setSucc t u = u := by
  unfold setSucc; split
  · cases u; simp_all
  · rfl

theorem setSucc_eq {t : Nat} {u : Tx} (h : u.id = t) : (setSucc t u).succeeded = true := by
  unfold setSucc; simp [h]

theorem findTx_markSucc (t' t : Nat) (txs : List Tx) :
    findTx t' (markSucc t txs) = (findTx t' txs).map (setSucc t) := by
  rw [markSucc_eq]
  induction txs with
  | nil => rfl
  | cons z r ih =>
    simp only [List.map_cons, findTx, setSucc_id]
    split
    · rfl
    · exact ih

theorem dropTx_cons (t : Nat) (z : Tx) (r : List Tx) :
    dropTx t (z :: r) = if z.id = t then dropTx t r else z :: dropTx t r := by
  unfold dropTx
  by_cases hz : z.id = t <;> simp [hz]

theorem findTx_dropTx_ne {t' t : Nat} (h : t' ≠ t) (txs : List Tx) :
    findTx t' (dropTx t txs) = findTx t' txs := by
  induction txs with
  | nil => rfl
  | cons z r ih =>
    rw [dropTx_cons]
    by_cases hz : z.id = t
    · have hz' : ¬ z.id = t' := fun e => h (e.symm.trans hz)
      rw [if_pos hz, ih]
      simp only [findTx, hz', if_false]
    · simp only [hz, if_false, findTx]
      split
      · rfl
      · exact ih

theorem mem_dropTx {t : Nat} {txs : List Tx} {y : Tx} : y ∈ dropTx t txs ↔ y ∈ txs ∧ y.id ≠ t := by
  simp [dropTx, List.mem_filter]

theorem ids_markSucc (t : Nat) (txs : List Tx) : (markSucc t txs).map (·.id) = txs.map (·.id) := by
  rw [markSucc_eq, List.map_map]
  apply List.map_congr_left
  intro u _
  simp

theorem ids_dropTx_sublist (t : Nat) (txs : List Tx) :
    ((dropTx t txs).map (·.id)).Sublist (txs.map (·.id)) := by
  unfold dropTx
  exact List.Sublist.map _ List.filter_sublist

/-- with strictly increasing ids, the transaction found for an id is the only one with that id -/
theorem findTx_unique {t : Nat} {txs : List Tx} {x y : Tx}
    (hp : (txs.map (·.id)).Pairwise (· < ·)) (h : findTx t txs = some x) (hy : y ∈ txs)
    (hid : y.id = t) : y = x := by
  induction txs with
  | nil => simp at hy
  | cons z r ih =>
    simp only [List.map_cons, List.pairwise_cons] at hp
    simp only [findTx] at h
    split at h
    · rename_i hz
      cases h
      rcases List.mem_cons.mp hy with hy | hy
      · exact hy
      · have := hp.1 y.id (List.mem_map_of_mem hy)
        omega
    · rename_i hz
      rcases List.mem_cons.mp hy with hy | hy
      · subst hy; exact absurd hid hz
      · exact ih hp.2 h hy

/-! ## tasks -/

theorem mem_wake {tx : Nat} {ts : List (Nat × Task)} {it : Nat × Task} (h : it ∈ wake tx ts) :
    ∃ o, (it.1, o) ∈ ts ∧ it.2 = wakeTask tx o := by
  unfold wake at h
  rw [List.mem_map] at h
  obtain ⟨a, ha, rfl⟩ := h
  exact ⟨a.2, ha, rfl⟩

theorem wakeTask_wait {tx : Nat} {o : Task} {p t : Nat} {ws : List Nat} (h : wakeTask tx o = Task.wait p t ws) :
    o = Task.wait p t ws ∧ t ≠ tx := by
  cases o with
  | wait p' t' ws' =>
    simp only [wakeTask] at h
    split at h
    · cases h
    · rename_i hne; cases h; exact ⟨rfl, hne⟩
  | dwait p' t' =>
    simp only [wakeTask] at h
    split at h <;> cases h
  | top _ => simp [wakeTask] at h
  | woken _ _ => simp [wakeTask] at h
  | dtop _ => simp [wakeTask] at h
  | dwoken _ => simp [wakeTask] at h

theorem wakeTask_woken {tx : Nat} {o : Task} {p : Nat} {ws : List Nat} (h : wakeTask tx o = Task.woken p ws) :
    o = Task.woken p ws ∨ o = Task.wait p tx ws := by
  cases o with
  | wait p' t' ws' =>
    simp only [wakeTask] at h
    split at h
    · rename_i he; cases h; subst he; exact Or.inr rfl
    · cases h
  | dwait p' t' =>
    simp only [wakeTask] at h
    split at h <;> cases h
  | top _ => simp [wakeTask] at h
  | woken _ _ => simp only [wakeTask] at h; exact Or.inl h
  | dtop _ => simp [wakeTask] at h
  | dwoken _ => simp [wakeTask] at h

/-! ## the invariant -/

def pathOf (σ : St) (w : Nat) : Option Path := (σ.hist[w]?).map (·.1)

theorem pathOf_lt {σ : St} {w : Nat} {p : Path} (h : pathOf σ w = some p) : w < σ.hist.length := by
  unfold pathOf at h
  cases hh : σ.hist[w]? with
  | none => simp [hh] at h
  | some a => exact (List.getElem?_eq_some_iff.mp hh).1

/-- the write of snapshot number `s` of path `p` is *safe*: its transaction completed, or —
when `persist_file` resumes on request success — its request succeeded -/
def SafeAt (σ : St) (p : Path) (s : Nat) : Prop :=
  (∃ v, Op.put p v ∈ σ.done ∧ v.seq = s) ∨
  (σ.awaitComplete = false ∧ ∃ x ∈ σ.txs, x.succeeded = true ∧ ∃ v, x.op = Op.put p v ∧ v.seq = s)

/-- a snapshot of `p` at least as new as the `schedule` call `w` is safe -/
def Safe (σ : St) (p : Path) (w : Nat) : Prop := ∃ s, w ≤ s ∧ SafeAt σ p s

structure QInv (σ : St) : Prop where
  ids : (σ.txs.map (·.id)).Pairwise (· < ·)
  idb : ∀ x ∈ σ.txs, x.id < σ.nextTx
  i1 : ∀ p e, aget p σ.queue = some e → ∀ w ∈ e.waiters,
        ∃ v, e.pending = some v ∧ w ≤ v.seq ∧ pathOf σ w = some p
  i2 : ∀ tid p t ws, (tid, Task.wait p t ws) ∈ σ.tasks →
        ∃ x v, findTx t σ.txs = some x ∧ x.op = Op.put p v ∧
          (σ.awaitComplete = false → x.succeeded = false) ∧
          ∀ w ∈ ws, w ≤ v.seq ∧ pathOf σ w = some p
  i3 : ∀ tid p ws, (tid, Task.woken p ws) ∈ σ.tasks → ∀ w ∈ ws, Safe σ p w ∧ pathOf σ w = some p
  i4 : ∀ w ∈ σ.resolved, ∃ p, pathOf σ w = some p ∧ Safe σ p w

theorem qinv_init (ac : Bool) : QInv { awaitComplete := ac } := by
  constructor <;> simp [aget]

/-- `Safe` only depends on `done`, `txs` and `awaitComplete`, and is monotone in them -/
theorem safe_mono {σ σ' : St} {p : Path} {w : Nat} (h : Safe σ p w)
    (hac : σ'.awaitComplete = σ.awaitComplete)
    (hd : ∀ o ∈ σ.done, o ∈ σ'.done)
    (ht : ∀ x ∈ σ.txs, x.succeeded = true → x ∈ σ'.txs ∨ x.op ∈ σ'.done) : Safe σ' p w := by
  obtain ⟨s, hws, hs⟩ := h
  refine ⟨s, hws, ?_⟩
  rcases hs with ⟨v, hv, hvs⟩ | ⟨hf, x, hx, hxs, v, hop, hvs⟩
  · exact Or.inl ⟨v, hd _ hv, hvs⟩
  · rcases ht x hx hxs with h1 | h1
    · exact Or.inr ⟨by rw [hac]; exact hf, x, h1, hxs, v, hop, hvs⟩
    · rw [hop] at h1
      exact Or.inl ⟨v, h1, hvs⟩

theorem pathOf_congr {σ σ' : St} (h : σ'.hist = σ.hist) (w : Nat) : pathOf σ' w = pathOf σ w := by
  unfold pathOf; rw [h]

/-! ### `schedule` -/

theorem mem_doSched_tasks {σ : St} {p : Path} {d : Data} {it : Nat × Task}
    (h : it ∈ (doSched σ p d).tasks) : it ∈ σ.tasks ∨ it = (σ.nextTask, Task.top p) := by
  unfold doSched at h
  simp only [] at h
  split at h
  · exact Or.inl h
  · simp only [List.mem_append, List.mem_singleton] at h
    exact h

theorem pathOf_doSched {σ : St} {p : Path} {d : Data} {w : Nat} {q : Path} (h : pathOf σ w = some q) :
    pathOf (doSched σ p d) w = some q := by
  have hlt := pathOf_lt h
  unfold pathOf at h ⊢
  rw [doSched_hist, List.getElem?_append_left hlt]
  exact h

theorem qinv_doSched {σ : St} (inv : QInv σ) (p : Path) (d : Data) : QInv (doSched σ p d) := by
  have hsafe : ∀ {q w}, Safe σ q w → Safe (doSched σ p d) q w := by
    intro q w h
    apply safe_mono h
    · simp
    · simp
    · intro x hx _; left; simpa using hx
  constructor
  · simpa using inv.ids
  · simpa using inv.idb
  · intro q e hq w hw
    rw [doSched_queue] at hq
    by_cases hqp : q = p
    · subst hqp
      rw [aget_aset_eq] at hq
      cases hq
      simp only [List.mem_append, List.mem_singleton] at hw
      rcases hw with hw | hw
      · cases hold : aget q σ.queue with
        | none => simp [hold] at hw
        | some e0 =>
          simp only [hold, Option.getD_some] at hw
          obtain ⟨v, _, _, hpath⟩ := inv.i1 q e0 hold w hw
          refine ⟨⟨d, σ.hist.length⟩, rfl, ?_, pathOf_doSched hpath⟩
          exact Nat.le_of_lt (pathOf_lt hpath)
      · subst hw
        refine ⟨⟨d, σ.hist.length⟩, rfl, Nat.le_refl _, ?_⟩
        unfold pathOf
        rw [doSched_hist]
        simp
    · rw [aget_aset_ne hqp] at hq
      obtain ⟨v, h1, h2, h3⟩ := inv.i1 q e hq w hw
      exact ⟨v, h1, h2, pathOf_doSched h3⟩
  · intro tid q t ws hmem
    rcases mem_doSched_tasks hmem with h | h
    · obtain ⟨x, v, h1, h2, h3, h4⟩ := inv.i2 tid q t ws h
      refine ⟨x, v, by simpa using h1, h2, by simpa using h3, ?_⟩
      intro w hw
      exact ⟨(h4 w hw).1, pathOf_doSched (h4 w hw).2⟩
    · cases h
  · intro tid q ws hmem w hw
    rcases mem_doSched_tasks hmem with h | h
    · obtain ⟨h1, h2⟩ := inv.i3 tid q ws h w hw
      exact ⟨hsafe h1, pathOf_doSched h2⟩
    · cases h
  · intro w hw
    rw [doSched_resolved] at hw
    obtain ⟨q, h1, h2⟩ := inv.i4 w hw
    exact ⟨q, pathOf_doSched h1, hsafe h2⟩

/-! ### `schedule_delete` -/

theorem qinv_doSchedDel {σ : St} (inv : QInv σ) (p : Path) : QInv (doSchedDel σ p) := by
  have hsafe : ∀ {q w}, Safe σ q w → Safe (doSchedDel σ p) q w := by
    intro q w h
    apply safe_mono h
    · rfl
    · exact fun _ h => h
    · exact fun x hx _ => Or.inl hx
  constructor
  · exact inv.ids
  · exact inv.idb
  · intro q e hq w hw
    simp only [doSchedDel] at hq
    by_cases hqp : q = p
    · subst hqp; rw [aget_adel_eq] at hq; cases hq
    · rw [aget_adel_ne hqp] at hq
      exact inv.i1 q e hq w hw
  · intro tid q t ws hmem
    simp only [doSchedDel, List.mem_append, List.mem_singleton] at hmem
    rcases hmem with h | h
    · exact inv.i2 tid q t ws h
    · cases h
  · intro tid q ws hmem w hw
    simp only [doSchedDel, List.mem_append, List.mem_singleton] at hmem
    rcases hmem with h | h
    · obtain ⟨h1, h2⟩ := inv.i3 tid q ws h w hw
      exact ⟨hsafe h1, h2⟩
    · cases h
  · intro w hw
    obtain ⟨q, h1, h2⟩ := inv.i4 w hw
    exact ⟨q, h1, hsafe h2⟩

/-! ### one pass of the `persist_queue` loop -/

theorem qinv_loopTop {σ : St} (inv : QInv σ) (tid : Nat) (p : Path) : QInv (loopTop σ tid p) := by
  unfold loopTop
  split
  · -- entry gone: the task returns
    refine ⟨inv.ids, inv.idb, inv.i1, ?_, ?_, inv.i4⟩
    · intro tid' q t ws hmem
      exact inv.i2 tid' q t ws (mem_adel hmem)
    · intro tid' q ws hmem
      exact inv.i3 tid' q ws (mem_adel hmem)
  · rename_i e he
    split
    · -- nothing pending: the task returns
      rename_i hpend
      refine ⟨inv.ids, inv.idb, ?_, ?_, ?_, inv.i4⟩
      · intro q e' hq w hw
        simp only [] at hq
        split at hq
        · by_cases hqp : q = p
          · subst hqp; rw [aget_adel_eq] at hq; cases hq
          · rw [aget_adel_ne hqp] at hq
            exact inv.i1 q e' hq w hw
        · by_cases hqp : q = p
          · subst hqp
            rw [aget_aset_eq] at hq
            cases hq
            obtain ⟨v, h1, _⟩ := inv.i1 q e he w hw
            rw [hpend] at h1; cases h1
          · rw [aget_aset_ne hqp] at hq
            exact inv.i1 q e' hq w hw
      · intro tid' q t ws hmem
        exact inv.i2 tid' q t ws (mem_adel hmem)
      · intro tid' q ws hmem
        exact inv.i3 tid' q ws (mem_adel hmem)
    · -- a snapshot is pending: open a transaction for it and wait
      rename_i v hpend
      have hnew : ∀ x ∈ σ.txs, x.id ≠ (⟨σ.nextTx, Op.put p v, false⟩ : Tx).id := by
        intro x hx; have := inv.idb x hx; simp; omega
      have hsafe : ∀ {q w}, Safe σ q w →
          Safe { σ with queue := aset p { e with pending := none, waiters := [] } σ.queue,
                        txs := σ.txs ++ [⟨σ.nextTx, Op.put p v, false⟩], nextTx := σ.nextTx + 1,
                        tasks := aset tid (Task.wait p σ.nextTx e.waiters) σ.tasks } q w := by
        intro q w h
        apply safe_mono h
        · rfl
        · exact fun _ h => h
        · exact fun x hx _ => Or.inl (List.mem_append_left _ hx)
      constructor
      · simp only [List.map_append, List.map_cons, List.map_nil]
        rw [List.pairwise_append]
        refine ⟨inv.ids, by simp, ?_⟩
        intro a ha b hb
        simp only [List.mem_singleton] at hb
        subst hb
        obtain ⟨x, hx, rfl⟩ := List.mem_map.mp ha
        exact inv.idb x hx
      · intro x hx
        simp only [List.mem_append, List.mem_singleton] at hx
        rcases hx with hx | hx
        · have := inv.idb x hx; simp; omega
        · subst hx; simp
      · intro q e' hq w hw
        simp only [] at hq
        by_cases hqp : q = p
        · subst hqp
          rw [aget_aset_eq] at hq
          cases hq
          simp at hw
        · rw [aget_aset_ne hqp] at hq
          exact inv.i1 q e' hq w hw
      · intro tid' q t ws hmem
        simp only [] at hmem
        rcases mem_aset hmem with h | h
        · cases h
          refine ⟨⟨σ.nextTx, Op.put p v, false⟩, v, findTx_append_new hnew, rfl, fun _ => rfl, ?_⟩
          intro w hw
          obtain ⟨v', h1, h2, h3⟩ := inv.i1 p e he w hw
          rw [hpend] at h1; cases h1
          exact ⟨h2, h3⟩
        · obtain ⟨x, v', h1, h2, h3, h4⟩ := inv.i2 tid' q t ws h
          exact ⟨x, v', findTx_append_of_some h1 _, h2, h3, h4⟩
      · intro tid' q ws hmem w hw
        simp only [] at hmem
        rcases mem_aset hmem with h | h
        · cases h
        · obtain ⟨h1, h2⟩ := inv.i3 tid' q ws h w hw
          exact ⟨hsafe h1, h2⟩
      · intro w hw
        obtain ⟨q, h1, h2⟩ := inv.i4 w hw
        exact ⟨q, h1, hsafe h2⟩

/-! ### polling a task -/

theorem qinv_doRun {σ σ' : St} (inv : QInv σ) {tid : Nat} (h : doRun σ tid = some σ') : QInv σ' := by
  unfold doRun at h
  split at h
  · simp at h; subst h; exact qinv_loopTop inv tid _
  · -- woken: notify the waiters taken before the await, then loop
    rename_i p ws htask
    simp at h; subst h
    apply qinv_loopTop
    have hmem := aget_mem htask
    have hsafe : ∀ {q w}, Safe σ q w → Safe { σ with resolved := σ.resolved ++ ws } q w := by
      intro q w h
      apply safe_mono h
      · rfl
      · exact fun _ h => h
      · exact fun x hx _ => Or.inl hx
    refine ⟨inv.ids, inv.idb, inv.i1, inv.i2, ?_, ?_⟩
    · intro tid' q ws' hm w hw
      obtain ⟨h1, h2⟩ := inv.i3 tid' q ws' hm w hw
      exact ⟨hsafe h1, h2⟩
    · intro w hw
      simp only [List.mem_append] at hw
      rcases hw with hw | hw
      · obtain ⟨q, h1, h2⟩ := inv.i4 w hw
        exact ⟨q, h1, hsafe h2⟩
      · obtain ⟨h1, h2⟩ := inv.i3 tid p ws hmem w hw
        exact ⟨p, h2, hsafe h1⟩
  · -- delete task: open its transaction
    rename_i p htask
    simp at h; subst h
    have hsafe : ∀ {q w}, Safe σ q w →
        Safe { σ with txs := σ.txs ++ [⟨σ.nextTx, Op.del p, false⟩], nextTx := σ.nextTx + 1,
                      tasks := aset tid (Task.dwait p σ.nextTx) σ.tasks } q w := by
      intro q w h
      apply safe_mono h
      · rfl
      · exact fun _ h => h
      · exact fun x hx _ => Or.inl (List.mem_append_left _ hx)
    constructor
    · simp only [List.map_append, List.map_cons, List.map_nil]
      rw [List.pairwise_append]
      refine ⟨inv.ids, by simp, ?_⟩
      intro a ha b hb
      simp only [List.mem_singleton] at hb
      subst hb
      obtain ⟨x, hx, rfl⟩ := List.mem_map.mp ha
      exact inv.idb x hx
    · intro x hx
      simp only [List.mem_append, List.mem_singleton] at hx
      rcases hx with hx | hx
      · have := inv.idb x hx; simp; omega
      · subst hx; simp
    · exact inv.i1
    · intro tid' q t ws hmem
      simp only [] at hmem
      rcases mem_aset hmem with h | h
      · cases h
      · obtain ⟨x, v', h1, h2, h3, h4⟩ := inv.i2 tid' q t ws h
        exact ⟨x, v', findTx_append_of_some h1 _, h2, h3, h4⟩
    · intro tid' q ws hmem w hw
      simp only [] at hmem
      rcases mem_aset hmem with h | h
      · cases h
      · obtain ⟨h1, h2⟩ := inv.i3 tid' q ws h w hw
        exact ⟨hsafe h1, h2⟩
    · intro w hw
      obtain ⟨q, h1, h2⟩ := inv.i4 w hw
      exact ⟨q, h1, hsafe h2⟩
  · -- delete task done
    simp at h; subst h
    refine ⟨inv.ids, inv.idb, inv.i1, ?_, ?_, inv.i4⟩
    · intro tid' q t ws hmem
      exact inv.i2 tid' q t ws (mem_adel hmem)
    · intro tid' q ws hmem
      exact inv.i3 tid' q ws (mem_adel hmem)
  · simp at h

/-! ### browser events -/

theorem qinv_doSucc {σ σ' : St} (inv : QInv σ) {t : Nat} (h : doSucc σ t = some σ') : QInv σ' := by
  unfold doSucc at h
  split at h
  · simp at h
  · rename_i x hx
    split at h
    · simp at h
    · simp at h; subst h
      obtain ⟨hxid, hxmem⟩ := findTx_some hx
      have hsafe : ∀ {q w} (tasks : List (Nat × Task)), Safe σ q w →
          Safe { σ with txs := markSucc t σ.txs, tasks := tasks } q w := by
        intro q w tasks h
        apply safe_mono h
        · rfl
        · exact fun _ h => h
        · intro y hy hys
          left
          show y ∈ markSucc t σ.txs
          rw [markSucc_eq]
          have : setSucc t y = y := setSucc_succeeded hys
          rw [← this]
          exact List.mem_map_of_mem hy
      constructor
      · simp only []; rw [ids_markSucc]; exact inv.ids
      · intro y hy
        simp only [] at hy
        rw [markSucc_eq] at hy
        obtain ⟨z, hz, rfl⟩ := List.mem_map.mp hy
        simpa using inv.idb z hz
      · exact inv.i1
      · intro tid p t' ws hmem
        simp only [] at hmem ⊢
        by_cases hac : σ.awaitComplete = true
        · simp only [hac, if_true] at hmem
          obtain ⟨y, v, h1, h2, _, h4⟩ := inv.i2 tid p t' ws hmem
          refine ⟨setSucc t y, v, ?_, by simpa using h2, ?_, h4⟩
          · rw [findTx_markSucc, h1]; rfl
          · intro hf; rw [hac] at hf; cases hf
        · simp only [hac] at hmem
          obtain ⟨o, ho, hw⟩ := mem_wake hmem
          obtain ⟨ho2, hne⟩ := wakeTask_wait hw.symm
          subst ho2
          obtain ⟨y, v, h1, h2, h3, h4⟩ := inv.i2 tid p t' ws ho
          have hyid := (findTx_some h1).1
          refine ⟨y, v, ?_, h2, h3, h4⟩
          rw [findTx_markSucc, h1]
          simp only [Option.map_some]
          rw [setSucc_ne (by omega)]
      · intro tid p ws hmem w hw
        simp only [] at hmem
        by_cases hac : σ.awaitComplete = true
        · simp only [hac, if_true] at hmem
          obtain ⟨h1, h2⟩ := inv.i3 tid p ws hmem w hw
          exact ⟨hsafe _ h1, h2⟩
        · simp only [hac] at hmem
          obtain ⟨o, ho, hwk⟩ := mem_wake hmem
          rcases wakeTask_woken hwk.symm with ho2 | ho2
          · subst ho2
            obtain ⟨h1, h2⟩ := inv.i3 tid p ws ho w hw
            exact ⟨hsafe _ h1, h2⟩
          · subst ho2
            obtain ⟨y, v, h1, h2, _, h4⟩ := inv.i2 tid p t ws ho
            refine ⟨⟨v.seq, (h4 w hw).1, Or.inr ⟨?_, setSucc t y, ?_, ?_, v, by simpa using h2, rfl⟩⟩, (h4 w hw).2⟩
            · simpa using hac
            · rw [markSucc_eq]; exact List.mem_map_of_mem (findTx_some h1).2
            · exact setSucc_eq (findTx_some h1).1
      · intro w hw
        obtain ⟨q, h1, h2⟩ := inv.i4 w hw
        exact ⟨q, h1, hsafe _ h2⟩

theorem qinv_doComplete {σ σ' : St} (inv : QInv σ) {t : Nat} (h : doComplete σ t = some σ') : QInv σ' := by
  unfold doComplete at h
  split at h
  · simp at h
  · rename_i x hx
    split at h
    · simp at h
    · rename_i hguard
      simp at h; subst h
      obtain ⟨hxid, hxmem⟩ := findTx_some hx
      have hxs : x.succeeded = true := by
        simp only [Bool.or_eq_true, Bool.not_eq_true', not_or] at hguard
        cases hs : x.succeeded with
        | true => rfl
        | false => exact absurd hs hguard.1
      have hsafe : ∀ {q w} (tasks : List (Nat × Task)), Safe σ q w →
          Safe { σ with txs := dropTx t σ.txs, store := applyOp σ.store x.op, done := σ.done ++ [x.op],
                        tasks := tasks } q w := by
        intro q w tasks h
        apply safe_mono h
        · rfl
        · exact fun _ h => List.mem_append_left _ h
        · intro y hy _
          by_cases hyt : y.id = t
          · right
            have : y = x := findTx_unique inv.ids hx hy hyt
            subst this
            simp
          · left
            exact mem_dropTx.mpr ⟨hy, hyt⟩
      constructor
      · exact List.Pairwise.sublist (ids_dropTx_sublist t σ.txs) inv.ids
      · intro y hy
        exact inv.idb y (mem_dropTx.mp hy).1
      · exact inv.i1
      · intro tid p t' ws hmem
        simp only [] at hmem ⊢
        by_cases hac : σ.awaitComplete = true
        · simp only [hac, if_true] at hmem
          obtain ⟨o, ho, hw⟩ := mem_wake hmem
          obtain ⟨ho2, hne⟩ := wakeTask_wait hw.symm
          subst ho2
          obtain ⟨y, v, h1, h2, _, h4⟩ := inv.i2 tid p t' ws ho
          refine ⟨y, v, ?_, h2, ?_, h4⟩
          · rw [findTx_dropTx_ne hne]; exact h1
          · intro hf; rw [hac] at hf; cases hf
        · simp only [hac] at hmem
          have hacf : σ.awaitComplete = false := by simpa using hac
          obtain ⟨y, v, h1, h2, h3, h4⟩ := inv.i2 tid p t' ws hmem
          by_cases htt : t' = t
          · subst htt
            rw [hx] at h1; cases h1
            have := h3 hacf
            rw [hxs] at this; cases this
          · refine ⟨y, v, ?_, h2, h3, h4⟩
            rw [findTx_dropTx_ne htt]; exact h1
      · intro tid p ws hmem w hw
        simp only [] at hmem
        by_cases hac : σ.awaitComplete = true
        · simp only [hac, if_true] at hmem
          obtain ⟨o, ho, hwk⟩ := mem_wake hmem
          rcases wakeTask_woken hwk.symm with ho2 | ho2
          · subst ho2
            obtain ⟨h1, h2⟩ := inv.i3 tid p ws ho w hw
            exact ⟨hsafe _ h1, h2⟩
          · subst ho2
            obtain ⟨y, v, h1, h2, _, h4⟩ := inv.i2 tid p t ws ho
            rw [hx] at h1; cases h1
            refine ⟨⟨v.seq, (h4 w hw).1, Or.inl ⟨v, ?_, rfl⟩⟩, (h4 w hw).2⟩
            simp [h2]
        · simp only [hac] at hmem
          obtain ⟨h1, h2⟩ := inv.i3 tid p ws hmem w hw
          exact ⟨hsafe _ h1, h2⟩
      · intro w hw
        obtain ⟨q, h1, h2⟩ := inv.i4 w hw
        exact ⟨q, h1, hsafe _ h2⟩

theorem qinv_step {σ σ' : St} (inv : QInv σ) {l : Label} (h : step σ l = some σ') : QInv σ' := by
  cases l with
  | sched p d => simp [step] at h; subst h; exact qinv_doSched inv p d
  | schedDel p => simp [step] at h; subst h; exact qinv_doSchedDel inv p
  | flushTake =>
    simp [step] at h; subst h
    refine ⟨inv.ids, inv.idb, inv.i1, inv.i2, ?_, ?_⟩
    · intro tid p ws hm w hw
      obtain ⟨h1, h2⟩ := inv.i3 tid p ws hm w hw
      refine ⟨?_, h2⟩
      apply safe_mono h1
      · rfl
      · exact fun _ h => h
      · exact fun x hx _ => Or.inl hx
    · intro w hw
      obtain ⟨q, h1, h2⟩ := inv.i4 w hw
      refine ⟨q, h1, ?_⟩
      apply safe_mono h2
      · rfl
      · exact fun _ h => h
      · exact fun x hx _ => Or.inl hx
  | run t => exact qinv_doRun inv h
  | succ t => exact qinv_doSucc inv h
  | complete t => exact qinv_doComplete inv h

theorem qinv_exec {σ σ' : St} (inv : QInv σ) {ls : List Label} (h : exec σ ls = some σ') : QInv σ' := by
  induction ls generalizing σ with
  | nil => simp [exec] at h; subst h; exact inv
  | cons l ls ih =>
    simp only [exec] at h
    split at h
    · simp at h
    · rename_i σ1 h1
      exact ih (qinv_step inv h1) h

end SL.Idb
