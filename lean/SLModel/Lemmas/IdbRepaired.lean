import SLModel.Core.Idb
import SLModel.Lemmas.Idb
import SLModel.Lemmas.IdbQueue
import SLModel.Lemmas.IdbProgram
/-!
# Lemmas/IdbRepaired — the invariant of the repaired protocol

Repaired protocol = `blockRepaired` (stage 1: log snapshots and segment files, awaited; stage 2:
manifest and log, awaited) with `awaitComplete = true` (waiters are notified when the
transaction completes).  `PInv` is preserved by every move of the program and of the
adversary; it contains `Openable cs store` — no close image is partial.
-/
namespace SL.Idb

/-! ## small list facts -/

theorem filesPresent_iff (s : List (Path × Ver)) (fs : List (Path × Data)) :
    filesPresent s fs = true ↔ ∀ f ∈ fs, ∃ v, aget f.1 s = some v ∧ v.data = f.2 := by
  unfold filesPresent
  rw [List.all_eq_true]
  constructor
  · intro h f hf
    have := h f hf
    cases hg : aget f.1 s with
    | none => simp [hg] at this
    | some v => simp [hg] at this; exact ⟨v, rfl, this⟩
  · intro h f hf
    obtain ⟨v, hv, hd⟩ := h f hf
    simp [hv, hd]

theorem filesPresent_aset {s : List (Path × Ver)} {fs : List (Path × Data)} {p : Path} {v : Ver}
    (h : filesPresent s fs = true) (hd : ∀ f ∈ fs, f.1 = p → f.2 = v.data) :
    filesPresent (aset p v s) fs = true := by
  rw [filesPresent_iff] at h ⊢
  intro f hf
  by_cases hp : f.1 = p
  · exact ⟨v, by rw [hp, aget_aset_eq], (hd f hf hp).symm⟩
  · rw [aget_aset_ne hp]; exact h f hf

theorem findManifest_le (d : Data) : ∀ (cs : List Commit) (k : Nat) (c : Commit),
    cs[k]? = some c → c.manifest = d → ∃ k0, k0 ≤ k ∧ findManifest d cs = some k0 := by
  intro cs
  induction cs with
  | nil => intro k c h; simp at h
  | cons a r ih =>
    intro k c h hd
    simp only [findManifest]
    by_cases ha : a.manifest = d
    · exact ⟨0, Nat.zero_le _, by simp [ha]⟩
    · cases k with
      | zero =>
        simp at h; subst h; exact absurd hd ha
      | succ k =>
        simp only [List.getElem?_cons_succ] at h
        obtain ⟨k0, hk0, hf⟩ := ih k c h hd
        exact ⟨k0 + 1, by omega, by simp [ha, hf]⟩

theorem mem_take_get {α : Type} : ∀ (l : List α) (n : Nat) (x : α), x ∈ l.take n → ∃ j, j < n ∧ l[j]? = some x := by
  intro l
  induction l with
  | nil => intro n x h; simp at h
  | cons a r ih =>
    intro n x h
    cases n with
    | zero => simp at h
    | succ n =>
      simp only [List.take_succ_cons, List.mem_cons] at h
      rcases h with h | h
      · subst h; exact ⟨0, by omega, rfl⟩
      · obtain ⟨j, hj, hx⟩ := ih n x h
        exact ⟨j + 1, by omega, by simpa using hx⟩

theorem getElem?_mem_of_some {α : Type} {l : List α} {j : Nat} {x : α} (h : l[j]? = some x) : x ∈ l := by
  obtain ⟨hj, hx⟩ := List.getElem?_eq_some_iff.mp h
  rw [← hx]; exact List.getElem_mem hj

theorem flushDone_spec {σ : St} {f : Nat} (h : flushDone σ f = true) {rs : List Nat}
    (hrs : σ.flushes[f]? = some rs) : ∀ r ∈ rs, r ∈ σ.resolved ∨ r ∈ σ.dropped := by
  unfold flushDone at h
  rw [hrs] at h
  simp only [List.all_eq_true, Bool.or_eq_true, List.contains_iff_mem] at h
  exact h

/-! ## the repaired blocks -/

def S1 (c : Commit) : Stage := c.pre.map (fun d => (walPath, d)) ++ c.files
def S2 (c : Commit) : Stage := (manifestPath, c.manifest) :: c.post.map (fun d => (walPath, d))

theorem blockRepaired_eq (c : Commit) : blockRepaired c = [S1 c, S2 c] := rfl

structure WfRep (cs : List Commit) : Prop where
  notManifest : ∀ c ∈ cs, ∀ f ∈ c.files, f.1 ≠ manifestPath
  notWal : ∀ c ∈ cs, ∀ f ∈ c.files, f.1 ≠ walPath
  /-- a segment file's path determines its contents -/
  funct : ∀ c ∈ cs, ∀ c' ∈ cs, ∀ f ∈ c.files, ∀ f' ∈ c'.files, f.1 = f'.1 → f.2 = f'.2

theorem mem_S1 {c : Commit} {pd : Path × Data} (h : pd ∈ S1 c) : pd.1 = walPath ∨ pd ∈ c.files := by
  unfold S1 at h
  simp only [List.mem_append, List.mem_map] at h
  rcases h with ⟨d, _, rfl⟩ | h
  · exact Or.inl rfl
  · exact Or.inr h

theorem mem_S2 {c : Commit} {pd : Path × Data} (h : pd ∈ S2 c) :
    pd = (manifestPath, c.manifest) ∨ pd.1 = walPath := by
  unfold S2 at h
  simp only [List.mem_cons, List.mem_map] at h
  rcases h with h | ⟨d, _, rfl⟩
  · exact Or.inl h
  · exact Or.inr rfl

/-- whatever is scheduled at a segment file's path is that file's contents -/
theorem file_data {cs : List Commit} (wf : WfRep cs) {c' : Commit} (hc' : c' ∈ cs) {p : Path} {d : Data}
    (h : (p, d) ∈ S1 c' ∨ (p, d) ∈ S2 c') :
    ∀ c ∈ cs, ∀ f ∈ c.files, f.1 = p → f.2 = d := by
  intro c hc f hf hp
  rcases h with h | h
  · rcases mem_S1 h with h1 | h1
    · simp only at h1
      exact absurd (hp.trans h1) (wf.notWal c hc f hf)
    · exact wf.funct c hc c' hc' f hf (p, d) h1 hp
  · rcases mem_S2 h with h1 | h1
    · simp only [Prod.mk.injEq] at h1
      exact absurd (hp.trans h1.1) (wf.notManifest c hc f hf)
    · simp only at h1
      exact absurd (hp.trans h1) (wf.notWal c hc f hf)

/-! ## the invariant -/

/-- number of blocks whose segment files have been awaited -/
def filesDone (s : PSt) : Nat := if s.stages.isEmpty then s.started else s.started - 1

inductive Phase (c : Commit) (s : PSt) : Prop where
  | s1 (ex : Stage) (h1 : s.inStage = true) (h2 : s.waiting = none) (h3 : s.stages = [S2 c])
      (h4 : S1 c = ex ++ s.cur) (h5 : ∀ pd ∈ ex, pd ∈ s.q.hist)
  | w1 (f : Nat) (h1 : s.inStage = false) (h2 : s.waiting = some f) (h3 : s.stages = [S2 c])
      (h5 : ∀ pd ∈ S1 c, pd ∈ s.q.hist)
  | s2 (ex : Stage) (h1 : s.inStage = true) (h2 : s.waiting = none) (h3 : s.stages = [])
      (h4 : S2 c = ex ++ s.cur)
  | w2 (f : Nat) (h1 : s.inStage = false) (h2 : s.waiting = some f) (h3 : s.stages = [])
  | fin (h1 : s.inStage = false) (h2 : s.waiting = none) (h3 : s.stages = [])

def Pos (cs : List Commit) (s : PSt) : Prop :=
  (s.started = 0 ∧ s.inStage = false ∧ s.waiting = none ∧ s.stages = []) ∨
  (∃ c, 0 < s.started ∧ cs[s.started - 1]? = some c ∧ Phase c s)

structure PInv (cs : List Commit) (s : PSt) : Prop where
  q : QInv s.q
  g : GInv s.q
  nd : NoDelSt s.q
  ac : s.q.awaitComplete = true
  sr : s.q.store = replay s.q.done
  rest : s.rest = (cs.drop s.started).map blockRepaired
  pos : Pos cs s
  rx : ∀ r, r < s.q.hist.length → r ∈ s.q.resolved ∨ r ∈ s.q.rxs ∨
        (∃ f rs, s.waiting = some f ∧ s.q.flushes[f]? = some rs ∧ r ∈ rs)
  wrx : ∀ f, s.waiting = some f → s.q.rxs = []
  hist : ∀ pd ∈ s.q.hist, ∃ c ∈ cs, pd ∈ S1 c ∨ pd ∈ S2 c
  files : ∀ j c, j < filesDone s → cs[j]? = some c → filesPresent s.q.store c.files = true
  man : ∀ d, (manifestPath, d) ∈ s.q.hist →
        ∃ k c, k < filesDone s ∧ cs[k]? = some c ∧ c.manifest = d
  op : Openable cs s.q.store

theorem pinv_init (cs : List Commit) : PInv cs (initP cs true) := by
  refine ⟨qinv_init _, ginv_init _, nodel_init _, rfl, rfl, ?_, Or.inl ⟨rfl, rfl, rfl, rfl⟩, ?_, ?_, ?_, ?_, ?_, ?_⟩
  · simp [initP]
  · intro r hr; simp [initP] at hr
  · intro f hf; simp [initP] at hf
  · intro pd hpd; simp [initP] at hpd
  · intro j c hj; simp [filesDone, initP] at hj
  · intro d hd; simp [initP] at hd
  · exact openable_nil cs

/-- a completed put keeps every awaited file present and the image openable -/
theorem durable_put {cs : List Commit} (wf : WfRep cs) {s : PSt} (inv : PInv cs s) {p : Path} {v : Ver}
    (hx : (p, v.data) ∈ s.q.hist) :
    (∀ j c, j < filesDone s → cs[j]? = some c → filesPresent (aset p v s.q.store) c.files = true) ∧
    Openable cs (aset p v s.q.store) := by
  obtain ⟨c', hc', hin⟩ := inv.hist _ hx
  have hdata := file_data wf hc' hin
  have hfiles : ∀ j c, j < filesDone s → cs[j]? = some c →
      filesPresent (aset p v s.q.store) c.files = true := by
    intro j c hj hc
    exact filesPresent_aset (inv.files j c hj hc) (hdata c (getElem?_mem_of_some hc))
  refine ⟨hfiles, ?_⟩
  by_cases hp : p = manifestPath
  · subst hp
    intro v' hv'
    rw [aget_aset_eq] at hv'
    cases hv'
    obtain ⟨k, c, hk, hc, hm⟩ := inv.man _ hx
    obtain ⟨k0, hk0, hf⟩ := findManifest_le v.data cs k c hc hm
    refine ⟨k0, hf, ?_⟩
    rw [List.all_eq_true]
    intro c1 hc1
    obtain ⟨j, hj, hcj⟩ := mem_take_get cs (k0 + 1) c1 hc1
    exact hfiles j c1 (by omega) hcj
  · intro m hm
    rw [aget_aset_ne (Ne.symm hp)] at hm
    obtain ⟨k0, hf, hall⟩ := inv.op m hm
    refine ⟨k0, hf, ?_⟩
    rw [List.all_eq_true] at hall ⊢
    intro c1 hc1
    exact filesPresent_aset (hall c1 hc1) (hdata c1 (List.mem_of_mem_take hc1))

theorem pinv_adv {cs : List Commit} (wf : WfRep cs) {s : PSt} (inv : PInv cs s) {l : Label}
    (hl : l.isAdv = true) {q' : St} (h : step s.q l = some q') : PInv cs { s with q := q' } := by
  obtain ⟨hrxs, hfl, hh, hac, hres⟩ := adv_frame hl h
  have hpos : Pos cs { s with q := q' } := by
    rcases inv.pos with h0 | ⟨c, hs, hc, hph⟩
    · exact Or.inl h0
    · refine Or.inr ⟨c, hs, hc, ?_⟩
      cases hph with
      | s1 ex h1 h2 h3 h4 h5 => exact Phase.s1 ex h1 h2 h3 h4 (by simpa [hh] using h5)
      | w1 f h1 h2 h3 h5 => exact Phase.w1 f h1 h2 h3 (by simpa [hh] using h5)
      | s2 ex h1 h2 h3 h4 => exact Phase.s2 ex h1 h2 h3 h4
      | w2 f h1 h2 h3 => exact Phase.w2 f h1 h2 h3
      | fin h1 h2 h3 => exact Phase.fin h1 h2 h3
  have hfd : filesDone { s with q := q' } = filesDone s := rfl
  have hdur : (∀ j c, j < filesDone s → cs[j]? = some c → filesPresent q'.store c.files = true) ∧
      Openable cs q'.store := by
    by_cases hc : ∃ t, l = Label.complete t
    · obtain ⟨t, rfl⟩ := hc
      obtain ⟨x, hx, hst, _⟩ := complete_effect h
      have hput := inv.nd.txs x hx
      cases hop : x.op with
      | del p => rw [hop] at hput; simp [Op.isPut] at hput
      | put p v =>
        rw [hst, hop]
        exact durable_put wf inv (inv.g.g2 x hx p v hop)
    · have hnc : ∀ t, l ≠ Label.complete t := fun t e => hc ⟨t, e⟩
      obtain ⟨hst, _⟩ := noncomplete_durable hnc h
      rw [hst]
      exact ⟨inv.files, inv.op⟩
  refine ⟨qinv_step inv.q h, ginv_step inv.g h, nodel_step inv.nd (Or.inl hl) h, by rw [hac]; exact inv.ac,
    ?_, inv.rest, hpos, ?_, ?_, ?_, ?_, ?_, hdur.2⟩
  · exact step_store_replay h inv.sr
  · intro r hr
    simp only [hh] at hr
    rcases inv.rx r hr with h1 | h1 | ⟨f, rs, h2, h3, h4⟩
    · exact Or.inl (hres r h1)
    · exact Or.inr (Or.inl (by simpa [hrxs] using h1))
    · exact Or.inr (Or.inr ⟨f, rs, h2, by simpa [hfl] using h3, h4⟩)
  · intro f hf
    simp only [hrxs]
    exact inv.wrx f hf
  · intro pd hpd
    simp only [hh] at hpd
    exact inv.hist pd hpd
  · intro j c hj hc
    exact hdur.1 j c hj hc
  · intro d hd
    simp only [hh] at hd
    exact inv.man d hd

theorem drop_cons_get {α : Type} : ∀ (l : List α) (n : Nat) (c : α) (tl : List α),
    l.drop n = c :: tl → l[n]? = some c ∧ l.drop (n + 1) = tl := by
  intro l
  induction l with
  | nil => intro n c tl h; simp at h
  | cons a r ih =>
    intro n c tl h
    cases n with
    | zero => simp at h; simp [h.1, h.2]
    | succ n =>
      simp only [List.drop_succ_cons] at h
      obtain ⟨h1, h2⟩ := ih n c tl h
      exact ⟨by simpa using h1, by simpa using h2⟩

/-- the program executes one `schedule` call of the running stage -/
theorem pinv_sched {cs : List Commit} {s : PSt} (inv : PInv cs s) (pd : Path × Data) (is : Stage)
    (hw : s.waiting = none)
    (hpos : Pos cs { s with q := doSched s.q pd.1 pd.2, cur := is })
    (hmem : ∃ c ∈ cs, pd ∈ S1 c ∨ pd ∈ S2 c)
    (hman : pd.1 = manifestPath → ∃ k c, k < filesDone s ∧ cs[k]? = some c ∧ c.manifest = pd.2) :
    PInv cs { s with q := doSched s.q pd.1 pd.2, cur := is } := by
  refine ⟨qinv_doSched inv.q _ _, ginv_doSched inv.g _ _, nodel_doSched inv.nd _ _, ?_, ?_, inv.rest, hpos,
    ?_, ?_, ?_, ?_, ?_, ?_⟩
  · simpa using inv.ac
  · simpa using inv.sr
  · intro r hr
    simp only [doSched_hist, List.length_append, List.length_singleton] at hr
    simp only [doSched_resolved, doSched_rxs, List.mem_append, List.mem_singleton]
    by_cases hlt : r < s.q.hist.length
    · rcases inv.rx r hlt with h1 | h1 | ⟨f, rs, h2, _⟩
      · exact Or.inl h1
      · exact Or.inr (Or.inl (Or.inl h1))
      · rw [hw] at h2; cases h2
    · exact Or.inr (Or.inl (Or.inr (by omega)))
  · intro f hf
    simp only [] at hf
    rw [hw] at hf; cases hf
  · intro pd' hpd'
    simp only [doSched_hist, List.mem_append, List.mem_singleton] at hpd'
    rcases hpd' with h1 | h1
    · exact inv.hist pd' h1
    · subst h1; exact hmem
  · intro j c hj hc
    simp only [doSched_store]
    exact inv.files j c hj hc
  · intro d hd
    simp only [doSched_hist, List.mem_append, List.mem_singleton, Prod.mk.injEq] at hd
    rcases hd with h1 | ⟨h1, h2⟩
    · exact inv.man d h1
    · obtain ⟨k, c, hk, hc, hm⟩ := hman h1.symm
      exact ⟨k, c, hk, hc, hm.trans h2.symm⟩
  · simpa using inv.op

/-- the program takes the pending receivers and starts waiting -/
theorem pinv_flush {cs : List Commit} {s : PSt} (inv : PInv cs s) (hw : s.waiting = none)
    (hpos : Pos cs { s with q := { s.q with flushes := s.q.flushes ++ [s.q.rxs], rxs := [] },
                            waiting := some s.q.flushes.length, inStage := false }) :
    PInv cs { s with q := { s.q with flushes := s.q.flushes ++ [s.q.rxs], rxs := [] },
                     waiting := some s.q.flushes.length, inStage := false } := by
  have hstep : step s.q Label.flushTake = some { s.q with flushes := s.q.flushes ++ [s.q.rxs], rxs := [] } := rfl
  refine ⟨qinv_step inv.q hstep, ginv_step inv.g hstep, nodel_step inv.nd (Or.inr rfl) hstep, inv.ac, inv.sr,
    inv.rest, hpos, ?_, ?_, inv.hist, inv.files, inv.man, inv.op⟩
  · intro r hr
    rcases inv.rx r hr with h1 | h1 | ⟨f, rs, h2, _⟩
    · exact Or.inl h1
    · refine Or.inr (Or.inr ⟨s.q.flushes.length, s.q.rxs, rfl, ?_, h1⟩)
      simp
    · rw [hw] at h2; cases h2
  · intro f _; rfl

theorem pinv_prog {cs : List Commit} (wf : WfRep cs) {s s' : PSt} (inv : PInv cs s)
    (h : progStep s = some s') : PInv cs s' := by
  unfold progStep at h
  split at h
  · -- the program is blocked on flush `f`
    rename_i f hw
    split at h
    · rename_i hfd
      have hall : ∀ r, r < s.q.hist.length → r ∈ s.q.resolved := by
        intro r hr
        rcases inv.rx r hr with h1 | h1 | ⟨f', rs, h2, h3, h4⟩
        · exact h1
        · rw [inv.wrx f hw] at h1; simp at h1
        · rw [hw] at h2; cases h2
          rcases flushDone_spec hfd h3 r h4 with h5 | h5
          · exact h5
          · rw [inv.nd.dropped] at h5; simp at h5
      split at h
      · -- stage 1 awaited: the segment files are durable, stage 2 begins
        rename_i st ss hst
        simp at h; subst h
        rcases inv.pos with h0 | ⟨c, hs, hc, hph⟩
        · rw [h0.2.2.1] at hw; cases hw
        · cases hph with
          | s1 ex h1 h2 h3 h4 h5 => rw [h2] at hw; cases hw
          | s2 ex h1 h2 h3 h4 => rw [h2] at hw; cases hw
          | fin h1 h2 h3 => rw [h2] at hw; cases hw
          | w2 f' h1 h2 h3 => rw [h3] at hst; cases hst
          | w1 f' h1 h2 h3 h5 =>
            rw [h3] at hst
            cases hst
            have hfd0 : filesDone s = s.started - 1 := by simp [filesDone, h3]
            have hfiles_c : filesPresent s.q.store c.files = true := by
              rw [filesPresent_iff]
              intro f1 hf1
              have hin : f1 ∈ s.q.hist := h5 f1 (by unfold S1; exact List.mem_append_right _ hf1)
              obtain ⟨r, hr, hget⟩ := List.mem_iff_getElem.mp hin
              obtain ⟨p', hp', hsafe⟩ := inv.q.i4 r (hall r hr)
              have hp'eq : p' = f1.1 := by
                unfold pathOf at hp'
                rw [List.getElem?_eq_getElem hr, hget] at hp'
                simpa using hp'.symm
              subst hp'eq
              obtain ⟨sq, _, hsa⟩ := hsafe
              rcases hsa with ⟨v, hv, _⟩ | ⟨hf, _⟩
              · obtain ⟨v', hv'⟩ := replay_has s.q.done inv.nd.done f1.1 v hv
                have hmem := replay_get_mem _ _ _ hv'
                obtain ⟨c2, hc2, hin2⟩ := inv.hist _ (inv.g.g3 _ _ hmem)
                have hd := file_data wf hc2 hin2 c (getElem?_mem_of_some hc) f1 hf1 rfl
                exact ⟨v', by rw [inv.sr]; exact hv', hd.symm⟩
              · rw [inv.ac] at hf; cases hf
            refine ⟨inv.q, inv.g, inv.nd, inv.ac, inv.sr, inv.rest,
              Or.inr ⟨c, hs, hc, Phase.s2 [] rfl rfl rfl rfl⟩, ?_, ?_, inv.hist, ?_, ?_, inv.op⟩
            · intro r hr; exact Or.inl (hall r hr)
            · intro f2 hf2; cases hf2
            · intro j c1 hj hc1
              simp only [filesDone, List.isEmpty_nil, if_true] at hj
              by_cases hj2 : j < s.started - 1
              · exact inv.files j c1 (by rw [hfd0]; exact hj2) hc1
              · have : j = s.started - 1 := by omega
                subst this
                rw [hc] at hc1; cases hc1
                exact hfiles_c
            · intro d hd
              obtain ⟨k, c1, hk, hc1, hm⟩ := inv.man d hd
              refine ⟨k, c1, ?_, hc1, hm⟩
              simp only [filesDone, List.isEmpty_nil, if_true]
              rw [hfd0] at hk; omega
      · -- stage 2 awaited: the block's promise resolves
        rename_i hst
        simp at h; subst h
        rcases inv.pos with h0 | ⟨c, hs, hc, hph⟩
        · rw [h0.2.2.1] at hw; cases hw
        · cases hph with
          | s1 ex h1 h2 h3 h4 h5 => rw [h2] at hw; cases hw
          | s2 ex h1 h2 h3 h4 => rw [h2] at hw; cases hw
          | fin h1 h2 h3 => rw [h2] at hw; cases hw
          | w1 f' h1 h2 h3 h5 => rw [h3] at hst; cases hst
          | w2 f' h1 h2 h3 =>
            refine ⟨inv.q, inv.g, inv.nd, inv.ac, inv.sr, inv.rest,
              Or.inr ⟨c, hs, hc, Phase.fin h1 rfl h3⟩, ?_, ?_, inv.hist, inv.files, inv.man, inv.op⟩
            · intro r hr; exact Or.inl (hall r hr)
            · intro f2 hf2; cases hf2
    · simp at h
  · rename_i hw
    split at h
    · rename_i hin
      split at h
      · -- a `schedule` call of the running stage
        rename_i pd is hcur
        simp at h; subst h
        rcases inv.pos with h0 | ⟨c, hs, hc, hph⟩
        · rw [h0.2.1] at hin; cases hin
        · have hcm : c ∈ cs := getElem?_mem_of_some hc
          cases hph with
          | w1 f' h1 h2 h3 h5 => rw [h1] at hin; cases hin
          | w2 f' h1 h2 h3 => rw [h1] at hin; cases hin
          | fin h1 h2 h3 => rw [h1] at hin; cases hin
          | s1 ex h1 h2 h3 h4 h5 =>
            have hpd : pd ∈ S1 c := by rw [h4, hcur]; simp
            apply pinv_sched inv pd is hw
            · refine Or.inr ⟨c, hs, hc, Phase.s1 (ex ++ [pd]) h1 h2 h3 (by rw [h4, hcur]; simp) ?_⟩
              intro pd' hpd'
              simp only [doSched_hist, List.mem_append, List.mem_singleton] at hpd' ⊢
              rcases hpd' with h6 | h6
              · exact Or.inl (h5 pd' h6)
              · exact Or.inr h6
            · exact ⟨c, hcm, Or.inl hpd⟩
            · intro hp
              rcases mem_S1 hpd with h6 | h6
              · rw [hp] at h6; cases h6
              · exact absurd hp (wf.notManifest c hcm pd h6)
          | s2 ex h1 h2 h3 h4 =>
            have hpd : pd ∈ S2 c := by rw [h4, hcur]; simp
            apply pinv_sched inv pd is hw
            · exact Or.inr ⟨c, hs, hc, Phase.s2 (ex ++ [pd]) h1 h2 h3 (by rw [h4, hcur]; simp)⟩
            · exact ⟨c, hcm, Or.inr hpd⟩
            · intro hp
              rcases mem_S2 hpd with h6 | h6
              · refine ⟨s.started - 1, c, ?_, hc, ?_⟩
                · simp [filesDone, h3]; omega
                · rw [h6]
              · rw [hp] at h6; cases h6
      · -- the running stage has no calls left: flush
        rename_i hcur
        simp at h; subst h
        apply pinv_flush inv hw
        rcases inv.pos with h0 | ⟨c, hs, hc, hph⟩
        · rw [h0.2.1] at hin; cases hin
        · refine Or.inr ⟨c, hs, hc, ?_⟩
          cases hph with
          | w1 f' h1 h2 h3 h5 => rw [h1] at hin; cases hin
          | w2 f' h1 h2 h3 => rw [h1] at hin; cases hin
          | fin h1 h2 h3 => rw [h1] at hin; cases hin
          | s1 ex h1 h2 h3 h4 h5 =>
            refine Phase.w1 _ rfl rfl h3 ?_
            intro pd hpd
            rw [h4, hcur, List.append_nil] at hpd
            exact h5 pd hpd
          | s2 ex h1 h2 h3 h4 => exact Phase.w2 _ rfl rfl h3
    · -- between blocks: begin the next one
      rename_i hin
      have hin' : s.inStage = false := by simpa using hin
      have hstg : s.stages = [] := by
        rcases inv.pos with h0 | ⟨c, hs, hc, hph⟩
        · exact h0.2.2.2
        · cases hph with
          | s1 ex h1 h2 h3 h4 h5 => rw [h1] at hin'; cases hin'
          | s2 ex h1 h2 h3 h4 => rw [h1] at hin'; cases hin'
          | w1 f' h1 h2 h3 h5 => rw [h2] at hw; cases hw
          | w2 f' h1 h2 h3 => rw [h2] at hw; cases hw
          | fin h1 h2 h3 => exact h3
      have hfd0 : filesDone s = s.started := by simp [filesDone, hstg]
      split at h
      · simp at h
      · rename_i bs hrest
        have hr := inv.rest
        rw [hrest] at hr
        cases hd : cs.drop s.started with
        | nil => rw [hd] at hr; simp at hr
        | cons c tl => rw [hd] at hr; simp [blockRepaired] at hr
      · rename_i st ss bs hrest
        simp at h; subst h
        have hr := inv.rest
        rw [hrest] at hr
        cases hd : cs.drop s.started with
        | nil => rw [hd] at hr; simp at hr
        | cons c tl =>
          rw [hd] at hr
          simp only [List.map_cons, blockRepaired_eq, List.cons.injEq] at hr
          obtain ⟨⟨hst, hss⟩, hbs⟩ := hr
          subst hst; subst hss
          obtain ⟨hget, hdrop⟩ := drop_cons_get cs s.started c tl hd
          refine ⟨inv.q, inv.g, inv.nd, inv.ac, inv.sr, ?_, ?_, inv.rx, inv.wrx, inv.hist, ?_, ?_, inv.op⟩
          · simp only []; rw [hdrop]; exact hbs
          · exact Or.inr ⟨c, by simp, by simpa using hget, Phase.s1 [] rfl hw rfl rfl (by simp)⟩
          · intro j c1 hj hc1
            simp [filesDone] at hj
            exact inv.files j c1 (by rw [hfd0]; exact hj) hc1
          · intro d hd1
            obtain ⟨k, c1, hk, hc1, hm⟩ := inv.man d hd1
            refine ⟨k, c1, ?_, hc1, hm⟩
            simp [filesDone]
            rw [hfd0] at hk; exact hk

theorem pinv_pstep {cs : List Commit} (wf : WfRep cs) {s s' : PSt} (inv : PInv cs s) {l : PLabel}
    (h : pstep s l = some s') : PInv cs s' := by
  cases l with
  | prog => exact pinv_prog wf inv h
  | adv l =>
    simp only [pstep] at h
    split at h
    · rename_i hl
      split at h
      · rename_i q' hq
        simp at h; subst h
        exact pinv_adv wf inv hl hq
      · simp at h
    · simp at h

theorem pinv_pexec {cs : List Commit} (wf : WfRep cs) {s s' : PSt} (inv : PInv cs s) {ls : List PLabel}
    (h : pexec s ls = some s') : PInv cs s' := by
  induction ls generalizing s with
  | nil => simp [pexec] at h; subst h; exact inv
  | cons l ls ih =>
    simp only [pexec] at h
    split at h
    · simp at h
    · rename_i s1 h1
      exact ih (pinv_pstep wf inv h1) h

end SL.Idb
