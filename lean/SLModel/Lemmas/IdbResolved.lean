import SLModel.Core.Idb
import SLModel.Lemmas.Idb
import SLModel.Lemmas.IdbQueue
import SLModel.Lemmas.IdbProgram
import SLModel.Lemmas.IdbChain
import SLModel.Lemmas.IdbRepaired
/-!
# Lemmas/IdbResolved — a resolved commit is present (repaired protocol)

`GIdx`: the sequence number of a snapshot is its index in `hist`.
`RInv`: on top of `PInv`, the manifests are scheduled in commit order (`hmono`), and the
stored manifest belongs to a commit at least as new as every resolved one (`rp`).
-/
namespace SL.Idb

theorem getElem?_append_some {α : Type} {l : List α} {i : Nat} {a : α} (l' : List α)
    (h : l[i]? = some a) : (l ++ l')[i]? = some a := by
  have hi := (List.getElem?_eq_some_iff.mp h).1
  rw [List.getElem?_append_left hi]; exact h

/-! ## sequence numbers index `hist` -/

structure GIdx (σ : St) : Prop where
  x1 : ∀ p e v, aget p σ.queue = some e → e.pending = some v → σ.hist[v.seq]? = some (p, v.data)
  x2 : ∀ x ∈ σ.txs, ∀ p v, x.op = Op.put p v → σ.hist[v.seq]? = some (p, v.data)
  x3 : ∀ p v, Op.put p v ∈ σ.done → σ.hist[v.seq]? = some (p, v.data)

theorem gidx_init (ac : Bool) : GIdx { awaitComplete := ac } := by
  constructor <;> simp [aget]

theorem gidx_doSched {σ : St} (g : GIdx σ) (p : Path) (d : Data) : GIdx (doSched σ p d) := by
  constructor
  · intro q e v hq hv
    rw [doSched_queue] at hq
    rw [doSched_hist]
    by_cases hqp : q = p
    · subst hqp
      rw [aget_aset_eq] at hq
      cases hq
      simp only [Option.some.injEq] at hv
      subst hv
      simp
    · rw [aget_aset_ne hqp] at hq
      exact getElem?_append_some _ (g.x1 q e v hq hv)
  · intro x hx q v hop
    rw [doSched_txs] at hx
    rw [doSched_hist]
    exact getElem?_append_some _ (g.x2 x hx q v hop)
  · intro q v hd
    rw [doSched_done] at hd
    rw [doSched_hist]
    exact getElem?_append_some _ (g.x3 q v hd)

theorem gidx_loopTop {σ : St} (g : GIdx σ) (tid : Nat) (p : Path) : GIdx (loopTop σ tid p) := by
  unfold loopTop
  split
  · exact ⟨g.x1, g.x2, g.x3⟩
  · rename_i e he
    split
    · rename_i hpend
      refine ⟨?_, g.x2, g.x3⟩
      intro q e' v hq hv
      simp only [] at hq
      split at hq
      · by_cases hqp : q = p
        · subst hqp; rw [aget_adel_eq] at hq; cases hq
        · rw [aget_adel_ne hqp] at hq; exact g.x1 q e' v hq hv
      · by_cases hqp : q = p
        · subst hqp
          rw [aget_aset_eq] at hq
          cases hq
          simp only [] at hv
          rw [hpend] at hv; cases hv
        · rw [aget_aset_ne hqp] at hq; exact g.x1 q e' v hq hv
    · rename_i v hpend
      refine ⟨?_, ?_, g.x3⟩
      · intro q e' v' hq hv
        simp only [] at hq
        by_cases hqp : q = p
        · subst hqp
          rw [aget_aset_eq] at hq
          cases hq
          simp at hv
        · rw [aget_aset_ne hqp] at hq; exact g.x1 q e' v' hq hv
      · intro x hx q v' hop
        simp only [List.mem_append, List.mem_singleton] at hx
        rcases hx with hx | hx
        · exact g.x2 x hx q v' hop
        · subst hx
          simp only [Op.put.injEq] at hop
          obtain ⟨rfl, rfl⟩ := hop
          exact g.x1 p e v he hpend

theorem gidx_step {σ σ' : St} (g : GIdx σ) {l : Label} (h : step σ l = some σ') : GIdx σ' := by
  cases l with
  | sched p d => simp [step] at h; subst h; exact gidx_doSched g p d
  | schedDel p =>
    simp [step, doSchedDel] at h; subst h
    refine ⟨?_, g.x2, g.x3⟩
    intro q e v hq hv
    simp only [] at hq
    by_cases hqp : q = p
    · subst hqp; rw [aget_adel_eq] at hq; cases hq
    · rw [aget_adel_ne hqp] at hq; exact g.x1 q e v hq hv
  | flushTake => simp [step] at h; subst h; exact ⟨g.x1, g.x2, g.x3⟩
  | run t =>
    simp only [step, doRun] at h
    split at h
    · simp at h; subst h; exact gidx_loopTop g t _
    · simp at h; subst h
      apply gidx_loopTop
      exact ⟨g.x1, g.x2, g.x3⟩
    · simp at h; subst h
      refine ⟨g.x1, ?_, g.x3⟩
      intro x hx q v hop
      simp only [List.mem_append, List.mem_singleton] at hx
      rcases hx with hx | hx
      · exact g.x2 x hx q v hop
      · subst hx; cases hop
    · simp at h; subst h; exact ⟨g.x1, g.x2, g.x3⟩
    · simp at h
  | succ t =>
    simp only [step, doSucc] at h
    split at h
    · simp at h
    · split at h
      · simp at h
      · simp at h; subst h
        refine ⟨g.x1, ?_, g.x3⟩
        intro x hx q v hop
        simp only [] at hx
        rw [markSucc_eq] at hx
        obtain ⟨z, hz, rfl⟩ := List.mem_map.mp hx
        rw [setSucc_op] at hop
        exact g.x2 z hz q v hop
  | complete t =>
    simp only [step, doComplete] at h
    split at h
    · simp at h
    · rename_i x hx
      split at h
      · simp at h
      · simp at h; subst h
        refine ⟨g.x1, ?_, ?_⟩
        · intro y hy q v hop
          exact g.x2 y (mem_dropTx.mp hy).1 q v hop
        · intro q v hd
          simp only [List.mem_append, List.mem_singleton] at hd
          rcases hd with hd | hd
          · exact g.x3 q v hd
          · exact g.x2 x (findTx_some hx).2 q v hd.symm

/-! ## the resolved-present invariant of the repaired protocol -/

/-- a commit is identified by its manifest -/
theorem idx_unique' : ∀ (cs : List Commit), (cs.map (·.manifest)).Nodup → ∀ (k k' : Nat) (c c' : Commit),
    cs[k]? = some c → cs[k']? = some c' → c.manifest = c'.manifest → k = k' := by
  intro cs
  induction cs with
  | nil => intro _ k k' c c' h; simp at h
  | cons a r ih =>
    intro hn k k' c c' hk hk' hm
    simp only [List.map_cons, List.nodup_cons, List.mem_map, not_exists, not_and] at hn
    cases k with
    | zero =>
      cases k' with
      | zero => rfl
      | succ k' =>
        simp only [List.getElem?_cons_zero, Option.some.injEq] at hk
        simp only [List.getElem?_cons_succ] at hk'
        subst hk
        exact absurd hm.symm (hn.1 c' (getElem?_mem_of_some hk'))
    | succ k =>
      cases k' with
      | zero =>
        simp only [List.getElem?_cons_zero, Option.some.injEq] at hk'
        simp only [List.getElem?_cons_succ] at hk
        subst hk'
        exact absurd hm (hn.1 c (getElem?_mem_of_some hk))
      | succ k' =>
        simp only [List.getElem?_cons_succ] at hk hk'
        rw [ih hn.2 k k' c c' hk hk' hm]

theorem idx_unique {cs : List Commit} (hn : (cs.map (·.manifest)).Nodup) {k k' : Nat} {c c' : Commit}
    (hk : cs[k]? = some c) (hk' : cs[k']? = some c') (h : c.manifest = c'.manifest) : k = k' :=
  idx_unique' cs hn k k' c c' hk hk' h

structure RInv (cs : List Commit) (s : PSt) : Prop where
  ch : CInv s.q
  x : GIdx s.q
  /-- the block's promise is pending exactly while one of its stages runs or is awaited -/
  rb : s.resolvedBlocks + (if s.inStage || s.waiting.isSome then 1 else 0) = s.started
  /-- the manifests are scheduled in commit order -/
  hmono : ∀ (i i' : Nat) (d d' : Data) (k k' : Nat) (c c' : Commit), i ≤ i' →
      s.q.hist[i]? = some (manifestPath, d) →
      s.q.hist[i']? = some (manifestPath, d') → cs[k]? = some c → c.manifest = d →
      cs[k']? = some c' → c'.manifest = d' → k ≤ k'
  /-- once stage 2 has made its first call, the block's manifest is in `hist` -/
  ms : ∀ (c : Commit), 0 < s.started → cs[s.started - 1]? = some c → s.stages = [] →
      (s.inStage = false ∨ s.cur.length < (S2 c).length) → (manifestPath, c.manifest) ∈ s.q.hist
  /-- the stored manifest is at least as new as every resolved block -/
  rp : ∀ n, n < s.resolvedBlocks → ∃ (v : Ver) (k : Nat) (c : Commit), aget manifestPath s.q.store = some v ∧
      cs[k]? = some c ∧ c.manifest = v.data ∧ n ≤ k

theorem rinv_init (cs : List Commit) : RInv cs (initP cs true) := by
  refine ⟨cinv_init _, gidx_init _, by simp [initP], ?_, ?_, ?_⟩
  · intro i i' d d' k k' c c' _ h; simp [initP] at h
  · intro c h; simp [initP] at h
  · intro n h; simp [initP] at h

theorem rinv_adv {cs : List Commit} {s : PSt} (inv : PInv cs s)
    (r : RInv cs s) {l : Label} (hl : l.isAdv = true) {q' : St} (h : step s.q l = some q') :
    RInv cs { s with q := q' } := by
  obtain ⟨_, _, hh, _, _⟩ := adv_frame hl h
  refine ⟨cinv_step r.ch inv.q h, gidx_step r.x h, r.rb, ?_, ?_, ?_⟩
  · intro i i' d d' k k' c c' hi h1 h2
    simp only [hh] at h1 h2
    exact r.hmono i i' d d' k k' c c' hi h1 h2
  · intro c hs hc hst hcur
    simp only [hh]
    exact r.ms c hs hc hst hcur
  · intro n hnr
    obtain ⟨v, k, c, hv, hc, hm, hk⟩ := r.rp n hnr
    by_cases hcm : ∃ t, l = Label.complete t
    · obtain ⟨t, rfl⟩ := hcm
      obtain ⟨x, hx, hst, _⟩ := complete_effect h
      have hput := inv.nd.txs x hx
      cases hop : x.op with
      | del p => rw [hop] at hput; simp [Op.isPut] at hput
      | put p w =>
        simp only [hst, hop, applyOp]
        by_cases hp : p = manifestPath
        · subst hp
          refine ⟨w, ?_⟩
          -- the new manifest is newer than the stored one
          have hvd : Op.put manifestPath v ∈ s.q.done := by
            apply replay_get_mem; rw [← inv.sr]; exact hv
          have hlt : v.seq < w.seq := by
            have hch := r.ch.inc manifestPath
            unfold chain at hch
            have h1 : v.seq ∈ doneSeqs s.q manifestPath := by
              unfold doneSeqs
              rw [List.mem_filterMap]
              exact ⟨_, hvd, by simp [opSeq]⟩
            have h2 : w.seq ∈ txSeqs s.q.txs manifestPath := by
              unfold txSeqs
              rw [List.mem_filterMap]
              exact ⟨x, hx, by simp [hop, opSeq]⟩
            have h3 := (List.pairwise_append.mp (List.pairwise_append.mp hch).1).2.2
            exact h3 v.seq h1 w.seq h2
          have hiv := r.x.x3 manifestPath v hvd
          have hiw := r.x.x2 x hx manifestPath w hop
          obtain ⟨k2, c2, _, hc2, hm2⟩ := inv.man w.data (inv.g.g2 x hx manifestPath w hop)
          have hle := r.hmono v.seq w.seq v.data w.data k k2 c c2 (Nat.le_of_lt hlt) hiv hiw hc hm hc2 hm2
          exact ⟨k2, c2, by rw [aget_aset_eq], hc2, hm2, by omega⟩
        · refine ⟨v, k, c, ?_, hc, hm, hk⟩
          rw [aget_aset_ne (Ne.symm hp)]; exact hv
    · have hnc : ∀ t, l ≠ Label.complete t := fun t e => hcm ⟨t, e⟩
      obtain ⟨hst, _⟩ := noncomplete_durable hnc h
      exact ⟨v, k, c, by simpa [hst] using hv, hc, hm, hk⟩

theorem rinv_prog {cs : List Commit} (wf : WfRep cs) (hn : (cs.map (·.manifest)).Nodup) {s s' : PSt}
    (inv : PInv cs s) (r : RInv cs s) (h : progStep s = some s') : RInv cs s' := by
  have inv' : PInv cs s' := pinv_prog wf inv h
  unfold progStep at h
  split at h
  · rename_i f hw
    split at h
    · rename_i hfd
      have hall : ∀ r', r' < s.q.hist.length → r' ∈ s.q.resolved := by
        intro r' hr
        rcases inv.rx r' hr with h1 | h1 | ⟨f', rs, h2, h3, h4⟩
        · exact h1
        · rw [inv.wrx f hw] at h1; simp at h1
        · rw [hw] at h2; cases h2
          rcases flushDone_spec hfd h3 r' h4 with h5 | h5
          · exact h5
          · rw [inv.nd.dropped] at h5; simp at h5
      split at h
      · -- stage 1 awaited, stage 2 begins
        rename_i st ss hst
        simp at h; subst h
        refine ⟨r.ch, r.x, ?_, r.hmono, ?_, r.rp⟩
        · have := r.rb; simp [hw] at this; simp; omega
        · intro c hs hc hstg hcur
          simp only [] at hstg hcur hc
          -- the new stage is S2 c in full: nothing to show
          rcases inv.pos with h0 | ⟨c0, hs0, hc0, hph⟩
          · rw [h0.2.2.1] at hw; cases hw
          · rw [hc0] at hc; cases hc
            cases hph with
            | s1 ex h1 h2 h3 h4 h5 => rw [h2] at hw; cases hw
            | s2 ex h1 h2 h3 h4 => rw [h2] at hw; cases hw
            | fin h1 h2 h3 => rw [h2] at hw; cases hw
            | w2 f' h1 h2 h3 => rw [h3] at hst; cases hst
            | w1 f' h1 h2 h3 h5 =>
              rw [h3] at hst; cases hst
              rcases hcur with hcur | hcur
              · cases hcur
              · omega
      · -- stage 2 awaited: the block resolves; its manifest is durable and the newest
        rename_i hst
        simp at h; subst h
        have hrb := r.rb
        simp [hw] at hrb
        rcases inv.pos with h0 | ⟨c0, hs0, hc0, hph⟩
        · rw [h0.2.2.1] at hw; cases hw
        · have hin : s.inStage = false := by
            cases hph with
            | s1 ex h1 h2 h3 h4 h5 => rw [h2] at hw; cases hw
            | s2 ex h1 h2 h3 h4 => rw [h2] at hw; cases hw
            | fin h1 h2 h3 => rw [h2] at hw; cases hw
            | w1 f' h1 h2 h3 h5 => exact h1
            | w2 f' h1 h2 h3 => exact h1
          have hmem := r.ms c0 hs0 hc0 hst (Or.inl hin)
          obtain ⟨rm, hrm, hget⟩ := List.mem_iff_getElem.mp hmem
          obtain ⟨p', hp', hsafe⟩ := inv.q.i4 rm (hall rm hrm)
          have hp'eq : p' = manifestPath := by
            unfold pathOf at hp'
            rw [List.getElem?_eq_getElem hrm, hget] at hp'
            simpa using hp'.symm
          subst hp'eq
          obtain ⟨sq, hsq, hsa⟩ := hsafe
          have hdone : ∃ v, Op.put manifestPath v ∈ s.q.done ∧ rm ≤ v.seq := by
            rcases hsa with ⟨v, hv, hvs⟩ | ⟨hf, _⟩
            · exact ⟨v, hv, by omega⟩
            · rw [inv.ac] at hf; cases hf
          obtain ⟨v, hv, hrv⟩ := hdone
          obtain ⟨v', hv', hvv'⟩ := store_newest r.ch inv.nd inv.sr hv
          have hv'd : Op.put manifestPath v' ∈ s.q.done := by
            apply replay_get_mem; rw [← inv.sr]; exact hv'
          have hiv' := r.x.x3 manifestPath v' hv'd
          obtain ⟨k2, c2, _, hc2, hm2⟩ := inv.man v'.data (inv.g.g3 manifestPath v' hv'd)
          have hirm : s.q.hist[rm]? = some (manifestPath, c0.manifest) := by
            rw [List.getElem?_eq_getElem hrm, hget]
          have hle := r.hmono rm v'.seq c0.manifest v'.data (s.started - 1) k2 c0 c2 (by omega) hirm hiv' hc0 rfl hc2 hm2
          refine ⟨r.ch, r.x, ?_, r.hmono, ?_, ?_⟩
          · simp [hin]; omega
          · intro c hs hc hstg hcur
            exact r.ms c hs hc hstg (Or.inl hin)
          · intro n hnr
            simp only [] at hnr
            exact ⟨v', k2, c2, hv', hc2, hm2, by omega⟩
    · simp at h
  · rename_i hw
    split at h
    · rename_i hin
      split at h
      · -- a `schedule` call
        rename_i pd is hcur
        simp at h; subst h
        have hrb := r.rb
        refine ⟨cinv_doSched r.ch _ _, gidx_doSched r.x _ _, ?_, ?_, ?_, ?_⟩
        · simpa using hrb
        · -- commit order of the manifests
          intro i i' d d' k k' c c' hi h1 h2 hc hm hc' hm'
          simp only [doSched_hist] at h1 h2
          by_cases hlt' : i' < s.q.hist.length
          · have hlt : i < s.q.hist.length := by omega
            rw [List.getElem?_append_left hlt] at h1
            rw [List.getElem?_append_left hlt'] at h2
            exact r.hmono i i' d d' k k' c c' hi h1 h2 hc hm hc' hm'
          · -- `i'` is the new entry: the manifest of the running block
            have hi'len : i' = s.q.hist.length := by
              have := (List.getElem?_eq_some_iff.mp h2).1
              simp at this; omega
            subst hi'len
            have hnew : (pd.1, pd.2) = (manifestPath, d') := by
              simpa using h2
            have hk'man := inv'.man d' (by
              simp only [doSched_hist, List.mem_append, List.mem_singleton]
              exact Or.inr hnew.symm)
            obtain ⟨k3, c3, hk3, hc3, hm3⟩ := hk'man
            have hk3eq : k3 = k' := idx_unique hn hc3 hc' (hm3.trans hm'.symm)
            subst hk3eq
            by_cases hlt : i < s.q.hist.length
            · rw [List.getElem?_append_left hlt] at h1
              obtain ⟨k4, c4, hk4, hc4, hm4⟩ := inv.man d (getElem?_mem_of_some h1)
              have hk4eq : k4 = k := idx_unique hn hc4 hc (hm4.trans hm.symm)
              subst hk4eq
              -- the new entry is the manifest of block `started - 1`
              rcases inv.pos with h0 | ⟨c0, hs0, hc0, hph⟩
              · rw [h0.2.1] at hin; cases hin
              · have hcm : c0 ∈ cs := getElem?_mem_of_some hc0
                have hpd1 : pd.1 = manifestPath := by simpa using congrArg Prod.fst hnew
                cases hph with
                | w1 f' h1' h2' h3' h5' => rw [h1'] at hin; cases hin
                | w2 f' h1' h2' h3' => rw [h1'] at hin; cases hin
                | fin h1' h2' h3' => rw [h1'] at hin; cases hin
                | s1 ex h1' h2' h3' h4' h5' =>
                  have hpd : pd ∈ S1 c0 := by rw [h4', hcur]; simp
                  rcases mem_S1 hpd with h6 | h6
                  · rw [hpd1] at h6; cases h6
                  · exact absurd hpd1 (wf.notManifest c0 hcm pd h6)
                | s2 ex h1' h2' h3' h4' =>
                  have hpd : pd ∈ S2 c0 := by rw [h4', hcur]; simp
                  rcases mem_S2 hpd with h6 | h6
                  · have hd' : c0.manifest = d' := by
                      have := congrArg Prod.snd hnew
                      simp only at this
                      rw [h6] at this; exact this
                    have hkk : s.started - 1 = k3 := idx_unique hn hc0 hc' (hd'.trans hm'.symm)
                    have hfd : filesDone s = s.started := by simp [filesDone, h3']
                    rw [hfd] at hk4
                    omega
                  · rw [hpd1] at h6; cases h6
            · have : i = s.q.hist.length := by omega
              subst this
              have hnew1 : (pd.1, pd.2) = (manifestPath, d) := by simpa using h1
              have hdd : d = d' := by
                have := hnew1.symm.trans hnew
                simpa using this
              subst hdd
              have := idx_unique hn hc hc' (hm.trans hm'.symm)
              omega
        · -- the block's manifest is in `hist` once stage 2 has made a call
          intro c hs hc hstg hcur'
          simp only [] at hs hc hstg hcur'
          simp only [doSched_hist, List.mem_append, List.mem_singleton]
          rcases hcur' with hcur' | hcur'
          · rw [hin] at hcur'; cases hcur'
          · rcases inv.pos with h0 | ⟨c0, hs0, hc0, hph⟩
            · rw [h0.2.1] at hin; cases hin
            · rw [hc0] at hc; cases hc
              cases hph with
              | w1 f' h1' h2' h3' h5' => rw [h1'] at hin; cases hin
              | w2 f' h1' h2' h3' => rw [h1'] at hin; cases hin
              | fin h1' h2' h3' => rw [h1'] at hin; cases hin
              | s1 ex h1' h2' h3' h4' h5' => rw [h3'] at hstg; cases hstg
              | s2 ex h1' h2' h3' h4' =>
                by_cases hfirst : s.cur.length < (S2 c).length
                · exact Or.inl (r.ms c hs0 hc0 h3' (Or.inr hfirst))
                · -- this is the first call of stage 2: the manifest itself
                  have hex : ex = [] := by
                    have := congrArg List.length h4'
                    simp only [List.length_append] at this
                    have : ex.length = 0 := by omega
                    exact List.length_eq_zero_iff.mp this
                  rw [hex, List.nil_append, hcur] at h4'
                  unfold S2 at h4'
                  simp only [List.cons.injEq] at h4'
                  exact Or.inr h4'.1
        · intro n hnr
          simp only [doSched_store]
          exact r.rp n hnr
      · -- flush
        rename_i hcur
        simp at h; subst h
        have hstep : step s.q Label.flushTake = some { s.q with flushes := s.q.flushes ++ [s.q.rxs], rxs := [] } := rfl
        refine ⟨cinv_step r.ch inv.q hstep, gidx_step r.x hstep, ?_, r.hmono, ?_, r.rp⟩
        · have := r.rb; simp [hin] at this; simp; omega
        · intro c hs hc hstg _
          apply r.ms c hs hc hstg
          right
          rw [hcur]
          unfold S2
          simp
    · -- between blocks
      rename_i hin
      have hin' : s.inStage = false := by simpa using hin
      split at h
      · simp at h
      · rename_i bs hrest
        have hr := inv.rest
        rw [hrest] at hr
        cases hd : cs.drop s.started with
        | nil => rw [hd] at hr; simp at hr
        | cons c tl => rw [hd] at hr; simp [blockRepaired] at hr
      · rename_i st ss bs hrest
        simp at h; subst h
        have hr := inv.rest
        rw [hrest] at hr
        cases hd : cs.drop s.started with
        | nil => rw [hd] at hr; simp at hr
        | cons c tl =>
          rw [hd] at hr
          simp only [List.map_cons, blockRepaired_eq, List.cons.injEq] at hr
          obtain ⟨⟨hst, hss⟩, _⟩ := hr
          subst hst; subst hss
          refine ⟨r.ch, r.x, ?_, r.hmono, ?_, r.rp⟩
          · have := r.rb; simp [hin', hw] at this; simp; omega
          · intro c1 _ _ hstg _
            simp at hstg

theorem rinv_pstep {cs : List Commit} (wf : WfRep cs) (hn : (cs.map (·.manifest)).Nodup) {s s' : PSt}
    (inv : PInv cs s) (r : RInv cs s) {l : PLabel} (h : pstep s l = some s') : RInv cs s' := by
  cases l with
  | prog => exact rinv_prog wf hn inv r h
  | adv l =>
    simp only [pstep] at h
    split at h
    · rename_i hl
      split at h
      · rename_i q' hq
        simp at h; subst h
        exact rinv_adv inv r hl hq
      · simp at h
    · simp at h

theorem rinv_pexec {cs : List Commit} (wf : WfRep cs) (hn : (cs.map (·.manifest)).Nodup) {s s' : PSt}
    (inv : PInv cs s) (r : RInv cs s) {ls : List PLabel} (h : pexec s ls = some s') :
    PInv cs s' ∧ RInv cs s' := by
  induction ls generalizing s with
  | nil => simp [pexec] at h; subst h; exact ⟨inv, r⟩
  | cons l ls ih =>
    simp only [pexec] at h
    split at h
    · simp at h
    · rename_i s1 h1
      exact ih (pinv_pstep wf inv h1) (rinv_pstep wf hn inv r h1) h

theorem findManifest_some (d : Data) : ∀ (cs : List Commit) (k : Nat), findManifest d cs = some k →
    ∃ c, cs[k]? = some c ∧ c.manifest = d := by
  intro cs
  induction cs with
  | nil => intro k h; simp [findManifest] at h
  | cons a r ih =>
    intro k h
    simp only [findManifest] at h
    split at h
    · rename_i ha
      cases h
      exact ⟨a, rfl, ha⟩
    · cases hf : findManifest d r with
      | none => simp [hf] at h
      | some k0 =>
        simp [hf] at h
        subst h
        obtain ⟨c, hc, hm⟩ := ih k0 hf
        exact ⟨c, by simpa using hc, hm⟩

def NoDelLabels (ls : List Label) : Prop := ∀ l ∈ ls, ∀ p, l ≠ Label.schedDel p

theorem nodel_step_all {σ σ' : St} (n : NoDelSt σ) {l : Label} (hl : ∀ p, l ≠ Label.schedDel p)
    (h : step σ l = some σ') : NoDelSt σ' := by
  cases l with
  | sched p d => simp [step] at h; subst h; exact nodel_doSched n p d
  | schedDel p => exact absurd rfl (hl p)
  | flushTake => exact nodel_step n (Or.inr rfl) h
  | run t => exact nodel_step n (Or.inl rfl) h
  | succ t => exact nodel_step n (Or.inl rfl) h
  | complete t => exact nodel_step n (Or.inl rfl) h

theorem all_inv_exec {σ σ' : St} {ls : List Label} (hnd : NoDelLabels ls) (h : exec σ ls = some σ')
    (q : QInv σ) (c : CInv σ) (n : NoDelSt σ) (sr : σ.store = replay σ.done) :
    QInv σ' ∧ CInv σ' ∧ NoDelSt σ' ∧ σ'.store = replay σ'.done := by
  induction ls generalizing σ with
  | nil => simp [exec] at h; subst h; exact ⟨q, c, n, sr⟩
  | cons l ls ih =>
    simp only [exec] at h
    split at h
    · simp at h
    · rename_i σ1 h1
      exact ih (fun l' hl' => hnd l' (List.mem_cons_of_mem _ hl')) h (qinv_step q h1) (cinv_step c q h1)
        (nodel_step_all n (hnd l List.mem_cons_self) h1) (step_store_replay h1 sr)

end SL.Idb
