namespace SL.Keyset
def cand (l : List Nat) : Option Nat → List Nat
  | none => l
  | some a => l.filter (fun x => a < x)

def respond (l : List Nat) (after : Option Nat) (n : Nat) : List Nat × Option Nat :=
  let c := cand l after
  if c.length > n then (c.take n, (c.take n).getLast?) else (c, none)

def walk (l : List Nat) (n : Nat) : Nat → Option Nat → List (List Nat)
  | 0, _ => []
  | fuel+1, after =>
    match respond l after n with
    | (hits, none) => [hits]
    | (hits, some c) => hits :: walk l n fuel (some c)

theorem filter_gt_sorted (a : Nat) (pre suf : List Nat)
    (h : (pre ++ a :: suf).Pairwise (· < ·)) :
    (pre ++ a :: suf).filter (fun x => a < x) = suf := by
  rw [List.pairwise_append] at h
  obtain ⟨_, h2, h3⟩ := h
  rw [List.pairwise_cons] at h2
  rw [List.filter_append]
  have e1 : pre.filter (fun x => a < x) = [] := by
    apply List.filter_eq_nil_iff.mpr
    intro x hx
    have := h3 x hx a (by simp)
    simp; omega
  have e2 : (a :: suf).filter (fun x => a < x) = suf := by
    simp only [List.filter_cons, Nat.lt_irrefl, decide_false]
    apply List.filter_eq_self.mpr
    intro x hx
    simpa using h2.1 x hx
  simp [e1, e2]

theorem walk_suffix (l : List Nat) (hl : l.Pairwise (· < ·)) (n : Nat) (hn : 0 < n) :
    ∀ (fuel : Nat) (after : Option Nat) (pre suf : List Nat),
      l = pre ++ suf → cand l after = suf → suf.length < fuel * n + 1 → 0 < fuel →
      (walk l n fuel after).flatten = suf := by
  intro fuel
  induction fuel with
  | zero => intro _ _ _ _ _ _ h; omega
  | succ fuel ih =>
    intro after pre suf hsplit hcand hlen _
    unfold walk respond
    simp only [hcand]
    by_cases hgt : suf.length > n
    · simp only [hgt, if_true]
      have htake_ne : suf.take n ≠ [] := by
        intro h
        have : (suf.take n).length = 0 := by simp [h]
        rw [List.length_take] at this
        omega
      obtain ⟨c, hc⟩ : ∃ c, (suf.take n).getLast? = some c := by
        cases h : (suf.take n).getLast? with
        | none => exact absurd (List.getLast?_eq_none_iff.mp h) htake_ne
        | some c => exact ⟨c, rfl⟩
      simp only [hc]
      obtain ⟨ini, hini⟩ : ∃ ini, suf.take n = ini ++ [c] := by
        have := List.getLast?_eq_some_iff.mp hc
        obtain ⟨ys, hys⟩ := this
        exact ⟨ys, hys⟩
      have hsuf : suf = ini ++ c :: suf.drop n := by
        have := List.take_append_drop n suf
        rw [hini] at this
        simpa using this.symm
      have hl' : l = (pre ++ ini) ++ c :: suf.drop n := by
        rw [hsplit, List.append_assoc]
        exact congrArg (pre ++ ·) hsuf
      have hcand' : cand l (some c) = suf.drop n := by
        show l.filter (fun x => c < x) = suf.drop n
        rw [hl']
        apply filter_gt_sorted
        rw [← hl']; exact hl
      have hfuel : 0 < fuel := by
        rcases Nat.eq_zero_or_pos fuel with h | h
        · subst h; simp at hlen; omega
        · exact h
      have hlen' : (suf.drop n).length < fuel * n + 1 := by
        rw [List.length_drop]
        have : (fuel + 1) * n = fuel * n + n := by rw [Nat.add_mul]; simp
        omega
      have := ih (some c) (pre ++ suf.take n) (suf.drop n)
        (by rw [hsplit]; simp [List.take_append_drop]) hcand' hlen' hfuel
      simp only [List.flatten_cons, this, List.take_append_drop]
    · simp only [hgt, if_false]
      simp

theorem walk_complete (l : List Nat) (hl : l.Pairwise (· < ·)) (n : Nat) (hn : 0 < n) :
    (walk l n (l.length + 1) none).flatten = l := by
  apply walk_suffix l hl n hn (l.length + 1) none [] l (by simp) rfl
  · have : l.length * 1 ≤ l.length * n := Nat.mul_le_mul_left _ hn
    have h2 : (l.length + 1) * n = l.length * n + n := by rw [Nat.add_mul]; simp
    omega
  · omega

end SL.Keyset
