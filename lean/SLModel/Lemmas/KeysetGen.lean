import SLModel.Lemmas.ISort
/-!
# Lemmas/KeysetGen — keyset pagination over any strict total order (C11)

Generalisation of `Lemmas/Keyset.lean` (`Nat` keys) to an arbitrary key type with a Boolean
comparator `lt` that is a strict total order (`SL.ISort.StrictTotal`).  `l` is the list of all
results in ascending order; a request returns the first `n` elements strictly after the cursor
and hands out the last returned element as the next cursor iff more than `n` remain.
-/
namespace SL.KeysetGen
open SL.ISort
variable {α : Type} (lt : α → α → Bool)

/-- ascending w.r.t. `lt` -/
def Asc (l : List α) : Prop := l.Pairwise (fun a b => lt a b = true)

def cand (l : List α) : Option α → List α
  | none => l
  | some a => l.filter (fun x => lt a x)

def respond (l : List α) (after : Option α) (n : Nat) : List α × Option α :=
  let c := cand lt l after
  if c.length > n then (c.take n, (c.take n).getLast?) else (c, none)

def walk (l : List α) (n : Nat) : Nat → Option α → List (List α)
  | 0, _ => []
  | fuel+1, after =>
    match respond lt l after n with
    | (hits, none) => [hits]
    | (hits, some c) => hits :: walk l n fuel (some c)

variable {lt}

theorem filter_gt_sorted (h : StrictTotal lt) (a : α) (pre suf : List α)
    (hs : Asc lt (pre ++ a :: suf)) :
    (pre ++ a :: suf).filter (fun x => lt a x) = suf := by
  unfold Asc at hs
  rw [List.pairwise_append] at hs
  obtain ⟨_, h2, h3⟩ := hs
  rw [List.pairwise_cons] at h2
  rw [List.filter_append]
  have e1 : pre.filter (fun x => lt a x) = [] := by
    apply List.filter_eq_nil_iff.mpr
    intro x hx
    have := h3 x hx a (by simp)
    simp [asymm h this]
  have e2 : (a :: suf).filter (fun x => lt a x) = suf := by
    simp only [List.filter_cons, h.irrefl a]
    apply List.filter_eq_self.mpr
    intro x hx
    exact h2.1 x hx
  rw [e1, e2]; rfl

/-- Invariant of a walk: when the candidates after the current cursor are the suffix `suf` of
`l`, the remaining pages concatenate to `suf`. -/
theorem walk_suffix (h : StrictTotal lt) (l : List α) (hl : Asc lt l) (n : Nat) (hn : 0 < n) :
    ∀ (fuel : Nat) (after : Option α) (pre suf : List α),
      l = pre ++ suf → cand lt l after = suf → suf.length < fuel * n + 1 → 0 < fuel →
      (walk lt l n fuel after).flatten = suf := by
  intro fuel
  induction fuel with
  | zero => intro _ _ _ _ _ _ h; omega
  | succ fuel ih =>
    intro after pre suf hsplit hcand hlen _
    unfold walk respond
    simp only [hcand]
    by_cases hgt : suf.length > n
    · simp only [hgt, if_true]
      have htake_ne : suf.take n ≠ [] := by
        intro h
        have : (suf.take n).length = 0 := by simp [h]
        rw [List.length_take] at this
        omega
      obtain ⟨c, hc⟩ : ∃ c, (suf.take n).getLast? = some c := by
        cases h : (suf.take n).getLast? with
        | none => exact absurd (List.getLast?_eq_none_iff.mp h) htake_ne
        | some c => exact ⟨c, rfl⟩
      simp only [hc]
      obtain ⟨ini, hini⟩ : ∃ ini, suf.take n = ini ++ [c] := by
        have := List.getLast?_eq_some_iff.mp hc
        obtain ⟨ys, hys⟩ := this
        exact ⟨ys, hys⟩
      have hsuf : suf = ini ++ c :: suf.drop n := by
        have := List.take_append_drop n suf
        rw [hini] at this
        simpa using this.symm
      have hl' : l = (pre ++ ini) ++ c :: suf.drop n := by
        rw [hsplit, List.append_assoc]
        exact congrArg (pre ++ ·) hsuf
      have hcand' : cand lt l (some c) = suf.drop n := by
        show l.filter (fun x => lt c x) = suf.drop n
        rw [hl']
        apply filter_gt_sorted h
        rw [← hl']; exact hl
      have hfuel : 0 < fuel := by
        rcases Nat.eq_zero_or_pos fuel with h | h
        · subst h; simp at hlen; omega
        · exact h
      have hlen' : (suf.drop n).length < fuel * n + 1 := by
        rw [List.length_drop]
        have : (fuel + 1) * n = fuel * n + n := by rw [Nat.add_mul]; simp
        omega
      have := ih (some c) (pre ++ suf.take n) (suf.drop n)
        (by rw [hsplit]; simp [List.take_append_drop]) hcand' hlen' hfuel
      simp only [List.flatten_cons, this, List.take_append_drop]
    · simp only [hgt, if_false]
      simp

/-- **Keyset walk is complete** for any strict total order and page size ≥ 1: following the
cursors from the first page concatenates to exactly the ascending list. -/
theorem walk_complete (h : StrictTotal lt) (l : List α) (hl : Asc lt l) (n : Nat) (hn : 0 < n) :
    (walk lt l n (l.length + 1) none).flatten = l := by
  apply walk_suffix h l hl n hn (l.length + 1) none [] l (by simp) rfl
  · have : l.length * 1 ≤ l.length * n := Nat.mul_le_mul_left _ hn
    have h2 : (l.length + 1) * n = l.length * n + n := by rw [Nat.add_mul]; simp
    omega
  · omega

/-! ### insertion sort: permutation, ascending output, commutes with `filter` -/

theorem ins_perm (x : α) (l : List α) : (ins lt x l).Perm (x :: l) := by
  induction l with
  | nil => simp [ins]
  | cons y ys ih =>
    unfold ins
    split
    · exact List.Perm.refl _
    · exact (List.Perm.cons y ih).trans (List.Perm.swap x y ys)

theorem isort_perm_self (l : List α) : (isort lt l).Perm l := by
  induction l with
  | nil => simp [isort]
  | cons x xs ih => exact (ins_perm x _).trans (List.Perm.cons x ih)

/-- the sorted list of distinct keys is strictly ascending -/
theorem isort_asc (h : StrictTotal lt) (l : List α) (hnd : l.Nodup) : Asc lt (isort lt l) := by
  have hs := isort_sorted h l
  have hnd' : (isort lt l).Nodup := (isort_perm_self (lt := lt) l).nodup_iff.mpr hnd
  unfold Asc
  unfold Sorted at hs
  unfold List.Nodup at hnd'
  have := hs.and hnd'
  refine this.imp ?_
  intro a b ⟨hba, hne⟩
  rcases h.total a b hne with h1 | h1
  · exact h1
  · rw [hba] at h1; exact absurd h1 (by simp)

/-- inserting an element that is not above any element of the list puts it in front -/
theorem ins_of_le (h : StrictTotal lt) (x : α) (l : List α) (hle : ∀ y ∈ l, lt y x = false) :
    ins lt x l = x :: l := by
  induction l with
  | nil => rfl
  | cons y ys ih =>
    unfold ins
    by_cases hxy : lt x y = true
    · simp [hxy]
    · have hyx : lt y x = false := hle y (by simp)
      have hxy' : x = y := by
        apply Classical.byContradiction
        intro hne
        rcases h.total x y hne with h1 | h1
        · exact hxy h1
        · rw [hyx] at h1; exact absurd h1 (by simp)
      subst hxy'
      have := ih (fun z hz => hle z (by simp [hz]))
      simp [hxy, this]

theorem isort_of_sorted (h : StrictTotal lt) (l : List α) (hs : Sorted lt l) : isort lt l = l := by
  induction l with
  | nil => rfl
  | cons x xs ih =>
    unfold Sorted at hs
    rw [List.pairwise_cons] at hs
    show ins lt x (isort lt xs) = x :: xs
    rw [ih hs.2]
    exact ins_of_le h x xs hs.1

/-- filtering commutes with sorting -/
theorem isort_filter (h : StrictTotal lt) (p : α → Bool) (l : List α) :
    isort lt (l.filter p) = (isort lt l).filter p := by
  have hs : Sorted lt ((isort lt l).filter p) :=
    List.Pairwise.sublist List.filter_sublist (isort_sorted h l)
  rw [← isort_of_sorted h _ hs]
  exact isort_perm h ((isort_perm_self (lt := lt) l).filter p).symm

end SL.KeysetGen
