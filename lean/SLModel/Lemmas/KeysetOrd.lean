/-!
# Keyset pagination over any strict order (generalisation of `Lemmas/Keyset.lean`)

Elements `α` carry a key `key : α → K`; `lt` on `K` only needs to be irreflexive and transitive
because the list is assumed strictly sorted by key.  A response is the first `n` candidates
after the `after` key, together with the key of its last element when more candidates remain.
-/
namespace SL.KeysetOrd
variable {α K : Type} (lt : K → K → Bool) (key : α → K)

def cand (l : List α) : Option K → List α
  | none => l
  | some a => l.filter (fun x => lt a (key x))

/-- one page: (hits, after_key) -/
def respond (l : List α) (after : Option K) (n : Nat) : List α × Option K :=
  let c := cand lt key l after
  if c.length > n then (c.take n, ((c.take n).getLast?).map key) else (c, none)

/-- the walk: send every after_key back until a page comes without one -/
def walk (l : List α) (n : Nat) : Nat → Option K → List (List α × Option K)
  | 0, _ => []
  | fuel+1, after =>
    match respond lt key l after n with
    | (hits, none) => [(hits, none)]
    | (hits, some c) => (hits, some c) :: walk l n fuel (some c)

structure StrictOrder (lt : K → K → Bool) : Prop where
  irrefl : ∀ a, lt a a = false
  trans  : ∀ a b c, lt a b = true → lt b c = true → lt a c = true

def SortedBy (l : List α) : Prop := l.Pairwise (fun x y => lt (key x) (key y) = true)

variable {lt key}

theorem filter_gt_sorted (h : StrictOrder lt) (a : α) (pre suf : List α)
    (hs : SortedBy lt key (pre ++ a :: suf)) :
    (pre ++ a :: suf).filter (fun x => lt (key a) (key x)) = suf := by
  unfold SortedBy at hs
  rw [List.pairwise_append] at hs
  obtain ⟨_, h2, h3⟩ := hs
  rw [List.pairwise_cons] at h2
  rw [List.filter_append]
  have e1 : pre.filter (fun x => lt (key a) (key x)) = [] := by
    apply List.filter_eq_nil_iff.mpr
    intro x hx
    have hxa := h3 x hx a (by simp)
    intro hax
    have := h.trans _ _ _ hxa hax
    rw [h.irrefl] at this
    exact absurd this (by simp)
  have e2 : (a :: suf).filter (fun x => lt (key a) (key x)) = suf := by
    simp only [List.filter_cons, h.irrefl]
    apply List.filter_eq_self.mpr
    intro x hx
    exact h2.1 x hx
  simp [e1, e2]

/-- shape of a complete walk over the remaining candidates `suf`: the pages concatenate to
`suf`; every page but the last is full and carries the key of its last element; the last page
carries no after_key -/
def Complete (n : Nat) (suf : List α) (pages : List (List α × Option K)) : Prop :=
  (pages.map (·.1)).flatten = suf ∧
  (∃ lastp, pages.getLast? = some (lastp, none)) ∧
  (∀ p ∈ pages.dropLast, p.1.length = n ∧ p.2 = (p.1.getLast?).map key ∧ p.2.isSome = true)

theorem walk_suffix (h : StrictOrder lt) (l : List α) (hl : SortedBy lt key l) (n : Nat)
    (hn : 0 < n) :
    ∀ (fuel : Nat) (after : Option K) (pre suf : List α),
      l = pre ++ suf → cand lt key l after = suf → suf.length < fuel * n + 1 → 0 < fuel →
      Complete (key := key) n suf (walk lt key l n fuel after) := by
  intro fuel
  induction fuel with
  | zero => intro _ _ _ _ _ _ h0; omega
  | succ fuel ih =>
    intro after pre suf hsplit hcand hlen _
    unfold walk respond
    simp only [hcand]
    by_cases hgt : suf.length > n
    · simp only [hgt, if_true]
      have htake_ne : suf.take n ≠ [] := by
        intro h0
        have : (suf.take n).length = 0 := by simp [h0]
        rw [List.length_take] at this
        omega
      obtain ⟨c, hc⟩ : ∃ c, (suf.take n).getLast? = some c := by
        cases h0 : (suf.take n).getLast? with
        | none => exact absurd (List.getLast?_eq_none_iff.mp h0) htake_ne
        | some c => exact ⟨c, rfl⟩
      simp only [hc, Option.map_some]
      obtain ⟨ini, hini⟩ : ∃ ini, suf.take n = ini ++ [c] := by
        obtain ⟨ys, hys⟩ := List.getLast?_eq_some_iff.mp hc
        exact ⟨ys, hys⟩
      have hsuf : suf = ini ++ c :: suf.drop n := by
        have := List.take_append_drop n suf
        rw [hini] at this
        simpa using this.symm
      have hl' : l = (pre ++ ini) ++ c :: suf.drop n := by
        rw [hsplit, List.append_assoc]
        exact congrArg (pre ++ ·) hsuf
      have hcand' : cand lt key l (some (key c)) = suf.drop n := by
        show l.filter (fun x => lt (key c) (key x)) = suf.drop n
        rw [hl']
        apply filter_gt_sorted h
        rw [← hl']; exact hl
      have hfuel : 0 < fuel := by
        rcases Nat.eq_zero_or_pos fuel with h0 | h0
        · subst h0; simp at hlen; omega
        · exact h0
      have hlen' : (suf.drop n).length < fuel * n + 1 := by
        rw [List.length_drop]
        have : (fuel + 1) * n = fuel * n + n := by rw [Nat.add_mul]; simp
        omega
      have hrec := ih (some (key c)) (pre ++ suf.take n) (suf.drop n)
        (by rw [hsplit]; simp [List.take_append_drop]) hcand' hlen' hfuel
      obtain ⟨r1, ⟨lastp, r2⟩, r3⟩ := hrec
      have hne : walk lt key l n fuel (some (key c)) ≠ [] := by
        intro h0; rw [h0] at r2; simp at r2
      refine ⟨?_, ⟨lastp, ?_⟩, ?_⟩
      · simp only [List.map_cons, List.flatten_cons, r1, List.take_append_drop]
      · rw [List.getLast?_cons_of_ne_nil hne]; exact r2
      · intro p hp
        rw [List.dropLast_cons_of_ne_nil hne] at hp
        rcases List.mem_cons.mp hp with rfl | hp
        · refine ⟨?_, ?_, rfl⟩
          · rw [List.length_take]; omega
          · simp [hc]
        · exact r3 p hp
    · simp only [hgt, if_false]
      refine ⟨by simp, ⟨suf, by simp⟩, by simp⟩

/-- **keyset walk is complete**: every element exactly once and in order; after_key present on
every page except the last, absent on the last (also when the last page is exactly full) -/
theorem walk_complete (h : StrictOrder lt) (l : List α) (hl : SortedBy lt key l) (n : Nat)
    (hn : 0 < n) : Complete (key := key) n l (walk lt key l n (l.length + 1) none) := by
  apply walk_suffix h l hl n hn (l.length + 1) none [] l (by simp) rfl
  · have : l.length * 1 ≤ l.length * n := Nat.mul_le_mul_left _ hn
    have h2 : (l.length + 1) * n = l.length * n + n := by rw [Nat.add_mul]; simp
    omega
  · omega

end SL.KeysetOrd
