import SLModel.Core.Query
/-!
# Lemmas/Lev — `bounded_levenshtein` (row DP with early exit) against the textbook recurrence
-/
namespace SL.Query
open Spec

/-- reversed prefixes met while walking `bs` after `q`: `q, y₁::q, y₂::y₁::q, …` -/
def pre (q : Str) : Str → List Str
  | [] => [q]
  | y :: bs => q :: pre (y :: q) bs

theorem pre_head (q bs : Str) : ∃ r, pre q bs = q :: r := by
  cases bs <;> simp [pre]

theorem pre_getLast : ∀ (bs q : Str), (pre q bs).getLast? = some (bs.reverse ++ q)
  | [], q => by simp [pre]
  | y :: bs, q => by
    obtain ⟨r, hr⟩ := pre_head (y :: q) bs
    have ih := pre_getLast bs (y :: q)
    simp only [pre]
    rw [hr] at ih ⊢
    rw [List.getLast?_cons_cons, ih]
    simp

/-- every reversed prefix other than the start extends an earlier one by one character -/
theorem pre_closed : ∀ (bs q e : Str), e ∈ pre q bs → e = q ∨ ∃ y q', e = y :: q' ∧ q' ∈ pre q bs
  | [], q, e, h => by simp [pre] at h; exact Or.inl h
  | y :: bs, q, e, h => by
    simp only [pre, List.mem_cons] at h
    rcases h with h | h
    · exact Or.inl h
    · right
      rcases pre_closed bs (y :: q) e h with h1 | ⟨y', q', h1, h2⟩
      · exact ⟨y, q, h1, by simp [pre]⟩
      · exact ⟨y', q', h1, by simp only [pre, List.mem_cons]; exact Or.inr h2⟩

theorem nil_mem_pre (bs : Str) : [] ∈ pre [] bs := by
  obtain ⟨r, hr⟩ := pre_head [] bs
  rw [hr]; simp

theorem levP_nil_right : ∀ (p : Str), levP p [] = p.length
  | [] => rfl
  | x :: p => by simp [levP, levAux, levP_nil_right p]

theorem levP_cons (x : Nat) (p q : Str) : levAux x (levP p) q = levP (x :: p) q := rfl

/-- the inner loop of one DP row computes the next row of the recurrence -/
theorem go_eq (ca : Nat) (pa : Str) : ∀ (bs q : Str),
    levRow.go ca bs ((pre q bs).map (levP pa)) (levP (ca :: pa) q) =
      ((pre q bs).map (levP (ca :: pa))).tail
  | [], q => by simp [pre, levRow.go]
  | y :: bs, q => by
    obtain ⟨t, ht⟩ := pre_head (y :: q) bs
    have ih := go_eq ca pa bs (y :: q)
    rw [ht] at ih
    simp only [pre, ht, List.map_cons, List.tail_cons, levRow.go]
    have hval : min (min (levP pa (y :: q) + 1) (levP (ca :: pa) q + 1))
        (levP pa q + if ca = y then 0 else 1) = levP (ca :: pa) (y :: q) := by
      simp only [levP, levAux]
    rw [hval]
    simp only [List.map_cons, List.tail_cons] at ih
    rw [ih]

/-- row `pa` of the table: distances of the processed prefix to every prefix of `b` -/
def rowOf (pa b : Str) : List Nat := (pre [] b).map (levP pa)

theorem levRow_eq (ca : Nat) (pa b : Str) :
    levRow ca b (rowOf pa b) (pa.length + 1) = rowOf (ca :: pa) b := by
  unfold levRow rowOf
  have h1 : pa.length + 1 = levP (ca :: pa) [] := by
    simp [levP, levAux, levP_nil_right]
  rw [h1, go_eq ca pa b []]
  obtain ⟨r, hr⟩ := pre_head [] b
  rw [hr]
  simp

theorem pre_map_length : ∀ (bs q : Str),
    (pre q bs).map List.length = (List.range (bs.length + 1)).map (· + q.length)
  | [], q => by simp [pre]
  | y :: bs, q => by
    simp only [pre, List.map_cons, List.length_cons]
    rw [pre_map_length bs (y :: q), List.range_succ_eq_map (n := bs.length + 1)]
    simp only [List.map_cons, List.map_map, Nat.zero_add, List.length_cons]
    congr 1
    apply List.map_congr_left
    intro a _
    simp only [Function.comp]
    omega

theorem rowOf_nil (b : Str) : rowOf [] b = List.range (b.length + 1) := by
  unfold rowOf
  have : (pre [] b).map (levP []) = (pre [] b).map List.length := by
    apply List.map_congr_left
    intro q _
    rfl
  rw [this, pre_map_length b []]
  simp

theorem levRows_some (b : Str) (k : Nat) : ∀ (as pa : Str) (r : List Nat),
    levRows as b (rowOf pa b) pa.length k = some r → r = rowOf (as.reverse ++ pa) b
  | [], pa, r, h => by
    simp only [levRows, Option.some.injEq] at h
    simp [← h]
  | ca :: as, pa, r, h => by
    simp only [levRows, levRow_eq] at h
    split at h
    · cases h
    · have := levRows_some b k as (ca :: pa) r h
      rw [this]
      simp

/-- the recurrence never goes below the minimum of the previous row -/
theorem lb_step (m : Nat) (ca : Nat) (pa b : Str) (h : ∀ x ∈ rowOf pa b, m ≤ x) :
    ∀ x ∈ rowOf (ca :: pa) b, m ≤ x := by
  have hq : ∀ q, q ∈ pre [] b → m ≤ levP pa q := by
    intro q hq
    exact h _ (List.mem_map.mpr ⟨q, hq, rfl⟩)
  have key : ∀ (q : Str), q ∈ pre [] b → m ≤ levP (ca :: pa) q := by
    intro q
    induction q with
    | nil =>
      intro hmem
      have := hq [] hmem
      simp only [levP, levAux]
      omega
    | cons y q' ih =>
      intro hmem
      have hq' : q' ∈ pre [] b := by
        rcases pre_closed b [] (y :: q') hmem with h1 | ⟨y', q'', h1, h2⟩
        · cases h1
        · cases h1; exact h2
      have h1 := hq (y :: q') hmem
      have h2 := hq q' hq'
      have h3 := ih hq'
      simp only [levP, levAux] at h3 ⊢
      omega
  intro x hx
  obtain ⟨q, hq', rfl⟩ := List.mem_map.mp hx
  exact key q hq'

theorem lb_steps (m : Nat) (b : Str) : ∀ (as pa : Str), (∀ x ∈ rowOf pa b, m ≤ x) →
    ∀ x ∈ rowOf (as.reverse ++ pa) b, m ≤ x
  | [], pa, h => by simpa using h
  | ca :: as, pa, h => by
    have := lb_steps m b as (ca :: pa) (lb_step m ca pa b h)
    simpa using this

theorem foldl_min_le (l : List Nat) : ∀ (init : Nat), ∀ x ∈ l, l.foldl min init ≤ x := by
  induction l with
  | nil => intro _ x hx; cases hx
  | cons y ys ih =>
    intro init x hx
    simp only [List.foldl_cons]
    have hle : ∀ (l : List Nat) (i : Nat), l.foldl min i ≤ i := by
      intro l
      induction l with
      | nil => intro i; simp
      | cons z zs ihz => intro i; simp only [List.foldl_cons]; exact Nat.le_trans (ihz _) (Nat.min_le_left _ _)
    rcases List.mem_cons.mp hx with rfl | hx
    · exact Nat.le_trans (hle ys _) (Nat.min_le_right _ _)
    · exact ih _ x hx

theorem levRows_none (b : Str) (k : Nat) : ∀ (as pa : Str),
    levRows as b (rowOf pa b) pa.length k = none → ∀ x ∈ rowOf (as.reverse ++ pa) b, k < x
  | [], pa, h => by simp [levRows] at h
  | ca :: as, pa, h => by
    simp only [levRows, levRow_eq] at h
    split at h
    · rename_i hgt
      intro x hx
      have hlb : ∀ y ∈ rowOf (ca :: pa) b, (rowOf (ca :: pa) b).foldl min (pa.length + 1) ≤ y :=
        foldl_min_le _ _
      have := lb_steps _ b as (ca :: pa) hlb x (by simpa using hx)
      omega
    · have := levRows_none b k as (ca :: pa) h
      simpa using this

/-- the distance is at least the difference of the lengths -/
theorem levP_ge_diff : ∀ (p q : Str), p.length ≤ levP p q + q.length ∧ q.length ≤ levP p q + p.length
  | [], q => by simp [levP]
  | x :: p, q => by
    induction q with
    | nil => simp [levP, levAux, levP_nil_right]
    | cons y q' ih =>
      have h1 := levP_ge_diff p (y :: q')
      have h2 := levP_ge_diff p q'
      simp only [levP, levAux, List.length_cons] at ih h1 h2 ⊢
      omega

theorem rowOf_getLast (pa b : Str) : (rowOf pa b).getLast? = some (levP pa b.reverse) := by
  unfold rowOf
  rw [List.getLast?_map, pre_getLast]
  simp

/-- **`bounded_levenshtein` is the textbook distance under the `max_edits` cut-off.** -/
theorem levenshtein_bounded_correct (a b : Str) (k : Nat) :
    boundedLev a b k = if lev a b ≤ k then some (lev a b) else none := by
  have hdiff := levP_ge_diff a.reverse b.reverse
  simp only [List.length_reverse] at hdiff
  unfold boundedLev
  simp only
  by_cases h1 : (if a.length ≤ b.length then b.length - a.length else a.length - b.length) > k
  · rw [if_pos h1]
    have : ¬ lev a b ≤ k := by
      unfold lev
      split at h1 <;> omega
    rw [if_neg this]
  · rw [if_neg h1]
    by_cases ha : a.length = 0
    · rw [if_pos ha]
      have : a = [] := List.length_eq_zero_iff.mp ha
      subst this
      simp [lev, levP]
    · rw [if_neg ha]
      by_cases hb : b.length = 0
      · rw [if_pos hb]
        have : b = [] := List.length_eq_zero_iff.mp hb
        subst this
        simp [lev, levP_nil_right]
      · rw [if_neg hb]
        have hinit : List.range (b.length + 1) = rowOf [] b := (rowOf_nil b).symm
        rw [hinit]
        cases hr : levRows a b (rowOf [] b) 0 k with
        | none =>
          simp only
          have hall := levRows_none b k a [] (by simpa using hr)
          have hlast := rowOf_getLast (a.reverse ++ []) b
          have hmem : levP (a.reverse ++ []) b.reverse ∈ rowOf (a.reverse ++ []) b :=
            List.mem_of_getLast? hlast
          have := hall _ hmem
          simp only [List.append_nil] at this
          have hn : ¬ lev a b ≤ k := by unfold lev; omega
          rw [if_neg hn]
        | some row =>
          simp only
          have hrow := levRows_some b k a [] row (by simpa using hr)
          rw [hrow, rowOf_getLast]
          simp only [List.append_nil]
          rfl

/-- distance zero means equal words -/
theorem levP_eq_zero : ∀ (p q : Str), levP p q = 0 → p = q
  | [], q, h => by
    simp only [levP] at h
    exact (List.length_eq_zero_iff.mp h).symm
  | x :: p, q, h => by
    cases q with
    | nil => simp [levP, levAux] at h
    | cons y q' =>
      simp only [levP, levAux] at h
      have h3 : levP p q' + (if x = y then 0 else 1) = 0 := by omega
      have hxy : x = y := by
        by_cases hxy : x = y
        · exact hxy
        · simp [hxy] at h3
      have h0 : levP p q' = 0 := by omega
      rw [hxy, levP_eq_zero p q' h0]

theorem lev_eq_zero {a b : Str} (h : lev a b = 0) : a = b := by
  unfold lev at h
  have := congrArg List.reverse (levP_eq_zero _ _ h)
  simpa using this

end SL.Query
