/-! scratch: lock-protected calls are serializable (C05 core) -/
namespace SL.Locked
variable {σ : Type}

structure Call (σ : Type) where
  steps : List (σ → σ)

def applySteps (fs : List (σ → σ)) (s : σ) : σ := fs.foldl (fun acc f => f acc) s

def serial (cs : List (Call σ)) (s : σ) : σ := cs.foldl (fun acc c => applySteps c.steps acc) s

structure Thread (σ : Type) where
  cur  : Option (List (σ → σ))     -- remaining steps of the call in progress (inside the lock)
  todo : List (Call σ)

structure Cfg (σ : Type) where
  st      : σ
  holder  : Option Nat
  threads : List (Thread σ)
  order   : List (Call σ)           -- ghost: calls in the order of their acquire events
  donePre : List (σ → σ)            -- ghost: steps of the current call already executed

/-- one scheduler choice: thread `t` performs its next action if it is enabled -/
def stepCfg (c : Cfg σ) (t : Nat) : Option (Cfg σ) :=
  match c.threads[t]? with
  | none => none
  | some th =>
    match th.cur with
    | none =>
      match th.todo, c.holder with
      | call :: rest, none =>
        some { c with holder := some t,
                      threads := c.threads.set t { cur := some call.steps, todo := rest },
                      order := c.order ++ [call], donePre := [] }
      | _, _ => none
    | some [] =>
      if c.holder = some t then
        some { c with holder := none, threads := c.threads.set t { th with cur := none }, donePre := [] }
      else none
    | some (f :: fs) =>
      if c.holder = some t then
        some { c with st := f c.st, threads := c.threads.set t { th with cur := some fs },
                      donePre := c.donePre ++ [f] }
      else none

def run (c : Cfg σ) : List Nat → Option (Cfg σ)
  | [] => some c
  | t :: ts => match stepCfg c t with
    | some c' => run c' ts
    | none => none

/-- the invariant: outside a section the state is the serial result; inside, it is the serial
    result of the earlier calls followed by the executed prefix of the current call -/
def Inv (s0 : σ) (c : Cfg σ) : Prop :=
  match c.holder with
  | none => c.st = serial c.order s0 ∧ ∀ th ∈ c.threads, th.cur = none
  | some t => ∃ pre call rem th, c.order = pre ++ [call] ∧ c.threads[t]? = some th ∧ th.cur = some rem ∧
      call.steps = c.donePre ++ rem ∧ c.st = applySteps c.donePre (serial pre s0) ∧
      ∀ (u : Nat) (tu : Thread σ), u ≠ t → c.threads[u]? = some tu → tu.cur = none

theorem applySteps_append (a b : List (σ → σ)) (s : σ) :
    applySteps (a ++ b) s = applySteps b (applySteps a s) := by
  simp [applySteps, List.foldl_append]

theorem serial_append (a : List (Call σ)) (c : Call σ) (s : σ) :
    serial (a ++ [c]) s = applySteps c.steps (serial a s) := by
  simp [serial, List.foldl_append]

theorem mem_of_getElem? {l : List (Thread σ)} {i : Nat} {x : Thread σ} (h : l[i]? = some x) : x ∈ l :=
  List.mem_of_getElem? h

theorem step_preserves (s0 : σ) (c c' : Cfg σ) (t : Nat) (hi : Inv s0 c) (hs : stepCfg c t = some c') :
    Inv s0 c' := by
  unfold stepCfg at hs
  cases hth : c.threads[t]? with
  | none => simp [hth] at hs
  | some th =>
    simp only [hth] at hs
    cases hcur : th.cur with
    | none =>
      simp only [hcur] at hs
      cases htodo : th.todo with
      | nil => simp [htodo] at hs
      | cons call rest =>
        cases hh : c.holder with
        | some u => simp [htodo, hh] at hs
        | none =>
          simp only [htodo, hh] at hs
          injection hs with hs; subst hs
          unfold Inv at hi ⊢
          simp only [hh] at hi
          have hlt : t < c.threads.length := by
            rcases Nat.lt_or_ge t c.threads.length with h | h
            · exact h
            · simp [List.getElem?_eq_none h] at hth
          refine ⟨c.order, call, call.steps, ⟨some call.steps, rest⟩, rfl, ?_, rfl, by simp, ?_, ?_⟩
          · simp [List.getElem?_set, hlt]
          · simp [applySteps, hi.1]
          · intro u tu hu hget
            rw [List.getElem?_set_ne (by omega)] at hget
            exact hi.2 tu (List.mem_of_getElem? hget)
    | some rem =>
      simp only [hcur] at hs
      cases rem with
      | nil =>
        simp only at hs
        split at hs
        · rename_i hh
          injection hs with hs; subst hs
          unfold Inv at hi ⊢
          simp only [hh] at hi
          obtain ⟨pre, call, rem', th', hord, hget, hcur', hsteps, hst, hothers⟩ := hi
          rw [hth] at hget; injection hget with hget; subst hget
          rw [hcur] at hcur'; injection hcur' with hcur'; subst hcur'
          simp only
          refine ⟨?_, ?_⟩
          · rw [hord, serial_append, hst]
            simp at hsteps
            rw [hsteps]
          · intro x hx
            obtain ⟨i, hxi⟩ := List.mem_iff_getElem?.mp hx
            by_cases hit : i = t
            · subst hit
              have hlt : i < c.threads.length := by
                rcases Nat.lt_or_ge i c.threads.length with h | h
                · exact h
                · simp [List.getElem?_eq_none h] at hth
              simp [List.getElem?_set, hlt] at hxi
              subst hxi; rfl
            · rw [List.getElem?_set_ne (by omega)] at hxi
              exact hothers i x hit hxi
        · simp at hs
      | cons f fs =>
        simp only at hs
        split at hs
        · rename_i hh
          injection hs with hs; subst hs
          unfold Inv at hi ⊢
          simp only [hh] at hi ⊢
          obtain ⟨pre, call, rem', th', hord, hget, hcur', hsteps, hst, hothers⟩ := hi
          rw [hth] at hget; injection hget with hget; subst hget
          rw [hcur] at hcur'; injection hcur' with hcur'; subst hcur'
          have hlt : t < c.threads.length := by
            rcases Nat.lt_or_ge t c.threads.length with h | h
            · exact h
            · simp [List.getElem?_eq_none h] at hth
          refine ⟨pre, call, fs, { th with cur := some fs }, hord, ?_, rfl, ?_, ?_, ?_⟩
          · simp [List.getElem?_set, hlt]
          · rw [hsteps]; simp
          · rw [applySteps_append, ← hst]; simp [applySteps]
          · intro u tu hu hget
            rw [List.getElem?_set_ne (by omega)] at hget
            exact hothers u tu hu hget
        · simp at hs

theorem run_preserves (s0 : σ) : ∀ (sched : List Nat) (c c' : Cfg σ), Inv s0 c → run c sched = some c' → Inv s0 c' := by
  intro sched
  induction sched with
  | nil => intro c c' hi hr; simp [run] at hr; subst hr; exact hi
  | cons t ts ih =>
    intro c c' hi hr
    unfold run at hr
    cases hs : stepCfg c t with
    | none => simp [hs] at hr
    | some c1 => simp only [hs] at hr; exact ih c1 c' (step_preserves s0 c c1 t hi hs) hr

/-- Any complete schedule of lock-protected calls ends in the state of the serial execution of the
    calls in the order of their acquire events. -/
theorem locked_serializable (s0 : σ) (progs : List (List (Call σ))) (sched : List Nat) (c' : Cfg σ)
    (hr : run { st := s0, holder := none, threads := progs.map (fun p => ⟨none, p⟩), order := [], donePre := [] } sched = some c')
    (hdone : c'.holder = none) :
    c'.st = serial c'.order s0 := by
  have hinit : Inv s0 { st := s0, holder := none, threads := progs.map (fun p => (⟨none, p⟩ : Thread σ)), order := [], donePre := [] } := by
    unfold Inv; simp [serial]
  have := run_preserves s0 sched _ c' hinit hr
  unfold Inv at this
  simp only [hdone] at this
  exact this.1

end SL.Locked
