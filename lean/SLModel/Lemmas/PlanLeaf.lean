import SLModel.Core.PlanLeaf
/-! Lemmas about leaf allocation (`Core/PlanLeaf`), used by `Props/C16`. -/
namespace SL.PlanLeaf

variable {κ : Type}

/-- the step invariant of the plan builder: from `st` to `st'` the leaf counter only grows,
old groups are kept, and every leaf of a new group or of the returned expressions lies in
`[st.next, st'.next)` -/
def Good (st st' : St κ) (es : List Nat) : Prop :=
  st.next ≤ st'.next ∧
  (∃ new, st'.groups = st.groups ++ new ∧
    ∀ g ∈ new, ∀ l ∈ groupLeaves g, st.next ≤ l ∧ l < st'.next) ∧
  ∀ l ∈ es, st.next ≤ l ∧ l < st'.next

theorem Good.refl (st : St κ) : Good st st [] :=
  ⟨Nat.le_refl _, ⟨[], by simp, by simp⟩, by simp⟩

theorem Good.trans {a b c : St κ} {e1 e2 : List Nat} (h1 : Good a b e1) (h2 : Good b c e2) :
    Good a c (e1 ++ e2) := by
  obtain ⟨n1, ⟨g1, hg1, hl1⟩, he1⟩ := h1
  obtain ⟨n2, ⟨g2, hg2, hl2⟩, he2⟩ := h2
  refine ⟨Nat.le_trans n1 n2, ⟨g1 ++ g2, by rw [hg2, hg1, List.append_assoc], ?_⟩, ?_⟩
  · intro g hg l hl
    rcases List.mem_append.mp hg with h | h
    · have := hl1 g h l hl; omega
    · have := hl2 g h l hl; omega
  · intro l hl
    rcases List.mem_append.mp hl with h | h
    · have := he1 l h; omega
    · have := he2 l h; omega

/-- forget (some of) the expression leaves -/
theorem Good.mono {a b : St κ} {e e' : List Nat} (h : Good a b e) (hs : ∀ l ∈ e', l ∈ e) : Good a b e' :=
  ⟨h.1, h.2.1, fun l hl => h.2.2 l (hs l hl)⟩

theorem Good.push {a b : St κ} {e : List Nat} (h : Good a b e) (g : Group κ)
    (hg : ∀ l ∈ groupLeaves g, a.next ≤ l ∧ l < b.next) : Good a (push b g) e := by
  obtain ⟨n1, ⟨g1, hg1, hl1⟩, he1⟩ := h
  refine ⟨n1, ⟨g1 ++ [g], by simp [SL.PlanLeaf.push, hg1], ?_⟩, he1⟩
  intro g' hg' l hl
  rcases List.mem_append.mp hg' with h | h
  · exact hl1 g' h l hl
  · simp at h; subst h; exact hg l hl

theorem allocIf_good (score : Bool) (st : St κ) :
    Good st (allocIf score st).1 (allocIf score st).2.toList := by
  unfold allocIf
  cases score
  · simpa using Good.refl st
  · refine ⟨by simp, ⟨[], by simp, by simp⟩, ?_⟩
    intro l hl
    simp at hl
    subst hl
    simp

/-- leaves of a group whose field slots carry no leaf of their own -/
theorem groupLeaves_noSlot (fields : List (Slot κ)) (t : κ) (e : Exp) (sc : Bool) (leaf : Option Nat)
    (h : ∀ s ∈ fields, s.leaf = none) :
    ∀ l ∈ groupLeaves ⟨fields, t, e, sc, leaf⟩, l ∈ leaf.toList := by
  intro l hl
  simp only [groupLeaves, List.mem_filterMap] at hl
  obtain ⟨s, hs, hsl⟩ := hl
  simp only [targetLeaf, h s hs] at hsl
  cases leaf <;> simp_all [Option.orElse]

theorem termFields_noLeaf (base : List (Slot κ)) (hb : ∀ s ∈ base, s.leaf = none) (t : QTerm κ) :
    ∀ s ∈ termFields base t, s.leaf = none := by
  unfold termFields
  cases t.field with
  | none => exact hb
  | some f => intro s hs; simp at hs; simp [hs]

theorem qsTerms_good (base : List (Slot κ)) (hb : ∀ s ∈ base, s.leaf = none) (score : Bool) :
    ∀ (ts : List (QTerm κ)) (st : St κ),
      Good st (qsTerms base score ts st).1 (SE.leavesL (qsTerms base score ts st).2)
  | [], st => by simpa [qsTerms, SE.leavesL] using Good.refl st
  | t :: ts, st => by
    simp only [qsTerms]
    have ha := allocIf_good score st
    generalize allocIf score st = r at ha
    obtain ⟨st1, leaf⟩ := r
    simp only at ha ⊢
    have hfields := termFields_noLeaf base hb t
    have hp : Good st (push st1 ⟨_, t.term, .exact, score, leaf⟩) leaf.toList :=
      ha.push _ (fun l hl => ha.2.2 l (groupLeaves_noSlot _ _ _ _ _ hfields l hl))
    have hrec := qsTerms_good base hb score ts (push st1 ⟨termFields base t, t.term, .exact, score, leaf⟩)
    have := hp.trans hrec
    refine this.mono ?_
    intro l hl
    cases leaf <;> simpa [SE.leavesL, SE.leaves] using hl

theorem qsNots_good (base : List (Slot κ)) (hb : ∀ s ∈ base, s.leaf = none) :
    ∀ (ts : List (QTerm κ)) (st : St κ), Good st (qsNots base ts st) []
  | [], st => by simpa [qsNots] using Good.refl st
  | t :: ts, st => by
    simp only [qsNots]
    have hfields := termFields_noLeaf base hb t
    have hp : Good st (push st ⟨_, t.term, .exact, false, none⟩) [] :=
      (Good.refl st).push _ (fun l hl => by
        have := groupLeaves_noSlot _ _ _ _ _ hfields l hl
        simp at this)
    simpa using hp.trans (qsNots_good base hb ts _)

/-- `bestSlots`: the slots carry exactly the leaves `st.next, st.next+1, …` -/
theorem bestSlots_spec : ∀ (fs : List κ) (st : St κ),
    (bestSlots fs st).1.next = st.next + fs.length ∧ (bestSlots fs st).1.groups = st.groups ∧
    ∀ s ∈ (bestSlots fs st).2, ∃ l, s.leaf = some l ∧ st.next ≤ l ∧ l < st.next + fs.length
  | [], st => by simp [bestSlots]
  | f :: fs, st => by
    simp only [bestSlots]
    obtain ⟨h1, h2, h3⟩ := bestSlots_spec fs ⟨st.next + 1, st.groups⟩
    refine ⟨by simp [h1]; omega, by simp [h2], ?_⟩
    intro s hs
    simp at hs
    rcases hs with rfl | hs
    · exact ⟨st.next, rfl, Nat.le_refl _, by simp⟩
    · obtain ⟨l, hl, ha, hb⟩ := h3 s hs
      exact ⟨l, hl, by simp at ha; omega, by simp at hb ⊢; omega⟩

theorem pushTerms_good (slots : List (Slot κ)) (score : Bool) (leaf : Option Nat) (a : St κ) :
    ∀ (ts : List κ) (b : St κ) (e : List Nat), Good a b e →
      (∀ t, ∀ l ∈ groupLeaves ⟨slots, t, .exact, score, leaf⟩, a.next ≤ l ∧ l < b.next) →
      Good a (pushTerms slots score leaf ts b) e
  | [], b, e, h, _ => by simpa [pushTerms] using h
  | t :: ts, b, e, h, hl => by
    simp only [pushTerms]
    exact pushTerms_good slots score leaf a ts _ e (h.push _ (hl t)) (by simpa [SL.PlanLeaf.push] using hl)

theorem fold1_leaves (mk : List SE → SE) (hmk : ∀ es, (mk es).leaves = SE.leavesL es) (es : List SE) :
    ∀ l ∈ (match fold1 mk es with | some x => x.leaves | none => []), l ∈ SE.leavesL es := by
  intro l hl
  match es, hl with
  | [], hl => simp [fold1] at hl
  | [e], hl => simpa [fold1, SE.leavesL] using hl
  | e1 :: e2 :: r, hl => simpa [fold1, hmk] using hl

theorem leavesL_append (a b : List SE) : SE.leavesL (a ++ b) = SE.leavesL a ++ SE.leavesL b := by
  induction a with
  | nil => simp [SE.leavesL]
  | cons x xs ih => simp [SE.leavesL, ih]

/-- leaves of an optional expression -/
def optLeaves : Option SE → List Nat
  | some x => x.leaves
  | none => []

/-- most_fields / cross_fields -/
theorem build_mm_good (dflt : List κ) (terms nots fields : List κ) (score : Bool) (st : St κ) (k : MM)
    (hk : k ≠ .best) :
    Good st (build dflt score (.multiMatch k terms nots fields) st).1
      (optLeaves (build dflt score (.multiMatch k terms nots fields) st).2) := by
  have key : ∀ (leafSt : St κ × Option Nat), Good st leafSt.1 leafSt.2.toList →
      Good st (pushTerms (fields.map fun f => ⟨f, leafSt.2⟩) false none nots
        (pushTerms (fields.map fun f => ⟨f, leafSt.2⟩) score leafSt.2 terms leafSt.1))
        (optLeaves (leafSt.2.map SE.leaf)) := by
    rintro ⟨st1, leaf⟩ ha
    simp only at ha ⊢
    have hgl : ∀ (sc : Bool) (gl : Option Nat) (t : κ),
        ∀ l ∈ groupLeaves ⟨fields.map fun f => (⟨f, leaf⟩ : Slot κ), t, .exact, sc, gl⟩, l ∈ leaf.toList ∨ l ∈ gl.toList := by
      intro sc gl t l hl
      simp only [groupLeaves, List.mem_filterMap, List.mem_map] at hl
      obtain ⟨s, ⟨f, _, rfl⟩, hsl⟩ := hl
      cases leaf <;> cases gl <;> simp_all [targetLeaf, Option.orElse]
    have hnext : ∀ (sc : Bool) (gl : Option Nat) (ts : List κ) (b : St κ),
        (pushTerms (fields.map fun f => (⟨f, leaf⟩ : Slot κ)) sc gl ts b).next = b.next := by
      intro sc gl ts
      induction ts with
      | nil => intro b; rfl
      | cons t ts ih => intro b; simp [pushTerms, ih, SL.PlanLeaf.push]
    have h1 := pushTerms_good (fields.map fun f => (⟨f, leaf⟩ : Slot κ)) score leaf st terms st1 _ ha
      (by
        intro t l hl
        rcases hgl score leaf t l hl with h | h <;> exact ha.2.2 l h)
    have h2 := pushTerms_good (fields.map fun f => (⟨f, leaf⟩ : Slot κ)) false none st nots _ _ h1
      (by
        intro t l hl
        rw [hnext]
        rcases hgl false none t l hl with h | h
        · exact ha.2.2 l h
        · simp at h)
    refine h2.mono ?_
    intro l hl
    cases leaf <;> simpa [optLeaves, SE.leaves] using hl
  cases k with
  | best => exact absurd rfl hk
  | most => simpa [build] using key (allocIf score st) (allocIf_good score st)
  | cross => simpa [build] using key (allocIf score st) (allocIf_good score st)

mutual
theorem build_good (dflt : List κ) : ∀ (q : Q κ) (score : Bool) (st : St κ),
    Good st (build dflt score q st).1 (optLeaves (build dflt score q st).2)
  | .matchAll, _, st => by simpa [build, optLeaves] using Good.refl st
  | .queryString terms nots fields, score, st => by
    simp only [build]
    have hb : ∀ s ∈ ((fields.getD dflt).map fun f => (⟨f, none⟩ : Slot κ)), s.leaf = none := by
      intro s hs
      obtain ⟨f, _, rfl⟩ := List.mem_map.mp hs
      rfl
    have h1 := qsTerms_good _ hb score terms st
    generalize qsTerms _ score terms st = r at h1
    obtain ⟨st1, es⟩ := r
    simp only at h1 ⊢
    have h2 := qsNots_good _ hb nots st1
    have := h1.trans h2
    refine this.mono ?_
    intro l hl
    simpa using fold1_leaves .sum (fun _ => by simp [SE.leaves]) es l (by simpa [optLeaves] using hl)
  | .multiMatch .best terms nots fields, score, st => by
    simp only [build]
    obtain ⟨hn, hg, hs⟩ := bestSlots_spec fields st
    generalize bestSlots fields st = r at hn hg hs
    obtain ⟨st1, slots⟩ := r
    simp only at hn hg hs ⊢
    have hlv : ∀ l ∈ SE.leavesL (slots.filterMap fun s => s.leaf.map SE.leaf), st.next ≤ l ∧ l < st1.next := by
      intro l hl
      clear hg
      induction slots with
      | nil => simp [SE.leavesL] at hl
      | cons s ss ih =>
        obtain ⟨l', hl', ha, hb⟩ := hs s (by simp)
        simp only [List.filterMap_cons, hl', Option.map_some, SE.leavesL, SE.leaves, List.mem_append,
          List.mem_singleton] at hl
        rcases hl with rfl | hl
        · omega
        · exact ih (fun s' hs' => hs s' (by simp [hs'])) hl
    have h0 : Good st st1 (SE.leavesL (slots.filterMap fun s => s.leaf.map SE.leaf)) :=
      ⟨by omega, ⟨[], by simp [hg], by simp⟩, hlv⟩
    have hgl : ∀ (sc : Bool) (t : κ), ∀ l ∈ groupLeaves ⟨slots, t, .exact, sc, none⟩, st.next ≤ l ∧ l < st1.next := by
      intro sc t l hl
      simp only [groupLeaves, List.mem_filterMap] at hl
      obtain ⟨s, hs', hsl⟩ := hl
      obtain ⟨l', hl', ha, hb⟩ := hs s hs'
      simp [targetLeaf, hl', Option.orElse] at hsl
      omega
    have h1 := pushTerms_good slots score none st terms st1 _ h0 (hgl score)
    have h2 := pushTerms_good slots false none st nots _ _ h1
      (by
        intro t l hl
        have hh := hgl false t l hl
        have hk : (pushTerms slots score none terms st1).next = st1.next := by
          clear h1 h0
          generalize st1 = b
          induction terms generalizing b with
          | nil => rfl
          | cons t ts ih => simp [pushTerms, ih, SL.PlanLeaf.push]
        omega)
    refine h2.mono ?_
    intro l hl
    split at hl
    · simp [optLeaves] at hl
    · simpa [optLeaves, SE.leaves] using hl
  | .multiMatch .most terms nots fields, score, st => build_mm_good dflt terms nots fields score st .most (by simp)
  | .multiMatch .cross terms nots fields, score, st => build_mm_good dflt terms nots fields score st .cross (by simp)
  | .term exp field value, score, st => by
    simp only [build]
    have ha := allocIf_good score st
    generalize allocIf score st = r at ha
    obtain ⟨st1, leaf⟩ := r
    simp only at ha ⊢
    have hp := ha.push ⟨[⟨field, none⟩], value, exp, score, leaf⟩
      (fun l hl => ha.2.2 l (groupLeaves_noSlot _ _ _ _ _ (by simp) l hl))
    refine hp.mono ?_
    intro l hl
    cases leaf <;> simpa [optLeaves, SE.leaves] using hl
  | .phrase, _, st => by simpa [build, optLeaves] using Good.refl st
  | .bool must should mustNot, score, st => by
    simp only [build]
    have h1 := buildList_good dflt must score st
    generalize buildList dflt score must st = r1 at h1
    obtain ⟨st1, e1⟩ := r1
    have h2 := buildList_good dflt should score st1
    generalize buildList dflt score should st1 = r2 at h2
    obtain ⟨st2, e2⟩ := r2
    have h3 := buildList_good dflt mustNot false st2
    generalize buildList dflt false mustNot st2 = r3 at h3
    obtain ⟨st3, e3⟩ := r3
    simp only at h1 h2 h3 ⊢
    have := (h1.trans h2).trans h3
    refine this.mono ?_
    intro l hl
    have := fold1_leaves .sum (fun _ => by simp [SE.leaves]) (e1 ++ e2 ++ e3) l (by simpa [optLeaves] using hl)
    simpa [leavesL_append] using this
  | .disMax qs, score, st => by
    simp only [build]
    have h1 := buildList_good dflt qs score st
    generalize buildList dflt score qs st = r1 at h1
    obtain ⟨st1, e1⟩ := r1
    simp only at h1 ⊢
    refine h1.mono ?_
    intro l hl
    exact fold1_leaves .disMax (fun _ => by simp [SE.leaves]) e1 l (by simpa [optLeaves] using hl)
  | .constantScore, _, st => by simpa [build, optLeaves] using Good.refl st
  | .rankFeature, _, st => by simpa [build, optLeaves] using Good.refl st
  | .functionScore q, score, st => by
    simp only [build]
    exact build_good dflt q score st
  | .scriptScore q, score, st => by
    simp only [build]
    exact build_good dflt q score st
theorem buildList_good (dflt : List κ) : ∀ (qs : List (Q κ)) (score : Bool) (st : St κ),
    Good st (buildList dflt score qs st).1 (SE.leavesL (buildList dflt score qs st).2)
  | [], _, st => by simpa [buildList, SE.leavesL] using Good.refl st
  | q :: qs, score, st => by
    simp only [buildList]
    have h1 := build_good dflt q score st
    generalize build dflt score q st = r1 at h1
    obtain ⟨st1, e⟩ := r1
    have h2 := buildList_good dflt qs score st1
    generalize buildList dflt score qs st1 = r2 at h2
    obtain ⟨st2, es⟩ := r2
    simp only at h1 h2 ⊢
    refine (h1.trans h2).mono ?_
    intro l hl
    cases e <;> simpa [optLeaves, leavesL_append, SE.leavesL] using hl
end

/-! ### the `term_weights` loop -/

section TW
variable {K : Type} [DecidableEq K]

/-- one term key ↦ one leaf, as a proposition -/
def Fn (r : List (K × Nat)) : Prop := ∀ a ∈ r, ∀ b ∈ r, a.1 = b.1 → a.2 = b.2

/-- the pairs still to come agree with the map built so far -/
def Compat (m r : List (K × Nat)) : Prop := ∀ q ∈ r, ∀ l', lookup q.1 m = some l' → l' = q.2

theorem lookup_append (k' k : K) (l : Nat) (m : List (K × Nat)) :
    lookup k' (m ++ [(k, l)]) =
      match lookup k' m with
      | some x => some x
      | none => if k = k' then some l else none := by
  induction m with
  | nil => simp [lookup]
  | cons p m ih =>
    obtain ⟨pk, pl⟩ := p
    simp only [List.cons_append, lookup]
    split
    · rfl
    · exact ih

theorem termWeights_isSome_iff : ∀ (r m : List (K × Nat)),
    (legacyTermWeights m r).isSome = true ↔ (Compat m r ∧ Fn r)
  | [], m => by simp [legacyTermWeights, Compat, Fn]
  | (k, l) :: r, m => by
    unfold legacyTermWeights
    cases hlk : lookup k m with
    | none =>
      simp only
      rw [termWeights_isSome_iff r (m ++ [(k, l)])]
      constructor
      · rintro ⟨hc, hf⟩
        have hc' : Compat m r := by
          intro q hq l' hl'
          apply hc q hq l'
          rw [lookup_append, hl']
        refine ⟨?_, ?_⟩
        · intro q hq l' hl'
          rcases List.mem_cons.mp hq with rfl | hq
          · simp [hlk] at hl'
          · exact hc' q hq l' hl'
        · have hkr : ∀ b ∈ r, k = b.1 → l = b.2 := by
            intro b hb hkb
            apply hc b hb l
            rw [lookup_append, ← hkb, hlk]
            simp
          intro a ha b hb hab
          rcases List.mem_cons.mp ha with rfl | ha <;> rcases List.mem_cons.mp hb with rfl | hb
          · rfl
          · exact hkr b hb hab
          · exact (hkr a ha hab.symm).symm
          · exact hf a ha b hb hab
      · rintro ⟨hc, hf⟩
        refine ⟨?_, fun a ha b hb => hf a (List.mem_cons_of_mem _ ha) b (List.mem_cons_of_mem _ hb)⟩
        intro q hq l' hl'
        rw [lookup_append] at hl'
        cases hq1 : lookup q.1 m with
        | some x =>
          rw [hq1] at hl'
          simp at hl'
          subst hl'
          exact hc q (List.mem_cons_of_mem _ hq) x hq1
        | none =>
          rw [hq1] at hl'
          simp at hl'
          obtain ⟨hk, rfl⟩ := hl'
          exact hf (k, l) (by simp) q (List.mem_cons_of_mem _ hq) hk
    | some l0 =>
      simp only
      by_cases hl : l0 = l
      · subst hl
        simp only [if_true]
        rw [termWeights_isSome_iff r m]
        constructor
        · rintro ⟨hc, hf⟩
          refine ⟨?_, ?_⟩
          · intro q hq l' hl'
            rcases List.mem_cons.mp hq with rfl | hq
            · simp [hlk] at hl'; exact hl'.symm
            · exact hc q hq l' hl'
          · have hkr : ∀ b ∈ r, k = b.1 → l0 = b.2 := by
              intro b hb hkb
              exact hc b hb l0 (by rw [← hkb, hlk])
            intro a ha b hb hab
            rcases List.mem_cons.mp ha with rfl | ha <;> rcases List.mem_cons.mp hb with rfl | hb
            · rfl
            · exact hkr b hb hab
            · exact (hkr a ha hab.symm).symm
            · exact hf a ha b hb hab
        · rintro ⟨hc, hf⟩
          exact ⟨fun q hq => hc q (List.mem_cons_of_mem _ hq),
            fun a ha b hb => hf a (List.mem_cons_of_mem _ ha) b (List.mem_cons_of_mem _ hb)⟩
      · simp only [hl, if_false]
        constructor
        · intro h; simp at h
        · rintro ⟨hc, _⟩
          exact absurd (hc (k, l) (by simp) l0 hlk) hl

theorem functional_iff_Fn (r : List (K × Nat)) : functional r = true ↔ Fn r := by
  simp only [functional, List.all_eq_true, Fn]
  constructor
  · intro h a ha b hb hab
    have := h a ha b hb
    simpa [hab] using this
  · intro h a ha b hb
    by_cases hab : a.1 = b.1
    · simp [hab, h a ha b hb hab]
    · simp [hab]

end TW


/-! ### the `(key, leaf)`-keyed loop (code since 458e503) -/

theorem mem_termWeights {K : Type} [DecidableEq K] : ∀ (r m : List (K × Nat)) (x : K × Nat),
    x ∈ termWeights m r ↔ (x ∈ m ∨ x ∈ r)
  | [], m, x => by simp [termWeights]
  | q :: r, m, x => by
    unfold termWeights
    split
    · rename_i hq
      rw [mem_termWeights r m x]
      have hq' : q ∈ m := by simpa using hq
      constructor
      · rintro (h | h)
        · exact Or.inl h
        · exact Or.inr (List.mem_cons_of_mem _ h)
      · rintro (h | h)
        · exact Or.inl h
        · rcases List.mem_cons.mp h with rfl | h
          · exact Or.inl hq'
          · exact Or.inr h
    · rw [mem_termWeights r (m ++ [q]) x]
      simp [or_assoc]

/-- one `ScoredTerm` per `(key, leaf)`: the loop never produces a pair twice -/
theorem termWeights_nodup {K : Type} [DecidableEq K] : ∀ (r m : List (K × Nat)),
    m.Nodup → (termWeights m r).Nodup
  | [], m, h => by simpa [termWeights] using h
  | q :: r, m, h => by
    unfold termWeights
    split
    · exact termWeights_nodup r m h
    · rename_i hq
      apply termWeights_nodup r (m ++ [q])
      have hq' : q ∉ m := by simpa using hq
      rw [List.nodup_append]
      refine ⟨h, by simp, ?_⟩
      intro a ha b hb
      simp at hb
      subst hb
      intro hab
      subst hab
      exact hq' ha

/-! ### qualified terms of a plan -/

section Qual
variable {K : Type}

theorem mem_qualified (keysOf : κ → κ → Exp → List K) (groups : List (Group κ)) (k : K) (l : Nat) :
    (k, l) ∈ qualified keysOf groups ↔
      ∃ g ∈ groups, g.score = true ∧ ∃ s ∈ g.fields, targetLeaf g s = some l ∧ k ∈ keysOf s.field g.term g.exp := by
  simp only [qualified, List.mem_flatMap, groupQuals]
  constructor
  · rintro ⟨g, hg, hm⟩
    split at hm
    · rename_i hs
      simp only [List.mem_flatMap] at hm
      obtain ⟨s, hs', hm⟩ := hm
      cases ht : targetLeaf g s with
      | none => simp [ht] at hm
      | some l' =>
        simp only [ht, List.mem_map, Prod.mk.injEq] at hm
        obtain ⟨k', hk', rfl, rfl⟩ := hm
        exact ⟨g, hg, hs, s, hs', ht, hk'⟩
    · simp at hm
  · rintro ⟨g, hg, hs, s, hs', ht, hk⟩
    refine ⟨g, hg, ?_⟩
    simp only [hs, if_true, List.mem_flatMap]
    exact ⟨s, hs', by simp [ht, hk]⟩

theorem qualified_leaf_mem (keysOf : κ → κ → Exp → List K) (groups : List (Group κ)) (k : K) (l : Nat)
    (h : (k, l) ∈ qualified keysOf groups) : ∃ g ∈ groups, l ∈ groupLeaves g := by
  obtain ⟨g, hg, _, s, hs, ht, _⟩ := (mem_qualified keysOf groups k l).mp h
  exact ⟨g, hg, by simp only [groupLeaves, List.mem_filterMap]; exact ⟨s, hs, ht⟩⟩

end Qual

end SL.PlanLeaf
