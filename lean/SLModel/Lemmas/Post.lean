import SLModel.Core.Post
/-!
# Lemmas/Post — list/sorting facts behind the C13/C18/C19/C20 theorems

`SL.Post.isort` is the structural insertion sort of the model.  The comparator is only assumed
to be a strict order (`StrictOrd`: irreflexive, transitive) — two different `Hit` values may
carry the same key, so totality is stated separately, relative to a list (`TotalOn`); it holds
for `klt` on lists whose `(seg, doc)` ids are pairwise distinct (`klt_totalOn`).
-/
namespace SL.Post

section Order
variable {α : Type}

structure StrictOrd (lt : α → α → Bool) : Prop where
  irrefl : ∀ a, lt a a = false
  trans  : ∀ a b c, lt a b = true → lt b c = true → lt a c = true

/-- no inversions: nothing later is strictly smaller than something earlier -/
def Sorted (lt : α → α → Bool) (l : List α) : Prop := l.Pairwise (fun a b => lt b a = false)

/-- the comparator decides every pair of different elements of `l` -/
def TotalOn (lt : α → α → Bool) (l : List α) : Prop :=
  ∀ a ∈ l, ∀ b ∈ l, a ≠ b → lt a b = true ∨ lt b a = true

variable {lt : α → α → Bool}

theorem StrictOrd.asymm (h : StrictOrd lt) {a b : α} (hab : lt a b = true) : lt b a = false := by
  cases hba : lt b a with
  | false => rfl
  | true =>
    have := h.trans a b a hab hba
    rw [h.irrefl] at this; exact absurd this (by simp)

theorem TotalOn.mono {l l' : List α} (h : TotalOn lt l) (hs : ∀ x ∈ l', x ∈ l) : TotalOn lt l' :=
  fun a ha b hb hab => h a (hs a ha) b (hs b hb) hab

theorem Sorted.sublist {l l' : List α} (h : Sorted lt l) (hs : l'.Sublist l) : Sorted lt l' :=
  List.Pairwise.sublist hs h

theorem ins_perm (x : α) (l : List α) : (ins lt x l).Perm (x :: l) := by
  induction l with
  | nil => simp [ins]
  | cons y ys ih =>
    unfold ins
    split
    · exact List.Perm.refl _
    · exact (List.Perm.cons y ih).trans (List.Perm.swap x y ys)

theorem isort_perm_self (l : List α) : (isort lt l).Perm l := by
  induction l with
  | nil => simp [isort]
  | cons x xs ih => exact (ins_perm x _).trans (List.Perm.cons x ih)

theorem mem_isort {x : α} {l : List α} : x ∈ isort lt l ↔ x ∈ l := (isort_perm_self l).mem_iff

theorem length_isort (l : List α) : (isort lt l).length = l.length := (isort_perm_self l).length_eq

theorem mem_ins {x z : α} {l : List α} : z ∈ ins lt x l ↔ z = x ∨ z ∈ l := by
  rw [(ins_perm x l).mem_iff]; simp

theorem ins_sorted (h : StrictOrd lt) (x : α) (l : List α) (hs : Sorted lt l) : Sorted lt (ins lt x l) := by
  induction l with
  | nil => simp [ins, Sorted]
  | cons y ys ih =>
    unfold Sorted at hs
    rw [List.pairwise_cons] at hs
    unfold ins
    split
    · rename_i hxy
      unfold Sorted
      rw [List.pairwise_cons]
      refine ⟨?_, List.pairwise_cons.mpr hs⟩
      intro z hz
      rcases List.mem_cons.mp hz with rfl | hz
      · exact h.asymm hxy
      · cases hzx : lt z x with
        | false => rfl
        | true =>
          have := h.trans z x y hzx hxy
          rw [hs.1 z hz] at this; exact absurd this (by simp)
    · rename_i hxy
      unfold Sorted
      rw [List.pairwise_cons]
      refine ⟨?_, ih hs.2⟩
      intro z hz
      rcases mem_ins.mp hz with rfl | hz
      · simpa using hxy
      · exact hs.1 z hz

theorem isort_sorted (h : StrictOrd lt) (l : List α) : Sorted lt (isort lt l) := by
  induction l with
  | nil => simp [isort, Sorted]
  | cons x xs ih => exact ins_sorted h x _ ih

/-- inserting in front of a sorted list whose elements the comparator can tell apart -/
theorem ins_of_sorted (x : α) (l : List α) (hs : Sorted lt (x :: l)) (ht : TotalOn lt (x :: l)) :
    ins lt x l = x :: l := by
  induction l with
  | nil => rfl
  | cons y ys ih =>
    have hyx : lt y x = false := (List.pairwise_cons.mp hs).1 y (by simp)
    by_cases hxy : x = y
    · subst hxy
      have hs' : Sorted lt (x :: ys) := hs.sublist (by simp)
      have ht' : TotalOn lt (x :: ys) := ht.mono (by intro z hz; simp at hz ⊢; rcases hz with h | h <;> simp [h])
      simp [ins, hyx, ih hs' ht']
    · have : lt x y = true := by
        rcases ht x (by simp) y (by simp) hxy with h | h
        · exact h
        · rw [hyx] at h; exact absurd h (by simp)
      simp [ins, this]

theorem isort_of_sorted (l : List α) (hs : Sorted lt l) (ht : TotalOn lt l) : isort lt l = l := by
  induction l with
  | nil => rfl
  | cons x xs ih =>
    have hs' : Sorted lt xs := (List.pairwise_cons.mp hs).2
    have ht' : TotalOn lt xs := ht.mono (by intro z hz; simp [hz])
    simp only [isort, ih hs' ht']
    exact ins_of_sorted x xs hs ht

/-- sorting commutes with a map the comparator does not see -/
theorem ins_map {β : Type} (f : α → β) (lt' : β → β → Bool) (hf : ∀ a b, lt' (f a) (f b) = lt a b)
    (x : α) (l : List α) : ins lt' (f x) (l.map f) = (ins lt x l).map f := by
  induction l with
  | nil => rfl
  | cons y ys ih =>
    simp only [List.map_cons, ins, hf]
    split <;> simp [ih]

theorem isort_map {β : Type} (f : α → β) (lt' : β → β → Bool) (hf : ∀ a b, lt' (f a) (f b) = lt a b)
    (l : List α) : isort lt' (l.map f) = (isort lt l).map f := by
  induction l with
  | nil => rfl
  | cons x xs ih => simp only [List.map_cons, isort, ih, ins_map f lt' hf]

end Order

theorem filterMap_congr' {α β : Type} {f g : α → Option β} {l : List α} (h : ∀ x ∈ l, f x = g x) :
    l.filterMap f = l.filterMap g := by
  induction l with
  | nil => rfl
  | cons x xs ih =>
    have hx := h x (by simp)
    have ih' := ih (fun y hy => h y (by simp [hy]))
    simp only [List.filterMap_cons, hx, ih']

/-! ## dedup -/

theorem mem_dedup {x : Nat} {l : List Nat} : x ∈ dedup l ↔ x ∈ l := by
  induction l with
  | nil => simp [dedup]
  | cons y ys ih =>
    simp only [dedup, List.mem_cons, List.mem_filter, ih]
    constructor
    · rintro (h | ⟨h, _⟩)
      · exact Or.inl h
      · exact Or.inr h
    · intro h
      by_cases hxy : x = y
      · exact Or.inl hxy
      · rcases h with h | h
        · exact Or.inl h
        · exact Or.inr ⟨h, by simpa using hxy⟩

theorem dedup_nodup (l : List Nat) : (dedup l).Nodup := by
  induction l with
  | nil => simp [dedup]
  | cons y ys ih =>
    simp only [dedup, List.nodup_cons, List.mem_filter]
    refine ⟨?_, ih.filter _⟩
    rintro ⟨_, h⟩
    simp at h


/-! ## the sort-key comparator is a lawful comparison -/

section Cmp
variable {α : Type}

/-- laws of a three-way comparison inducing a strict weak order -/
structure CmpLaws (c : α → α → Ordering) : Prop where
  refl : ∀ a, c a a = .eq
  swap : ∀ a b, c b a = (c a b).swap
  lt_lt : ∀ x y z, c x y = .lt → c y z = .lt → c x z = .lt
  eq_lt : ∀ x y z, c x y = .eq → c y z = .lt → c x z = .lt
  lt_eq : ∀ x y z, c x y = .lt → c y z = .eq → c x z = .lt
  eq_eq : ∀ x y z, c x y = .eq → c y z = .eq → c x z = .eq

/-- strict weak order as a Boolean relation -/
structure LtLaws (lt : α → α → Bool) : Prop where
  irrefl : ∀ a, lt a a = false
  trans : ∀ a b c, lt a b = true → lt b c = true → lt a c = true
  neg_trans : ∀ a b c, lt a b = false → lt b c = false → lt a c = false

def ofLt (lt : α → α → Bool) (a b : α) : Ordering :=
  if lt a b then .lt else if lt b a then .gt else .eq

theorem ofLt_lt {lt : α → α → Bool} {a b : α} : ofLt lt a b = .lt ↔ lt a b = true := by
  unfold ofLt; cases lt a b <;> cases lt b a <;> simp

theorem ofLt_eq {lt : α → α → Bool} {a b : α} : ofLt lt a b = .eq ↔ lt a b = false ∧ lt b a = false := by
  unfold ofLt; cases lt a b <;> cases lt b a <;> simp

theorem ofLt_laws {lt : α → α → Bool} (h : LtLaws lt) : CmpLaws (ofLt lt) where
  refl a := by simp [ofLt, h.irrefl]
  swap a b := by
    have hasym : lt a b = true → lt b a = true → False := by
      intro h1 h2
      have := h.trans a b a h1 h2
      rw [h.irrefl] at this; exact absurd this (by simp)
    unfold ofLt
    cases hab : lt a b <;> cases hba : lt b a <;> simp [Ordering.swap]
    exact hasym hab hba
  lt_lt x y z := by
    simp only [ofLt_lt]; exact h.trans x y z
  eq_lt x y z := by
    simp only [ofLt_lt, ofLt_eq]
    rintro ⟨_, hyx⟩ hyz
    cases hxz : lt x z with
    | true => rfl
    | false =>
      have := h.neg_trans y x z hyx hxz
      rw [hyz] at this; exact absurd this (by simp)
  lt_eq x y z := by
    simp only [ofLt_lt, ofLt_eq]
    rintro hxy ⟨_, hzy⟩
    cases hxz : lt x z with
    | true => rfl
    | false =>
      have := h.neg_trans x z y hxz hzy
      rw [hxy] at this; exact absurd this (by simp)
  eq_eq x y z := by
    simp only [ofLt_eq]
    rintro ⟨h1, h2⟩ ⟨h3, h4⟩
    exact ⟨h.neg_trans x y z h1 h3, h.neg_trans z y x h4 h2⟩

theorem CmpLaws.onKey {β : Type} {c : β → β → Ordering} (h : CmpLaws c) (k : α → β) :
    CmpLaws (fun a b => c (k a) (k b)) where
  refl _ := h.refl _
  swap _ _ := h.swap _ _
  lt_lt _ _ _ := h.lt_lt _ _ _
  eq_lt _ _ _ := h.eq_lt _ _ _
  lt_eq _ _ _ := h.lt_eq _ _ _
  eq_eq _ _ _ := h.eq_eq _ _ _

theorem CmpLaws.rev {c : α → α → Ordering} (h : CmpLaws c) : CmpLaws (fun a b => c b a) where
  refl a := h.refl a
  swap a b := h.swap b a
  lt_lt x y z h1 h2 := h.lt_lt z y x h2 h1
  eq_lt x y z h1 h2 := h.lt_eq z y x h2 h1
  lt_eq x y z h1 h2 := h.eq_lt z y x h2 h1
  eq_eq x y z h1 h2 := h.eq_eq z y x h2 h1

theorem flip_true (o : Ordering) : flip true o = o.swap := by cases o <;> rfl
theorem flip_false (o : Ordering) : flip false o = o := rfl

theorem CmpLaws.flip {c : α → α → Ordering} (h : CmpLaws c) (desc : Bool) :
    CmpLaws (fun a b => SL.Post.flip desc (c a b)) := by
  cases desc
  · simpa [flip_false] using h
  · have : (fun a b => SL.Post.flip true (c a b)) = (fun a b => c b a) := by
      funext a b; rw [flip_true]; exact (h.swap a b).symm
    rw [this]; exact h.rev

def optCmp {β : Type} (c : β → β → Ordering) : Option β → Option β → Ordering
  | none, none => .eq
  | none, some _ => .gt
  | some _, none => .lt
  | some a, some b => c a b

theorem optCmp_laws {β : Type} {c : β → β → Ordering} (h : CmpLaws c) : CmpLaws (optCmp c) where
  refl a := by cases a <;> simp [optCmp, h.refl]
  swap a b := by
    cases a <;> cases b <;> first | rfl | exact h.swap _ _
  lt_lt x y z := by
    cases x <;> cases y <;> cases z <;> simp [optCmp]
    exact h.lt_lt _ _ _
  eq_lt x y z := by
    cases x <;> cases y <;> cases z <;> simp [optCmp]
    exact h.eq_lt _ _ _
  lt_eq x y z := by
    cases x <;> cases y <;> cases z <;> simp [optCmp]
    exact h.lt_eq _ _ _
  eq_eq x y z := by
    cases x <;> cases y <;> cases z <;> simp [optCmp]
    exact h.eq_eq _ _ _

def lex (c1 c2 : α → α → Ordering) (a b : α) : Ordering :=
  match c1 a b with
  | .eq => c2 a b
  | o => o

theorem lex_lt {c1 c2 : α → α → Ordering} {a b : α} :
    lex c1 c2 a b = .lt ↔ c1 a b = .lt ∨ (c1 a b = .eq ∧ c2 a b = .lt) := by
  unfold lex; cases h : c1 a b <;> simp

theorem lex_eq {c1 c2 : α → α → Ordering} {a b : α} :
    lex c1 c2 a b = .eq ↔ c1 a b = .eq ∧ c2 a b = .eq := by
  unfold lex; cases h : c1 a b <;> simp

theorem lex_laws {c1 c2 : α → α → Ordering} (h1 : CmpLaws c1) (h2 : CmpLaws c2) : CmpLaws (lex c1 c2) where
  refl a := by simp [lex, h1.refl, h2.refl]
  swap a b := by
    unfold lex
    rw [h1.swap a b, h2.swap a b]
    cases c1 a b <;> simp [Ordering.swap]
  lt_lt x y z := by
    simp only [lex_lt]
    rintro (h | ⟨h, h'⟩) (k | ⟨k, k'⟩)
    · exact Or.inl (h1.lt_lt _ _ _ h k)
    · exact Or.inl (h1.lt_eq _ _ _ h k)
    · exact Or.inl (h1.eq_lt _ _ _ h k)
    · exact Or.inr ⟨h1.eq_eq _ _ _ h k, h2.lt_lt _ _ _ h' k'⟩
  eq_lt x y z := by
    simp only [lex_lt, lex_eq]
    rintro ⟨h, h'⟩ (k | ⟨k, k'⟩)
    · exact Or.inl (h1.eq_lt _ _ _ h k)
    · exact Or.inr ⟨h1.eq_eq _ _ _ h k, h2.eq_lt _ _ _ h' k'⟩
  lt_eq x y z := by
    simp only [lex_lt, lex_eq]
    rintro (h | ⟨h, h'⟩) ⟨k, k'⟩
    · exact Or.inl (h1.lt_eq _ _ _ h k)
    · exact Or.inr ⟨h1.eq_eq _ _ _ h k, h2.lt_eq _ _ _ h' k'⟩
  eq_eq x y z := by
    simp only [lex_eq]
    rintro ⟨h, h'⟩ ⟨k, k'⟩
    exact ⟨h1.eq_eq _ _ _ h k, h2.eq_eq _ _ _ h' k'⟩

end Cmp

/-- what the theorems assume of the score order (`f32::total_cmp` satisfies it: it is a total
order on bit patterns) -/
structure LawfulOps {S : Type} (o : ScoreOps S) : Prop where
  irrefl : ∀ a, o.lt a a = false
  trans : ∀ a b c, o.lt a b = true → o.lt b c = true → o.lt a c = true
  total : ∀ a b, o.lt a b = false → o.lt b a = false → a = b

theorem LawfulOps.ltLaws {S : Type} {o : ScoreOps S} (h : LawfulOps o) : LtLaws o.lt where
  irrefl := h.irrefl
  trans := h.trans
  neg_trans a b c hab hbc := by
    cases hac : o.lt a c with
    | false => rfl
    | true =>
      -- a < c, ¬ a < b, ¬ b < c: compare b with a and c
      cases hba : o.lt b a with
      | false =>
        have := h.total a b hab hba; subst this
        rw [hac] at hbc; exact absurd hbc (by simp)
      | true =>
        have := h.trans b a c hba hac
        rw [this] at hbc; exact absurd hbc (by simp)

theorem intOps_lawful : LawfulOps intOps where
  irrefl a := by simp [intOps]
  trans a b c := by simp only [intOps, decide_eq_true_eq]; omega
  total a b := by simp only [intOps, decide_eq_false_iff_not]; omega

theorem intLt_laws : LtLaws (fun a b : Int => decide (a < b)) where
  irrefl a := by simp
  trans a b c := by simp only [decide_eq_true_eq]; omega
  neg_trans a b c := by simp only [decide_eq_false_iff_not]; omega

theorem natLt_laws : LtLaws (fun a b : Nat => decide (a < b)) where
  irrefl a := by simp
  trans a b c := by simp only [decide_eq_true_eq]; omega
  neg_trans a b c := by simp only [decide_eq_false_iff_not]; omega

section Klt
variable {S : Type} {o : ScoreOps S}

theorem cmpS_eq (desc : Bool) (a b : S) : cmpS o desc a b = flip desc (ofLt o.lt a b) := rfl

theorem cmpI_eq (desc : Bool) (a b : Int) :
    cmpI desc a b = flip desc (ofLt (fun a b : Int => decide (a < b)) a b) := by
  unfold cmpI ofLt
  by_cases h1 : a < b <;> by_cases h2 : b < a <;> simp [h1, h2]

theorem cmpN_eq (a b : Nat) : cmpN a b = ofLt (fun a b : Nat => decide (a < b)) a b := by
  unfold cmpN ofLt
  by_cases h1 : a < b <;> by_cases h2 : b < a <;> simp [h1, h2]

theorem cmpOpt_eq (desc : Bool) (a b : Option Int) : cmpOpt desc a b = optCmp (cmpI desc) a b := by
  cases a <;> cases b <;> rfl

theorem partCmp_laws (h : LawfulOps o) (sp : SortSpec) : CmpLaws (partCmp o sp) := by
  unfold partCmp
  cases hf : sp.field with
  | score =>
    simp only [cmpS_eq]
    exact ((ofLt_laws h.ltLaws).flip sp.desc).onKey (fun a : Hit S => a.score)
  | fld i =>
    simp only [cmpOpt_eq]
    have hI : CmpLaws (cmpI sp.desc) := by
      have e : cmpI sp.desc = fun a b => flip sp.desc (ofLt (fun a b : Int => decide (a < b)) a b) := by
        funext a b; exact cmpI_eq _ _ _
      rw [e]; exact (ofLt_laws intLt_laws).flip sp.desc
    exact (optCmp_laws hI).onKey (fun a : Hit S => a.flds.getD i none)

theorem idCmp_laws : CmpLaws (fun a b : Hit S => match cmpN a.seg b.seg with | .eq => cmpN a.doc b.doc | r => r) := by
  have h1 : CmpLaws (fun a b : Hit S => cmpN a.seg b.seg) := by
    have := (ofLt_laws natLt_laws).onKey (fun a : Hit S => a.seg)
    simpa [cmpN_eq] using this
  have h2 : CmpLaws (fun a b : Hit S => cmpN a.doc b.doc) := by
    have := (ofLt_laws natLt_laws).onKey (fun a : Hit S => a.doc)
    simpa [cmpN_eq] using this
  exact lex_laws h1 h2

theorem planCmp_laws (h : LawfulOps o) (p : Plan) : CmpLaws (planCmp o p) := by
  induction p with
  | nil => exact idCmp_laws
  | cons sp r ih => exact lex_laws (partCmp_laws h sp) ih

theorem planCmp_eq_id {p : Plan} {a b : Hit S} (h : planCmp o p a b = .eq) : a.id = b.id := by
  induction p with
  | nil =>
    have h' : lex (fun a b : Hit S => cmpN a.seg b.seg) (fun a b : Hit S => cmpN a.doc b.doc) a b = .eq := h
    rw [lex_eq, cmpN_eq, cmpN_eq, ofLt_eq, ofLt_eq] at h'
    simp only [decide_eq_false_iff_not] at h'
    unfold Hit.id
    have h1 : a.seg = b.seg := by omega
    have h2 : a.doc = b.doc := by omega
    rw [h1, h2]
  | cons sp r ih =>
    have h' : lex (partCmp o sp) (planCmp o r) a b = .eq := h
    rw [lex_eq] at h'
    exact ih h'.2

theorem klt_strictOrd (h : LawfulOps o) (p : Plan) : StrictOrd (klt o p) where
  irrefl a := by simp [klt, (planCmp_laws h p).refl]
  trans a b c := by
    simp only [klt, beq_iff_eq]
    exact (planCmp_laws h p).lt_lt a b c

theorem nodup_map_inj {α β : Type} {f : α → β} {l : List α} (hn : (l.map f).Nodup) {a b : α}
    (ha : a ∈ l) (hb : b ∈ l) (hab : f a = f b) : a = b := by
  induction l with
  | nil => cases ha
  | cons x xs ih =>
    rw [List.map_cons, List.nodup_cons] at hn
    rcases List.mem_cons.mp ha with rfl | ha' <;> rcases List.mem_cons.mp hb with rfl | hb'
    · rfl
    · exact absurd (List.mem_map.mpr ⟨b, hb', hab.symm⟩) hn.1
    · exact absurd (List.mem_map.mpr ⟨a, ha', hab⟩) hn.1
    · exact ih hn.2 ha' hb'

/-- on hits with pairwise distinct `(seg, doc)` the key order is total -/
theorem klt_totalOn (h : LawfulOps o) (p : Plan) {l : List (Hit S)} (hn : (l.map Hit.id).Nodup) :
    TotalOn (klt o p) l := by
  intro a ha b hb hab
  have hL := planCmp_laws h p
  simp only [klt, beq_iff_eq]
  cases hc : planCmp o p a b with
  | lt => exact Or.inl rfl
  | eq => exact absurd (nodup_map_inj hn ha hb (planCmp_eq_id hc)) hab
  | gt =>
    right
    rw [hL.swap a b, hc]; rfl

end Klt


/-! ## structure of `collapse` -/

section Collapse
variable {S : Type} (lt ilt : Hit S → Hit S → Bool) (cfg : Option InnerCfg) (same : Bool)

theorem mem_members {g : Nat} {h : Hit S} {hits : List (Hit S)} :
    h ∈ members g hits ↔ h ∈ hits ∧ h.grp = some g := by
  simp [members, List.mem_filter]

/-- what `collapse` does for one group value -/
def grpRep (hits : List (Hit S)) (g : Nat) : Option (Hit S × List (Hit S)) :=
  match isort lt (members g hits) with
  | [] => none
  | top :: rest => some (top, innerOf ilt cfg same rest)

theorem collapse_eq (hits : List (Hit S)) :
    collapse lt ilt cfg same hits = (dedup (hits.filterMap (·.grp))).filterMap (grpRep lt ilt cfg same hits) := rfl

theorem grpRep_some {hits : List (Hit S)} {g : Nat} {p : Hit S × List (Hit S)}
    (h : grpRep lt ilt cfg same hits g = some p) :
    ∃ rest, isort lt (members g hits) = p.1 :: rest ∧ p.2 = innerOf ilt cfg same rest := by
  unfold grpRep at h
  split at h
  · cases h
  · rename_i top rest heq
    cases h
    exact ⟨rest, heq, rfl⟩

theorem grpRep_isSome {hits : List (Hit S)} {g : Nat} (hg : g ∈ hits.filterMap (·.grp)) :
    ∃ p, grpRep lt ilt cfg same hits g = some p := by
  obtain ⟨h, hh, hgr⟩ := List.mem_filterMap.mp hg
  have hm : h ∈ isort lt (members g hits) := mem_isort.mpr (mem_members.mpr ⟨hh, hgr⟩)
  unfold grpRep
  cases hs : isort lt (members g hits) with
  | nil => rw [hs] at hm; cases hm
  | cons top rest => exact ⟨_, rfl⟩

theorem grpRep_grp {hits : List (Hit S)} {g : Nat} {p : Hit S × List (Hit S)}
    (h : grpRep lt ilt cfg same hits g = some p) : p.1 ∈ hits ∧ p.1.grp = some g := by
  obtain ⟨rest, hs, _⟩ := grpRep_some lt ilt cfg same h
  have : p.1 ∈ isort lt (members g hits) := by rw [hs]; simp
  exact mem_members.mp (mem_isort.mp this)

theorem mem_collapse {hits : List (Hit S)} {p : Hit S × List (Hit S)}
    (h : p ∈ collapse lt ilt cfg same hits) :
    ∃ g, g ∈ hits.filterMap (·.grp) ∧ grpRep lt ilt cfg same hits g = some p := by
  rw [collapse_eq] at h
  obtain ⟨g, hg, hp⟩ := List.mem_filterMap.mp h
  exact ⟨g, mem_dedup.mp hg, hp⟩

/-- one output per group value, in first-occurrence order -/
theorem collapse_keys (hits : List (Hit S)) :
    (collapse lt ilt cfg same hits).map (fun p => p.1.grp) = (dedup (hits.filterMap (·.grp))).map some := by
  rw [collapse_eq]
  have key : ∀ L : List Nat, (∀ g ∈ L, g ∈ hits.filterMap (·.grp)) →
      (L.filterMap (grpRep lt ilt cfg same hits)).map (fun p => p.1.grp) = L.map some := by
    intro L
    induction L with
    | nil => intro _; rfl
    | cons g gs ih =>
      intro hL
      obtain ⟨p, hp⟩ := grpRep_isSome lt ilt cfg same (hL g (by simp))
      have hg := (grpRep_grp lt ilt cfg same hp).2
      simp only [List.filterMap_cons, hp, List.map_cons, hg]
      rw [ih (fun g' hg' => hL g' (by simp [hg']))]
  exact key _ (fun g hg => mem_dedup.mp hg)

/-- the elements an inner-hit window is cut from -/
def window {α : Type} (c : InnerCfg) (L : List α) : List α :=
  match c.size with
  | none => L.drop c.from_
  | some n => (L.drop c.from_).take n

theorem window_sublist {α : Type} (c : InnerCfg) (L : List α) : (window c L).Sublist L := by
  unfold window
  split
  · exact List.drop_sublist _ _
  · exact (List.take_sublist _ _).trans (List.drop_sublist _ _)

/-- representatives of a *sorted* hit list: the first member of each group -/
def repsOf (hits : List (Hit S)) : List (Hit S) :=
  (dedup (hits.filterMap (·.grp))).filterMap (fun g => (members g hits).head?)

theorem mem_repsOf {hits : List (Hit S)} {x : Hit S} (hx : x ∈ repsOf hits) : x ∈ hits := by
  obtain ⟨g, _, hg⟩ := List.mem_filterMap.mp hx
  have : x ∈ members g hits := List.mem_of_mem_head? hg
  exact (mem_members.mp this).1

theorem repsOf_sorted {hits : List (Hit S)} (hs : Sorted lt hits) : Sorted lt (repsOf hits) := by
  induction hits with
  | nil => simp [repsOf, dedup, Sorted]
  | cons h t ih =>
    have hst : Sorted lt t := (List.pairwise_cons.mp hs).2
    have hht : ∀ x ∈ t, lt x h = false := (List.pairwise_cons.mp hs).1
    cases hg : h.grp with
    | none =>
      have e : repsOf (h :: t) = repsOf t := by
        unfold repsOf
        simp only [List.filterMap_cons, hg]
        apply filterMap_congr'
        intro g _
        simp [members, List.filter_cons, hg]
      rw [e]; exact ih hst
    | some g0 =>
      have e : repsOf (h :: t) =
          h :: ((dedup (t.filterMap (·.grp))).filter (fun y => y != g0)).filterMap (fun g => (members g t).head?) := by
        unfold repsOf
        simp only [List.filterMap_cons, hg, dedup]
        have h0 : (members g0 (h :: t)).head? = some h := by simp [members, List.filter_cons, hg]
        simp only [h0]
        congr 1
        apply filterMap_congr'
        intro g hgm
        have hne : g ≠ g0 := by
          have := (List.mem_filter.mp hgm).2
          simpa using this
        have : (some g0 == some g) = false := by simp [Ne.symm hne]
        simp [members, List.filter_cons, hg, this]
      rw [e]
      have hsub : (((dedup (t.filterMap (·.grp))).filter (fun y => y != g0)).filterMap
          (fun g => (members g t).head?)).Sublist (repsOf t) :=
        List.Sublist.filterMap _ (List.filter_sublist)
      unfold Sorted
      rw [List.pairwise_cons]
      refine ⟨?_, (ih hst).sublist hsub⟩
      intro x hx
      exact hht x (mem_repsOf (hsub.subset hx))

theorem collapse_reps_eq {hits : List (Hit S)} (hs : Sorted lt hits) (ht : TotalOn lt hits) :
    (collapse lt ilt cfg same hits).map (·.1) = repsOf hits := by
  rw [collapse_eq, List.map_filterMap]
  unfold repsOf
  apply filterMap_congr'
  intro g _
  have hm : isort lt (members g hits) = members g hits :=
    isort_of_sorted _ (hs.sublist List.filter_sublist)
      (ht.mono (fun x hx => (mem_members.mp hx).1))
  unfold grpRep
  rw [hm]
  cases members g hits <;> rfl

end Collapse


/-! ## membership of inner hits -/

section InnerMem
variable {S : Type} (lt ilt : Hit S → Hit S → Bool) (cfg : Option InnerCfg) (same : Bool)

theorem mem_innerOf {rest : List (Hit S)} {x : Hit S} (h : x ∈ innerOf ilt cfg same rest) : x ∈ rest := by
  unfold innerOf at h
  cases cfg with
  | none => simp at h
  | some c =>
    simp only at h
    have hl : ∀ y, y ∈ (if same = true then rest else isort ilt rest) → y ∈ rest := by
      intro y hy
      split at hy
      · exact hy
      · exact mem_isort.mp hy
    cases hsz : c.size with
    | none =>
      rw [hsz] at h
      exact hl x (List.mem_of_mem_drop h)
    | some n =>
      rw [hsz] at h
      exact hl x (List.mem_of_mem_drop (List.mem_of_mem_take h))

theorem collapse_inner_mem {hits : List (Hit S)} {p : Hit S × List (Hit S)}
    (h : p ∈ collapse lt ilt cfg same hits) : ∀ i ∈ p.2, i ∈ hits := by
  obtain ⟨g, _, hg⟩ := mem_collapse lt ilt cfg same h
  obtain ⟨rest, hs, hin⟩ := grpRep_some lt ilt cfg same hg
  intro i hi
  rw [hin] at hi
  have h1 : i ∈ rest := mem_innerOf ilt cfg same hi
  have h2 : i ∈ isort lt (members g hits) := by rw [hs]; exact List.mem_cons_of_mem _ h1
  exact (mem_members.mp (mem_isort.mp h2)).1

end InnerMem

/-! ## the pipeline does not look at explanations (`stripHit` commutes with every stage) -/

section Strip
variable {S : Type} (o : ScoreOps S)

theorem planCmp_congr (p : Plan) {a a' b b' : Hit S}
    (ha : a'.score = a.score ∧ a'.flds = a.flds ∧ a'.seg = a.seg ∧ a'.doc = a.doc)
    (hb : b'.score = b.score ∧ b'.flds = b.flds ∧ b'.seg = b.seg ∧ b'.doc = b.doc) :
    planCmp o p a' b' = planCmp o p a b := by
  obtain ⟨a1, a2, a3, a4⟩ := ha
  obtain ⟨b1, b2, b3, b4⟩ := hb
  induction p with
  | nil => simp only [planCmp, a3, a4, b3, b4]
  | cons sp r ih => simp only [planCmp, partCmp, a1, a2, b1, b2, ih]

theorem klt_strip (p : Plan) (a b : Hit S) : klt o p (stripHit a) (stripHit b) = klt o p a b := by
  unfold klt
  rw [planCmp_congr o p (a := a) (a' := stripHit a) (b := b) (b' := stripHit b)
    ⟨rfl, rfl, rfl, rfl⟩ ⟨rfl, rfl, rfl, rfl⟩]

theorem isort_strip (p : Plan) (l : List (Hit S)) :
    isort (klt o p) (l.map stripHit) = (isort (klt o p) l).map stripHit :=
  isort_map stripHit (klt o p) (klt_strip o p) l

theorem applyResc_strip (mode : Mode) (e : Bool) (h : Hit S) :
    (applyResc o mode e h).map stripHit = applyResc o mode false (stripHit h) := by
  unfold applyResc
  cases hr : h.resc with
  | noMatch => simp [stripHit, hr]
  | rejected => simp [stripHit, hr]
  | val r => cases e <;> simp [stripHit, hr]

theorem filterMap_applyResc_strip (mode : Mode) (e : Bool) (l : List (Hit S)) :
    (l.filterMap (applyResc o mode e)).map stripHit = (l.map stripHit).filterMap (applyResc o mode false) := by
  rw [List.map_filterMap, List.filterMap_map]
  apply filterMap_congr'
  intro h _
  simp [Function.comp, applyResc_strip]

theorem rescoreSpec_strip (p : Plan) (mode : Mode) (e : Bool) (w : Nat) (l : List (Hit S)) :
    (rescoreSpec o (klt o p) mode e w l).map stripHit = rescoreSpec o (klt o p) mode false w (l.map stripHit) := by
  unfold rescoreSpec
  rw [List.map_append, ← isort_strip, filterMap_applyResc_strip, List.map_take, List.map_drop]

/-- since /repo 87dca91 the code's rescoring step *is* the statement's: surviving window hits
sorted, everything behind the window appended untouched -/
theorem rescore_eq_spec (lt : Hit S → Hit S → Bool) (mode : Mode) (e : Bool) (w : Nat) (l : List (Hit S)) :
    rescore o lt mode e w l = rescoreSpec o lt mode e w l := by
  unfold rescore rescoreSpec
  split
  · rename_i h0
    rcases Nat.eq_zero_or_pos w with hw | hw
    · subst hw; simp [isort]
    · have : l.length = 0 := by omega
      have : l = [] := List.eq_nil_of_length_eq_zero this
      subst this; simp [isort]
  · simp only
    rw [List.take_left' rfl, List.drop_left' rfl]

theorem rescore_strip (p : Plan) (mode : Mode) (e : Bool) (w : Nat) (l : List (Hit S)) :
    (rescore o (klt o p) mode e w l).map stripHit = rescore o (klt o p) mode false w (l.map stripHit) := by
  rw [rescore_eq_spec, rescore_eq_spec, rescoreSpec_strip]

theorem strip_setFinal (h : Hit S) : stripHit (setFinal h) = stripHit h := rfl

/-- `stripHit` on a group: representative and inner hits -/
def stripPair (p : Hit S × List (Hit S)) : Hit S × List (Hit S) := (stripHit p.1, p.2.map stripHit)

theorem members_strip (g : Nat) (l : List (Hit S)) :
    members g (l.map stripHit) = (members g l).map stripHit := by
  unfold members
  rw [List.filter_map]
  rfl

theorem innerOf_strip (ip : Plan) (cfg : Option InnerCfg) (same : Bool) (rest : List (Hit S)) :
    innerOf (klt o ip) cfg same (rest.map stripHit) = (innerOf (klt o ip) cfg same rest).map stripHit := by
  unfold innerOf
  cases cfg with
  | none => rfl
  | some c =>
    simp only
    have hl : (if same = true then rest.map stripHit else isort (klt o ip) (rest.map stripHit)) =
        (if same = true then rest else isort (klt o ip) rest).map stripHit := by
      split
      · rfl
      · exact isort_strip o ip rest
    rw [hl]
    cases c.size with
    | none => simp only; rw [List.map_drop]
    | some n => simp only; rw [List.map_take, List.map_drop]

theorem grpRep_strip (p ip : Plan) (cfg : Option InnerCfg) (same : Bool) (l : List (Hit S)) (g : Nat) :
    grpRep (klt o p) (klt o ip) cfg same (l.map stripHit) g =
      (grpRep (klt o p) (klt o ip) cfg same l g).map stripPair := by
  unfold grpRep
  rw [members_strip, isort_strip]
  cases isort (klt o p) (members g l) with
  | nil => rfl
  | cons top rest =>
    simp only [List.map_cons, Option.map_some, stripPair]
    rw [innerOf_strip]

theorem collapse_strip (p ip : Plan) (cfg : Option InnerCfg) (same : Bool) (l : List (Hit S)) :
    collapse (klt o p) (klt o ip) cfg same (l.map stripHit) =
      (collapse (klt o p) (klt o ip) cfg same l).map stripPair := by
  rw [collapse_eq, collapse_eq, List.map_filterMap]
  have hk : (l.map stripHit).filterMap (·.grp) = l.filterMap (·.grp) := by
    rw [List.filterMap_map]; rfl
  rw [hk]
  apply filterMap_congr'
  intro g _
  exact grpRep_strip o p ip cfg same l g

end Strip


/-! ## score mode -/

theorem scoresComputed_true {S : Type} (r : Req S) : scoresComputed r = true := by
  unfold scoresComputed
  cases r.returnHits <;> simp

theorem seen_eq_id {S : Type} (o : ScoreOps S) (r : Req S) : seen o r = id := by
  funext h; simp [seen, scoresComputed_true]

theorem map_seen {S : Type} (o : ScoreOps S) (r : Req S) (l : List (Hit S)) : l.map (seen o r) = l := by
  rw [seen_eq_id, List.map_id]


/-- the fetch depth exceeds the page size -/
theorem limit_lt_topKOf {S : Type} (r : Req S) (hret : r.returnHits = true) (hlim : r.limit ≤ maxCandidate) :
    r.limit < topKOf r := by
  unfold topKOf
  rw [if_pos hret]
  have : r.limit ≤ min (max (max (r.cand.getD r.limit) r.limit) (windowOf r)) maxCandidate := by
    apply Nat.le_min.mpr
    exact ⟨Nat.le_trans (Nat.le_max_right _ _) (Nat.le_max_left _ _), hlim⟩
  omega

end SL.Post
