import SLModel.Core.Query
import SLModel.Lemmas.Lev
/-!
# Lemmas/Query — helper lemmas for C07 (core Lean only)
-/
namespace SL.Query

/-! ## list utilities -/

theorem mem_dedup {α : Type} [DecidableEq α] {a : α} : ∀ {l : List α}, a ∈ dedup l ↔ a ∈ l
  | [] => by simp [dedup]
  | x :: xs => by
    have ih := @mem_dedup α _ a xs
    by_cases h : a = x
    · subst h; simp [dedup]
    · simp [dedup, List.mem_filter, ih, h]

theorem any_dedup {α : Type} [DecidableEq α] (l : List α) (p : α → Bool) :
    (dedup l).any p = l.any p := by
  rw [Bool.eq_iff_iff, List.any_eq_true, List.any_eq_true]
  constructor
  · rintro ⟨x, hx, hp⟩; exact ⟨x, mem_dedup.mp hx, hp⟩
  · rintro ⟨x, hx, hp⟩; exact ⟨x, mem_dedup.mpr hx, hp⟩

theorem mem_insertS {a x : Str} : ∀ {l : List Str}, a ∈ insertS x l ↔ a = x ∨ a ∈ l
  | [] => by simp [insertS]
  | y :: ys => by
    have ih := @mem_insertS a x ys
    unfold insertS
    split
    · rename_i h; subst h; simp
    · split
      · simp
      · simp only [List.mem_cons, ih]
        constructor
        · rintro (h | h | h)
          · exact Or.inr (Or.inl h)
          · exact Or.inl h
          · exact Or.inr (Or.inr h)
        · rintro (h | h | h)
          · exact Or.inr (Or.inl h)
          · exact Or.inl h
          · exact Or.inr (Or.inr h)

theorem mem_sortS {a : Str} : ∀ {l : List Str}, a ∈ sortS l ↔ a ∈ l
  | [] => by simp [sortS]
  | x :: xs => by
    have ih := @mem_sortS a xs
    unfold sortS at ih ⊢
    simp only [List.foldr_cons, mem_insertS, ih, List.mem_cons]

theorem mem_insertN {a x : Nat} : ∀ {l : List Nat}, a ∈ insertN x l ↔ a = x ∨ a ∈ l
  | [] => by simp [insertN]
  | y :: ys => by
    have ih := @mem_insertN a x ys
    unfold insertN
    split
    · rename_i h; subst h; simp
    · split
      · simp
      · simp only [List.mem_cons, ih]
        constructor
        · rintro (h | h | h)
          · exact Or.inr (Or.inl h)
          · exact Or.inl h
          · exact Or.inr (Or.inr h)
        · rintro (h | h | h)
          · exact Or.inr (Or.inl h)
          · exact Or.inl h
          · exact Or.inr (Or.inr h)

theorem mem_sortN {a : Nat} : ∀ {l : List Nat}, a ∈ sortN l ↔ a ∈ l
  | [] => by simp [sortN]
  | x :: xs => by
    have ih := @mem_sortN a xs
    unfold sortN at ih ⊢
    simp only [List.foldr_cons, mem_insertN, ih, List.mem_cons]

theorem insertN_sorted (x : Nat) : ∀ (l : List Nat), l.Pairwise (· < ·) → (insertN x l).Pairwise (· < ·)
  | [], _ => by simp [insertN]
  | y :: ys, h => by
    have hy := (List.pairwise_cons.mp h)
    unfold insertN
    split
    · exact h
    · rename_i hne
      split
      · rename_i hlt
        refine List.pairwise_cons.mpr ⟨?_, h⟩
        intro z hz
        rcases List.mem_cons.mp hz with rfl | hz
        · exact hlt
        · exact Nat.lt_trans hlt (hy.1 z hz)
      · rename_i hnlt
        refine List.pairwise_cons.mpr ⟨?_, insertN_sorted x ys hy.2⟩
        intro z hz
        rcases mem_insertN.mp hz with rfl | hz
        · omega
        · exact hy.1 z hz

theorem sortN_sorted : ∀ (l : List Nat), (sortN l).Pairwise (· < ·)
  | [] => by simp [sortN]
  | x :: xs => by
    have ih := sortN_sorted xs
    unfold sortN at ih ⊢
    simpa using insertN_sorted x _ ih

theorem sortN_isEmpty (l : List Nat) : (sortN l).isEmpty = l.isEmpty := by
  cases l with
  | nil => rfl
  | cons x xs =>
    have : x ∈ sortN (x :: xs) := mem_sortN.mpr (by simp)
    cases h : sortN (x :: xs) with
    | nil => rw [h] at this; simp at this
    | cons _ _ => rfl

/-! ## postings and dictionaries -/

theorem mem_postings {s : Seg} {f t : Str} {o : Nat} :
    o ∈ postings s f t ↔ ∃ d, s.docs[o]? = some d ∧ hasKey d f t = true := by
  unfold postings
  rw [List.mem_filter, List.mem_range]
  constructor
  · rintro ⟨_, h⟩
    cases hd : s.docs[o]? with
    | none => simp [hd] at h
    | some d => exact ⟨d, rfl, by simpa [hd] using h⟩
  · rintro ⟨d, hd, hk⟩
    refine ⟨?_, by simp [hd, hk]⟩
    have := List.getElem?_eq_some_iff.mp hd
    exact this.1

theorem postings_contains {s : Seg} {f t : Str} {o : Nat} {d : ADoc} (hd : s.docs[o]? = some d) :
    (postings s f t).contains o = hasKey d f t := by
  rw [Bool.eq_iff_iff, List.contains_iff_mem, mem_postings]
  constructor
  · rintro ⟨d', hd', hk⟩
    rw [hd] at hd'; cases hd'; exact hk
  · intro hk; exact ⟨d, hd, hk⟩

theorem mem_segTerms {s : Seg} {f t : Str} :
    t ∈ segTerms s f ↔ ∃ d ∈ s.docs, t ∈ docTerms d f := by
  unfold segTerms
  rw [mem_sortS, List.mem_flatMap]

theorem hasKey_iff {d : ADoc} {f t : Str} : hasKey d f t = true ↔ t ∈ docTerms d f := by
  unfold hasKey; exact List.contains_iff_mem

theorem mem_docs_of_getElem? {s : Seg} {o : Nat} {d : ADoc} (h : s.docs[o]? = some d) : d ∈ s.docs :=
  List.mem_iff_getElem?.mpr ⟨o, h⟩

/-- a term with stored positions is a term of the document -/
theorem mem_docTerms_of_rawPositions {d : ADoc} {f t : Str} (h : rawPositions d f t ≠ []) :
    t ∈ docTerms d f := by
  unfold rawPositions at h
  unfold docTerms
  apply List.mem_append_left
  cases hfl : (textPostings d f).filter (fun p => p.1 == t) with
  | nil => simp [hfl] at h
  | cons p ps =>
    have hp : p ∈ (textPostings d f).filter (fun p => p.1 == t) := by rw [hfl]; simp
    rw [List.mem_filter] at hp
    have : p.1 = t := by simpa using hp.2
    exact List.mem_map.mpr ⟨p, hp.1, this⟩

/-! ## phrase search -/

/-- declarative reading of `phSearch`: a position can be chosen in every remaining slot, each
strictly after the previous one, the gaps using up at most the remaining slop -/
def Chain : List (List Nat) → Nat → Nat → Prop
  | [], _, _ => True
  | ps :: rest, prev, rem =>
    ∃ p ∈ ps, prev < p ∧ p - (prev + 1) ≤ rem ∧ Chain rest p (rem - (p - (prev + 1)))

theorem phScan_iff (k : Nat → Nat → Bool) (prev rem : Nat) :
    ∀ (ps : List Nat), ps.Pairwise (· < ·) →
      (phScan k prev rem ps = true ↔
        ∃ p ∈ ps, prev < p ∧ p - (prev + 1) ≤ rem ∧ k p (rem - (p - (prev + 1))) = true)
  | [], _ => by simp [phScan]
  | p :: more, hs => by
    have hp := List.pairwise_cons.mp hs
    have ih := phScan_iff k prev rem more hp.2
    unfold phScan
    split
    · rename_i hle
      rw [ih]
      constructor
      · rintro ⟨q, hq, h⟩; exact ⟨q, List.mem_cons_of_mem _ hq, h⟩
      · rintro ⟨q, hq, h1, h2⟩
        rcases List.mem_cons.mp hq with rfl | hq
        · omega
        · exact ⟨q, hq, h1, h2⟩
    · rename_i hgt
      split
      · rename_i hgap
        constructor
        · intro h; cases h
        · rintro ⟨q, hq, h1, h2, _⟩
          rcases List.mem_cons.mp hq with rfl | hq
          · omega
          · have := hp.1 q hq; omega
      · rename_i hgap
        rw [Bool.or_eq_true, ih]
        constructor
        · rintro (h | ⟨q, hq, h⟩)
          · exact ⟨p, by simp, by omega, by omega, h⟩
          · exact ⟨q, List.mem_cons_of_mem _ hq, h⟩
        · rintro ⟨q, hq, h1, h2, h3⟩
          rcases List.mem_cons.mp hq with rfl | hq
          · exact Or.inl h3
          · exact Or.inr ⟨q, hq, h1, h2, h3⟩

theorem phSearch_iff : ∀ (slots : List (List Nat)), (∀ ps ∈ slots, ps.Pairwise (· < ·)) →
    ∀ prev rem, (phSearch slots prev rem = true ↔ Chain slots prev rem)
  | [], _, _, _ => by simp [phSearch, Chain]
  | ps :: rest, hs, prev, rem => by
    have ih := phSearch_iff rest (fun x hx => hs x (List.mem_cons_of_mem _ hx))
    unfold phSearch Chain
    rw [phScan_iff _ prev rem ps (hs ps (by simp))]
    constructor
    · rintro ⟨p, hp, h1, h2, h3⟩; exact ⟨p, hp, h1, h2, (ih _ _).mp h3⟩
    · rintro ⟨p, hp, h1, h2, h3⟩; exact ⟨p, hp, h1, h2, (ih _ _).mpr h3⟩

/-- one position per slot -/
inductive Pick : List Nat → List (List Nat) → Prop
  | nil : Pick [] []
  | cons {q : Nat} {ps : List Nat} {qs : List Nat} {rest : List (List Nat)} :
      q ∈ ps → Pick qs rest → Pick (q :: qs) (ps :: rest)

theorem mem_choices : ∀ {slots : List (List Nat)} {qs : List Nat},
    qs ∈ Spec.choices slots ↔ Pick qs slots
  | [], qs => by
    simp only [Spec.choices, List.mem_singleton]
    constructor
    · rintro rfl; exact Pick.nil
    · intro h; cases h; rfl
  | ps :: rest, qs => by
    simp only [Spec.choices, List.mem_flatMap, List.mem_map]
    constructor
    · rintro ⟨p, hp, r, hr, rfl⟩
      exact Pick.cons hp (mem_choices.mp hr)
    · intro h
      cases h with
      | cons hq hrest => exact ⟨_, hq, _, mem_choices.mpr hrest, rfl⟩

/-- `Chain` unfolded into an explicit choice of positions: strictly increasing after `prev`,
gaps (counted from `prev`) at most `rem` -/
theorem chain_iff_pick : ∀ (slots : List (List Nat)) (prev rem : Nat),
    Chain slots prev rem ↔
      ∃ qs, Pick qs slots ∧ Spec.increasing (prev :: qs) = true ∧ Spec.totalGap (prev :: qs) ≤ rem
  | [], prev, rem => by
    simp only [Chain, true_iff]
    exact ⟨[], Pick.nil, by simp [Spec.increasing], by simp [Spec.totalGap]⟩
  | ps :: rest, prev, rem => by
    unfold Chain
    constructor
    · rintro ⟨p, hp, h1, h2, h3⟩
      obtain ⟨qs, hq, hi, hg⟩ := (chain_iff_pick rest p _).mp h3
      refine ⟨p :: qs, Pick.cons hp hq, ?_, ?_⟩
      · simp [Spec.increasing, h1, hi]
      · simp only [Spec.totalGap]; omega
    · rintro ⟨qs, hq, hi, hg⟩
      cases hq with
      | cons hp hrest =>
        rename_i q qs'
        simp only [Spec.increasing, Bool.and_eq_true, decide_eq_true_eq] at hi
        simp only [Spec.totalGap] at hg
        refine ⟨q, hp, hi.1, by omega, ?_⟩
        exact (chain_iff_pick rest q _).mpr ⟨qs', hrest, hi.2, by omega⟩

theorem phraseOccurs_iff (slots : List (List Nat)) (slop : Nat) :
    Spec.phraseOccurs slots slop = true ↔
      ∃ qs, Pick qs slots ∧ Spec.increasing qs = true ∧ Spec.totalGap qs ≤ slop := by
  unfold Spec.phraseOccurs
  rw [List.any_eq_true]
  constructor
  · rintro ⟨qs, hq, h⟩
    simp only [Bool.and_eq_true, decide_eq_true_eq] at h
    exact ⟨qs, mem_choices.mp hq, h.1, h.2⟩
  · rintro ⟨qs, hq, h1, h2⟩
    exact ⟨qs, mem_choices.mpr hq, by simp [h1, h2]⟩

theorem pick_map_sortN : ∀ (slots : List (List Nat)) (qs : List Nat),
    Pick qs (slots.map sortN) ↔ Pick qs slots
  | [], qs => by simp
  | ps :: rest, qs => by
    simp only [List.map_cons]
    constructor
    · intro h
      cases h with
      | cons hm hrest => exact Pick.cons (mem_sortN.mp hm) ((pick_map_sortN rest _).mp hrest)
    · intro h
      cases h with
      | cons hm hrest => exact Pick.cons (mem_sortN.mpr hm) ((pick_map_sortN rest _).mpr hrest)

/-! ## `matches_phrase` against the declarative reading -/

theorem phraseOccurs_map_sortN (P : List (List Nat)) (slop : Nat) :
    Spec.phraseOccurs (P.map sortN) slop = Spec.phraseOccurs P slop := by
  rw [Bool.eq_iff_iff, phraseOccurs_iff, phraseOccurs_iff]
  constructor
  · rintro ⟨qs, hq, h⟩; exact ⟨qs, (pick_map_sortN P qs).mp hq, h⟩
  · rintro ⟨qs, hq, h⟩; exact ⟨qs, (pick_map_sortN P qs).mpr hq, h⟩

/-- `matches_phrase` on sorted position lists = "every term has positions and the phrase occurs
within the slop" -/
theorem phMatch_eq (slots : List (List Nat)) (slop : Nat)
    (hs : ∀ ps ∈ slots, ps.Pairwise (· < ·)) :
    phMatch slots slop = (slots.all (fun ps => !ps.isEmpty) && Spec.phraseOccurs slots slop) := by
  cases slots with
  | nil => simp [phMatch, Spec.phraseOccurs, Spec.choices, Spec.increasing, Spec.totalGap]
  | cons first rest =>
    unfold phMatch
    simp only
    by_cases hany : (first :: rest).any (·.isEmpty) = true
    · rw [if_pos hany]
      have : (first :: rest).all (fun ps => !ps.isEmpty) = false := by
        rw [Bool.eq_false_iff]
        intro hall
        obtain ⟨x, hx, hxe⟩ := List.any_eq_true.mp hany
        have := List.all_eq_true.mp hall x hx
        simp [hxe] at this
      simp [this]
    · rw [if_neg hany]
      have hall : (first :: rest).all (fun ps => !ps.isEmpty) = true := by
        rw [List.all_eq_true]
        intro x hx
        cases hxe : x.isEmpty with
        | false => rfl
        | true => exact absurd (List.any_eq_true.mpr ⟨x, hx, hxe⟩) hany
      rw [hall, Bool.true_and]
      have hfirst : ∃ q, q ∈ first := by
        have := List.all_eq_true.mp hall first (by simp)
        cases first with
        | nil => simp at this
        | cons q _ => exact ⟨q, by simp⟩
      by_cases hrest : rest.isEmpty = true
      · rw [if_pos hrest]
        have : rest = [] := by simpa using hrest
        subst this
        symm
        rw [phraseOccurs_iff]
        obtain ⟨q, hq⟩ := hfirst
        exact ⟨[q], Pick.cons hq Pick.nil, by simp [Spec.increasing], by simp [Spec.totalGap]⟩
      · rw [if_neg hrest]
        rw [Bool.eq_iff_iff, List.any_eq_true, phraseOccurs_iff]
        have hsr : ∀ ps ∈ rest, ps.Pairwise (· < ·) := fun x hx => hs x (List.mem_cons_of_mem _ hx)
        constructor
        · rintro ⟨start, hst, h⟩
          obtain ⟨qs, hq, hi, hg⟩ := (chain_iff_pick rest start slop).mp ((phSearch_iff rest hsr start slop).mp h)
          exact ⟨start :: qs, Pick.cons hst hq, hi, hg⟩
        · rintro ⟨qs, hq, hi, hg⟩
          cases hq with
          | cons hst hrest' =>
            exact ⟨_, hst, (phSearch_iff rest hsr _ slop).mpr ((chain_iff_pick rest _ slop).mpr ⟨_, hrest', hi, hg⟩)⟩

theorem flatMap_rawPositions_nil {d : ADoc} {f : Str} {alts : List Str}
    (h : ∀ t ∈ alts, t ∉ docTerms d f) : alts.flatMap (fun t => rawPositions d f t) = [] := by
  rw [List.flatMap_eq_nil_iff]
  intro t ht
  cases hr : rawPositions d f t with
  | nil => rfl
  | cons a b => exact absurd (mem_docTerms_of_rawPositions (by rw [hr]; simp)) (h t ht)

/-- one (phrase, field) variant: the mechanism over the segment's postings equals the
documented reading on the document -/
theorem phraseVariant_eq {s : Seg} {o : Nat} {d : ADoc} (hd : s.docs[o]? = some d)
    (f : Str) (slots : List (List Str)) (slop : Nat) :
    phraseVariant s o f slots slop =
      (slots.all (fun alts => !(alts.flatMap (fun t => rawPositions d f t)).isEmpty) &&
        Spec.phraseOccurs (slots.map (fun alts => alts.flatMap (fun t => rawPositions d f t))) slop) := by
  unfold phraseVariant
  have hfalse : ∀ alts ∈ slots, (∀ t ∈ alts, t ∉ docTerms d f) →
      (slots.all (fun alts => !(alts.flatMap (fun t => rawPositions d f t)).isEmpty) &&
        Spec.phraseOccurs (slots.map (fun alts => alts.flatMap (fun t => rawPositions d f t))) slop) = false := by
    intro alts ha hnone
    have : slots.all (fun alts => !(alts.flatMap (fun t => rawPositions d f t)).isEmpty) = false := by
      rw [Bool.eq_false_iff]
      intro hall
      have := List.all_eq_true.mp hall alts ha
      rw [flatMap_rawPositions_nil hnone] at this
      simp at this
    simp [this]
  split
  · rename_i h1
    obtain ⟨alts, ha, hall⟩ := List.any_eq_true.mp h1
    symm
    apply hfalse alts ha
    intro t ht hmem
    have := List.all_eq_true.mp hall t ht
    have hin : t ∈ segTerms s f := mem_segTerms.mpr ⟨d, mem_docs_of_getElem? hd, hmem⟩
    simp at this
    exact this hin
  · simp only [hd]
    split
    · rename_i h2
      obtain ⟨alts, ha, hnone⟩ := List.any_eq_true.mp h2
      symm
      apply hfalse alts ha
      intro t ht hmem
      have hk : hasKey d f t = true := hasKey_iff.mpr hmem
      have : alts.any (fun t => (postings s f t).contains o) = true :=
        List.any_eq_true.mpr ⟨t, ht, by rw [postings_contains hd]; exact hk⟩
      rw [this] at hnone
      simp at hnone
    · have hsorted : ∀ ps ∈ slots.map (fun alts => sortN (alts.flatMap (fun t => rawPositions d f t))),
          ps.Pairwise (· < ·) := by
        intro ps hps
        obtain ⟨alts, _, rfl⟩ := List.mem_map.mp hps
        exact sortN_sorted _
      rw [phMatch_eq _ slop hsorted]
      have hmap : slots.map (fun alts => sortN (alts.flatMap (fun t => rawPositions d f t))) =
          (slots.map (fun alts => alts.flatMap (fun t => rawPositions d f t))).map sortN := by
        rw [List.map_map]; rfl
      rw [hmap, phraseOccurs_map_sortN]
      congr 1
      rw [List.all_map, List.all_map]
      apply List.all_congr rfl
      intro alts
      simp [sortN_isEmpty]

theorem phraseMatches_eq (c : Ctx) {s : Seg} {o : Nat} {d : ADoc} (hd : s.docs[o]? = some d)
    (p : PhraseSpec) : phraseMatches c s o p = Spec.phrase c d p := by
  unfold phraseMatches Spec.phrase Spec.phraseField
  apply List.any_congr rfl
  intro f
  cases phraseSlots c f p.terms with
  | none => rfl
  | some slots => exact phraseVariant_eq hd f slots p.slop

/-! ## term groups -/

/-- propositional form of `groupComplete` -/
def GroupOK (c : Ctx) (segs : List Seg) (g : Group) : Prop :=
  ∀ f ∈ g.fields, ∀ s ∈ segs, ∀ t ∈ segTerms s f,
    (t ∈ expandField c segs g f ↔ Spec.termOk c g f t = true)

theorem groupComplete_iff (c : Ctx) (segs : List Seg) (g : Group) :
    groupComplete c segs g = true ↔ GroupOK c segs g := by
  unfold groupComplete GroupOK
  simp only [List.all_eq_true, beq_iff_eq]
  constructor
  · intro h f hf s hs t ht
    have := h f hf s hs t ht
    rw [← List.contains_iff_mem, this]
  · intro h f hf s hs t ht
    have := h f hf s hs t ht
    rw [Bool.eq_iff_iff, List.contains_iff_mem]
    exact this

theorem groupMatches_eq (c : Ctx) {segs : List Seg} {s : Seg} (hs : s ∈ segs) {o : Nat} {d : ADoc}
    (hd : s.docs[o]? = some d) {g : Group} (hok : GroupOK c segs g) :
    groupMatches c segs s o g = Spec.group c d g := by
  unfold groupMatches expandGroup Spec.group
  rw [any_dedup, List.any_flatMap]
  rw [Bool.eq_iff_iff, List.any_eq_true, List.any_eq_true]
  have hdm := mem_docs_of_getElem? hd
  constructor
  · rintro ⟨f, hf, h⟩
    rw [List.any_map, List.any_eq_true] at h
    obtain ⟨t, ht, hk⟩ := h
    simp only [Function.comp] at hk
    rw [postings_contains hd, hasKey_iff] at hk
    refine ⟨f, hf, List.any_eq_true.mpr ⟨t, hk, ?_⟩⟩
    exact (hok f hf s hs t (mem_segTerms.mpr ⟨d, hdm, hk⟩)).mp ht
  · rintro ⟨f, hf, h⟩
    obtain ⟨t, ht, hk⟩ := List.any_eq_true.mp h
    refine ⟨f, hf, ?_⟩
    rw [List.any_map, List.any_eq_true]
    refine ⟨t, (hok f hf s hs t (mem_segTerms.mpr ⟨d, hdm, ht⟩)).mpr hk, ?_⟩
    simp only [Function.comp]
    rw [postings_contains hd, hasKey_iff]
    exact ht

/-- exact groups not subject to fuzzy expansion are complete on every corpus -/
theorem exact_groupOK (c : Ctx) (segs : List Seg) (g : Group) (he : g.exp = .exact)
    (hf : g.score = false ∨ c.fuzzy = none ∨ ∃ fz, c.fuzzy = some fz ∧ min fz.maxEdits 2 = 0) :
    GroupOK c segs g := by
  intro f _ s _ t _
  unfold expandField Spec.termOk
  rw [he]
  simp only
  rcases hf with hf | hf | ⟨fz, hfz, hk⟩
  · simp [hf, List.any_eq_true]
  · simp [hf, List.any_eq_true]
  · cases hsc : g.score <;> simp [hfz, hk, List.any_eq_true]

/-! ## matcher tree against the documented semantics -/

theorem docPasses_eq {s : Seg} {o : Nat} {d : ADoc} (hd : s.docs[o]? = some d) (fs : List Flt) :
    docPasses s o fs = Flt.passesAll d fs := by
  unfold docPasses; rw [hd]

theorem length_filter_pos_eq_any {α : Type} (l : List α) (p : α → Bool) :
    decide ((l.filter p).length ≥ 1) = l.any p := by
  induction l with
  | nil => simp
  | cons x xs ih =>
    cases hx : p x with
    | true => simp [List.filter, hx]
    | false => simpa [List.filter, hx] using ih

/-- shape of the `QueryString` matcher arm against its declarative form -/
theorem qs_shape {α β : Type} (ts ns : List α) (ps : List β) (gm gn : α → Bool) (pm : β → Bool) (k : Nat) :
    (if (ts.isEmpty && ps.isEmpty && ns.isEmpty) = true then false
      else if ns.any gn = true then false
      else if (!(ps.all pm)) = true then false
      else if ts.isEmpty = true then true
      else decide ((ts.filter gm).length ≥ k)) =
    (!(ts.isEmpty && ps.isEmpty && ns.isEmpty) && ns.all (fun x => !gn x) && ps.all pm &&
      (ts.isEmpty || decide (k ≤ (ts.filter gm).length))) := by
  have hn : ns.all (fun x => !gn x) = !(ns.any gn) := by
    induction ns with
    | nil => rfl
    | cons x xs ih => simp [ih]
  rw [hn]
  cases h1 : (ts.isEmpty && ps.isEmpty && ns.isEmpty) <;> cases h2 : ns.any gn <;>
    cases h3 : ps.all pm <;> cases h4 : ts.isEmpty <;> simp

theorem groupsList_planList_mem {c : Ctx} {sc : Bool} {qs : List Q} {q : Q} (hq : q ∈ qs) {g : Group}
    (hg : g ∈ (plan c sc q).groups) : g ∈ Matcher.groupsList (planList c sc qs) := by
  induction qs with
  | nil => cases hq
  | cons x xs ih =>
    simp only [planList, Matcher.groupsList, List.mem_append]
    rcases List.mem_cons.mp hq with rfl | hq
    · exact Or.inl hg
    · exact Or.inr (ih hq)

theorem length_planList (c : Ctx) (sc : Bool) : ∀ (qs : List Q), (planList c sc qs).length = qs.length
  | [] => by simp [planList]
  | q :: qs => by simp [planList, length_planList c sc qs]

section Eval
variable (c : Ctx) {segs : List Seg} {s : Seg} (hs : s ∈ segs) {o : Nat} {d : ADoc}
  (hd : s.docs[o]? = some d)
include hs hd

mutual
/-- `matches_node` on the planned matcher = the documented semantics of the query, provided the
expansions of its term groups are complete -/
theorem evalM_plan : ∀ (q : Q) (sc : Bool),
    (∀ g ∈ (plan c sc q).groups, GroupOK c segs g) →
      evalM c segs s o (plan c sc q) = Spec.matchesQ c false d sc q
  | .matchAll, sc, _ => by simp [plan, evalM, Spec.matchesQ]
  | .term f v, sc, h => by
    simp only [plan, evalM, Spec.matchesQ]
    exact groupMatches_eq c hs hd (h _ (by simp [plan, Matcher.groups]))
  | .pfx f v cap, sc, h => by
    simp only [plan, evalM, Spec.matchesQ]
    exact groupMatches_eq c hs hd (h _ (by simp [plan, Matcher.groups]))
  | .wildcard f v cap, sc, h => by
    simp only [plan, evalM, Spec.matchesQ]
    exact groupMatches_eq c hs hd (h _ (by simp [plan, Matcher.groups]))
  | .regex f v cap, sc, h => by
    simp only [plan, evalM, Spec.matchesQ]
    exact groupMatches_eq c hs hd (h _ (by simp [plan, Matcher.groups]))
  | .phrase f ts slop, sc, _ => by
    simp only [plan, evalM, Spec.matchesQ]
    exact phraseMatches_eq c hd _
  | .queryString q fields, sc, h => by
    simp only [plan, evalM, Spec.matchesQ, Option.getD_none]
    rw [qs_shape]
    simp only [plan, Matcher.groups, List.mem_append, List.mem_map] at h
    simp only [List.isEmpty_map, List.all_map, List.filter_map, List.length_map]
    have hterm : ∀ t ∈ (parseQuery q).terms,
        groupMatches c segs s o (termGroup (baseFields c fields) sc t) =
          Spec.group c d (termGroup (baseFields c fields) sc t) :=
      fun t ht => groupMatches_eq c hs hd (h _ (Or.inl ⟨t, ht, rfl⟩))
    have hnot : ∀ t ∈ (parseQuery q).notTerms,
        groupMatches c segs s o (termGroup (baseFields c fields) false t) =
          Spec.group c d (termGroup (baseFields c fields) false t) :=
      fun t ht => groupMatches_eq c hs hd (h _ (Or.inr ⟨t, ht, rfl⟩))
    congr 1
    · congr 1
      · congr 1
        rw [Bool.eq_iff_iff, List.all_eq_true, List.all_eq_true]
        constructor
        · intro hh t ht; have := hh t ht; simp only [Function.comp] at this; rw [← hnot t ht]; exact this
        · intro hh t ht; have := hh t ht; simp only [Function.comp]; rw [hnot t ht]; exact this
      · apply List.all_congr rfl
        intro ph
        simp only [Function.comp]
        exact phraseMatches_eq c hd _
    · congr 1
      have hfl : (List.filter ((fun g => groupMatches c segs s o g) ∘ termGroup (baseFields c fields) sc) (parseQuery q).terms) =
          List.filter (fun t => Spec.group c d (termGroup (baseFields c fields) sc t)) (parseQuery q).terms := by
        apply List.filter_congr
        intro t ht
        simp only [Function.comp]
        exact hterm t ht
      rw [hfl]
      have := length_filter_pos_eq_any (parseQuery q).terms
        (fun t => Spec.group c d (termGroup (baseFields c fields) sc t))
      simpa using this
  | .multiMatch q fields ty opAnd msm, sc, h => by
    simp only [plan, evalM, Spec.matchesQ]
    rw [qs_shape]
    simp only [plan, Matcher.groups, List.mem_append, List.mem_map] at h
    simp only [List.isEmpty_map, List.all_map, List.filter_map, List.length_map]
    have hterm : ∀ t ∈ (parseQuery q).terms,
        groupMatches c segs s o (mmGroup fields sc t) = Spec.group c d (mmGroup fields sc t) :=
      fun t ht => groupMatches_eq c hs hd (h _ (Or.inl ⟨t, ht, rfl⟩))
    have hnot : ∀ t ∈ (parseQuery q).notTerms,
        groupMatches c segs s o (mmGroup fields false t) = Spec.group c d (mmGroup fields false t) :=
      fun t ht => groupMatches_eq c hs hd (h _ (Or.inr ⟨t, ht, rfl⟩))
    congr 1
    · congr 1
      · congr 1
        rw [Bool.eq_iff_iff, List.all_eq_true, List.all_eq_true]
        constructor
        · intro hh t ht; have := hh t ht; simp only [Function.comp] at this; rw [← hnot t ht]; exact this
        · intro hh t ht; have := hh t ht; simp only [Function.comp]; rw [hnot t ht]; exact this
      · apply List.all_congr rfl
        intro ph
        simp only [Function.comp]
        exact phraseMatches_eq c hd _
    · have hfl : (List.filter ((fun g => groupMatches c segs s o g) ∘ mmGroup fields sc) (parseQuery q).terms) =
          List.filter (fun t => Spec.group c d (mmGroup fields sc t)) (parseQuery q).terms := by
        apply List.filter_congr
        intro t ht
        simp only [Function.comp]
        exact hterm t ht
      rw [hfl]
  | .disMax qs, sc, h => by
    simp only [plan, evalM, Spec.matchesQ]
    exact evalAny_planList qs sc (by simpa [plan, Matcher.groups] using h)
  | .bool must should mustNot filter msm, sc, h => by
    simp only [plan, evalM, Spec.matchesQ]
    simp only [plan, Matcher.groups, List.mem_append] at h
    rw [evalAll_planList must sc (fun g hg => h g (Or.inl (Or.inl hg))),
      evalAny_planList mustNot false (fun g hg => h g (Or.inr hg)),
      evalCount_planList should sc (fun g hg => h g (Or.inl (Or.inr hg))),
      docPasses_eq hd, length_planList, length_planList]
  | .constantScore f, sc, _ => by
    simp only [plan, evalM, Spec.matchesQ, evalAll, evalAny, evalCount]
    rw [docPasses_eq hd]
    simp [Flt.passesAll, defaultMinShould]
  | .functionScore q fns mode maxB minS, sc, h => by
    simp only [plan, Spec.matchesQ, Bool.false_and, Bool.not_false, Bool.and_true]
    exact evalM_plan q sc (by simpa [plan] using h)
  | .scriptScore q guard, sc, h => by
    simp only [plan, Spec.matchesQ, Bool.false_and, Bool.not_false, Bool.and_true]
    exact evalM_plan q sc (by simpa [plan] using h)
  | .rankFeature f, sc, _ => by simp [plan, evalM, Spec.matchesQ]
theorem evalAll_planList : ∀ (qs : List Q) (sc : Bool),
    (∀ g ∈ Matcher.groupsList (planList c sc qs), GroupOK c segs g) →
      evalAll c segs s o (planList c sc qs) = Spec.matchesAll c false d sc qs
  | [], _, _ => by simp [planList, evalAll, Spec.matchesAll]
  | q :: qs, sc, h => by
    simp only [planList, Matcher.groupsList, List.mem_append] at h
    simp only [planList, evalAll, Spec.matchesAll]
    rw [evalM_plan q sc (fun g hg => h g (Or.inl hg)), evalAll_planList qs sc (fun g hg => h g (Or.inr hg))]
theorem evalAny_planList : ∀ (qs : List Q) (sc : Bool),
    (∀ g ∈ Matcher.groupsList (planList c sc qs), GroupOK c segs g) →
      evalAny c segs s o (planList c sc qs) = Spec.matchesAny c false d sc qs
  | [], _, _ => by simp [planList, evalAny, Spec.matchesAny]
  | q :: qs, sc, h => by
    simp only [planList, Matcher.groupsList, List.mem_append] at h
    simp only [planList, evalAny, Spec.matchesAny]
    rw [evalM_plan q sc (fun g hg => h g (Or.inl hg)), evalAny_planList qs sc (fun g hg => h g (Or.inr hg))]
theorem evalCount_planList : ∀ (qs : List Q) (sc : Bool),
    (∀ g ∈ Matcher.groupsList (planList c sc qs), GroupOK c segs g) →
      evalCount c segs s o (planList c sc qs) = Spec.matchesCount c false d sc qs
  | [], _, _ => by simp [planList, evalCount, Spec.matchesCount]
  | q :: qs, sc, h => by
    simp only [planList, Matcher.groupsList, List.mem_append] at h
    simp only [planList, evalCount, Spec.matchesCount]
    rw [evalM_plan q sc (fun g hg => h g (Or.inl hg)), evalCount_planList qs sc (fun g hg => h g (Or.inr hg))]
end

end Eval

/-! ## prefix / wildcard / regex expansion below the caps -/

theorem isPrefix_nil (t : Str) : isPrefix [] t = true := by cases t <;> rfl

/-- whatever a glob matches starts with the glob's literal prefix -/
theorem wildMatch_prefix : ∀ (p t : Str), wildMatch p t = true → isPrefix (wildPrefix p) t = true
  | [], t, _ => by simp [wildPrefix, isPrefix_nil]
  | ch :: ps, t, h => by
    unfold wildPrefix
    split
    · exact isPrefix_nil t
    · rename_i hne
      unfold wildMatch at h
      have h42 : ch ≠ 42 := fun e => hne (Or.inl e)
      have h63 : ch ≠ 63 := fun e => hne (Or.inr e)
      rw [if_neg h42] at h
      cases t with
      | nil => simp at h
      | cons x xs =>
        simp only [Bool.and_eq_true, Bool.or_eq_true, beq_iff_eq] at h
        rcases h with ⟨h1 | h1, h2⟩
        · exact absurd h1 h63
        · simp only [isPrefix, Bool.and_eq_true, beq_iff_eq]
          exact ⟨h1, wildMatch_prefix ps xs h2⟩

/-- one step of the per-segment loop when the segment stays below the cap -/
theorem expandStep_mem (M : Str → Bool) (cap : Nat) (terms seen : List Str) (t : Str)
    (hcap : (terms.filter M).length ≤ cap) :
    t ∈ seen ++ ((terms.filter (fun t => M t && !seen.contains t)).take cap) ↔
      t ∈ seen ∨ (t ∈ terms ∧ M t = true) := by
  have hlen : (terms.filter (fun t => M t && !seen.contains t)).length ≤ cap := by
    have : terms.filter (fun t => M t && !seen.contains t) =
        (terms.filter M).filter (fun t => !seen.contains t) := by
      rw [List.filter_filter]
      apply List.filter_congr
      intro x _
      exact Bool.and_comm _ _
    rw [this]
    exact Nat.le_trans (List.length_filter_le _ _) hcap
  rw [List.take_of_length_le hlen, List.mem_append, List.mem_filter]
  constructor
  · rintro (h | ⟨h1, h2⟩)
    · exact Or.inl h
    · simp only [Bool.and_eq_true] at h2
      exact Or.inr ⟨h1, h2.1⟩
  · rintro (h | ⟨h1, h2⟩)
    · exact Or.inl h
    · by_cases hs : t ∈ seen
      · exact Or.inl hs
      · refine Or.inr ⟨h1, ?_⟩
        simp [h2, hs]

theorem expandFold_mem (M : Str → Bool) (cap : Nat) (f : Str) :
    ∀ (L : List Seg) (seen : List Str) (t : Str),
      (∀ s ∈ L, ((segTerms s f).filter M).length ≤ cap) →
      (t ∈ L.foldl (fun seen s =>
          seen ++ (((segTerms s f).filter (fun t => M t && !seen.contains t)).take cap)) seen ↔
        t ∈ seen ∨ ∃ s ∈ L, t ∈ segTerms s f ∧ M t = true)
  | [], seen, t, _ => by simp
  | s :: L, seen, t, h => by
    rw [List.foldl_cons,
      expandFold_mem M cap f L _ t (fun x hx => h x (List.mem_cons_of_mem _ hx)),
      expandStep_mem M cap _ seen t (h s (by simp))]
    constructor
    · rintro ((h1 | h1) | ⟨x, hx, h1⟩)
      · exact Or.inl h1
      · exact Or.inr ⟨s, by simp, h1⟩
      · exact Or.inr ⟨x, List.mem_cons_of_mem _ hx, h1⟩
    · rintro (h1 | ⟨x, hx, h1⟩)
      · exact Or.inl (Or.inl h1)
      · rcases List.mem_cons.mp hx with rfl | hx
        · exact Or.inl (Or.inr h1)
        · exact Or.inr ⟨x, hx, h1⟩

/-- below the cap in every segment, the dictionary expansion collects exactly the matching
non-empty dictionary terms of all segments -/
theorem mem_expandDict (c : Ctx) (segs : List Seg) (f : Str) (e : Expansion) (tok t : Str)
    (hcap : ∀ s ∈ segs, ((segTerms s f).filter (fun t => !t.isEmpty && expMatches c e tok t)).length ≤ e.cap) :
    t ∈ expandDict c segs f e tok ↔
      ∃ s ∈ segs, t ∈ segTerms s f ∧ (!t.isEmpty && expMatches c e tok t) = true := by
  unfold expandDict
  by_cases h0 : e.cap = 0
  · rw [if_pos h0]
    constructor
    · intro h; cases h
    · rintro ⟨s, hs, ht, hm⟩
      have := hcap s hs
      rw [h0] at this
      have hmem : t ∈ (segTerms s f).filter (fun t => !t.isEmpty && expMatches c e tok t) :=
        List.mem_filter.mpr ⟨ht, hm⟩
      have hl : (List.filter (fun t => !t.isEmpty && expMatches c e tok t) (segTerms s f)).length = 0 := by omega
      rw [List.length_eq_zero_iff] at hl
      rw [hl] at hmem
      cases hmem
  · rw [if_neg h0]
    have hcongr : (fun (seen : List Str) (s : Seg) =>
        seen ++ (((segTerms s f).filter (fun t => !t.isEmpty && expMatches c e tok t && !seen.contains t)).take e.cap)) =
        (fun seen s => seen ++ (((segTerms s f).filter
          (fun t => (fun t => !t.isEmpty && expMatches c e tok t) t && !seen.contains t)).take e.cap)) := rfl
    rw [hcongr, expandFold_mem (fun t => !t.isEmpty && expMatches c e tok t) e.cap f segs [] t hcap]
    simp

/-- on dictionary terms, the literal-prefix shortcut does not change which terms a pattern
selects (always for prefix and wildcard patterns; for regex patterns under `rxPrefixOk`) -/
theorem expMatches_eq_patMatches (c : Ctx) (e : Expansion) (tok t : Str)
    (hrx : ∀ cap, e = .regex cap → c.rx tok t = true → isPrefix (rxPrefix tok) t = true) :
    expMatches c e tok t = patMatches c e tok t := by
  cases e with
  | exact => rfl
  | pfx cap => rfl
  | wildcard cap =>
    simp only [expMatches, patMatches]
    cases hw : wildMatch tok t with
    | false => simp
    | true => simp [wildMatch_prefix tok t hw]
  | regex cap =>
    simp only [expMatches, patMatches]
    cases hr : c.rx tok t with
    | false => simp
    | true => simp [hrx cap rfl hr]

/-- **Pattern groups below their caps are complete.** -/
theorem pattern_groupOK (c : Ctx) (segs : List Seg) (g : Group) (hne : g.exp ≠ .exact)
    (hcap : belowCaps c segs g = true) (hrx : rxPrefixOk c segs g = true) : GroupOK c segs g := by
  intro f hf s hs t ht
  have hcap' : ∀ tok ∈ patternTokens c f g.term, ∀ s ∈ segs,
      ((segTerms s f).filter (fun t => !t.isEmpty && expMatches c g.exp tok t)).length ≤ g.exp.cap := by
    intro tok htok s' hs'
    unfold belowCaps at hcap
    cases he : g.exp with
    | exact => exact absurd he hne
    | pfx cap =>
      rw [he] at hcap
      simp only [List.all_eq_true, decide_eq_true_eq] at hcap
      exact hcap f hf tok htok s' hs'
    | wildcard cap =>
      rw [he] at hcap
      simp only [List.all_eq_true, decide_eq_true_eq] at hcap
      exact hcap f hf tok htok s' hs'
    | regex cap =>
      rw [he] at hcap
      simp only [List.all_eq_true, decide_eq_true_eq] at hcap
      exact hcap f hf tok htok s' hs'
  have hrx' : ∀ tok ∈ patternTokens c f g.term, ∀ s' ∈ segs, ∀ t' ∈ segTerms s' f,
      ∀ cap, g.exp = .regex cap → c.rx tok t' = true → isPrefix (rxPrefix tok) t' = true := by
    intro tok htok s' hs' t' ht' cap he hr
    unfold rxPrefixOk at hrx
    rw [he] at hrx
    simp only [List.all_eq_true, Bool.or_eq_true, Bool.not_eq_true'] at hrx
    rcases hrx f hf tok htok s' hs' t' ht' with h | h
    · rw [hr] at h; cases h
    · exact h
  have hfield : expandField c segs g f =
      dedup ((patternTokens c f g.term).flatMap (fun tok => expandDict c segs f g.exp tok)) := by
    unfold expandField
    cases he : g.exp with
    | exact => exact absurd he hne
    | pfx cap => rfl
    | wildcard cap => rfl
    | regex cap => rfl
  have hterm : Spec.termOk c g f t =
      (!t.isEmpty && (patternTokens c f g.term).any (fun tok => patMatches c g.exp tok t)) := by
    unfold Spec.termOk
    cases he : g.exp with
    | exact => exact absurd he hne
    | pfx cap => rfl
    | wildcard cap => rfl
    | regex cap => rfl
  rw [hfield, hterm, mem_dedup, List.mem_flatMap, Bool.and_eq_true, List.any_eq_true]
  constructor
  · rintro ⟨tok, htok, hmem⟩
    obtain ⟨s', hs', ht', hm⟩ := (mem_expandDict c segs f g.exp tok t (hcap' tok htok)).mp hmem
    simp only [Bool.and_eq_true] at hm
    refine ⟨hm.1, tok, htok, ?_⟩
    rw [← expMatches_eq_patMatches c g.exp tok t (hrx' tok htok s' hs' t ht')]
    exact hm.2
  · rintro ⟨hne', tok, htok, hm⟩
    refine ⟨tok, htok, (mem_expandDict c segs f g.exp tok t (hcap' tok htok)).mpr ⟨s, hs, ht, ?_⟩⟩
    rw [expMatches_eq_patMatches c g.exp tok t (hrx' tok htok s hs t ht)]
    simp [hne', hm]

/-! ## syntactic coverage: `forces` -/

section Forces
variable (c : Ctx) (segs : List Seg) (s : Seg) (o : Nat)

/-- some scored term group of the matcher lists the ordinal -/
def ScoredHit (gs : List Group) : Prop :=
  ∃ g ∈ gs, g.score = true ∧ groupMatches c segs s o g = true

theorem ScoredHit.mono {c : Ctx} {segs : List Seg} {s : Seg} {o : Nat} {a b : List Group}
    (h : ∀ g ∈ a, g ∈ b) : ScoredHit c segs s o a → ScoredHit c segs s o b := by
  rintro ⟨g, hg, h1, h2⟩; exact ⟨g, h g hg, h1, h2⟩

/-- a `QueryString` matcher that requires at least one plain term and accepts: one of the plain
term groups matched -/
theorem qs_hit (ts ns : List Group) (ps : List PhraseSpec) (k : Nat) (hk : 1 ≤ k) (hts : ts ≠ [])
    (h : evalM c segs s o (.queryString ts ps ns (some k)) = true ∨
      (k = 1 ∧ evalM c segs s o (.queryString ts ps ns none) = true)) :
    ∃ g ∈ ts, groupMatches c segs s o g = true := by
  have hlen : 1 ≤ (ts.filter (groupMatches c segs s o)).length := by
    rcases h with h | ⟨rfl, h⟩
    · simp only [evalM] at h
      rw [qs_shape] at h
      simp only [Bool.and_eq_true, Bool.or_eq_true, decide_eq_true_eq, Option.getD_some] at h
      rcases h.2 with h2 | h2
      · cases ts with
        | nil => exact absurd rfl hts
        | cons _ _ => simp at h2
      · omega
    · simp only [evalM] at h
      rw [qs_shape] at h
      simp only [Bool.and_eq_true, Bool.or_eq_true, decide_eq_true_eq, Option.getD_none] at h
      rcases h.2 with h2 | h2
      · cases ts with
        | nil => exact absurd rfl hts
        | cons _ _ => simp at h2
      · exact h2
  cases hfl : ts.filter (groupMatches c segs s o) with
  | nil => rw [hfl] at hlen; simp at hlen
  | cons g _ =>
    have : g ∈ ts.filter (groupMatches c segs s o) := by rw [hfl]; simp
    rw [List.mem_filter] at this
    exact ⟨g, this.1, this.2⟩

mutual
theorem forces_hit : ∀ (q : Q) (sc : Bool), forces sc q = true →
    evalM c segs s o (plan c sc q) = true → ScoredHit c segs s o (plan c sc q).groups
  | .matchAll, _, h, _ => by simp [forces] at h
  | .term f v, sc, h, he => by
    simp only [forces] at h
    simp only [plan, evalM] at he
    exact ⟨_, by simp [plan, Matcher.groups], h, he⟩
  | .pfx f v cap, sc, h, he => by
    simp only [forces] at h
    simp only [plan, evalM] at he
    exact ⟨_, by simp [plan, Matcher.groups], h, he⟩
  | .wildcard f v cap, sc, h, he => by
    simp only [forces] at h
    simp only [plan, evalM] at he
    exact ⟨_, by simp [plan, Matcher.groups], h, he⟩
  | .regex f v cap, sc, h, he => by
    simp only [forces] at h
    simp only [plan, evalM] at he
    exact ⟨_, by simp [plan, Matcher.groups], h, he⟩
  | .phrase _ _ _, _, h, _ => by simp [forces] at h
  | .queryString q fields, sc, h, he => by
    simp only [forces, Bool.and_eq_true, Bool.not_eq_true', List.isEmpty_eq_false_iff] at h
    simp only [plan] at he
    have hts : (parseQuery q).terms.map (termGroup (baseFields c fields) sc) ≠ [] := by
      simpa using h.2
    obtain ⟨g, hg, hm⟩ := qs_hit c segs s o _ _ _ 1 (Nat.le_refl 1) hts (Or.inr ⟨rfl, he⟩)
    refine ⟨g, by simp only [plan, Matcher.groups]; exact List.mem_append_left _ hg, ?_, hm⟩
    obtain ⟨t, _, rfl⟩ := List.mem_map.mp hg
    exact h.1
  | .multiMatch q fields ty opAnd msm, sc, h, he => by
    simp only [forces, Bool.and_eq_true] at h
    simp only [plan] at he
    cases hr : resolveMsm msm (parseQuery q).terms.length opAnd with
    | none => rw [hr] at h; simp at h
    | some k =>
      rw [hr] at h he
      have hk : 1 ≤ k := by simpa using h.2
      have hts : (parseQuery q).terms.map (mmGroup fields sc) ≠ [] := by
        intro hnil
        have : (parseQuery q).terms.length = 0 := by
          have := congrArg List.length hnil
          simpa using this
        unfold resolveMsm at hr
        rw [if_pos this] at hr
        cases hr
      obtain ⟨g, hg, hm⟩ := qs_hit c segs s o _ _ _ k hk hts (Or.inl he)
      refine ⟨g, by simp only [plan, Matcher.groups, hr]; exact List.mem_append_left _ hg, ?_, hm⟩
      obtain ⟨t, _, rfl⟩ := List.mem_map.mp hg
      exact h.1
  | .disMax qs, sc, h, he => by
    simp only [forces] at h
    simp only [plan, evalM] at he
    simpa [plan, Matcher.groups] using forcesAll_any qs sc h he
  | .bool must should mustNot filter msm, sc, h, he => by
    simp only [forces, Bool.or_eq_true, Bool.and_eq_true, decide_eq_true_eq] at h
    simp only [plan, evalM, Bool.and_eq_true, decide_eq_true_eq, length_planList] at he
    simp only [plan, Matcher.groups]
    rcases h with h | ⟨hmin, hall⟩
    · exact ScoredHit.mono (fun g hg => List.mem_append_left _ (List.mem_append_left _ hg))
        (forcesAny_all must sc h he.1.1.1)
    · have hc : 1 ≤ evalCount c segs s o (planList c sc should) := Nat.le_trans hmin he.2
      exact ScoredHit.mono (fun g hg => List.mem_append_left _ (List.mem_append_right _ hg))
        (forcesAll_count should sc hall hc)
  | .constantScore _, _, h, _ => by simp [forces] at h
  | .functionScore q _ _ _ _, sc, h, he => by
    simp only [forces] at h
    simp only [plan] at he ⊢
    exact forces_hit q sc h he
  | .scriptScore q _, sc, h, he => by
    simp only [forces] at h
    simp only [plan] at he ⊢
    exact forces_hit q sc h he
  | .rankFeature _, _, h, _ => by simp [forces] at h
theorem forcesAll_any : ∀ (qs : List Q) (sc : Bool), forcesAll sc qs = true →
    evalAny c segs s o (planList c sc qs) = true → ScoredHit c segs s o (Matcher.groupsList (planList c sc qs))
  | [], _, _, he => by simp [planList, evalAny] at he
  | q :: qs, sc, h, he => by
    simp only [forcesAll, Bool.and_eq_true] at h
    simp only [planList, evalAny, Bool.or_eq_true] at he
    simp only [planList, Matcher.groupsList]
    rcases he with he | he
    · exact ScoredHit.mono (fun g hg => List.mem_append_left _ hg) (forces_hit q sc h.1 he)
    · exact ScoredHit.mono (fun g hg => List.mem_append_right _ hg) (forcesAll_any qs sc h.2 he)
theorem forcesAny_all : ∀ (qs : List Q) (sc : Bool), forcesAny sc qs = true →
    evalAll c segs s o (planList c sc qs) = true → ScoredHit c segs s o (Matcher.groupsList (planList c sc qs))
  | [], _, h, _ => by simp [forcesAny] at h
  | q :: qs, sc, h, he => by
    simp only [forcesAny, Bool.or_eq_true] at h
    simp only [planList, evalAll, Bool.and_eq_true] at he
    simp only [planList, Matcher.groupsList]
    rcases h with h | h
    · exact ScoredHit.mono (fun g hg => List.mem_append_left _ hg) (forces_hit q sc h he.1)
    · exact ScoredHit.mono (fun g hg => List.mem_append_right _ hg) (forcesAny_all qs sc h he.2)
theorem forcesAll_count : ∀ (qs : List Q) (sc : Bool), forcesAll sc qs = true →
    1 ≤ evalCount c segs s o (planList c sc qs) → ScoredHit c segs s o (Matcher.groupsList (planList c sc qs))
  | [], _, _, he => by simp [planList, evalCount] at he
  | q :: qs, sc, h, he => by
    simp only [forcesAll, Bool.and_eq_true] at h
    simp only [planList, evalCount] at he
    simp only [planList, Matcher.groupsList]
    cases hq : evalM c segs s o (plan c sc q) with
    | true => exact ScoredHit.mono (fun g hg => List.mem_append_left _ hg) (forces_hit q sc h.1 hq)
    | false =>
      rw [hq] at he
      simp only [Bool.false_eq_true, if_false, Nat.zero_add] at he
      exact ScoredHit.mono (fun g hg => List.mem_append_right _ hg) (forcesAll_count qs sc h.2 he)
end

/-- a scored group that lists the ordinal contributes a qualified key listing it -/
theorem hasQualified_of_scoredHit {m : Matcher} (h : ScoredHit c segs s o m.groups) :
    hasQualified (qualified c segs m) s o = true := by
  obtain ⟨g, hg, hsc, hm⟩ := h
  unfold groupMatches at hm
  obtain ⟨k, hk, hko⟩ := List.any_eq_true.mp hm
  unfold hasQualified
  rw [List.any_eq_true]
  refine ⟨k, ?_, hko⟩
  unfold qualified
  rw [List.mem_flatMap]
  exact ⟨g, List.mem_filter.mpr ⟨hg, hsc⟩, hk⟩

end Forces

/-! ## function_score / script_score: drops -/

mutual
/-- without function_score / script_score clauses the documented reading and the matcher-only
reading coincide -/
theorem plain_matchesQ (c : Ctx) (d : ADoc) : ∀ (q : Q) (sc : Bool), q.plain = true →
    Spec.matchesQ c true d sc q = Spec.matchesQ c false d sc q
  | .matchAll, _, _ => by simp only [Spec.matchesQ]
  | .term _ _, _, _ => by simp only [Spec.matchesQ]
  | .pfx _ _ _, _, _ => by simp only [Spec.matchesQ]
  | .wildcard _ _ _, _, _ => by simp only [Spec.matchesQ]
  | .regex _ _ _, _, _ => by simp only [Spec.matchesQ]
  | .phrase _ _ _, _, _ => by simp only [Spec.matchesQ]
  | .queryString _ _, _, _ => by simp only [Spec.matchesQ]
  | .multiMatch _ _ _ _ _, _, _ => by simp only [Spec.matchesQ]
  | .constantScore _, _, _ => by simp only [Spec.matchesQ]
  | .rankFeature _, _, _ => by simp only [Spec.matchesQ]
  | .disMax qs, sc, h => by
    simp only [Spec.matchesQ]
    exact plain_matchesAny c d qs sc (by simpa [Q.plain] using h)
  | .bool must should mustNot filter msm, sc, h => by
    simp only [Q.plain, Bool.and_eq_true] at h
    simp only [Spec.matchesQ]
    rw [plain_matchesAll c d must sc h.1.1, plain_matchesAny c d mustNot false h.2,
      plain_matchesCount c d should sc h.1.2]
  | .functionScore _ _ _ _ _, _, h => by simp [Q.plain] at h
  | .scriptScore _ _, _, h => by simp [Q.plain] at h
theorem plain_matchesAll (c : Ctx) (d : ADoc) : ∀ (qs : List Q) (sc : Bool), Q.plainAll qs = true →
    Spec.matchesAll c true d sc qs = Spec.matchesAll c false d sc qs
  | [], _, _ => by simp only [Spec.matchesAll]
  | q :: qs, sc, h => by
    simp only [Q.plainAll, Bool.and_eq_true] at h
    simp only [Spec.matchesAll]
    rw [plain_matchesQ c d q sc h.1, plain_matchesAll c d qs sc h.2]
theorem plain_matchesAny (c : Ctx) (d : ADoc) : ∀ (qs : List Q) (sc : Bool), Q.plainAll qs = true →
    Spec.matchesAny c true d sc qs = Spec.matchesAny c false d sc qs
  | [], _, _ => by simp only [Spec.matchesAny]
  | q :: qs, sc, h => by
    simp only [Q.plainAll, Bool.and_eq_true] at h
    simp only [Spec.matchesAny]
    rw [plain_matchesQ c d q sc h.1, plain_matchesAny c d qs sc h.2]
theorem plain_matchesCount (c : Ctx) (d : ADoc) : ∀ (qs : List Q) (sc : Bool), Q.plainAll qs = true →
    Spec.matchesCount c true d sc qs = Spec.matchesCount c false d sc qs
  | [], _, _ => by simp only [Spec.matchesCount]
  | q :: qs, sc, h => by
    simp only [Q.plainAll, Bool.and_eq_true] at h
    simp only [Spec.matchesCount]
    rw [plain_matchesQ c d q sc h.1, plain_matchesCount c d qs sc h.2]
end

mutual
/-- a score tree without function_score / script_score nodes -/
def SNode.safe : SNode → Bool
  | .sum cs => SNode.safeAll cs
  | .disMax cs => SNode.safeAll cs
  | .fnScore _ _ _ _ _ _ => false
  | .script _ _ _ => false
  | _ => true
def SNode.safeAll : List SNode → Bool
  | [] => true
  | n :: ns => n.safe && SNode.safeAll ns
end

mutual
/-- such a tree always has a score: nothing is dropped -/
theorem safe_not_dropped (c : Ctx) (segs : List Seg) (s : Seg) (o : Nat) (d : ADoc) :
    ∀ (n : SNode), n.safe = true → dropped c segs s o d n = false
  | .empty, _ => by simp only [dropped]
  | .expr, _ => by simp only [dropped]
  | .constant, _ => by simp only [dropped]
  | .rank, _ => by simp only [dropped]
  | .sum cs, h => by
    simp only [SNode.safe] at h
    simp only [dropped]
    cases cs with
    | nil => rfl
    | cons n ns => rw [safeAll_not_droppedAll c segs s o d n ns h]; simp
  | .disMax cs, h => by
    simp only [SNode.safe] at h
    simp only [dropped]
    cases cs with
    | nil => rfl
    | cons n ns => rw [safeAll_not_droppedAll c segs s o d n ns h]; simp
  | .fnScore _ _ _ _ _ _, h => by simp [SNode.safe] at h
  | .script _ _ _, h => by simp [SNode.safe] at h
theorem safeAll_not_droppedAll (c : Ctx) (segs : List Seg) (s : Seg) (o : Nat) (d : ADoc) :
    ∀ (n : SNode) (ns : List SNode), SNode.safeAll (n :: ns) = true →
      droppedAll c segs s o d (n :: ns) = false
  | n, ns, h => by
    simp only [SNode.safeAll, Bool.and_eq_true] at h
    simp only [droppedAll]
    rw [safe_not_dropped c segs s o d n h.1]
    rfl
end

theorem safeAll_append : ∀ (a b : List SNode),
    SNode.safeAll (a ++ b) = (SNode.safeAll a && SNode.safeAll b)
  | [], b => by simp [SNode.safeAll]
  | n :: a, b => by simp [SNode.safeAll, safeAll_append a b, Bool.and_assoc]

theorem collapse_safe (mk : List SNode → SNode) (hmk : ∀ ns, (mk ns).safe = SNode.safeAll ns)
    (ns : List SNode) (h : SNode.safeAll ns = true) : (collapse mk ns).safe = true := by
  match ns, h with
  | [], _ => simp [collapse, SNode.safe]
  | [n], h => simpa [collapse, SNode.safeAll] using h
  | a :: b :: r, h => simp only [collapse]; rw [hmk]; exact h

theorem nonEmpty_safe (n : SNode) (h : n.safe = true) :
    SNode.safeAll n.nonEmpty = true := by
  cases n <;> simp_all [SNode.safeAll, SNode.nonEmpty]

mutual
theorem plain_scoreTree_safe (c : Ctx) : ∀ (q : Q) (sc : Bool), q.plain = true →
    (scoreTree c sc q).safe = true
  | .matchAll, _, _ => by simp [scoreTree, SNode.safe]
  | .term _ _, sc, _ => by cases sc <;> simp [scoreTree, SNode.safe]
  | .pfx _ _ _, sc, _ => by cases sc <;> simp [scoreTree, SNode.safe]
  | .wildcard _ _ _, sc, _ => by cases sc <;> simp [scoreTree, SNode.safe]
  | .regex _ _ _, sc, _ => by cases sc <;> simp [scoreTree, SNode.safe]
  | .phrase _ _ _, _, _ => by simp [scoreTree, SNode.safe]
  | .queryString q _, sc, _ => by
    simp only [scoreTree]; split <;> simp [SNode.safe]
  | .multiMatch _ fields ty _ _, sc, _ => by
    simp only [scoreTree]
    cases ty <;> simp only <;> split <;> simp [SNode.safe]
  | .constantScore _, _, _ => by simp [scoreTree, SNode.safe]
  | .rankFeature _, _, _ => by simp [scoreTree, SNode.safe]
  | .disMax qs, sc, h => by
    simp only [scoreTree]
    exact collapse_safe _ (fun ns => by simp [SNode.safe]) _
      (plain_scoreNodes_safe c qs sc (by simpa [Q.plain] using h))
  | .bool must should mustNot _ _, sc, h => by
    simp only [Q.plain, Bool.and_eq_true] at h
    simp only [scoreTree]
    apply collapse_safe _ (fun ns => by simp [SNode.safe])
    rw [safeAll_append, safeAll_append, plain_scoreNodes_safe c must sc h.1.1,
      plain_scoreNodes_safe c should sc h.1.2, plain_scoreNodes_safe c mustNot false h.2]
    rfl
  | .functionScore _ _ _ _ _, _, h => by simp [Q.plain] at h
  | .scriptScore _ _, _, h => by simp [Q.plain] at h
theorem plain_scoreNodes_safe (c : Ctx) : ∀ (qs : List Q) (sc : Bool), Q.plainAll qs = true →
    SNode.safeAll (scoreNodes c sc qs) = true
  | [], _, _ => by simp [scoreNodes, SNode.safeAll]
  | q :: qs, sc, h => by
    simp only [Q.plainAll, Bool.and_eq_true] at h
    simp only [scoreNodes]
    rw [safeAll_append, nonEmpty_safe _ (plain_scoreTree_safe c q sc h.1),
      plain_scoreNodes_safe c qs sc h.2]
    rfl
end

section RootChain
variable (c : Ctx) {segs : List Seg} {s : Seg} (hs : s ∈ segs) {o : Nat} {d : ADoc}
  (hd : s.docs[o]? = some d)
include hs hd

/-- matcher accepts and the score tree yields a score -/
theorem plain_accept (q : Q) (hp : q.plain = true)
    (hg : ∀ g ∈ (plan c true q).groups, GroupOK c segs g) :
    (evalM c segs s o (plan c true q) && !(dropped c segs s o d (scoreTree c true q))) =
      Spec.matchesQ c true d true q := by
  rw [safe_not_dropped c segs s o d _ (plain_scoreTree_safe c q true hp),
    evalM_plan c hs hd q true hg, plain_matchesQ c d q true hp]
  simp

/-- **function_score / script_score at the root**: "matcher accepts and the score tree yields a
score" is the documented reading (inner query satisfied, `min_score` reached, script has a value) -/
theorem rootChain_accept : ∀ (q : Q), q.rootChain = true →
    (∀ g ∈ (plan c true q).groups, GroupOK c segs g) →
    (evalM c segs s o (plan c true q) && !(dropped c segs s o d (scoreTree c true q))) =
      Spec.matchesQ c true d true q
  | .functionScore q fns mode maxB minS, h, hg => by
    have ih := rootChain_accept q (by simpa [Q.rootChain] using h) (by simpa [plan] using hg)
    simp only [plan, scoreTree, dropped, Spec.matchesQ, Bool.true_and]
    rw [← ih]
    cases evalM c segs s o (plan c true q) <;> cases dropped c segs s o d (scoreTree c true q) <;>
      cases fnBelow d fns mode maxB minS <;> rfl
  | .scriptScore q guard, h, hg => by
    have ih := rootChain_accept q (by simpa [Q.rootChain] using h) (by simpa [plan] using hg)
    simp only [plan, scoreTree, dropped, Spec.matchesQ, Bool.true_and]
    rw [← ih]
    cases evalM c segs s o (plan c true q) <;> cases dropped c segs s o d (scoreTree c true q) <;>
      cases guardHit d guard <;> rfl
  | .matchAll, h, hg => plain_accept c hs hd _ (by simpa [Q.rootChain] using h) hg
  | .term _ _, h, hg => plain_accept c hs hd _ (by simpa [Q.rootChain] using h) hg
  | .pfx _ _ _, h, hg => plain_accept c hs hd _ (by simpa [Q.rootChain] using h) hg
  | .wildcard _ _ _, h, hg => plain_accept c hs hd _ (by simpa [Q.rootChain] using h) hg
  | .regex _ _ _, h, hg => plain_accept c hs hd _ (by simpa [Q.rootChain] using h) hg
  | .phrase _ _ _, h, hg => plain_accept c hs hd _ (by simpa [Q.rootChain] using h) hg
  | .queryString _ _, h, hg => plain_accept c hs hd _ (by simpa [Q.rootChain] using h) hg
  | .multiMatch _ _ _ _ _, h, hg => plain_accept c hs hd _ (by simpa [Q.rootChain] using h) hg
  | .disMax _, h, hg => plain_accept c hs hd _ (by simpa [Q.rootChain] using h) hg
  | .bool _ _ _ _ _, h, hg => plain_accept c hs hd _ (by simpa [Q.rootChain] using h) hg
  | .constantScore _, h, hg => plain_accept c hs hd _ (by simpa [Q.rootChain] using h) hg
  | .rankFeature _, h, hg => plain_accept c hs hd _ (by simpa [Q.rootChain] using h) hg

end RootChain

/-! ## fuzzy expansion below `fuzzy.max_expansions` -/

theorem candFold_mem (M : Str → Bool) (f : Str) :
    ∀ (L : List Seg) (seen : List Str) (t : Str),
      (t ∈ L.foldl (fun seen s => seen ++ (segTerms s f).filter (fun t => M t && !seen.contains t)) seen ↔
        t ∈ seen ∨ ∃ s ∈ L, t ∈ segTerms s f ∧ M t = true)
  | [], seen, t => by simp
  | s :: L, seen, t => by
    rw [List.foldl_cons, candFold_mem M f L _ t, List.mem_append, List.mem_filter]
    constructor
    · rintro ((h1 | ⟨h1, h2⟩) | ⟨x, hx, h1⟩)
      · exact Or.inl h1
      · simp only [Bool.and_eq_true] at h2
        exact Or.inr ⟨s, by simp, h1, h2.1⟩
      · exact Or.inr ⟨x, List.mem_cons_of_mem _ hx, h1⟩
    · rintro (h1 | ⟨x, hx, h1, h2⟩)
      · exact Or.inl (Or.inl h1)
      · rcases List.mem_cons.mp hx with rfl | hx
        · by_cases hs : t ∈ seen
          · exact Or.inl (Or.inl hs)
          · exact Or.inl (Or.inr ⟨h1, by simp [h2, hs]⟩)
        · exact Or.inr ⟨x, hx, h1, h2⟩

theorem fuzzyCond_eq (fz : Fuzzy) (tok t : Str) :
    fuzzyCond fz tok t =
      (!t.isEmpty && isPrefix (tok.take (min fz.prefixLength tok.length)) t && t != tok &&
        decide (Spec.lev tok t ≤ min fz.maxEdits 2)) := by
  unfold fuzzyCond
  cases hne : (t != tok) with
  | false => simp
  | true =>
    congr 1
    rw [levenshtein_bounded_correct]
    have hne' : t ≠ tok := by simpa using hne
    by_cases hle : Spec.lev tok t ≤ min fz.maxEdits 2
    · rw [if_pos hle]
      have h0 : Spec.lev tok t ≠ 0 := fun h0 => hne' (lev_eq_zero h0).symm
      simp [hle, h0]
    · rw [if_neg hle]
      simp [hle]

theorem mem_fuzzyCands (segs : List Seg) (f tok : Str) (fz : Fuzzy) (t : Str) :
    t ∈ fuzzyCands segs f tok fz ↔
      ∃ s ∈ segs, t ∈ segTerms s f ∧
        (!t.isEmpty && isPrefix (tok.take (min fz.prefixLength tok.length)) t && t != tok &&
          decide (Spec.lev tok t ≤ min fz.maxEdits 2)) = true := by
  unfold fuzzyCands
  rw [candFold_mem (fuzzyCond fz tok) f segs [] t]
  simp only [List.not_mem_nil, false_or, fuzzyCond_eq]

/-- **Fuzzy groups below `fuzzy.max_expansions` are complete**: the terms collected by
`expand_term_fuzzy` are exactly the dictionary terms within the textbook Levenshtein distance
(sharing the required prefix), for tokens of at least `min_length` characters. -/
theorem fuzzy_groupOK (c : Ctx) (segs : List Seg) (g : Group) (he : g.exp = .exact)
    (hcap : belowCaps c segs g = true) : GroupOK c segs g := by
  by_cases hsc : g.score = false
  · exact exact_groupOK c segs g he (Or.inl hsc)
  have hsc' : g.score = true := by cases h : g.score <;> simp_all
  cases hfz : c.fuzzy with
  | none => exact exact_groupOK c segs g he (Or.inr (Or.inl hfz))
  | some fz =>
    by_cases hk : min fz.maxEdits 2 = 0
    · exact exact_groupOK c segs g he (Or.inr (Or.inr ⟨fz, hfz, hk⟩))
    intro f hf s hs t ht
    unfold belowCaps at hcap
    rw [he] at hcap
    simp only [hfz, hsc', Bool.not_true, Bool.false_or, Bool.or_eq_true, beq_iff_eq, hk, false_or,
      List.all_eq_true, decide_eq_true_eq] at hcap
    have hcap' := hcap f hf
    unfold expandField Spec.termOk
    rw [he]
    simp only [hsc', hfz, hk, if_true, if_false, Bool.true_and]
    rw [mem_dedup, List.mem_flatMap, List.any_eq_true]
    have hkb : (min fz.maxEdits 2 != 0) = true := by simpa using hk
    constructor
    · rintro ⟨tok, htok, hmem⟩
      refine ⟨tok, htok, ?_⟩
      unfold expandFuzzy at hmem
      split at hmem
      · simp only [List.mem_singleton] at hmem
        simp [hmem]
      · rename_i hshort
        rcases List.mem_cons.mp hmem with h | h
        · simp [h]
        · have hin := (mem_fuzzyCands segs f tok fz t).mp (List.mem_of_mem_take h)
          obtain ⟨_, _, _, hc⟩ := hin
          simp only [Bool.and_eq_true, Bool.not_eq_true', bne_iff_ne, ne_eq, decide_eq_true_eq] at hc
          have hlen : fz.minLength ≤ tok.length := by
            by_cases hl : tok.length < fz.minLength
            · exact absurd (Or.inl hl) hshort
            · omega
          have hmx : fz.maxExpansions ≠ 0 := fun h0 => hshort (Or.inr h0)
          simp [hkb, Spec.fuzzyOk, hlen, hmx, hc.1.1.1, hc.1.1.2, hc.2]
    · rintro ⟨tok, htok, hok⟩
      refine ⟨tok, htok, ?_⟩
      simp only [Bool.or_eq_true, beq_iff_eq, Bool.and_eq_true] at hok
      unfold expandFuzzy
      rcases hok with h | ⟨_, hfo⟩
      · split <;> simp [h]
      · unfold Spec.fuzzyOk at hfo
        simp only [Bool.and_eq_true, decide_eq_true_eq, bne_iff_ne, ne_eq, Bool.not_eq_true'] at hfo
        obtain ⟨⟨⟨⟨hlen, hmx⟩, hne⟩, hpre⟩, hlev⟩ := hfo
        have hshort : ¬ (tok.length < fz.minLength ∨ fz.maxExpansions = 0) := by
          rintro (h | h)
          · omega
          · exact hmx h
        rw [if_neg hshort]
        by_cases heq : t = tok
        · simp [heq]
        · apply List.mem_cons_of_mem
          have hc := hcap' tok htok
          rcases hc with (hc | hc) | hc
          · omega
          · exact absurd hc hmx
          · rw [List.take_of_length_le hc]
            exact (mem_fuzzyCands segs f tok fz t).mpr ⟨s, hs, ht, by simp [hne, hpre, heq, hlev]⟩

end SL.Query
