import SLModel.Core.RescoreDrop
/-! Lemmas for `Core/RescoreDrop` (used by `Props/C16`). -/
namespace SL.RescoreDrop

variable {α : Type}

theorem removeAt_append_right : ∀ (pre : List α) (x : α) (post : List α),
    removeAt (pre ++ x :: post) pre.length = some (pre ++ post)
  | [], x, post => rfl
  | p :: pre, x, post => by simp [removeAt, removeAt_append_right pre x post]

theorem removeAt_append_left : ∀ (pre post : List α) (i : Nat), i < pre.length →
    removeAt (pre ++ post) i = (removeAt pre i).map (· ++ post)
  | [], _, _, h => by simp at h
  | p :: pre, post, 0, _ => by simp [removeAt]
  | p :: pre, post, i + 1, h => by
    have := removeAt_append_left pre post i (by simpa using h)
    simp [removeAt, this, Option.map_map, Function.comp_def]

theorem removeAt_length : ∀ (l l' : List α) (i : Nat), removeAt l i = some l' → l'.length + 1 = l.length
  | [], _, _, h => by simp [removeAt] at h
  | _ :: t, l', 0, h => by simp [removeAt] at h; subst h; rfl
  | x :: t, l', i + 1, h => by
    simp only [removeAt, Option.map_eq_some_iff] at h
    obtain ⟨t', ht, rfl⟩ := h
    have := removeAt_length t t' i ht
    simp; omega

/-- indices below `pre.length` never touch what follows -/
theorem removeSeq_append_left : ∀ (is : List Nat) (pre post : List α),
    (∀ i ∈ is, i < pre.length) → is.Pairwise (· > ·) →
    removeSeq (pre ++ post) is = (removeSeq pre is).map (· ++ post)
  | [], pre, post, _, _ => by simp [removeSeq]
  | i :: is, pre, post, hlt, hp => by
    have hi : i < pre.length := hlt i (by simp)
    simp only [removeSeq]
    rw [removeAt_append_left pre post i hi]
    cases hr : removeAt pre i with
    | none => simp
    | some pre' =>
      simp only [Option.map_some]
      have hlen := removeAt_length pre pre' i hr
      have hp' := List.pairwise_cons.mp hp
      apply removeSeq_append_left is pre' post _ hp'.2
      intro j hj
      have := hp'.1 j hj
      omega

theorem keepFrom_append (rm : List Nat) : ∀ (a b : List α) (off : Nat),
    keepFrom rm off (a ++ b) = keepFrom rm off a ++ keepFrom rm (off + a.length) b
  | [], b, off => by simp [keepFrom]
  | x :: a, b, off => by
    simp only [List.cons_append, keepFrom, List.length_cons]
    have := keepFrom_append rm a b (off + 1)
    rw [this]
    have e : off + 1 + a.length = off + (a.length + 1) := by omega
    rw [e]
    split <;> simp

/-- nothing at or beyond `off` is rejected: everything is kept -/
theorem keepFrom_none (rm : List Nat) : ∀ (b : List α) (off : Nat), (∀ i ∈ rm, i < off) → keepFrom rm off b = b
  | [], _, _ => rfl
  | x :: b, off, h => by
    have hc : rm.contains off = false := by
      simp only [List.contains_eq_mem, decide_eq_false_iff_not]
      intro hm
      have := h off hm
      omega
    simp only [keepFrom, hc]
    rw [keepFrom_none rm b (off + 1) (fun i hi => by have := h i hi; omega)]
    rfl

/-- rejecting one more index above all the others only matters at that index -/
theorem keepFrom_cons_above (i : Nat) (is : List Nat) : ∀ (a : List α) (off : Nat), off + a.length ≤ i →
    keepFrom (i :: is) off a = keepFrom is off a
  | [], _, _ => rfl
  | x :: a, off, h => by
    have hne : ¬ (off = i) := by simp at h; omega
    have e : (i :: is).contains off = is.contains off := by
      simp [List.contains_cons, hne]
    simp only [keepFrom, e]
    rw [keepFrom_cons_above i is a (off + 1) (by simp at h; omega)]

/-- removing a strictly descending list of valid indices never fails and leaves exactly the
hits that were not rejected -/
theorem removeSeq_desc : ∀ (is : List Nat) (hits : List α),
    (∀ i ∈ is, i < hits.length) → is.Pairwise (· > ·) →
    removeSeq hits is = some (keepSpec hits is)
  | [], hits, _, _ => by
    simp only [removeSeq, keepSpec]
    rw [keepFrom_none [] hits 0 (by simp)]
  | i :: is, hits, hlt, hp => by
    have hi : i < hits.length := hlt i (by simp)
    have hp' := List.pairwise_cons.mp hp
    -- split the hits at i
    have hsplit : hits = hits.take i ++ hits[i] :: hits.drop (i + 1) := by
      rw [← List.drop_eq_getElem_cons hi, List.take_append_drop]
    have hlen : (hits.take i).length = i := by simp; omega
    simp only [removeSeq]
    have hra : removeAt hits i = some (hits.take i ++ hits.drop (i + 1)) := by
      conv => lhs; rw [hsplit]
      have := removeAt_append_right (hits.take i) hits[i] (hits.drop (i + 1))
      rw [hlen] at this
      exact this
    rw [hra]
    simp only
    have hbelow : ∀ j ∈ is, j < (hits.take i).length := by
      intro j hj
      have := hp'.1 j hj
      omega
    rw [removeSeq_append_left is (hits.take i) (hits.drop (i + 1)) hbelow hp'.2]
    rw [removeSeq_desc is (hits.take i) hbelow hp'.2]
    simp only [Option.map_some, Option.some.injEq, keepSpec]
    -- the specification on the split list
    conv => rhs; rw [hsplit]
    rw [keepFrom_append]
    simp only [Nat.zero_add, hlen, keepFrom]
    have hci : (i :: is).contains i = true := by simp
    simp only [hci, if_true]
    rw [keepFrom_cons_above i is (hits.take i) 0 (by omega)]
    rw [keepFrom_none (i :: is) (hits.drop (i + 1)) (i + 1) (by
      intro j hj
      rcases List.mem_cons.mp hj with rfl | hj
      · omega
      · have := hp'.1 j hj; omega)]

/-! ### the sort -/

theorem mem_insDesc (x : Nat) : ∀ (l : List Nat) (y : Nat), y ∈ insDesc x l ↔ (y = x ∨ y ∈ l)
  | [], y => by simp [insDesc]
  | z :: zs, y => by
    unfold insDesc
    split
    · simp
    · split
      · rename_i h; subst h; simp
      · simp [mem_insDesc x zs y]; constructor
        · rintro (h | h | h)
          · exact Or.inr (Or.inl h)
          · exact Or.inl h
          · exact Or.inr (Or.inr h)
        · rintro (h | h | h)
          · exact Or.inr (Or.inl h)
          · exact Or.inl h
          · exact Or.inr (Or.inr h)

theorem insDesc_pairwise (x : Nat) : ∀ (l : List Nat), l.Pairwise (· > ·) → (insDesc x l).Pairwise (· > ·)
  | [], _ => by simp [insDesc]
  | z :: zs, h => by
    have h' := List.pairwise_cons.mp h
    unfold insDesc
    split
    · rename_i hz
      refine List.pairwise_cons.mpr ⟨?_, h⟩
      intro a ha
      rcases List.mem_cons.mp ha with rfl | ha
      · exact hz
      · have := h'.1 a ha; omega
    · split
      · exact h
      · rename_i h1 h2
        refine List.pairwise_cons.mpr ⟨?_, insDesc_pairwise x zs h'.2⟩
        intro a ha
        rcases (mem_insDesc x zs a).mp ha with rfl | ha
        · omega
        · exact h'.1 a ha

theorem sortDescDedup_spec : ∀ (l : List Nat),
    (sortDescDedup l).Pairwise (· > ·) ∧ ∀ y, y ∈ sortDescDedup l ↔ y ∈ l
  | [] => by simp [sortDescDedup]
  | x :: l => by
    obtain ⟨h1, h2⟩ := sortDescDedup_spec l
    simp only [sortDescDedup, List.foldr_cons] at h1 h2 ⊢
    refine ⟨insDesc_pairwise x _ h1, fun y => ?_⟩
    rw [mem_insDesc, h2]
    simp

/-- the specification only looks at membership -/
theorem keepFrom_congr (rm rm' : List Nat) (h : ∀ y, y ∈ rm ↔ y ∈ rm') : ∀ (a : List α) (off : Nat),
    keepFrom rm off a = keepFrom rm' off a
  | [], _ => rfl
  | x :: a, off => by
    have e : rm.contains off = rm'.contains off := by
      simp only [List.contains_eq_mem]
      exact decide_eq_decide.mpr (h off)
    simp only [keepFrom, e, keepFrom_congr rm rm' h a (off + 1)]

end SL.RescoreDrop
