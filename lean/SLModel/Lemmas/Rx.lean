import SLModel.Core.Query
/-!
# Lemmas/Rx — the repaired `regex_literal_prefix` on patterns `literals ++ stop ++ …`

The regex engine is a parameter of the model, so soundness of the literal-prefix scan can only be
stated relative to a property of the engine (`LiteralHead`).  What is proved here is the part
that belongs to the repository's code: which prefix the scan computes.
-/
namespace SL.Query

/-- a character the scan copies verbatim (no metacharacter, no `\`, no `^`) -/
def isLitC (ch : Nat) : Bool :=
  !(ch == 92 || ch == 94 || ch == 42 || ch == 63 || ch == 123 || ch == 46 || ch == 43 || ch == 40 ||
    ch == 41 || ch == 91 || ch == 93 || ch == 125 || ch == 124 || ch == 36)

def isQuant (ch : Nat) : Bool := ch == 42 || ch == 63 || ch == 123

/-- metacharacters at which the scan stops without touching the prefix -/
def isStop (ch : Nat) : Bool :=
  ch == 46 || ch == 43 || ch == 40 || ch == 41 || ch == 91 || ch == 93 || ch == 125 || ch == 124 || ch == 36

theorem rxPrefixAcc_lits : ∀ (lit acc rest : Str), lit.all isLitC = true →
    rxPrefixAcc false acc (lit ++ rest) = rxPrefixAcc false (lit.reverse ++ acc) rest
  | [], acc, rest, _ => by simp
  | ch :: lit, acc, rest, h => by
    simp only [List.all_cons, Bool.and_eq_true] at h
    have hc := h.1
    simp only [isLitC, Bool.not_eq_true', Bool.or_eq_false_iff, beq_eq_false_iff_ne, ne_eq] at hc
    have ih := rxPrefixAcc_lits lit (ch :: acc) rest h.2
    simp only [List.cons_append, rxPrefixAcc, Bool.false_eq_true, if_false]
    rw [if_neg (by omega), if_neg (by omega), if_neg (by omega), if_neg (by omega), ih]
    simp

/-- literals to the end of the pattern: the whole pattern is the prefix -/
theorem rxPrefixAcc_end (lit : Str) (h : lit.all isLitC = true) :
    rxPrefixAcc false [] lit = lit := by
  have := rxPrefixAcc_lits lit [] [] h
  simp only [List.append_nil] at this
  rw [this]
  simp [rxPrefixAcc]

/-- literals followed by `.`, `+`, a group, a class, …: the literals are the prefix -/
theorem rxPrefixAcc_stop (lit : Str) (q : Nat) (r : Str) (h : lit.all isLitC = true)
    (hq : isStop q = true) : rxPrefixAcc false [] (lit ++ q :: r) = lit := by
  rw [rxPrefixAcc_lits lit [] (q :: r) h]
  simp only [isStop, Bool.or_eq_true, beq_iff_eq] at hq
  simp only [List.append_nil, rxPrefixAcc, Bool.false_eq_true, if_false]
  rw [if_neg (by omega), if_neg (by omega), if_neg (by omega), if_pos (by omega)]
  simp

/-- literals followed by `*`, `?` or `{`: the last literal is optional and not part of the prefix -/
theorem rxPrefixAcc_quant (lit : Str) (q : Nat) (r : Str) (h : lit.all isLitC = true)
    (hq : isQuant q = true) : rxPrefixAcc false [] (lit ++ q :: r) = lit.dropLast := by
  rw [rxPrefixAcc_lits lit [] (q :: r) h]
  simp only [isQuant, Bool.or_eq_true, beq_iff_eq] at hq
  simp only [List.append_nil, rxPrefixAcc, Bool.false_eq_true, if_false]
  rw [if_neg (by omega), if_neg (by omega), if_pos (by omega)]
  simp [List.dropLast_eq_take, List.tail_reverse]

/-- **Property of the regex engine** the scan relies on: a pattern without top-level alternation
that starts with literal characters which are not followed by a quantifier matches only words
starting with these characters. -/
def LiteralHead (rx : Str → Str → Bool) : Prop :=
  ∀ (lit rest t : Str), lit.all isLitC = true → rxTopAlt false 0 false (lit ++ rest) = false →
    (∀ q, rest.head? = some q → isQuant q = false) →
    rx (lit ++ rest) t = true → isPrefix lit t = true

theorem stop_not_quant {q : Nat} (h : isStop q = true) : isQuant q = false := by
  simp only [isStop, Bool.or_eq_true, beq_iff_eq] at h
  simp only [isQuant, Bool.or_eq_false_iff, beq_eq_false_iff_ne, ne_eq]
  omega

theorem lit_not_quant {x : Nat} (h : isLitC x = true) : isQuant x = false := by
  simp only [isLitC, Bool.not_eq_true', Bool.or_eq_false_iff, beq_eq_false_iff_ne, ne_eq] at h
  simp only [isQuant, Bool.or_eq_false_iff, beq_eq_false_iff_ne, ne_eq]
  omega

theorem isPrefix_nil' (t : Str) : isPrefix [] t = true := by cases t <;> rfl

/-- **The repaired literal prefix is sound** for every pattern of the shape
`literals`, `literals stop …` or `literals quantifier …` (this covers `w`, `w.*`, `ws?`,
`w[a-z]+`, `w[a-z]*`, `(a|b)`, `a|b`, `w{2}` …), relative to `LiteralHead`. -/
theorem rxPrefix_sound (rx : Str → Str → Bool) (hrx : LiteralHead rx) (lit rest t : Str)
    (hl : lit.all isLitC = true)
    (hr : rest = [] ∨ ∃ q r, rest = q :: r ∧ (isStop q = true ∨ isQuant q = true))
    (hm : rx (lit ++ rest) t = true) : isPrefix (rxPrefix (lit ++ rest)) t = true := by
  unfold rxPrefix
  cases hta : rxTopAlt false 0 false (lit ++ rest) with
  | true => simp [isPrefix_nil']
  | false =>
    simp only [Bool.false_eq_true, if_false]
    rcases hr with rfl | ⟨q, r, rfl, hq | hq⟩
    · rw [List.append_nil, rxPrefixAcc_end lit hl]
      exact hrx lit [] t hl hta (by simp) hm
    · rw [rxPrefixAcc_stop lit q r hl hq]
      refine hrx lit (q :: r) t hl hta ?_ hm
      intro q' hq'
      simp only [List.head?_cons, Option.some.injEq] at hq'
      rw [← hq']
      exact stop_not_quant hq
    · rw [rxPrefixAcc_quant lit q r hl hq]
      by_cases hne : lit = []
      · subst hne; simp [isPrefix_nil']
      · have hsplit : lit.dropLast ++ [lit.getLast hne] = lit := List.dropLast_concat_getLast hne
        have hl' : lit.dropLast.all isLitC = true ∧ isLitC (lit.getLast hne) = true := by
          rw [← hsplit] at hl
          simpa [List.all_append] using hl
        have heq : lit ++ q :: r = lit.dropLast ++ (lit.getLast hne :: q :: r) := by
          conv => lhs; rw [← hsplit]
          simp
        rw [heq] at hta hm
        refine hrx lit.dropLast (lit.getLast hne :: q :: r) t hl'.1 hta ?_ hm
        intro q' hq'
        simp only [List.head?_cons, Option.some.injEq] at hq'
        rw [← hq']
        exact lit_not_quant hl'.2

end SL.Query
