import SLModel.Core.Aggs
import SLModel.Lemmas.ISort
/-!
# Key-sorted association lists: lookup semantics and extensionality

`insertWith` / `unionWith` / `keySet` of `Core/Aggs` over a strict total order `lt`:
sortedness is preserved, `look` (lookup) commutes with them pointwise, and two sorted lists
with the same lookups are equal (`ext`).  Everything about bucket maps in C12/C30 is reduced to
pointwise reasoning about `look` with these lemmas.
-/
namespace SL.Aggs
open SL.ISort (StrictTotal asymm)

section
variable {α β : Type} {lt : α → α → Bool}

/-- keys strictly increasing -/
def KSorted (lt : α → α → Bool) (l : List (α × β)) : Prop :=
  (l.map (·.1)).Pairwise (fun a b => lt a b = true)

def look [DecidableEq α] (k : α) : List (α × β) → Option β
  | [] => none
  | (k', v) :: t => if k = k' then some v else look k t

theorem ksorted_nil : KSorted lt ([] : List (α × β)) := by simp [KSorted]

theorem ksorted_cons {k : α} {v : β} {t : List (α × β)} :
    KSorted lt ((k, v) :: t) ↔ (∀ kv ∈ t, lt k kv.1 = true) ∧ KSorted lt t := by
  simp [KSorted, List.pairwise_cons]

theorem ksorted_tail {kv : α × β} {t : List (α × β)} (h : KSorted lt (kv :: t)) : KSorted lt t := by
  cases kv; exact (ksorted_cons.mp h).2

set_option linter.unusedSectionVars false
variable [DecidableEq α]

theorem look_none_of_forall_ne {k : α} {l : List (α × β)} (h : ∀ kv ∈ l, kv.1 ≠ k) :
    look k l = none := by
  induction l with
  | nil => rfl
  | cons kv t ih =>
    obtain ⟨k', v⟩ := kv
    have h1 : k ≠ k' := fun e => h (k', v) (by simp) e.symm
    simp only [look, h1, if_false]
    exact ih (fun kv hkv => h kv (by simp [hkv]))

/-- a key below the head of a sorted list is absent -/
theorem look_none_of_lt (hst : StrictTotal lt) {k k' : α} {v' : β} {t : List (α × β)}
    (hs : KSorted lt ((k', v') :: t)) (hlt : lt k k' = true) : look k ((k', v') :: t) = none := by
  apply look_none_of_forall_ne
  intro kv hkv e
  rcases List.mem_cons.mp hkv with rfl | hm
  · simp at e; subst e; rw [hst.irrefl] at hlt; exact absurd hlt (by simp)
  · have h1 := (ksorted_cons.mp hs).1 kv hm
    rw [e] at h1
    have := hst.trans k k' k hlt h1
    rw [hst.irrefl] at this; exact absurd this (by simp)

/-- the head key of a sorted list does not occur in the tail -/
theorem look_head_tail (hst : StrictTotal lt) {k : α} {v : β} {t : List (α × β)}
    (hs : KSorted lt ((k, v) :: t)) : look k t = none := by
  apply look_none_of_forall_ne
  intro kv hkv e
  have h1 := (ksorted_cons.mp hs).1 kv hkv
  rw [e, hst.irrefl] at h1; exact absurd h1 (by simp)

theorem mem_of_look_some {k : α} {v : β} {l : List (α × β)} (h : look k l = some v) : (k, v) ∈ l := by
  induction l with
  | nil => simp [look] at h
  | cons kv t ih =>
    obtain ⟨k', v'⟩ := kv
    by_cases e : k = k'
    · subst e; simp [look] at h; subst h; simp
    · simp only [look, e, if_false] at h; exact List.mem_cons_of_mem _ (ih h)

theorem look_of_mem (hst : StrictTotal lt) {k : α} {v : β} {l : List (α × β)} (hs : KSorted lt l)
    (hm : (k, v) ∈ l) : look k l = some v := by
  induction l with
  | nil => simp at hm
  | cons kv t ih =>
    obtain ⟨k', v'⟩ := kv
    rcases List.mem_cons.mp hm with e | hm'
    · simp at e; obtain ⟨rfl, rfl⟩ := e; simp [look]
    · have hlt := (ksorted_cons.mp hs).1 (k, v) hm'
      have hne : k ≠ k' := by
        intro e; subst e; simp [hst.irrefl] at hlt
      simp only [look, hne, if_false]
      exact ih (ksorted_tail hs) hm'

theorem mem_insertWith {f : β → β → β} {k : α} {v : β} {l : List (α × β)} {kv : α × β}
    (h : kv ∈ insertWith lt f k v l) : kv.1 = k ∨ kv ∈ l ∨ ∃ v0, (kv.1, v0) ∈ l := by
  induction l with
  | nil => simp [insertWith] at h; subst h; exact Or.inl rfl
  | cons hd t ih =>
    obtain ⟨k', v'⟩ := hd
    unfold insertWith at h
    split at h
    · rcases List.mem_cons.mp h with rfl | h
      · exact Or.inl rfl
      · exact Or.inr (Or.inl h)
    · split at h
      · rcases List.mem_cons.mp h with rfl | h
        · exact Or.inr (Or.inl (by simp))
        · rcases ih h with h | h | ⟨v0, h⟩
          · exact Or.inl h
          · exact Or.inr (Or.inl (List.mem_cons_of_mem _ h))
          · exact Or.inr (Or.inr ⟨v0, List.mem_cons_of_mem _ h⟩)
      · rcases List.mem_cons.mp h with rfl | h
        · exact Or.inr (Or.inr ⟨v', by simp⟩)
        · exact Or.inr (Or.inl (List.mem_cons_of_mem _ h))

theorem ksorted_insertWith (hst : StrictTotal lt) (f : β → β → β) (k : α) (v : β)
    {l : List (α × β)} (hs : KSorted lt l) : KSorted lt (insertWith lt f k v l) := by
  induction l with
  | nil => simp [insertWith, KSorted]
  | cons hd t ih =>
    obtain ⟨k', v'⟩ := hd
    have hs' := ksorted_cons.mp hs
    unfold insertWith
    split
    · rename_i hlt
      refine ksorted_cons.mpr ⟨?_, hs⟩
      intro kv hkv
      rcases List.mem_cons.mp hkv with rfl | hm
      · exact hlt
      · exact hst.trans _ _ _ hlt (hs'.1 kv hm)
    · split
      · rename_i _ hgt
        refine ksorted_cons.mpr ⟨?_, ih hs'.2⟩
        intro kv hkv
        rcases mem_insertWith hkv with h | h | ⟨v0, h⟩
        · rw [h]; exact hgt
        · exact hs'.1 kv h
        · exact hs'.1 (kv.1, v0) h
      · exact ksorted_cons.mpr ⟨hs'.1, hs'.2⟩

/-- trichotomy: neither below nor above means equal -/
theorem eq_of_not_lt (hst : StrictTotal lt) {a b : α} (h1 : lt a b = false) (h2 : lt b a = false) :
    a = b := by
  apply Classical.byContradiction
  intro hne
  rcases hst.total a b hne with h | h
  · rw [h1] at h; exact absurd h (by simp)
  · rw [h2] at h; exact absurd h (by simp)

theorem look_insertWith (hst : StrictTotal lt) (f : β → β → β) (k : α) (v : β)
    {l : List (α × β)} (hs : KSorted lt l) (k' : α) :
    look k' (insertWith lt f k v l) =
      if k' = k then some (match look k l with | some v0 => f v0 v | none => v) else look k' l := by
  induction l with
  | nil =>
    by_cases e : k' = k
    · subst e; simp [insertWith, look]
    · simp [insertWith, look, e]
  | cons hd t ih =>
    obtain ⟨kh, vh⟩ := hd
    have hs' := ksorted_cons.mp hs
    unfold insertWith
    split
    · rename_i hlt
      have hnone := look_none_of_lt hst hs hlt
      by_cases e : k' = k
      · subst e; rw [if_pos rfl, hnone]; simp [look]
      · rw [if_neg e]; simp only [look, e, if_false]
    · rename_i hnlt
      have hnlt : lt k kh = false := by simpa using hnlt
      split
      · rename_i hgt
        have hne : k ≠ kh := by
          intro e; subst e; rw [hst.irrefl] at hgt; exact absurd hgt (by simp)
        by_cases e : k' = k
        · subst e
          simp only [look, hne, if_false, ih hs'.2, if_true]
        · by_cases e2 : k' = kh
          · subst e2; simp [look, e]
          · simp only [look, e2, if_false, ih hs'.2, e]
      · rename_i hngt
        have hngt : lt kh k = false := by simpa using hngt
        have heq : k = kh := eq_of_not_lt hst hnlt hngt
        subst heq
        by_cases e : k' = k
        · subst e; simp [look]
        · simp [look, e]

/-- combination of the two sides of a union -/
def optUnion (f : β → β → β) : Option β → Option β → Option β
  | some x, some y => some (f x y)
  | some x, none => some x
  | none, some y => some y
  | none, none => none

theorem ksorted_unionWith (hst : StrictTotal lt) (f : β → β → β) {a : List (α × β)}
    (b : List (α × β)) (ha : KSorted lt a) : KSorted lt (unionWith lt f a b) := by
  unfold unionWith
  induction b generalizing a with
  | nil => simpa using ha
  | cons kv t ih =>
    simp only [List.foldl_cons]
    exact ih (ksorted_insertWith hst f kv.1 kv.2 ha)

theorem look_unionWith (hst : StrictTotal lt) (f : β → β → β) {a b : List (α × β)}
    (ha : KSorted lt a) (hb : KSorted lt b) (k : α) :
    look k (unionWith lt f a b) = optUnion f (look k a) (look k b) := by
  unfold unionWith
  induction b generalizing a with
  | nil => simp only [List.foldl_nil, look]; cases look k a <;> rfl
  | cons kv t ih =>
    obtain ⟨kb, vb⟩ := kv
    simp only [List.foldl_cons]
    rw [ih (ksorted_insertWith hst f kb vb ha) (ksorted_tail hb), look_insertWith hst f kb vb ha]
    have htail : look kb t = none := look_head_tail hst hb
    by_cases e : k = kb
    · subst e
      simp only [if_true, look, htail]
      cases look k a <;> rfl
    · simp only [e, if_false, look]

theorem ext (hst : StrictTotal lt) {a b : List (α × β)} (ha : KSorted lt a) (hb : KSorted lt b)
    (h : ∀ k, look k a = look k b) : a = b := by
  induction a generalizing b with
  | nil =>
    cases b with
    | nil => rfl
    | cons kv t =>
      obtain ⟨k, v⟩ := kv
      have := h k
      simp [look] at this
  | cons kva ta ih =>
    obtain ⟨ka, va⟩ := kva
    cases b with
    | nil =>
      have := h ka
      simp [look] at this
    | cons kvb tb =>
      obtain ⟨kb, vb⟩ := kvb
      have hka : ka = kb := by
        apply Classical.byContradiction
        intro hne
        rcases hst.total ka kb hne with hlt | hlt
        · have h1 := h ka
          rw [look_none_of_lt hst hb hlt] at h1
          simp [look] at h1
        · have h1 := h kb
          rw [look_none_of_lt hst ha hlt] at h1
          simp [look] at h1
      subst hka
      have hv : va = vb := by
        have := h ka
        simpa [look] using this
      subst hv
      have htl : ta = tb := by
        apply ih (ksorted_tail ha) (ksorted_tail hb)
        intro k
        by_cases e : k = ka
        · subst e; rw [look_head_tail hst ha, look_head_tail hst hb]
        · have := h k
          simpa [look, e] using this
      rw [htl]

theorem ksorted_filter (p : α × β → Bool) {l : List (α × β)} (hs : KSorted lt l) :
    KSorted lt (l.filter p) := by
  unfold KSorted at *
  exact hs.sublist (List.Sublist.map _ List.filter_sublist)

theorem look_filter (hst : StrictTotal lt) (p : α × β → Bool) {l : List (α × β)}
    (hs : KSorted lt l) (k : α) :
    look k (l.filter p) = (look k l).bind (fun v => if p (k, v) then some v else none) := by
  induction l with
  | nil => rfl
  | cons kv t ih =>
    obtain ⟨k', v'⟩ := kv
    have ih := ih (ksorted_tail hs)
    by_cases e : k = k'
    · subst e
      have hnone : look k t = none := look_head_tail hst hs
      cases hp : p (k, v') with
      | true => simp [List.filter_cons, hp, look]
      | false =>
        rw [List.filter_cons, hp]
        simp only [Bool.false_eq_true, if_false]
        rw [ih, hnone]
        simp [look, hp]
    · cases hp : p (k', v') with
      | true =>
        rw [List.filter_cons, hp]
        simp only [if_true, look, e, if_false]
        exact ih
      | false =>
        rw [List.filter_cons, hp]
        simp only [Bool.false_eq_true, if_false, look, e]
        exact ih

theorem ksorted_mapVal {γ : Type} (g : α × β → γ) {l : List (α × β)} (hs : KSorted lt l) :
    KSorted lt (l.map (fun kv => (kv.1, g kv))) := by
  unfold KSorted at *
  simpa [List.map_map, Function.comp_def] using hs

theorem look_mapVal {γ : Type} (g : α × β → γ) (l : List (α × β)) (k : α) :
    look k (l.map (fun kv => (kv.1, g kv))) = (look k l).map (fun v => g (k, v)) := by
  induction l with
  | nil => rfl
  | cons kv t ih =>
    obtain ⟨k', v'⟩ := kv
    by_cases e : k = k'
    · subst e; simp [look]
    · simp [look, e, ih]

theorem keySet_fold (hst : StrictTotal lt) (ks : List α) {acc : List (α × Unit)}
    (hacc : KSorted lt acc) :
    KSorted lt (ks.foldl (fun acc k => insertWith lt (fun _ _ => ()) k () acc) acc) ∧
    ∀ k, look k (ks.foldl (fun acc k => insertWith lt (fun _ _ => ()) k () acc) acc) =
      if k ∈ ks then some () else look k acc := by
  induction ks generalizing acc with
  | nil => exact ⟨hacc, fun k => by simp⟩
  | cons x xs ih =>
    simp only [List.foldl_cons]
    have hs1 := ksorted_insertWith hst (fun _ _ => ()) x () hacc
    obtain ⟨h1, h2⟩ := ih hs1
    refine ⟨h1, ?_⟩
    intro k
    rw [h2, look_insertWith hst _ _ _ hacc]
    by_cases e : k = x
    · subst e; simp
    · by_cases hm : k ∈ xs
      · simp [hm]
      · simp [hm, e]

theorem ksorted_keySet (hst : StrictTotal lt) (ks : List α) : KSorted lt (keySet lt ks) :=
  (keySet_fold hst ks (ksorted_nil (β := Unit))).1

theorem look_keySet (hst : StrictTotal lt) (ks : List α) (k : α) :
    look k (keySet lt ks) = if k ∈ ks then some () else none := by
  have := (keySet_fold hst ks (ksorted_nil (β := Unit))).2 k
  unfold keySet
  rw [this]
  simp [look]

/-- the set depends only on which keys occur -/
theorem keySet_congr (hst : StrictTotal lt) {ks ks' : List α} (h : ∀ k, k ∈ ks ↔ k ∈ ks') :
    keySet lt ks = keySet lt ks' := by
  apply ext hst (ksorted_keySet hst ks) (ksorted_keySet hst ks')
  intro k
  rw [look_keySet hst, look_keySet hst]
  by_cases hm : k ∈ ks
  · simp [hm, (h k).mp hm]
  · have : k ∉ ks' := fun h' => hm ((h k).mpr h')
    simp [hm, this]

end

end SL.Aggs
