import SLModel.Core.Script
/-! Lemmas about the script compiler and evaluator (`Core/Script`), used by `Props/C16`. -/
namespace SL.Script

/-! ### the tokenizer's fuel -/

theorem takeNum_len : ∀ (cs : List Nat) (dots : Nat) (acc lit rest : List Nat),
    takeNum cs dots acc = some (lit, rest) → rest.length ≤ cs.length
  | [], _, acc, lit, rest, h => by simp [takeNum] at h; simp [← h.2]
  | c :: cs, dots, acc, lit, rest, h => by
    unfold takeNum at h
    split at h
    · have := takeNum_len cs _ _ _ _ h; simp; omega
    · split at h
      · split at h
        · simp at h
        · have := takeNum_len cs _ _ _ _ h; simp; omega
      · simp at h; simp [← h.2]

theorem readNumber_len (first : Nat) (cs lit rest : List Nat) (h : readNumber first cs = some (lit, rest)) :
    rest.length ≤ cs.length := by
  unfold readNumber at h
  simp only at h
  split at h
  · simp at h
  · rename_i l r hn
    split at h
    · simp at h
      rw [← h.2]
      exact takeNum_len _ _ _ _ _ hn
    · simp at h

theorem takeIdent_len : ∀ (cs acc : List Nat), (takeIdent cs acc).2.length ≤ cs.length
  | [], acc => by simp [takeIdent]
  | c :: cs, acc => by
    unfold takeIdent
    split
    · have := takeIdent_len cs (c :: acc); simp; omega
    · simp

/-- more fuel than characters never changes the result of the tokenizer loop -/
theorem tokenizeGo_fuel : ∀ (f1 f2 : Nat) (input : List Nat) (expect : Bool) (acc : List Tok),
    input.length < f1 → input.length < f2 → tokenizeGo f1 input expect acc = tokenizeGo f2 input expect acc
  | 0, _, _, _, _, h1, _ => by omega
  | _, 0, _, _, _, _, h2 => by omega
  | a + 1, b + 1, [], expect, acc, _, _ => by simp [tokenizeGo]
  | a + 1, b + 1, c :: cs, expect, acc, h1, h2 => by
    have hl1 : cs.length < a := by simp at h1; omega
    have hl2 : cs.length < b := by simp at h2; omega
    have ih := fun (r : List Nat) (e : Bool) (ac : List Tok) (hr : r.length ≤ cs.length) =>
      tokenizeGo_fuel a b r e ac (by omega) (by omega)
    simp only [tokenizeGo]
    repeat' split
    all_goals first
      | rfl
      | (apply ih; first | exact Nat.le_refl _ | (simp; done))
      | (rename_i hrn; apply ih; have := readNumber_len _ _ _ _ hrn; simp at this ⊢; omega)
      | (rename_i hst
         have hc : isIdentCont c = true := by
           simp only [isIdentStart, isIdentCont, Bool.or_eq_true] at hst ⊢
           rcases hst with h | h
           · exact Or.inl (Or.inl h)
           · exact Or.inr h
         have he : takeIdent (c :: cs) [] = takeIdent cs [c] := by simp [takeIdent, hc]
         rw [he]
         apply ih
         exact takeIdent_len cs [c])
/-! ### static depth -/

theorem tdepth_append : ∀ (a b : List Tok) (d : Nat),
    tdepth (a ++ b) d = (tdepth a d).bind (tdepth b)
  | [], b, d => by simp [tdepth]
  | .num _ _ :: a, b, d => by simp [tdepth, tdepth_append a b]
  | .ident _ :: a, b, d => by simp [tdepth, tdepth_append a b]
  | .lp :: a, b, d => by simp [tdepth, tdepth_append a b]
  | .rp :: a, b, d => by simp [tdepth, tdepth_append a b]
  | .op .neg :: a, b, d => by
    simp only [List.cons_append, tdepth]
    split
    · rfl
    · exact tdepth_append a b d
  | .op .add :: a, b, d => by
    simp only [List.cons_append, tdepth]
    split
    · rfl
    · exact tdepth_append a b _
  | .op .sub :: a, b, d => by
    simp only [List.cons_append, tdepth]
    split
    · rfl
    · exact tdepth_append a b _
  | .op .mul :: a, b, d => by
    simp only [List.cons_append, tdepth]
    split
    · rfl
    · exact tdepth_append a b _
  | .op .div :: a, b, d => by
    simp only [List.cons_append, tdepth]
    split
    · rfl
    · exact tdepth_append a b _

theorem depth_append : ∀ (a b : List Instr) (d : Nat),
    depth (a ++ b) d = (depth a d).bind (depth b)
  | [], b, d => by simp [depth]
  | i :: a, b, d => by
    cases i <;> simp only [List.cons_append, depth] <;>
      first
      | exact depth_append a b _
      | (split
         · rfl
         · exact depth_append a b _)

/-- pushing an operand token behind an output of depth `d` -/
theorem tdepth_snoc_operand (out : List Tok) (t : Tok) (d : Nat) (ht : (∃ n l, t = .num n l) ∨ ∃ s, t = .ident s)
    (h : tdepth out.reverse 0 = some d) : tdepth (t :: out).reverse 0 = some (d + 1) := by
  rw [List.reverse_cons, tdepth_append, h]
  rcases ht with ⟨n, l, rfl⟩ | ⟨s, rfl⟩ <;> simp [tdepth]

theorem tdepth_snoc_op (out : List Tok) (o : Op) (d : Nat) (h : tdepth out.reverse 0 = some d) :
    tdepth (.op o :: out).reverse 0 =
      (if o = .neg then (if d < 1 then none else some d) else (if d < 2 then none else some (d - 1))) := by
  rw [List.reverse_cons, tdepth_append, h]
  cases o <;> simp [tdepth] <;> split <;> simp_all

/-! ### the operator stack -/

/-- binary operators on the stack -/
def nb : List Tok → Nat
  | [] => 0
  | .op .neg :: r => nb r
  | .op _ :: r => nb r + 1
  | _ :: r => nb r

/-- open parentheses on the stack -/
def nlp : List Tok → Nat
  | [] => 0
  | .lp :: r => nlp r + 1
  | _ :: r => nlp r

/-- the stack holds operators and `(` only -/
def opsOk : List Tok → Bool
  | [] => true
  | .op _ :: r => opsOk r
  | .lp :: r => opsOk r
  | _ :: _ => false

/-- moving the top operator of the stack to the output keeps `depth(out) = nb(ops) + 1` -/
theorem tdepth_push_top (out ops : List Tok) (top : Op)
    (h : tdepth out.reverse 0 = some (nb (.op top :: ops) + 1)) :
    tdepth (.op top :: out).reverse 0 = some (nb ops + 1) := by
  rw [List.reverse_cons, tdepth_append, h]
  cases top <;> simp [tdepth, nb]

theorem popOps_neg (ops out : List Tok) : popOps .neg ops out = (ops, out) := by
  unfold popOps
  split
  · rename_i top ops'
    cases top <;> simp [Op.prec, Op.rightAssoc]
  · rfl

/-- popping for a binary operator keeps the invariant `depth(out) = nb(ops) + 1` -/
theorem popOps_inv (o : Op) : ∀ (ops out : List Tok), opsOk ops = true →
    tdepth out.reverse 0 = some (nb ops + 1) →
    opsOk (popOps o ops out).1 = true ∧ nlp (popOps o ops out).1 = nlp ops ∧
      tdepth (popOps o ops out).2.reverse 0 = some (nb (popOps o ops out).1 + 1)
  | [], out, _, h => by simpa [popOps, nb, opsOk] using h
  | .lp :: ops, out, hk, h => by simpa [popOps] using ⟨hk, h⟩
  | .rp :: ops, out, hk, _ => by simp [opsOk] at hk
  | .num _ _ :: ops, out, hk, _ => by simp [opsOk] at hk
  | .ident _ :: ops, out, hk, _ => by simp [opsOk] at hk
  | .op top :: ops, out, hk, h => by
    unfold popOps
    split
    · have hk' : opsOk ops = true := by simpa [opsOk] using hk
      have hd : tdepth (.op top :: out).reverse 0 = some (nb ops + 1) :=
        tdepth_push_top out ops top h
      have := popOps_inv o ops (.op top :: out) hk' hd
      refine ⟨this.1, ?_, this.2.2⟩
      rw [this.2.1]
      simp [nlp]
    · exact ⟨hk, rfl, h⟩

theorem popToParen_inv : ∀ (ops out : List Tok), opsOk ops = true → 0 < nlp ops →
    tdepth out.reverse 0 = some (nb ops + 1) →
    ∃ ops' out', popToParen ops out = some (ops', out') ∧ opsOk ops' = true ∧ nlp ops' + 1 = nlp ops ∧
      tdepth out'.reverse 0 = some (nb ops' + 1)
  | [], out, _, hn, _ => by simp [nlp] at hn
  | .lp :: ops, out, hk, _, h => by
    refine ⟨ops, out, rfl, by simpa [opsOk] using hk, by simp [nlp], by simpa [nb] using h⟩
  | .rp :: ops, out, hk, _, _ => by simp [opsOk] at hk
  | .num _ _ :: ops, out, hk, _, _ => by simp [opsOk] at hk
  | .ident _ :: ops, out, hk, _, _ => by simp [opsOk] at hk
  | .op top :: ops, out, hk, hn, h => by
    have hk' : opsOk ops = true := by simpa [opsOk] using hk
    have hd : tdepth (.op top :: out).reverse 0 = some (nb ops + 1) :=
        tdepth_push_top out ops top h
    obtain ⟨ops', out', h1, h2, h3, h4⟩ := popToParen_inv ops (.op top :: out) hk' (by simpa [nlp] using hn) hd
    exact ⟨ops', out', by simpa [popToParen] using h1, h2, by simpa [nlp] using h3, h4⟩

theorem flushOps_inv : ∀ (ops out : List Tok), opsOk ops = true → nlp ops = 0 →
    tdepth out.reverse 0 = some (nb ops + 1) →
    ∃ out', flushOps ops out = some out' ∧ tdepth out'.reverse 0 = some 1
  | [], out, _, _, h => ⟨out, rfl, by simpa [nb] using h⟩
  | .lp :: ops, out, _, hn, _ => by simp [nlp] at hn
  | .rp :: ops, out, hk, _, _ => by simp [opsOk] at hk
  | .num _ _ :: ops, out, hk, _, _ => by simp [opsOk] at hk
  | .ident _ :: ops, out, hk, _, _ => by simp [opsOk] at hk
  | .op top :: ops, out, hk, hn, h => by
    have hk' : opsOk ops = true := by simpa [opsOk] using hk
    have hd : tdepth (.op top :: out).reverse 0 = some (nb ops + 1) :=
        tdepth_push_top out ops top h
    obtain ⟨out', h1, h2⟩ := flushOps_inv ops (.op top :: out) hk' (by simpa [nlp] using hn) hd
    exact ⟨out', by simpa [flushOps] using h1, h2⟩

/-- the main invariant of `shunting_yard` on a well-formed token list -/
theorem shuntGo_wf : ∀ (ts ops out : List Tok) (expect : Bool) (opn : Nat),
    wf ts expect opn = true → opsOk ops = true → nlp ops = opn →
    tdepth out.reverse 0 = some (nb ops + (if expect then 0 else 1)) →
    ∃ rpn, shuntGo ts ops out = some rpn ∧ tdepth rpn 0 = some 1
  | [], ops, out, expect, opn, hw, hk, hn, hd => by
    simp only [wf, Bool.and_eq_true, Bool.not_eq_true', beq_iff_eq] at hw
    obtain ⟨he, ho⟩ := hw
    subst he ho
    obtain ⟨out', h1, h2⟩ := flushOps_inv ops out hk hn (by simpa using hd)
    exact ⟨out'.reverse, by simp [shuntGo, h1], h2⟩
  | .num n l :: ts, ops, out, expect, opn, hw, hk, hn, hd => by
    simp only [wf, Bool.and_eq_true] at hw
    obtain ⟨he, hw⟩ := hw
    subst he
    have hd' := tdepth_snoc_operand out (.num n l) _ (Or.inl ⟨n, l, rfl⟩) hd
    simpa [shuntGo] using shuntGo_wf ts ops (.num n l :: out) false opn hw hk hn (by simpa using hd')
  | .ident s :: ts, ops, out, expect, opn, hw, hk, hn, hd => by
    simp only [wf, Bool.and_eq_true] at hw
    obtain ⟨he, hw⟩ := hw
    subst he
    have hd' := tdepth_snoc_operand out (.ident s) _ (Or.inr ⟨s, rfl⟩) hd
    simpa [shuntGo] using shuntGo_wf ts ops (.ident s :: out) false opn hw hk hn (by simpa using hd')
  | .lp :: ts, ops, out, expect, opn, hw, hk, hn, hd => by
    simp only [wf, Bool.and_eq_true] at hw
    obtain ⟨he, hw⟩ := hw
    subst he
    simpa [shuntGo] using shuntGo_wf ts (.lp :: ops) out true (opn + 1) hw (by simpa [opsOk] using hk)
      (by simp [nlp, hn]) (by simpa [nb] using hd)
  | .rp :: ts, ops, out, expect, opn, hw, hk, hn, hd => by
    simp only [wf, Bool.and_eq_true, Bool.not_eq_true', decide_eq_true_eq] at hw
    obtain ⟨⟨he, ho⟩, hw⟩ := hw
    subst he
    obtain ⟨ops', out', h1, h2, h3, h4⟩ := popToParen_inv ops out hk (by omega) (by simpa using hd)
    obtain ⟨rpn, hr1, hr2⟩ := shuntGo_wf ts ops' out' false (opn - 1) hw h2 (by omega) (by simpa using h4)
    exact ⟨rpn, by simp [shuntGo, h1, hr1], hr2⟩
  | .op .neg :: ts, ops, out, expect, opn, hw, hk, hn, hd => by
    simp only [wf, Bool.and_eq_true] at hw
    obtain ⟨he, hw⟩ := hw
    subst he
    simp only [shuntGo, popOps_neg]
    exact shuntGo_wf ts (.op .neg :: ops) out true opn hw (by simpa [opsOk] using hk) (by simpa [nlp] using hn)
      (by simpa [nb] using hd)
  | .op .add :: ts, ops, out, expect, opn, hw, hk, hn, hd => by
    simp only [wf, Bool.and_eq_true, Bool.not_eq_true'] at hw
    obtain ⟨he, hw⟩ := hw
    subst he
    obtain ⟨i1, i2, i3⟩ := popOps_inv .add ops out hk (by simpa using hd)
    simp only [shuntGo]
    exact shuntGo_wf ts (.op .add :: (popOps .add ops out).1) (popOps .add ops out).2 true opn hw
      (by simpa [opsOk] using i1) (by simpa [nlp, hn] using i2) (by simpa [nb] using i3)
  | .op .sub :: ts, ops, out, expect, opn, hw, hk, hn, hd => by
    simp only [wf, Bool.and_eq_true, Bool.not_eq_true'] at hw
    obtain ⟨he, hw⟩ := hw
    subst he
    obtain ⟨i1, i2, i3⟩ := popOps_inv .sub ops out hk (by simpa using hd)
    simp only [shuntGo]
    exact shuntGo_wf ts (.op .sub :: (popOps .sub ops out).1) (popOps .sub ops out).2 true opn hw
      (by simpa [opsOk] using i1) (by simpa [nlp, hn] using i2) (by simpa [nb] using i3)
  | .op .mul :: ts, ops, out, expect, opn, hw, hk, hn, hd => by
    simp only [wf, Bool.and_eq_true, Bool.not_eq_true'] at hw
    obtain ⟨he, hw⟩ := hw
    subst he
    obtain ⟨i1, i2, i3⟩ := popOps_inv .mul ops out hk (by simpa using hd)
    simp only [shuntGo]
    exact shuntGo_wf ts (.op .mul :: (popOps .mul ops out).1) (popOps .mul ops out).2 true opn hw
      (by simpa [opsOk] using i1) (by simpa [nlp, hn] using i2) (by simpa [nb] using i3)
  | .op .div :: ts, ops, out, expect, opn, hw, hk, hn, hd => by
    simp only [wf, Bool.and_eq_true, Bool.not_eq_true'] at hw
    obtain ⟨he, hw⟩ := hw
    subst he
    obtain ⟨i1, i2, i3⟩ := popOps_inv .div ops out hk (by simpa using hd)
    simp only [shuntGo]
    exact shuntGo_wf ts (.op .div :: (popOps .div ops out).1) (popOps .div ops out).2 true opn hw
      (by simpa [opsOk] using i1) (by simpa [nlp, hn] using i2) (by simpa [nb] using i3)

/-! ### `emit` -/

theorem indexOf_lt (x : List Nat) : ∀ (ys : List (List Nat)) (i j : Nat),
    indexOf x ys i = some j → j < i + ys.length
  | [], _, _, h => by simp [indexOf] at h
  | y :: ys, i, j, h => by
    unfold indexOf at h
    split at h
    · simp at h; subst h; simp
    · have := indexOf_lt x ys (i + 1) j h
      simp; omega

/-- index bounds of the operand instructions -/
def instrOk (nParams nFields : Nat) : Instr → Bool
  | .pushParam i => i < nParams
  | .pushField i => i < nFields
  | _ => true

theorem instrOk_mono (np nf nf' : Nat) (h : nf ≤ nf') (i : Instr) (hi : instrOk np nf i = true) :
    instrOk np nf' i = true := by
  cases i <;> simp_all [instrOk]
  omega

/-- `emit` appends to `acc`: the result is `acc.reverse ++ new`, `new` has the depth effect of
the tokens, every index is in range of the final tables, and the field table only grows -/
theorem emit_spec (params nfast : List (List Nat)) : ∀ (ts : List Tok) (fields : List (List Nat)) (acc : List Instr)
    (instrs : List Instr) (fields' : List (List Nat)),
    emit params nfast ts fields acc = some (instrs, fields') →
    (∀ i ∈ acc, instrOk params.length fields.length i = true) →
    fields.length ≤ fields'.length ∧ (∀ i ∈ instrs, instrOk params.length fields'.length i = true) ∧
      ∃ new, instrs = acc.reverse ++ new ∧ ∀ d, depth new d = tdepth ts d
  | [], fields, acc, instrs, fields', h, hacc => by
    simp only [emit, Option.some.injEq, Prod.mk.injEq] at h
    obtain ⟨rfl, rfl⟩ := h
    exact ⟨Nat.le_refl _, by simpa using hacc, [], by simp, fun d => by simp [depth, tdepth]⟩
  | .num n l :: ts, fields, acc, instrs, fields', h, hacc => by
    simp only [emit] at h
    obtain ⟨h1, h2, new, h3, h4⟩ := emit_spec params nfast ts fields (.pushConst n l :: acc) instrs fields' h
      (by intro i hi; rcases List.mem_cons.mp hi with rfl | hi; · rfl
          · exact hacc i hi)
    exact ⟨h1, h2, .pushConst n l :: new, by simp [h3], fun d => by simp [depth, tdepth, h4]⟩
  | .ident name :: ts, fields, acc, instrs, fields', h, hacc => by
    simp only [emit] at h
    split at h
    · obtain ⟨h1, h2, new, h3, h4⟩ := emit_spec params nfast ts fields (.pushScore :: acc) instrs fields' h
        (by intro i hi; rcases List.mem_cons.mp hi with rfl | hi; · rfl
            · exact hacc i hi)
      exact ⟨h1, h2, .pushScore :: new, by simp [h3], fun d => by simp [depth, tdepth, h4]⟩
    · split at h
      · rename_i i hi
        have hlt := indexOf_lt name params 0 i hi
        obtain ⟨h1, h2, new, h3, h4⟩ := emit_spec params nfast ts fields (.pushParam i :: acc) instrs fields' h
          (by intro j hj; rcases List.mem_cons.mp hj with rfl | hj
              · simpa [instrOk] using hlt
              · exact hacc j hj)
        exact ⟨h1, h2, .pushParam i :: new, by simp [h3], fun d => by simp [depth, tdepth, h4]⟩
      · split at h
        · split at h
          · rename_i i hi
            have hlt := indexOf_lt name fields 0 i hi
            obtain ⟨h1, h2, new, h3, h4⟩ := emit_spec params nfast ts fields (.pushField i :: acc) instrs fields' h
              (by intro j hj; rcases List.mem_cons.mp hj with rfl | hj
                  · simpa [instrOk] using hlt
                  · exact hacc j hj)
            exact ⟨h1, h2, .pushField i :: new, by simp [h3], fun d => by simp [depth, tdepth, h4]⟩
          · obtain ⟨h1, h2, new, h3, h4⟩ := emit_spec params nfast ts (fields ++ [name]) (.pushField fields.length :: acc)
              instrs fields' h
              (by intro j hj; rcases List.mem_cons.mp hj with rfl | hj
                  · simp [instrOk]
                  · exact instrOk_mono _ _ _ (by simp) j (hacc j hj))
            exact ⟨by simp at h1; omega, h2, .pushField fields.length :: new, by simp [h3],
              fun d => by simp [depth, tdepth, h4]⟩
        · simp at h
  | .op o :: ts, fields, acc, instrs, fields', h, hacc => by
    cases o <;> simp only [emit] at h <;>
    (obtain ⟨h1, h2, new, h3, h4⟩ := emit_spec params nfast ts fields _ instrs fields' h
        (by intro i hi; rcases List.mem_cons.mp hi with rfl | hi
            · rfl
            · exact hacc i hi)
     refine ⟨h1, h2, ?_⟩
     rw [List.reverse_cons, List.append_assoc] at h3
     exact ⟨_, h3, fun d => by simp [depth, tdepth, h4]⟩)
  | .lp :: ts, fields, acc, instrs, fields', h, hacc => by
    simp only [emit] at h
    obtain ⟨h1, h2, new, h3, h4⟩ := emit_spec params nfast ts fields acc instrs fields' h hacc
    exact ⟨h1, h2, new, h3, fun d => by simp [tdepth, h4]⟩
  | .rp :: ts, fields, acc, instrs, fields', h, hacc => by
    simp only [emit] at h
    obtain ⟨h1, h2, new, h3, h4⟩ := emit_spec params nfast ts fields acc instrs fields' h hacc
    exact ⟨h1, h2, new, h3, fun d => by simp [tdepth, h4]⟩

/-! ### the evaluator -/

section Eval
variable {V : Type}

theorem step_length (ar : Arith V) (env : Env V) (stack s' : List V) (i : Instr)
    (h : step ar env stack i = some s') : depth [i] stack.length = some s'.length := by
  cases i <;> simp only [step] at h
  case pushConst n l => simp at h; subst h; simp [depth]
  case pushParam k =>
    cases hk : env.params[k]? <;> simp [hk] at h
    subst h; simp [depth]
  case pushField k =>
    split at h
    · simp at h; subst h; simp [depth]
    · simp at h
  case pushScore => simp at h; subst h; simp [depth]
  case neg =>
    cases stack with
    | nil => simp at h
    | cons a rest =>
      simp only at h
      cases hn : ar.neg a <;> simp [hn] at h
      subst h; simp [depth]
  all_goals
    (unfold binop at h
     match stack, h with
     | [], h => simp at h
     | [_], h => simp at h
     | b :: a :: rest, h =>
       simp only [Option.map_eq_some_iff] at h
       obtain ⟨v, _, rfl⟩ := h
       simp [depth])

/-- a run that completes has exactly the static stack effect -/
theorem run_depth (ar : Arith V) (env : Env V) : ∀ (is : List Instr) (stack s' : List V),
    run ar env is stack = some s' → depth is stack.length = some s'.length
  | [], stack, s', h => by simp [run] at h; subst h; simp [depth]
  | i :: is, stack, s', h => by
    simp only [run] at h
    cases hs : step ar env stack i with
    | none => simp [hs] at h
    | some s1 =>
      simp only [hs] at h
      have h1 := step_length ar env stack s1 i hs
      have h2 := run_depth ar env is s1 s' h
      have := depth_append [i] is stack.length
      simp only [List.singleton_append] at this
      rw [this, h1]
      simpa using h2

/-- arithmetic that never fails (no overflow, no division by zero on these operands) -/
def ArithTotal (ar : Arith V) : Prop :=
  (∀ a b, (ar.add a b).isSome) ∧ (∀ a b, (ar.sub a b).isSome) ∧ (∀ a b, (ar.mul a b).isSome) ∧
  (∀ a b, (ar.div a b).isSome) ∧ (∀ a, (ar.neg a).isSome)

theorem step_total (ar : Arith V) (env : Env V) (hat : ArithTotal ar) (stack : List V) (i : Instr) (d' : Nat)
    (hi : instrOk env.params.length env.nFields i = true) (hd : depth [i] stack.length = some d') :
    ∃ s', step ar env stack i = some s' := by
  obtain ⟨hadd, hsub, hmul, hdiv, hneg⟩ := hat
  cases i
  case pushConst n l => exact ⟨_, rfl⟩
  case pushParam k =>
    simp [instrOk] at hi
    exact ⟨env.params[k] :: stack, by simp [step, hi]⟩
  case pushField k =>
    simp [instrOk] at hi
    exact ⟨env.field k :: stack, by simp [step, hi]⟩
  case pushScore => exact ⟨_, rfl⟩
  case neg =>
    cases stack with
    | nil => simp [depth] at hd
    | cons a rest =>
      obtain ⟨v, hv⟩ := Option.isSome_iff_exists.mp (hneg a)
      exact ⟨v :: rest, by simp [step, hv]⟩
  case add =>
    match stack, hd with
    | [], hd => simp [depth] at hd
    | [_], hd => simp [depth] at hd
    | b :: a :: rest, _ =>
      obtain ⟨v, hv⟩ := Option.isSome_iff_exists.mp (hadd a b)
      exact ⟨v :: rest, by simp [step, binop, hv]⟩
  case sub =>
    match stack, hd with
    | [], hd => simp [depth] at hd
    | [_], hd => simp [depth] at hd
    | b :: a :: rest, _ =>
      obtain ⟨v, hv⟩ := Option.isSome_iff_exists.mp (hsub a b)
      exact ⟨v :: rest, by simp [step, binop, hv]⟩
  case mul =>
    match stack, hd with
    | [], hd => simp [depth] at hd
    | [_], hd => simp [depth] at hd
    | b :: a :: rest, _ =>
      obtain ⟨v, hv⟩ := Option.isSome_iff_exists.mp (hmul a b)
      exact ⟨v :: rest, by simp [step, binop, hv]⟩
  case div =>
    match stack, hd with
    | [], hd => simp [depth] at hd
    | [_], hd => simp [depth] at hd
    | b :: a :: rest, _ =>
      obtain ⟨v, hv⟩ := Option.isSome_iff_exists.mp (hdiv a b)
      exact ⟨v :: rest, by simp [step, binop, hv]⟩

/-- with total arithmetic and in-range indices, static depth decides whether a run completes -/
theorem run_total (ar : Arith V) (env : Env V) (hat : ArithTotal ar) : ∀ (is : List Instr) (stack : List V) (d' : Nat),
    (∀ i ∈ is, instrOk env.params.length env.nFields i = true) → depth is stack.length = some d' →
    ∃ s', run ar env is stack = some s' ∧ s'.length = d'
  | [], stack, d', _, hd => by simp [depth] at hd; exact ⟨stack, rfl, hd⟩
  | i :: is, stack, d', hok, hd => by
    have hsplit := depth_append [i] is stack.length
    simp only [List.singleton_append] at hsplit
    rw [hsplit] at hd
    cases h1 : depth [i] stack.length with
    | none => simp [h1] at hd
    | some d1 =>
      simp only [h1, Option.bind_some] at hd
      obtain ⟨s1, hs1⟩ := step_total ar env hat stack i d1 (hok i (by simp)) h1
      have hl := step_length ar env stack s1 i hs1
      rw [h1] at hl
      simp at hl
      obtain ⟨s', hr, hlen⟩ := run_total ar env hat is s1 d' (fun j hj => hok j (by simp [hj])) (by rw [← hl]; exact hd)
      exact ⟨s', by simp [run, hs1, hr], hlen⟩

end Eval

end SL.Script
