import SLModel.Core.Sort
import SLModel.Lemmas.ISort
/-!
# Lemmas/SortCmp — the key comparator of `Core/Sort` is a linear comparison on keys of one plan

`LinCmp P c`: on the elements satisfying `P`, the `Ordering`-valued `c` is reflexive, antisymmetric
(`swap`), transitive and separates distinct elements.  Built up from `cmpInt`/`cmpNat`/`lexCmp`
through direction reversal, the "missing last" extension, lexicographic pairs and lists.
-/
set_option linter.unusedSimpArgs false
namespace SL.Sort

structure LinCmp {α : Type} (P : α → Prop) (c : α → α → Ordering) : Prop where
  refl : ∀ a, P a → c a a = .eq
  swap : ∀ a b, P a → P b → c b a = (c a b).swap
  trans : ∀ a b d, P a → P b → P d → c a b = .lt → c b d = .lt → c a d = .lt
  eqv : ∀ a b, P a → P b → c a b = .eq → a = b

theorem LinCmp.congr {α : Type} {P : α → Prop} {c c' : α → α → Ordering} (h : LinCmp P c)
    (he : ∀ a b, P a → P b → c' a b = c a b) : LinCmp P c' where
  refl a ha := by rw [he a a ha ha]; exact h.refl a ha
  swap a b ha hb := by rw [he b a hb ha, he a b ha hb]; exact h.swap a b ha hb
  trans a b d ha hb hd h1 h2 := by
    rw [he a b ha hb] at h1; rw [he b d hb hd] at h2; rw [he a d ha hd]
    exact h.trans a b d ha hb hd h1 h2
  eqv a b ha hb h1 := by rw [he a b ha hb] at h1; exact h.eqv a b ha hb h1

theorem LinCmp.comap {α β : Type} {P : α → Prop} {c : α → α → Ordering} (h : LinCmp P c)
    (f : β → α) (P' : β → Prop) (hP : ∀ x, P' x → P (f x))
    (hinj : ∀ x y, P' x → P' y → f x = f y → x = y) : LinCmp P' (fun x y => c (f x) (f y)) where
  refl a ha := h.refl _ (hP a ha)
  swap a b ha hb := h.swap _ _ (hP a ha) (hP b hb)
  trans a b d ha hb hd := h.trans _ _ _ (hP a ha) (hP b hb) (hP d hd)
  eqv a b ha hb h1 := hinj a b ha hb (h.eqv _ _ (hP a ha) (hP b hb) h1)

/-! ## base comparisons -/

theorem cmpInt_lin : LinCmp (fun _ : Int => True) cmpInt where
  refl a _ := by simp [cmpInt]
  swap a b _ _ := by
    unfold cmpInt
    split <;> split <;> (try split) <;> (try split) <;> simp <;> omega
  trans a b d _ _ _ h1 h2 := by
    unfold cmpInt at *
    split at h1 <;> (try split at h1) <;> simp at h1
    split at h2 <;> (try split at h2) <;> simp at h2
    have : a < d := by omega
    simp [this]
  eqv a b _ _ h := by
    unfold cmpInt at h
    split at h <;> (try split at h) <;> simp at h
    assumption

theorem cmpNat_lin : LinCmp (fun _ : Nat => True) cmpNat where
  refl a _ := by simp [cmpNat]
  swap a b _ _ := by
    unfold cmpNat
    split <;> split <;> (try split) <;> (try split) <;> simp <;> omega
  trans a b d _ _ _ h1 h2 := by
    unfold cmpNat at *
    split at h1 <;> (try split at h1) <;> simp at h1
    split at h2 <;> (try split at h2) <;> simp at h2
    have : a < d := by omega
    simp [this]
  eqv a b _ _ h := by
    unfold cmpNat at h
    split at h <;> (try split at h) <;> simp at h
    assumption

/-! ## lexicographic pairs -/

def lex2 {α β : Type} (c1 : α → α → Ordering) (c2 : β → β → Ordering) (a b : α × β) : Ordering :=
  match c1 a.1 b.1 with
  | .eq => c2 a.2 b.2
  | o => o

theorem LinCmp.lex2 {α β : Type} {P : α → Prop} {Q : β → Prop} {c1 : α → α → Ordering}
    {c2 : β → β → Ordering} (h1 : LinCmp P c1) (h2 : LinCmp Q c2) :
    LinCmp (fun x : α × β => P x.1 ∧ Q x.2) (SL.Sort.lex2 c1 c2) where
  refl a ha := by simp [SL.Sort.lex2, h1.refl a.1 ha.1, h2.refl a.2 ha.2]
  swap a b ha hb := by
    unfold SL.Sort.lex2
    rw [h1.swap a.1 b.1 ha.1 hb.1, h2.swap a.2 b.2 ha.2 hb.2]
    cases c1 a.1 b.1 <;> simp
  trans a b d ha hb hd hab hbd := by
    unfold SL.Sort.lex2 at *
    cases e1 : c1 a.1 b.1 with
    | gt => simp [e1] at hab
    | lt =>
      cases e2 : c1 b.1 d.1 with
      | gt => simp [e2] at hbd
      | lt => simp [h1.trans a.1 b.1 d.1 ha.1 hb.1 hd.1 e1 e2]
      | eq =>
        have := h1.eqv b.1 d.1 hb.1 hd.1 e2
        rw [← this, e1]
    | eq =>
      have hab1 := h1.eqv a.1 b.1 ha.1 hb.1 e1
      simp only [e1] at hab
      rw [hab1]
      cases e2 : c1 b.1 d.1 with
      | gt => simp [e2] at hbd
      | lt => rfl
      | eq =>
        simp only [e2] at hbd ⊢
        exact h2.trans a.2 b.2 d.2 ha.2 hb.2 hd.2 hab hbd
  eqv a b ha hb h := by
    unfold SL.Sort.lex2 at h
    cases e1 : c1 a.1 b.1 with
    | gt => simp [e1] at h
    | lt => simp [e1] at h
    | eq =>
      simp only [e1] at h
      exact Prod.ext (h1.eqv a.1 b.1 ha.1 hb.1 e1) (h2.eqv a.2 b.2 ha.2 hb.2 h)

/-! ## strings -/

theorem lexCmp_lin : LinCmp (fun _ : List Nat => True) lexCmp where
  refl a _ := by
    induction a with
    | nil => rfl
    | cons x xs ih => simp [lexCmp, cmpNat_lin.refl x trivial, ih]
  swap a b _ _ := by
    induction a generalizing b with
    | nil => cases b <;> rfl
    | cons x xs ih =>
      cases b with
      | nil => rfl
      | cons y ys =>
        simp only [lexCmp]
        rw [cmpNat_lin.swap x y trivial trivial, ih ys]
        cases cmpNat x y <;> simp
  trans a b d _ _ _ := by
    induction a generalizing b d with
    | nil =>
      intro h1 h2
      cases b with
      | nil => simp [lexCmp] at h1
      | cons y ys =>
        cases d with
        | nil => simp [lexCmp] at h2
        | cons z zs => rfl
    | cons x xs ih =>
      intro h1 h2
      cases b with
      | nil => simp [lexCmp] at h1
      | cons y ys =>
        cases d with
        | nil => simp [lexCmp] at h2
        | cons z zs =>
          simp only [lexCmp] at h1 h2 ⊢
          cases e1 : cmpNat x y with
          | gt => simp [e1] at h1
          | lt =>
            cases e2 : cmpNat y z with
            | gt => simp [e2] at h2
            | lt => simp [cmpNat_lin.trans x y z trivial trivial trivial e1 e2]
            | eq =>
              have := cmpNat_lin.eqv y z trivial trivial e2
              rw [← this, e1]
          | eq =>
            have hxy := cmpNat_lin.eqv x y trivial trivial e1
            simp only [e1] at h1
            rw [hxy]
            cases e2 : cmpNat y z with
            | gt => simp [e2] at h2
            | lt => rfl
            | eq =>
              simp only [e2] at h2 ⊢
              exact ih ys zs h1 h2
  eqv a b _ _ := by
    induction a generalizing b with
    | nil => cases b <;> simp [lexCmp]
    | cons x xs ih =>
      cases b with
      | nil => simp [lexCmp]
      | cons y ys =>
        simp only [lexCmp]
        cases e1 : cmpNat x y with
        | gt => simp
        | lt => simp
        | eq =>
          intro h
          rw [cmpNat_lin.eqv x y trivial trivial e1, ih ys h]

/-! ## direction -/

theorem dir_lin {α : Type} {P : α → Prop} {c : α → α → Ordering} (h : LinCmp P c) (d : Bool) :
    LinCmp P (fun a b => dir d (c a b)) := by
  cases d with
  | false => exact h.congr (fun a b _ _ => by simp [dir])
  | true =>
    refine ⟨?_, ?_, ?_, ?_⟩
    · intro a ha; simp [dir, h.refl a ha]
    · intro a b ha hb; simp [dir, h.swap a b ha hb]
    · intro a b e ha hb he h1 h2
      simp only [dir, if_true] at *
      -- `swap = lt` means `gt`
      have g1 : c b a = .lt := by
        rw [h.swap a b ha hb]; cases hc : c a b <;> simp [hc] at h1 ⊢
      have g2 : c e b = .lt := by
        rw [h.swap b e hb he]; cases hc : c b e <;> simp [hc] at h2 ⊢
      have := h.trans e b a he hb ha g2 g1
      rw [h.swap e a he ha, this]; rfl
    · intro a b ha hb h1
      simp only [dir, if_true] at h1
      apply h.eqv a b ha hb
      cases hc : c a b <;> simp [hc] at h1 ⊢

/-! ## values: "missing last" over a directed base comparison -/

/-- `SortKeyPart::cmp` with the direction made explicit -/
def valCmp (d : Bool) (a b : Val) : Ordering :=
  match a, b with
  | .missing, .missing => .eq
  | .missing, _ => .gt
  | _, .missing => .lt
  | .score x, .score y => dir d (cmpInt x y)
  | .i64 x, .i64 y => dir d (cmpInt x y)
  | .f64 x, .f64 y => dir d (cmpInt x y)
  | .str x, .str y => dir d (lexCmp x y)
  | _, _ => .eq

theorem Part.cmp_eq (a b : Part) : a.cmp b = valCmp a.desc a.val b.val := by
  unfold Part.cmp valCmp
  cases a.val <;> cases b.val <;> rfl

theorem valCmp_lin (f : Field) (d : Bool) : LinCmp (fun v => kindOk f v = true) (valCmp d) := by
  have hi := dir_lin cmpInt_lin d
  have hs := dir_lin lexCmp_lin d
  refine ⟨?_, ?_, ?_, ?_⟩
  · intro a _
    cases a <;> simp [valCmp]
    · exact hi.refl _ trivial
    · exact hi.refl _ trivial
    · exact hi.refl _ trivial
    · exact hs.refl _ trivial
  · intro a b _ _
    cases a <;> cases b <;> simp [valCmp]
    · exact hi.swap _ _ trivial trivial
    · exact hi.swap _ _ trivial trivial
    · exact hi.swap _ _ trivial trivial
    · exact hs.swap _ _ trivial trivial
  · intro a b e _ _ _ h1 h2
    cases a <;> cases b <;> simp [valCmp] at h1 <;> cases e <;> simp [valCmp] at h2 ⊢
    · exact hi.trans _ _ _ trivial trivial trivial h1 h2
    · exact hi.trans _ _ _ trivial trivial trivial h1 h2
    · exact hi.trans _ _ _ trivial trivial trivial h1 h2
    · exact hs.trans _ _ _ trivial trivial trivial h1 h2
  · intro a b ha hb h
    cases f <;> cases a <;> simp [kindOk] at ha <;> cases b <;> simp [kindOk] at hb <;>
      simp [valCmp] at h ⊢
    · exact hi.eqv _ _ trivial trivial h
    · exact hs.eqv _ _ trivial trivial h
    · exact hi.eqv _ _ trivial trivial h
    · exact hi.eqv _ _ trivial trivial h

/-- one column of a plan -/
def partOk (sp : Spec) (p : Part) : Prop := p.desc = sp.desc ∧ kindOk sp.field p.val = true

theorem part_lin (sp : Spec) : LinCmp (partOk sp) Part.cmp := by
  have h := (valCmp_lin sp.field sp.desc).comap (fun p : Part => p.val) (partOk sp)
    (fun p hp => hp.2)
    (fun x y hx hy hxy => by
      cases x; cases y
      simp only [partOk] at hx hy
      simp only at hxy
      simp [hx.1, hy.1, hxy])
  exact h.congr (fun a b ha _ => by rw [Part.cmp_eq, ha.1])

/-! ## lists of parts -/

theorem shapedParts_cons (sp : Spec) (sps : Plan) (p : Part) (ps : List Part) :
    shapedParts (sp :: sps) (p :: ps) = true ↔ partOk sp p ∧ shapedParts sps ps = true := by
  simp [shapedParts, partOk, Bool.and_eq_true, and_assoc]

theorem parts_lin : ∀ pl : Plan, LinCmp (fun l => shapedParts pl l = true) cmpParts := by
  intro pl
  induction pl with
  | nil =>
    refine ⟨?_, ?_, ?_, ?_⟩
    · intro a ha; cases a <;> simp [shapedParts] at ha; rfl
    · intro a b ha hb
      cases a <;> simp [shapedParts] at ha
      cases b <;> simp [shapedParts] at hb
      rfl
    · intro a b e ha hb _ h1
      cases a <;> simp [shapedParts] at ha
      cases b <;> simp [shapedParts] at hb
      simp [cmpParts] at h1
    · intro a b ha hb _
      cases a <;> simp [shapedParts] at ha
      cases b <;> simp [shapedParts] at hb
      rfl
  | cons sp sps ih =>
    have hl := (part_lin sp).lex2 ih
    have hc := hl.comap (fun l : List Part => (l.headD default, l.tail))
      (fun l => shapedParts (sp :: sps) l = true)
      (fun l hlS => by
        cases l with
        | nil => simp [shapedParts] at hlS
        | cons p ps => exact (shapedParts_cons sp sps p ps).mp hlS)
      (fun x y hx hy hxy => by
        cases x with
        | nil => simp [shapedParts] at hx
        | cons p ps =>
          cases y with
          | nil => simp [shapedParts] at hy
          | cons q qs =>
            simp only [List.headD_cons, List.tail_cons, Prod.mk.injEq] at hxy
            rw [hxy.1, hxy.2])
    exact hc.congr (fun a b ha hb => by
      cases a with
      | nil => simp [shapedParts] at ha
      | cons p ps =>
        cases b with
        | nil => simp [shapedParts] at hb
        | cons q qs =>
          simp only [cmpParts, lex2, List.headD_cons, List.tail_cons]
          cases p.cmp q <;> rfl)

/-! ## keys -/

theorem key_lin (pl : Plan) : LinCmp (fun k : Key => k.shaped pl = true) Key.cmp := by
  have hl := (parts_lin pl).lex2 (cmpNat_lin.lex2 cmpNat_lin)
  have hc := hl.comap (fun k : Key => (k.parts, (k.seg, k.doc))) (fun k => k.shaped pl = true)
    (fun k hk => ⟨hk, trivial, trivial⟩)
    (fun x y _ _ hxy => by
      cases x; cases y
      simp only [Prod.mk.injEq] at hxy
      simp [hxy.1, hxy.2.1, hxy.2.2])
  exact hc.congr (fun a b _ _ => by
    simp only [Key.cmp, lex2]
    cases cmpParts a.parts b.parts <;> (try rfl))

end SL.Sort
