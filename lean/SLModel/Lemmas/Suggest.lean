import SLModel.Core.Suggest
import SLModel.Lemmas.ISort
/-!
# Lemmas/Suggest — the scan loop is "take the first `cap` qualifying entries", the merge map
is characterised by per-term sums, and the model's insertion sort is `SL.ISort.isort`.
-/
set_option linter.unusedSectionVars false
set_option linter.unusedSimpArgs false
namespace SL.Suggest

/-! ### scan = take -/
section Scan
variable {α β : Type}

theorem legacy_scanSeg_spec (q : α → Option β) (cap : Nat) : ∀ (es : List α) (n : Nat),
    (legacy_scanSeg q cap n es).2 = (es.filterMap q).take (cap - n) ∧
    (legacy_scanSeg q cap n es).1 = n + ((es.filterMap q).take (cap - n)).length := by
  intro es
  induction es with
  | nil => intro n; simp [legacy_scanSeg]
  | cons e es ih =>
    intro n
    unfold legacy_scanSeg
    by_cases hcap : cap ≤ n
    · have h0 : cap - n = 0 := by omega
      simp [hcap, h0]
    · simp only [hcap, if_false]
      cases hq : q e with
      | none =>
        have hf : (e :: es).filterMap q = es.filterMap q := by simp [hq]
        rw [hf]
        exact ih n
      | some c =>
        have hf : (e :: es).filterMap q = c :: es.filterMap q := by simp [hq]
        rw [hf]
        by_cases hcap1 : cap ≤ n + 1
        · have h1 : cap - n = 1 := by omega
          simp [hcap1, h1]
        · have hk : cap - n = (cap - (n + 1)) + 1 := by omega
          obtain ⟨i1, i2⟩ := ih (n + 1)
          simp only [hcap1, if_false]
          rw [hk, List.take_succ_cons]
          refine ⟨by rw [i1], ?_⟩
          rw [i2]
          simp only [List.length_cons]
          omega

/-- **the scan with its three `break`s accepts exactly the first `cap` qualifying entries of
the concatenated dictionaries** -/
theorem legacy_scanSegs_spec (q : α → Option β) (cap : Nat) : ∀ (segs : List (List α)) (n : Nat),
    legacy_scanSegs q cap n segs = (segs.flatten.filterMap q).take (cap - n) := by
  intro segs
  induction segs with
  | nil => intro n; simp [legacy_scanSegs]
  | cons seg rest ih =>
    intro n
    obtain ⟨h2, h1⟩ := legacy_scanSeg_spec q cap seg n
    unfold legacy_scanSegs
    simp only [List.flatten_cons, List.filterMap_append]
    rw [h2, h1, List.length_take]
    by_cases hc : cap ≤ n + min (cap - n) (seg.filterMap q).length
    · simp only [hc, if_true]
      rw [List.take_append_of_le_length (by omega)]
    · simp only [hc, if_false]
      have hlt : (seg.filterMap q).length < cap - n := by omega
      have hmin : min (cap - n) (seg.filterMap q).length = (seg.filterMap q).length := by omega
      rw [hmin, ih, List.take_append, List.take_of_length_le (Nat.le_of_lt hlt)]
      congr 2
      omega

theorem legacy_scanSegs_zero (q : α → Option β) (cap : Nat) (segs : List (List α)) :
    legacy_scanSegs q cap 0 segs = (segs.flatten.filterMap q).take cap := by
  simpa using legacy_scanSegs_spec q cap segs 0

end Scan

/-! ### the merge map -/
section Merge
variable {κ : Type} [DecidableEq κ]

abbrev Contrib (κ : Type) := List κ × Nat × Nat

def terms (acc : List (Cand κ)) : List (List κ) := acc.map (·.term)

/-- value stored for `t` (`(0, 0)` when absent) -/
def val : List (Cand κ) → List κ → Nat × Nat
  | [], _ => (0, 0)
  | c :: cs, t => if c.term = t then (c.df, c.score6) else val cs t

def dfSum (L : List (Contrib κ)) (t : List κ) : Nat :=
  ((L.filter (fun e => e.1 = t)).map (fun e => e.2.1)).sum

def scSum (L : List (Contrib κ)) (t : List κ) : Nat :=
  ((L.filter (fun e => e.1 = t)).map (fun e => e.2.2)).sum

theorem mem_terms_upsert (t : List κ) (d s : Nat) : ∀ (acc : List (Cand κ)) (x : List κ),
    x ∈ terms (upsert t d s acc) ↔ (x = t ∨ x ∈ terms acc) := by
  intro acc
  induction acc with
  | nil => intro x; simp [upsert, terms]
  | cons c cs ih =>
    intro x
    unfold upsert
    split
    · rename_i hct
      simp only [terms, List.map_cons, List.mem_cons]
      rw [hct]
      constructor
      · rintro (h | h)
        · exact Or.inl h
        · exact Or.inr (Or.inr h)
      · rintro (h | h | h)
        · exact Or.inl h
        · exact Or.inl h
        · exact Or.inr h
    · have := ih x
      simp only [terms, List.map_cons, List.mem_cons] at this ⊢
      rw [this]
      constructor
      · rintro (h | h | h)
        · exact Or.inr (Or.inl h)
        · exact Or.inl h
        · exact Or.inr (Or.inr h)
      · rintro (h | h | h)
        · exact Or.inr (Or.inl h)
        · exact Or.inl h
        · exact Or.inr (Or.inr h)

theorem nodup_terms_upsert (t : List κ) (d s : Nat) : ∀ (acc : List (Cand κ)),
    (terms acc).Nodup → (terms (upsert t d s acc)).Nodup := by
  intro acc
  induction acc with
  | nil => intro _; simp [upsert, terms]
  | cons c cs ih =>
    intro h
    have h' : c.term ∉ terms cs ∧ (terms cs).Nodup := by
      simpa [terms, List.nodup_cons] using h
    unfold upsert
    split
    · rename_i hct
      have : terms ((⟨t, c.df + d, c.score6 + s⟩ : Cand κ) :: cs) = t :: terms cs := by simp [terms]
      rw [this, List.nodup_cons]
      rw [← hct]
      exact h'
    · rename_i hct
      have : terms (c :: upsert t d s cs) = c.term :: terms (upsert t d s cs) := by simp [terms]
      rw [this, List.nodup_cons]
      refine ⟨?_, ih h'.2⟩
      rw [mem_terms_upsert]
      rintro (h1 | h1)
      · exact hct h1
      · exact h'.1 h1

theorem val_upsert (t : List κ) (d s : Nat) : ∀ (acc : List (Cand κ)) (x : List κ),
    val (upsert t d s acc) x =
      if x = t then ((val acc t).1 + d, (val acc t).2 + s) else val acc x := by
  intro acc
  induction acc with
  | nil =>
    intro x
    by_cases hx : x = t
    · subst hx; simp [upsert, val]
    · have : ¬ t = x := fun h => hx h.symm
      simp [upsert, val, hx, this]
  | cons c cs ih =>
    intro x
    unfold upsert
    split
    · rename_i hct
      by_cases hx : x = t
      · subst hx; simp [val, hct]
      · have h1 : ¬ t = x := fun h => hx h.symm
        have h2 : ¬ c.term = x := by rw [hct]; exact h1
        simp [val, hx, h1, h2]
    · rename_i hct
      by_cases hx : x = t
      · subst hx
        simp only [val, hct, if_false, if_true]
        rw [ih x]; simp
      · by_cases hcx : c.term = x
        · simp [val, hcx, hx]
        · simp only [val, hcx, hx, if_false]
          rw [ih x]; simp [hx]

def step (acc : List (Cand κ)) (c : Contrib κ) : List (Cand κ) := upsert c.1 c.2.1 c.2.2 acc

theorem foldl_step_spec : ∀ (L : List (Contrib κ)) (acc : List (Cand κ)),
    (terms acc).Nodup →
    (terms (L.foldl step acc)).Nodup ∧
    (∀ x, x ∈ terms (L.foldl step acc) ↔ (x ∈ L.map (·.1) ∨ x ∈ terms acc)) ∧
    (∀ x, val (L.foldl step acc) x = ((val acc x).1 + dfSum L x, (val acc x).2 + scSum L x)) := by
  intro L
  induction L with
  | nil => intro acc h; simp [dfSum, scSum]; exact h
  | cons e L ih =>
    intro acc h
    obtain ⟨i1, i2, i3⟩ := ih (step acc e) (nodup_terms_upsert _ _ _ _ h)
    simp only [List.foldl_cons]
    refine ⟨i1, ?_, ?_⟩
    · intro x
      rw [i2 x]
      unfold step
      rw [mem_terms_upsert]
      simp only [List.map_cons, List.mem_cons]
      constructor
      · rintro (h1 | h1 | h1)
        · exact Or.inl (Or.inr h1)
        · exact Or.inl (Or.inl h1)
        · exact Or.inr h1
      · rintro ((h1 | h1) | h1)
        · exact Or.inr (Or.inl h1)
        · exact Or.inl h1
        · exact Or.inr (Or.inr h1)
    · intro x
      rw [i3 x]
      unfold step
      rw [val_upsert]
      by_cases hx : x = e.1
      · subst hx
        simp only [if_true, dfSum, scSum, List.filter_cons, decide_true, List.map_cons,
          List.sum_cons]
        ext <;> simp <;> omega
      · have hx' : ¬ e.1 = x := fun h => hx h.symm
        simp [hx, hx', dfSum, scSum]

theorem mergeAll_eq_foldl (L : List (Contrib κ)) : mergeAll L = L.foldl step [] := rfl

theorem mergeAll_nodup (L : List (Contrib κ)) : (terms (mergeAll L)).Nodup :=
  (foldl_step_spec L [] (by simp [terms])).1

theorem mem_terms_mergeAll (L : List (Contrib κ)) (x : List κ) :
    x ∈ terms (mergeAll L) ↔ x ∈ L.map (·.1) := by
  have := (foldl_step_spec L [] (by simp [terms])).2.1 x
  simpa [terms, mergeAll_eq_foldl] using this

theorem val_mergeAll (L : List (Contrib κ)) (x : List κ) :
    val (mergeAll L) x = (dfSum L x, scSum L x) := by
  have := (foldl_step_spec L [] (by simp [terms])).2.2 x
  simpa [val, mergeAll_eq_foldl] using this

/-- a member of a list with distinct terms is what `val` reports for its term -/
theorem val_of_mem : ∀ (acc : List (Cand κ)), (terms acc).Nodup → ∀ c ∈ acc,
    val acc c.term = (c.df, c.score6) := by
  intro acc
  induction acc with
  | nil => intro _ c hc; cases hc
  | cons a as ih =>
    intro h c hc
    have h' : a.term ∉ terms as ∧ (terms as).Nodup := by
      simpa [terms, List.nodup_cons] using h
    rcases List.mem_cons.mp hc with rfl | hc
    · simp [val]
    · have hne : ¬ a.term = c.term := by
        intro he
        apply h'.1
        rw [he]
        exact List.mem_map_of_mem (f := fun (z : Cand κ) => z.term) hc
      simp only [val, hne, if_false]
      exact ih h'.2 c hc

theorem mem_of_val : ∀ (acc : List (Cand κ)) (t : List κ), t ∈ terms acc →
    (⟨t, (val acc t).1, (val acc t).2⟩ : Cand κ) ∈ acc := by
  intro acc
  induction acc with
  | nil => intro t ht; simp [terms] at ht
  | cons a as ih =>
    intro t ht
    by_cases hat : a.term = t
    · subst hat
      simp [val]
    · have ht' : t ∈ terms as := by
        simp only [terms, List.map_cons, List.mem_cons] at ht
        rcases ht with h | h
        · exact absurd h.symm hat
        · exact h
      simp only [val, hat, if_false]
      exact List.mem_cons_of_mem _ (ih t ht')

/-- membership in the merged map, in terms of per-term sums over the contributions -/
theorem mem_mergeAll (L : List (Contrib κ)) (c : Cand κ) :
    c ∈ mergeAll L ↔ (c.term ∈ L.map (·.1) ∧ c.df = dfSum L c.term ∧ c.score6 = scSum L c.term) := by
  constructor
  · intro hc
    have hv := val_of_mem (mergeAll L) (mergeAll_nodup L) c hc
    rw [val_mergeAll] at hv
    have ht : c.term ∈ terms (mergeAll L) := List.mem_map_of_mem (f := fun (z : Cand κ) => z.term) hc
    rw [mem_terms_mergeAll] at ht
    refine ⟨ht, ?_, ?_⟩
    · exact (congrArg Prod.fst hv).symm
    · exact (congrArg Prod.snd hv).symm
  · rintro ⟨h1, h2, h3⟩
    have ht : c.term ∈ terms (mergeAll L) := (mem_terms_mergeAll L c.term).mpr h1
    have := mem_of_val (mergeAll L) c.term ht
    rw [val_mergeAll] at this
    have hc : c = ⟨c.term, dfSum L c.term, scSum L c.term⟩ := by
      cases c; simp at h2 h3 ⊢; exact ⟨h2, h3⟩
    rw [hc]; exact this

/-- the records of a list with distinct terms are distinct -/
theorem nodup_of_terms_nodup (acc : List (Cand κ)) (h : (terms acc).Nodup) : acc.Nodup := by
  unfold terms at h
  exact List.Pairwise.of_map (fun (z : Cand κ) => z.term) (fun a b hab he => hab (by rw [he])) h

end Merge

/-! ### sorting -/
section Sorting
variable {α : Type}

theorem insBy_eq (lt : α → α → Bool) (x : α) (l : List α) : insBy lt x l = SL.ISort.ins lt x l := by
  induction l with
  | nil => rfl
  | cons y ys ih => simp [insBy, SL.ISort.ins, ih]

theorem sortBy_eq (lt : α → α → Bool) (l : List α) : sortBy lt l = SL.ISort.isort lt l := by
  induction l with
  | nil => rfl
  | cons x xs ih => simp [sortBy, SL.ISort.isort, ih, insBy_eq]

theorem mem_ins_iff (lt : α → α → Bool) (x z : α) (l : List α) :
    z ∈ SL.ISort.ins lt x l ↔ (z = x ∨ z ∈ l) := by
  induction l with
  | nil => simp [SL.ISort.ins]
  | cons y ys ih =>
    unfold SL.ISort.ins
    split
    · simp
    · simp only [List.mem_cons, ih]
      constructor
      · rintro (h | h | h)
        · exact Or.inr (Or.inl h)
        · exact Or.inl h
        · exact Or.inr (Or.inr h)
      · rintro (h | h | h)
        · exact Or.inr (Or.inl h)
        · exact Or.inl h
        · exact Or.inr (Or.inr h)

theorem mem_sortBy (lt : α → α → Bool) (z : α) (l : List α) : z ∈ sortBy lt l ↔ z ∈ l := by
  rw [sortBy_eq]
  induction l with
  | nil => simp [SL.ISort.isort]
  | cons x xs ih => simp [SL.ISort.isort, mem_ins_iff, ih]

end Sorting

/-! ### contributions that are determined by the term -/
section Gen
variable {κ : Type} [DecidableEq κ]

/-- a scan predicate of the shape both modes have: the term decides whether the entry
qualifies (`ok`) and with which weight (`w`); the entry contributes its `df` -/
def qGen (ok : List κ → Bool) (w : List κ → Nat) (e : List κ × Nat) : Option (Contrib κ) :=
  if ok e.1 && e.2 != 0 then some (e.1, e.2, w e.1 * e.2) else none

/-- total document frequency of `t` in a list of dictionary entries -/
def tdf (es : List (List κ × Nat)) (t : List κ) : Nat :=
  ((es.filter (fun e => e.1 = t)).map (fun e => e.2)).sum

theorem tdf_cons (e : List κ × Nat) (es : List (List κ × Nat)) (t : List κ) :
    tdf (e :: es) t = (if e.1 = t then e.2 else 0) + tdf es t := by
  unfold tdf
  by_cases h : e.1 = t <;> simp [List.filter_cons, h]

theorem tdf_append (es fs : List (List κ × Nat)) (t : List κ) :
    tdf (es ++ fs) t = tdf es t + tdf fs t := by
  induction es with
  | nil => simp [tdf]
  | cons e es ih => rw [List.cons_append, tdf_cons, tdf_cons, ih]; omega

theorem dfSum_cons (c : Contrib κ) (L : List (Contrib κ)) (t : List κ) :
    dfSum (c :: L) t = (if c.1 = t then c.2.1 else 0) + dfSum L t := by
  unfold dfSum
  by_cases h : c.1 = t <;> simp [List.filter_cons, h]

theorem scSum_cons (c : Contrib κ) (L : List (Contrib κ)) (t : List κ) :
    scSum (c :: L) t = (if c.1 = t then c.2.2 else 0) + scSum L t := by
  unfold scSum
  by_cases h : c.1 = t <;> simp [List.filter_cons, h]

theorem filterMap_qGen_cons (ok : List κ → Bool) (w : List κ → Nat) (e : List κ × Nat)
    (es : List (List κ × Nat)) :
    (e :: es).filterMap (qGen ok w) =
      if ok e.1 && e.2 != 0 then (e.1, e.2, w e.1 * e.2) :: es.filterMap (qGen ok w)
      else es.filterMap (qGen ok w) := by
  by_cases h : (ok e.1 && e.2 != 0) = true
  · simp [List.filterMap_cons, qGen, h]
  · simp [List.filterMap_cons, qGen, h]

theorem dfSum_qGen (ok : List κ → Bool) (w : List κ → Nat) (t : List κ) :
    ∀ (es : List (List κ × Nat)),
      dfSum (es.filterMap (qGen ok w)) t = if ok t then tdf es t else 0 := by
  intro es
  induction es with
  | nil => simp [dfSum, tdf]
  | cons e es ih =>
    rw [filterMap_qGen_cons, tdf_cons]
    by_cases het : e.1 = t
    · subst het
      by_cases hok : ok e.1 = true
      · by_cases h0 : e.2 = 0
        · simp [hok, h0] at ih ⊢; exact ih
        · simp [hok, h0, dfSum_cons] at ih ⊢; rw [ih]
      · simp [hok] at ih ⊢; exact ih
    · by_cases hq : (ok e.1 && e.2 != 0) = true
      · simp only [hq, if_true, dfSum_cons, het, if_false, Nat.zero_add]; exact ih
      · simp only [hq, het, if_false, Nat.zero_add]; exact ih

theorem scSum_qGen (ok : List κ → Bool) (w : List κ → Nat) (t : List κ) :
    ∀ (es : List (List κ × Nat)),
      scSum (es.filterMap (qGen ok w)) t = if ok t then w t * tdf es t else 0 := by
  intro es
  induction es with
  | nil => simp [scSum, tdf]
  | cons e es ih =>
    rw [filterMap_qGen_cons, tdf_cons]
    by_cases het : e.1 = t
    · subst het
      by_cases hok : ok e.1 = true
      · by_cases h0 : e.2 = 0
        · simp [hok, h0] at ih ⊢; exact ih
        · simp [hok, h0, scSum_cons] at ih ⊢; rw [ih, Nat.mul_add]
      · simp [hok] at ih ⊢; exact ih
    · by_cases hq : (ok e.1 && e.2 != 0) = true
      · simp only [hq, if_true, scSum_cons, het, if_false, Nat.zero_add]; exact ih
      · simp only [hq, het, if_false, Nat.zero_add]; exact ih

theorem mem_terms_qGen (ok : List κ → Bool) (w : List κ → Nat) (t : List κ) :
    ∀ (es : List (List κ × Nat)),
      t ∈ (es.filterMap (qGen ok w)).map (·.1) ↔ (ok t = true ∧ tdf es t ≠ 0) := by
  intro es
  induction es with
  | nil => simp [tdf]
  | cons e es ih =>
    rw [filterMap_qGen_cons, tdf_cons]
    by_cases het : e.1 = t
    · subst het
      by_cases hok : ok e.1 = true
      · by_cases h0 : e.2 = 0
        · simp [hok, h0] at ih ⊢; exact ih
        · simp [hok, h0]
      · simp [hok] at ih ⊢; exact ih
    · have het' : ¬ t = e.1 := fun h => het h.symm
      by_cases hq : (ok e.1 && e.2 != 0) = true
      · simp only [hq, if_true, List.map_cons, List.mem_cons, het', false_or, het, if_false,
          Nat.zero_add]
        exact ih
      · simp only [hq, het, if_false, Nat.zero_add]; exact ih

/-- every accepted contribution comes from a qualifying dictionary entry -/
theorem mem_filterMap_qGen (ok : List κ → Bool) (w : List κ → Nat) (es : List (List κ × Nat))
    (c : Contrib κ) (h : c ∈ es.filterMap (qGen ok w)) :
    ok c.1 = true ∧ (c.1, c.2.1) ∈ es ∧ c.2.1 ≠ 0 ∧ c.2.2 = w c.1 * c.2.1 := by
  rw [List.mem_filterMap] at h
  obtain ⟨e, he, hq⟩ := h
  unfold qGen at hq
  split at hq
  · rename_i hc
    simp only [Bool.and_eq_true, bne_iff_ne, ne_eq] at hc
    cases hq
    exact ⟨hc.1, he, hc.2, rfl⟩
  · cases hq

end Gen


/-! ### the scan since e9ca503: the cap bounds the number of distinct terms -/
section NewScan
variable {κ : Type} [DecidableEq κ]

theorem nodup_subset_length {β : Type} [DecidableEq β] : ∀ (l m : List β),
    l.Nodup → (∀ x ∈ l, x ∈ m) → l.length ≤ m.length := by
  intro l
  induction l with
  | nil => intro m _ _; simp
  | cons a l ih =>
    intro m hn hs
    rw [List.nodup_cons] at hn
    have ha : a ∈ m := hs a (by simp)
    have hsub : ∀ x ∈ l, x ∈ m.erase a := by
      intro x hx
      have hne : x ≠ a := fun e => hn.1 (e ▸ hx)
      rw [List.mem_erase_of_ne hne]
      exact hs x (List.mem_cons_of_mem _ hx)
    have h1 := ih (m.erase a) hn.2 hsub
    rw [List.length_erase_of_mem ha] at h1
    have := List.length_pos_of_mem ha
    simp only [List.length_cons]
    omega

theorem mergeAll_snoc (P : List (Contrib κ)) (c : Contrib κ) :
    mergeAll (P ++ [c]) = upsert c.1 c.2.1 c.2.2 (mergeAll P) := by
  simp [mergeAll, List.foldl_append]

theorem hasTerm_iff (acc : List (Cand κ)) (t : List κ) : hasTerm acc t = true ↔ t ∈ terms acc := by
  simp only [hasTerm, List.any_eq_true, beq_iff_eq, terms, List.mem_map]

theorem length_terms (acc : List (Cand κ)) : (terms acc).length = acc.length := by simp [terms]

/-- number of distinct terms is monotone in the contributions -/
theorem mergeAll_length_mono (P Q : List (Contrib κ)) :
    (mergeAll P).length ≤ (mergeAll (P ++ Q)).length := by
  rw [← length_terms, ← length_terms]
  apply nodup_subset_length _ _ (mergeAll_nodup P)
  intro x hx
  rw [mem_terms_mergeAll] at hx ⊢
  rw [List.map_append]
  exact List.mem_append_left _ hx

/-- a new term cannot be refused while the total number of distinct terms fits under the cap -/
theorem no_refusal (P R : List (Contrib κ)) (c : Contrib κ) (cap : Nat)
    (hfit : (mergeAll (P ++ c :: R)).length ≤ cap) (hfull : cap ≤ (mergeAll P).length)
    (hnew : c.1 ∉ terms (mergeAll P)) : False := by
  have hn : (c.1 :: terms (mergeAll P)).Nodup := List.nodup_cons.mpr ⟨hnew, mergeAll_nodup P⟩
  have hs : ∀ x ∈ c.1 :: terms (mergeAll P), x ∈ terms (mergeAll (P ++ c :: R)) := by
    intro x hx
    rw [mem_terms_mergeAll, List.map_append, List.map_cons]
    rcases List.mem_cons.mp hx with rfl | hx
    · exact List.mem_append_right _ (List.mem_cons_self ..)
    · rw [mem_terms_mergeAll] at hx
      exact List.mem_append_left _ hx
  have := nodup_subset_length _ _ hn hs
  rw [length_terms] at this
  simp only [List.length_cons, length_terms] at this
  omega

/-- **below the cap (distinct terms) the scan of one segment is the plain merge of all its
qualifying entries** -/
theorem scanSeg_full (q : List κ × Nat → Option (Contrib κ))
    (hq : ∀ e c, q e = some c → c.1 = e.1) (cap : Nat) :
    ∀ (es : List (List κ × Nat)) (P : List (Contrib κ)),
      (mergeAll (P ++ es.filterMap q)).length ≤ cap →
      scanSeg q cap (mergeAll P) es = mergeAll (P ++ es.filterMap q) := by
  intro es
  induction es with
  | nil => intro P _; simp [scanSeg]
  | cons e es ih =>
    intro P hfit
    unfold scanSeg
    cases hqe : q e with
    | none =>
      rw [List.filterMap_cons_none hqe] at hfit ⊢
      have := ih P hfit
      split <;> simpa using this
    | some c =>
      rw [List.filterMap_cons_some hqe] at hfit ⊢
      have hc1 := hq e c hqe
      have hnot : ¬ ((decide (cap ≤ (mergeAll P).length) && !hasTerm (mergeAll P) e.1) = true) := by
        intro h
        simp only [Bool.and_eq_true, decide_eq_true_eq, Bool.not_eq_true', ] at h
        have hnew : c.1 ∉ terms (mergeAll P) := by
          rw [hc1, ← hasTerm_iff]; simp [h.2]
        exact no_refusal P (es.filterMap q) c cap hfit h.1 hnew
      rw [if_neg hnot]
      simp only
      rw [← mergeAll_snoc]
      have := ih (P ++ [c]) (by simpa [List.append_assoc] using hfit)
      simpa [List.append_assoc] using this

theorem scanSegs_full (q : List κ × Nat → Option (Contrib κ))
    (hq : ∀ e c, q e = some c → c.1 = e.1) (cap : Nat) :
    ∀ (segs : List (List (List κ × Nat))) (P : List (Contrib κ)),
      (mergeAll (P ++ segs.flatten.filterMap q)).length ≤ cap →
      scanSegs q cap (mergeAll P) segs = mergeAll (P ++ segs.flatten.filterMap q) := by
  intro segs
  induction segs with
  | nil => intro P _; simp [scanSegs]
  | cons seg rest ih =>
    intro P hfit
    simp only [List.flatten_cons, List.filterMap_append] at hfit ⊢
    unfold scanSegs
    have h1 : (mergeAll (P ++ seg.filterMap q)).length ≤ cap := by
      have := mergeAll_length_mono (P ++ seg.filterMap q) (rest.flatten.filterMap q)
      rw [List.append_assoc] at this
      omega
    rw [scanSeg_full q hq cap seg P h1]
    have := ih (P ++ seg.filterMap q) (by rw [List.append_assoc]; exact hfit)
    rw [this, List.append_assoc]

/-- without any hypothesis: the scan is the merge of a sub-list of the qualifying entries -/
theorem scanSeg_sub (q : List κ × Nat → Option (Contrib κ)) (cap : Nat) :
    ∀ (es : List (List κ × Nat)) (P : List (Contrib κ)),
      ∃ A, A.Sublist (es.filterMap q) ∧ scanSeg q cap (mergeAll P) es = mergeAll (P ++ A) := by
  intro es
  induction es with
  | nil => intro P; exact ⟨[], List.Sublist.refl _, by simp [scanSeg]⟩
  | cons e es ih =>
    intro P
    unfold scanSeg
    have hsub : (es.filterMap q).Sublist ((e :: es).filterMap q) :=
      List.Sublist.filterMap q (List.sublist_cons_self e es)
    split
    · obtain ⟨A, hA, h⟩ := ih P
      exact ⟨A, hA.trans hsub, h⟩
    · cases hqe : q e with
      | none =>
        obtain ⟨A, hA, h⟩ := ih P
        exact ⟨A, hA.trans hsub, by simpa using h⟩
      | some c =>
        obtain ⟨A, hA, h⟩ := ih (P ++ [c])
        refine ⟨c :: A, ?_, ?_⟩
        · rw [List.filterMap_cons_some hqe]; exact hA.cons_cons c
        · simp only
          rw [← mergeAll_snoc, h, List.append_assoc]; rfl

theorem scanSegs_sub (q : List κ × Nat → Option (Contrib κ)) (cap : Nat) :
    ∀ (segs : List (List (List κ × Nat))) (P : List (Contrib κ)),
      ∃ A, A.Sublist (segs.flatten.filterMap q) ∧
        scanSegs q cap (mergeAll P) segs = mergeAll (P ++ A) := by
  intro segs
  induction segs with
  | nil => intro P; exact ⟨[], List.Sublist.refl _, by simp [scanSegs]⟩
  | cons seg rest ih =>
    intro P
    unfold scanSegs
    obtain ⟨A, hA, h⟩ := scanSeg_sub q cap seg P
    obtain ⟨B, hB, h2⟩ := ih (P ++ A)
    refine ⟨A ++ B, ?_, ?_⟩
    · simp only [List.flatten_cons, List.filterMap_append]
      exact List.Sublist.append hA hB
    · rw [h, h2, List.append_assoc]

end NewScan

/-! ### insertion sort is a permutation -/
section SortPerm
variable {α : Type}

theorem ins_perm (lt : α → α → Bool) (x : α) (l : List α) : (SL.ISort.ins lt x l).Perm (x :: l) := by
  induction l with
  | nil => exact List.Perm.refl _
  | cons y ys ih =>
    unfold SL.ISort.ins
    split
    · exact List.Perm.refl _
    · exact (List.Perm.cons y ih).trans (List.Perm.swap x y ys)

theorem sortBy_perm (lt : α → α → Bool) (l : List α) : (sortBy lt l).Perm l := by
  rw [sortBy_eq]
  induction l with
  | nil => exact List.Perm.refl _
  | cons x xs ih => exact (ins_perm lt x _).trans (List.Perm.cons x ih)

end SortPerm

end SL.Suggest
