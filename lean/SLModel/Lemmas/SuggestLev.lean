import SLModel.Core.Suggest
/-!
# Lemmas/SuggestLev — the bounded row-by-row DP of `bounded_levenshtein` computes the textbook
Levenshtein recurrence, and the two early exits (`abs_diff > max_edits`, `row_min > max_edits`)
only fire when the distance exceeds `max_edits`.
-/
namespace SL.Suggest
variable {κ : Type} [DecidableEq κ]

/-! ### the textbook recurrence -/

theorem levH_nil (b : List κ) : levH [] b = b.length := rfl

theorem levH_cons_nil (x : κ) (a : List κ) : levH (x :: a) [] = a.length + 1 := rfl

theorem levH_cons_cons (x y : κ) (a b : List κ) :
    levH (x :: a) (y :: b) =
      min (min (levH a (y :: b) + 1) (levH (x :: a) b + 1)) (levH a b + cost x y) := rfl

theorem levH_nil_right (a : List κ) : levH a [] = a.length := by
  cases a <;> rfl

theorem cost_le_one (x y : κ) : cost x y ≤ 1 := by
  unfold cost; split <;> omega

theorem cost_self (x : κ) : cost x x = 0 := by simp [cost]

/-- the length difference is a lower bound -/
theorem absDiff_le_levH : ∀ (a b : List κ), absDiff a.length b.length ≤ levH a b := by
  intro a
  induction a with
  | nil => intro b; simp [levH_nil, absDiff]
  | cons x a iha =>
    intro b
    induction b with
    | nil => simp [levH_cons_nil, absDiff]
    | cons y b ihb =>
      rw [levH_cons_cons]
      have h1 := iha (y :: b)
      have h2 := iha b
      have h3 := ihb
      have hc := cost_le_one x y
      simp only [absDiff, List.length_cons] at h1 h2 h3 ⊢
      split at h1 <;> split at h2 <;> split at h3 <;> split <;> omega

theorem levH_self : ∀ (a : List κ), levH a a = 0 := by
  intro a
  induction a with
  | nil => rfl
  | cons x a ih =>
    rw [levH_cons_cons, ih, cost_self]
    omega

theorem levH_le_max : ∀ (a b : List κ), levH a b ≤ max a.length b.length := by
  intro a
  induction a with
  | nil => intro b; simp [levH_nil]
  | cons x a iha =>
    intro b
    induction b with
    | nil => simp [levH_cons_nil]
    | cons y b _ =>
      rw [levH_cons_cons]
      have h2 := iha b
      have hc := cost_le_one x y
      simp only [List.length_cons]
      omega

/-! ### rows of the DP as rows of the recurrence

`ra` = the processed characters of `a`, most recent first; `rb` = the processed characters of
`b`, most recent first; `bs` = the rest of `b`. -/

/-- the row for `ra`, from column `rb` on -/
def rowSpec (ra : List κ) : List κ → List κ → List Nat
  | rb, [] => [levH ra rb]
  | rb, y :: bs => levH ra rb :: rowSpec ra (y :: rb) bs

theorem rowSpec_nil_eq_upTo : ∀ (bs rb : List κ),
    rowSpec ([] : List κ) rb bs = upTo rb.length bs.length := by
  intro bs
  induction bs with
  | nil => intro rb; rfl
  | cons y bs ih =>
    intro rb
    simp only [rowSpec, upTo, List.length_cons, levH_nil]
    rw [ih (y :: rb)]
    rfl

theorem rowGo_spec (x : κ) (ra : List κ) : ∀ (bs rb : List κ),
    rowGo x (levH (x :: ra) rb) (rowSpec ra rb bs) bs = (rowSpec (x :: ra) rb bs).tail := by
  intro bs
  induction bs with
  | nil => intro rb; simp [rowSpec, rowGo]
  | cons y bs ih =>
    intro rb
    have ih' := ih (y :: rb)
    cases bs with
    | nil =>
      simp only [rowSpec, rowGo, List.tail_cons]
      rw [levH_cons_cons]
    | cons z bs =>
      simp only [rowSpec, List.tail_cons] at ih' ⊢
      simp only [rowGo]
      rw [← levH_cons_cons, ih']

theorem nextRow_spec (x : κ) (ra b : List κ) :
    nextRow x ra.length (rowSpec ra [] b) b = rowSpec (x :: ra) [] b := by
  unfold nextRow
  have h := rowGo_spec x ra b []
  rw [levH_cons_nil] at h
  rw [h]
  cases b <;> simp [rowSpec, levH_cons_nil]

theorem rowSpec_getLast (ra : List κ) : ∀ (bs rb : List κ),
    (rowSpec ra rb bs).getLastD 0 = levH ra (bs.reverse ++ rb) := by
  intro bs
  induction bs with
  | nil => intro rb; simp [rowSpec]
  | cons y bs ih =>
    intro rb
    have h := ih (y :: rb)
    cases bs with
    | nil => simp [rowSpec]
    | cons z bs =>
      simp only [rowSpec, List.getLastD_cons] at h ⊢
      simpa using h

theorem rowSpec_head (ra rb bs : List κ) :
    ∃ tl, rowSpec ra rb bs = levH ra rb :: tl := by
  cases bs with
  | nil => exact ⟨[], rfl⟩
  | cons y bs => exact ⟨_, rfl⟩

/-! ### row minima never decrease -/

theorem rowGo_allGe (x : κ) (m : Nat) : ∀ (bs : List κ) (cj : Nat) (prev : List Nat),
    m ≤ cj → (∀ v ∈ prev, m ≤ v) → ∀ v ∈ rowGo x cj prev bs, m ≤ v := by
  intro bs
  induction bs with
  | nil => intro cj prev _ _ v hv; cases prev with
    | nil => simp [rowGo] at hv
    | cons p ps => cases ps <;> simp [rowGo] at hv
  | cons y bs ih =>
    intro cj prev hc hp v hv
    cases prev with
    | nil => simp [rowGo] at hv
    | cons p ps =>
      cases ps with
      | nil => simp [rowGo] at hv
      | cons p1 ps =>
        simp only [rowGo, List.mem_cons] at hv
        have hp0 : m ≤ p := hp p (by simp)
        have hp1 : m ≤ p1 := hp p1 (by simp)
        have hv0 : m ≤ min (min (p1 + 1) (cj + 1)) (p + cost x y) := by omega
        rcases hv with rfl | hv
        · exact hv0
        · exact ih _ (p1 :: ps) hv0 (fun w hw => hp w (List.mem_cons_of_mem _ hw)) v hv

theorem rowSpec_allGe_step (x : κ) (ra b : List κ) (m : Nat)
    (h : ∀ v ∈ rowSpec ra [] b, m ≤ v) : ∀ v ∈ rowSpec (x :: ra) [] b, m ≤ v := by
  rw [← nextRow_spec]
  intro v hv
  unfold nextRow at hv
  obtain ⟨tl, htl⟩ := rowSpec_head ra [] b
  have h0 : m ≤ ra.length := by
    have := h (levH ra []) (by rw [htl]; simp)
    rwa [levH_nil_right] at this
  rcases List.mem_cons.mp hv with rfl | hv
  · omega
  · exact rowGo_allGe x m b _ _ (by omega) h v hv

theorem rowSpec_allGe_steps (b : List κ) (m : Nat) : ∀ (as ra : List κ),
    (∀ v ∈ rowSpec ra [] b, m ≤ v) → ∀ v ∈ rowSpec (as.reverse ++ ra) [] b, m ≤ v := by
  intro as
  induction as with
  | nil => intro ra h; simp; exact h
  | cons x as ih =>
    intro ra h
    have := ih (x :: ra) (rowSpec_allGe_step x ra b m h)
    simpa using this

theorem foldl_min_gt (k : Nat) : ∀ (r : List Nat) (x : Nat),
    k < r.foldl min x ↔ (k < x ∧ ∀ v ∈ r, k < v) := by
  intro r
  induction r with
  | nil => intro x; simp
  | cons y r ih =>
    intro x
    simp only [List.foldl_cons, ih, List.mem_cons]
    constructor
    · rintro ⟨h1, h2⟩
      refine ⟨by omega, ?_⟩
      intro v hv
      rcases hv with rfl | hv
      · omega
      · exact h2 v hv
    · rintro ⟨h1, h2⟩
      have := h2 y (Or.inl rfl)
      exact ⟨by omega, fun v hv => h2 v (Or.inr hv)⟩

theorem rowMin_gt (k : Nat) (x : Nat) (r : List Nat) :
    k < rowMin (x :: r) ↔ ∀ v ∈ x :: r, k < v := by
  simp only [rowMin, foldl_min_gt, List.mem_cons]
  constructor
  · rintro ⟨h1, h2⟩ v (rfl | hv)
    · exact h1
    · exact h2 v hv
  · intro h
    exact ⟨h x (Or.inl rfl), fun v hv => h v (Or.inr hv)⟩

theorem getLastD_mem_cons : ∀ (l : List Nat) (x d : Nat), (x :: l).getLastD d ∈ x :: l := by
  intro l
  induction l with
  | nil => intro x d; simp
  | cons y l ih =>
    intro x d
    rw [List.getLastD_cons]
    exact List.mem_cons_of_mem _ (ih y x)

/-! ### the outer loop -/

theorem dpLoop_some (k : Nat) (b : List κ) : ∀ (as ra : List κ) (r : List Nat),
    dpLoop k b ra.length (rowSpec ra [] b) as = some r → r = rowSpec (as.reverse ++ ra) [] b := by
  intro as
  induction as with
  | nil => intro ra r h; simp [dpLoop] at h; simp [h]
  | cons x as ih =>
    intro ra r h
    simp only [dpLoop] at h
    split at h
    · cases h
    · rw [nextRow_spec] at h
      have := ih (x :: ra) r (by simpa using h)
      simpa using this

theorem dpLoop_none (k : Nat) (b : List κ) : ∀ (as ra : List κ),
    dpLoop k b ra.length (rowSpec ra [] b) as = none →
    k < levH (as.reverse ++ ra) b.reverse := by
  intro as
  induction as with
  | nil => intro ra h; simp [dpLoop] at h
  | cons x as ih =>
    intro ra h
    simp only [dpLoop] at h
    split at h
    · rename_i hmin
      rw [nextRow_spec] at hmin
      obtain ⟨tl, htl⟩ := rowSpec_head (x :: ra) [] b
      rw [htl, rowMin_gt] at hmin
      rw [← htl] at hmin
      have hall := rowSpec_allGe_steps b (k + 1) as (x :: ra) (fun v hv => hmin v hv)
      have hlast := rowSpec_getLast (as.reverse ++ x :: ra) b []
      obtain ⟨tl2, htl2⟩ := rowSpec_head (as.reverse ++ x :: ra) [] b
      have hmem : (rowSpec (as.reverse ++ x :: ra) [] b).getLastD 0 ∈
          rowSpec (as.reverse ++ x :: ra) [] b := by
        rw [htl2]; exact getLastD_mem_cons _ _ _
      have := hall _ hmem
      rw [hlast] at this
      simp only [List.append_nil] at this
      simp only [List.reverse_cons, List.append_assoc, List.singleton_append]
      omega
    · rw [nextRow_spec] at h
      have := ih (x :: ra) (by simpa using h)
      simpa using this

/-- **the bounded DP is the textbook distance cut off at `k`** -/
theorem boundedLev_eq (a b : List κ) (k : Nat) :
    boundedLev a b k = if lev a b ≤ k then some (lev a b) else none := by
  unfold boundedLev lev
  have hlow := absDiff_le_levH a.reverse b.reverse
  simp only [List.length_reverse] at hlow
  split
  · rename_i h
    have : ¬ levH a.reverse b.reverse ≤ k := by omega
    simp [this]
  · split
    · rename_i h0
      have ha : a = [] := List.eq_nil_of_length_eq_zero h0
      subst ha
      simp [levH_nil]
    · split
      · rename_i h0
        have hb : b = [] := List.eq_nil_of_length_eq_zero h0
        subst hb
        simp [levH_nil_right]
      · have hinit : upTo 0 b.length = rowSpec ([] : List κ) [] b := by
          rw [rowSpec_nil_eq_upTo]; rfl
        rw [hinit]
        have hs := dpLoop_some k b a []
        have hn := dpLoop_none k b a []
        simp only [List.length_nil, List.append_nil] at hs hn
        cases hdp : dpLoop k b 0 (rowSpec [] [] b) a with
        | none =>
          have := hn hdp
          have hk : ¬ levH a.reverse b.reverse ≤ k := by omega
          simp [hk]
        | some r =>
          have hr := hs r hdp
          subst hr
          have hl := rowSpec_getLast a.reverse b []
          simp only [List.append_nil] at hl
          simp only [hl]

/-! ### reading the recurrence from the right-hand end gives the same distance -/

theorem levH_snoc_nil (x : κ) : ∀ (a : List κ), levH (a ++ [x]) [] = a.length + 1 := by
  intro a; rw [levH_nil_right]; simp

theorem levH_nil_snoc (y : κ) (b : List κ) : levH ([] : List κ) (b ++ [y]) = b.length + 1 := by
  rw [levH_nil]; simp

/-- the recurrence read from the right-hand end, first string a single character -/
theorem levH_single_snoc (x y : κ) : ∀ (b : List κ),
    levH [x] (b ++ [y]) = min (min (b.length + 1 + 1) (levH [x] b + 1)) (b.length + cost x y) := by
  intro b
  induction b with
  | nil =>
    simp only [List.nil_append, levH_cons_cons, levH_nil, levH_cons_nil, List.length_nil, List.length_cons]
  | cons y0 b ih =>
    simp only [List.cons_append, levH_cons_cons, levH_nil, List.length_cons, List.length_append,
      List.length_nil] at ih ⊢
    rw [ih]
    have := cost_le_one x y
    have := cost_le_one x y0
    omega

theorem min9 {p1 p2 p3 p4 p5 p6 p7 p8 p9 cxy c00 L A B C D E F : Nat}
    (eL : L = min (min (A + 1) (B + 1)) (C + c00))
    (hA : A = min (min (p1 + 1) (p2 + 1)) (p3 + cxy))
    (hB : B = min (min (p4 + 1) (p5 + 1)) (p6 + cxy))
    (hC : C = min (min (p7 + 1) (p8 + 1)) (p9 + cxy))
    (eD : D = min (min (p1 + 1) (p4 + 1)) (p7 + c00))
    (eE : E = min (min (p2 + 1) (p5 + 1)) (p8 + c00))
    (eF : F = min (min (p3 + 1) (p6 + 1)) (p9 + c00)) :
    L = min (min (D + 1) (E + 1)) (F + cxy) := by
  subst eL hA hB hC eD eE eF
  simp only [← Nat.add_min_add_right]
  have e1 : p7 + c00 + 1 = p7 + 1 + c00 := by omega
  have e2 : p8 + c00 + 1 = p8 + 1 + c00 := by omega
  have e3 : p3 + 1 + cxy = p3 + cxy + 1 := by omega
  have e4 : p6 + 1 + cxy = p6 + cxy + 1 := by omega
  have e5 : p9 + c00 + cxy = p9 + cxy + c00 := by omega
  rw [e1, e2, e3, e4, e5]
  generalize p1 + 1 + 1 = a1
  generalize p2 + 1 + 1 = a2
  generalize p3 + cxy + 1 = a3
  generalize p4 + 1 + 1 = a4
  generalize p5 + 1 + 1 = a5
  generalize p6 + cxy + 1 = a6
  generalize p7 + 1 + c00 = a7
  generalize p8 + 1 + c00 = a8
  generalize p9 + cxy + c00 = a9
  ac_rfl

theorem levH_snoc_snoc (x y : κ) : ∀ (a b : List κ),
    levH (a ++ [x]) (b ++ [y]) =
      min (min (levH a (b ++ [y]) + 1) (levH (a ++ [x]) b + 1)) (levH a b + cost x y) := by
  intro a
  induction a with
  | nil =>
    intro b
    rw [List.nil_append, levH_single_snoc, levH_nil, levH_nil]
    simp
  | cons x0 a iha =>
    intro b
    induction b with
    | nil =>
      simp only [List.nil_append, List.cons_append, levH_cons_cons, levH_nil_right,
        List.length_cons, List.length_append, List.length_nil]
      have h1 := iha []
      simp only [List.nil_append, levH_nil_right, List.length_append, List.length_cons,
        List.length_nil] at h1
      have := cost_le_one x y
      have := cost_le_one x0 y
      omega
    | cons y0 b ihb =>
      have hA := iha (y0 :: b)
      have hB := ihb
      have hC := iha b
      have eL := levH_cons_cons x0 y0 (a ++ [x]) (b ++ [y])
      have eD := levH_cons_cons x0 y0 a (b ++ [y])
      have eE := levH_cons_cons x0 y0 (a ++ [x]) b
      have eF := levH_cons_cons x0 y0 a b
      exact min9 eL hA hB hC eD eE eF


/-- `levH` is invariant under reversing both strings: the right-to-left reading of the
recurrence (what the row DP computes) is the textbook left-to-right one. -/
theorem levH_reverse : ∀ (n : Nat) (a b : List κ), a.length + b.length ≤ n →
    levH a.reverse b.reverse = levH a b := by
  intro n
  induction n with
  | zero =>
    intro a b h
    have ha : a = [] := List.eq_nil_of_length_eq_zero (by omega)
    have hb : b = [] := List.eq_nil_of_length_eq_zero (by omega)
    subst ha hb; rfl
  | succ n ih =>
    intro a b h
    cases a with
    | nil => simp [levH_nil]
    | cons x a =>
      cases b with
      | nil => simp [levH_nil_right]
      | cons y b =>
        simp only [List.length_cons] at h
        rw [List.reverse_cons, List.reverse_cons, levH_snoc_snoc, levH_cons_cons]
        have h1 := ih a (y :: b) (by simp only [List.length_cons]; omega)
        have h2 := ih (x :: a) b (by simp only [List.length_cons]; omega)
        have h3 := ih a b (by omega)
        rw [List.reverse_cons] at h1 h2
        rw [h1, h2, h3]

theorem lev_eq_levH (a b : List κ) : lev a b = levH a b :=
  levH_reverse (a.length + b.length) a b (Nat.le_refl _)

end SL.Suggest
