namespace SL.TopK
/-! scratch: top-k as sorted insertion; basic lemmas -/
abbrev Hit := Nat × Nat  -- (score, doc)

def better (a b : Hit) : Bool := decide (a.1 > b.1) || (decide (a.1 = b.1) && decide (a.2 < b.2))

def ins (x : Hit) : List Hit → List Hit
  | [] => [x]
  | y :: ys => if better x y then x :: y :: ys else y :: ins x ys

def sortHits : List Hit → List Hit
  | [] => []
  | x :: xs => ins x (sortHits xs)

def best (k : Nat) (L : List Hit) : List Hit := (sortHits L).take k

/-- threshold: score of the k-th hit when the heap is full, else 0 -/
def theta (k : Nat) (H : List Hit) : Nat :=
  if H.length ≥ k then (match H.getLast? with | some h => h.1 | none => 0) else 0

theorem ins_length (x : Hit) (l : List Hit) : (ins x l).length = l.length + 1 := by
  induction l with
  | nil => simp [ins]
  | cons y ys ih => unfold ins; split <;> simp [ih]

theorem take_ins_take (x : Hit) : ∀ (k : Nat) (S : List Hit),
    (ins x S).take k = (ins x (S.take k)).take k := by
  intro k S
  induction S generalizing k with
  | nil => simp
  | cons y ys ih =>
    cases k with
    | zero => simp
    | succ k =>
      simp only [List.take_succ_cons]
      unfold ins
      split
      · simp only [List.take_succ_cons]
        cases k with
        | zero => simp
        | succ k => simp [List.take_take]
      · simp only [List.take_succ_cons]
        rw [ih k]

theorem best_cons (k : Nat) (x : Hit) (L : List Hit) :
    best k (x :: L) = (ins x (best k L)).take k := by
  show (ins x (sortHits L)).take k = (ins x ((sortHits L).take k)).take k
  exact take_ins_take x k (sortHits L)

/-- `Worse x H`: x is not better than any element of H -/
def WorseAll (x : Hit) (H : List Hit) : Prop := ∀ y ∈ H, better x y = false

theorem ins_worse (x : Hit) (H : List Hit) (h : WorseAll x H) : ins x H = H ++ [x] := by
  induction H with
  | nil => simp [ins]
  | cons y ys ih =>
    unfold ins
    have hy : better x y = false := h y (by simp)
    simp only [hy]
    have : WorseAll x ys := fun z hz => h z (by simp [hz])
    simp [ih this]

theorem take_ins_worse_full (k : Nat) (x : Hit) (H : List Hit) (hlen : H.length = k)
    (h : WorseAll x H) : (ins x H).take k = H := by
  rw [ins_worse x H h, ← hlen]; simp

/-! scratch: abstract safe-skip top-k -/

def ScoresDesc (H : List Hit) : Prop := H.Pairwise (fun a b => a.1 ≥ b.1)

theorem mem_ins {x z : Hit} : ∀ {l : List Hit}, z ∈ ins x l → z = x ∨ z ∈ l := by
  intro l
  induction l with
  | nil => intro hz; simp [ins] at hz; exact Or.inl hz
  | cons w ws ihw =>
    intro hz
    unfold ins at hz
    split at hz
    · rcases List.mem_cons.mp hz with rfl | hz
      · exact Or.inl rfl
      · exact Or.inr hz
    · rcases List.mem_cons.mp hz with rfl | hz
      · exact Or.inr (by simp)
      · rcases ihw hz with h | h
        · exact Or.inl h
        · exact Or.inr (by simp [h])

theorem ins_scoresDesc (x : Hit) (H : List Hit) (h : ScoresDesc H) : ScoresDesc (ins x H) := by
  induction H with
  | nil => simp [ins, ScoresDesc]
  | cons y ys ih =>
    unfold ScoresDesc at h
    rw [List.pairwise_cons] at h
    unfold ins
    split
    · rename_i hb
      unfold ScoresDesc
      rw [List.pairwise_cons]
      refine ⟨?_, List.pairwise_cons.mpr h⟩
      intro z hz
      have hxy : x.1 ≥ y.1 := by
        simp [better] at hb
        rcases hb with hb | hb <;> omega
      rcases List.mem_cons.mp hz with rfl | hz
      · exact hxy
      · have := h.1 z hz; omega
    · rename_i hb
      unfold ScoresDesc
      rw [List.pairwise_cons]
      refine ⟨?_, ih h.2⟩
      intro z hz
      -- z ∈ ins x ys : z = x or z ∈ ys
      have hmem : z = x ∨ z ∈ ys := mem_ins hz
      rcases hmem with rfl | hz
      · simp [better] at hb
        omega
      · exact h.1 z hz

theorem take_scoresDesc (k : Nat) (H : List Hit) (h : ScoresDesc H) : ScoresDesc (H.take k) :=
  List.Pairwise.sublist (List.take_sublist k H) h

theorem last_min (H : List Hit) (h : ScoresDesc H) (l : Hit) (hl : H.getLast? = some l) :
    ∀ y ∈ H, y.1 ≥ l.1 := by
  obtain ⟨ini, rfl⟩ := List.getLast?_eq_some_iff.mp hl
  intro y hy
  unfold ScoresDesc at h
  rw [List.pairwise_append] at h
  rcases List.mem_append.mp hy with hy | hy
  · exact h.2.2 y hy l (by simp)
  · simp at hy; subst hy; omega

def offer (k : Nat) (H : List Hit) (x : Hit) : List Hit :=
  if H.length < k ∨ x.1 > theta k H then (ins x H).take k else H

theorem offer_eq (k : Nat) (H : List Hit) (x : Hit) (hs : ScoresDesc H) (hlen : H.length ≤ k)
    (hdoc : ∀ y ∈ H, y.2 < x.2) : offer k H x = (ins x H).take k := by
  unfold offer
  split
  · rfl
  · rename_i hc
    have hfull : H.length = k := by omega
    have hx : ¬ x.1 > theta k H := fun h => hc (Or.inr h)
    symm
    apply take_ins_worse_full k x H hfull
    intro y hy
    cases hl : H.getLast? with
    | none =>
      have : H = [] := List.getLast?_eq_none_iff.mp hl
      subst this; simp at hy
    | some l =>
      have hmin := last_min H hs l hl y hy
      have hth : theta k H = l.1 := by simp [theta, hfull, hl]
      have hd := hdoc y hy
      simp [better]
      omega

/-- skipping a hit that is strictly below the threshold of a full heap changes nothing -/
theorem skip_ok (k : Nat) (H : List Hit) (x : Hit) (hs : ScoresDesc H) (hfull : H.length = k)
    (hk : 0 < k) (hlt : x.1 < theta k H) : (ins x H).take k = H := by
  apply take_ins_worse_full k x H hfull
  intro y hy
  cases hl : H.getLast? with
  | none =>
    have : H = [] := List.getLast?_eq_none_iff.mp hl
    subst this; simp at hy
  | some l =>
    have hmin := last_min H hs l hl y hy
    have hth : theta k H = l.1 := by simp [theta, hfull, hl]
    simp [better]
    omega

def runDocs (k : Nat) (sc : Nat → Nat) (skip : List Hit → Nat → Bool) : List Hit → List Nat → List Hit
  | H, [] => H
  | H, d :: ds =>
    if skip H d then runDocs k sc skip H ds else runDocs k sc skip (offer k H (sc d, d)) ds

theorem runDocs_inv (k : Nat) (hk : 0 < k) (sc : Nat → Nat) (skip : List Hit → Nat → Bool)
    (hskip : ∀ H d, H.length ≤ k → skip H d = true → H.length = k ∧ sc d < theta k H) :
    ∀ (ds : List Nat) (done : List Hit) (H : List Hit),
      H = best k done → (∀ y ∈ H, ∀ d ∈ ds, y.2 < d) → ds.Pairwise (· < ·) →
      runDocs k sc skip H ds = best k ((ds.map (fun d => (sc d, d))).reverse ++ done) := by
  intro ds
  induction ds with
  | nil => intro done H hH _ _; simp [runDocs, hH]
  | cons d ds ih =>
    intro done H hH hdocs hsorted
    rw [List.pairwise_cons] at hsorted
    have hs : ScoresDesc H := by
      rw [hH]; unfold best
      apply take_scoresDesc
      clear hH hdocs
      induction done with
      | nil => simp [sortHits, ScoresDesc]
      | cons x xs ihx => exact ins_scoresDesc x _ ihx
    have hlen : H.length ≤ k := by rw [hH]; unfold best; simp [List.length_take]; omega
    have hnext : best k ((sc d, d) :: done) = (ins (sc d, d) H).take k := by
      rw [best_cons, hH]
    have hdocs' : ∀ H' : List Hit, (∀ y ∈ H', y = (sc d, d) ∨ y ∈ H) → ∀ y ∈ H', ∀ e ∈ ds, y.2 < e := by
      intro H' hsub y hy e he
      rcases hsub y hy with rfl | hyH
      · exact hsorted.1 e he
      · exact hdocs y hyH e (by simp [he])
    have hlist : (List.map (fun d => (sc d, d)) (d :: ds)).reverse ++ done
        = (List.map (fun d => (sc d, d)) ds).reverse ++ ((sc d, d) :: done) := by simp
    unfold runDocs
    split
    · rename_i hsk
      obtain ⟨hfull, hlt⟩ := hskip H d hlen hsk
      have : best k ((sc d, d) :: done) = H := by
        rw [hnext]; exact skip_ok k H (sc d, d) hs hfull hk hlt
      rw [hlist]
      apply ih ((sc d, d) :: done) H this.symm
      · intro y hy e he; exact hdocs y hy e (by simp [he])
      · exact hsorted.2
    · have hoff : offer k H (sc d, d) = (ins (sc d, d) H).take k :=
        offer_eq k H (sc d, d) hs hlen (fun y hy => hdocs y hy d (by simp))
      rw [hlist]
      apply ih ((sc d, d) :: done) (offer k H (sc d, d)) (by rw [hoff, hnext])
      · apply hdocs'
        intro y hy
        rw [hoff] at hy
        exact mem_ins (List.mem_of_mem_take hy)
      · exact hsorted.2

/-! scratch: WAND decision rule as a safe-skip executor -/

structure Term where
  posts : List (Nat × Nat)     -- (doc, contribution)
  ub    : Nat

def Term.contrib (t : Term) (d : Nat) : Nat :=
  match t.posts.find? (fun p => p.1 == d) with
  | some p => p.2
  | none => 0

def Term.has (t : Term) (d : Nat) : Bool := (t.posts.find? (fun p => p.1 == d)).isSome

def score (ts : List Term) (d : Nat) : Nat := (ts.map (·.contrib d)).sum
def ubsum (ts : List Term) (d : Nat) : Nat := ((ts.filter (·.has d)).map (·.ub)).sum

def ValidBounds (ts : List Term) : Prop := ∀ t ∈ ts, ∀ p ∈ t.posts, p.2 ≤ t.ub

theorem score_le_ubsum (ts : List Term) (hv : ValidBounds ts) (d : Nat) : score ts d ≤ ubsum ts d := by
  induction ts with
  | nil => simp [score, ubsum]
  | cons t ts ih =>
    have hv' : ValidBounds ts := fun u hu => hv u (by simp [hu])
    have ih := ih hv'
    unfold score ubsum at *
    simp only [List.map_cons, List.sum_cons, List.filter_cons]
    cases hf : t.posts.find? (fun p => p.1 == d) with
    | none =>
      have h1 : t.contrib d = 0 := by simp [Term.contrib, hf]
      have h2 : t.has d = false := by simp [Term.has, hf]
      simp [h1, h2]; exact ih
    | some p =>
      have h1 : t.contrib d = p.2 := by simp [Term.contrib, hf]
      have h2 : t.has d = true := by simp [Term.has, hf]
      have hp : p ∈ t.posts := List.mem_of_find?_eq_some hf
      have := hv t (by simp) p hp
      simp [h1, h2]; omega

/-- WAND as a decision rule: visit docs in increasing order, fully score `d` iff the sum of the
    upper bounds of the terms containing `d` reaches the current threshold. -/
def wandSpec (k : Nat) (ts : List Term) (D : List Nat) : List Hit :=
  runDocs k (score ts) (fun H d => decide (ubsum ts d < theta k H)) [] D

theorem theta_pos_full (k : Nat) (H : List Hit) (hlen : H.length ≤ k) (h : 0 < theta k H) : H.length = k := by
  unfold theta at h
  split at h
  · omega
  · omega

theorem wandSpec_eq_best (k : Nat) (hk : 0 < k) (ts : List Term) (hv : ValidBounds ts)
    (D : List Nat) (hD : D.Pairwise (· < ·)) :
    wandSpec k ts D = best k ((D.map (fun d => (score ts d, d))).reverse) := by
  have := runDocs_inv k hk (score ts) (fun H d => decide (ubsum ts d < theta k H))
    (by
      intro H d hlen hs
      have hlt : ubsum ts d < theta k H := by simpa using hs
      refine ⟨theta_pos_full k H hlen (by omega), ?_⟩
      have := score_le_ubsum ts hv d
      omega)
    D [] [] (by simp [best, sortHits]) (by simp) hD
  simpa [wandSpec] using this


end SL.TopK
