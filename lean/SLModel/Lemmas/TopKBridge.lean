import SLModel.Core.TopK
import SLModel.Lemmas.TopK
import SLModel.Lemmas.ISort
/-!
# Lemmas/TopKBridge — `Core/TopK` ↔ `Lemmas/TopK`, and the decision rule = exhaustive top-k

`Core/TopK` repeats the list-level definitions of `Lemmas/TopK` (Core files are import-free);
here they are shown equal, `runDocs_inv` is lifted to `runDocsO` (accept filter / dropped
documents), and small facts about `SegIn` are collected.
-/
set_option linter.unusedSimpArgs false
namespace SL.TK

/-! bridge to Lemmas/TopK -/
theorem better_eq (a b : Hit) : better a b = SL.TopK.better a b := rfl

theorem ins_eq (x : Hit) (l : List Hit) : ins x l = SL.TopK.ins x l := by
  induction l with
  | nil => rfl
  | cons y ys ih => simp [ins, SL.TopK.ins, better_eq, ih]

theorem sortHits_eq (l : List Hit) : sortHits l = SL.TopK.sortHits l := by
  induction l with
  | nil => rfl
  | cons y ys ih => simp [sortHits, SL.TopK.sortHits, ins_eq, ih]

theorem best_eq (k : Nat) (l : List Hit) : best k l = SL.TopK.best k l := by
  simp [best, SL.TopK.best, sortHits_eq]

theorem theta_eq (k : Nat) (H : List Hit) : theta k H = SL.TopK.theta k H := rfl

theorem offer_eq (k : Nat) (H : List Hit) (x : Hit) : offer k H x = SL.TopK.offer k H x := by
  simp [offer, SL.TopK.offer, ins_eq, theta_eq]

/-- `runDocsO` is `runDocs` on the accepted documents -/
theorem runDocsO_eq_runDocs (k : Nat) (sc : Nat → Option Nat) (skip : List Hit → Nat → Bool) :
    ∀ (D : List Nat) (H : List Hit),
      runDocsO k sc skip H D =
        SL.TopK.runDocs k (fun d => (sc d).getD 0) (fun H d => skip H d && (sc d).isSome) H
          (D.filter fun d => (sc d).isSome) := by
  intro D
  induction D with
  | nil => intro H; simp [runDocsO, SL.TopK.runDocs]
  | cons d ds ih =>
    intro H
    cases hs : sc d with
    | none =>
      simp only [runDocsO, hs, List.filter_cons, Option.isSome_none]
      split <;> exact ih H
    | some s =>
      simp only [runDocsO, hs, List.filter_cons, Option.isSome_some, SL.TopK.runDocs, if_true,
        Bool.and_true, Option.getD_some]
      split
      · exact ih H
      · rw [offer_eq]; exact ih _

theorem filterMap_eq_map_filter (sc : Nat → Option Nat) (D : List Nat) :
    D.filterMap (fun d => (sc d).map fun s => (s, d)) =
      (D.filter fun d => (sc d).isSome).map (fun d => ((sc d).getD 0, d)) := by
  induction D with
  | nil => rfl
  | cons d ds ih =>
    cases hs : sc d <;> simp [List.filterMap_cons, List.filter_cons, hs, ih]

/-- **Safe skipping never changes the result** (with an accept filter). -/
theorem runDocsO_eq_best (k : Nat) (hk : 0 < k) (sc : Nat → Option Nat)
    (skip : List Hit → Nat → Bool)
    (hskip : ∀ H d s, H.length ≤ k → skip H d = true → sc d = some s →
      H.length = k ∧ s < theta k H)
    (D : List Nat) (hD : D.Pairwise (· < ·)) :
    runDocsO k sc skip [] D = best k ((D.filterMap fun d => (sc d).map fun s => (s, d)).reverse) := by
  rw [runDocsO_eq_runDocs, filterMap_eq_map_filter, best_eq]
  have := SL.TopK.runDocs_inv k hk (fun d => (sc d).getD 0)
    (fun H d => skip H d && (sc d).isSome)
    (by
      intro H d hlen hs
      simp only [Bool.and_eq_true] at hs
      obtain ⟨s, hsd⟩ := Option.isSome_iff_exists.mp hs.2
      have := hskip H d s hlen hs.1 hsd
      rw [theta_eq] at this
      simpa [hsd] using this)
    (D.filter fun d => (sc d).isSome) [] [] (by simp [SL.TopK.best, SL.TopK.sortHits]) (by simp)
    (List.Pairwise.sublist List.filter_sublist hD)
  simpa using this

/-- **WAND decision rule = exhaustive top-k**, for any bound function that dominates the
accepted scores. -/
theorem wandRule_eq_best (k : Nat) (hk : 0 < k) (sc : Nat → Option Nat) (bound : Nat → Nat)
    (hb : ∀ d s, sc d = some s → s ≤ bound d) (D : List Nat) (hD : D.Pairwise (· < ·)) :
    wandRule k sc bound D = best k ((D.filterMap fun d => (sc d).map fun s => (s, d)).reverse) := by
  unfold wandRule
  apply runDocsO_eq_best k hk sc _ _ D hD
  intro H d s hlen hs hsd
  have hlt : bound d < theta k H := by simpa using hs
  have hle := hb d s hsd
  refine ⟨?_, by omega⟩
  have := SL.TopK.theta_pos_full k H hlen (by rw [← theta_eq]; omega)
  exact this


theorem better_strictTotal : SL.ISort.StrictTotal better where
  irrefl := by intro a; simp [better]
  trans := by
    intro a b c h1 h2
    simp [better] at h1 h2 ⊢
    omega
  total := by
    intro a b hab
    have : a.1 ≠ b.1 ∨ a.2 ≠ b.2 := by
      by_cases h : a.1 = b.1
      · right; intro h2; exact hab (Prod.ext h h2)
      · left; exact h
    simp [better]
    omega

theorem ins_eq_isort (x : Hit) (l : List Hit) : ins x l = SL.ISort.ins better x l := by
  induction l with
  | nil => rfl
  | cons y ys ih => simp [ins, SL.ISort.ins, ih]

theorem sortHits_eq_isort (l : List Hit) : sortHits l = SL.ISort.isort better l := by
  induction l with
  | nil => rfl
  | cons y ys ih => simp [sortHits, SL.ISort.isort, ins_eq_isort, ih]

/-- the exhaustive top-k does not depend on the order in which hits are enumerated -/
theorem best_perm (k : Nat) {l₁ l₂ : List Hit} (p : l₁.Perm l₂) : best k l₁ = best k l₂ := by
  unfold best
  rw [sortHits_eq_isort, sortHits_eq_isort, SL.ISort.isort_perm better_strictTotal p]

theorem mem_of_lookup {β : Type} : ∀ (l : List (Nat × β)) (d : Nat) (v : β),
    l.lookup d = some v → (d, v) ∈ l := by
  intro l
  induction l with
  | nil => intro d v h; simp at h
  | cons a as ih =>
    intro d v h
    obtain ⟨a1, a2⟩ := a
    rw [List.lookup_cons] at h
    by_cases hd : d = a1
    · subst hd; simp at h; subst h; simp
    · have : (d == a1) = false := by simpa using hd
      simp [this] at h
      exact List.mem_cons_of_mem _ (ih d v h)

theorem lookup_of_mem {β : Type} : ∀ (l : List (Nat × β)), (l.map (·.1)).Pairwise (· < ·) →
    ∀ (d : Nat) (v : β), (d, v) ∈ l → l.lookup d = some v := by
  intro l
  induction l with
  | nil => intro _ d v h; simp at h
  | cons a as ih =>
    intro hp d v h
    obtain ⟨a1, a2⟩ := a
    simp only [List.map_cons, List.pairwise_cons] at hp
    rw [List.lookup_cons]
    rcases List.mem_cons.mp h with h | h
    · cases h; simp
    · have hlt : a1 < d := hp.1 d (List.mem_map.mpr ⟨(d, v), h, rfl⟩)
      have : (d == a1) = false := by simp; omega
      simp [this]
      exact ih hp.2 d v h

theorem SegIn.sc_of_mem (s : SegIn) (hwf : s.docs.Pairwise (· < ·)) (d : Nat) (o : Option Nat)
    (h : (d, o) ∈ s.fin) : s.sc d = o := by
  unfold SegIn.sc
  rw [lookup_of_mem s.fin hwf d o h]

theorem SegIn.mem_of_sc (s : SegIn) (d v : Nat) (h : s.sc d = some v) : (d, some v) ∈ s.fin := by
  unfold SegIn.sc at h
  cases hl : s.fin.lookup d with
  | none => simp [hl] at h
  | some o =>
    simp [hl] at h
    subst h
    exact mem_of_lookup s.fin d _ hl

theorem filterMap_congr' {α β : Type} (f g : α → Option β) :
    ∀ l : List α, (∀ x ∈ l, f x = g x) → l.filterMap f = l.filterMap g := by
  intro l
  induction l with
  | nil => intro _; rfl
  | cons a as ih =>
    intro h
    rw [List.filterMap_cons, List.filterMap_cons, h a (by simp), ih (fun x hx => h x (by simp [hx]))]

theorem SegIn.hits_eq (s : SegIn) (hwf : s.docs.Pairwise (· < ·)) :
    s.docs.filterMap (fun d => (s.sc d).map fun v => (v, d)) = s.hits := by
  unfold SegIn.docs SegIn.hits
  rw [List.filterMap_map]
  apply filterMap_congr'
  intro x hx
  obtain ⟨d, o⟩ := x
  simp only [Function.comp]
  rw [s.sc_of_mem hwf d o hx]

theorem boundsOk_spec (s : SegIn) (h : boundsOk s = true) (d v : Nat) (hs : s.sc d = some v) :
    v ≤ ubsum s.terms d := by
  have hm := s.mem_of_sc d v hs
  unfold boundsOk at h
  rw [List.all_eq_true] at h
  have := h (d, some v) hm
  simpa using this

theorem blockBoundsOk_spec (s : SegIn) (h : blockBoundsOk s = true) (d v : Nat)
    (hs : s.sc d = some v) : v ≤ blockSum s.terms d := by
  have hm := s.mem_of_sc d v hs
  unfold blockBoundsOk at h
  rw [List.all_eq_true] at h
  have := h (d, some v) hm
  simpa using this

end SL.TK
