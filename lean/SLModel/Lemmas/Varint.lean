namespace SL.Varint
/-! scratch: LEB128 varint round trip over Nat (Rust: `& 0x7F`, `>> 7` ⇒ `% 128`, `/ 128`) -/
def encV (n : Nat) : List Nat :=
  if h : n < 128 then [n] else (n % 128 + 128) :: encV (n / 128)
termination_by n
decreasing_by omega

/-- decode: returns value and number of bytes consumed; `none` on an unterminated varint -/
def decV : List Nat → Option (Nat × Nat)
  | [] => none
  | b :: bs =>
    if b < 128 then some (b, 1)
    else match decV bs with
      | some (v, k) => some (b % 128 + 128 * v, k + 1)
      | none => none

theorem decV_encV (n : Nat) (rest : List Nat) : decV (encV n ++ rest) = some (n, (encV n).length) := by
  induction n using Nat.strongRecOn with
  | _ n ih =>
    rw [encV]
    split
    · rename_i h; simp [decV, h]
    · rename_i h
      have hlt : n / 128 < n := by omega
      have := ih (n / 128) hlt
      simp only [List.cons_append, decV]
      have hb : ¬ (n % 128 + 128 < 128) := by omega
      simp only [hb, if_false, this, List.length_cons]
      congr 2
      omega

/-- a strict prefix of an encoding never decodes (torn varint) -/
theorem decV_prefix_none (n : Nat) : ∀ (t : List Nat), t <+: encV n → t ≠ encV n → decV t = none := by
  induction n using Nat.strongRecOn with
  | _ n ih =>
    intro t hp hne
    rw [encV] at hp hne
    split at hp
    · -- single byte: strict prefix is []
      rename_i h
      cases t with
      | nil => rfl
      | cons a as =>
        rw [dif_pos h] at hne
        obtain ⟨s, hs⟩ := hp
        simp at hs
        obtain ⟨rfl, has, _⟩ := hs
        exact absurd (by simp [has]) hne
    · rename_i h
      rw [dif_neg h] at hne
      cases t with
      | nil => rfl
      | cons a as =>
        obtain ⟨s, hs⟩ := hp
        simp only [List.cons_append, List.cons.injEq] at hs
        obtain ⟨rfl, hs⟩ := hs
        have hb : ¬ (n % 128 + 128 < 128) := by omega
        simp only [decV, hb, if_false]
        have hlt : n / 128 < n := by omega
        have := ih (n / 128) hlt as ⟨s, hs⟩ (by intro h2; exact hne (by simp [h2]))
        simp [this]

end SL.Varint
