import SLModel.Core.Vector
import SLModel.Lemmas.ISort
/-!
# Lemmas/Vector — helper lemmas about `Core/Vector` (used by `Props/C29`)
-/
set_option linter.unusedSectionVars false
namespace SL.Vec
open Scalar

/-! ## insertion sort, `popMax` -/

theorem ins_eq {α : Type} (lt : α → α → Bool) (x : α) (l : List α) :
    ins lt x l = SL.ISort.ins lt x l := by
  induction l with
  | nil => rfl
  | cons y ys ih => simp [ins, SL.ISort.ins, ih]

theorem isort_eq {α : Type} (lt : α → α → Bool) (l : List α) :
    isort lt l = SL.ISort.isort lt l := by
  induction l with
  | nil => rfl
  | cons y ys ih => simp [isort, SL.ISort.isort, ih, ins_eq]

theorem ins_perm {α : Type} (lt : α → α → Bool) (x : α) (l : List α) :
    (ins lt x l).Perm (x :: l) := by
  induction l with
  | nil => exact List.Perm.refl _
  | cons y ys ih =>
    unfold ins
    split
    · exact List.Perm.refl _
    · exact (List.Perm.cons y ih).trans (List.Perm.swap x y ys)

theorem isort_perm_self {α : Type} (lt : α → α → Bool) (l : List α) : (isort lt l).Perm l := by
  induction l with
  | nil => exact List.Perm.refl _
  | cons y ys ih => exact (ins_perm lt y _).trans (List.Perm.cons y ih)

theorem mem_isort {α : Type} (lt : α → α → Bool) (l : List α) (z : α) : z ∈ isort lt l ↔ z ∈ l :=
  (isort_perm_self lt l).mem_iff

theorem length_isort {α : Type} (lt : α → α → Bool) (l : List α) : (isort lt l).length = l.length :=
  (isort_perm_self lt l).length_eq

/-- sortedness needs only irreflexivity and transitivity of the strict order -/
theorem ins_pairwise {α : Type} {lt : α → α → Bool}
    (irrefl : ∀ a, lt a a = false) (trans : ∀ a b c, lt a b = true → lt b c = true → lt a c = true)
    (x : α) (l : List α) (hs : l.Pairwise (fun a b => lt b a = false)) :
    (ins lt x l).Pairwise (fun a b => lt b a = false) := by
  have asymm : ∀ a b, lt a b = true → lt b a = false := by
    intro a b hab
    cases hba : lt b a with
    | false => rfl
    | true => have := trans a b a hab hba; rw [irrefl] at this; exact absurd this (by simp)
  induction l with
  | nil => simp [ins]
  | cons y ys ih =>
    rw [List.pairwise_cons] at hs
    unfold ins
    split
    · rename_i hxy
      rw [List.pairwise_cons]
      refine ⟨?_, List.pairwise_cons.mpr hs⟩
      intro z hz
      rcases List.mem_cons.mp hz with rfl | hz
      · exact asymm _ _ hxy
      · cases hzx : lt z x with
        | false => rfl
        | true =>
          have := trans z x y hzx hxy
          rw [hs.1 z hz] at this; exact absurd this (by simp)
    · rename_i hxy
      rw [List.pairwise_cons]
      refine ⟨?_, ih hs.2⟩
      intro z hz
      rcases List.mem_cons.mp ((ins_perm lt x ys).mem_iff.mp hz) with rfl | hz
      · simpa using hxy
      · exact hs.1 z hz

theorem isort_pairwise {α : Type} {lt : α → α → Bool}
    (irrefl : ∀ a, lt a a = false) (trans : ∀ a b c, lt a b = true → lt b c = true → lt a c = true)
    (l : List α) : (isort lt l).Pairwise (fun a b => lt b a = false) := by
  induction l with
  | nil => simp [isort]
  | cons x xs ih => exact ins_pairwise irrefl trans x _ ih

theorem popMax_perm {α : Type} (lt : α → α → Bool) :
    ∀ (l : List α) (x : α) (rest : List α), popMax lt l = some (x, rest) → l.Perm (x :: rest) := by
  intro l
  induction l with
  | nil => intro x rest h; simp [popMax] at h
  | cons y ys ih =>
    intro x rest h
    unfold popMax at h
    split at h
    · simp only [Option.some.injEq, Prod.mk.injEq] at h
      obtain ⟨rfl, rfl⟩ := h
      rename_i hnone
      cases ys with
      | nil => exact List.Perm.refl _
      | cons w ws =>
        unfold popMax at hnone
        split at hnone <;> (try split at hnone) <;> simp at hnone
    · rename_i z r hsome
      have hp := ih z r hsome
      split at h
      · simp only [Option.some.injEq, Prod.mk.injEq] at h
        obtain ⟨rfl, rfl⟩ := h
        exact (List.Perm.cons y hp).trans (List.Perm.swap _ _ _)
      · simp only [Option.some.injEq, Prod.mk.injEq] at h
        obtain ⟨rfl, rfl⟩ := h
        exact List.Perm.refl _

theorem popMax_mem {α : Type} (lt : α → α → Bool) {l : List α} {x : α} {rest : List α}
    (h : popMax lt l = some (x, rest)) : x ∈ l ∧ ∀ z ∈ rest, z ∈ l := by
  have hp := popMax_perm lt l x rest h
  exact ⟨hp.mem_iff.mpr (by simp), fun z hz => hp.mem_iff.mpr (by simp [hz])⟩

theorem popMax_length {α : Type} (lt : α → α → Bool) {l : List α} {x : α} {rest : List α}
    (h : popMax lt l = some (x, rest)) : l.length = rest.length + 1 := by
  have := (popMax_perm lt l x rest h).length_eq
  simpa using this

/-! ## what `search_internal` returns: only nodes that have a vector, with their similarity -/

section
variable {S : Type} [Scalar S]

/-- a result entry is *good*: its node has a vector and the score is the similarity to it -/
def GoodS (mt : Metric) (st : Store S) (q : List S) (r : Scored S) : Prop :=
  ∃ v, vecAt st r.id = some v ∧ r.score = metricSim mt q v

theorem simOpt_some {mt : Metric} {st : Store S} {q : List S} {id : Nat} {sc : S}
    (h : simOpt mt st q id = some sc) : ∃ v, vecAt st id = some v ∧ sc = metricSim mt q v := by
  unfold simOpt at h
  cases hv : vecAt st id with
  | none => simp [hv] at h
  | some v => simp [hv] at h; exact ⟨v, rfl, h.symm⟩

theorem worstOf_mem {rs : List (Scored S)} {w : Scored S} {rest : List (Scored S)}
    (h : worstOf rs = some (w, rest)) : ∀ z ∈ rest, z ∈ rs :=
  (popMax_mem _ h).2

theorem visitNbr_results (mt : Metric) (st : Store S) (q : List S) (ef : Nat)
    (s : SState S) (nb : Nat) (P : Scored S → Prop)
    (hP : ∀ r ∈ s.results, P r)
    (hnew : ∀ sc, simOpt mt st q nb = some sc → P ⟨nb, sc⟩) :
    ∀ r ∈ (visitNbr mt st q ef s nb).results, P r := by
  unfold visitNbr
  split
  · exact hP
  · cases hso : simOpt mt st q nb with
    | none => simpa using hP
    | some sc =>
      simp only
      split
      · have hcons : ∀ r ∈ ((⟨nb, sc⟩ : Scored S) :: s.results), P r := by
          intro r hr
          rcases List.mem_cons.mp hr with rfl | hr
          · exact hnew sc hso
          · exact hP r hr
        simp only
        split
        · split
          · rename_i w rest hw
            intro r hr
            exact hcons r (worstOf_mem hw r hr)
          · exact hcons
        · exact hcons
      · simpa using hP

theorem foldl_visitNbr_results (mt : Metric) (st : Store S) (q : List S) (ef : Nat)
    (P : Scored S → Prop) (hnew : ∀ nb sc, simOpt mt st q nb = some sc → P ⟨nb, sc⟩) :
    ∀ (l : List Nat) (s : SState S), (∀ r ∈ s.results, P r) →
      ∀ r ∈ (l.foldl (visitNbr mt st q ef) s).results, P r := by
  intro l
  induction l with
  | nil => intro s h; simpa using h
  | cons nb rest ih =>
    intro s h
    simp only [List.foldl_cons]
    exact ih _ (visitNbr_results mt st q ef s nb P h (hnew nb))

theorem searchLoop_results (mt : Metric) (st : Store S) (g : Graph) (q : List S) (ef : Nat)
    (P : Scored S → Prop) (hnew : ∀ nb sc, simOpt mt st q nb = some sc → P ⟨nb, sc⟩) :
    ∀ (fuel : Nat) (s : SState S), (∀ r ∈ s.results, P r) →
      ∀ r ∈ searchLoop mt st g q ef fuel s, P r := by
  intro fuel
  induction fuel with
  | zero => intro s h; simpa [searchLoop] using h
  | succ n ih =>
    intro s h
    unfold searchLoop
    split
    · exact h
    · split
      · exact h
      · exact ih _ (foldl_visitNbr_results mt st q ef P hnew _ _ (by simpa using h))

/-- every result of `search_internal` is good, provided the entry point has a vector -/
theorem searchInternal_good (mt : Metric) (st : Store S) (g : Graph) (q : List S) (ef : Nat)
    (hentry : ∀ e, g.entry = some e → (vecAt st e).isSome) :
    ∀ r ∈ searchInternal mt st g q ef, GoodS mt st q r := by
  unfold searchInternal
  cases he : g.entry with
  | none => simp
  | some e =>
    simp only
    have hv := hentry e he
    cases hve : vecAt st e with
    | none => simp [hve] at hv
    | some v =>
      apply searchLoop_results mt st g q ef (GoodS mt st q)
      · intro nb sc h
        obtain ⟨v', h1, h2⟩ := simOpt_some h
        exact ⟨v', h1, h2⟩
      · intro r hr
        simp only [List.mem_singleton] at hr
        subst hr
        exact ⟨v, hve, by simp [simOr, hve]⟩

theorem search_good (mt : Metric) (st : Store S) (g : Graph) (q : List S) (k efs : Nat)
    (hentry : ∀ e, g.entry = some e → (vecAt st e).isSome) :
    ∀ r ∈ search mt st g q k efs, GoodS mt st q r := by
  intro r hr
  unfold search at hr
  split at hr
  · simp at hr
  · have := List.mem_of_mem_take hr
    rw [mem_isort] at this
    exact searchInternal_good mt st g q _ hentry r this

/-! ## the entry point of a built graph has a vector -/

theorem setNbrs_entry (g : Graph) (id : Nat) (l : List Nat) : (g.setNbrs id l).entry = g.entry := rfl
theorem setNbrs_m (g : Graph) (id : Nat) (l : List Nat) : (g.setNbrs id l).m = g.m := rfl
theorem setNbrs_efc (g : Graph) (id : Nat) (l : List Nat) : (g.setNbrs id l).efc = g.efc := rfl

theorem backlink_entry (mt : Metric) (st : Store S) (id : Nat) (g : Graph) (n : Nat) :
    (backlink mt st id g n).entry = g.entry := by
  unfold backlink
  simp only
  split <;> rfl

theorem foldl_backlink_entry (mt : Metric) (st : Store S) (id : Nat) :
    ∀ (l : List Nat) (g : Graph), (l.foldl (backlink mt st id) g).entry = g.entry := by
  intro l
  induction l with
  | nil => intro g; rfl
  | cons n rest ih => intro g; simp only [List.foldl_cons]; rw [ih, backlink_entry]

theorem linkNew_entry (mt : Metric) (st : Store S) (g : Graph) (id : Nat) (nids : List Nat) :
    (linkNew mt st g id nids).entry = g.entry := by
  unfold linkNew
  rw [foldl_backlink_entry, setNbrs_entry]

theorem fixEntry_entry (mt : Metric) (st : Store S) (g : Graph) (entry id : Nat) :
    (fixEntry mt st g entry id).entry = g.entry := by
  unfold fixEntry
  split <;> rfl

theorem addVector_entry (mt : Metric) (st : Store S) (g : Graph) (id : Nat)
    (h : ∀ e, g.entry = some e → (vecAt st e).isSome) :
    ∀ e, (addVector mt st g id).entry = some e → (vecAt st e).isSome := by
  intro e he
  unfold addVector at he
  cases hv : vecAt st id with
  | none => simp only [hv] at he; exact h e he
  | some v =>
    simp only [hv] at he
    cases hg : g.entry with
    | none =>
      simp only [hg] at he
      simp only [Option.some.injEq] at he
      subst he
      simp [hv]
    | some entry =>
      simp only [hg, fixEntry_entry, linkNew_entry] at he
      exact h e (by rw [hg]; exact he)

theorem buildGraph_entry (mt : Metric) (st : Store S) (m efc : Nat) :
    ∀ e, (buildGraph mt st m efc).entry = some e → (vecAt st e).isSome := by
  unfold buildGraph
  generalize List.range st.length = ids
  have : ∀ (ids : List Nat) (g : Graph), (∀ e, g.entry = some e → (vecAt st e).isSome) →
      ∀ e, (ids.foldl (addVector mt st) g).entry = some e → (vecAt st e).isSome := by
    intro ids
    induction ids with
    | nil => intro g h; simpa using h
    | cons i rest ih =>
      intro g h
      simp only [List.foldl_cons]
      exact ih _ (addVector_entry mt st g i h)
  exact this ids _ (by intro e he; simp [Graph.new] at he)

/-! ## search on a graph whose entry point is adjacent to every other node -/

/-- node `i` with its similarity to the query -/
def scOf (mt : Metric) (st : Store S) (q : List S) (i : Nat) : Scored S := ⟨i, simOr mt st q i⟩

theorem simOpt_eq_simOr {mt : Metric} {st : Store S} {q : List S} {id : Nat}
    (h : (vecAt st id).isSome) : simOpt mt st q id = some (simOr mt st q id) := by
  unfold simOpt simOr
  cases hv : vecAt st id with
  | none => simp [hv] at h
  | some v => simp

theorem visitNbr_noop (mt : Metric) (st : Store S) (q : List S) (ef : Nat)
    (s : SState S) (nb : Nat) (h : nb ∈ s.visited) : visitNbr mt st q ef s nb = s := by
  unfold visitNbr
  simp [h]

theorem foldl_visitNbr_noop (mt : Metric) (st : Store S) (q : List S) (ef : Nat) :
    ∀ (L : List Nat) (s : SState S), (∀ nb ∈ L, nb ∈ s.visited) →
      L.foldl (visitNbr mt st q ef) s = s := by
  intro L
  induction L with
  | nil => intro s _; rfl
  | cons nb rest ih =>
    intro s h
    simp only [List.foldl_cons]
    rw [visitNbr_noop mt st q ef s nb (h nb (by simp))]
    exact ih s (fun x hx => h x (by simp [hx]))

theorem visitNbr_fresh (mt : Metric) (st : Store S) (q : List S) (ef : Nat)
    (s : SState S) (nb : Nat) (hnv : nb ∉ s.visited) (hv : (vecAt st nb).isSome)
    (hlen : s.results.length < ef) :
    visitNbr mt st q ef s nb =
      { visited := nb :: s.visited, cands := scOf mt st q nb :: s.cands,
        results := scOf mt st q nb :: s.results } := by
  unfold visitNbr
  have hgt : ¬ (s.results.length + 1 > ef) := by omega
  simp [hnv, simOpt_eq_simOr hv, hlen, hgt, scOf]

/-- visiting a list of fresh nodes that all fit into the result heap records all of them -/
theorem foldl_visitNbr_fresh (mt : Metric) (st : Store S) (q : List S) (ef : Nat) :
    ∀ (L : List Nat) (s : SState S), L.Nodup → (∀ nb ∈ L, nb ∉ s.visited) →
      (∀ nb ∈ L, (vecAt st nb).isSome) → s.results.length + L.length ≤ ef →
      L.foldl (visitNbr mt st q ef) s =
        { visited := L.reverse ++ s.visited, cands := L.reverse.map (scOf mt st q) ++ s.cands,
          results := L.reverse.map (scOf mt st q) ++ s.results } := by
  intro L
  induction L with
  | nil => intro s _ _ _ _; simp
  | cons nb rest ih =>
    intro s hnd hfresh hvec hlen
    rw [List.nodup_cons] at hnd
    simp only [List.foldl_cons, List.length_cons] at hlen ⊢
    rw [visitNbr_fresh mt st q ef s nb (hfresh nb (by simp)) (hvec nb (by simp)) (by omega)]
    rw [ih _ hnd.2]
    · simp
    · intro x hx
      simp only [List.mem_cons, not_or]
      refine ⟨?_, hfresh x (by simp [hx])⟩
      intro h; subst h; exact hnd.1 hx
    · intro x hx; exact hvec x (by simp [hx])
    · simp only [List.length_cons]; omega

/-- once every neighbour of every pending candidate has been visited, the loop returns the
current results -/
theorem searchLoop_stable (mt : Metric) (st : Store S) (g : Graph) (q : List S) (ef : Nat) :
    ∀ (fuel : Nat) (s : SState S), (∀ c ∈ s.cands, ∀ nb ∈ g.nbrsOf c.id, nb ∈ s.visited) →
      searchLoop mt st g q ef fuel s = s.results := by
  intro fuel
  induction fuel with
  | zero => intro s _; rfl
  | succ n ih =>
    intro s h
    unfold searchLoop
    split
    · rfl
    · rename_i best rest hpop
      obtain ⟨hb, hrest⟩ := popMax_mem _ hpop
      split
      · rfl
      · rw [foldl_visitNbr_noop mt st q ef _ _ (by simpa using h best hb)]
        exact ih _ (fun c hc => h c (hrest c hc))

theorem popMax_singleton {α : Type} (lt : α → α → Bool) (x : α) : popMax lt [x] = some (x, []) := by
  simp [popMax]

/-- **star lemma**: if the entry point `e` is adjacent to the distinct nodes `L`, all nodes
have vectors, the neighbourhoods stay inside `e :: L`, and the beam `ef` can hold all of them,
`search_internal` returns every node with its similarity -/
theorem searchInternal_star (mt : Metric) (st : Store S) (g : Graph) (q : List S) (ef : Nat)
    (e : Nat) (L : List Nat) (hentry : g.entry = some e) (hL : g.nbrsOf e = L) (hnd : L.Nodup)
    (heL : e ∉ L) (hvec : ∀ x ∈ L, (vecAt st x).isSome)
    (hclosed : ∀ x ∈ L, ∀ nb ∈ g.nbrsOf x, nb ∈ e :: L) (hef : L.length + 1 ≤ ef) :
    searchInternal mt st g q ef = L.reverse.map (scOf mt st q) ++ [scOf mt st q e] := by
  unfold searchInternal
  simp only [hentry]
  have hfuel : g.nbrs.length + 2 = (g.nbrs.length + 1) + 1 := rfl
  rw [hfuel]
  unfold searchLoop
  simp only [popMax_singleton]
  split
  · -- the loop stops at once: only possible when the beam is 1, i.e. `L = []`
    rename_i hc
    simp only [Bool.and_eq_true, decide_eq_true_eq, List.length_cons, List.length_nil] at hc
    have : L = [] := by
      cases L with
      | nil => rfl
      | cons a b => simp at hef; omega
    subst this
    simp [scOf]
  · rw [hL, foldl_visitNbr_fresh mt st q ef L _ hnd
      (by intro nb hnb; simp only [List.mem_singleton]; intro h; subst h; exact heL hnb) hvec
      (by simp only [List.length_cons, List.length_nil]; omega)]
    rw [searchLoop_stable]
    · simp [scOf]
    · intro c hc nb hnb
      simp only [List.append_nil, List.mem_map, List.mem_reverse] at hc
      obtain ⟨x, hx, rfl⟩ := hc
      have := hclosed x hx nb (by simpa [scOf] using hnb)
      simp only [List.mem_cons] at this
      simp only [List.mem_append, List.mem_reverse, List.mem_singleton]
      rcases this with h | h
      · exact Or.inr h
      · exact Or.inl h

/-! ## construction: up to `m + 1` nodes the graph is complete -/

theorem vecAt_lt {st : Store S} {a : Nat} (h : (vecAt st a).isSome) : a < st.length := by
  unfold vecAt at h
  cases hg : st[a]? with
  | none => simp [hg] at h
  | some o => exact (List.getElem?_eq_some_iff.mp hg).1

theorem setNbrs_len (g : Graph) (id : Nat) (l : List Nat) :
    (g.setNbrs id l).nbrs.length = g.nbrs.length := by
  simp [Graph.setNbrs]

theorem nbrsOf_setNbrs_self (g : Graph) (id : Nat) (l : List Nat) (h : id < g.nbrs.length) :
    (g.setNbrs id l).nbrsOf id = l := by
  simp [Graph.setNbrs, Graph.nbrsOf, List.getD_eq_getElem?_getD, h]

theorem nbrsOf_setNbrs_ne (g : Graph) (id a : Nat) (l : List Nat) (h : a ≠ id) :
    (g.setNbrs id l).nbrsOf a = g.nbrsOf a := by
  have : ¬ id = a := fun e => h e.symm
  simp [Graph.setNbrs, Graph.nbrsOf, List.getD_eq_getElem?_getD, this]

theorem pruneList_perm (mt : Metric) (st : Store S) (m t : Nat) (l : List Nat) (h : l.length ≤ m) :
    (pruneList mt st m t l).Perm l := by
  unfold pruneList
  rw [List.take_of_length_le (by rw [length_isort]; exact h)]
  exact isort_perm_self _ _

theorem backlink_len (mt : Metric) (st : Store S) (id : Nat) (g : Graph) (n : Nat) :
    (backlink mt st id g n).nbrs.length = g.nbrs.length := by
  unfold backlink
  simp only
  split
  · rfl
  · exact setNbrs_len _ _ _

theorem backlink_m (mt : Metric) (st : Store S) (id : Nat) (g : Graph) (n : Nat) :
    (backlink mt st id g n).m = g.m := by
  unfold backlink
  simp only
  split <;> rfl

theorem backlink_efc (mt : Metric) (st : Store S) (id : Nat) (g : Graph) (n : Nat) :
    (backlink mt st id g n).efc = g.efc := by
  unfold backlink
  simp only
  split <;> rfl

theorem backlink_ne (mt : Metric) (st : Store S) (id : Nat) (g : Graph) (n a : Nat) (h : a ≠ n) :
    (backlink mt st id g n).nbrsOf a = g.nbrsOf a := by
  unfold backlink
  simp only
  split
  · rfl
  · exact nbrsOf_setNbrs_ne _ _ _ _ h

theorem backlink_self (mt : Metric) (st : Store S) (id : Nat) (g : Graph) (n : Nat)
    (hn : n < g.nbrs.length) (hc : (g.nbrsOf n).contains id = false) :
    (backlink mt st id g n).nbrsOf n = pruneList mt st g.m n (g.nbrsOf n ++ [id]) := by
  unfold backlink
  simp only [hc]
  exact nbrsOf_setNbrs_self _ _ _ hn

/-- the back-link loop over distinct nodes touches exactly those nodes -/
theorem foldl_backlink (mt : Metric) (st : Store S) (id : Nat) :
    ∀ (N : List Nat) (g : Graph), N.Nodup → (∀ n ∈ N, n < g.nbrs.length) →
      (∀ n ∈ N, (g.nbrsOf n).contains id = false) →
      (N.foldl (backlink mt st id) g).nbrs.length = g.nbrs.length ∧
      (N.foldl (backlink mt st id) g).m = g.m ∧
      (N.foldl (backlink mt st id) g).efc = g.efc ∧
      (∀ a, a ∉ N → (N.foldl (backlink mt st id) g).nbrsOf a = g.nbrsOf a) ∧
      (∀ n ∈ N, (N.foldl (backlink mt st id) g).nbrsOf n = pruneList mt st g.m n (g.nbrsOf n ++ [id])) := by
  intro N
  induction N with
  | nil => intro g _ _ _; simp
  | cons n rest ih =>
    intro g hnd hlt hc
    rw [List.nodup_cons] at hnd
    simp only [List.foldl_cons]
    have hrest := ih (backlink mt st id g n) hnd.2
      (by intro x hx; rw [backlink_len]; exact hlt x (by simp [hx]))
      (by
        intro x hx
        have hne : x ≠ n := by intro e; subst e; exact hnd.1 hx
        rw [backlink_ne mt st id g n x hne]
        exact hc x (by simp [hx]))
    obtain ⟨h1, h2, h3, h4, h5⟩ := hrest
    refine ⟨by rw [h1, backlink_len], by rw [h2, backlink_m], by rw [h3, backlink_efc], ?_, ?_⟩
    · intro a ha
      simp only [List.mem_cons, not_or] at ha
      rw [h4 a ha.2, backlink_ne mt st id g n a ha.1]
    · intro x hx
      rcases List.mem_cons.mp hx with hxn | hx'
      · subst hxn
        rw [h4 x hnd.1, backlink_self mt st id g x (hlt x (by simp)) (hc x (by simp))]
      · have hne : x ≠ n := fun e => hnd.1 (e ▸ hx')
        rw [h5 x hx', backlink_m, backlink_ne mt st id g n x hne]

/-- invariant of the construction while at most `m + 1` nodes have been inserted: the nodes
inserted so far (`P`, in insertion order) form a complete graph -/
structure GInv (st : Store S) (m efc : Nat) (g : Graph) (P : List Nat) : Prop where
  len : g.nbrs.length = st.length
  hm : g.m = m
  hefc : g.efc = efc
  entry : g.entry = P.head?
  nodup : P.Nodup
  vec : ∀ a ∈ P, (vecAt st a).isSome
  adj : ∀ a ∈ P, (g.nbrsOf a).Perm (P.erase a)
  empty : ∀ a, a ∉ P → g.nbrsOf a = []

theorem GInv.new (st : Store S) (m efc : Nat) :
    GInv st (max m 1) (max efc 1) (Graph.new st.length m efc) [] where
  len := by simp [Graph.new]
  hm := rfl
  hefc := rfl
  entry := rfl
  nodup := List.nodup_nil
  vec := by intro a h; simp at h
  adj := by intro a h; simp at h
  empty := by
    intro a _
    simp only [Graph.new, Graph.nbrsOf, List.getD_eq_getElem?_getD]
    cases h : (List.replicate st.length ([] : List Nat))[a]? with
    | none => rfl
    | some l =>
      have := List.getElem?_eq_some_iff.mp h
      obtain ⟨_, h2⟩ := this
      simp at h2
      simp [← h2]

/-- what `search_internal` returns on a complete graph -/
theorem searchInternal_complete (mt : Metric) (st : Store S) (m efc : Nat) (g : Graph)
    (e : Nat) (P' : List Nat) (inv : GInv st m efc g (e :: P')) (q : List S) (ef : Nat)
    (hef : (e :: P').length ≤ ef) :
    (searchInternal mt st g q ef).Perm ((e :: P').map (scOf mt st q)) := by
  have hnd := inv.nodup
  rw [List.nodup_cons] at hnd
  have hadj := inv.adj e (by simp)
  simp only [List.erase_cons_head] at hadj
  have hLnd : (g.nbrsOf e).Nodup := hadj.nodup_iff.mpr hnd.2
  have heL : e ∉ g.nbrsOf e := fun h => hnd.1 (hadj.mem_iff.mp h)
  have hstar := searchInternal_star mt st g q ef e (g.nbrsOf e) (by rw [inv.entry]; rfl) rfl hLnd heL
    (by intro x hx; exact inv.vec x (by simp [hadj.mem_iff.mp hx]))
    (by
      intro x hx nb hnb
      have hxP : x ∈ e :: P' := by simp [hadj.mem_iff.mp hx]
      have h1 := (inv.adj x hxP).mem_iff.mp hnb
      have h2 : nb ∈ e :: P' := List.mem_of_mem_erase h1
      rcases List.mem_cons.mp h2 with h | h
      · simp [h]
      · simp [hadj.mem_iff.mpr h])
    (by rw [hadj.length_eq]; simpa using hef)
  rw [hstar]
  have h1 : ((g.nbrsOf e).reverse.map (scOf mt st q) ++ [scOf mt st q e]).Perm
      (scOf mt st q e :: (g.nbrsOf e).map (scOf mt st q)) := by
    refine List.perm_append_comm.trans ?_
    simp only [List.singleton_append]
    exact List.Perm.cons _ ((List.reverse_perm _).map _)
  refine h1.trans ?_
  simp only [List.map_cons]
  exact List.Perm.cons _ (hadj.map _)

theorem erase_append_of_mem {a : Nat} {P : List Nat} (x : Nat) (h : a ∈ P) :
    (P ++ [x]).erase a = P.erase a ++ [x] := by
  rw [List.erase_append_left _ h]

theorem erase_append_of_not_mem {P : List Nat} (x : Nat) (h : x ∉ P) :
    (P ++ [x]).erase x = P := by
  rw [List.erase_append_right _ h]
  simp

/-- neighbour selection on a complete graph of at most `m` nodes returns all of them -/
theorem selectNeighbors_complete (mt : Metric) (st : Store S) (m efc : Nat) (g : Graph)
    (e : Nat) (P' : List Nat) (inv : GInv st m efc g (e :: P')) (x : Nat) (v : List S)
    (hx : x ∉ e :: P') (hlen : (e :: P').length ≤ m) :
    (selectNeighbors mt st g x v).Perm (e :: P') := by
  unfold selectNeighbors
  simp only
  have hperm := searchInternal_complete mt st m efc g e P' inv v (max g.efc (g.m * 2))
    (by rw [inv.hm]; omega)
  have hfilter : (searchInternal mt st g v (max g.efc (g.m * 2))).filter (fun c => c.id != x) =
      searchInternal mt st g v (max g.efc (g.m * 2)) := by
    rw [List.filter_eq_self]
    intro c hc
    have := hperm.mem_iff.mp hc
    rw [List.mem_map] at this
    obtain ⟨i, hi, rfl⟩ := this
    simp only [scOf, bne_iff_ne, ne_eq]
    intro h; subst h; exact hx hi
  rw [hfilter, List.take_of_length_le (by rw [length_isort, hperm.length_eq, inv.hm]; simpa using hlen)]
  have h2 := ((isort_perm_self Scored.gt _).trans hperm).map (·.id)
  refine h2.trans ?_
  simp [List.map_map, scOf, Function.comp_def]

/-- **insertion step**: adding a node with a vector to a complete graph of at most `m`
nodes gives the complete graph on one more node (no list is ever pruned) -/
theorem addVector_inv (mt : Metric) (st : Store S) (m efc : Nat) (g : Graph) (P : List Nat)
    (inv : GInv st m efc g P) (x : Nat) (hx : x ∉ P) (hv : (vecAt st x).isSome)
    (hlen : P.length ≤ m) : GInv st m efc (addVector mt st g x) (P ++ [x]) := by
  have hxlt : x < g.nbrs.length := by rw [inv.len]; exact vecAt_lt hv
  cases hvx : vecAt st x with
  | none => simp [hvx] at hv
  | some v =>
    unfold addVector
    simp only [hvx]
    cases P with
    | nil =>
      have he : g.entry = none := by rw [inv.entry]; rfl
      simp only [he]
      exact {
        len := inv.len, hm := inv.hm, hefc := inv.hefc, entry := rfl
        nodup := by simp
        vec := by intro a ha; simp at ha; subst ha; exact hv
        adj := by
          intro a ha
          simp only [List.nil_append, List.mem_singleton] at ha
          subst ha
          have : g.nbrsOf a = [] := inv.empty a (by simp)
          have h0 : Graph.nbrsOf { g with entry := some a } a = g.nbrsOf a := rfl
          rw [h0, this]
          simp
        empty := by
          intro a ha
          exact inv.empty a (by simp) }
    | cons e P' =>
      have he : g.entry = some e := by rw [inv.entry]; rfl
      simp only [he]
      have hsel := selectNeighbors_complete mt st m efc g e P' inv x v hx hlen
      generalize selectNeighbors mt st g x v = nids at hsel
      have hnidsnd : nids.Nodup := hsel.nodup_iff.mpr inv.nodup
      have hxn : x ∉ nids := fun h => hx (hsel.mem_iff.mp h)
      -- the graph after linking
      have hg1len : (g.setNbrs x nids).nbrs.length = g.nbrs.length := setNbrs_len _ _ _
      have hfold := foldl_backlink mt st x nids (g.setNbrs x nids) hnidsnd
        (by
          intro n hn
          rw [hg1len, inv.len]
          exact vecAt_lt (inv.vec n (hsel.mem_iff.mp hn)))
        (by
          intro n hn
          have hne : n ≠ x := fun h => hxn (h ▸ hn)
          rw [nbrsOf_setNbrs_ne _ _ _ _ hne]
          have hp := inv.adj n (hsel.mem_iff.mp hn)
          cases hc : (g.nbrsOf n).contains x with
          | false => rfl
          | true =>
            have : x ∈ g.nbrsOf n := by simpa using hc
            exact absurd (List.mem_of_mem_erase (hp.mem_iff.mp this)) hx)
      obtain ⟨f1, f2, f3, f4, f5⟩ := hfold
      have hlink : GInv st m efc (linkNew mt st g x nids) ((e :: P') ++ [x]) := by
        unfold linkNew
        exact {
          len := by rw [f1, hg1len, inv.len]
          hm := by rw [f2]; exact inv.hm
          hefc := by rw [f3]; exact inv.hefc
          entry := by rw [foldl_backlink_entry, setNbrs_entry, he]; rfl
          nodup := by
            rw [List.nodup_append]
            refine ⟨inv.nodup, by simp, ?_⟩
            intro a ha b hb
            simp only [List.mem_singleton] at hb
            subst hb
            intro h; subst h; exact hx ha
          vec := by
            intro a ha
            rcases List.mem_append.mp ha with ha | ha
            · exact inv.vec a ha
            · simp only [List.mem_singleton] at ha; subst ha; exact hv
          adj := by
            intro a ha
            rcases List.mem_append.mp ha with ha | ha
            · -- an old node: its list gained the new node
              have han : a ∈ nids := hsel.mem_iff.mpr ha
              have hne : a ≠ x := fun h => hx (h ▸ ha)
              rw [f5 a han, erase_append_of_mem x ha, nbrsOf_setNbrs_ne _ _ _ _ hne]
              have hp := inv.adj a ha
              have hl : (g.nbrsOf a ++ [x]).length ≤ (g.setNbrs x nids).m := by
                rw [setNbrs_m, inv.hm, List.length_append, hp.length_eq, List.length_erase_of_mem ha]
                simp only [List.length_singleton]
                have : 0 < (e :: P').length := by simp
                omega
              exact (pruneList_perm mt st _ a _ hl).trans (List.Perm.append_right _ hp)
            · simp only [List.mem_singleton] at ha
              subst ha
              rw [f4 a hxn, nbrsOf_setNbrs_self _ _ _ hxlt, erase_append_of_not_mem a hx]
              exact hsel
          empty := by
            intro a ha
            simp only [List.mem_append, List.mem_singleton, not_or] at ha
            have han : a ∉ nids := fun h => ha.1 (hsel.mem_iff.mp h)
            rw [f4 a han, nbrsOf_setNbrs_ne _ _ _ _ ha.2]
            exact inv.empty a ha.1 }
      -- the entry point already has neighbours: the last block does nothing
      have hne : ((linkNew mt st g x nids).nbrsOf e).isEmpty = false := by
        have hp := hlink.adj e (by simp)
        have hxin : x ∈ ((e :: P') ++ [x]).erase e := by
          have hxe : x ≠ e := fun h => hx (by simp [h])
          rw [List.mem_erase_of_ne hxe]
          simp
        have := hp.mem_iff.mpr hxin
        cases hl : (linkNew mt st g x nids).nbrsOf e with
        | nil => simp [hl] at this
        | cons a b => rfl
      unfold fixEntry
      simp only [hne, Bool.false_and, Bool.false_eq_true, if_false]
      exact hlink

/-- ids of the documents that have a vector, in doc-id order -/
def presentIds (st : Store S) : List Nat :=
  (List.range st.length).filter (fun i => (vecAt st i).isSome)

theorem foldl_addVector_inv (mt : Metric) (st : Store S) (m efc : Nat) :
    ∀ (ids : List Nat) (g : Graph) (P : List Nat), GInv st m efc g P → ids.Nodup →
      (∀ i ∈ ids, i ∉ P) → (P ++ ids.filter (fun i => (vecAt st i).isSome)).length ≤ m + 1 →
      GInv st m efc (ids.foldl (addVector mt st) g) (P ++ ids.filter (fun i => (vecAt st i).isSome)) := by
  intro ids
  induction ids with
  | nil => intro g P inv _ _ _; simpa using inv
  | cons i rest ih =>
    intro g P inv hnd hdis hlen
    rw [List.nodup_cons] at hnd
    simp only [List.foldl_cons]
    cases hv : (vecAt st i).isSome with
    | false =>
      have hg : addVector mt st g i = g := by
        unfold addVector
        cases hvi : vecAt st i with
        | none => rfl
        | some v => simp [hvi] at hv
      rw [hg]
      simp only [List.filter_cons, hv, Bool.false_eq_true, if_false] at hlen ⊢
      exact ih g P inv hnd.2 (fun j hj => hdis j (by simp [hj])) hlen
    | true =>
      simp only [List.filter_cons, hv, if_true] at hlen ⊢
      have hlenP : P.length ≤ m := by
        simp only [List.length_append, List.length_cons] at hlen
        omega
      have inv' := addVector_inv mt st m efc g P inv i (hdis i (by simp)) hv hlenP
      have := ih (addVector mt st g i) (P ++ [i]) inv' hnd.2
        (by
          intro j hj
          simp only [List.mem_append, List.mem_singleton, not_or]
          refine ⟨hdis j (by simp [hj]), ?_⟩
          intro h; subst h; exact hnd.1 hj)
        (by simpa [List.append_assoc] using hlen)
      simpa [List.append_assoc] using this

/-- **the built graph is complete** when the segment holds at most `max m 1 + 1` vectors -/
theorem buildGraph_inv (mt : Metric) (st : Store S) (m efc : Nat)
    (h : (presentIds st).length ≤ max m 1 + 1) :
    GInv st (max m 1) (max efc 1) (buildGraph mt st m efc) (presentIds st) := by
  unfold buildGraph
  have := foldl_addVector_inv mt st (max m 1) (max efc 1) (List.range st.length)
    (Graph.new st.length m efc) [] (GInv.new st m efc) List.nodup_range (by simp)
    (by simpa [presentIds] using h)
  simpa [presentIds] using this

theorem vecAt_cons_succ (x : Option (List S)) (rest : Store S) (i : Nat) :
    vecAt (x :: rest) (i + 1) = vecAt rest i := by
  simp [vecAt]

/-- `VectorStore::present` counts the documents that have a vector -/
theorem present_eq (st : Store S) : present st = (presentIds st).length := by
  induction st with
  | nil => rfl
  | cons x rest ih =>
    have hr : presentIds (x :: rest) =
        (if (vecAt (x :: rest) 0).isSome then [0] else []) ++ (presentIds rest).map (· + 1) := by
      unfold presentIds
      simp only [List.length_cons, List.range_succ_eq_map, List.filter_cons, List.filter_map]
      have : ((fun i => (vecAt (x :: rest) i).isSome) ∘ Nat.succ) = fun i => (vecAt rest i).isSome := by
        funext i
        simp [vecAt_cons_succ]
      rw [this]
      split <;> simp
    rw [hr]
    unfold present at ih ⊢
    simp only [List.filter_cons, List.length_append, List.length_map]
    rw [← ih]
    cases x with
    | none => simp [vecAt]
    | some v => simp [vecAt]; omega

/-! ## candidates of a clause -/

variable {κ : Type} [DecidableEq κ]

theorem vecAt_storeOf {seg : Segment κ S} {f : κ} {mt : Metric} {id : Nat} {v : List S}
    (h : vecAt (storeOf seg f mt) id = some v) :
    ∃ d raw, seg[id]? = some d ∧ d.rawVec f = some raw ∧ v = prep mt raw := by
  unfold vecAt storeOf at h
  rw [List.getElem?_map] at h
  cases hd : seg[id]? with
  | none => simp [hd] at h
  | some d =>
    simp only [hd, Option.map_some] at h
    cases hr : d.rawVec f with
    | none => simp [hr] at h
    | some raw =>
      simp only [hr, Option.map_some, Option.some.injEq] at h
      exact ⟨d, raw, rfl, hr, h.symm⟩

theorem mem_enumFrom {α : Type} : ∀ (l : List α) (n i : Nat) (x : α),
    (i, x) ∈ enumFrom n l → n ≤ i ∧ l[i - n]? = some x := by
  intro l
  induction l with
  | nil => intro n i x h; simp [enumFrom] at h
  | cons y ys ih =>
    intro n i x h
    simp only [enumFrom, List.mem_cons, Prod.mk.injEq] at h
    rcases h with ⟨rfl, rfl⟩ | h
    · simp
    · obtain ⟨h1, h2⟩ := ih (n + 1) i x h
      refine ⟨by omega, ?_⟩
      have : i - n = (i - (n + 1)) + 1 := by omega
      rw [this, List.getElem?_cons_succ]
      exact h2

/-- what is known about a candidate of clause `c` -/
def CandOK (requireText : Bool) (segs : List (Segment κ S)) (c : Clause κ S) (x : Cand S) : Prop :=
  ∃ sg d raw, segs[x.seg]? = some sg ∧ sg[x.doc]? = some d ∧ d.deleted = false ∧
    d.passFilter = true ∧ d.passVFilter = true ∧ (requireText = true → d.textMatch = true) ∧
    d.rawVec c.field = some raw ∧
    x.score = mul (metricSim c.metric c.vector (prep c.metric raw)) c.boost

/-- every element the fetch loop returns was found by one of its searches and is kept -/
theorem fetchLoop_mem (find : Nat → List (Scored S)) (keep : Scored S → Bool) (wanted available : Nat) :
    ∀ (fuel searchK : Nat) (x : Scored S), x ∈ fetchLoop find keep wanted available fuel searchK →
      ∃ k, x ∈ find k ∧ keep x = true := by
  intro fuel
  induction fuel with
  | zero =>
    intro searchK x hx
    simp only [fetchLoop] at hx
    have := List.mem_filter.mp (List.mem_of_mem_take hx)
    exact ⟨searchK, this.1, this.2⟩
  | succ n ih =>
    intro searchK x hx
    simp only [fetchLoop] at hx
    split at hx
    · have := List.mem_filter.mp (List.mem_of_mem_take hx)
      exact ⟨searchK, this.1, this.2⟩
    · exact ih _ x hx

theorem segCands_ok (requireText : Bool) (c : Clause κ S) (i : Nat) (sg : Segment κ S) (x : Cand S)
    (hx : x ∈ segCands requireText c i sg) :
    x.seg = i ∧ ∃ d raw, sg[x.doc]? = some d ∧ d.deleted = false ∧ d.passFilter = true ∧
      d.passVFilter = true ∧ (requireText = true → d.textMatch = true) ∧
      d.rawVec c.field = some raw ∧
      x.score = mul (metricSim c.metric c.vector (prep c.metric raw)) c.boost := by
  unfold segCands at hx
  simp only at hx
  split at hx
  · simp at hx
  · rw [List.mem_map] at hx
    obtain ⟨s, hs, rfl⟩ := hx
    obtain ⟨k', hs, hkeep⟩ := fetchLoop_mem _ _ _ _ _ _ s hs
    have hgood := search_good c.metric (storeOf sg c.field c.metric) _ c.vector k' c.efSearch
      (buildGraph_entry c.metric (storeOf sg c.field c.metric) c.m c.efc) s hs
    obtain ⟨v, hv, hsc⟩ := hgood
    obtain ⟨d, raw, hd, hraw, rfl⟩ := vecAt_storeOf hv
    refine ⟨rfl, d, raw, hd, ?_⟩
    unfold keepDoc at hkeep
    simp only [hd] at hkeep
    simp only [Bool.and_eq_true, Bool.not_eq_true', Bool.or_eq_true] at hkeep
    obtain ⟨⟨⟨h1, h2⟩, h3⟩, h4⟩ := hkeep
    refine ⟨h1, h2, h3, ?_, hraw, by simp [hsc]⟩
    intro hr
    rcases h4 with h4 | h4
    · rw [hr] at h4; exact absurd h4 (by simp)
    · exact h4

theorem clauseCands_ok (requireText : Bool) (segs : List (Segment κ S)) (c : Clause κ S) (x : Cand S)
    (hx : x ∈ clauseCands requireText segs c) : CandOK requireText segs c x := by
  unfold clauseCands at hx
  simp only at hx
  have hall : x ∈ (enumFrom 0 segs).flatMap (fun p => segCands requireText c p.1 p.2) := by
    split at hx
    · exact (mem_isort _ _ _).mp (List.mem_of_mem_take hx)
    · exact (mem_isort _ _ _).mp hx
  rw [List.mem_flatMap] at hall
  obtain ⟨⟨i, sg⟩, hp, hxs⟩ := hall
  obtain ⟨_, hsg⟩ := mem_enumFrom segs 0 i sg hp
  obtain ⟨hseg, d, raw, hd, h1, h2, h3, h4, h5, h6⟩ := segCands_ok requireText c i sg x hxs
  exact ⟨sg, d, raw, by simpa [hseg] using hsg, hd, h1, h2, h3, h4, h5, h6⟩

theorem lookupCand_some {l : List (Cand S)} {seg doc : Nat} {sc : S}
    (h : lookupCand l seg doc = some sc) : ∃ x ∈ l, x.seg = seg ∧ x.doc = doc ∧ x.score = sc := by
  unfold lookupCand at h
  cases hf : l.find? (fun c => decide (c.seg = seg) && decide (c.doc = doc)) with
  | none => simp [hf] at h
  | some x =>
    simp only [hf, Option.map_some, Option.some.injEq] at h
    have hp := List.find?_some hf
    simp only [Bool.and_eq_true, decide_eq_true_eq] at hp
    exact ⟨x, List.mem_of_find?_eq_some hf, hp.1, hp.2, h⟩

theorem mem_dedupKeys : ∀ (l : List (Nat × Nat)) (k : Nat × Nat), k ∈ dedupKeys l → k ∈ l := by
  intro l
  induction l with
  | nil => intro k h; simp [dedupKeys] at h
  | cons x xs ih =>
    intro k h
    unfold dedupKeys at h
    split at h
    · exact List.mem_cons_of_mem _ (ih k h)
    · rcases List.mem_cons.mp h with rfl | h
      · simp
      · exact List.mem_cons_of_mem _ (ih k h)

/-- `has_vector` of `compute_hybrid_score` means: some clause's map holds the key; the
reported vector sum then starts from the accumulated value -/
theorem hybridAcc_hasVector (bm25 : S) (seg doc : Nat) :
    ∀ (cs : List (Clause κ S)) (ms : List (List (Cand S))) (acc : S × S × Bool),
      (hybridAcc bm25 seg doc cs ms acc).2.2 = true →
      acc.2.2 = true ∨ ∃ p ∈ cs.zip ms, (lookupCand p.2 seg doc).isSome := by
  intro cs
  induction cs with
  | nil => intro ms acc h; cases ms <;> simp [hybridAcc] at h <;> exact Or.inl h
  | cons c cs ih =>
    intro ms acc h
    cases ms with
    | nil => simp [hybridAcc] at h; exact Or.inl h
    | cons m ms =>
      obtain ⟨bs, vs, hv⟩ := acc
      simp only [hybridAcc] at h
      rcases ih ms _ h with h' | ⟨p, hp, hs⟩
      · simp only [Bool.or_eq_true] at h'
        rcases h' with h' | h'
        · exact Or.inl h'
        · exact Or.inr ⟨(c, m), by simp, h'⟩
      · exact Or.inr ⟨p, by simp [hp], hs⟩

theorem hybridScore_hasVector (p : Plan κ S) (maps : List (List (Cand S))) (bm25 : S) (seg doc : Nat) :
    (hybridScore p maps bm25 seg doc).hasVector =
      (hybridAcc bm25 seg doc p.clauses maps (zero, zero, false)).2.2 := by
  unfold hybridScore
  rcases hybridAcc bm25 seg doc p.clauses maps (zero, zero, false) with ⟨bs, vs, hv⟩
  rfl

theorem hybridScore_vectorScore (p : Plan κ S) (maps : List (List (Cand S))) (bm25 : S) (seg doc : Nat) :
    (hybridScore p maps bm25 seg doc).vectorScore =
      if (hybridAcc bm25 seg doc p.clauses maps (zero, zero, false)).2.2 then
        some (hybridAcc bm25 seg doc p.clauses maps (zero, zero, false)).2.1 else none := by
  unfold hybridScore
  rcases hybridAcc bm25 seg doc p.clauses maps (zero, zero, false) with ⟨bs, vs, hv⟩
  rfl

theorem hybridScore_final (p : Plan κ S) (maps : List (List (Cand S))) (bm25 : S) (seg doc : Nat) :
    (hybridScore p maps bm25 seg doc).final =
      div (hybridAcc bm25 seg doc p.clauses maps (zero, zero, false)).1 (ofNat (max p.clauses.length 1)) := by
  unfold hybridScore
  rcases hybridAcc bm25 seg doc p.clauses maps (zero, zero, false) with ⟨bs, vs, hv⟩
  rfl

theorem lookupCand_isSome_of_mem {l : List (Cand S)} {x : Cand S} (hx : x ∈ l) :
    (lookupCand l x.seg x.doc).isSome := by
  unfold lookupCand
  rw [Option.isSome_map, List.find?_isSome]
  exact ⟨x, hx, by simp⟩

theorem hybridAcc_mono (bm25 : S) (seg doc : Nat) :
    ∀ (cs : List (Clause κ S)) (ms : List (List (Cand S))) (acc : S × S × Bool),
      acc.2.2 = true → (hybridAcc bm25 seg doc cs ms acc).2.2 = true := by
  intro cs
  induction cs with
  | nil => intro ms acc h; cases ms <;> simpa [hybridAcc] using h
  | cons c cs ih =>
    intro ms acc h
    cases ms with
    | nil => simpa [hybridAcc] using h
    | cons m ms =>
      obtain ⟨bs, vs, hv⟩ := acc
      simp only [hybridAcc]
      apply ih
      simp only at h
      simp [h]

/-- a key held by one of the maps makes `has_vector` true -/
theorem hybridAcc_of_mem (bm25 : S) (seg doc : Nat) :
    ∀ (cs : List (Clause κ S)) (ms : List (List (Cand S))) (acc : S × S × Bool)
      (m : List (Cand S)) (x : Cand S), cs.length = ms.length → m ∈ ms → x ∈ m →
      x.seg = seg → x.doc = doc → (hybridAcc bm25 seg doc cs ms acc).2.2 = true := by
  intro cs
  induction cs with
  | nil => intro ms acc m x hl hm; cases ms <;> simp at hl hm
  | cons c cs ih =>
    intro ms acc m x hl hm hx hs hd
    cases ms with
    | nil => simp at hm
    | cons m' ms =>
      obtain ⟨bs, vs, hv⟩ := acc
      simp only [hybridAcc]
      rcases List.mem_cons.mp hm with rfl | hm
      · apply hybridAcc_mono
        have := lookupCand_isSome_of_mem hx
        rw [hs, hd] at this
        simp [this]
      · exact ih ms _ m x (by simpa using hl) hm hx hs hd

end

end SL.Vec
