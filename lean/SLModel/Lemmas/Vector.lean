import SLModel.Core.Vector
import SLModel.Lemmas.ISort
/-!
# Lemmas/Vector — helper lemmas about `Core/Vector` (used by `Props/C29`)
-/
namespace SL.Vec
open Scalar

/-! ## insertion sort, `popMax` -/

theorem ins_eq {α : Type} (lt : α → α → Bool) (x : α) (l : List α) :
    ins lt x l = SL.ISort.ins lt x l := by
  induction l with
  | nil => rfl
  | cons y ys ih => simp [ins, SL.ISort.ins, ih]

theorem isort_eq {α : Type} (lt : α → α → Bool) (l : List α) :
    isort lt l = SL.ISort.isort lt l := by
  induction l with
  | nil => rfl
  | cons y ys ih => simp [isort, SL.ISort.isort, ih, ins_eq]

theorem ins_perm {α : Type} (lt : α → α → Bool) (x : α) (l : List α) :
    (ins lt x l).Perm (x :: l) := by
  induction l with
  | nil => exact List.Perm.refl _
  | cons y ys ih =>
    unfold ins
    split
    · exact List.Perm.refl _
    · exact (List.Perm.cons y ih).trans (List.Perm.swap x y ys)

theorem isort_perm_self {α : Type} (lt : α → α → Bool) (l : List α) : (isort lt l).Perm l := by
  induction l with
  | nil => exact List.Perm.refl _
  | cons y ys ih => exact (ins_perm lt y _).trans (List.Perm.cons y ih)

theorem mem_isort {α : Type} (lt : α → α → Bool) (l : List α) (z : α) : z ∈ isort lt l ↔ z ∈ l :=
  (isort_perm_self lt l).mem_iff

theorem length_isort {α : Type} (lt : α → α → Bool) (l : List α) : (isort lt l).length = l.length :=
  (isort_perm_self lt l).length_eq

/-- sortedness needs only irreflexivity and transitivity of the strict order -/
theorem ins_pairwise {α : Type} {lt : α → α → Bool}
    (irrefl : ∀ a, lt a a = false) (trans : ∀ a b c, lt a b = true → lt b c = true → lt a c = true)
    (x : α) (l : List α) (hs : l.Pairwise (fun a b => lt b a = false)) :
    (ins lt x l).Pairwise (fun a b => lt b a = false) := by
  have asymm : ∀ a b, lt a b = true → lt b a = false := by
    intro a b hab
    cases hba : lt b a with
    | false => rfl
    | true => have := trans a b a hab hba; rw [irrefl] at this; exact absurd this (by simp)
  induction l with
  | nil => simp [ins]
  | cons y ys ih =>
    rw [List.pairwise_cons] at hs
    unfold ins
    split
    · rename_i hxy
      rw [List.pairwise_cons]
      refine ⟨?_, List.pairwise_cons.mpr hs⟩
      intro z hz
      rcases List.mem_cons.mp hz with rfl | hz
      · exact asymm _ _ hxy
      · cases hzx : lt z x with
        | false => rfl
        | true =>
          have := trans z x y hzx hxy
          rw [hs.1 z hz] at this; exact absurd this (by simp)
    · rename_i hxy
      rw [List.pairwise_cons]
      refine ⟨?_, ih hs.2⟩
      intro z hz
      rcases List.mem_cons.mp ((ins_perm lt x ys).mem_iff.mp hz) with rfl | hz
      · simpa using hxy
      · exact hs.1 z hz

theorem isort_pairwise {α : Type} {lt : α → α → Bool}
    (irrefl : ∀ a, lt a a = false) (trans : ∀ a b c, lt a b = true → lt b c = true → lt a c = true)
    (l : List α) : (isort lt l).Pairwise (fun a b => lt b a = false) := by
  induction l with
  | nil => simp [isort]
  | cons x xs ih => exact ins_pairwise irrefl trans x _ ih

theorem popMax_perm {α : Type} (lt : α → α → Bool) :
    ∀ (l : List α) (x : α) (rest : List α), popMax lt l = some (x, rest) → l.Perm (x :: rest) := by
  intro l
  induction l with
  | nil => intro x rest h; simp [popMax] at h
  | cons y ys ih =>
    intro x rest h
    unfold popMax at h
    split at h
    · simp only [Option.some.injEq, Prod.mk.injEq] at h
      obtain ⟨rfl, rfl⟩ := h
      rename_i hnone
      cases ys with
      | nil => exact List.Perm.refl _
      | cons w ws =>
        unfold popMax at hnone
        split at hnone <;> (try split at hnone) <;> simp at hnone
    · rename_i z r hsome
      have hp := ih z r hsome
      split at h
      · simp only [Option.some.injEq, Prod.mk.injEq] at h
        obtain ⟨rfl, rfl⟩ := h
        exact (List.Perm.cons y hp).trans (List.Perm.swap _ _ _)
      · simp only [Option.some.injEq, Prod.mk.injEq] at h
        obtain ⟨rfl, rfl⟩ := h
        exact List.Perm.refl _

theorem popMax_mem {α : Type} (lt : α → α → Bool) {l : List α} {x : α} {rest : List α}
    (h : popMax lt l = some (x, rest)) : x ∈ l ∧ ∀ z ∈ rest, z ∈ l := by
  have hp := popMax_perm lt l x rest h
  exact ⟨hp.mem_iff.mpr (by simp), fun z hz => hp.mem_iff.mpr (by simp [hz])⟩

theorem popMax_length {α : Type} (lt : α → α → Bool) {l : List α} {x : α} {rest : List α}
    (h : popMax lt l = some (x, rest)) : l.length = rest.length + 1 := by
  have := (popMax_perm lt l x rest h).length_eq
  simpa using this

/-! ## what `search_internal` returns: only nodes that have a vector, with their similarity -/

section
variable {S : Type} [Scalar S]

/-- a result entry is *good*: its node has a vector and the score is the similarity to it -/
def GoodS (mt : Metric) (st : Store S) (q : List S) (r : Scored S) : Prop :=
  ∃ v, vecAt st r.id = some v ∧ r.score = metricSim mt q v

theorem simOpt_some {mt : Metric} {st : Store S} {q : List S} {id : Nat} {sc : S}
    (h : simOpt mt st q id = some sc) : ∃ v, vecAt st id = some v ∧ sc = metricSim mt q v := by
  unfold simOpt at h
  cases hv : vecAt st id with
  | none => simp [hv] at h
  | some v => simp [hv] at h; exact ⟨v, rfl, h.symm⟩

theorem worstOf_mem {rs : List (Scored S)} {w : Scored S} {rest : List (Scored S)}
    (h : worstOf rs = some (w, rest)) : ∀ z ∈ rest, z ∈ rs :=
  (popMax_mem _ h).2

theorem visitNbr_results (mt : Metric) (st : Store S) (q : List S) (ef : Nat) (worst : S)
    (s : SState S) (nb : Nat) (P : Scored S → Prop)
    (hP : ∀ r ∈ s.results, P r)
    (hnew : ∀ sc, simOpt mt st q nb = some sc → P ⟨nb, sc⟩) :
    ∀ r ∈ (visitNbr mt st q ef worst s nb).results, P r := by
  unfold visitNbr
  split
  · exact hP
  · cases hso : simOpt mt st q nb with
    | none => simpa using hP
    | some sc =>
      simp only
      split
      · have hcons : ∀ r ∈ ((⟨nb, sc⟩ : Scored S) :: s.results), P r := by
          intro r hr
          rcases List.mem_cons.mp hr with rfl | hr
          · exact hnew sc hso
          · exact hP r hr
        simp only
        split
        · split
          · rename_i w rest hw
            intro r hr
            exact hcons r (worstOf_mem hw r hr)
          · exact hcons
        · exact hcons
      · simpa using hP

theorem foldl_visitNbr_results (mt : Metric) (st : Store S) (q : List S) (ef : Nat) (worst : S)
    (P : Scored S → Prop) (hnew : ∀ nb sc, simOpt mt st q nb = some sc → P ⟨nb, sc⟩) :
    ∀ (l : List Nat) (s : SState S), (∀ r ∈ s.results, P r) →
      ∀ r ∈ (l.foldl (visitNbr mt st q ef worst) s).results, P r := by
  intro l
  induction l with
  | nil => intro s h; simpa using h
  | cons nb rest ih =>
    intro s h
    simp only [List.foldl_cons]
    exact ih _ (visitNbr_results mt st q ef worst s nb P h (hnew nb))

theorem searchLoop_results (mt : Metric) (st : Store S) (g : Graph) (q : List S) (ef : Nat)
    (P : Scored S → Prop) (hnew : ∀ nb sc, simOpt mt st q nb = some sc → P ⟨nb, sc⟩) :
    ∀ (fuel : Nat) (s : SState S), (∀ r ∈ s.results, P r) →
      ∀ r ∈ searchLoop mt st g q ef fuel s, P r := by
  intro fuel
  induction fuel with
  | zero => intro s h; simpa [searchLoop] using h
  | succ n ih =>
    intro s h
    unfold searchLoop
    split
    · exact h
    · simp only
      split <;>
      · split
        · exact h
        · exact ih _ (foldl_visitNbr_results mt st q ef _ P hnew _ _ (by simpa using h))

/-- every result of `search_internal` is good, provided the entry point has a vector -/
theorem searchInternal_good (mt : Metric) (st : Store S) (g : Graph) (q : List S) (ef : Nat)
    (hentry : ∀ e, g.entry = some e → (vecAt st e).isSome) :
    ∀ r ∈ searchInternal mt st g q ef, GoodS mt st q r := by
  unfold searchInternal
  cases he : g.entry with
  | none => simp
  | some e =>
    simp only
    have hv := hentry e he
    cases hve : vecAt st e with
    | none => simp [hve] at hv
    | some v =>
      apply searchLoop_results mt st g q ef (GoodS mt st q)
      · intro nb sc h
        obtain ⟨v', h1, h2⟩ := simOpt_some h
        exact ⟨v', h1, h2⟩
      · intro r hr
        simp only [List.mem_singleton] at hr
        subst hr
        exact ⟨v, hve, by simp [simOr, hve]⟩

theorem search_good (mt : Metric) (st : Store S) (g : Graph) (q : List S) (k efs : Nat)
    (hentry : ∀ e, g.entry = some e → (vecAt st e).isSome) :
    ∀ r ∈ search mt st g q k efs, GoodS mt st q r := by
  intro r hr
  unfold search at hr
  split at hr
  · simp at hr
  · have := List.mem_of_mem_take hr
    rw [mem_isort] at this
    exact searchInternal_good mt st g q _ hentry r this

/-! ## the entry point of a built graph has a vector -/

theorem setNbrs_entry (g : Graph) (id : Nat) (l : List Nat) : (g.setNbrs id l).entry = g.entry := rfl
theorem setNbrs_m (g : Graph) (id : Nat) (l : List Nat) : (g.setNbrs id l).m = g.m := rfl
theorem setNbrs_efc (g : Graph) (id : Nat) (l : List Nat) : (g.setNbrs id l).efc = g.efc := rfl

theorem backlink_entry (mt : Metric) (st : Store S) (id : Nat) (g : Graph) (n : Nat) :
    (backlink mt st id g n).entry = g.entry := by
  unfold backlink
  simp only
  split <;> rfl

theorem foldl_backlink_entry (mt : Metric) (st : Store S) (id : Nat) :
    ∀ (l : List Nat) (g : Graph), (l.foldl (backlink mt st id) g).entry = g.entry := by
  intro l
  induction l with
  | nil => intro g; rfl
  | cons n rest ih => intro g; simp only [List.foldl_cons]; rw [ih, backlink_entry]

theorem addVector_entry (mt : Metric) (st : Store S) (g : Graph) (id : Nat)
    (h : ∀ e, g.entry = some e → (vecAt st e).isSome) :
    ∀ e, (addVector mt st g id).entry = some e → (vecAt st e).isSome := by
  intro e he
  unfold addVector at he
  cases hv : vecAt st id with
  | none => simp only [hv] at he; exact h e he
  | some v =>
    simp only [hv] at he
    cases hg : g.entry with
    | none =>
      simp only [hg] at he
      simp only [Option.some.injEq] at he
      subst he
      simp [hv]
    | some entry =>
      simp only [hg] at he
      split at he
      · simp only [setNbrs_entry, foldl_backlink_entry] at he
        exact h e he
      · simp only [setNbrs_entry, foldl_backlink_entry] at he
        exact h e he

theorem buildGraph_entry (mt : Metric) (st : Store S) (m efc : Nat) :
    ∀ e, (buildGraph mt st m efc).entry = some e → (vecAt st e).isSome := by
  unfold buildGraph
  generalize List.range st.length = ids
  have : ∀ (ids : List Nat) (g : Graph), (∀ e, g.entry = some e → (vecAt st e).isSome) →
      ∀ e, (ids.foldl (addVector mt st) g).entry = some e → (vecAt st e).isSome := by
    intro ids
    induction ids with
    | nil => intro g h; simpa using h
    | cons i rest ih =>
      intro g h
      simp only [List.foldl_cons]
      exact ih _ (addVector_entry mt st g i h)
  exact this ids _ (by intro e he; simp [Graph.new] at he)

/-! ## candidates of a clause -/

variable {κ : Type} [DecidableEq κ]

theorem vecAt_storeOf {seg : Segment κ S} {f : κ} {mt : Metric} {id : Nat} {v : List S}
    (h : vecAt (storeOf seg f mt) id = some v) :
    ∃ d raw, seg[id]? = some d ∧ d.rawVec f = some raw ∧ v = prep mt raw := by
  unfold vecAt storeOf at h
  rw [List.getElem?_map] at h
  cases hd : seg[id]? with
  | none => simp [hd] at h
  | some d =>
    simp only [hd, Option.map_some] at h
    cases hr : d.rawVec f with
    | none => simp [hr] at h
    | some raw =>
      simp only [hr, Option.map_some, Option.some.injEq] at h
      exact ⟨d, raw, rfl, hr, h.symm⟩

theorem mem_enumFrom {α : Type} : ∀ (l : List α) (n i : Nat) (x : α),
    (i, x) ∈ enumFrom n l → n ≤ i ∧ l[i - n]? = some x := by
  intro l
  induction l with
  | nil => intro n i x h; simp [enumFrom] at h
  | cons y ys ih =>
    intro n i x h
    simp only [enumFrom, List.mem_cons, Prod.mk.injEq] at h
    rcases h with ⟨rfl, rfl⟩ | h
    · simp
    · obtain ⟨h1, h2⟩ := ih (n + 1) i x h
      refine ⟨by omega, ?_⟩
      have : i - n = (i - (n + 1)) + 1 := by omega
      rw [this, List.getElem?_cons_succ]
      exact h2

/-- what is known about a candidate of clause `c` -/
def CandOK (requireText : Bool) (segs : List (Segment κ S)) (c : Clause κ S) (x : Cand S) : Prop :=
  ∃ sg d raw, segs[x.seg]? = some sg ∧ sg[x.doc]? = some d ∧ d.deleted = false ∧
    d.passFilter = true ∧ d.passVFilter = true ∧ (requireText = true → d.textMatch = true) ∧
    d.rawVec c.field = some raw ∧
    x.score = mul (metricSim c.metric c.vector (prep c.metric raw)) c.boost

theorem segCands_ok (requireText : Bool) (c : Clause κ S) (i : Nat) (sg : Segment κ S) (x : Cand S)
    (hx : x ∈ segCands requireText c i sg) :
    x.seg = i ∧ ∃ d raw, sg[x.doc]? = some d ∧ d.deleted = false ∧ d.passFilter = true ∧
      d.passVFilter = true ∧ (requireText = true → d.textMatch = true) ∧
      d.rawVec c.field = some raw ∧
      x.score = mul (metricSim c.metric c.vector (prep c.metric raw)) c.boost := by
  unfold segCands at hx
  simp only at hx
  split at hx
  · simp at hx
  · rw [List.mem_map] at hx
    obtain ⟨s, hs, rfl⟩ := hx
    rw [List.mem_filter] at hs
    obtain ⟨hs, hkeep⟩ := hs
    have hgood := search_good c.metric (storeOf sg c.field c.metric) _ c.vector _ c.efSearch
      (buildGraph_entry c.metric (storeOf sg c.field c.metric) c.m c.efc) s hs
    obtain ⟨v, hv, hsc⟩ := hgood
    obtain ⟨d, raw, hd, hraw, rfl⟩ := vecAt_storeOf hv
    refine ⟨rfl, d, raw, hd, ?_⟩
    unfold keepDoc at hkeep
    simp only [hd] at hkeep
    simp only [Bool.and_eq_true, Bool.not_eq_true', Bool.or_eq_true] at hkeep
    obtain ⟨⟨⟨h1, h2⟩, h3⟩, h4⟩ := hkeep
    refine ⟨h1, h2, h3, ?_, hraw, by simp [hsc]⟩
    intro hr
    rcases h4 with h4 | h4
    · rw [hr] at h4; exact absurd h4 (by simp)
    · exact h4

theorem clauseCands_ok (requireText : Bool) (segs : List (Segment κ S)) (c : Clause κ S) (x : Cand S)
    (hx : x ∈ clauseCands requireText segs c) : CandOK requireText segs c x := by
  unfold clauseCands at hx
  simp only at hx
  have hall : x ∈ (enumFrom 0 segs).flatMap (fun p => segCands requireText c p.1 p.2) := by
    split at hx
    · exact (mem_isort _ _ _).mp (List.mem_of_mem_take hx)
    · exact (mem_isort _ _ _).mp hx
  rw [List.mem_flatMap] at hall
  obtain ⟨⟨i, sg⟩, hp, hxs⟩ := hall
  obtain ⟨_, hsg⟩ := mem_enumFrom segs 0 i sg hp
  obtain ⟨hseg, d, raw, hd, h1, h2, h3, h4, h5, h6⟩ := segCands_ok requireText c i sg x hxs
  exact ⟨sg, d, raw, by simpa [hseg] using hsg, hd, h1, h2, h3, h4, h5, h6⟩

theorem lookupCand_some {l : List (Cand S)} {seg doc : Nat} {sc : S}
    (h : lookupCand l seg doc = some sc) : ∃ x ∈ l, x.seg = seg ∧ x.doc = doc ∧ x.score = sc := by
  unfold lookupCand at h
  cases hf : l.find? (fun c => decide (c.seg = seg) && decide (c.doc = doc)) with
  | none => simp [hf] at h
  | some x =>
    simp only [hf, Option.map_some, Option.some.injEq] at h
    have hp := List.find?_some hf
    simp only [Bool.and_eq_true, decide_eq_true_eq] at hp
    exact ⟨x, List.mem_of_find?_eq_some hf, hp.1, hp.2, h⟩

theorem mem_dedupKeys : ∀ (l : List (Nat × Nat)) (k : Nat × Nat), k ∈ dedupKeys l → k ∈ l := by
  intro l
  induction l with
  | nil => intro k h; simp [dedupKeys] at h
  | cons x xs ih =>
    intro k h
    unfold dedupKeys at h
    split at h
    · exact List.mem_cons_of_mem _ (ih k h)
    · rcases List.mem_cons.mp h with rfl | h
      · simp
      · exact List.mem_cons_of_mem _ (ih k h)

/-- `has_vector` of `compute_hybrid_score` means: some clause's map holds the key; the
reported vector sum then starts from the accumulated value -/
theorem hybridAcc_hasVector (bm25 : S) (seg doc : Nat) :
    ∀ (cs : List (Clause κ S)) (ms : List (List (Cand S))) (acc : S × S × Bool),
      (hybridAcc bm25 seg doc cs ms acc).2.2 = true →
      acc.2.2 = true ∨ ∃ p ∈ cs.zip ms, (lookupCand p.2 seg doc).isSome := by
  intro cs
  induction cs with
  | nil => intro ms acc h; cases ms <;> simp [hybridAcc] at h <;> exact Or.inl h
  | cons c cs ih =>
    intro ms acc h
    cases ms with
    | nil => simp [hybridAcc] at h; exact Or.inl h
    | cons m ms =>
      obtain ⟨bs, vs, hv⟩ := acc
      simp only [hybridAcc] at h
      rcases ih ms _ h with h' | ⟨p, hp, hs⟩
      · simp only [Bool.or_eq_true] at h'
        rcases h' with h' | h'
        · exact Or.inl h'
        · exact Or.inr ⟨(c, m), by simp, h'⟩
      · exact Or.inr ⟨p, by simp [hp], hs⟩

theorem hybridScore_hasVector (p : Plan κ S) (maps : List (List (Cand S))) (bm25 : S) (seg doc : Nat) :
    (hybridScore p maps bm25 seg doc).hasVector =
      (hybridAcc bm25 seg doc p.clauses maps (zero, zero, false)).2.2 := by
  unfold hybridScore
  rcases hybridAcc bm25 seg doc p.clauses maps (zero, zero, false) with ⟨bs, vs, hv⟩
  rfl

theorem hybridScore_vectorScore (p : Plan κ S) (maps : List (List (Cand S))) (bm25 : S) (seg doc : Nat) :
    (hybridScore p maps bm25 seg doc).vectorScore =
      if (hybridAcc bm25 seg doc p.clauses maps (zero, zero, false)).2.2 then
        some (hybridAcc bm25 seg doc p.clauses maps (zero, zero, false)).2.1 else none := by
  unfold hybridScore
  rcases hybridAcc bm25 seg doc p.clauses maps (zero, zero, false) with ⟨bs, vs, hv⟩
  rfl

theorem hybridScore_final (p : Plan κ S) (maps : List (List (Cand S))) (bm25 : S) (seg doc : Nat) :
    (hybridScore p maps bm25 seg doc).final =
      div (hybridAcc bm25 seg doc p.clauses maps (zero, zero, false)).1 (ofNat (max p.clauses.length 1)) := by
  unfold hybridScore
  rcases hybridAcc bm25 seg doc p.clauses maps (zero, zero, false) with ⟨bs, vs, hv⟩
  rfl

theorem lookupCand_isSome_of_mem {l : List (Cand S)} {x : Cand S} (hx : x ∈ l) :
    (lookupCand l x.seg x.doc).isSome := by
  unfold lookupCand
  rw [Option.isSome_map, List.find?_isSome]
  exact ⟨x, hx, by simp⟩

theorem hybridAcc_mono (bm25 : S) (seg doc : Nat) :
    ∀ (cs : List (Clause κ S)) (ms : List (List (Cand S))) (acc : S × S × Bool),
      acc.2.2 = true → (hybridAcc bm25 seg doc cs ms acc).2.2 = true := by
  intro cs
  induction cs with
  | nil => intro ms acc h; cases ms <;> simpa [hybridAcc] using h
  | cons c cs ih =>
    intro ms acc h
    cases ms with
    | nil => simpa [hybridAcc] using h
    | cons m ms =>
      obtain ⟨bs, vs, hv⟩ := acc
      simp only [hybridAcc]
      apply ih
      simp only at h
      simp [h]

/-- a key held by one of the maps makes `has_vector` true -/
theorem hybridAcc_of_mem (bm25 : S) (seg doc : Nat) :
    ∀ (cs : List (Clause κ S)) (ms : List (List (Cand S))) (acc : S × S × Bool)
      (m : List (Cand S)) (x : Cand S), cs.length = ms.length → m ∈ ms → x ∈ m →
      x.seg = seg → x.doc = doc → (hybridAcc bm25 seg doc cs ms acc).2.2 = true := by
  intro cs
  induction cs with
  | nil => intro ms acc m x hl hm; cases ms <;> simp at hl hm
  | cons c cs ih =>
    intro ms acc m x hl hm hx hs hd
    cases ms with
    | nil => simp at hm
    | cons m' ms =>
      obtain ⟨bs, vs, hv⟩ := acc
      simp only [hybridAcc]
      rcases List.mem_cons.mp hm with rfl | hm
      · apply hybridAcc_mono
        have := lookupCand_isSome_of_mem hx
        rw [hs, hd] at this
        simp [this]
      · exact ih ms _ m x (by simpa using hl) hm hx hs hd

end

end SL.Vec
