import SLModel.Core.Vector
import SLModel.Lemmas.Vector
import SLModel.Lemmas.ISort
/-!
# Lemmas/VectorTop — order laws and "best-k selection" lemmas for `Core/Vector`
(bounded result heap of `search_internal`, fetch loop of `collect_vector_maps`)
-/
set_option linter.unusedSectionVars false
namespace SL.Vec
open Scalar

section
variable {S : Type} [Scalar S]

/-- the laws of `f32::total_cmp` the order theorems rely on: a strict total order -/
class TltLaws (S : Type) [Scalar S] : Prop where
  irrefl : ∀ a : S, tlt a a = false
  trans : ∀ a b c : S, tlt a b = true → tlt b c = true → tlt a c = true
  total : ∀ a b : S, a ≠ b → tlt a b = true ∨ tlt b a = true

theorem tlt_asymm [TltLaws S] {a b : S} (h : tlt a b = true) : tlt b a = false := by
  cases hba : tlt b a with
  | false => rfl
  | true =>
    have := TltLaws.trans a b a h hba
    rw [TltLaws.irrefl] at this
    exact absurd this (by simp)

theorem tlt_eq_of_not [TltLaws S] {a b : S} (h1 : tlt a b = false) (h2 : tlt b a = false) : a = b := by
  by_cases h : a = b
  · exact h
  · rcases TltLaws.total a b h with h | h
    · rw [h1] at h; exact absurd h (by simp)
    · rw [h2] at h; exact absurd h (by simp)


theorem Scored.lt_irrefl [TltLaws S] (a : Scored S) : Scored.lt a a = false := by
  simp [Scored.lt, TltLaws.irrefl]

theorem Scored.lt_trans [TltLaws S] (a b c : Scored S)
    (hab : Scored.lt a b = true) (hbc : Scored.lt b c = true) : Scored.lt a c = true := by
  unfold Scored.lt at hab hbc ⊢
  cases h1 : tlt a.score b.score <;> cases h2 : tlt b.score c.score
  · simp only [h1, h2, Bool.false_eq_true, if_false] at hab hbc
    cases h3 : tlt b.score a.score
    · cases h4 : tlt c.score b.score
      · have e1 := tlt_eq_of_not h1 h3
        have e2 := tlt_eq_of_not h2 h4
        simp only [h3, h4, Bool.false_eq_true, if_false, decide_eq_true_eq] at hab hbc
        rw [e1, e2]
        simp only [TltLaws.irrefl, Bool.false_eq_true, if_false, decide_eq_true_eq]
        omega
      · simp [h4] at hbc
    · simp [h3] at hab
  · simp only [h1, Bool.false_eq_true, if_false] at hab
    cases h3 : tlt b.score a.score
    · have e1 := tlt_eq_of_not h1 h3
      rw [e1]; simp [h2]
    · simp [h3] at hab
  · simp only [h2, Bool.false_eq_true, if_false] at hbc
    cases h4 : tlt c.score b.score
    · have e2 := tlt_eq_of_not h2 h4
      rw [← e2]; simp [h1]
    · simp [h4] at hbc
  · have := TltLaws.trans _ _ _ h1 h2
    simp [this]

theorem Scored.lt_total [TltLaws S] (a b : Scored S) (h : a ≠ b) :
    Scored.lt a b = true ∨ Scored.lt b a = true := by
  unfold Scored.lt
  cases h1 : tlt a.score b.score
  · cases h2 : tlt b.score a.score
    · have e := tlt_eq_of_not h1 h2
      have hid : a.id ≠ b.id := by
        intro hid
        apply h
        cases a; cases b
        simp only at e hid
        simp [e, hid]
      simp only [Bool.false_eq_true, if_false, decide_eq_true_eq]
      omega
    · simp
  · simp

theorem scoredGt_strictTotal [TltLaws S] : SL.ISort.StrictTotal (Scored.gt (S := S)) where
  irrefl a := Scored.lt_irrefl a
  trans a b c hab hbc := Scored.lt_trans c b a hbc hab
  total a b h := (Scored.lt_total a b h).symm


/-- `<` agrees with `total_cmp` (true of rationals; of `f32` away from NaN and signed zeros) -/
class OrdLaws (S : Type) [Scalar S] : Prop extends TltLaws S where
  lt_eq_tlt : ∀ a b : S, lt a b = tlt a b

theorem tlt_negtrans [TltLaws S] {a b c : S} (h : tlt a c = true) : tlt a b = true ∨ tlt b c = true := by
  by_cases hab : a = b
  · subst hab; exact Or.inr h
  · rcases TltLaws.total a b hab with h1 | h1
    · exact Or.inl h1
    · exact Or.inr (TltLaws.trans _ _ _ h1 h)

/-- `tlt · · = false` ("not smaller") is transitive -/
theorem ntlt_trans [TltLaws S] {a b c : S} (h1 : tlt a b = false) (h2 : tlt b c = false) :
    tlt a c = false := by
  cases h : tlt a c with
  | false => rfl
  | true =>
    rcases tlt_negtrans (b := b) h with h' | h'
    · rw [h1] at h'; exact absurd h' (by simp)
    · rw [h2] at h'; exact absurd h' (by simp)

/-- the element `popMax` removes is maximal -/
theorem popMax_max {α : Type} {lt : α → α → Bool} (hst : SL.ISort.StrictTotal lt) :
    ∀ (l : List α) (x : α) (rest : List α), popMax lt l = some (x, rest) → ∀ z ∈ l, lt x z = false := by
  intro l
  induction l with
  | nil => intro x rest h; simp [popMax] at h
  | cons y ys ih =>
    intro x rest h z hz
    unfold popMax at h
    split at h
    · rename_i hnone
      simp only [Option.some.injEq, Prod.mk.injEq] at h
      obtain ⟨rfl, rfl⟩ := h
      cases ys with
      | nil =>
        simp only [List.mem_singleton] at hz
        subst hz
        exact hst.irrefl _
      | cons w ws =>
        unfold popMax at hnone
        split at hnone <;> (try split at hnone) <;> simp at hnone
    · rename_i m r hsome
      have hm := ih m r hsome
      split at h
      · rename_i hlt
        simp only [Option.some.injEq, Prod.mk.injEq] at h
        obtain ⟨rfl, rfl⟩ := h
        rcases List.mem_cons.mp hz with rfl | hz
        · exact SL.ISort.asymm hst hlt
        · exact hm z hz
      · rename_i hlt
        simp only [Option.some.injEq, Prod.mk.injEq] at h
        obtain ⟨rfl, rfl⟩ := h
        rcases List.mem_cons.mp hz with rfl | hz
        · exact hst.irrefl _
        · -- x is not below m, m is not below z: x is not below z
          cases hxz : lt y z with
          | false => rfl
          | true =>
            exfalso
            have hlt' : lt y m = false := by simpa using hlt
            by_cases hxm : y = m
            · subst hxm
              rw [hm z hz] at hxz
              exact absurd hxz (by simp)
            · rcases hst.total y m hxm with h1 | h1
              · rw [hlt'] at h1; exact absurd h1 (by simp)
              · have := hst.trans m y z h1 hxz
                rw [hm z hz] at this
                exact absurd this (by simp)

/-- the worst kept result is not better than any kept result -/
theorem worstOf_min [TltLaws S] {rs : List (Scored S)} {w : Scored S} {rest : List (Scored S)}
    (h : worstOf rs = some (w, rest)) : ∀ r ∈ rs, tlt r.score w.score = false := by
  intro r hr
  have := popMax_max scoredGt_strictTotal rs w rest h r hr
  -- gt w r = false, i.e. `Scored.lt r w = false`
  unfold Scored.gt Scored.lt at this
  cases h1 : tlt r.score w.score with
  | false => rfl
  | true => simp [h1] at this

theorem worstOf_ne_none {rs : List (Scored S)} (h : rs ≠ []) : ∃ w rest, worstOf rs = some (w, rest) := by
  cases rs with
  | nil => exact absurd rfl h
  | cons x xs =>
    unfold worstOf popMax
    split
    · exact ⟨_, _, rfl⟩
    · split <;> exact ⟨_, _, rfl⟩

/-- invariant of the bounded result heap: `R` (kept) and `D` (dropped) partition everything
seen so far (`M`), the heap is full unless fewer than `ef` nodes were seen, and no dropped node
is better than a kept one -/
structure HeapInv (ef : Nat) (R D M : List (Scored S)) : Prop where
  perm : (R ++ D).Perm M
  len : R.length = min ef M.length
  dom : ∀ d ∈ D, ∀ r ∈ R, tlt r.score d.score = false

theorem visitNbr_reject (mt : Metric) (st : Store S) (q : List S) (ef : Nat)
    (s : SState S) (nb : Nat) (hnv : nb ∉ s.visited) (hv : (vecAt st nb).isSome)
    (hlen : ¬ s.results.length < ef) (hcmp : lt (worstScore s.results) (simOr mt st q nb) = false) :
    visitNbr mt st q ef s nb = { s with visited := nb :: s.visited } := by
  unfold visitNbr
  simp [hnv, simOpt_eq_simOr hv, hlen, hcmp]

theorem visitNbr_replace (mt : Metric) (st : Store S) (q : List S) (ef : Nat)
    (s : SState S) (nb : Nat) (hnv : nb ∉ s.visited) (hv : (vecAt st nb).isSome)
    (hlen : s.results.length = ef) (hcmp : lt (worstScore s.results) (simOr mt st q nb) = true)
    (w' : Scored S) (rest' : List (Scored S))
    (hw' : worstOf (scOf mt st q nb :: s.results) = some (w', rest')) :
    visitNbr mt st q ef s nb =
      { visited := nb :: s.visited, cands := scOf mt st q nb :: s.cands, results := rest' } := by
  unfold visitNbr
  have hw'' : worstOf ((⟨nb, simOr mt st q nb⟩ : Scored S) :: s.results) = some (w', rest') := hw'
  simp [hnv, simOpt_eq_simOr hv, hlen, hcmp, hw'', scOf]

/-- one fresh neighbour with a vector: the heap invariant is kept (this is where the per-
neighbour bound matters: the neighbour is compared with the *current* worst kept result) -/
theorem visitNbr_top [OrdLaws S] (mt : Metric) (st : Store S) (q : List S) (ef : Nat) (hef : 1 ≤ ef)
    (s : SState S) (nb : Nat) (hnv : nb ∉ s.visited) (hv : (vecAt st nb).isSome)
    (D M : List (Scored S)) (inv : HeapInv ef s.results D M) :
    (∃ D', HeapInv ef (visitNbr mt st q ef s nb).results D' (M ++ [scOf mt st q nb])) ∧
    (visitNbr mt st q ef s nb).visited = nb :: s.visited ∧
    ((visitNbr mt st q ef s nb).cands = s.cands ∨
     (visitNbr mt st q ef s nb).cands = scOf mt st q nb :: s.cands) := by
  have hlenD : (s.results ++ D).length = M.length := inv.perm.length_eq
  simp only [List.length_append] at hlenD
  have hinvlen := inv.len
  by_cases hlt : s.results.length < ef
  · -- room left: nothing has been dropped yet
    have hD : D = [] := by
      have : D.length = 0 := by omega
      exact List.length_eq_zero_iff.mp this
    subst hD
    rw [visitNbr_fresh mt st q ef s nb hnv hv hlt]
    refine ⟨⟨[], ?_, ?_, ?_⟩, rfl, Or.inr rfl⟩
    · have := inv.perm
      simp only [List.append_nil] at this ⊢
      exact (List.Perm.cons _ this).trans (List.perm_append_comm (l₁ := [_]) (l₂ := M))
    · simp only [List.length_nil] at hlenD
      simp only [List.length_cons, List.length_append, List.length_nil]
      omega
    · intro d hd; simp at hd
  · -- the heap is full
    have hfull : s.results.length = ef := by omega
    have hne : s.results ≠ [] := by intro h; rw [h] at hfull; simp at hfull; omega
    obtain ⟨w, wrest, hw⟩ := worstOf_ne_none hne
    have hwmin := worstOf_min hw
    have hwmem : w ∈ s.results := (popMax_mem _ hw).1
    have hws : worstScore s.results = w.score := by simp [worstScore, hw]
    have hMlen : ef ≤ M.length := by omega
    cases hcmp : lt (worstScore s.results) (simOr mt st q nb) with
    | false =>
      -- the neighbour is dropped
      rw [visitNbr_reject mt st q ef s nb hnv hv hlt hcmp]
      refine ⟨⟨scOf mt st q nb :: D, ?_, ?_, ?_⟩, rfl, Or.inl rfl⟩
      · exact (List.perm_middle (l₁ := s.results) (l₂ := D) (a := scOf mt st q nb)).trans
          ((List.Perm.cons _ inv.perm).trans (List.perm_append_comm (l₁ := [_]) (l₂ := M)))
      · simp only [List.length_append, List.length_cons, List.length_nil]; omega
      · intro d hd r hr
        rcases List.mem_cons.mp hd with rfl | hd
        · have h1 : tlt w.score (simOr mt st q nb) = false := by
            rw [← OrdLaws.lt_eq_tlt, ← hws]; exact hcmp
          exact ntlt_trans (hwmin r hr) h1
        · exact inv.dom d hd r hr
    | true =>
      -- the neighbour enters, the worst of the enlarged heap leaves
      have hne2 : (scOf mt st q nb :: s.results) ≠ [] := by simp
      obtain ⟨w', rest', hw'⟩ := worstOf_ne_none hne2
      have hw'min := worstOf_min hw'
      have hperm' := popMax_perm _ _ _ _ hw'
      have hlen' := popMax_length _ hw'
      rw [visitNbr_replace mt st q ef s nb hnv hv hfull hcmp w' rest' hw']
      have htw : tlt w.score (simOr mt st q nb) = true := by
        rw [← OrdLaws.lt_eq_tlt, ← hws]; exact hcmp
      refine ⟨⟨w' :: D, ?_, ?_, ?_⟩, rfl, Or.inr rfl⟩
      · have h1 : (rest' ++ w' :: D).Perm ((w' :: rest') ++ D) :=
          List.perm_middle (l₁ := rest') (l₂ := D) (a := w')
        have h2 : ((w' :: rest') ++ D).Perm ((scOf mt st q nb :: s.results) ++ D) :=
          List.Perm.append_right D hperm'.symm
        have h3 : ((scOf mt st q nb :: s.results) ++ D).Perm (M ++ [scOf mt st q nb]) :=
          (List.Perm.cons _ inv.perm).trans (List.perm_append_comm (l₁ := [_]) (l₂ := M))
        exact h1.trans (h2.trans h3)
      · simp only [List.length_cons] at hlen'
        simp only [List.length_append, List.length_cons, List.length_nil]
        omega
      · intro d hd r hr
        have hr' : r ∈ scOf mt st q nb :: s.results := hperm'.mem_iff.mpr (by simp [hr])
        rcases List.mem_cons.mp hd with rfl | hd
        · exact hw'min r hr'
        · rcases List.mem_cons.mp hr' with rfl | hr''
          · have h1 := inv.dom d hd w hwmem
            cases h2 : tlt (scOf mt st q nb).score d.score with
            | false => rfl
            | true =>
              have : tlt w.score d.score = true := TltLaws.trans _ _ _ htw h2
              rw [h1] at this
              exact absurd this (by simp)
          · exact inv.dom d hd r hr''

/-- scanning a list of fresh, distinct neighbours keeps the heap invariant -/
theorem foldl_visitNbr_top [OrdLaws S] (mt : Metric) (st : Store S) (q : List S) (ef : Nat) (hef : 1 ≤ ef) :
    ∀ (L : List Nat) (s : SState S) (D M : List (Scored S)), L.Nodup →
      (∀ nb ∈ L, nb ∉ s.visited) → (∀ nb ∈ L, (vecAt st nb).isSome) → HeapInv ef s.results D M →
      (∃ D', HeapInv ef (L.foldl (visitNbr mt st q ef) s).results D' (M ++ L.map (scOf mt st q))) ∧
      (∀ v, v ∈ (L.foldl (visitNbr mt st q ef) s).visited ↔ v ∈ L ∨ v ∈ s.visited) ∧
      (∀ c ∈ (L.foldl (visitNbr mt st q ef) s).cands, c ∈ s.cands ∨ ∃ nb ∈ L, c = scOf mt st q nb) := by
  intro L
  induction L with
  | nil =>
    intro s D M _ _ _ inv
    exact ⟨⟨D, by simpa using inv⟩, by simp, by intro c hc; exact Or.inl hc⟩
  | cons nb rest ih =>
    intro s D M hnd hfresh hvec inv
    rw [List.nodup_cons] at hnd
    obtain ⟨⟨D1, inv1⟩, hvis1, hc1⟩ := visitNbr_top mt st q ef hef s nb (hfresh nb (by simp))
      (hvec nb (by simp)) D M inv
    simp only [List.foldl_cons]
    obtain ⟨⟨D2, inv2⟩, hvis2, hc2⟩ := ih (visitNbr mt st q ef s nb) D1 (M ++ [scOf mt st q nb]) hnd.2
      (by
        intro x hx
        rw [hvis1]
        simp only [List.mem_cons, not_or]
        exact ⟨fun h => hnd.1 (h ▸ hx), hfresh x (by simp [hx])⟩)
      (fun x hx => hvec x (by simp [hx])) inv1
    refine ⟨⟨D2, by simpa [List.append_assoc] using inv2⟩, ?_, ?_⟩
    · intro v
      rw [hvis2 v, hvis1]
      simp only [List.mem_cons]
      constructor
      · rintro (h | h | h)
        · exact Or.inl (Or.inr h)
        · exact Or.inl (Or.inl h)
        · exact Or.inr h
      · rintro ((h | h) | h)
        · exact Or.inr (Or.inl h)
        · exact Or.inl h
        · exact Or.inr (Or.inr h)
    · intro c hc
      rcases hc2 c hc with h | ⟨x, hx, rfl⟩
      · rcases hc1 with h1 | h1
        · rw [h1] at h; exact Or.inl h
        · rw [h1] at h
          rcases List.mem_cons.mp h with rfl | h
          · exact Or.inr ⟨nb, by simp, rfl⟩
          · exact Or.inl h
      · exact Or.inr ⟨x, by simp [hx], rfl⟩

theorem HeapInv.of_perm {ef : Nat} {R D M M' : List (Scored S)} (h : HeapInv ef R D M)
    (hp : M.Perm M') : HeapInv ef R D M' where
  perm := h.perm.trans hp
  len := by rw [← hp.length_eq]; exact h.len
  dom := h.dom

theorem worstScore_singleton (x : Scored S) : worstScore [x] = x.score := by
  simp [worstScore, worstOf, popMax]

/-- **search on a complete graph with any beam**: the result heap of `search_internal` is a
best-`ef` selection of all nodes -/
theorem searchInternal_top [OrdLaws S] (mt : Metric) (st : Store S) (m efc : Nat) (g : Graph)
    (e : Nat) (P' : List Nat) (inv : GInv st m efc g (e :: P')) (q : List S) (ef : Nat)
    (hef : 1 ≤ ef) :
    ∃ D, HeapInv ef (searchInternal mt st g q ef) D ((e :: P').map (scOf mt st q)) := by
  have hnd := inv.nodup
  rw [List.nodup_cons] at hnd
  have hadj := inv.adj e (by simp)
  simp only [List.erase_cons_head] at hadj
  have hLnd : (g.nbrsOf e).Nodup := hadj.nodup_iff.mpr hnd.2
  have heL : e ∉ g.nbrsOf e := fun h => hnd.1 (hadj.mem_iff.mp h)
  have hentry : g.entry = some e := by rw [inv.entry]; rfl
  unfold searchInternal
  simp only [hentry]
  have hfuel : g.nbrs.length + 2 = (g.nbrs.length + 1) + 1 := rfl
  rw [hfuel]
  unfold searchLoop
  simp only [popMax_singleton, worstScore_singleton]
  have hirr : lt (simOr mt st q e) (simOr mt st q e) = false := by
    rw [OrdLaws.lt_eq_tlt]; exact TltLaws.irrefl _
  simp only [hirr, Bool.false_and, Bool.false_eq_true, if_false]
  have h0 : HeapInv ef [scOf mt st q e] [] [scOf mt st q e] :=
    ⟨by simp, by simp only [List.length_singleton]; omega, by intro d hd; simp at hd⟩
  obtain ⟨⟨D, hinv⟩, hvis, hcands⟩ := foldl_visitNbr_top mt st q ef hef (g.nbrsOf e)
    { visited := [e], cands := [], results := [scOf mt st q e] } [] [scOf mt st q e] hLnd
    (by intro nb hnb; simp only [List.mem_singleton]; intro h; subst h; exact heL hnb)
    (by intro x hx; exact inv.vec x (by simp [hadj.mem_iff.mp hx])) h0
  have hstable := searchLoop_stable mt st g q ef (g.nbrs.length + 1)
    ((g.nbrsOf e).foldl (visitNbr mt st q ef) { visited := [e], cands := [], results := [scOf mt st q e] })
    (by
      intro c hc nb hnb
      rcases hcands c hc with h | ⟨x, hx, rfl⟩
      · simp at h
      · rw [hvis nb]
        have hxP : x ∈ e :: P' := by simp [hadj.mem_iff.mp hx]
        have h1 := (inv.adj x hxP).mem_iff.mp (by simpa [scOf] using hnb)
        have h2 : nb ∈ e :: P' := List.mem_of_mem_erase h1
        rcases List.mem_cons.mp h2 with h | h
        · exact Or.inr (by simp [h])
        · exact Or.inl (hadj.mem_iff.mpr h))
  have hs : ({ visited := [e], cands := [], results := [scOf mt st q e] } : SState S) =
      { visited := [e], cands := [], results := [⟨e, simOr mt st q e⟩] } := rfl
  rw [← hs, hstable]
  refine ⟨D, hinv.of_perm ?_⟩
  simp only [List.singleton_append, List.map_cons]
  exact List.Perm.cons _ (hadj.map _)

/-- `res` is a best-`k` selection of `all`: it has `min k |all|` elements and nothing left out
is better than anything selected -/
structure TopSel (res all : List (Scored S)) (k : Nat) : Prop where
  len : res.length = min k all.length
  split : ∃ D, (res ++ D).Perm all ∧ ∀ d ∈ D, ∀ r ∈ res, tlt r.score d.score = false

/-- sorted best first (the order of `results.sort_by(|a, b| b.cmp(a))`) -/
def SortedDesc (l : List (Scored S)) : Prop := l.Pairwise (fun a b => Scored.gt b a = false)

theorem SortedDesc.scores {l : List (Scored S)} (h : SortedDesc l) :
    l.Pairwise (fun a b => tlt a.score b.score = false) := by
  refine List.Pairwise.imp ?_ h
  intro a b hab
  unfold Scored.gt Scored.lt at hab
  cases h1 : tlt a.score b.score with
  | false => rfl
  | true => simp [h1] at hab

theorem isort_sortedDesc [TltLaws S] (l : List (Scored S)) : SortedDesc (isort Scored.gt l) :=
  isort_pairwise (lt := Scored.gt) scoredGt_strictTotal.irrefl scoredGt_strictTotal.trans l

/-- cutting a sorted list that dominates what it left out gives a best-`k` selection -/
theorem topSel_take [TltLaws S] (X D all : List (Scored S)) (k : Nat) (hp : (X ++ D).Perm all)
    (hs : SortedDesc X) (hdom : ∀ d ∈ D, ∀ r ∈ X, tlt r.score d.score = false)
    (hlen : min k all.length ≤ X.length) :
    TopSel (X.take k) all k ∧ SortedDesc (X.take k) := by
  have hl := hp.length_eq
  simp only [List.length_append] at hl
  refine ⟨⟨by rw [List.length_take]; omega, X.drop k ++ D, ?_, ?_⟩,
    List.Pairwise.sublist (List.take_sublist _ _) hs⟩
  · rw [← List.append_assoc, List.take_append_drop]; exact hp
  · intro d hd r hr
    rcases List.mem_append.mp hd with hd | hd
    · have hsc := hs.scores
      rw [← List.take_append_drop k X, List.pairwise_append] at hsc
      exact hsc.2.2 r hr d hd
    · exact hdom d hd r (List.mem_of_mem_take hr)

/-- `HnswIndex::search` on a complete graph: for every `k ≥ 1` and every `ef_search` the
result is a best-`k` selection of all nodes, best first -/
theorem search_top [OrdLaws S] (mt : Metric) (st : Store S) (m efc : Nat) (g : Graph)
    (P : List Nat) (inv : GInv st m efc g P) (q : List S) (k efs : Nat) (hk : 1 ≤ k) :
    TopSel (search mt st g q k efs) (P.map (scOf mt st q)) k ∧ SortedDesc (search mt st g q k efs) := by
  unfold search
  have hk0 : ¬ k = 0 := by omega
  simp only [hk0, if_false]
  cases P with
  | nil =>
    have he : g.entry = none := by rw [inv.entry]; rfl
    simp only [searchInternal, he, isort, List.take_nil, List.map_nil]
    exact ⟨⟨by simp, [], by simp, by intro d hd; simp at hd⟩, List.Pairwise.nil⟩
  | cons e P' =>
    obtain ⟨D, hinv⟩ := searchInternal_top mt st m efc g e P' inv q (max (max efs k) 1) (by omega)
    apply topSel_take (isort Scored.gt (searchInternal mt st g q (max (max efs k) 1))) D
    · exact (List.Perm.append_right D (isort_perm_self _ _)).trans hinv.perm
    · exact isort_sortedDesc _
    · intro d hd r hr
      exact hinv.dom d hd r ((mem_isort _ _ _).mp hr)
    · rw [length_isort, hinv.len]; omega

/-- filtering a sorted best-`kk` selection and cutting it to `wanted` gives a best-`wanted`
selection of the eligible elements, provided enough were kept or nothing was left out -/
theorem topSel_filter_take [TltLaws S] (C all : List (Scored S)) (kk wanted : Nat)
    (keep : Scored S → Bool) (hC : TopSel C all kk) (hs : SortedDesc C)
    (hcase : wanted ≤ (C.filter keep).length ∨ C.length = all.length) :
    TopSel ((C.filter keep).take wanted) (all.filter keep) wanted ∧
    SortedDesc ((C.filter keep).take wanted) := by
  obtain ⟨D, hp, hdom⟩ := hC.split
  have hpf : ((C.filter keep) ++ (D.filter keep)).Perm (all.filter keep) := by
    rw [← List.filter_append]; exact hp.filter keep
  apply topSel_take (C.filter keep) (D.filter keep) (all.filter keep) wanted hpf
  · exact List.Pairwise.sublist List.filter_sublist hs
  · intro d hd r hr
    exact hdom d (List.mem_filter.mp hd).1 r (List.mem_filter.mp hr).1
  · rcases hcase with h | h
    · omega
    · have hl := hp.length_eq
      simp only [List.length_append] at hl
      have hD : D = [] := List.length_eq_zero_iff.mp (by omega)
      subst hD
      have := hpf.length_eq
      simp only [List.filter_nil, List.append_nil] at this
      omega

/-- **the fetch loop returns the best `wanted` eligible nodes** whenever every search it issues
returns a best-`k` selection (sorted): growing `search_k` stops only when enough eligible
nodes were found among the best `search_k`, or when the whole segment was fetched -/
theorem fetchLoop_top [TltLaws S] (find : Nat → List (Scored S)) (keep : Scored S → Bool)
    (all : List (Scored S)) (wanted available : Nat) (havail : available = all.length)
    (hfind : ∀ k, 1 ≤ k → TopSel (find k) all k ∧ SortedDesc (find k)) :
    ∀ (fuel searchK : Nat), 1 ≤ searchK → available < fuel + searchK →
      TopSel (fetchLoop find keep wanted available fuel searchK) (all.filter keep) wanted ∧
      SortedDesc (fetchLoop find keep wanted available fuel searchK) := by
  intro fuel
  induction fuel with
  | zero =>
    intro searchK h1 hlt
    simp only [fetchLoop]
    obtain ⟨hC, hs⟩ := hfind searchK h1
    exact topSel_filter_take _ all searchK wanted keep hC hs (Or.inr (by rw [hC.len]; omega))
  | succ n ih =>
    intro searchK h1 hlt
    simp only [fetchLoop]
    obtain ⟨hC, hs⟩ := hfind searchK h1
    split
    · rename_i hcond
      apply topSel_filter_take _ all searchK wanted keep hC hs
      simp only [Bool.or_eq_true, decide_eq_true_eq, ge_iff_le] at hcond
      rcases hcond with h | h | h
      · exact Or.inl h
      · exact Or.inr (by rw [hC.len]; omega)
      · exact Or.inr (by have := hC.len; omega)
    · rename_i hcond
      simp only [Bool.or_eq_true, decide_eq_true_eq, ge_iff_le, not_or, Nat.not_le, Nat.not_lt] at hcond
      exact ih _ (by omega) (by omega)

end

end SL.Vec
