import SLModel.Core.Wal
/-! Lemmas about the WAL codec: varint round trip, torn varints, record scanning. -/
namespace SL.Wal

/-! ### varint -/

theorem encVF_length_pos (f n : Nat) : 0 < (encVF f n).length := by
  cases f <;> simp [encVF] <;> split <;> simp

theorem decVAux_encVF (rest : Bytes) :
    ∀ (f sh n : Nat), n < 128 ^ (f + 1) → sh < 64 → n * 2 ^ sh < 2 ^ 64 →
      decVAux sh (encVF f n ++ rest) = some (n * 2 ^ sh, (encVF f n).length) := by
  intro f
  induction f with
  | zero =>
    intro sh n hn hsh hb
    have hn' : n < 128 := by simpa using hn
    have h1 : n % 128 = n := Nat.mod_eq_of_lt hn'
    have h2 : n * 2 ^ sh % 2 ^ 64 = n * 2 ^ sh := Nat.mod_eq_of_lt hb
    simp [encVF, decVAux, h1, h2, hn', Nat.not_le.mpr hsh]
  | succ f ih =>
    intro sh n hn hsh hb
    unfold encVF
    by_cases hlt : n < 128
    · have h1 : n % 128 = n := Nat.mod_eq_of_lt hlt
      have h2 : n * 2 ^ sh % 2 ^ 64 = n * 2 ^ sh := Nat.mod_eq_of_lt hb
      simp [hlt, decVAux, h1, h2, Nat.not_le.mpr hsh]
    · have hge : 128 ≤ n := Nat.le_of_not_lt hlt
      simp only [hlt, if_false, List.cons_append, decVAux, Nat.not_le.mpr hsh]
      have hbyte : ¬ (n % 128 + 128 < 128) := by omega
      have hmod : (n % 128 + 128) % 128 = n % 128 := by omega
      simp only [hbyte, if_false, hmod]
      -- facts about the remaining value
      have hpow : 2 ^ (sh + 7) = 2 ^ sh * 128 := by rw [Nat.pow_add]
      have hdm : n / 128 * 128 + n % 128 = n := by
        have := Nat.div_add_mod n 128; omega
      have hrest_le : n / 128 * 2 ^ (sh + 7) ≤ n * 2 ^ sh := by
        rw [hpow]
        calc n / 128 * (2 ^ sh * 128) = (n / 128 * 128) * 2 ^ sh := by
              rw [Nat.mul_comm (2 ^ sh) 128, Nat.mul_assoc]
          _ ≤ n * 2 ^ sh := Nat.mul_le_mul_right _ (by omega)
      have hrest : n / 128 * 2 ^ (sh + 7) < 2 ^ 64 := Nat.lt_of_le_of_lt hrest_le hb
      have hsh7 : sh + 7 < 64 := by
        have h128 : 2 ^ (sh + 7) ≤ n * 2 ^ sh := by
          rw [hpow, Nat.mul_comm]; exact Nat.mul_le_mul_right _ hge
        have : 2 ^ (sh + 7) < 2 ^ 64 := Nat.lt_of_le_of_lt h128 hb
        exact (Nat.pow_lt_pow_iff_right (by decide)).mp this
      have hdiv : n / 128 < 128 ^ (f + 1) := by
        have : n < 128 ^ (f + 1) * 128 := by rw [← Nat.pow_succ]; exact hn
        exact Nat.div_lt_of_lt_mul (by rw [Nat.mul_comm]; exact this)
      rw [ih (sh + 7) (n / 128) hdiv hsh7 hrest]
      have hpart_lt : n % 128 * 2 ^ sh < 2 ^ 64 :=
        Nat.lt_of_le_of_lt (Nat.mul_le_mul_right _ (Nat.mod_le n 128)) hb
      have hpart : n % 128 * 2 ^ sh % 2 ^ 64 = n % 128 * 2 ^ sh := Nat.mod_eq_of_lt hpart_lt
      simp only [hpart, List.length_cons, Option.some.injEq, Prod.mk.injEq, and_true]
      rw [hpow]
      calc n % 128 * 2 ^ sh + n / 128 * (2 ^ sh * 128)
          = (n % 128 + n / 128 * 128) * 2 ^ sh := by
            rw [Nat.add_mul, Nat.mul_comm (2 ^ sh) 128, Nat.mul_assoc]
        _ = n * 2 ^ sh := by rw [Nat.add_comm, hdm]

theorem decV_encV (n : Nat) (h : n < 2 ^ 63) (rest : Bytes) :
    decV (encV n ++ rest) = some (n, (encV n).length) := by
  have := decVAux_encVF rest 9 0 n (by
    have : (2 : Nat) ^ 63 < 128 ^ 10 := by decide
    omega) (by decide) (by simp; omega)
  simpa [decV, encV] using this

theorem prefix_singleton_strict {t : Bytes} {a : Nat} (hp : t <+: [a]) (hne : t ≠ [a]) : t = [] := by
  cases t with
  | nil => rfl
  | cons b bs =>
    obtain ⟨s, hs⟩ := hp
    simp only [List.cons_append, List.cons.injEq] at hs
    obtain ⟨rfl, hs⟩ := hs
    have : bs = [] := by
      cases bs with
      | nil => rfl
      | cons c cs => simp at hs
    subst this
    exact absurd rfl hne

/-- a strict prefix of an encoded varint never decodes (torn varint) -/
theorem decVAux_prefix_none :
    ∀ (f sh n : Nat) (t : Bytes), t <+: encVF f n → t ≠ encVF f n → decVAux sh t = none := by
  intro f
  induction f with
  | zero =>
    intro sh n t hp hne
    have : t = [] := prefix_singleton_strict (by simpa [encVF] using hp) (by simpa [encVF] using hne)
    subst this; rfl
  | succ f ih =>
    intro sh n t hp hne
    unfold encVF at hp hne
    by_cases hlt : n < 128
    · simp only [hlt, if_true] at hp hne
      have : t = [] := prefix_singleton_strict hp hne
      subst this; rfl
    · simp only [hlt, if_false] at hp hne
      cases t with
      | nil => rfl
      | cons a as =>
        obtain ⟨s, hs⟩ := hp
        simp only [List.cons_append, List.cons.injEq] at hs
        obtain ⟨rfl, hs⟩ := hs
        have hb : ¬ (n % 128 + 128 < 128) := by omega
        have hrec := ih (sh + 7) (n / 128) as ⟨s, hs⟩ (by intro h2; exact hne (by simp [h2]))
        simp only [decVAux, hb, if_false, hrec]
        split <;> rfl

theorem decV_prefix_none (n : Nat) (t : Bytes) (hp : t <+: encV n) (hne : t ≠ encV n) :
    decV t = none := decVAux_prefix_none 9 0 n t hp hne

theorem decVAux_consumed : ∀ (bs : Bytes) (sh v k : Nat), decVAux sh bs = some (v, k) →
    1 ≤ k ∧ k ≤ bs.length := by
  intro bs
  induction bs with
  | nil => intro sh v k h; simp [decVAux] at h
  | cons b bs ih =>
    intro sh v k h
    unfold decVAux at h
    split at h
    · simp at h
    · split at h
      · simp only [Option.some.injEq, Prod.mk.injEq] at h
        obtain ⟨_, rfl⟩ := h
        simp
      · cases hr : decVAux (sh + 7) bs with
        | none => simp [hr] at h
        | some p =>
          obtain ⟨v', k'⟩ := p
          simp [hr] at h
          have := ih (sh + 7) v' k' hr
          simp; omega

/-! ### records -/

/-- the checksum function produces exactly four bytes -/
def CrcLen (crc : Bytes → Bytes) : Prop := ∀ x, (crc x).length = 4

/-- payload sizes the length prefix can carry without touching the `u64` limit -/
def Rec.WF (r : Rec) : Prop := r.payload.length < 2 ^ 63

theorem scanOne_frame (crc : Bytes → Bytes) (hc : CrcLen crc) (r : Rec) (hr : r.WF) (rest : Bytes) :
    scanOne crc (frame crc r ++ rest) = some (r, (frame crc r).length) := by
  unfold scanOne frame
  rw [List.append_assoc, decV_encV _ hr]
  simp only [List.drop_left]
  simp only [List.cons_append]
  have hlen : ¬ ((r.payload ++ crc (r.ty :: r.payload) ++ rest).length < r.payload.length + 4) := by
    simp [hc (r.ty :: r.payload)]
  simp only [hlen, if_false]
  have htake : (r.payload ++ crc (r.ty :: r.payload) ++ rest).take r.payload.length = r.payload := by
    rw [List.append_assoc, List.take_left]
  have hdrop : ((r.payload ++ crc (r.ty :: r.payload) ++ rest).drop r.payload.length).take 4
      = crc (r.ty :: r.payload) := by
    rw [List.append_assoc, List.drop_left]
    have := hc (r.ty :: r.payload)
    rw [← this, List.take_left]
  rw [htake, hdrop]
  simp [hc (r.ty :: r.payload)]
  omega

theorem scanOne_consumed (crc : Bytes → Bytes) (data : Bytes) (r : Rec) (n : Nat)
    (h : scanOne crc data = some (r, n)) : 1 ≤ n ∧ n ≤ data.length := by
  unfold scanOne at h
  cases hd : decV data with
  | none => simp [hd] at h
  | some p =>
    obtain ⟨len, k⟩ := p
    simp only [hd] at h
    have hk := decVAux_consumed data 0 len k hd
    cases hdr : data.drop k with
    | nil => simp [hdr] at h
    | cons ty body =>
      simp only [hdr] at h
      split at h
      · simp at h
      · rename_i hlen
        split at h
        · simp at h
          obtain ⟨_, rfl⟩ := h
          have : (data.drop k).length = body.length + 1 := by rw [hdr]; simp
          rw [List.length_drop] at this
          omega
        · simp at h

/-- a strict prefix of one framed record is never accepted (torn record) -/
theorem scanOne_torn (crc : Bytes → Bytes) (hc : CrcLen crc) (r : Rec) (hr : r.WF) (t : Bytes)
    (hp : t <+: frame crc r) (hne : t ≠ frame crc r) : scanOne crc t = none := by
  have hlt : t.length < (frame crc r).length := by
    have hle := hp.length_le
    rcases Nat.lt_or_ge t.length (frame crc r).length with h | h
    · exact h
    · exact absurd (hp.eq_of_length (by omega)) hne
  have ht : t = (frame crc r).take t.length := (List.prefix_iff_eq_take.mp hp)
  -- abbreviations
  generalize hL : encV r.payload.length = L at *
  generalize hB : r.ty :: r.payload ++ crc (r.ty :: r.payload) = B at *
  have hframe : frame crc r = L ++ B := by simp [frame, hL, hB]
  have hBlen : B.length = 1 + r.payload.length + 4 := by
    rw [← hB]; simp [hc (r.ty :: r.payload)]; omega
  rw [hframe] at ht hlt
  by_cases hshort : t.length < L.length
  · -- torn inside the length prefix
    have hpre : t <+: L := by
      rw [ht, List.take_append_of_le_length (by omega)]
      exact List.take_prefix _ _
    have hneL : t ≠ L := by intro h; rw [h] at hshort; omega
    have : decV t = none := by rw [← hL] at hpre hneL; exact decV_prefix_none _ t hpre hneL
    simp [scanOne, this]
  · -- the length prefix is complete; the rest is a strict prefix of type+payload+crc
    have hge : L.length ≤ t.length := Nat.le_of_not_lt hshort
    obtain ⟨u, hu⟩ : ∃ u, t = L ++ u ∧ u = B.take (t.length - L.length) := by
      refine ⟨B.take (t.length - L.length), ?_, rfl⟩
      have h1 : (L ++ B).take t.length = L.take t.length ++ B.take (t.length - L.length) :=
        List.take_append
      rw [List.take_of_length_le hge] at h1
      exact ht.trans h1
    obtain ⟨htu, hudef⟩ := hu
    have hulen : u.length < 1 + r.payload.length + 4 := by
      rw [hudef, List.length_take]
      simp at hlt
      omega
    have hdec : decV (L ++ u) = some (r.payload.length, L.length) := by
      rw [← hL]; exact decV_encV _ hr u
    unfold scanOne
    rw [htu, hdec]
    simp only [List.drop_left]
    cases u with
    | nil => rfl
    | cons ty body =>
      simp only
      have : body.length < r.payload.length + 4 := by simp at hulen; omega
      simp [this]

/-! ### the scan loop -/

theorem frame_length_pos (crc : Bytes → Bytes) (r : Rec) : 0 < (frame crc r).length := by
  simp [frame]; omega

theorem scan_succ_some (crc : Bytes → Bytes) (f : Nat) (data : Bytes) (r : Rec) (n : Nat)
    (h : scanOne crc data = some (r, n)) :
    scan crc (f + 1) data = (r :: (scan crc f (data.drop n)).1, n + (scan crc f (data.drop n)).2) := by
  simp [scan, h]

theorem scan_succ_none (crc : Bytes → Bytes) (f : Nat) (data : Bytes)
    (h : scanOne crc data = none) : scan crc (f + 1) data = ([], 0) := by
  simp [scan, h]

theorem scan_append (crc : Bytes → Bytes) (hc : CrcLen crc) :
    ∀ (rs : List Rec), (∀ r ∈ rs, r.WF) → ∀ (f : Nat) (tail : Bytes),
      scan crc (rs.length + f) (frameAll crc rs ++ tail)
        = (rs ++ (scan crc f tail).1, (frameAll crc rs).length + (scan crc f tail).2) := by
  intro rs
  induction rs with
  | nil => intro _ f tail; simp [frameAll]
  | cons r rs ih =>
    intro hwf f tail
    have hr : r.WF := hwf r (by simp)
    have hrs : ∀ x ∈ rs, x.WF := fun x hx => hwf x (by simp [hx])
    have hfuel : (r :: rs).length + f = (rs.length + f) + 1 := by simp only [List.length_cons]; omega
    rw [hfuel]
    have hdata : frameAll crc (r :: rs) ++ tail = frame crc r ++ (frameAll crc rs ++ tail) := by
      simp [frameAll]
    rw [hdata]
    rw [scan_succ_some crc _ _ r _ (scanOne_frame crc hc r hr _)]
    simp only [List.drop_left]
    rw [ih hrs f tail]
    simp only [frameAll, List.map_cons, List.flatten_cons, List.length_append, List.cons_append,
      Nat.add_assoc]

theorem scan_nil (crc : Bytes → Bytes) (f : Nat) : scan crc f [] = ([], 0) := by
  cases f <;> simp [scan, scanOne, decV, decVAux]

/-- enough fuel: the result does not depend on the fuel once it covers the data length -/
theorem scan_fuel (crc : Bytes → Bytes) :
    ∀ (f g : Nat) (data : Bytes), data.length ≤ f → data.length ≤ g →
      scan crc f data = scan crc g data := by
  intro f
  induction f with
  | zero =>
    intro g data hf _
    have : data = [] := List.eq_nil_of_length_eq_zero (by omega)
    subst this
    simp [scan_nil]
  | succ f ih =>
    intro g data hf hg
    cases g with
    | zero =>
      have : data = [] := List.eq_nil_of_length_eq_zero (by omega)
      subst this
      simp [scan_nil]
    | succ g =>
      cases hs : scanOne crc data with
      | none => rw [scan_succ_none crc f data hs, scan_succ_none crc g data hs]
      | some p =>
        obtain ⟨r, n⟩ := p
        have hn := scanOne_consumed crc data r n hs
        have h1 : (data.drop n).length ≤ f := by rw [List.length_drop]; omega
        have h2 : (data.drop n).length ≤ g := by rw [List.length_drop]; omega
        rw [scan_succ_some crc f data r n hs, scan_succ_some crc g data r n hs,
          ih g (data.drop n) h1 h2]

theorem frameAll_length_ge (crc : Bytes → Bytes) (rs : List Rec) : rs.length ≤ (frameAll crc rs).length := by
  induction rs with
  | nil => simp [frameAll]
  | cons r rs ih =>
    have := frame_length_pos crc r
    simp [frameAll] at ih ⊢
    omega

/-- **Round trip**: replaying a well-formed log returns exactly its records. -/
theorem replay_frameAll (crc : Bytes → Bytes) (hc : CrcLen crc) (rs : List Rec)
    (hwf : ∀ r ∈ rs, r.WF) :
    replay crc (frameAll crc rs) = (rs, (frameAll crc rs).length) := by
  unfold replay
  have hge := frameAll_length_ge crc rs
  rw [scan_fuel crc _ (rs.length + (frameAll crc rs).length) (frameAll crc rs) (Nat.le_refl _) (by omega)]
  have := scan_append crc hc rs hwf (frameAll crc rs).length []
  simpa [scan_nil] using this

/-- **Torn tail**: a strict prefix of a record after a well-formed log is ignored, and the valid
length is the length of the well-formed part.  No assumption on the checksum is needed. -/
theorem replay_torn (crc : Bytes → Bytes) (hc : CrcLen crc) (rs : List Rec)
    (hwf : ∀ r ∈ rs, r.WF) (r : Rec) (hr : r.WF) (t : Bytes)
    (hp : t <+: frame crc r) (hne : t ≠ frame crc r) :
    replay crc (frameAll crc rs ++ t) = (rs, (frameAll crc rs).length) := by
  unfold replay
  have hge := frameAll_length_ge crc rs
  rw [scan_fuel crc _ (rs.length + ((frameAll crc rs ++ t).length + 1)) (frameAll crc rs ++ t)
    (Nat.le_refl _) (by omega)]
  rw [scan_append crc hc rs hwf ((frameAll crc rs ++ t).length + 1) t]
  have : scan crc ((frameAll crc rs ++ t).length + 1) t = ([], 0) :=
    scan_succ_none crc _ t (scanOne_torn crc hc r hr t hp hne)
  rw [this]
  simp

end SL.Wal
