import SLModel.Core.TopK
/-!
# Lemmas/WandLoop — the cursor loop of `Core/TopK` (plain WAND bounds) refines the decision rule

`loop_eq_runDocsO`: from any state whose cursors are "all postings with `doc ≥ f`", the loop
computes what the decision rule computes on the remaining candidate documents.  Core Lean only.
-/
set_option linter.unusedSimpArgs false
namespace SL.TK

abbrev Posts := List (Nat × Nat)

def docsInc (l : Posts) : Prop := l.Pairwise (fun a b => a.1 < b.1)

/-- postings of `t` from front `f` on -/
def Term.from (t : Term) (f : Nat) : Posts := t.posts.dropWhile (fun p => decide (p.1 < f))

/-! ## `dropWhile` on postings -/

theorem dw_dw_le (f g : Nat) (h : f ≤ g) : ∀ l : Posts,
    (l.dropWhile (fun p => decide (p.1 < f))).dropWhile (fun p => decide (p.1 < g)) =
      l.dropWhile (fun p => decide (p.1 < g)) := by
  intro l
  induction l with
  | nil => rfl
  | cons a as ih =>
    by_cases ha : a.1 < f
    · have hg : a.1 < g := by omega
      simp [List.dropWhile_cons, ha, hg, ih]
    · simp [List.dropWhile_cons, ha]

theorem dw_ge_of_inc (f : Nat) : ∀ l : Posts, docsInc l →
    ∀ p ∈ l.dropWhile (fun p => decide (p.1 < f)), f ≤ p.1 := by
  intro l
  induction l with
  | nil => intro _ p hp; simp at hp
  | cons a as ih =>
    intro hs p hp
    unfold docsInc at hs
    rw [List.pairwise_cons] at hs
    by_cases ha : a.1 < f
    · simp [List.dropWhile_cons, ha] at hp
      exact ih hs.2 p (by simpa using hp)
    · simp [List.dropWhile_cons, ha] at hp
      rcases hp with rfl | hp
      · omega
      · have := hs.1 p hp; omega

theorem mem_dw_of_ge (f : Nat) : ∀ (l : Posts) (p : Nat × Nat), p ∈ l → f ≤ p.1 →
    p ∈ l.dropWhile (fun p => decide (p.1 < f)) := by
  intro l
  induction l with
  | nil => intro p hp; simp at hp
  | cons a as ih =>
    intro p hp hge
    by_cases ha : a.1 < f
    · simp only [List.dropWhile_cons, ha, decide_true, if_true]
      rcases List.mem_cons.mp hp with rfl | hp
      · omega
      · exact ih p hp hge
    · simp only [List.dropWhile_cons, ha, decide_false]
      simpa using hp

theorem dw_sublist (f : Nat) (l : Posts) : (l.dropWhile (fun p => decide (p.1 < f))).Sublist l :=
  List.dropWhile_sublist _

theorem mem_of_mem_dw (f : Nat) (l : Posts) (p : Nat × Nat)
    (h : p ∈ l.dropWhile (fun p => decide (p.1 < f))) : p ∈ l :=
  (dw_sublist f l).subset h

theorem dw_inc (f : Nat) (l : Posts) (h : docsInc l) :
    docsInc (l.dropWhile (fun p => decide (p.1 < f))) :=
  List.Pairwise.sublist (dw_sublist f l) h

/-- head with `doc = d`, strictly increasing: dropping `< d+1` removes exactly the head -/
theorem dw_succ_head (a : Nat × Nat) (as : Posts) (h : docsInc (a :: as)) :
    (a :: as).dropWhile (fun p => decide (p.1 < a.1 + 1)) = as := by
  unfold docsInc at h
  rw [List.pairwise_cons] at h
  simp only [List.dropWhile_cons, Nat.lt_succ_self, decide_true, if_true]
  cases as with
  | nil => rfl
  | cons b bs =>
    have := h.1 b (by simp)
    have hb : ¬ b.1 < a.1 + 1 := by omega
    simp [List.dropWhile_cons, hb]

theorem dw_id_of_head_ge (g : Nat) (a : Nat × Nat) (as : Posts) (h : g ≤ a.1) :
    (a :: as).dropWhile (fun p => decide (p.1 < g)) = a :: as := by
  have : ¬ a.1 < g := by omega
  simp [List.dropWhile_cons, this]

theorem dw_length_le (g : Nat) (l : Posts) :
    (l.dropWhile (fun p => decide (p.1 < g))).length ≤ l.length :=
  (dw_sublist g l).length_le

theorem dw_length_lt (g : Nat) (a : Nat × Nat) (as : Posts) (h : a.1 < g) :
    ((a :: as).dropWhile (fun p => decide (p.1 < g))).length < (a :: as).length := by
  simp only [List.dropWhile_cons, h, decide_true, if_true, List.length_cons]
  have := dw_length_le g as
  omega

/-! ## `Term.from` -/

theorem from_from (t : Term) (f g : Nat) (h : f ≤ g) :
    (t.from f).dropWhile (fun p => decide (p.1 < g)) = t.from g := dw_dw_le f g h t.posts

theorem from_nil_mono (t : Term) (f g : Nat) (h : f ≤ g) (he : t.from f = []) : t.from g = [] := by
  rw [← from_from t f g h, he]; rfl

theorem from_length_le (t : Term) (f g : Nat) (h : f ≤ g) :
    (t.from g).length ≤ (t.from f).length := by
  rw [← from_from t f g h]; exact dw_length_le g _

theorem has_iff_from (t : Term) (f d : Nat) (h : f ≤ d) :
    t.has d = (t.from f).any (fun p => p.1 == d) := by
  unfold Term.has Term.from
  generalize t.posts = l
  induction l with
  | nil => rfl
  | cons a as ih =>
    by_cases ha : a.1 < f
    · have hne : (a.1 == d) = false := by simp; omega
      simp only [List.any_cons, hne, Bool.false_or, List.dropWhile_cons, ha, decide_true, if_true]
      exact ih
    · simp [List.dropWhile_cons, ha]

/-! ## cursors as keys -/

abbrev Key := Term × Posts
def key (c : Cur) : Key := (c.t, c.rest)
def nonEmpty (x : Key) : Bool := !x.2.isEmpty
def cursAt (ts : List Term) (f : Nat) : List Key :=
  (ts.map fun t => (t, t.from f)).filter nonEmpty
def Rel (ts : List Term) (f : Nat) (cs : List Cur) : Prop := cs.map key = cursAt ts f

theorem notDone_eq (c : Cur) : notDone c = nonEmpty (key c) := rfl

theorem cursAt_cons (t : Term) (r : List Term) (f : Nat) :
    cursAt (t :: r) f = if nonEmpty (t, t.from f) then (t, t.from f) :: cursAt r f else cursAt r f := by
  simp [cursAt, List.filter_cons]

/-- moving every cursor by a key-level function that maps "from `f`" to "from `f'`" -/
theorem cursAt_step (f f' : Nat) (kg : Key → Key) : ∀ ts : List Term,
    (∀ t ∈ ts, t.from f ≠ [] → kg (t, t.from f) = (t, t.from f')) →
    (∀ t ∈ ts, t.from f = [] → t.from f' = []) →
    ((cursAt ts f).map kg).filter nonEmpty = cursAt ts f' := by
  intro ts
  induction ts with
  | nil => intro _ _; rfl
  | cons t r ih =>
    intro h1 h2
    have ihr := ih (fun u hu => h1 u (by simp [hu])) (fun u hu => h2 u (by simp [hu]))
    rw [cursAt_cons, cursAt_cons]
    by_cases he : t.from f = []
    · have he' := h2 t (by simp) he
      simp [nonEmpty, he, he', ihr]
    · have hk := h1 t (by simp) he
      have hne : nonEmpty (t, t.from f) = true := by
        simp [nonEmpty]; exact he
      simp only [hne, if_true, List.map_cons, List.filter_cons, hk, ihr]

theorem map_key_step (g : Cur → Cur) (kg : Key → Key) (hg : ∀ c, key (g c) = kg (key c))
    (cs : List Cur) :
    ((cs.map g).filter notDone).map key = ((cs.map key).map kg).filter nonEmpty := by
  induction cs with
  | nil => rfl
  | cons c r ih =>
    simp only [List.map_cons, List.filter_cons, notDone_eq, hg]
    split <;> simp [ih, hg]

theorem rel_mem (ts : List Term) (f : Nat) (cs : List Cur) (h : Rel ts f cs) (c : Cur)
    (hc : c ∈ cs) : c.t ∈ ts ∧ c.rest = c.t.from f ∧ c.rest ≠ [] := by
  have : key c ∈ cursAt ts f := by
    rw [← h]; exact List.mem_map.mpr ⟨c, hc, rfl⟩
  unfold cursAt at this
  rw [List.mem_filter] at this
  obtain ⟨hm, hne⟩ := this
  obtain ⟨t, ht, hk⟩ := List.mem_map.mp hm
  have h1 : c.t = t := by simpa [key] using (congrArg Prod.fst hk).symm
  have h2 : c.rest = t.from f := by simpa [key] using (congrArg Prod.snd hk).symm
  subst h1
  refine ⟨ht, h2, ?_⟩
  intro he
  simp [nonEmpty, key, he] at hne

theorem rel_exists (ts : List Term) (f : Nat) (cs : List Cur) (h : Rel ts f cs) (t : Term)
    (ht : t ∈ ts) (hne : t.from f ≠ []) : ∃ c ∈ cs, c.t = t ∧ c.rest = t.from f := by
  have : (t, t.from f) ∈ cursAt ts f := by
    unfold cursAt
    rw [List.mem_filter]
    refine ⟨List.mem_map.mpr ⟨t, ht, rfl⟩, ?_⟩
    simp [nonEmpty]; exact hne
  rw [← h] at this
  obtain ⟨c, hc, hk⟩ := List.mem_map.mp this
  refine ⟨c, hc, ?_, ?_⟩
  · simpa [key] using congrArg Prod.fst hk
  · simpa [key] using congrArg Prod.snd hk

/-! ## the queue order -/

theorem insCur_perm (c : Cur) : ∀ l : List Cur, (insCur c l).Perm (c :: l) := by
  intro l
  induction l with
  | nil => exact List.Perm.refl _
  | cons y ys ih =>
    unfold insCur
    split
    · exact List.Perm.refl _
    · exact (List.Perm.cons y ih).trans (List.Perm.swap c y ys)

theorem sortCurs_perm : ∀ l : List Cur, (sortCurs l).Perm l := by
  intro l
  induction l with
  | nil => exact List.Perm.refl _
  | cons c cs ih => exact (insCur_perm c _).trans (List.Perm.cons c ih)

def SortedD (l : List Cur) : Prop := l.Pairwise (fun a b => a.doc ≤ b.doc)

theorem insCur_sorted (c : Cur) : ∀ l : List Cur, SortedD l → SortedD (insCur c l) := by
  intro l
  induction l with
  | nil => intro _; simp [insCur, SortedD]
  | cons y ys ih =>
    intro hs
    unfold SortedD at hs
    rw [List.pairwise_cons] at hs
    unfold insCur
    split
    · rename_i hlt
      unfold SortedD
      rw [List.pairwise_cons]
      refine ⟨?_, List.pairwise_cons.mpr hs⟩
      intro z hz
      rcases List.mem_cons.mp hz with rfl | hz
      · omega
      · have := hs.1 z hz; omega
    · rename_i hge
      unfold SortedD
      rw [List.pairwise_cons]
      refine ⟨?_, ih hs.2⟩
      intro z hz
      have : z ∈ c :: ys := (insCur_perm c ys).subset hz
      rcases List.mem_cons.mp this with rfl | hz
      · omega
      · exact hs.1 z hz

theorem sortCurs_sorted : ∀ l : List Cur, SortedD (sortCurs l) := by
  intro l
  induction l with
  | nil => simp [sortCurs, SortedD]
  | cons c cs ih => exact insCur_sorted c _ ih

/-! ## bounds and sums -/

def W (l : List Cur) : Nat := (l.map fun c => c.t.ub).sum

def ubC (l : List Cur) (d : Nat) : Nat :=
  (l.map fun c => if c.rest.any (fun p => p.1 == d) then c.t.ub else 0).sum

theorem W_append (a b : List Cur) : W (a ++ b) = W a + W b := by
  simp [W, List.sum_append]

theorem ubC_append (a b : List Cur) (d : Nat) : ubC (a ++ b) d = ubC a d + ubC b d := by
  simp [ubC, List.sum_append]

theorem ubC_perm {a b : List Cur} (p : a.Perm b) (d : Nat) : ubC a d = ubC b d :=
  (p.map _).sum_nat

theorem W_perm {a b : List Cur} (p : a.Perm b) : W a = W b := (p.map _).sum_nat

theorem ubC_le_W (l : List Cur) (d : Nat) : ubC l d ≤ W l := by
  induction l with
  | nil => simp [ubC, W]
  | cons c r ih =>
    simp only [ubC, W, List.map_cons, List.sum_cons] at ih ⊢
    split <;> omega

theorem ubC_zero (l : List Cur) (d : Nat)
    (h : ∀ c ∈ l, c.rest.any (fun p => p.1 == d) = false) : ubC l d = 0 := by
  induction l with
  | nil => simp [ubC]
  | cons c r ih =>
    have h1 := h c (by simp)
    have h2 := ih (fun x hx => h x (by simp [hx]))
    simp only [ubC, List.map_cons, List.sum_cons, h1] at h2 ⊢
    simp [h2]

theorem ubC_all (l : List Cur) (d : Nat)
    (h : ∀ c ∈ l, c.rest.any (fun p => p.1 == d) = true) : ubC l d = W l := by
  induction l with
  | nil => simp [ubC, W]
  | cons c r ih =>
    have h1 := h c (by simp)
    have h2 := ih (fun x hx => h x (by simp [hx]))
    simp only [ubC, W, List.map_cons, List.sum_cons, h1] at h2 ⊢
    simp [h2]

def ubK (l : List Key) (d : Nat) : Nat :=
  (l.map fun x => if x.2.any (fun p => p.1 == d) then x.1.ub else 0).sum

theorem ubC_eq_ubK (l : List Cur) (d : Nat) : ubC l d = ubK (l.map key) d := by
  unfold ubC ubK
  rw [List.map_map]
  rfl

theorem ubsum_eq_ubK (f d : Nat) (h : f ≤ d) : ∀ ts : List Term,
    ubsum ts d = ubK (cursAt ts f) d := by
  intro ts
  induction ts with
  | nil => rfl
  | cons t r ih =>
    rw [cursAt_cons]
    unfold ubsum
    rw [ih, has_iff_from t f d h]
    by_cases he : t.from f = []
    · simp [nonEmpty, he]
    · have hne : nonEmpty (t, t.from f) = true := by simp [nonEmpty]; exact he
      simp [hne, ubK]

theorem ubsum_eq_ubC (ts : List Term) (f d : Nat) (h : f ≤ d) (cs : List Cur)
    (hr : Rel ts f cs) : ubsum ts d = ubC cs d := by
  rw [ubsum_eq_ubK f d h ts, ubC_eq_ubK, hr]

/-! ## pivot selection -/

theorem findPivot_none (θ : Nat) : ∀ (q : List Cur) (acc : Nat), q ≠ [] →
    findPivot θ acc q = none → acc + W q < θ := by
  intro q
  induction q with
  | nil => intro acc h; exact absurd rfl h
  | cons c r ih =>
    intro acc _ h
    unfold findPivot at h
    split at h
    · simp at h
    · rename_i hlt
      have hn : findPivot θ (acc + c.t.ub) r = none := by
        cases hf : findPivot θ (acc + c.t.ub) r with
        | none => rfl
        | some v => simp [hf] at h
      by_cases hr : r = []
      · subst hr; simp [W]; omega
      · have := ih (acc + c.t.ub) hr hn
        simp only [W, List.map_cons, List.sum_cons] at this ⊢
        omega

theorem findPivot_some (θ : Nat) : ∀ (q : List Cur) (acc p : Nat),
    findPivot θ acc q = some p →
      p < q.length ∧ (0 < p → acc + W (q.take p) < θ) ∧ θ ≤ acc + W (q.take (p + 1)) := by
  intro q
  induction q with
  | nil => intro acc p h; simp [findPivot] at h
  | cons c r ih =>
    intro acc p h
    unfold findPivot at h
    split at h
    · rename_i hge
      simp at h
      subst h
      refine ⟨by simp, by omega, ?_⟩
      simp [W]; omega
    · rename_i hlt
      cases hf : findPivot θ (acc + c.t.ub) r with
      | none => simp [hf] at h
      | some p' =>
        simp [hf] at h
        subst h
        obtain ⟨h1, h2, h3⟩ := ih (acc + c.t.ub) p' hf
        refine ⟨by simp; omega, ?_, ?_⟩
        · intro _
          by_cases hp : p' = 0
          · subst hp; simp [W]; omega
          · have := h2 (by omega)
            simp only [W, List.take_succ_cons, List.map_cons, List.sum_cons] at this ⊢
            omega
        · simp only [W, List.take_succ_cons, List.map_cons, List.sum_cons] at h3 ⊢
          omega

/-! ## facts about one cursor -/

def headDoc (l : Posts) : Nat := match l with | p :: _ => p.1 | [] => 0

theorem doc_eq_headDoc (c : Cur) : c.doc = headDoc c.rest := rfl

theorem headDoc_le_of_any (l : Posts) (h : docsInc l) (d : Nat)
    (ha : l.any (fun p => p.1 == d) = true) : headDoc l ≤ d := by
  cases l with
  | nil => simp at ha
  | cons a as =>
    unfold docsInc at h
    rw [List.pairwise_cons] at h
    simp only [headDoc]
    rw [List.any_eq_true] at ha
    obtain ⟨x, hx, hxd⟩ := ha
    have hxd : x.1 = d := by simpa using hxd
    rcases List.mem_cons.mp hx with rfl | hx
    · omega
    · have := h.1 x hx; omega

theorem any_of_headDoc (l : Posts) (hne : l ≠ []) : l.any (fun p => p.1 == headDoc l) = true := by
  cases l with
  | nil => exact absurd rfl hne
  | cons a as => simp [headDoc]

theorem any_false_of_lt (l : Posts) (h : docsInc l) (d : Nat) (hd : d < headDoc l) :
    l.any (fun p => p.1 == d) = false := by
  cases hb : l.any (fun p => p.1 == d) with
  | false => rfl
  | true => have := headDoc_le_of_any l h d hb; omega

/-! ## decision rule: skipped prefixes -/

theorem runDocsO_skip_prefix (k : Nat) (sc : Nat → Option Nat) (skip : List Hit → Nat → Bool)
    (H : List Hit) : ∀ (P R : List Nat), (∀ d ∈ P, skip H d = true) →
    runDocsO k sc skip H (P ++ R) = runDocsO k sc skip H R := by
  intro P
  induction P with
  | nil => intro R _; rfl
  | cons d ds ih =>
    intro R h
    have hd := h d (by simp)
    simp only [List.cons_append, runDocsO, hd, if_true]
    exact ih R (fun x hx => h x (by simp [hx]))

theorem runDocsO_skip_all (k : Nat) (sc : Nat → Option Nat) (skip : List Hit → Nat → Bool)
    (H : List Hit) (P : List Nat) (h : ∀ d ∈ P, skip H d = true) :
    runDocsO k sc skip H P = H := by
  have := runDocsO_skip_prefix k sc skip H P [] h
  simpa [runDocsO] using this

/-! ## increasing lists of documents -/

theorem nat_dw_ge (g : Nat) : ∀ l : List Nat, l.Pairwise (· < ·) →
    ∀ d ∈ l.dropWhile (fun d => decide (d < g)), g ≤ d := by
  intro l
  induction l with
  | nil => intro _ d hd; simp at hd
  | cons a as ih =>
    intro hs d hd
    rw [List.pairwise_cons] at hs
    by_cases ha : a < g
    · simp [List.dropWhile_cons, ha] at hd
      exact ih hs.2 d (by simpa using hd)
    · simp [List.dropWhile_cons, ha] at hd
      rcases hd with rfl | hd
      · omega
      · have := hs.1 d hd; omega

theorem nat_mem_dw (g : Nat) : ∀ (l : List Nat) (d : Nat), d ∈ l → g ≤ d →
    d ∈ l.dropWhile (fun d => decide (d < g)) := by
  intro l
  induction l with
  | nil => intro d hd; simp at hd
  | cons a as ih =>
    intro d hd hge
    by_cases ha : a < g
    · simp only [List.dropWhile_cons, ha, decide_true, if_true]
      rcases List.mem_cons.mp hd with rfl | hd
      · omega
      · exact ih d hd hge
    · simp only [List.dropWhile_cons, ha, decide_false]
      simpa using hd

theorem nat_mem_tw (g : Nat) : ∀ (l : List Nat) (d : Nat),
    d ∈ l.takeWhile (fun d => decide (d < g)) → d < g ∧ d ∈ l := by
  intro l
  induction l with
  | nil => intro d hd; simp at hd
  | cons a as ih =>
    intro d hd
    by_cases ha : a < g
    · simp only [List.takeWhile_cons, ha, decide_true, if_true] at hd
      rcases List.mem_cons.mp hd with rfl | hd
      · exact ⟨ha, by simp⟩
      · have := ih d hd; exact ⟨this.1, by simp [this.2]⟩
    · simp [List.takeWhile_cons, ha] at hd

/-! ## measure -/

def M (ts : List Term) (f : Nat) : Nat := (ts.map fun t => (t.from f).length).sum

theorem M_le (f g : Nat) (h : f ≤ g) : ∀ ts : List Term, M ts g ≤ M ts f := by
  intro ts
  induction ts with
  | nil => simp [M]
  | cons t r ih =>
    have := from_length_le t f g h
    simp only [M, List.map_cons, List.sum_cons] at ih ⊢
    omega

theorem M_lt (f g : Nat) (h : f ≤ g) : ∀ ts : List Term,
    (∃ t ∈ ts, ∃ a as, t.from f = a :: as ∧ a.1 < g) → M ts g < M ts f := by
  intro ts
  induction ts with
  | nil => intro ⟨t, ht, _⟩; simp at ht
  | cons t r ih =>
    intro ⟨u, hu, a, as, he, hlt⟩
    have hle := from_length_le t f g h
    have hr := M_le f g h r
    simp only [M, List.map_cons, List.sum_cons] at ih hr ⊢
    rcases List.mem_cons.mp hu with rfl | hu
    · have : (u.from g).length < (u.from f).length := by
        rw [← from_from u f g h, he]
        exact dw_length_lt g a as hlt
      omega
    · have := ih ⟨u, hu, a, as, he, hlt⟩
      omega

theorem M_zero_of_nil (ts : List Term) (f : Nat) (h : cursAt ts f = []) :
    ∀ t ∈ ts, t.from f = [] := by
  intro t ht
  cases he : t.from f with
  | nil => rfl
  | cons a as =>
    have : (t, t.from f) ∈ cursAt ts f := by
      unfold cursAt
      rw [List.mem_filter]
      exact ⟨List.mem_map.mpr ⟨t, ht, rfl⟩, by simp [nonEmpty, he]⟩
    rw [h] at this
    simp at this

/-! ## state updates -/

def kgAdv (d : Nat) (x : Key) : Key := if headDoc x.2 == d then (x.1, x.2.tail) else x
def kgMove (g : Nat) (x : Key) : Key := (x.1, x.2.dropWhile (fun p => decide (p.1 < g)))

theorem key_adv (d : Nat) (c : Cur) :
    key (if c.doc == d then c.advance else c) = kgAdv d (key c) := by
  unfold kgAdv
  rw [doc_eq_headDoc]
  by_cases h : (headDoc c.rest == d) = true
  · simp [key, h, Cur.advance]
  · simp [key, h]

theorem key_move (g : Nat) (c : Cur) :
    key (if c.doc < g then (if false then c.skipToBlock g else c).advanceTo g else c) =
      kgMove g (key c) := by
  unfold kgMove
  split
  · simp [key, Cur.advanceTo]
  · rename_i hge
    simp only [key]
    cases hr : c.rest with
    | nil => rfl
    | cons a as =>
      have : c.doc = a.1 := by simp [Cur.doc, hr]
      rw [dw_id_of_head_ge g a as (by omega)]

theorem rel_adv (ts : List Term) (hV : ∀ t ∈ ts, docsInc t.posts) (f d : Nat) (hfd : f ≤ d)
    (hmin : ∀ t ∈ ts, ∀ a as, t.from f = a :: as → d ≤ a.1) (cs : List Cur) (hr : Rel ts f cs) :
    Rel ts (d + 1) ((cs.map fun c => if c.doc == d then c.advance else c).filter notDone) := by
  unfold Rel
  rw [map_key_step _ (kgAdv d) (key_adv d), hr]
  apply cursAt_step
  · intro t ht hne
    cases he : t.from f with
    | nil => exact absurd he hne
    | cons a as =>
      have hda := hmin t ht a as he
      have hinc : docsInc (a :: as) := by rw [← he]; exact dw_inc f _ (hV t ht)
      rw [← from_from t f (d + 1) (by omega), he]
      unfold kgAdv
      simp only [headDoc]
      by_cases hd : a.1 = d
      · subst hd
        simp [dw_succ_head a as hinc]
      · have : ¬ (a.1 == d) = true := by simpa using hd
        simp only [this]
        rw [dw_id_of_head_ge (d + 1) a as (by omega)]
        simp
  · intro t _ he
    exact from_nil_mono t f (d + 1) (by omega) he

theorem rel_move (ts : List Term) (f g : Nat) (hfg : f ≤ g) (cs : List Cur) (hr : Rel ts f cs) :
    Rel ts g ((cs.map fun c =>
      if c.doc < g then (if false then c.skipToBlock g else c).advanceTo g else c).filter notDone) := by
  unfold Rel
  rw [map_key_step _ (kgMove g) (key_move g), hr]
  apply cursAt_step
  · intro t _ _
    unfold kgMove
    simp only
    rw [from_from t f g hfg]
  · intro t _ he
    exact from_nil_mono t f g hfg he

end SL.TK
