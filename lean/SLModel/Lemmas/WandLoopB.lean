import SLModel.Lemmas.WandLoop
/-!
# Lemmas/WandLoopB — the repaired cursor loop (term-wide pivot bounds, block-max check at the
candidate, no pruning under a score hook) refines the decision rule `pruneRule`

Adds to `Lemmas/WandLoop`: the cursor index invariant (`idx + |rest| = |posts|`), the net effect
of `skip_to_block` under well-formed block metadata, `blockAcc = blockSum` at the candidate, and
the refinement theorem `loop_eq_pruneRule` for both strategies and both hook settings.
-/
set_option linter.unusedSimpArgs false
namespace SL.TK

/-! ## pointwise key step -/

theorem map_key_step' (g : Cur → Cur) (kg : Key → Key) :
    ∀ (cs : List Cur), (∀ c ∈ cs, key (g c) = kg (key c)) →
    ((cs.map g).filter notDone).map key = ((cs.map key).map kg).filter nonEmpty := by
  intro cs
  induction cs with
  | nil => intro _; rfl
  | cons c r ih =>
    intro hg
    have hc := hg c (by simp)
    have ihr := ih (fun x hx => hg x (by simp [hx]))
    simp only [List.map_cons, List.filter_cons, notDone_eq, hc]
    split <;> simp [ihr, hc]

/-! ## the cursor index -/

def IdxLen (c : Cur) : Prop := c.idx + c.rest.length = c.t.posts.length

theorem idxLen_init (t : Term) : IdxLen (Cur.init t) := by simp [IdxLen, Cur.init]

theorem idxLen_advance (c : Cur) (h : IdxLen c) (hne : c.rest ≠ []) : IdxLen c.advance := by
  unfold IdxLen Cur.advance at *
  cases hr : c.rest with
  | nil => exact absurd hr hne
  | cons a as => simp [hr] at h ⊢; omega

theorem idxLen_advanceTo (c : Cur) (g : Nat) (h : IdxLen c) : IdxLen (c.advanceTo g) := by
  unfold IdxLen Cur.advanceTo at *
  have := dw_length_le g c.rest
  simp only
  omega

theorem idxLen_skipToBlock (c : Cur) (g : Nat) (h : IdxLen c) : IdxLen (c.skipToBlock g) := by
  unfold Cur.skipToBlock
  simp only
  split
  · unfold IdxLen
    simp only [List.length_drop]
    omega
  · exact h

/-! ## `skip_to_block` -/

theorem dw_drop_of_all {α : Type} (p : α → Bool) (dflt : α) : ∀ (m : Nat) (l : List α),
    (∀ n, n < m → n < l.length → p (l.getD n dflt) = true) →
    (l.drop m).dropWhile p = l.dropWhile p := by
  intro m
  induction m with
  | zero => intro l _; rfl
  | succ m ih =>
    intro l h
    cases l with
    | nil => rfl
    | cons a as =>
      have ha : p a = true := by
        have := h 0 (by omega) (by simp)
        simpa using this
      simp only [List.drop_succ_cons, List.dropWhile_cons, ha, if_true]
      apply ih
      intro n hn hl
      have := h (n + 1) (by omega) (by simp; omega)
      simpa using this

theorem takeWhile_getD (p : Nat → Bool) : ∀ (l : List Nat) (j : Nat),
    j < (l.takeWhile p).length → p (l.getD j 0) = true := by
  intro l
  induction l with
  | nil => intro j h; simp at h
  | cons a as ih =>
    intro j h
    by_cases ha : p a = true
    · simp only [List.takeWhile_cons, ha, if_true, List.length_cons] at h
      cases j with
      | zero => simpa using ha
      | succ j => simpa using ih j (by omega)
    · simp [List.takeWhile_cons, ha] at h

theorem blocksOkFrom_spec (t : Term) : ∀ (l : Posts) (i0 : Nat), blocksOkFrom t i0 l = true →
    ∀ n, n < l.length → (l.getD n (0, 0)).1 ≤ t.blockMaxDoc.getD ((i0 + n) / t.bs) 0 := by
  intro l
  induction l with
  | nil => intro _ _ n hn; simp at hn
  | cons a as ih =>
    intro i0 h n hn
    simp only [blocksOkFrom, Bool.and_eq_true, decide_eq_true_eq] at h
    cases n with
    | zero => simpa using h.1
    | succ n =>
      have := ih (i0 + 1) h.2 n (by simpa using hn)
      have he : i0 + 1 + n = i0 + (n + 1) := by omega
      rw [he] at this
      simpa using this

/-- net effect of `skip_to_block(pd)` followed by `advance_to(pd)` on a cursor whose postings
from the cursor on are "all postings with `doc ≥ f`", `f ≤ pd`: the same as `advance_to(pd)` -/
theorem skip_then_advance_rest (c : Cur) (f pd : Nat) (hfp : f ≤ pd)
    (hr : c.rest = c.t.from f) (hb : c.t.blocksOk = true) :
    ((c.skipToBlock pd).advanceTo pd).rest = c.t.from pd := by
  have hfrom : c.rest.dropWhile (fun p => decide (p.1 < pd)) = c.t.from pd := by
    rw [hr]; exact from_from c.t f pd hfp
  unfold Cur.skipToBlock
  simp only
  split
  · rename_i hgt
    simp only [Cur.advanceTo]
    unfold Term.blocksOk at hb
    simp only [Bool.and_eq_true, decide_eq_true_eq] at hb
    have hspec := blocksOkFrom_spec c.t c.t.posts 0 hb.2
    unfold Term.from
    apply dw_drop_of_all _ (0, 0)
    intro n hn hl
    simp only [decide_eq_true_eq]
    have h1 := hspec n hl
    simp only [Nat.zero_add] at h1
    have hn' : n < (c.t.blockMaxDoc.takeWhile (fun d => decide (d < pd))).length * c.t.bs := by
      have := Nat.min_le_left ((c.t.blockMaxDoc.takeWhile (fun d => decide (d < pd))).length * c.t.bs)
        c.t.posts.length
      omega
    have hj : n / c.t.bs < (c.t.blockMaxDoc.takeWhile (fun d => decide (d < pd))).length :=
      Nat.div_lt_of_lt_mul (by rw [Nat.mul_comm]; exact hn')
    have h2 := takeWhile_getD (fun d => decide (d < pd)) c.t.blockMaxDoc _ hj
    simp only [decide_eq_true_eq] at h2
    omega
  · simp only [Cur.advanceTo]
    exact hfrom

/-! ## `block_acc` at the candidate is `blockSum` -/

theorem indexOf_go_none (d : Nat) : ∀ (l : Posts) (i : Nat), (∀ p ∈ l, p.1 ≠ d) →
    Term.indexOf.go d l i = none := by
  intro l
  induction l with
  | nil => intro i _; rfl
  | cons a as ih =>
    intro i h
    have ha : (a.1 == d) = false := by simpa using h a (by simp)
    simp only [Term.indexOf.go, ha]
    exact ih (i + 1) (fun p hp => h p (by simp [hp]))

theorem indexOf_go_split (d : Nat) (a : Nat × Nat) (as : Posts) (ha : a.1 = d) :
    ∀ (pre : Posts) (i : Nat), (∀ p ∈ pre, p.1 ≠ d) →
    Term.indexOf.go d (pre ++ a :: as) i = some (i + pre.length) := by
  intro pre
  induction pre with
  | nil => intro i _; simp [Term.indexOf.go, ha]
  | cons b bs ih =>
    intro i h
    have hb : (b.1 == d) = false := by simpa using h b (by simp)
    simp only [List.cons_append, Term.indexOf.go, hb]
    rw [ih (i + 1) (fun p hp => h p (by simp [hp]))]
    simp; omega

theorem mem_tw_lt (f : Nat) : ∀ (l : Posts) (p : Nat × Nat),
    p ∈ l.takeWhile (fun p => decide (p.1 < f)) → p.1 < f := by
  intro l
  induction l with
  | nil => intro p hp; simp at hp
  | cons a as ih =>
    intro p hp
    by_cases ha : a.1 < f
    · simp only [List.takeWhile_cons, ha, decide_true, if_true] at hp
      rcases List.mem_cons.mp hp with rfl | hp
      · exact ha
      · exact ih p hp
    · simp [List.takeWhile_cons, ha] at hp

/-- block bound of a term at document `d`, read off the cursor state -/
theorem blockBoundOf_of_from (t : Term) (hV : docsInc t.posts) (f d : Nat) (hfd : f ≤ d) :
    (t.from f = [] → t.blockBoundOf d = 0) ∧
    (∀ a as, t.from f = a :: as → d ≤ a.1 →
      t.blockBoundOf d =
        if a.1 == d then t.blockUb.getD ((t.posts.length - (a :: as).length) / t.bs) 0 else 0) := by
  have hsplit : t.posts.takeWhile (fun p => decide (p.1 < f)) ++ t.from f = t.posts :=
    List.takeWhile_append_dropWhile
  have hpre : ∀ p ∈ t.posts.takeWhile (fun p => decide (p.1 < f)), p.1 ≠ d := by
    intro p hp
    have := mem_tw_lt f t.posts p hp
    omega
  constructor
  · intro he
    unfold Term.blockBoundOf Term.indexOf
    rw [indexOf_go_none d t.posts 0]
    intro p hp
    rw [← hsplit, he, List.append_nil] at hp
    exact hpre p hp
  · intro a as he hda
    unfold Term.blockBoundOf Term.indexOf
    by_cases had : a.1 = d
    · have hgo := indexOf_go_split d a as had _ 0 hpre
      rw [he] at hsplit
      rw [hsplit] at hgo
      rw [hgo]
      have hlen : (t.posts.takeWhile (fun p => decide (p.1 < f))).length =
          t.posts.length - (a :: as).length := by
        have := congrArg List.length hsplit
        simp only [List.length_append] at this
        omega
      simp [had, hlen]
    · have hne : (a.1 == d) = false := by simpa using had
      rw [indexOf_go_none d t.posts 0]
      · simp [hne]
      · intro p hp
        rw [← hsplit] at hp
        rcases List.mem_append.mp hp with hp | hp
        · exact hpre p hp
        · have hinc : docsInc (t.from f) := dw_inc f _ hV
          rw [he] at hinc hp
          unfold docsInc at hinc
          rw [List.pairwise_cons] at hinc
          rcases List.mem_cons.mp hp with rfl | hp
          · exact had
          · have := hinc.1 p hp; omega

theorem blockAcc_eq_blockSum (f d : Nat) (hfd : f ≤ d) : ∀ (ts : List Term) (cs : List Cur),
    (∀ t ∈ ts, docsInc t.posts) → Rel ts f cs → (∀ c ∈ cs, IdxLen c) → (∀ c ∈ cs, d ≤ c.doc) →
    blockAcc cs d = blockSum ts d := by
  intro ts
  induction ts with
  | nil =>
    intro cs _ hr _ _
    unfold Rel at hr
    have : cs = [] := by
      cases cs with
      | nil => rfl
      | cons c r => simp [cursAt] at hr
    subst this; rfl
  | cons t r ih =>
    intro cs hV hr hi hmin
    unfold Rel at hr
    rw [cursAt_cons] at hr
    obtain ⟨h0, h1⟩ := blockBoundOf_of_from t (hV t (by simp)) f d hfd
    unfold blockSum
    by_cases he : t.from f = []
    · have hne : nonEmpty (t, t.from f) = false := by simp [nonEmpty, he]
      simp only [hne] at hr
      rw [h0 he, Nat.zero_add]
      exact ih cs (fun u hu => hV u (by simp [hu])) hr hi hmin
    · have hne : nonEmpty (t, t.from f) = true := by simp [nonEmpty]; exact he
      simp only [hne, if_true] at hr
      cases cs with
      | nil => simp at hr
      | cons c cs' =>
        simp only [List.map_cons, List.cons.injEq] at hr
        obtain ⟨hk, hr'⟩ := hr
        have hct : c.t = t := by simpa [key] using congrArg Prod.fst hk
        have hcr : c.rest = t.from f := by simpa [key] using congrArg Prod.snd hk
        have ihr := ih cs' (fun u hu => hV u (by simp [hu])) hr'
          (fun x hx => hi x (by simp [hx])) (fun x hx => hmin x (by simp [hx]))
        unfold blockAcc
        rw [ihr]
        congr 1
        cases hf : t.from f with
        | nil => exact absurd hf he
        | cons a as =>
          have hdoc : c.doc = a.1 := by simp [Cur.doc, hcr, hf]
          have hda : d ≤ a.1 := by rw [← hdoc]; exact hmin c (by simp)
          rw [h1 a as hf hda, hdoc]
          have hidx : c.idx = t.posts.length - (a :: as).length := by
            have := hi c (by simp)
            unfold IdxLen at this
            rw [hcr, hf, hct] at this
            omega
          simp [Cur.bound, hct, hidx]

/-! ## unfolding one step -/

theorem step_nil (k : Nat) (blk hook : Bool) (sc : Nat → Option Nat) (cs : List Cur) (H : List Hit)
    (hq : sortCurs cs = []) : step k blk hook sc ⟨cs, H⟩ = none := by
  simp only [step, hq]

theorem step_none (k : Nat) (blk hook : Bool) (sc : Nat → Option Nat) (cs : List Cur)
    (H : List Hit) (c0 : Cur) (rest : List Cur) (hq : sortCurs cs = c0 :: rest)
    (hp : findPivot (pivotTheta k hook H) 0 (c0 :: rest) = none) :
    step k blk hook sc ⟨cs, H⟩ = none := by
  simp only [step, hq, hp]

theorem step_some (k : Nat) (blk hook : Bool) (sc : Nat → Option Nat) (cs : List Cur)
    (H : List Hit) (c0 : Cur) (rest : List Cur) (p : Nat) (hq : sortCurs cs = c0 :: rest)
    (hp : findPivot (pivotTheta k hook H) 0 (c0 :: rest) = some p) :
    step k blk hook sc ⟨cs, H⟩ =
      if ((c0 :: rest).getD p c0).doc == c0.doc then
        (if blk && decide (blockAcc cs c0.doc < pivotTheta k hook H) then
          some ⟨(cs.map fun c => if c.doc == c0.doc then c.advance else c).filter notDone, H⟩
        else
          some ⟨(cs.map fun c => if c.doc == c0.doc then c.advance else c).filter notDone,
            match sc c0.doc with
            | some v => offer k H (v, c0.doc)
            | none => H⟩)
      else
        some ⟨(cs.map fun c =>
          if c.doc < ((c0 :: rest).getD p c0).doc then
            (if blk then c.skipToBlock ((c0 :: rest).getD p c0).doc else c).advanceTo
              ((c0 :: rest).getD p c0).doc
          else c).filter notDone, H⟩ := by
  simp only [step, hq, hp]
  try rfl

/-- the skip branch keeps "all postings from the front on" for both strategies -/
theorem rel_move_blk (ts : List Term) (blk : Bool)
    (hB : blk = true → ∀ t ∈ ts, t.blocksOk = true) (f g : Nat) (hfg : f ≤ g) (cs : List Cur)
    (hr : Rel ts f cs) :
    Rel ts g ((cs.map fun c =>
      if c.doc < g then (if blk then c.skipToBlock g else c).advanceTo g else c).filter notDone) := by
  unfold Rel
  rw [map_key_step' _ (kgMove g) cs, hr]
  · apply cursAt_step
    · intro t _ _
      unfold kgMove
      simp only
      rw [from_from t f g hfg]
    · intro t _ he
      exact from_nil_mono t f g hfg he
  · intro c hc
    cases blk with
    | false => exact key_move g c
    | true =>
      obtain ⟨ht, hrest, _⟩ := rel_mem ts f cs hr c hc
      unfold kgMove
      simp only [if_true]
      split
      · have h1 := skip_then_advance_rest c f g hfg hrest (hB rfl c.t ht)
        have h2 : ((c.skipToBlock g).advanceTo g).t = c.t := by
          unfold Cur.skipToBlock Cur.advanceTo
          simp only
          split <;> rfl
        simp only [key, h1, h2, hrest, from_from c.t f g hfg]
      · rename_i hge
        simp only [key]
        cases hcr : c.rest with
        | nil => rfl
        | cons a as =>
          have : c.doc = a.1 := by simp [Cur.doc, hcr]
          rw [dw_id_of_head_ge g a as (by omega)]

/-! ## the refinement -/

theorem loop_eq_pruneRule (k : Nat) (blk hook : Bool) (sc : Nat → Option Nat) (ts : List Term)
    (hV : ∀ t ∈ ts, docsInc t.posts) (hBk : blk = true → ∀ t ∈ ts, t.blocksOk = true) :
    ∀ (n f : Nat) (cs : List Cur) (H : List Hit) (suf : List Nat),
      Rel ts f cs → (∀ c ∈ cs, IdxLen c) → M ts f < n →
      suf.Pairwise (· < ·) → (∀ d ∈ suf, f ≤ d) →
      (∀ d ∈ suf, ∃ t ∈ ts, t.has d = true) →
      (∀ t ∈ ts, ∀ p ∈ t.posts, f ≤ p.1 → p.1 ∈ suf) →
      loop k blk hook sc n ⟨cs, H⟩ =
        runDocsO k sc (pruneSkip k blk hook (ubsum ts) (blockSum ts)) H suf := by
  intro n
  induction n with
  | zero => intro f cs H suf _ _ hM; omega
  | succ n ih =>
    intro f cs H suf hr hidx hM hsuf hge hex hmem
    have hperm := sortCurs_perm cs
    have hsorted := sortCurs_sorted cs
    unfold loop
    cases hq : sortCurs cs with
    | nil =>
      have hcs : cs = [] := by
        rw [hq] at hperm; exact hperm.symm.eq_nil
      have hnil : cursAt ts f = [] := by rw [← hr, hcs]; rfl
      have hall := M_zero_of_nil ts f hnil
      have hsufnil : suf = [] := by
        cases suf with
        | nil => rfl
        | cons d ds =>
          obtain ⟨t, ht, hhas⟩ := hex d (by simp)
          rw [has_iff_from t f d (hge d (by simp)), hall t ht] at hhas
          simp at hhas
      rw [step_nil k blk hook sc cs H hq, hsufnil]
      rfl
    | cons c0 rest =>
      rw [hq] at hperm hsorted
      -- every cursor of the queue
      have hcur : ∀ c ∈ c0 :: rest, c.t ∈ ts ∧ c.rest = c.t.from f ∧ c.rest ≠ [] ∧ docsInc c.rest := by
        intro c hc
        have hc' : c ∈ cs := hperm.mem_iff.mp hc
        obtain ⟨h1, h2, h3⟩ := rel_mem ts f cs hr c hc'
        refine ⟨h1, h2, h3, ?_⟩
        rw [h2]; exact dw_inc f _ (hV _ h1)
      have hmin : ∀ c ∈ c0 :: rest, c0.doc ≤ c.doc := by
        intro c hc
        unfold SortedD at hsorted
        rw [List.pairwise_cons] at hsorted
        rcases List.mem_cons.mp hc with rfl | hc
        · exact Nat.le_refl _
        · exact hsorted.1 c hc
      have hub : ∀ d, f ≤ d → ubsum ts d = ubC (c0 :: rest) d := by
        intro d hd
        rw [ubsum_eq_ubC ts f d hd cs hr]
        exact (ubC_perm hperm d).symm
      -- the smallest current document is a candidate, and no candidate is smaller
      have hc0 := hcur c0 (by simp)
      have hfd0 : f ≤ c0.doc := by
        have h1 := hc0.1; have h2 := hc0.2.1; have h3 := hc0.2.2.1
        cases hr0 : c0.rest with
        | nil => exact absurd hr0 h3
        | cons a as =>
          have : a ∈ c0.t.posts.dropWhile (fun p => decide (p.1 < f)) := by
            have : a ∈ c0.rest := by rw [hr0]; simp
            rw [h2] at this; exact this
          have hge' := dw_ge_of_inc f c0.t.posts (hV _ h1) a this
          simp [Cur.doc, hr0]; exact hge'
      have hc0suf : c0.doc ∈ suf := by
        have h1 := hc0.1; have h2 := hc0.2.1; have h3 := hc0.2.2.1
        cases hr0 : c0.rest with
        | nil => exact absurd hr0 h3
        | cons a as =>
          have hmem' : a ∈ c0.t.posts := by
            apply mem_of_mem_dw f
            have : a ∈ c0.rest := by rw [hr0]; simp
            rw [h2] at this; exact this
          have hd : c0.doc = a.1 := by simp [Cur.doc, hr0]
          rw [hd]
          exact hmem c0.t h1 a hmem' (by rw [← hd]; exact hfd0)
      have hsufmin : ∀ d ∈ suf, c0.doc ≤ d := by
        intro d hd
        obtain ⟨t, ht, hhas⟩ := hex d hd
        have hfd := hge d hd
        rw [has_iff_from t f d hfd] at hhas
        have hne : t.from f ≠ [] := by
          intro he; rw [he] at hhas; simp at hhas
        obtain ⟨c, hc, hct, hcr⟩ := rel_exists ts f cs hr t ht hne
        have hcq : c ∈ c0 :: rest := hperm.mem_iff.mpr hc
        have h1 := hmin c hcq
        have h2 : c.doc ≤ d := by
          rw [doc_eq_headDoc, hcr]
          exact headDoc_le_of_any _ (dw_inc f _ (hV t ht)) d hhas
        omega
      cases hp : findPivot (pivotTheta k hook H) 0 (c0 :: rest) with
      | none =>
        rw [step_none k blk hook sc cs H c0 rest hq hp]
        have hW := findPivot_none (pivotTheta k hook H) (c0 :: rest) 0 (by simp) hp
        symm
        apply runDocsO_skip_all
        intro d hd
        have := ubC_le_W (c0 :: rest) d
        rw [← hub d (hge d hd)] at this
        have : ubsum ts d < pivotTheta k hook H := by omega
        simp [pruneSkip, this]
      | some p =>
        obtain ⟨hplen, hlow, hhigh⟩ := findPivot_some (pivotTheta k hook H) (c0 :: rest) 0 p hp
        rw [step_some k blk hook sc cs H c0 rest p hq hp]
        have hgetD : (c0 :: rest).getD p c0 = (c0 :: rest)[p] := by
          rw [List.getD_eq_getElem?_getD, List.getElem?_eq_getElem hplen]; rfl
        rw [hgetD]
        generalize hqp : (c0 :: rest)[p] = qp
        have hqpmem : qp ∈ c0 :: rest := by rw [← hqp]; exact List.getElem_mem hplen
        -- split the queue at the pivot
        have hdrop : (c0 :: rest).drop p = qp :: (c0 :: rest).drop (p + 1) := by
          rw [List.drop_eq_getElem_cons hplen, hqp]
        have hsplit : c0 :: rest = (c0 :: rest).take p ++ qp :: (c0 :: rest).drop (p + 1) := by
          rw [← hdrop, List.take_append_drop]
        have hpw := hsorted
        unfold SortedD at hpw
        rw [hsplit, List.pairwise_append, List.pairwise_cons] at hpw
        obtain ⟨_, ⟨hB, _⟩, hA⟩ := hpw
        have hA' : ∀ a ∈ (c0 :: rest).take p, a.doc ≤ qp.doc := fun a ha => hA a ha qp (by simp)
        by_cases hpd : (qp.doc == c0.doc) = true
        · -- the pivot is at the smallest document: score it
          simp only [hpd, if_true]
          have hpd' : qp.doc = c0.doc := by simpa using hpd
          -- all cursors up to the pivot are at that document
          have htake : ∀ c ∈ (c0 :: rest).take (p + 1), c.rest.any (fun x => x.1 == c0.doc) = true := by
            intro c hc
            rw [List.take_succ_eq_append_getElem hplen, hqp] at hc
            have hcq : c ∈ c0 :: rest := by
              rcases List.mem_append.mp hc with h | h
              · exact List.mem_of_mem_take h
              · simp at h; rw [h]; exact hqpmem
            have hle : c.doc ≤ c0.doc := by
              rcases List.mem_append.mp hc with h | h
              · have := hA' c h; omega
              · simp at h; rw [h]; omega
            have hge' := hmin c hcq
            have heq : c0.doc = headDoc c.rest := by rw [← doc_eq_headDoc]; omega
            rw [heq]
            exact any_of_headDoc c.rest (hcur c hcq).2.2.1
          have hnoskip : ¬ ubsum ts c0.doc < pivotTheta k hook H := by
            rw [hub c0.doc hfd0]
            have h1 := ubC_all _ c0.doc htake
            have h2 : ubC (c0 :: rest) c0.doc =
                ubC ((c0 :: rest).take (p + 1)) c0.doc + ubC ((c0 :: rest).drop (p + 1)) c0.doc := by
              rw [← ubC_append, List.take_append_drop]
            omega
          -- shape of the remaining candidates
          cases suf with
          | nil => simp at hc0suf
          | cons d0 suf' =>
            rw [List.pairwise_cons] at hsuf
            have hd0 : d0 = c0.doc := by
              have h1 := hsufmin d0 (by simp)
              rcases List.mem_cons.mp hc0suf with h | h
              · exact h.symm
              · have := hsuf.1 _ h; omega
            subst hd0
            have hrel' := rel_adv ts hV f c0.doc hfd0
              (by
                intro t ht a as he
                obtain ⟨c, hc, _, hcr⟩ := rel_exists ts f cs hr t ht (by rw [he]; simp)
                have hcq : c ∈ c0 :: rest := hperm.mem_iff.mpr hc
                have := hmin c hcq
                rw [doc_eq_headDoc c, hcr, he] at this
                simpa [headDoc] using this) cs hr
            have hM' : M ts (c0.doc + 1) < n := by
              have : M ts (c0.doc + 1) < M ts f := by
                apply M_lt f (c0.doc + 1) (by omega)
                have h1 := hc0.1; have h2 := hc0.2.1; have h3 := hc0.2.2.1
                cases hr0 : c0.rest with
                | nil => exact absurd hr0 h3
                | cons a as =>
                  refine ⟨c0.t, h1, a, as, by rw [← h2, hr0], ?_⟩
                  simp [Cur.doc, hr0]
              omega
            have hidx' : ∀ c ∈ (cs.map fun c => if c.doc == c0.doc then c.advance else c).filter notDone,
                IdxLen c := by
              intro c hc
              obtain ⟨x, hx, rfl⟩ := List.mem_map.mp (List.mem_filter.mp hc).1
              split
              · exact idxLen_advance x (hidx x hx) (rel_mem ts f cs hr x hx).2.2
              · exact hidx x hx
            have hIH := fun H' => ih (c0.doc + 1) _ H' suf' hrel' hidx' hM' hsuf.2
              (by intro d hd; have := hsuf.1 d hd; omega)
              (by intro d hd; exact hex d (by simp [hd]))
              (by
                intro t ht x hx hxge
                have := hmem t ht x hx (by omega)
                rcases List.mem_cons.mp this with h | h
                · omega
                · exact h)
            have hbs : blockAcc cs c0.doc = blockSum ts c0.doc :=
              blockAcc_eq_blockSum f c0.doc hfd0 ts cs hV hr hidx
                (fun c hc => hmin c (hperm.mem_iff.mpr hc))
            by_cases hblk : (blk && decide (blockAcc cs c0.doc < pivotTheta k hook H)) = true
            · -- bmw: the block maxima of the cursors on the candidate stay below the threshold
              simp only [hblk, if_true]
              have hskip : pruneSkip k blk hook (ubsum ts) (blockSum ts) H c0.doc = true := by
                rw [hbs] at hblk
                simp only [Bool.and_eq_true] at hblk
                simp [pruneSkip, hblk.1, hblk.2]
              simp only [runDocsO, hskip, if_true]
              exact hIH H
            · simp only [hblk]
              have hskip : pruneSkip k blk hook (ubsum ts) (blockSum ts) H c0.doc = false := by
                rw [hbs] at hblk
                have h1 : decide (ubsum ts c0.doc < pivotTheta k hook H) = false := by
                  simpa using hnoskip
                have h2 : (blk && decide (blockSum ts c0.doc < pivotTheta k hook H)) = false := by
                  simpa using hblk
                simp only [pruneSkip, h1, Bool.false_or]
                exact h2
              simp only [runDocsO, hskip]
              cases hsc : sc c0.doc with
              | none => simp only []; exact hIH H
              | some v => simp only []; exact hIH _
        · -- the pivot is further on: skip
          have hpdne : qp.doc ≠ c0.doc := by simpa using hpd
          simp only [hpd, if_false]
          have hgt : c0.doc < qp.doc := by have := hmin qp hqpmem; omega
          have hp0 : 0 < p := by
            cases p with
            | zero => simp at hqp; rw [hqp] at hpdne; exact absurd rfl hpdne
            | succ _ => omega
          have hlow' := hlow hp0
          -- candidates below the pivot document are skipped by the rule
          have hskip : ∀ d ∈ suf.takeWhile (fun d => decide (d < qp.doc)),
              pruneSkip k blk hook (ubsum ts) (blockSum ts) H d = true := by
            intro d hd
            obtain ⟨hdlt, hdsuf⟩ := nat_mem_tw qp.doc suf d hd
            have hfd := hge d hdsuf
            suffices ubsum ts d < pivotTheta k hook H by simp [pruneSkip, this]
            rw [hub d hfd]
            have h2 : ubC (c0 :: rest) d =
                ubC ((c0 :: rest).take p) d + ubC ((c0 :: rest).drop p) d := by
              rw [← ubC_append, List.take_append_drop]
            have h3 : ubC ((c0 :: rest).drop p) d = 0 := by
              apply ubC_zero
              intro c hc
              have hcq : c ∈ c0 :: rest := List.mem_of_mem_drop hc
              have hcd : qp.doc ≤ c.doc := by
                rw [hdrop] at hc
                rcases List.mem_cons.mp hc with h | h
                · rw [h]; exact Nat.le_refl _
                · exact hB c h
              apply any_false_of_lt c.rest (hcur c hcq).2.2.2 d
              rw [← doc_eq_headDoc]; omega
            have h4 := ubC_le_W ((c0 :: rest).take p) d
            omega
          rw [← List.takeWhile_append_dropWhile (p := fun d => decide (d < qp.doc)) (l := suf),
            runDocsO_skip_prefix k sc _ H _ _ hskip]
          have hrel' := rel_move_blk ts blk hBk f qp.doc (by omega) cs hr
          have hM' : M ts qp.doc < n := by
            have : M ts qp.doc < M ts f := by
              apply M_lt f qp.doc (by omega)
              have h1 := hc0.1; have h2 := hc0.2.1; have h3 := hc0.2.2.1
              cases hr0 : c0.rest with
              | nil => exact absurd hr0 h3
              | cons a as =>
                refine ⟨c0.t, h1, a, as, by rw [← h2, hr0], ?_⟩
                have : c0.doc = a.1 := by simp [Cur.doc, hr0]
                omega
            omega
          have hidx' : ∀ c ∈ (cs.map fun c =>
              if c.doc < qp.doc then (if blk then c.skipToBlock qp.doc else c).advanceTo qp.doc
              else c).filter notDone, IdxLen c := by
            intro c hc
            obtain ⟨x, hx, rfl⟩ := List.mem_map.mp (List.mem_filter.mp hc).1
            split
            · apply idxLen_advanceTo
              split
              · exact idxLen_skipToBlock x _ (hidx x hx)
              · exact hidx x hx
            · exact hidx x hx
          exact ih qp.doc _ H _ hrel' hidx' hM'
            (List.Pairwise.sublist (List.dropWhile_sublist _) hsuf)
            (nat_dw_ge qp.doc suf hsuf)
            (by intro d hd; exact hex d ((List.dropWhile_sublist _).subset hd))
            (by
              intro t ht x hx hxge
              exact nat_mem_dw qp.doc suf x.1 (hmem t ht x hx (by omega)) hxge)

/-! ## from the executable well-formedness check to the hypotheses -/

theorem incr_pairwise : ∀ l : List Nat, incr l = true → l.Pairwise (· < ·) := by
  intro l
  induction l with
  | nil => intro _; exact List.Pairwise.nil
  | cons a as ih =>
    intro h
    cases as with
    | nil => simp
    | cons b r =>
      simp only [incr, Bool.and_eq_true, decide_eq_true_eq] at h
      have hr := ih h.2
      rw [List.pairwise_cons] at hr ⊢
      refine ⟨?_, List.pairwise_cons.mpr hr⟩
      intro x hx
      rcases List.mem_cons.mp hx with rfl | hx
      · exact h.1
      · have := hr.1 x hx; omega

theorem from_zero (t : Term) : t.from 0 = t.posts := by
  unfold Term.from
  cases t.posts with
  | nil => rfl
  | cons a as => simp [List.dropWhile_cons]

theorem rel_init (ts : List Term) : Rel ts 0 (initSt ts).cs := by
  unfold Rel initSt cursAt
  induction ts with
  | nil => rfl
  | cons t r ih =>
    simp only [List.map_cons, List.filter_cons, from_zero] at ih ⊢
    have : notDone (Cur.init t) = nonEmpty (t, t.posts) := rfl
    rw [this]
    split
    · simp only [List.map_cons]
      rw [ih]
      rfl
    · exact ih

theorem M_zero_eq (ts : List Term) : M ts 0 = sumLens ts := by
  induction ts with
  | nil => rfl
  | cons t r ih =>
    simp only [M, List.map_cons, List.sum_cons, sumLens, from_zero] at ih ⊢
    omega

/-- **The repaired cursor loop computes the decision rule `pruneRule`** — for `wand`
(`blk = false`) and `bmw` (`blk = true`, block metadata well formed), with and without a score
hook. -/
theorem wandLoop_eq_pruneRule (k : Nat) (blk : Bool) (s : SegIn) (hwf : s.wf = true)
    (hb : blk = true → s.terms.all Term.blocksOk = true) :
    wandLoop k blk s.hook s.sc s.terms =
      pruneRule k blk s.hook s.sc (ubsum s.terms) (blockSum s.terms) s.docs := by
  unfold SegIn.wf at hwf
  simp only [Bool.and_eq_true] at hwf
  obtain ⟨⟨⟨h1, h2⟩, h3⟩, h4⟩ := hwf
  rw [List.all_eq_true] at h2 h3 h4
  unfold wandLoop pruneRule
  have hst : initSt s.terms = ⟨(initSt s.terms).cs, []⟩ := rfl
  rw [hst]
  apply loop_eq_pruneRule k blk s.hook s.sc s.terms
  · intro t ht
    have := incr_pairwise _ (h2 t ht)
    unfold docsInc
    exact List.pairwise_map.mp this
  · intro hblk t ht
    exact (List.all_eq_true.mp (hb hblk)) t ht
  · exact rel_init s.terms
  · intro c hc
    unfold initSt at hc
    obtain ⟨t, _, rfl⟩ := List.mem_map.mp (List.mem_filter.mp hc).1
    exact idxLen_init t
  · rw [M_zero_eq]; omega
  · exact incr_pairwise _ h1
  · intro d _; omega
  · intro d hd
    have := h3 d hd
    rw [List.any_eq_true] at this
    exact this
  · intro t ht p hp _
    have := h4 t ht
    rw [List.all_eq_true] at this
    have := this p hp
    simpa using this

end SL.TK
