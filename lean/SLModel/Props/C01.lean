import SLModel.Core.Fs
/-!
# C01 — commits are atomic and durable across crashes

`inv_crash_atomic` (in `Core/Fs`) is the core: in any file-system state satisfying the
publication invariant, *every* crash image the adversary of DESIGN §3.4 can produce (any subset
of unsynced directory entries, any prefix of unsynced writes, a write torn at any byte)
recovers the complete contents of one of the allowed manifests.  Here it is lifted to the
executable monitor that the driver evaluates on storage traces recorded from the real code,
and to whole histories.  The obligation is on *states*, not on a fixed step order.
-/
namespace SL.Fs

/-- the executable monitor is sufficient: every crash image of a state passing it recovers an
allowed manifest, completely -/
theorem monitor_crash_atomic {fs : Fs} {allowed : List Manifest} {reg : Nat → Option Manifest}
    {img : Image} (hreg : ∀ m ∈ allowed, reg m.chunk = some m)
    (hmon : publishInvB fs allowed = true) (hi : CrashImage fs img) :
    ∃ m ∈ allowed, recover reg img = some m.contents :=
  inv_crash_atomic hreg (publishInvB_sound hmon) hi

/-- a commit that returned is never lost: once the state is settled on `m`, every crash image —
whatever happens to the log, to orphan files, to later unsynced work — recovers `m` -/
theorem settled_durable {fs : Fs} {m : Manifest} {reg : Nat → Option Manifest} {img : Image}
    (hreg : reg m.chunk = some m) (hs : settledB fs m = true) (hi : CrashImage fs img) :
    recover reg img = some m.contents := by
  simp only [settledB, Bool.and_eq_true] at hs
  obtain ⟨m', hm', hr⟩ := monitor_crash_atomic (allowed := [m]) (by simpa using hreg) hs.2 hi
  simp at hm'
  subst hm'
  exact hr

/-- the monitor over a whole recorded trace: the invariant holds in every prefix state, with
the set of manifests allowed at that point (`{pre, attempt}` inside a call, `{current}`
between calls) -/
def monitorOk (start : Nat) (ops : List FsOp) (allowedAt : Nat → List Manifest) : Bool :=
  (List.range (ops.length + 1)).all fun k =>
    decide (k < start) || publishInvB (runAll Fs.empty (ops.take k)) (allowedAt k)

/-- **C01 for a whole history**: if the monitor holds on the recorded trace, then a crash at
*any* storage-operation boundary `k` with *any* adversary choice leaves a directory that opens
and holds exactly the contents of a manifest allowed at `k` — the state before the call in
flight or that call's complete result, never a mixture. -/
theorem history_crash_atomic (reg : Nat → Option Manifest) (start : Nat) (ops : List FsOp)
    (allowedAt : Nat → List Manifest)
    (hreg : ∀ k, ∀ m ∈ allowedAt k, reg m.chunk = some m)
    (hmon : monitorOk start ops allowedAt = true) :
    ∀ k, start ≤ k → k ≤ ops.length → ∀ img, CrashImage (runAll Fs.empty (ops.take k)) img →
      ∃ m ∈ allowedAt k, recover reg img = some m.contents := by
  intro k hs hk img hi
  unfold monitorOk at hmon
  rw [List.all_eq_true] at hmon
  have := hmon k (by simp; omega)
  simp only [Bool.or_eq_true, decide_eq_true_eq] at this
  rcases this with h | h
  · omega
  · exact monitor_crash_atomic (hreg k) h hi

/-! ### why the order of directory syncs matters (explains a failing monitor) -/

/-- If the invariant holds and some value of the `MANIFEST` entry is an inode holding manifest
`m` — with the allowed manifests distinguishable by their chunk — then every file of `m` is
settled.  Contrapositive: publishing (renaming) a manifest while one of its files still has an
unsynced directory entry or unsynced data breaks the invariant in that very state. -/
theorem published_files_settled {fs : Fs} {allowed : List Manifest} {m : Manifest} {i : InodeId}
    (hinv : PublishInv fs allowed) (hi : some i ∈ fs.hist "MANIFEST")
    (hd : (fs.inode i).durable = [Piece.full m.chunk m.size]) (hm : m ∈ allowed)
    (huniq : ∀ m' ∈ allowed, m'.chunk = m.chunk → m' = m) :
    ∀ nc ∈ m.files, settledFile fs nc.1 nc.2 := by
  obtain ⟨_, m', hm', hd', hf⟩ := hinv (some i) hi
  have : m' = m := by
    apply huniq m' hm'
    rw [hd] at hd'
    simp [Piece.full] at hd'
    exact hd'.1.symm
  subst this
  exact hf

/-- a settled file has exactly one directory-entry value: an entry that is not yet synced
(history `[none, some j]`) is not settled -/
theorem unsynced_entry_not_settled {fs : Fs} {n : Name} {c : Content} {j : InodeId}
    (h : fs.hist n = [none, some j]) : ¬ settledFile fs n c := by
  rintro ⟨j', hj', _⟩
  rw [h] at hj'
  simp at hj'

/-! ### concrete witnesses

Names: `MANIFEST` is the manifest, `s` a segment file.  Chunks: 1 = bytes of the old manifest,
2 = bytes of `s`, 3 = bytes of the new manifest. -/

def mOld : Manifest := ⟨1, 10, [], 100⟩
def mNew : Manifest := ⟨3, 12, [("s", [Piece.full 2 5])], 101⟩

/-- index creation: the first manifest is written to a temporary name, synced, renamed, and
the directory is synced -/
def traceCreate : List FsOp :=
  [.create "T", .write "T" (Piece.full 1 10), .fsync "T", .rename "T" "MANIFEST", .fsyncDir]

/-- the original commit order: segment file written and fsynced, manifest written to the
temporary name, fsynced and **renamed before any directory fsync** -/
def traceCommitLegacy : List FsOp :=
  traceCreate ++ [.create "s", .write "s" (Piece.full 2 5), .fsync "s",
    .create "T", .write "T" (Piece.full 3 12), .fsync "T", .rename "T" "MANIFEST", .fsyncDir]

/-- the repaired order: one directory fsync before the rename -/
def traceCommitFixed : List FsOp :=
  traceCreate ++ [.create "s", .write "s" (Piece.full 2 5), .fsync "s",
    .create "T", .write "T" (Piece.full 3 12), .fsync "T", .fsyncDir, .rename "T" "MANIFEST", .fsyncDir]

/-- manifests allowed at trace position `k`: the old one until the new manifest's bytes are
complete on the temporary name, then both -/
def allowedAt (k : Nat) : List Manifest := if k ≤ 10 then [mOld] else [mOld, mNew]

/-- non-vacuity: the repaired order passes the monitor in every state after creation -/
theorem fixed_trace_passes : monitorOk 5 traceCommitFixed allowedAt = true := by decide

/-- and ends settled on the new manifest -/
theorem fixed_trace_settled : settledB (runAll Fs.empty traceCommitFixed) mNew = true := by decide

/-- negative witness (original order): right after the rename the invariant is false … -/
theorem legacy_trace_fails : monitorOk 5 traceCommitLegacy allowedAt = false := by decide

theorem lookup_none_of_not_mem {β : Type} (l : List (Name × β)) (n : Name)
    (h : n ∉ l.map (·.1)) : l.lookup n = none := by
  induction l with
  | nil => rfl
  | cons e es ih =>
    simp only [List.map_cons, List.mem_cons, not_or] at h
    have hne : (n == e.1) = false := by simpa using h.1
    simp only [List.lookup, hne]
    exact ih h.2

/-- … and the adversary has a crash image that keeps the new `MANIFEST` entry, drops the
unsynced entry of the segment file, and does not open -/
theorem legacy_bad_image :
    let fs := runAll Fs.empty (traceCommitLegacy.take 12)
    let img : Image := fun n => if n = "MANIFEST" then some [Piece.full 3 12] else none
    CrashImage fs img ∧
      recover (fun c => if c = 3 then some mNew else if c = 1 then some mOld else none) img = none := by
  refine ⟨?_, by decide⟩
  intro n
  by_cases h1 : n = "MANIFEST"
  · subst h1
    exact ⟨some 2, by decide, [Piece.full 3 12], ⟨0, by decide, Or.inl (by decide)⟩, by simp⟩
  · by_cases h2 : n = "s"
    · subst h2
      exact ⟨none, by decide, by simp⟩
    · by_cases h3 : n = "T"
      · subst h3
        exact ⟨none, by decide, by simp⟩
      · refine ⟨none, ?_, by simp [h1]⟩
        have hkeys : (runAll Fs.empty (traceCommitLegacy.take 12)).dir.map (·.1) = ["T", "MANIFEST", "s"] := by
          decide
        have : (runAll Fs.empty (traceCommitLegacy.take 12)).dir.lookup n = none :=
          lookup_none_of_not_mem _ _ (by rw [hkeys]; simp [h1, h2, h3])
        simp [Fs.hist, this]

end SL.Fs
