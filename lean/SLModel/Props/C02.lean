import SLModel.Core.Wal
import SLModel.Lemmas.Wal
/-!
# C02 — queued operations survive crashes exactly once

Byte level (`Lemmas/Wal`): `replay_frameAll`, `replay_torn` (re-exported below).
Crash level: a log that is *well formed* (durable bytes = framed records `ds`, unsynced
operations = appends of framed records `us`, optionally followed by one unsynced truncation to
a record boundary) recovers, after **any** crash content the file system may leave, exactly a
prefix of `ds ++ us` that contains all of `ds`; re-opening with the repaired `Wal::open`
(truncate to the valid prefix) restores well-formedness, so the statement holds after any
number of crashes (`reach_wf`, `recovered_queue_exact`).  The original `Wal::open` (append
after a torn tail) loses later acknowledged operations: `legacy_open_loses_ops`.
Contents level: re-applying a recovered queue on top of its own result changes nothing
(`reapply_idempotent`), so a crash between manifest publication and the commit marker is
harmless and a deleted document is never resurrected.
-/
namespace SL.Wal

/-! ### helper facts about framed logs -/

theorem frameAll_append (crc : Bytes → Bytes) (a b : List Rec) :
    frameAll crc (a ++ b) = frameAll crc a ++ frameAll crc b := by
  simp [frameAll]

theorem frameAll_take_prefix (crc : Bytes → Bytes) (rs : List Rec) (m : Nat) :
    (frameAll crc rs).take (frameAll crc (rs.take m)).length = frameAll crc (rs.take m) := by
  conv => lhs; arg 2; rw [← List.take_append_drop m rs, frameAll_append]
  rw [List.take_left]

theorem frameAll_take_length_le (crc : Bytes → Bytes) (rs : List Rec) (m : Nat) :
    (frameAll crc (rs.take m)).length ≤ (frameAll crc rs).length := by
  conv => rhs; rw [← List.take_append_drop m rs, frameAll_append]
  simp

def writesOf (crc : Bytes → Bytes) (us : List Rec) : List FOp := us.map (fun r => FOp.write (frame crc r))

theorem foldl_writes (crc : Bytes → Bytes) (us : List Rec) (d : Bytes) :
    (writesOf crc us).foldl applyF d = d ++ frameAll crc us := by
  induction us generalizing d with
  | nil => simp [writesOf, frameAll]
  | cons u us ih =>
    have := ih (d ++ frame crc u)
    simp only [writesOf, List.map_cons, List.foldl_cons, applyF] at this ⊢
    rw [this]; simp [frameAll]

/-! ### well-formed log states -/

/-- the optional in-flight truncation: `set_len` to the boundary after the first `m` records -/
def truncOp (crc : Bytes → Bytes) (all : List Rec) : Option Nat → List FOp
  | none => []
  | some m => [FOp.setLen (frameAll crc (all.take m)).length]

structure WFLog (crc : Bytes → Bytes) (l : Log) (ds us : List Rec) (tr : Option Nat) : Prop where
  dur : l.durable = frameAll crc ds
  pend : l.pending = writesOf crc us ++ truncOp crc (ds ++ us) tr
  wf : ∀ r ∈ ds ++ us, r.WF

theorem wf_take {ds us : List Rec} (h : ∀ r ∈ ds ++ us, r.WF) (i : Nat) :
    ∀ r ∈ (ds ++ us).take i, r.WF := fun r hr => h r (List.mem_of_mem_take hr)

/-- **Crash recovery is a prefix.**  Whatever the file system leaves of a well-formed log,
replay returns a prefix of the logical record list, and — unless a truncation was in flight —
that prefix contains every durable record. -/
theorem crash_replays_prefix (crc : Bytes → Bytes) (hc : CrcLen crc) (l : Log) (ds us : List Rec)
    (tr : Option Nat) (h : WFLog crc l ds us tr) (c : Bytes) (hcr : CrashContent l c) :
    ∃ i, (tr = none → ds.length ≤ i) ∧
      replay crc c = ((ds ++ us).take i, (frameAll crc ((ds ++ us).take i)).length) ∧
      (frameAll crc ((ds ++ us).take i)) <+: c := by
  obtain ⟨j, hj, hcase⟩ := hcr
  rw [h.pend] at hj hcase
  rw [h.dur] at hcase
  by_cases hju : j ≤ us.length
  · -- only appends have reached the disk
    have htake : (writesOf crc us ++ truncOp crc (ds ++ us) tr).take j = writesOf crc (us.take j) := by
      rw [List.take_append_of_le_length (by simpa [writesOf] using hju)]
      simp [writesOf, List.map_take]
    have hbase : ((writesOf crc us ++ truncOp crc (ds ++ us) tr).take j).foldl applyF (frameAll crc ds)
        = frameAll crc ((ds ++ us).take (ds.length + j)) := by
      have hl : (ds ++ us).take (ds.length + j) = ds ++ us.take j := by
        rw [List.take_append, List.take_of_length_le (Nat.le_add_right _ _)]
        simp
      rw [htake, foldl_writes, ← frameAll_append, hl]
    refine ⟨ds.length + j, fun _ => by omega, ?_⟩
    rcases hcase with hc1 | ⟨bs, k, hget, hk, hc2⟩
    · rw [hc1, hbase]
      exact ⟨replay_frameAll crc hc _ (wf_take h.wf _), List.prefix_refl _⟩
    · rw [hc2, hbase]
      -- the torn operation must be one of the appends
      have hjlt : j < us.length := by
        rcases Nat.lt_or_ge j us.length with h1 | h1
        · exact h1
        · have hje : j = us.length := by omega
          subst hje
          rw [List.getElem?_append_right (by simp [writesOf])] at hget
          cases tr <;> simp [truncOp, writesOf] at hget
      rw [List.getElem?_append_left (by simpa [writesOf] using hjlt)] at hget
      simp only [writesOf, List.getElem?_map] at hget
      have hu : us[j]? = some us[j] := List.getElem?_eq_getElem hjlt
      rw [hu] at hget
      simp at hget
      subst hget
      have hwfu : (us[j]).WF := h.wf _ (by simp)
      refine ⟨replay_torn crc hc _ (wf_take h.wf _) us[j] hwfu _ (List.take_prefix _ _) ?_,
        List.prefix_append _ _⟩
      intro heq
      have := congrArg List.length heq
      rw [List.length_take] at this
      omega
  · -- the in-flight truncation has been applied as well
    have hj' : j = us.length + 1 ∧ ∃ m, tr = some m := by
      cases tr with
      | none => simp [truncOp, writesOf] at hj; omega
      | some m => simp [truncOp, writesOf] at hj; exact ⟨by omega, m, rfl⟩
    obtain ⟨hje, m, rfl⟩ := hj'
    have hall : (writesOf crc us ++ truncOp crc (ds ++ us) (some m)).take j
        = writesOf crc us ++ [FOp.setLen (frameAll crc ((ds ++ us).take m)).length] := by
      rw [List.take_of_length_le (by simp [truncOp, writesOf]; omega)]
      rfl
    have hbase : ((writesOf crc us ++ truncOp crc (ds ++ us) (some m)).take j).foldl applyF (frameAll crc ds)
        = frameAll crc ((ds ++ us).take m) := by
      rw [hall, List.foldl_append, foldl_writes, ← frameAll_append]
      simp only [List.foldl_cons, List.foldl_nil, applyF]
      rw [frameAll_take_prefix]
      have := frameAll_take_length_le crc (ds ++ us) m
      simp [Nat.sub_eq_zero_of_le this]
    refine ⟨m, fun h => by simp at h, ?_⟩
    rcases hcase with hc1 | ⟨bs, k, hget, _, _⟩
    · rw [hc1, hbase]
      exact ⟨replay_frameAll crc hc _ (wf_take h.wf _), List.prefix_refl _⟩
    · -- nothing follows the truncation
      rw [List.getElem?_eq_none (by simp [truncOp, writesOf]; omega)] at hget
      simp at hget

/-- After a crash, the repaired `Wal::open` leaves exactly the recovered records on disk. -/
theorem reopen_after_crash (crc : Bytes → Bytes) (c : Bytes) (P : List Rec)
    (hrep : replay crc c = (P, (frameAll crc P).length)) (hpre : frameAll crc P <+: c) :
    (Log.crashTo c).reopen crc true = ⟨frameAll crc P, []⟩ := by
  obtain ⟨t, ht⟩ := hpre
  unfold Log.reopen Log.crashTo
  simp only [Log.content, List.foldl_nil, if_true, hrep]
  split
  · simp only [Log.sync, Log.push, Log.content, List.nil_append, List.foldl_cons, List.foldl_nil, applyF]
    rw [← ht, List.take_left]
    simp
  · rename_i hlen
    have : t = [] := by
      rw [← ht] at hlen
      simpa using hlen
    subst this
    simp at ht
    rw [ht]

/-- Opening a well-formed log with nothing in flight does not modify it. -/
theorem reopen_wf_noop (crc : Bytes → Bytes) (hc : CrcLen crc) (l : Log) (ds us : List Rec)
    (h : WFLog crc l ds us none) : l.reopen crc true = l := by
  have hcont : l.content = frameAll crc (ds ++ us) := by
    unfold Log.content
    rw [h.pend, h.dur]
    simp [truncOp, foldl_writes, frameAll_append]
  unfold Log.reopen
  simp only [if_true, hcont, replay_frameAll crc hc _ h.wf, Nat.lt_irrefl, if_false]

/-! ### histories with any number of crashes -/

inductive Ev where
  | append (r : Rec)
  | sync
  | truncate (m : Nat)                 -- `set_len` to the boundary after `m` records, then sync
  | open                               -- a new writer opens the log
  | crash (mid : Option Nat) (c : Bytes)  -- `mid = some m`: during a truncation to `m`, before its sync
deriving Repr

/-- ghost-annotated log: the file, the records known durable, the records appended since -/
structure G where
  log : Log
  ds : List Rec
  us : List Rec

inductive Step (crc : Bytes → Bytes) : G → Ev → G → Prop where
  | append (g : G) (r : Rec) (hr : r.WF) :
      Step crc g (.append r) ⟨g.log.push (.write (frame crc r)), g.ds, g.us ++ [r]⟩
  | sync (g : G) : Step crc g .sync ⟨g.log.sync, g.ds ++ g.us, []⟩
  | truncate (g : G) (m : Nat) :
      Step crc g (.truncate m)
        ⟨(g.log.push (.setLen (frameAll crc ((g.ds ++ g.us).take m)).length)).sync, (g.ds ++ g.us).take m, []⟩
  | open (g : G) : Step crc g .open ⟨g.log.reopen crc true, g.ds, g.us⟩
  | crash (g : G) (mid : Option Nat) (c : Bytes)
      (hcr : CrashContent ⟨g.log.durable, g.log.pending ++ truncOp crc (g.ds ++ g.us) mid⟩ c) :
      Step crc g (.crash mid c) ⟨(Log.crashTo c).reopen crc true, (replay crc c).1, []⟩

inductive Reach (crc : Bytes → Bytes) : G → Prop where
  | init : Reach crc ⟨⟨[], []⟩, [], []⟩
  | step {g g' : G} {e : Ev} : Reach crc g → Step crc g e g' → Reach crc g'

theorem wf_mid (crc : Bytes → Bytes) (g : G) (h : WFLog crc g.log g.ds g.us none) (mid : Option Nat) :
    WFLog crc ⟨g.log.durable, g.log.pending ++ truncOp crc (g.ds ++ g.us) mid⟩ g.ds g.us mid :=
  ⟨h.dur, by simp [h.pend, truncOp], h.wf⟩

/-- every reachable state is well formed (with nothing in flight between events) -/
theorem reach_wf (crc : Bytes → Bytes) (hc : CrcLen crc) (g : G) (hr : Reach crc g) :
    WFLog crc g.log g.ds g.us none := by
  induction hr with
  | init => exact ⟨by simp [frameAll], by simp [writesOf, truncOp], by simp⟩
  | @step g g' e _ hs ih =>
    cases hs with
    | append r hr =>
      refine ⟨ih.dur, ?_, ?_⟩
      · simp [Log.push, ih.pend, truncOp, writesOf]
      · intro x hx
        simp only [← List.append_assoc, List.mem_append, List.mem_singleton] at hx
        rcases hx with hx | rfl
        · exact ih.wf x (by simpa using hx)
        · exact hr
    | sync =>
      refine ⟨?_, by simp [Log.sync, writesOf, truncOp], by simpa using ih.wf⟩
      simp [Log.sync, Log.content, ih.pend, ih.dur, truncOp, foldl_writes, frameAll_append]
    | truncate m =>
      refine ⟨?_, by simp [Log.sync, writesOf, truncOp], by simpa using wf_take ih.wf m⟩
      simp only [Log.sync, Log.push, Log.content, ih.pend, ih.dur, truncOp, List.append_nil,
        List.foldl_append, foldl_writes, ← frameAll_append, List.foldl_cons, List.foldl_nil, applyF]
      rw [frameAll_take_prefix]
      have := frameAll_take_length_le crc (g.ds ++ g.us) m
      simp [Nat.sub_eq_zero_of_le this]
    | «open» =>
      rw [reopen_wf_noop crc hc g.log g.ds g.us ih]
      exact ih
    | crash mid c hcr =>
      obtain ⟨i, _, hrep, hpre⟩ := crash_replays_prefix crc hc _ g.ds g.us mid (wf_mid crc g ih mid) c hcr
      rw [reopen_after_crash crc c _ hrep hpre, hrep]
      exact ⟨rfl, by simp [writesOf, truncOp], by simpa using wf_take ih.wf i⟩

/-- **C02, log level.**  After any history — any number of crashes, each with any content the
file system may leave, interleaved with appends, syncs, truncations and re-opens — a crash
leaves a file whose replay is exactly a prefix of the records appended since the last
truncation, in order, containing every record that was followed by a successful sync (unless
the crash hit an in-flight truncation); and re-opening leaves exactly those records on disk. -/
theorem recovered_queue_exact (crc : Bytes → Bytes) (hc : CrcLen crc) (g : G) (hr : Reach crc g)
    (mid : Option Nat) (c : Bytes)
    (hcr : CrashContent ⟨g.log.durable, g.log.pending ++ truncOp crc (g.ds ++ g.us) mid⟩ c) :
    ∃ i, (mid = none → g.ds.length ≤ i) ∧ (replay crc c).1 = (g.ds ++ g.us).take i ∧
      (Log.crashTo c).reopen crc true = ⟨frameAll crc ((g.ds ++ g.us).take i), []⟩ := by
  obtain ⟨i, hi, hrep, hpre⟩ :=
    crash_replays_prefix crc hc _ g.ds g.us mid (wf_mid crc g (reach_wf crc hc g hr) mid) c hcr
  exact ⟨i, hi, by rw [hrep], reopen_after_crash crc c _ hrep hpre⟩

/-- an operation followed by a successful sync is part of every later crash image -/
theorem synced_survives (crc : Bytes → Bytes) (hc : CrcLen crc) (g : G) (hr : Reach crc g) (c : Bytes)
    (hcr : CrashContent g.log c) (r : Rec) (hmem : r ∈ g.ds) : r ∈ (replay crc c).1 := by
  have hcr' : CrashContent ⟨g.log.durable, g.log.pending ++ truncOp crc (g.ds ++ g.us) none⟩ c := by
    simpa [truncOp] using hcr
  obtain ⟨i, hi, hrep, _⟩ := recovered_queue_exact crc hc g hr none c hcr'
  rw [hrep]
  have hle := hi rfl
  rw [List.take_append]
  apply List.mem_append_left
  rw [List.take_of_length_le hle]
  exact hmem

/-! ### the original `Wal::open` (no truncation) loses acknowledged operations -/

/-- a trivial 4-byte checksum, enough for a concrete witness -/
def crc0 : Bytes → Bytes := fun _ => [0, 0, 0, 0]

/-- Negative witness for the unchanged code: record `r1` is torn by a crash after 3 bytes; the
log is re-opened *without* truncation, `r2` is appended and synced — and replay never sees `r2`. -/
theorem legacy_open_loses_ops :
    let r1 : Rec := ⟨3, [97, 98]⟩
    let r2 : Rec := ⟨3, [99]⟩
    let torn := (frame crc0 r1).take 3
    let l := ((Log.crashTo torn).reopen crc0 false).push (.write (frame crc0 r2)) |>.sync
    (replay crc0 l.content).1 = [] ∧ (replay crc0 (frame crc0 r2)).1 = [r2] := by
  decide

/-- the same history with the repaired open recovers `r2` -/
theorem repaired_open_keeps_ops :
    let r1 : Rec := ⟨3, [97, 98]⟩
    let r2 : Rec := ⟨3, [99]⟩
    let torn := (frame crc0 r1).take 3
    let l := ((Log.crashTo torn).reopen crc0 true).push (.write (frame crc0 r2)) |>.sync
    (replay crc0 l.content).1 = [r2] := by
  decide

/-! ### contents level: re-applying a queue is idempotent -/

section contents
variable {ι δ : Type} [DecidableEq ι]

/-- committed contents as a finite map -/
abbrev Contents (ι δ : Type) := ι → Option δ

/-- a queued operation with its document id (`idOf` is the id extracted when the op was queued) -/
inductive QOp (ι δ : Type) where
  | add (id : ι) (d : δ)
  | delete (id : ι)

def QOp.id : QOp ι δ → ι
  | .add id _ => id
  | .delete id => id

def applyQ (s : Contents ι δ) : QOp ι δ → Contents ι δ
  | .add id d => fun x => if x = id then some d else s x
  | .delete id => fun x => if x = id then none else s x

def applyOps (s : Contents ι δ) (ops : List (QOp ι δ)) : Contents ι δ := ops.foldl applyQ s

theorem applyOps_untouched (ops : List (QOp ι δ)) (s : Contents ι δ) (x : ι)
    (h : ∀ op ∈ ops, op.id ≠ x) : applyOps s ops x = s x := by
  induction ops generalizing s with
  | nil => rfl
  | cons op ops ih =>
    have h1 : op.id ≠ x := h op (by simp)
    have := ih (applyQ s op) (fun o ho => h o (by simp [ho]))
    simp only [applyOps, List.foldl_cons] at this ⊢
    rw [this]
    cases op <;> simp_all [applyQ, QOp.id, Ne.symm]

theorem applyOps_touched (ops : List (QOp ι δ)) (s₁ s₂ : Contents ι δ) (x : ι)
    (h : ∃ op ∈ ops, op.id = x) : applyOps s₁ ops x = applyOps s₂ ops x := by
  induction ops generalizing s₁ s₂ with
  | nil => simp at h
  | cons op ops ih =>
    simp only [applyOps, List.foldl_cons]
    by_cases hrest : ∃ o ∈ ops, o.id = x
    · exact ih _ _ hrest
    · have hun : ∀ o ∈ ops, o.id ≠ x := fun o ho he => hrest ⟨o, ho, he⟩
      have e1 := applyOps_untouched ops (applyQ s₁ op) x hun
      have e2 := applyOps_untouched ops (applyQ s₂ op) x hun
      simp only [applyOps] at e1 e2
      rw [e1, e2]
      obtain ⟨o, ho, hox⟩ := h
      have : op.id = x := by
        rcases List.mem_cons.mp ho with rfl | ho'
        · exact hox
        · exact absurd hox (hun o ho')
      cases op <;> simp_all [applyQ, QOp.id]

/-- **Re-applying a recovered queue on top of its own result changes nothing**: a crash after
the manifest was published but before the commit marker became durable is harmless, and a
document deleted later in the queue is not resurrected by the replayed add. -/
theorem reapply_idempotent (s : Contents ι δ) (ops : List (QOp ι δ)) :
    applyOps (applyOps s ops) ops = applyOps s ops := by
  funext x
  by_cases h : ∃ op ∈ ops, op.id = x
  · exact applyOps_touched ops _ _ x h
  · exact applyOps_untouched ops _ x (fun o ho he => h ⟨o, ho, he⟩)

/-- a document whose last queued operation is a delete is absent after any number of replays -/
theorem delete_not_resurrected (s : Contents ι δ) (pre : List (QOp ι δ)) (id : ι) :
    applyOps (applyOps s (pre ++ [.delete id])) (pre ++ [.delete id]) id = none := by
  rw [reapply_idempotent]
  simp [applyOps, List.foldl_append, applyQ]

end contents

/-! ### non-vacuity -/

example : CrcLen crc0 := fun _ => rfl
example : (⟨3, [97, 98]⟩ : Rec).WF := by simp [Rec.WF]
/-- a reachable state with a durable and an unsynced record, and a genuine torn crash content -/
example : ∃ g, Reach crc0 g ∧ g.ds = [⟨3, [97]⟩] ∧ g.us = [⟨1, [123, 125]⟩] ∧
    CrashContent g.log (frame crc0 ⟨3, [97]⟩ ++ (frame crc0 ⟨1, [123, 125]⟩).take 4) := by
  refine ⟨_, Reach.step (Reach.step (Reach.step Reach.init (Step.append _ ⟨3, [97]⟩ (by simp [Rec.WF])))
    (Step.sync _)) (Step.append _ ⟨1, [123, 125]⟩ (by simp [Rec.WF])), rfl, rfl, ?_⟩
  refine ⟨0, by simp [Log.push, Log.sync], Or.inr ⟨frame crc0 ⟨1, [123, 125]⟩, 4, ?_, by decide, ?_⟩⟩
  · simp [Log.push, Log.sync]
  · simp [Log.push, Log.sync, Log.content, applyF, frameAll]

end SL.Wal
