import SLModel.Core.Protocol
/-!
# C03 — storage errors leave committed state unchanged or fully applied
The commit protocol under injected faults (`Core/Protocol`).  The quantification over the
pre-state is carried by the two-point abstraction `C = {pre, post}`: the protocol only copies
contents around, it never inspects them.
-/
namespace SL.Protocol

/-- **every single fault** (any step, before or after its effect): the call either returns an
error with memory, disk, log and queue exactly as before — and a fault-free retry then succeeds
with the crash-free result — or returns success with everything applied -/
theorem single_fault_safe (f : Fault) :
    good (commit [f] true init) = true ∧ retryGood (commit [f] true init) = true := by
  obtain ⟨s, p⟩ := f
  cases s <;> cases p <;> decide

/-- **every ordered pair of faults**: the on-disk manifest never refers to missing files, and
what the process serves and what is on disk are both a complete state -/
theorem double_fault_openable (f g : Fault) :
    openable (commit [f, g] true init) = true := by
  obtain ⟨s, p⟩ := f
  obtain ⟨s', p'⟩ := g
  cases s <;> cases p <;> cases s' <;> cases p' <;> decide

/-- without faults the commit succeeds and applies everything -/
theorem no_fault_commits : commit [] true init = ⟨.post, .post, true, true, false, false, false, some true⟩ := by
  decide

/-- negative witness (original control flow): the final log truncation fails after the commit
was published — the call reports an error although the commit is fully applied -/
theorem legacy_truncate_failure_reports_error :
    let st := commit [⟨.truncSetLen, .before⟩] false init
    st.ret = some false ∧ st.memC = .post ∧ st.diskC = .post ∧ good st = false := by
  decide

/-- negative witness (original control flow): the marker append fails, then the manifest
restore fails, and the clean-up still deletes the new segment files the on-disk manifest
refers to -/
theorem legacy_double_fault_dangling :
    openable (commit [⟨.appendMarker, .before⟩, ⟨.restoreTmp, .before⟩] false init) = false := by
  decide

/-- the repaired flow on the same two inputs -/
example : good (commit [⟨.truncSetLen, .before⟩] true init) = true := by decide
example : openable (commit [⟨.appendMarker, .before⟩, ⟨.restoreTmp, .before⟩] true init) = true := by decide

end SL.Protocol
