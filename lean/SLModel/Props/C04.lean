import SLModel.Lemmas.ContentsInv
import SLModel.Lemmas.ContentsLog
/-!
# C04 — committed contents follow upsert/delete/rollback semantics

Model: `Core/Contents` (spec `Spec.step`/`Spec.run`; mechanism `step`/`run` with segments,
tombstones, generations, cached live maps per writer handle, shared log in its filesystem and
in-memory variants).  All statements quantify over **every** call list, any number of writer
handles (handle ids are arbitrary naturals), both log backends, any document type with an
idempotent stored projection.  Tie to the code: `Drv/C04` runs `step`/`Spec.step` on the calls the
harness performs on the real index and compares queues and contents after every call.

The spec deliberately contains what the code does with the shared log: a new handle's queue starts
with the log's pending operations (`Spec.step … (.newWriter h)`), so operations queued through one
handle can be committed by another.  What "pending" is depends on the backend (`Log.pending`); for
the filesystem backend it is literally every operation appended since the last truncation
(`fs_pending`), for the in-memory backend handles with stale write positions overwrite each other
(`mem_log_overwrite_witness`) — that changes which operations a *later* handle inherits, never what
a commit does with the queue it holds, which is all the property statement speaks about.
-/
set_option linter.unusedSectionVars false
namespace SL.Contents

variable {ι δ : Type} [DecidableEq ι]

/-- **contents_refines** (full, multi-handle): after any call list the invariant holds, every handle
has the queue the spec gives it, and a reader sees for every id exactly the copies the spec's
committed map prescribes: one copy (the stored projection of the version of the last committed add)
or none. -/
theorem contents_refines (cfg : Cfg δ) (hproj : ∀ d, cfg.proj (cfg.proj d) = cfg.proj d)
    (mem : Bool) (cs : List (Call ι δ)) :
    Inv cfg.proj (run cfg mem cs) ∧
    Refines (run cfg mem cs) (Spec.run cfg.proj mem cs) ∧
    ∀ i, copies (run cfg mem cs).segs i = (alGet (Spec.run cfg.proj mem cs).committed i).toList := by
  obtain ⟨hi, hr⟩ := run_preserves cfg hproj mem cs
  refine ⟨hi, hr, fun i => ?_⟩
  unfold copies
  rw [filter_key_of_nodup hi.seg.nodup]
  congr 1
  apply Option.ext
  intro d
  constructor
  · intro h
    have hm := alGet_some_mem h
    exact (hr.contents i d).mp hm
  · intro h
    exact alGet_of_mem_nodup hi.seg.nodup ((hr.contents i d).mpr h)

/-- no id is ever live twice (corollary, stated on its own because it is what "exactly one copy"
means for a reader) -/
theorem at_most_one_copy (cfg : Cfg δ) (hproj : ∀ d, cfg.proj (cfg.proj d) = cfg.proj d)
    (mem : Bool) (cs : List (Call ι δ)) (i : ι) :
    (copies (run cfg mem cs).segs i).length ≤ 1 := by
  rw [(contents_refines cfg hproj mem cs).2.2 i]
  cases alGet (Spec.run cfg.proj mem cs).committed i <;> simp

/-- what the spec's commit does, per id: the last queued operation on the id wins — an add leaves
the stored projection of that version, a delete leaves nothing, an untouched id keeps its value -/
theorem commit_last_op_wins (proj : δ → δ) (queue : List (Op ι δ)) (c : List (ι × δ)) (i : ι) :
    alGet (queue.foldl (Spec.apply proj) c) i =
      match lastOp queue i with
      | some (some d) => some (proj d)
      | some none => none
      | none => alGet c i := by
  rw [spec_fold_get]
  cases lastOp queue i with
  | none => rfl
  | some r => cases r <;> rfl

/-- **queued_invisible**: every call other than `commit` and `compact` leaves the segments — hence
what any reader sees — untouched -/
theorem queued_invisible (cfg : Cfg δ) (s : St ι δ) (c : Call ι δ)
    (h1 : ∀ h, c ≠ .commit h) (h2 : c ≠ .compact) :
    (step cfg s c).1.segs = s.segs := by
  cases c with
  | newWriter h => rfl
  | add h i d size => simp only [step]; cases alGet s.handles h <;> rfl
  | del h i size => simp only [step]; cases alGet s.handles h <;> rfl
  | commit h => exact absurd rfl (h1 h)
  | rollback h => simp only [step]; cases alGet s.handles h <;> rfl
  | dropWriter h => rfl
  | compact => exact absurd rfl h2
  | reopen => rfl

theorem alGet_alSet_self {κ α : Type} [DecidableEq κ] (l : List (κ × α)) (k : κ) (v w : α)
    (h : alGet l k = some w) : alGet (alSet l k v) k = some v := by
  induction l with
  | nil => simp [alGet] at h
  | cons p r ih =>
    obtain ⟨k₀, v₀⟩ := p
    by_cases h0 : k₀ = k
    · subst h0; simp [alSet, alGet]
    · simp only [alGet, h0, if_false] at h
      simp only [alSet, List.map_cons, h0, if_false, alGet]
      exact ih h

theorem pending_clear (l : Log ι δ) : l.clear.pending = [] := by
  cases l <;> simp [Log.clear, Log.pending, parse]

/-- **rollback_discards**: after `rollback` through an existing handle the segments are unchanged,
the handle's queue is empty, the log holds nothing a new handle could inherit, and committing
through the handle right away changes nothing -/
theorem rollback_discards (cfg : Cfg δ) (s : St ι δ) (h : Nat) (hd : Handle ι δ)
    (hg : alGet s.handles h = some hd) :
    let s' := (step cfg s (.rollback h)).1
    s'.segs = s.segs ∧
    (∃ hd', alGet s'.handles h = some hd' ∧ hd'.queue = []) ∧
    s'.log.pending = [] ∧
    (step cfg s' (.commit h)).1.segs = s.segs := by
  have e : (step cfg s (.rollback h)).1 =
      { s with log := s.log.clear, handles := alSet s.handles h { hd with queue := [], pos := 0 } } := by
    simp only [step, hg]
  rw [e]
  refine ⟨rfl, ⟨_, alGet_alSet_self _ _ _ _ hg, rfl⟩, pending_clear _, ?_⟩
  simp only [step, commit, alGet_alSet_self _ _ _ _ hg, List.isEmpty_nil, if_true]

/-- a handle created right after a rollback inherits nothing -/
theorem newWriter_after_rollback (cfg : Cfg δ) (s : St ι δ) (h h' : Nat) (hd : Handle ι δ)
    (hg : alGet s.handles h = some hd) :
    (alGet (step cfg (step cfg s (.rollback h)).1 (.newWriter h')).1.handles h').map (·.queue)
      = some [] := by
  simp only [step, hg, alGet, if_true, Option.map, pending_clear]

/-- filesystem backend: the pending operations are exactly the appended ones, in order -/
theorem fs_pending (ops : List (Op ι δ)) (pos : Nat) (op : Op ι δ) (ser size : Nat) :
    ((Log.fs ops).append pos op ser size).1.pending = ops ++ [op] := rfl

/-- the log never invents operations (both backends): whatever a new handle would inherit and
whatever any handle has queued was supplied by an `add`/`delete` call of the history -/
theorem queues_only_called_ops (proj : δ → δ) (mem : Bool) (cs : List (Call ι δ)) :
    (∀ op ∈ (Spec.run proj mem cs).log.pending, op ∈ callOps cs) ∧
    (∀ p ∈ (Spec.run proj mem cs).handles, ∀ op ∈ p.2.queue, op ∈ callOps cs) := by
  obtain ⟨A, hA, hi⟩ := spec_run_opsInv proj mem cs
  exact ⟨fun op h => hA op (pending_subset hi.log op h),
    fun p hp op ho => hA op (hi.queues p hp op ho)⟩

/-- … and every document a reader sees is the stored projection of a document some `add` call
supplied for that id ("and nothing else") -/
theorem contents_only_added (cfg : Cfg δ) (hproj : ∀ d, cfg.proj (cfg.proj d) = cfg.proj d)
    (mem : Bool) (cs : List (Call ι δ)) (i : ι) (d : δ)
    (h : d ∈ copies (run cfg mem cs).segs i) :
    ∃ d0, Op.add i d0 ∈ callOps cs ∧ d = cfg.proj d0 := by
  rw [(contents_refines cfg hproj mem cs).2.2 i] at h
  obtain ⟨A, hA, hi⟩ := spec_run_opsInv cfg.proj mem cs
  have hm : (i, d) ∈ (Spec.run cfg.proj mem cs).committed := by
    apply alGet_some_mem
    cases hg : alGet (Spec.run cfg.proj mem cs).committed i with
    | none => simp [hg] at h
    | some x => simp [hg] at h; rw [h]
  obtain ⟨d0, h1, h2⟩ := hi.committed i d hm
  exact ⟨d0, hA _ h1, h2⟩

/-! ## non-vacuity and witnesses (ids and documents are naturals, projection = identity) -/


/-- stale cached live map after a delete-only commit of another handle (generation unchanged):
handle 1 still believes id 7 is live, commits an upsert of 7 and an add of 8 — one copy each -/
example :
    abs (run cfgId false
      [.newWriter 0, .add 0 7 70 9, .commit 0, .newWriter 1, .newWriter 2,
       .del 2 7 7, .commit 2, .add 1 7 71 9, .add 1 8 80 9, .commit 1] : St Nat Nat).segs
      = [(8, 80), (7, 71)] := by decide

example :
    (Spec.run id false
      [.newWriter 0, .add 0 7 70 9, .commit 0, .newWriter 1, .newWriter 2,
       .del 2 7 7, .commit 2, .add 1 7 71 9, .add 1 8 80 9, .commit 1] : Spec.St Nat Nat).committed
      = [(8, 80), (7, 71)] := by decide

/-- queue sharing through the log: handle 1 inherits handle 0's uncommitted add and commits it -/
example :
    abs (run cfgId false [.newWriter 0, .add 0 1 10 9, .newWriter 1, .commit 1] : St Nat Nat).segs
      = [(1, 10)] := by decide

/-- rollback, then commit: nothing becomes visible -/
example :
    abs (run cfgId true [.newWriter 0, .add 0 1 10 9, .rollback 0, .commit 0] : St Nat Nat).segs
      = [] := by decide

/-- compaction keeps contents (two segments, one tombstone) -/
example :
    abs (run cfgId false
      [.newWriter 0, .add 0 1 10 9, .commit 0, .add 0 2 20 9, .del 0 1 7, .commit 0, .compact]
      : St Nat Nat).segs = [(2, 20)] := by decide

/-- **in-memory log, observed behaviour**: two handles opened on the empty log both write at
position 0; the second record overwrites the first, so a third handle inherits only the second
operation …  -/
theorem mem_log_overwrite_witness :
    ((alGet (run cfgId true
      [.newWriter 0, .newWriter 1, .add 0 1 10 9, .add 1 2 20 9, .newWriter 2] : St Nat Nat).handles 2).map
        (·.queue)) = some [.add 2 20] := by decide

/-- … whereas on the filesystem backend (append mode) it inherits both -/
theorem fs_log_keeps_both :
    ((alGet (run cfgId false
      [.newWriter 0, .newWriter 1, .add 0 1 10 9, .add 1 2 20 9, .newWriter 2] : St Nat Nat).handles 2).map
        (·.queue)) = some [.add 1 10, .add 2 20] := by decide

/-- in-memory log: a stale position behind a truncation leaves a zero gap; replay stops there and a
new handle inherits nothing -/
theorem mem_log_gap_witness :
    ((alGet (run cfgId true
      [.newWriter 0, .add 0 1 10 9, .newWriter 1, .rollback 0, .add 1 2 20 9, .newWriter 2]
      : St Nat Nat).handles 2).map (·.queue)) = some [] := by decide

/-- in either case the contents committed by the handles follow the queues they hold (instance of
`contents_refines`; here: the third handle commits what it inherited) -/
example :
    abs (run cfgId true
      [.newWriter 0, .newWriter 1, .add 0 1 10 9, .add 1 2 20 9, .newWriter 2, .commit 2]
      : St Nat Nat).segs = [(2, 20)] := by decide

end SL.Contents
