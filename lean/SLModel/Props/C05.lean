import SLModel.Core.Sched
import SLModel.Core.Handles
import SLModel.Lemmas.Locked
/-!
# C05 — concurrent writer handles are serializable

Shape of the argument (DESIGN §6 C05):

1. `SL.Locked.locked_serializable` (Lemmas/Locked): in the lock model — every call is
   `acquire; s₁ … sₙ; release`, `acquire` enabled only when the lock is free — *every* complete
   schedule of *any* number of threads ends in the state of the serial execution of the calls in
   the order of their acquire events.
2. `sectionsDisjoint_sound` (here): a recorded trace of the instrumented points whose sections
   are disjoint (`SL.Sched.sectionsDisjoint`, evaluated by the driver on every trace of the real
   code) and that fits the threads' programs **is** a legal complete schedule of that lock
   model, with acquire order = order of the `enter` events.
3. `trace_serializable` (here): instantiated with the abstract contents state `SL.Handles.St`
   (shared log, per-handle queues, committed contents, per-call results): the final contents,
   queues, log and *every call's result* equal `runSerial` over the calls in `enter` order.
4. What the serial semantics guarantees ("no committed operation lost, every successful call
   reflected"): `lookup_applyOps`, `commit_reflects`, `queued_invisible`, `rollback_discards`,
   `distinctKeys_exec`.

All statements quantify over every number of threads, every program, every trace/schedule.
-/
namespace SL.C05
open SL.Locked SL.Sched

variable {σ ν : Type}

/-! ## 2. a disjoint trace is a legal schedule of the lock model -/

theorem run_append (c : Cfg σ) (a b : List Nat) :
    run c (a ++ b) = (run c a).bind (fun c1 => run c1 b) := by
  induction a generalizing c with
  | nil => simp [run]
  | cons t ts ih =>
    simp only [List.cons_append, run]
    cases stepCfg c t with
    | none => simp
    | some c1 => simpa using ih c1

/-- coupling between the monitor's scan state `(h, progs)` and a configuration of the lock model -/
def Good (c : Cfg σ) (h : Option Nat) (progs : List (List (Call σ))) : Prop :=
  c.holder = h ∧ c.threads.map (·.todo) = progs ∧
  (∀ u tu, c.threads[u]? = some tu → (tu.cur.isSome = true ↔ h = some u)) ∧
  (∀ t, h = some t → ∃ th, c.threads[t]? = some th)

theorem set_self_of_getElem? {β : Type} (l : List β) (i : Nat) (a : β) (h : l[i]? = some a) :
    l.set i a = l := by
  apply List.ext_getElem?
  intro j
  rw [List.getElem?_set]
  split
  · rename_i hij
    subst hij
    split
    · exact h.symm
    · rename_i hlt
      rw [List.getElem?_eq_none (by omega)] at h
      cases h
  · rfl

theorem acquire_ok (c : Cfg σ) (progs : List (List (Call σ))) (t : Nat) (call : Call σ)
    (rest : List (Call σ)) (hg : Good c none progs) (hp : progs[t]? = some (call :: rest)) :
    ∃ c1, stepCfg c t = some c1 ∧ Good c1 (some t) (progs.set t rest) ∧
      c1.order = c.order ++ [call] ∧ c1.st = c.st := by
  obtain ⟨hh, hmap, hcur, _⟩ := hg
  have hp' : (c.threads.map (·.todo))[t]? = some (call :: rest) := by rw [hmap]; exact hp
  rw [List.getElem?_map] at hp'
  cases hth : c.threads[t]? with
  | none => rw [hth] at hp'; simp at hp'
  | some th =>
    rw [hth] at hp'
    have htodo : th.todo = call :: rest := by simpa using hp'
    have hnone : th.cur = none := by
      have := hcur t th hth
      cases hc : th.cur with
      | none => rfl
      | some x => rw [hc] at this; simp at this
    have hlt : t < c.threads.length := by
      rcases Nat.lt_or_ge t c.threads.length with h | h
      · exact h
      · rw [List.getElem?_eq_none h] at hth; cases hth
    refine ⟨{ c with holder := some t,
                     threads := c.threads.set t { cur := some call.steps, todo := rest },
                     order := c.order ++ [call], donePre := [] }, ?_, ?_, ?_, ?_⟩
    · unfold stepCfg
      simp only [hth, hnone, htodo, hh]
    · refine ⟨rfl, ?_, ?_, ?_⟩
      · simp only [List.map_set, hmap]
      · intro u tu hget
        have hget' : (c.threads.set t { cur := some call.steps, todo := rest })[u]? = some tu := hget
        by_cases htu : t = u
        · subst htu
          rw [List.getElem?_set_self hlt] at hget'
          cases hget'
          simp
        · rw [List.getElem?_set_ne htu] at hget'
          have := hcur u tu hget'
          constructor
          · intro h1; have := this.mp h1; cases this
          · intro h1; exfalso; apply htu; cases h1; rfl
      · intro t' ht'
        cases ht'
        exact ⟨_, List.getElem?_set_self hlt⟩
    · rfl
    · rfl

/-- the lock holder performs its remaining steps and releases -/
theorem drain (t : Nat) : ∀ (rem : List (σ → σ)) (c : Cfg σ) (th : Thread σ),
    c.holder = some t → c.threads[t]? = some th → th.cur = some rem →
    ∃ c1, run c (List.replicate (rem.length + 1) t) = some c1 ∧ c1.holder = none ∧
      c1.order = c.order ∧ c1.threads = c.threads.set t { th with cur := none } := by
  intro rem
  induction rem with
  | nil =>
    intro c th hh hth hcur
    refine ⟨{ c with holder := none, threads := c.threads.set t { th with cur := none }, donePre := [] }, ?_, rfl, rfl, rfl⟩
    simp only [List.length_nil, Nat.zero_add, List.replicate_one, run]
    unfold stepCfg
    simp only [hth, hcur, hh, if_true]
  | cons f fs ih =>
    intro c th hh hth hcur
    have hlt : t < c.threads.length := by
      rcases Nat.lt_or_ge t c.threads.length with h | h
      · exact h
      · rw [List.getElem?_eq_none h] at hth; cases hth
    let c2 : Cfg σ := { c with st := f c.st, threads := c.threads.set t { th with cur := some fs },
                               donePre := c.donePre ++ [f] }
    have hstep : stepCfg c t = some c2 := by
      unfold stepCfg
      simp only [hth, hcur]
      rw [if_pos hh]
    have hth2 : c2.threads[t]? = some { th with cur := some fs } :=
      List.getElem?_set_self hlt
    obtain ⟨c1, hrun, h1, h2, h3⟩ := ih c2 { th with cur := some fs } hh hth2 rfl
    refine ⟨c1, ?_, h1, ?_, ?_⟩
    · show run c (List.replicate (fs.length + 1 + 1) t) = some c1
      rw [List.replicate_succ]
      simp only [run, hstep]
      exact hrun
    · rw [h2]
    · rw [h3]
      simp [c2, List.set_set]

theorem release_ok (c : Cfg σ) (progs : List (List (Call σ))) (t : Nat)
    (hg : Good c (some t) progs) :
    ∃ sched c1, run c sched = some c1 ∧ Good c1 none progs ∧ c1.order = c.order := by
  obtain ⟨hh, hmap, hcur, hex⟩ := hg
  obtain ⟨th, hth⟩ := hex t rfl
  have hsome : th.cur.isSome = true := (hcur t th hth).mpr rfl
  cases hc : th.cur with
  | none => rw [hc] at hsome; simp at hsome
  | some rem =>
    obtain ⟨c1, hrun, h1, h2, h3⟩ := drain t rem c th hh hth hc
    have hlt : t < c.threads.length := by
      rcases Nat.lt_or_ge t c.threads.length with h | h
      · exact h
      · rw [List.getElem?_eq_none h] at hth; cases hth
    refine ⟨_, c1, hrun, ⟨h1, ?_, ?_, ?_⟩, h2⟩
    · rw [h3, List.map_set, hmap]
      apply set_self_of_getElem?
      rw [← hmap, List.getElem?_map, hth]
      rfl
    · intro u tu hget
      rw [h3] at hget
      by_cases htu : t = u
      · subst htu
        rw [List.getElem?_set_self hlt] at hget
        cases hget
        simp
      · rw [List.getElem?_set_ne htu] at hget
        have := hcur u tu hget
        constructor
        · intro h1'
          have := this.mp h1'
          cases this
          exact absurd rfl htu
        · intro h1'; cases h1'
    · intro t' ht'; cases ht'

theorem scan_sound : ∀ (tr : List (Event ν)) (h : Option Nat) (progs : List (List (Call σ)))
    (c : Cfg σ), Good c h progs → disjointFrom h tr = true → fits progs tr = true →
    ∃ sched c', run c sched = some c' ∧ c'.holder = none ∧
      c'.order = c.order ++ enterOrder progs tr ∧
      (∀ th ∈ c'.threads, th.todo = [] ∧ th.cur = none) := by
  intro tr
  induction tr with
  | nil =>
    intro h progs c hg hd hf
    simp only [disjointFrom] at hd
    simp only [fits] at hf
    have hnone : h = none := by cases h <;> simp_all
    subst hnone
    refine ⟨[], c, rfl, hg.1, by simp [enterOrder], ?_⟩
    intro th hth
    obtain ⟨i, hi⟩ := List.mem_iff_getElem?.mp hth
    constructor
    · have : th.todo ∈ progs := by
        rw [← hg.2.1]
        exact List.mem_map_of_mem hth
      have := List.all_eq_true.mp hf _ this
      simpa using this
    · have := hg.2.2.1 i th hi
      cases hc : th.cur with
      | none => rfl
      | some x => rw [hc] at this; simp at this
  | cons e tr ih =>
    intro h progs c hg hd hf
    cases hk : e.kind with
    | enter =>
      simp only [disjointFrom, hk, Bool.and_eq_true] at hd
      simp only [fits, hk] at hf
      have hnone : h = none := by cases h <;> simp_all
      subst hnone
      cases hp : progs[e.thread]? with
      | none => simp [hp] at hf
      | some l =>
        cases l with
        | nil => simp [hp] at hf
        | cons call rest =>
          simp only [hp] at hf
          obtain ⟨c1, hstep, hg1, hord, _⟩ := acquire_ok c progs e.thread call rest hg hp
          obtain ⟨sched, c', hrun, hh, hord', hall⟩ := ih (some e.thread) _ c1 hg1 hd.2 hf
          refine ⟨e.thread :: sched, c', ?_, hh, ?_, hall⟩
          · simp only [run, hstep]; exact hrun
          · rw [hord', hord]
            simp [enterOrder, hk, hp]
    | exit =>
      simp only [disjointFrom, hk, Bool.and_eq_true, beq_iff_eq] at hd
      simp only [fits, hk] at hf
      obtain ⟨hh0, hd2⟩ := hd
      subst hh0
      obtain ⟨s1, c1, hrun1, hg1, hord1⟩ := release_ok c progs e.thread hg
      obtain ⟨sched, c', hrun, hh, hord', hall⟩ := ih none progs c1 hg1 hd2 hf
      refine ⟨s1 ++ sched, c', ?_, hh, ?_, hall⟩
      · rw [run_append, hrun1]; exact hrun
      · rw [hord', hord1]; simp [enterOrder, hk]
    | inside =>
      simp only [disjointFrom, hk, Bool.and_eq_true] at hd
      simp only [fits, hk] at hf
      obtain ⟨sched, c', hrun, hh, hord', hall⟩ := ih h progs c hg hd.2 hf
      exact ⟨sched, c', hrun, hh, by rw [hord']; simp [enterOrder, hk], hall⟩
    | free =>
      simp only [disjointFrom, hk] at hd
      simp only [fits, hk] at hf
      obtain ⟨sched, c', hrun, hh, hord', hall⟩ := ih h progs c hg hd hf
      exact ⟨sched, c', hrun, hh, by rw [hord']; simp [enterOrder, hk], hall⟩

/-- initial configuration of the lock model for the threads' programs -/
def initCfg (s0 : σ) (progs : List (List (Call σ))) : Cfg σ :=
  { st := s0, holder := none, threads := progs.map (fun p => ⟨none, p⟩), order := [], donePre := [] }

/-- **Monitor soundness.**  A trace with disjoint sections that fits the programs is a legal,
complete schedule of the lock model: all calls were executed, the acquire order is the order of
the `enter` events, and the final state is the serial execution in that order. -/
theorem sectionsDisjoint_sound (s0 : σ) (progs : List (List (Call σ))) (tr : List (Event ν))
    (hd : sectionsDisjoint tr = true) (hf : fits progs tr = true) :
    ∃ sched c', run (initCfg s0 progs) sched = some c' ∧ c'.holder = none ∧
      (∀ th ∈ c'.threads, th.todo = [] ∧ th.cur = none) ∧
      c'.order = enterOrder progs tr ∧
      c'.st = serial (enterOrder progs tr) s0 := by
  have hg : Good (initCfg s0 progs) none progs := by
    refine ⟨rfl, ?_, ?_, ?_⟩
    · simp [initCfg, List.map_map, Function.comp_def]
    · intro u tu hget
      simp only [initCfg, List.getElem?_map] at hget
      cases hp : progs[u]? with
      | none => rw [hp] at hget; cases hget
      | some p => rw [hp] at hget; cases hget; simp
    · intro t ht; cases ht
  obtain ⟨sched, c', hrun, hh, hord, hall⟩ := scan_sound tr none progs _ hg hd hf
  have hord' : c'.order = enterOrder progs tr := by simpa [initCfg] using hord
  refine ⟨sched, c', hrun, hh, hall, hord', ?_⟩
  have := locked_serializable s0 progs sched c' hrun hh
  rw [this, hord']

/-- Any two legal complete schedules with the same acquire order end in the same state — in
particular the state does not depend on how the steps *inside* sections interleave with the
waiting of other threads. -/
theorem same_order_same_state (s0 : σ) (progs : List (List (Call σ))) (s1 s2 : List Nat)
    (c1 c2 : Cfg σ) (h1 : run (initCfg s0 progs) s1 = some c1) (h2 : run (initCfg s0 progs) s2 = some c2)
    (d1 : c1.holder = none) (d2 : c2.holder = none) (ho : c1.order = c2.order) : c1.st = c2.st := by
  rw [locked_serializable s0 progs s1 c1 h1 d1, locked_serializable s0 progs s2 c2 h2 d2, ho]

/-! ## every call appears exactly once in the serial order -/

theorem flatten_set_perm {α : Type} : ∀ (l : List (List α)) (t : Nat) (c : α) (rest : List α),
    l[t]? = some (c :: rest) → l.flatten.Perm (c :: (l.set t rest).flatten) := by
  intro l
  induction l with
  | nil => intro t c rest h; simp at h
  | cons x xs ih =>
    intro t c rest h
    cases t with
    | zero =>
      simp only [List.getElem?_cons_zero, Option.some.injEq] at h
      subst h
      simp
    | succ t =>
      simp only [List.getElem?_cons_succ] at h
      have := ih t c rest h
      simp only [List.set_cons_succ, List.flatten_cons]
      exact (List.Perm.append_left x this).trans List.perm_middle

theorem flatten_of_all_empty {α : Type} (l : List (List α)) (h : l.all List.isEmpty = true) :
    l.flatten = [] := by
  induction l with
  | nil => rfl
  | cons x xs ih =>
    simp only [List.all_cons, Bool.and_eq_true] at h
    have hx : x = [] := by simpa using h.1
    simp [hx, ih h.2]

/-- **Every call is reflected exactly once**: for a trace that fits the programs, the serial
order read off the `enter` events is a permutation of all calls of all threads. -/
theorem enterOrder_perm {α : Type} : ∀ (tr : List (Event ν)) (progs : List (List α)),
    fits progs tr = true → (enterOrder progs tr).Perm progs.flatten := by
  intro tr
  induction tr with
  | nil =>
    intro progs hf
    simp only [fits] at hf
    rw [flatten_of_all_empty progs hf]
    exact List.Perm.refl _
  | cons e tr ih =>
    intro progs hf
    cases hk : e.kind with
    | enter =>
      simp only [fits, hk] at hf
      cases hp : progs[e.thread]? with
      | none => simp [hp] at hf
      | some l =>
        cases l with
        | nil => simp [hp] at hf
        | cons c rest =>
          simp only [hp] at hf
          simp only [enterOrder, hk, hp]
          exact ((ih _ hf).cons c).trans (flatten_set_perm progs e.thread c rest hp).symm
    | exit => simp only [fits, hk] at hf; simpa [enterOrder, hk] using ih progs hf
    | inside => simp only [fits, hk] at hf; simpa [enterOrder, hk] using ih progs hf
    | free => simp only [fits, hk] at hf; simpa [enterOrder, hk] using ih progs hf

/-! ## 3. instantiation with the contents state -/

open SL.Handles

variable {ι δ : Type} [DecidableEq ι]

/-- a model call as a call of the lock model -/
def toLocked (c : Handles.Call ι δ) : Locked.Call (St ι δ) := ⟨stepsOf c⟩

theorem settle_publish (h : Nat) (s : St ι δ) :
    settle h (publish h (snapshot h s)) = exec s (.commit h) := rfl

theorem applySteps_stepsOf (c : Handles.Call ι δ) (s : St ι δ) :
    applySteps (stepsOf c) s = exec s c := by
  cases c <;> rfl

theorem serial_toLocked (cs : List (Handles.Call ι δ)) (s : St ι δ) :
    serial (cs.map toLocked) s = runSerial s cs := by
  induction cs generalizing s with
  | nil => rfl
  | cons c cs ih =>
    simp only [List.map_cons, serial, List.foldl_cons, runSerial] at ih ⊢
    rw [show applySteps (toLocked c).steps s = exec s c from applySteps_stepsOf c s]
    exact ih _

theorem enterOrder_map {α β : Type} (f : α → β) : ∀ (tr : List (Event ν)) (progs : List (List α)),
    enterOrder (progs.map (List.map f)) tr = (enterOrder progs tr).map f := by
  intro tr
  induction tr with
  | nil => intro progs; rfl
  | cons e tr ih =>
    intro progs
    cases hk : e.kind <;> simp only [enterOrder, hk]
    · rw [List.getElem?_map]
      cases hp : progs[e.thread]? with
      | none => simpa using ih progs
      | some l =>
        cases l with
        | nil => simpa using ih progs
        | cons c rest =>
          simp only [Option.map_some, List.map_cons]
          have := ih (progs.set e.thread rest)
          rw [List.map_set] at this
          rw [this]
    · exact ih progs
    · exact ih progs
    · exact ih progs

theorem fits_map {α β : Type} (f : α → β) : ∀ (tr : List (Event ν)) (progs : List (List α)),
    fits (progs.map (List.map f)) tr = fits progs tr := by
  intro tr
  induction tr with
  | nil =>
    intro progs
    simp only [fits, List.all_map]
    congr 1
    funext l
    cases l <;> rfl
  | cons e tr ih =>
    intro progs
    cases hk : e.kind <;> simp only [fits, hk]
    · rw [List.getElem?_map]
      cases hp : progs[e.thread]? with
      | none => rfl
      | some l =>
        cases l with
        | nil => rfl
        | cons c rest =>
          simp only [Option.map_some, List.map_cons]
          have := ih (progs.set e.thread rest)
          rw [List.map_set] at this
          exact this
    · exact ih progs
    · exact ih progs
    · exact ih progs

/-- **C05, model level.**  For every number of threads, every program of
new/add/delete/commit/rollback/compact calls and every recorded trace: if the sections of the
trace are disjoint and the trace fits the programs, the run is a legal complete schedule of the
lock model over the contents state, and the final committed contents, the shared log, every
handle's queue and **every call's result** are those of the serial execution of the calls in
the order of their `enter` events. -/
theorem trace_serializable (s0 : St ι δ) (progs : List (List (Handles.Call ι δ)))
    (tr : List (Event ν)) (hd : sectionsDisjoint tr = true) (hf : fits progs tr = true) :
    ∃ sched c', run (initCfg s0 (progs.map (List.map toLocked))) sched = some c' ∧
      c'.holder = none ∧ (∀ th ∈ c'.threads, th.todo = [] ∧ th.cur = none) ∧
      c'.st = runSerial s0 (enterOrder progs tr) := by
  have hf' : fits (progs.map (List.map toLocked)) tr = true := by rw [fits_map]; exact hf
  obtain ⟨sched, c', hrun, hh, hall, _, hst⟩ :=
    sectionsDisjoint_sound s0 (progs.map (List.map toLocked)) tr hd hf'
  refine ⟨sched, c', hrun, hh, hall, ?_⟩
  rw [hst, enterOrder_map, serial_toLocked]

/-- every legal complete schedule over the contents state (not only the one read off a trace)
is serial in acquire order -/
theorem handles_serializable (s0 : St ι δ) (progs : List (List (Handles.Call ι δ)))
    (sched : List Nat) (c' : Cfg (St ι δ))
    (hr : run (initCfg s0 (progs.map (List.map toLocked))) sched = some c') (hdone : c'.holder = none) :
    c'.st = serial c'.order s0 :=
  locked_serializable s0 _ sched c' hr hdone

/-! ## 4. what the serial semantics guarantees -/

theorem lookup_erase (m : Map ι δ) (a b : ι) :
    lookup (erase m a) b = if a = b then none else lookup m b := by
  induction m with
  | nil => simp [erase, lookup]
  | cons p r ih =>
    simp only [erase] at ih ⊢
    simp only [List.filter_cons]
    by_cases hpa : p.1 = a
    · simp only [hpa, beq_self_eq_true, Bool.not_true]
      rw [if_neg (by simp), ih]
      simp only [lookup, hpa]
      by_cases hab : a = b
      · simp [hab]
      · simp [hab]
    · have : (!(p.1 == a)) = true := by simp [hpa]
      simp only [this, if_true, lookup, ih]
      by_cases hpb : p.1 = b
      · have hab : ¬ a = b := by intro h; apply hpa; rw [hpb, h]
        simp [hpb, hab]
      · simp [hpb]

theorem lookup_applyOp (m : Map ι δ) (op : Op ι δ) (b : ι) :
    lookup (applyOp m op) b =
      match op with
      | .add i d => if i = b then some d else lookup m b
      | .del i => if i = b then none else lookup m b := by
  cases op with
  | add i d =>
    simp only [applyOp, upsert, lookup, lookup_erase]
    by_cases h : i = b <;> simp [h]
  | del i => simp only [applyOp, lookup_erase]

/-- **No committed operation is lost or applied with a different result**: after folding a
queue, an id whose last queued operation is an add holds exactly that version, an id whose last
queued operation is a delete is gone, every other id is untouched. -/
theorem lookup_applyOps (ops : List (Op ι δ)) (m : Map ι δ) (b : ι) :
    lookup (applyOps m ops) b =
      match lastOp b ops with
      | some (.add _ d) => some d
      | some (.del _) => none
      | none => lookup m b := by
  induction ops generalizing m with
  | nil => simp [applyOps, lastOp]
  | cons op r ih =>
    simp only [applyOps, List.foldl_cons] at ih ⊢
    rw [ih]
    simp only [lastOp]
    cases hl : lastOp b r with
    | some o => cases o <;> rfl
    | none =>
      simp only
      rw [lookup_applyOp]
      cases op with
      | add i d => by_cases h : i = b <;> simp [h]
      | del i => by_cases h : i = b <;> simp [h]

theorem distinctKeys_erase (m : Map ι δ) (a : ι) (h : distinctKeys m = true) :
    distinctKeys (erase m a) = true := by
  induction m with
  | nil => rfl
  | cons p r ih =>
    simp only [distinctKeys, Bool.and_eq_true] at h
    simp only [erase, List.filter_cons]
    split
    · simp only [distinctKeys, Bool.and_eq_true]
      refine ⟨?_, ih h.2⟩
      have := lookup_erase r a p.1
      simp only [erase] at this
      rw [this]
      split
      · rfl
      · exact h.1
    · exact ih h.2

theorem distinctKeys_applyOp (m : Map ι δ) (op : Op ι δ) (h : distinctKeys m = true) :
    distinctKeys (applyOp m op) = true := by
  cases op with
  | add i d =>
    simp only [applyOp, upsert, distinctKeys, Bool.and_eq_true]
    exact ⟨by rw [lookup_erase]; simp, distinctKeys_erase m i h⟩
  | del i => exact distinctKeys_erase m i h

theorem distinctKeys_applyOps (ops : List (Op ι δ)) (m : Map ι δ) (h : distinctKeys m = true) :
    distinctKeys (applyOps m ops) = true := by
  induction ops generalizing m with
  | nil => exact h
  | cons op r ih => exact ih _ (distinctKeys_applyOp m op h)

theorem publish_queue (h h' : Nat) (s : St ι δ) : (publish h s).queue h' = s.queue h' := by
  unfold publish
  split <;> rfl

omit [DecidableEq ι] in
theorem snapshot_queue (h h' : Nat) (s : St ι δ) : (snapshot h s).queue h' = s.queue h' := by
  unfold snapshot
  split <;> rfl

omit [DecidableEq ι] in
theorem getSnap_setSnap (snaps : List (Nat × Map ι δ)) (h : Nat) (m : Map ι δ) :
    getSnap (setSnap snaps h m) h = m := by
  simp [setSnap, getSnap]

theorem exec_commit_empty (s : St ι δ) (hd : Nat) (he : (s.queue hd).isEmpty = true) :
    exec s (.commit hd) = s.log .ok := by
  have h0 : snapshot hd s = s := by unfold snapshot; rw [he]; rfl
  show settle hd (publish hd (snapshot hd s)) = _
  rw [h0]
  have h1 : ((publish hd s).queue hd).isEmpty = true := by rw [publish_queue]; exact he
  unfold settle
  rw [h1]
  unfold publish
  rw [he]
  rfl

theorem exec_commit_nonempty (s : St ι δ) (hd : Nat) (he : (s.queue hd).isEmpty = false) :
    exec s (.commit hd) =
      ({ s with committed := applyOps s.committed (s.queue hd), wal := [],
                queues := s.queues.set hd [],
                snaps := setSnap s.snaps hd s.committed } : St ι δ).log .ok := by
  have h2 : ((snapshot hd s).queue hd).isEmpty = false := by rw [snapshot_queue]; exact he
  have h1 : ((publish hd (snapshot hd s)).queue hd).isEmpty = false := by rw [publish_queue]; exact h2
  show settle hd (publish hd (snapshot hd s)) = _
  unfold settle
  rw [h1]
  unfold publish
  rw [h2]
  unfold snapshot
  rw [he]
  simp only [Bool.false_eq_true, if_false, getSnap_setSnap]
  rfl

/-- one copy of each id, after any call -/
theorem distinctKeys_exec (s : St ι δ) (c : Handles.Call ι δ) (h : distinctKeys s.committed = true) :
    distinctKeys (exec s c).committed = true := by
  cases c with
  | commit hd =>
    cases he : (s.queue hd).isEmpty with
    | true => rw [exec_commit_empty s hd he]; exact h
    | false =>
      rw [exec_commit_nonempty s hd he]
      exact distinctKeys_applyOps _ _ h
  | add hd valid id d => simp only [exec]; split <;> exact h
  | _ => exact h

theorem distinctKeys_runSerial (cs : List (Handles.Call ι δ)) (s : St ι δ)
    (h : distinctKeys s.committed = true) : distinctKeys (runSerial s cs).committed = true := by
  induction cs generalizing s with
  | nil => exact h
  | cons c cs ih => exact ih _ (distinctKeys_exec s c h)

/-- queued operations stay invisible: only `commit` changes the committed contents -/
theorem queued_invisible (s : St ι δ) (c : Handles.Call ι δ) (h : ∀ hd, c ≠ .commit hd) :
    (exec s c).committed = s.committed := by
  cases c with
  | commit hd => exact absurd rfl (h hd)
  | add hd valid id d => simp only [exec]; split <;> rfl
  | _ => rfl

/-- every successful commit is reflected: the committed contents after `commit h` are the fold
of the handle's queue, the queue and the log are empty afterwards -/
theorem commit_reflects (s : St ι δ) (hd : Nat) (b : ι) (hq : s.queue hd ≠ []) :
    lookup (exec s (.commit hd)).committed b =
      (match lastOp b (s.queue hd) with
       | some (.add _ d) => some d
       | some (.del _) => none
       | none => lookup s.committed b) ∧
    (exec s (.commit hd)).wal = [] := by
  have he : (s.queue hd).isEmpty = false := by
    cases hx : s.queue hd with
    | nil => exact absurd hx hq
    | cons a r => rfl
  rw [exec_commit_nonempty s hd he]
  exact ⟨lookup_applyOps _ _ _, rfl⟩

/-- a commit with nothing queued changes nothing -/
theorem empty_commit_noop (s : St ι δ) (hd : Nat) (hq : s.queue hd = []) :
    exec s (.commit hd) = s.log .ok :=
  exec_commit_empty s hd (by rw [hq]; rfl)

/-- rollback discards the handle's queue and never touches committed contents -/
theorem rollback_discards (s : St ι δ) (hd : Nat) (hlt : hd < s.queues.length) :
    (exec s (.rollback hd)).queue hd = [] ∧ (exec s (.rollback hd)).committed = s.committed ∧
    (exec s (.rollback hd)).wal = [] := by
  simp [exec, St.log, St.queue, hlt]

/-- each call appends exactly one result -/
theorem results_length (s : St ι δ) (c : Handles.Call ι δ) :
    (exec s c).results.length = s.results.length + 1 := by
  cases c with
  | commit hd =>
    cases he : (s.queue hd).isEmpty with
    | true => rw [exec_commit_empty s hd he]; simp [St.log]
    | false => rw [exec_commit_nonempty s hd he]; simp [St.log]
  | add hd valid id d => simp only [exec]; split <;> simp [St.log]
  | _ => simp [exec, St.log]

/-! ## non-vacuity -/

def exTrace : List (Event Nat) :=
  [⟨0, .enter, 0⟩, ⟨1, .free, 9⟩, ⟨0, .inside, 1⟩, ⟨0, .exit, 0⟩, ⟨1, .enter, 0⟩, ⟨1, .exit, 0⟩,
   ⟨0, .enter, 2⟩, ⟨0, .exit, 2⟩]

def exProgs : List (List (Handles.Call Nat Nat)) :=
  [[.add 0 true 7 70, .commit 0], [.add 1 true 7 71]]

example : sectionsDisjoint exTrace = true := by decide
example : fits exProgs exTrace = true := by decide
/-- the hypotheses of `trace_serializable` are satisfiable and the conclusion is non-trivial:
the serial order interleaves the two threads and the commit publishes thread 0's version -/
example : (runSerial (Handles.init [] 2) (enterOrder exProgs exTrace)).committed = [(7, 70)] := by decide
example : (runSerial (Handles.init [] 2) (enterOrder exProgs exTrace)).results
    = [.count 0, .count 0, .ok] := by decide

/-- overlapping sections are rejected by the monitor (thread 1 enters while 0 is inside) -/
theorem overlap_rejected :
    sectionsDisjoint ([⟨0, .enter, 0⟩, ⟨1, .enter, 0⟩, ⟨1, .exit, 0⟩, ⟨0, .exit, 0⟩] : List (Event Nat)) = false := by
  decide

/-- **Why the monitor matters.**  Without mutual exclusion the commit steps of two handles can
interleave as `snapshot 0; snapshot 1; publish 0; settle 0; publish 1; settle 1` — not a
schedule of the lock model (`sectionsDisjoint` is false on its trace) — and handle 0's
committed add is lost: the outcome equals neither serial order. -/
theorem unlocked_lost_update :
    let s0 : St Nat Nat := runSerial (Handles.init [] 2) [.add 0 true 1 10, .add 1 true 2 20]
    let bad := settle 1 (publish 1 (settle 0 (publish 0 (snapshot 1 (snapshot 0 s0)))))
    lookup bad.committed 1 = none ∧
    lookup (runSerial s0 [.commit 0, .commit 1]).committed 1 = some 10 ∧
    lookup (runSerial s0 [.commit 1, .commit 0]).committed 1 = some 10 := by
  decide

example : lookup (applyOps ([] : Map Nat Nat) [.add 1 10, .del 1, .add 2 5]) 1 = none := by decide
example : lookup (applyOps ([] : Map Nat Nat) [.add 1 10, .del 1, .add 1 11]) 1 = some 11 := by decide

end SL.C05
