import SLModel.Core.Snapshot
/-!
# C06 — readers see one consistent snapshot during commits and compaction

Model: `Core/Snapshot` (`IndexReader::open` = copy the manifest, then open the files of the
copy; commit = create + publish; compaction = create + publish + unlink of the old files).

* `reader_snapshot` — a reader that finished opening answers from what it opened, whatever
  commits, compactions and unlinks follow (needs only "open handles survive unlink", which the
  model builds in by capturing content at open time): a reader opened before a change keeps
  returning the pre-change results.
* `reader_open_succeeds` — **full strength for the repaired protocol** (commit fefbd27: the
  manifest read guard is held until the last segment is open): for every schedule of the
  repaired protocol (`legalFrom`) starting from a closed manifest the open succeeds and holds
  exactly the snapshot of the manifest it copied.  The harness evaluates `legalFrom` on every
  recorded schedule (it is false exactly when a publish falls into a reader's window or a file
  of the manifest in force is removed).
* `reader_open_succeeds_partial` / `reader_open_succeeds_sched_partial` — the window lemma the
  full theorem rests on (hypothesis `windowProtected`/`openWindowProtected`: no file of the
  copied manifest is unlinked or overwritten between the copy and the last open).  For the
  ORIGINAL protocol (read guard released right after the copy) this was all that could be
  proved: without the guard the unconditional statement is false — `Index::compact` unlinks the
  files of the manifest it replaced while a reader that copied that manifest may still be
  about to open them.  `compact_breaks_open` stays as the negative witness (by `decide`) for
  the original protocol, `breakingSched_illegal` shows that schedule is excluded by the repaired
  one, `reader_open_under_guard` is the atomic special case.
* `reader_open_succeeds_commits` — full for commits: schedules without unlinks whose creates use
  fresh names never break an open.
-/
namespace SL.C06
open SL.Snap

variable {κ μ γ : Type} [DecidableEq κ]

/-! ## finished readers are immutable -/

def Done (r : Reader κ μ γ) : Prop := r.todo = [] ∧ r.failed = false

theorem openNext_done (w : World κ μ γ) (r : Reader κ μ γ) (h : r.todo = []) : openNext w r = r := by
  unfold openNext
  split
  · rfl
  · rw [h]

theorem step_done (w : World κ μ γ) (r : Reader κ μ γ) (h : r.todo = []) (s : Step κ μ γ) :
    (step (w, some r) s).2 = some r := by
  cases s with
  | env a => rfl
  | rd => simp only [step]; rw [openNext_done w r h]

/-- **Snapshot stability.**  Once a reader has opened everything, no later commit, compaction,
unlink or further reader step changes what it holds. -/
theorem reader_snapshot (ss : List (Step κ μ γ)) (w : World κ μ γ) (r : Reader κ μ γ)
    (h : r.todo = []) : (run (w, some r) ss).2 = some r := by
  induction ss generalizing w with
  | nil => rfl
  | cons s ss ih =>
    simp only [run, List.foldl_cons] at ih ⊢
    have h2 := step_done w r h s
    cases hst : step (w, some r) s with
    | mk w1 o =>
      rw [hst] at h2
      simp only at h2
      subst h2
      exact ih w1

/-! ## protected window ⇒ the open succeeds and sees the copied manifest -/

theorem lookup_remove_ne (d : List (κ × γ)) (a b : κ) (h : a ≠ b) :
    lookup (remove d a) b = lookup d b := by
  induction d with
  | nil => rfl
  | cons p r ih =>
    simp only [remove, List.filter_cons] at ih ⊢
    by_cases hp : p.1 = a
    · have hpb : ¬ p.1 = b := by intro hb; apply h; rw [← hp, hb]
      simp only [hp, decide_true, Bool.not_true]
      rw [if_neg (by simp), ih]
      simp only [lookup]
      rw [if_neg hpb]
    · have : (!decide (p.1 = a)) = true := by simp [hp]
      simp only [this, if_true, lookup, ih]

/-- an action that is protected w.r.t. `copied` leaves the files named in `copied` alone -/
theorem lookup_act (w : World κ μ γ) (a : Act κ μ γ) (copied : List κ) (n : κ)
    (hn : n ∈ copied) (hp : protectedAct copied a = true) :
    lookup (act w a).dir n = lookup w.dir n := by
  cases a with
  | create x c =>
    simp only [protectedAct, Bool.not_eq_true', List.contains_eq_mem, decide_eq_false_iff_not] at hp
    have hx : x ≠ n := by intro h; apply hp; rw [h]; exact hn
    simp only [act, lookup]
    rw [if_neg hx, lookup_remove_ne _ _ _ hx]
  | publish m => rfl
  | unlink x =>
    simp only [protectedAct, Bool.not_eq_true', List.contains_eq_mem, decide_eq_false_iff_not] at hp
    have hx : x ≠ n := by intro h; apply hp; rw [h]; exact hn
    simp only [act]
    rw [lookup_remove_ne _ _ _ hx]

theorem snapshot_congr (d d' : List (κ × γ)) (m : List (κ × μ))
    (h : ∀ n ∈ names m, lookup d' n = lookup d n) : snapshot d' m = snapshot d m := by
  induction m with
  | nil => rfl
  | cons p rest ih =>
    obtain ⟨n, x⟩ := p
    simp only [snapshot]
    rw [h n (by simp [names]), ih (fun k hk => h k (by simp only [names, List.map_cons, List.mem_cons] at hk ⊢; exact Or.inr hk))]

/-- reader invariant inside the window -/
def Inv (copied : List κ) (snap : List (κ × μ × γ)) (w : World κ μ γ) (r : Reader κ μ γ) : Prop :=
  r.failed = false ∧ (∀ n ∈ names r.todo, n ∈ copied) ∧
  ∃ rest, snapshot w.dir r.todo = some rest ∧ r.opened ++ rest = snap

theorem inv_env (copied : List κ) (snap : List (κ × μ × γ)) (w : World κ μ γ) (r : Reader κ μ γ)
    (a : Act κ μ γ) (hi : Inv copied snap w r) (hp : protectedAct copied a = true) :
    Inv copied snap (act w a) r := by
  obtain ⟨hf, hsub, rest, hs, ho⟩ := hi
  refine ⟨hf, hsub, rest, ?_, ho⟩
  rw [snapshot_congr w.dir (act w a).dir r.todo (fun n hn => lookup_act w a copied n (hsub n hn) hp)]
  exact hs

theorem openNext_some (w : World κ μ γ) (r : Reader κ μ γ) (n : κ) (m : μ) (rest : List (κ × μ))
    (c : γ) (hf : r.failed = false) (ht : r.todo = (n, m) :: rest) (hl : lookup w.dir n = some c) :
    openNext w r = { r with todo := rest, opened := r.opened ++ [(n, m, c)] } := by
  unfold openNext
  simp only [hf, Bool.false_eq_true, if_false, ht, hl]

theorem inv_rd (copied : List κ) (snap : List (κ × μ × γ)) (w : World κ μ γ) (r : Reader κ μ γ)
    (hi : Inv copied snap w r) :
    Inv copied snap w (openNext w r) ∧ (openNext w r).todo.length = r.todo.length - 1 := by
  cases htodo : r.todo with
  | nil =>
    rw [openNext_done w r htodo]
    exact ⟨hi, by simp [htodo]⟩
  | cons p rest' =>
    obtain ⟨hf, hsub, rest, hs, ho⟩ := hi
    obtain ⟨n, m⟩ := p
    rw [htodo] at hs
    simp only [snapshot] at hs
    cases hl : lookup w.dir n with
    | none => rw [hl] at hs; simp at hs
    | some c =>
      cases hr : snapshot w.dir rest' with
      | none => rw [hl, hr] at hs; simp at hs
      | some l =>
        rw [hl, hr] at hs
        simp only [Option.some.injEq] at hs
        rw [openNext_some w r n m rest' c hf htodo hl]
        refine ⟨⟨hf, ?_, l, hr, ?_⟩, by simp⟩
        · intro k hk
          apply hsub k
          rw [htodo]
          simp only [names, List.map_cons, List.mem_cons] at hk ⊢
          exact Or.inr hk
        · rw [← ho, ← hs]; simp

theorem finish_inv (copied : List κ) (snap : List (κ × μ × γ)) (w : World κ μ γ) :
    ∀ (k : Nat) (r : Reader κ μ γ), r.todo.length = k → Inv copied snap w r →
    (finish w r).failed = false ∧ (finish w r).todo = [] ∧ (finish w r).opened = snap := by
  intro k
  induction k with
  | zero =>
    intro r hk hi
    have htodo : r.todo = [] := List.length_eq_zero_iff.mp hk
    obtain ⟨hf, _, rest, hs, ho⟩ := hi
    simp only [finish, hk, List.replicate_zero, List.foldl_nil]
    refine ⟨hf, htodo, ?_⟩
    rw [htodo] at hs
    simp only [snapshot, Option.some.injEq] at hs
    rw [← ho, ← hs]; simp
  | succ k ih =>
    intro r hk hi
    obtain ⟨hi', hlen⟩ := inv_rd copied snap w r hi
    have hk' : (openNext w r).todo.length = k := by rw [hlen, hk]; rfl
    have := ih (openNext w r) hk' hi'
    simp only [finish, hk, List.replicate_succ, List.foldl_cons] at this ⊢
    rw [hk'] at this
    exact this

theorem window_run (copied : List κ) (snap : List (κ × μ × γ)) :
    ∀ (ss : List (Step κ μ γ)) (w : World κ μ γ) (r : Reader κ μ γ),
    Inv copied snap w r → windowProtected copied r.todo.length ss = true →
    ∃ w' r', run (w, some r) ss = (w', some r') ∧
      (finish w' r').failed = false ∧ (finish w' r').todo = [] ∧ (finish w' r').opened = snap := by
  intro ss
  induction ss with
  | nil =>
    intro w r hi _
    exact ⟨w, r, rfl, finish_inv copied snap w _ r rfl hi⟩
  | cons s ss ih =>
    intro w r hi hp
    cases hk : r.todo.length with
    | zero =>
      -- the reader is done: nothing changes it any more
      have htodo : r.todo = [] := List.length_eq_zero_iff.mp hk
      have hrs := reader_snapshot (s :: ss) w r htodo
      cases hrun : run (w, some r) (s :: ss) with
      | mk w1 o =>
        rw [hrun] at hrs
        simp only at hrs
        subst hrs
        refine ⟨w1, r, rfl, ?_⟩
        have hfin : finish w1 r = r := by
          simp [finish, hk]
        rw [hfin]
        obtain ⟨hf, _, rest, hs, ho⟩ := hi
        refine ⟨hf, htodo, ?_⟩
        rw [htodo] at hs
        simp only [snapshot, Option.some.injEq] at hs
        rw [← ho, ← hs]; simp
    | succ k =>
      rw [hk] at hp
      cases s with
      | rd =>
        simp only [windowProtected] at hp
        obtain ⟨hi', hlen⟩ := inv_rd copied snap w r hi
        have hk' : (openNext w r).todo.length = k := by rw [hlen, hk]; rfl
        have := ih w (openNext w r) hi' (by rw [hk']; exact hp)
        simpa [run, step] using this
      | env a =>
        simp only [windowProtected, Bool.and_eq_true] at hp
        have hi' := inv_env copied snap w r a hi hp.1
        have := ih (act w a) r hi' (by rw [hk]; exact hp.2)
        simpa [run, step] using this

theorem inv_copy (w : World κ μ γ) (snap : List (κ × μ × γ))
    (hclosed : snapshot w.dir w.manifest = some snap) : Inv (names w.manifest) snap w (copy w) :=
  ⟨rfl, fun _ hn => hn, snap, hclosed, by simp [copy]⟩

/-- **Open succeeds — partial** (hypothesis: the window is protected).  If the manifest in force
denotes a complete snapshot when the reader copies it and no file of the copy is unlinked or
overwritten until the last segment is open, then — for every interleaving `ss` of commits,
compactions and reader steps — the open does not fail, opens everything, and holds exactly
that snapshot: the reader sees exactly one committed state. -/
theorem reader_open_succeeds_partial (w : World κ μ γ) (snap : List (κ × μ × γ))
    (ss : List (Step κ μ γ)) (hclosed : snapshot w.dir w.manifest = some snap)
    (hprot : windowProtected (names w.manifest) w.manifest.length ss = true) :
    ∃ w' r', run (w, none) (.rd :: ss) = (w', some r') ∧
      (finish w' r').failed = false ∧ (finish w' r').todo = [] ∧ (finish w' r').opened = snap := by
  have := window_run (names w.manifest) snap ss w (copy w) (inv_copy w snap hclosed)
    (by simpa [copy] using hprot)
  simpa [run, step] using this

/-- the monitor on whole schedules reduces to `windowProtected` at the copy -/
theorem openWindowProtected_split (pre : List (Act κ μ γ)) (post : List (Step κ μ γ))
    (w : World κ μ γ) :
    openWindowProtected w.manifest (pre.map .env ++ .rd :: post) =
      windowProtected (names (pre.foldl act w).manifest) (pre.foldl act w).manifest.length post := by
  induction pre generalizing w with
  | nil => rfl
  | cons a pre ih =>
    cases a with
    | create n c => simpa [openWindowProtected, act] using ih (act w (.create n c))
    | publish m => simpa [openWindowProtected, act] using ih (act w (.publish m))
    | unlink n => simpa [openWindowProtected, act] using ih (act w (.unlink n))

theorem run_pre (pre : List (Act κ μ γ)) (w : World κ μ γ) :
    run (w, (none : Option (Reader κ μ γ))) (pre.map .env) = (pre.foldl act w, none) := by
  induction pre generalizing w with
  | nil => rfl
  | cons a pre ih => simpa [run, step] using ih (act w a)

/-- `reader_open_succeeds_partial` for a whole recorded schedule `pre ++ [copy] ++ post`, with
the monitor `openWindowProtected` as evaluated by the driver -/
theorem reader_open_succeeds_sched_partial (w0 : World κ μ γ) (pre : List (Act κ μ γ))
    (post : List (Step κ μ γ)) (snap : List (κ × μ × γ))
    (hclosed : snapshot (pre.foldl act w0).dir (pre.foldl act w0).manifest = some snap)
    (hmon : openWindowProtected w0.manifest (pre.map .env ++ .rd :: post) = true) :
    ∃ w' r', run (w0, none) (pre.map .env ++ .rd :: post) = (w', some r') ∧
      (finish w' r').failed = false ∧ (finish w' r').todo = [] ∧ (finish w' r').opened = snap := by
  rw [openWindowProtected_split] at hmon
  have := reader_open_succeeds_partial (pre.foldl act w0) snap post hclosed hmon
  simp only [run, List.foldl_append] at this ⊢
  have hp := run_pre pre w0
  simp only [run] at hp
  rw [hp]
  exact this

/-! ## commits alone never break an open (full) -/

def commitLike (copied : List κ) : Step κ μ γ → Bool
  | .env (.create n _) => !(copied.contains n)
  | .env (.publish _) => true
  | .env (.unlink _) => false
  | .rd => true

theorem windowProtected_of_commits (copied : List κ) : ∀ (ss : List (Step κ μ γ)) (k : Nat),
    ss.all (commitLike copied) = true → windowProtected copied k ss = true := by
  intro ss
  induction ss with
  | nil => intro k _; cases k <;> rfl
  | cons s ss ih =>
    intro k h
    simp only [List.all_cons, Bool.and_eq_true] at h
    cases k with
    | zero => rfl
    | succ k =>
      cases s with
      | rd => exact ih k h.2
      | env a =>
        cases a with
        | create n c =>
          simp only [windowProtected, protectedAct, Bool.and_eq_true]
          exact ⟨h.1, ih (k + 1) h.2⟩
        | publish m =>
          simp only [windowProtected, protectedAct, Bool.true_and]
          exact ih (k + 1) h.2
        | unlink n => simp [commitLike] at h

/-- **Full for commits**: against any number of concurrent commits (new segment files under
fresh names, manifest swaps, no unlink) a reader's open never fails and sees exactly the
manifest it copied. -/
theorem reader_open_succeeds_commits (w : World κ μ γ) (snap : List (κ × μ × γ))
    (ss : List (Step κ μ γ)) (hclosed : snapshot w.dir w.manifest = some snap)
    (hc : ss.all (commitLike (names w.manifest)) = true) :
    ∃ w' r', run (w, none) (.rd :: ss) = (w', some r') ∧
      (finish w' r').failed = false ∧ (finish w' r').todo = [] ∧ (finish w' r').opened = snap :=
  reader_open_succeeds_partial w snap ss hclosed (windowProtected_of_commits _ ss _ hc)

/-! ## the writer programs keep published manifests closed -/

theorem lookup_create_self (w : World κ μ γ) (n : κ) (c : γ) :
    lookup (act w (.create n c)).dir n = some c := by
  simp [act, lookup]

/-- compaction into a fresh name publishes a closed manifest — and unlinks every file of the
manifest it replaced -/
theorem compact_closed (w : World κ μ γ) (n : κ) (m : μ) (c : γ) (hfresh : n ∉ names w.manifest) :
    let w' := (compactActs w.manifest n m c).foldl act w
    snapshot w'.dir w'.manifest = some [(n, m, c)] ∧ ∀ x ∈ names w.manifest, lookup w'.dir x = none := by
  have hun : ∀ (l : List κ) (v : World κ μ γ),
      ((l.map Act.unlink).foldl act v).manifest = v.manifest ∧
      (∀ x, x ∈ l → lookup ((l.map Act.unlink).foldl act v).dir x = none) ∧
      (∀ x, x ∉ l → lookup ((l.map Act.unlink).foldl act v).dir x = lookup v.dir x) := by
    intro l
    induction l with
    | nil => intro v; exact ⟨rfl, fun x hx => (by cases hx), fun x _ => rfl⟩
    | cons a l ih =>
      intro v
      obtain ⟨h1, h2, h3⟩ := ih (act v (.unlink a))
      simp only [List.map_cons, List.foldl_cons]
      refine ⟨h1, ?_, ?_⟩
      · intro x hx
        by_cases hxl : x ∈ l
        · exact h2 x hxl
        · rw [h3 x hxl]
          have hxa : x = a := by
            cases hx with
            | head => rfl
            | tail _ h => exact absurd h hxl
          subst hxa
          simp only [act]
          have : ∀ d : List (κ × γ), lookup (remove d x) x = none := by
            intro d
            induction d with
            | nil => rfl
            | cons p r ihd =>
              simp only [remove, List.filter_cons] at ihd ⊢
              by_cases hp : p.1 = x
              · simp [hp, ihd]
              · simp [hp, lookup, ihd]
          exact this _
      · intro x hx
        have hxa : a ≠ x := by intro h; apply hx; rw [h]; exact List.mem_cons_self
        have hxl : x ∉ l := fun h => hx (List.mem_cons_of_mem _ h)
        rw [h3 x hxl]
        simp only [act]
        exact lookup_remove_ne _ _ _ hxa
  intro w'
  obtain ⟨h1, h2, h3⟩ := hun (names w.manifest) (act (act w (.create n c)) (.publish [(n, m)]))
  have hw' : w' = ((names w.manifest).map Act.unlink).foldl act (act (act w (.create n c)) (.publish [(n, m)])) := by
    simp [w', compactActs]
  rw [hw']
  refine ⟨?_, h2⟩
  rw [h1]
  have hm : (act (act w (.create n c)) (.publish [(n, m)])).manifest = [(n, m)] := rfl
  rw [hm]
  simp only [snapshot]
  rw [h3 n hfresh]
  simp [act, lookup]

/-- commit: if the new manifest only names old files and the new segment, it
is closed again (commit never unlinks) -/
theorem commit_closed (w : World κ μ γ) (n : κ) (c : γ) (newM : List (κ × μ))
    (hsub : ∀ x ∈ names newM, x = n ∨ (x ∈ names w.manifest ∧ (lookup w.dir x).isSome = true)) :
    let w' := (commitActs newM n c).foldl act w
    (snapshot w'.dir w'.manifest).isSome = true := by
  intro w'
  have hw' : w' = act (act w (.create n c)) (.publish newM) := rfl
  rw [hw']
  have hm : (act (act w (.create n c)) (.publish newM)).manifest = newM := rfl
  have hd : (act (act w (.create n c)) (.publish newM)).dir = (n, c) :: remove w.dir n := rfl
  rw [hm, hd]
  clear hw' hm hd w'
  induction newM with
  | nil => rfl
  | cons p rest ih =>
    obtain ⟨x, m⟩ := p
    have hrest := ih (fun y hy => hsub y (by simp only [names, List.map_cons, List.mem_cons] at hy ⊢; exact Or.inr hy))
    simp only [snapshot]
    have hx := hsub x (by simp [names])
    have hl : (lookup ((n, c) :: remove w.dir n) x).isSome = true := by
      simp only [lookup]
      by_cases hnx : n = x
      · simp [hnx]
      · rw [if_neg hnx, lookup_remove_ne _ _ _ hnx]
        rcases hx with h | h
        · exact absurd h.symm hnx
        · exact h.2
    cases h1 : lookup ((n, c) :: remove w.dir n) x with
    | none => rw [h1] at hl; cases hl
    | some v =>
      cases h2 : snapshot ((n, c) :: remove w.dir n) rest with
      | none => rw [h2] at hrest; cases hrest
      | some l => rfl

/-- the candidate repair — opening the segments while still holding the manifest read guard —
makes copy + opens one atomic block: no environment step falls into the window, so the open
always succeeds (instance of the partial theorem with an empty window) -/
theorem reader_open_under_guard (w : World κ μ γ) (snap : List (κ × μ × γ))
    (hclosed : snapshot w.dir w.manifest = some snap) :
    ∃ w' r', run (w, none) (.rd :: List.replicate w.manifest.length .rd) = (w', some r') ∧
      (finish w' r').failed = false ∧ (finish w' r').todo = [] ∧ (finish w' r').opened = snap := by
  apply reader_open_succeeds_partial w snap _ hclosed
  have : ∀ (k j : Nat), windowProtected (κ := κ) (μ := μ) (γ := γ) (names w.manifest) k (List.replicate j .rd) = true := by
    intro k j
    induction j generalizing k with
    | zero => cases k <;> rfl
    | succ j ih =>
      cases k with
      | zero => rfl
      | succ k => simpa [List.replicate_succ, windowProtected] using ih k
  exact this _ _

/-! ## non-vacuity and the negative witness -/

/-- two segments `0,1`; the reader copies `[0,1]`; a commit adds segment `2`; the reader opens -/
def exWorld : World Nat Nat Nat := { dir := [(0, 100), (1, 101)], manifest := [(0, 0), (1, 0)] }

example : windowProtected (names exWorld.manifest) 2
    [.env (.create 2 102), .env (.publish [(0, 0), (1, 1), (2, 0)]), .rd, .rd] = true := by decide
example : snapshot exWorld.dir exWorld.manifest = some [(0, 0, 100), (1, 0, 101)] := by decide
example : ((run (exWorld, none)
    [.rd, .env (.create 2 102), .env (.publish [(0, 0), (1, 1), (2, 0)]), .rd, .rd]).2.map (·.opened))
    = some [(0, 0, 100), (1, 0, 101)] := by decide

/-- the schedule of the finding: reader copies the manifest; compaction runs to the end
(create, publish, unlink old files); reader opens its first segment -/
def breakingSched : List (Step Nat Nat Nat) :=
  .rd :: ((compactActs exWorld.manifest 2 0 102).map .env ++ [.rd, .rd])

/-- **Negative witness for the ORIGINAL protocol** (read guard released right after the copy):
the open fails although every published manifest was closed when it was published. -/
theorem compact_breaks_open :
    ((run (exWorld, none) breakingSched).2.map (·.failed)) = some true ∧
    openWindowProtected exWorld.manifest breakingSched = false := by decide

/-- the same compaction *before* the copy, or after the last open, is harmless -/
example : ((run (exWorld, none)
    ((compactActs exWorld.manifest 2 0 102).map .env ++ [.rd, .rd])).2.map (fun r => (r.failed, r.opened)))
    = some (false, [(2, 0, 102)]) := by decide
example : ((run (exWorld, none)
    ([.rd, .rd, .rd] ++ (compactActs exWorld.manifest 2 0 102).map .env)).2.map (fun r => (r.failed, r.opened)))
    = some (false, [(0, 0, 100), (1, 0, 101)]) := by decide
example : openWindowProtected exWorld.manifest
    ([.rd, .rd, .rd] ++ (compactActs exWorld.manifest 2 0 102).map .env) = true := by decide

/-! ## the repaired protocol: the open always succeeds (full strength) -/

theorem closed_act (w : World κ μ γ) (a : Act κ μ γ)
    (hc : closed w = true)
    (hl : match a with
          | .create n _ => (names w.manifest).contains n = false
          | .unlink n => (names w.manifest).contains n = false
          | .publish m => closed { w with manifest := m } = true) :
    closed (act w a) = true := by
  cases a with
  | publish m => exact hl
  | create n c =>
    simp only [closed] at hc ⊢
    have hp : protectedAct (names w.manifest) (Act.create (μ := μ) n c) = true := by
      simp only [protectedAct, hl, Bool.not_false]
    have : snapshot (act w (.create n c)).dir (act w (.create n c)).manifest = snapshot w.dir w.manifest :=
      snapshot_congr w.dir _ w.manifest (fun x hx => lookup_act w (.create n c) (names w.manifest) x hx hp)
    rw [this]; exact hc
  | unlink n =>
    simp only [closed] at hc ⊢
    have hp : protectedAct (names w.manifest) (Act.unlink (μ := μ) (γ := γ) n) = true := by
      simp only [protectedAct, hl, Bool.not_false]
    have : snapshot (act w (.unlink n)).dir (act w (.unlink n)).manifest = snapshot w.dir w.manifest :=
      snapshot_congr w.dir _ w.manifest (fun x hx => lookup_act w (.unlink n) (names w.manifest) x hx hp)
    rw [this]; exact hc

/-- before the copy: legal writer steps keep the manifest in force closed -/
theorem legal_pre (pre : List (Act κ μ γ)) (post : List (Step κ μ γ)) : ∀ (w : World κ μ γ),
    closed w = true → legalFrom w none (pre.map .env ++ .rd :: post) = true →
    closed (pre.foldl act w) = true ∧
      legalFrom (pre.foldl act w) (some (pre.foldl act w).manifest.length) post = true := by
  induction pre with
  | nil => intro w hc hl; exact ⟨hc, by simpa [legalFrom] using hl⟩
  | cons a pre ih =>
    intro w hc hl
    cases a with
    | create n c =>
      simp only [List.map_cons, List.cons_append, legalFrom, Bool.and_eq_true, Bool.not_eq_true'] at hl
      exact ih _ (closed_act w (.create n c) hc hl.1) hl.2
    | unlink n =>
      simp only [List.map_cons, List.cons_append, legalFrom, Bool.and_eq_true, Bool.not_eq_true'] at hl
      exact ih _ (closed_act w (.unlink n) hc hl.1) hl.2
    | publish m =>
      simp only [List.map_cons, List.cons_append, legalFrom, Bool.and_eq_true] at hl
      exact ih _ (closed_act w (.publish m) hc hl.1.2) hl.2

/-- inside the window: a legal schedule never publishes, so the manifest in force stays the copy
and neither creates nor unlinks touch its files -/
theorem legal_window : ∀ (post : List (Step κ μ γ)) (w : World κ μ γ) (k : Nat),
    legalFrom w (some k) post = true → windowProtected (names w.manifest) k post = true := by
  intro post
  induction post with
  | nil => intro w k _; cases k <;> rfl
  | cons s post ih =>
    intro w k hl
    cases k with
    | zero => rfl
    | succ k =>
      cases s with
      | rd =>
        simp only [legalFrom] at hl
        simpa [windowProtected] using ih w k hl
      | env a =>
        cases a with
        | publish m => simp [legalFrom] at hl
        | create n c =>
          simp only [legalFrom, Bool.and_eq_true] at hl
          simp only [windowProtected, protectedAct, Bool.and_eq_true]
          exact ⟨hl.1, ih (act w (.create n c)) (k + 1) hl.2⟩
        | unlink n =>
          simp only [legalFrom, Bool.and_eq_true] at hl
          simp only [windowProtected, protectedAct, Bool.and_eq_true]
          exact ⟨hl.1, ih (act w (.unlink n)) (k + 1) hl.2⟩

/-- **C06, open succeeds — full strength for the repaired protocol.**  Start from any world
whose manifest is closed.  For EVERY schedule of commits, compactions, unlinks and reader steps
that is a schedule of the repaired protocol (`legalFrom`: no publish while the reader holds the
manifest read guard; creates and unlinks never touch files of the manifest in force; only
closed manifests are published) the reader's open does not fail, opens everything, and holds
exactly the snapshot denoted by the manifest in force when it copied it — one committed state.
No hypothesis about the window is left: protection follows from the protocol. -/
theorem reader_open_succeeds (w0 : World κ μ γ) (pre : List (Act κ μ γ)) (post : List (Step κ μ γ))
    (hclosed : closed w0 = true)
    (hlegal : legalFrom w0 none (pre.map .env ++ .rd :: post) = true) :
    ∃ snap w' r', snapshot (pre.foldl act w0).dir (pre.foldl act w0).manifest = some snap ∧
      run (w0, none) (pre.map .env ++ .rd :: post) = (w', some r') ∧
      (finish w' r').failed = false ∧ (finish w' r').todo = [] ∧ (finish w' r').opened = snap := by
  obtain ⟨hc, hl⟩ := legal_pre pre post w0 hclosed hlegal
  have hprot := legal_window post _ _ hl
  cases hs : snapshot (pre.foldl act w0).dir (pre.foldl act w0).manifest with
  | none => simp [closed, hs] at hc
  | some snap =>
    have hmon : openWindowProtected w0.manifest (pre.map .env ++ .rd :: post) = true := by
      rw [openWindowProtected_split]; exact hprot
    obtain ⟨w', r', h1, h2⟩ := reader_open_succeeds_sched_partial w0 pre post snap hs hmon
    exact ⟨snap, w', r', rfl, h1, h2⟩

/-- the schedule of the original defect is not a schedule of the repaired protocol: the
compaction's publish falls inside the reader's guard -/
theorem breakingSched_illegal : legalFrom exWorld none breakingSched = false := by decide

/-- non-vacuity: the same compaction after the reader finished is a legal schedule, and so is a
commit (create + publish of a closed manifest) before the copy -/
example : legalFrom exWorld none
    ([.rd, .rd, .rd] ++ (compactActs exWorld.manifest 2 0 102).map .env) = true := by decide
example : legalFrom exWorld none
    [.env (.create 2 102), .env (.publish [(0, 0), (1, 1), (2, 0)]), .rd, .rd, .rd, .rd] = true := by decide

end SL.C06
