import SLModel.Core.Query
import SLModel.Lemmas.Query
import SLModel.Lemmas.Rx
/-!
# C07 — query matching follows the documented query semantics

Model: `SLModel/Core/Query.lean`.  `Spec.matchesQ` is the documented boolean semantics on one
analysed document; `searchSeg`/`search` model what `IndexReader::search` does per segment
(`plan` → `expandGroup` against the segment dictionaries → `candidates` → `evalM` → root filter →
tombstones).  All statements quantify over every context (schema kinds, analyzers, regex engine,
fuzzy options), every corpus split into any segments with any tombstones, every query tree and
root filter.

Tie to the code: `Drv/C07` runs `search` (correspondence with the hit-id set of the real
`IndexReader::search`) and `Spec.searchOrds` (finder) on generated cases; the harness ships the
outputs of the real analyzers / regex engine as the `Ctx` parameters.

**Full statement (does NOT hold for the code as it is — see `mechanism_ne_spec_witness`):**

```
theorem mechanism_eq_spec (hx : expansionsComplete c segs q = true) (hs : s ∈ segs) (o : Nat) :
    o ∈ searchSegQ c segs q root s ↔ Spec.wanted c q root s o = true
```

What holds is `mechanism_characterisation` (exactly which wanted documents are lost) and
`mechanism_eq_spec_partial` under three decidable hypotheses, each the negation of the signature
predicate of one known finding:

* `coveredByScoredTerms`  — `candidates.unscored-required-doc` (witness `mechanism_ne_spec_witness`)
* `expansionsComplete` (implied by `belowCaps` + `rxPrefixOk`, `expansionsComplete_of_caps`)
                          — `regex.literal-prefix`, repaired in /repo (eccd200): legacy witness
                            `legacy_regex_prefix_witness`, soundness of the repaired prefix
                            relative to the engine: `regex_prefix_sound`
* `Q.rootChain` (function_score / script_score clauses only as a chain at the root)
                          — `score-drop.nested` (witness `nested_drop_witness`)
-/
namespace SL.Query

/-! ## candidates -/

theorem mem_candidates {quals : List (Str × Str)} {s : Seg} {o : Nat} :
    o ∈ candidates quals s ↔
      (quals = [] ∧ o < s.docs.length) ∨ (quals ≠ [] ∧ hasQualified quals s o = true) := by
  unfold candidates hasQualified
  cases quals with
  | nil => simp
  | cons k ks =>
    simp only [List.isEmpty_cons, Bool.false_eq_true, if_false, mem_dedup, List.mem_flatMap,
      List.any_eq_true, List.contains_iff_mem]
    constructor
    · rintro ⟨a, ha, hm⟩; exact Or.inr ⟨by simp, a, ha, hm⟩
    · rintro (⟨h, _⟩ | ⟨_, a, ha, hm⟩)
      · cases h
      · exact ⟨a, ha, hm⟩

theorem candidates_lt {quals : List (Str × Str)} {s : Seg} {o : Nat} (h : o ∈ candidates quals s) :
    o < s.docs.length := by
  rcases mem_candidates.mp h with ⟨_, h⟩ | ⟨_, h⟩
  · exact h
  · unfold hasQualified at h
    obtain ⟨k, _, hk⟩ := List.any_eq_true.mp h
    obtain ⟨d, hd, _⟩ := mem_postings.mp (List.contains_iff_mem.mp hk)
    exact (List.getElem?_eq_some_iff.mp hd).1

theorem expansionsComplete_iff {c : Ctx} {segs : List Seg} {q : Q} :
    expansionsComplete c segs q = true ↔ ∀ g ∈ (plan c true q).groups, GroupOK c segs g := by
  unfold expansionsComplete
  rw [List.all_eq_true]
  constructor
  · intro h g hg; exact (groupComplete_iff c segs g).mp (h g hg)
  · intro h g hg; exact (groupComplete_iff c segs g).mpr (h g hg)

/-- `accept` = "wanted by the documented semantics" on every ordinal of the segment -/
theorem accept_eq_wanted {c : Ctx} {segs : List Seg} {q : Q} (root : Option Flt)
    (hr : q.rootChain = true)
    (hx : expansionsComplete c segs q = true) {s : Seg} (hs : s ∈ segs) {o : Nat} {d : ADoc}
    (hd : s.docs[o]? = some d) :
    accept c segs (plan c true q) (scoreTree c true q) root s o = Spec.wanted c q root s o := by
  unfold accept Spec.wanted
  simp only [hd]
  rw [← rootChain_accept c hs hd q hr (expansionsComplete_iff.mp hx)]
  cases root with
  | none =>
    cases s.deleted.contains o <;> cases evalM c segs s o (plan c true q) <;>
      cases dropped c segs s o d (scoreTree c true q) <;> rfl
  | some f =>
    simp only [docPasses_eq hd, Flt.passesAll, Bool.and_true]
    cases s.deleted.contains o <;> cases evalM c segs s o (plan c true q) <;>
      cases dropped c segs s o d (scoreTree c true q) <;> cases Flt.passes d f <;> rfl

/-! ## the mechanism, characterised exactly -/

/-- **What a search returns.**  Provided the expansions are complete (always true for exact terms
without fuzzy options; true below the caps otherwise), ordinal `o` of segment `s` is returned iff
the document is live, satisfies the documented semantics and the root filter, **and** either the
request has no scored term at all (full scan) or the document is listed under one of its scored
terms. -/
theorem mechanism_characterisation (c : Ctx) (segs : List Seg) (q : Q) (root : Option Flt)
    (hr : q.rootChain = true)
    (hx : expansionsComplete c segs q = true) {s : Seg} (hs : s ∈ segs) (o : Nat) :
    o ∈ searchSegQ c segs q root s ↔
      (Spec.wanted c q root s o = true ∧
        (qualified c segs (plan c true q) = [] ∨
          hasQualified (qualified c segs (plan c true q)) s o = true)) := by
  unfold searchSegQ searchSeg
  rw [List.mem_filter]
  cases hd : s.docs[o]? with
  | none =>
    constructor
    · rintro ⟨hc, _⟩
      have := candidates_lt hc
      have h2 : s.docs[o]? ≠ none := by
        intro hn; rw [List.getElem?_eq_none_iff] at hn; omega
      exact absurd hd h2
    · rintro ⟨hw, _⟩
      unfold Spec.wanted at hw
      rw [hd] at hw
      cases hw
  | some d =>
    rw [accept_eq_wanted root hr hx hs hd, mem_candidates]
    have hlt : o < s.docs.length := (List.getElem?_eq_some_iff.mp hd).1
    constructor
    · rintro ⟨hc, hw⟩
      refine ⟨hw, ?_⟩
      rcases hc with ⟨h, _⟩ | ⟨_, h⟩
      · exact Or.inl h
      · exact Or.inr h
    · rintro ⟨hw, hq⟩
      refine ⟨?_, hw⟩
      by_cases hnil : qualified c segs (plan c true q) = []
      · exact Or.inl ⟨hnil, hlt⟩
      · rcases hq with h | h
        · exact absurd h hnil
        · exact Or.inr ⟨hnil, h⟩

theorem coveredByScoredTerms_iff {c : Ctx} {segs : List Seg} {q : Q} {root : Option Flt} :
    coveredByScoredTerms c segs q root = true ↔
      (qualified c segs (plan c true q) = [] ∨
        ∀ s ∈ segs, ∀ o, o < s.docs.length → Spec.wanted c q root s o = true →
          hasQualified (qualified c segs (plan c true q)) s o = true) := by
  unfold coveredByScoredTerms
  simp only [Bool.or_eq_true, List.isEmpty_iff, List.all_eq_true, List.mem_range, Bool.not_eq_eq_eq_not,
    Bool.not_true]
  constructor
  · rintro (h | h)
    · exact Or.inl h
    · refine Or.inr (fun s hs o ho hw => ?_)
      rcases h s hs o ho with h | h
      · rw [hw] at h; cases h
      · exact h
  · rintro (h | h)
    · exact Or.inl h
    · refine Or.inr (fun s hs o ho => ?_)
      cases hw : Spec.wanted c q root s o with
      | false => exact Or.inl rfl
      | true => exact Or.inr (h s hs o ho hw)

/-- **Refinement, partial.**  Under `coveredByScoredTerms` (every wanted document contains a scored
term, or the request has none) the returned ordinals of every segment are exactly the wanted ones. -/
theorem mechanism_eq_spec_partial (c : Ctx) (segs : List Seg) (q : Q) (root : Option Flt)
    (hr : q.rootChain = true)
    (hx : expansionsComplete c segs q = true) (hcov : coveredByScoredTerms c segs q root = true)
    {s : Seg} (hs : s ∈ segs) (o : Nat) :
    o ∈ searchSegQ c segs q root s ↔
      o ∈ (List.range s.docs.length).filter (Spec.wanted c q root s) := by
  rw [mechanism_characterisation c segs q root hr hx hs o, List.mem_filter, List.mem_range]
  constructor
  · rintro ⟨hw, _⟩
    refine ⟨?_, hw⟩
    unfold Spec.wanted at hw
    cases hd : s.docs[o]? with
    | none => rw [hd] at hw; cases hw
    | some d => exact (List.getElem?_eq_some_iff.mp hd).1
  · rintro ⟨hlt, hw⟩
    refine ⟨hw, ?_⟩
    rcases coveredByScoredTerms_iff.mp hcov with h | h
    · exact Or.inl h
    · exact Or.inr (h s hs o hlt hw)

/-- the same, for the id list of the response -/
theorem search_ids_partial (c : Ctx) (segs : List Seg) (q : Q) (root : Option Flt)
    (hr : q.rootChain = true)
    (hx : expansionsComplete c segs q = true) (hcov : coveredByScoredTerms c segs q root = true)
    (id : Str) :
    id ∈ search c segs q root ↔
      ∃ s ∈ segs, ∃ o d, s.docs[o]? = some d ∧ d.id = id ∧ Spec.wanted c q root s o = true := by
  unfold search
  simp only [List.mem_flatMap, List.mem_filterMap, Option.map_eq_some_iff]
  constructor
  · rintro ⟨s, hs, o, ho, d, hd, hid⟩
    have := (mechanism_eq_spec_partial c segs q root hr hx hcov hs o).mp ho
    exact ⟨s, hs, o, d, hd, hid, (List.mem_filter.mp this).2⟩
  · rintro ⟨s, hs, o, d, hd, hid, hw⟩
    refine ⟨s, hs, o, ?_, d, hd, hid⟩
    apply (mechanism_eq_spec_partial c segs q root hr hx hcov hs o).mpr
    exact List.mem_filter.mpr ⟨List.mem_range.mpr (List.getElem?_eq_some_iff.mp hd).1, hw⟩

/-- nothing is ever returned that the documented semantics does not want (no hypothesis on the
scored terms): soundness holds unconditionally, only completeness is lost -/
theorem mechanism_sound (c : Ctx) (segs : List Seg) (q : Q) (root : Option Flt)
    (hr : q.rootChain = true)
    (hx : expansionsComplete c segs q = true) {s : Seg} (hs : s ∈ segs) (o : Nat)
    (h : o ∈ searchSegQ c segs q root s) : Spec.wanted c q root s o = true :=
  ((mechanism_characterisation c segs q root hr hx hs o).mp h).1

/-! ## sufficient conditions for the two hypotheses -/

/-- **Expansions below their caps are complete**: `belowCaps` (prefix/wildcard/regex: at most
`max_expansions` matching dictionary terms per segment; fuzzy: all candidates of a token fit into
`fuzzy.max_expansions`) and `rxPrefixOk` for every term group of the plan give
`expansionsComplete`.  (`rxPrefixOk` failed before repository commit eccd200 for patterns such as `rusts?`, see
`legacy_regex_prefix_witness`; for the repaired prefix function see `regex_prefix_sound`.) -/
theorem expansionsComplete_of_caps (c : Ctx) (segs : List Seg) (q : Q)
    (hcap : (plan c true q).groups.all (belowCaps c segs) = true)
    (hrx : (plan c true q).groups.all (rxPrefixOk c segs) = true) :
    expansionsComplete c segs q = true := by
  rw [expansionsComplete_iff]
  intro g hg
  by_cases he : g.exp = .exact
  · exact fuzzy_groupOK c segs g he (List.all_eq_true.mp hcap g hg)
  · exact pattern_groupOK c segs g he (List.all_eq_true.mp hcap g hg) (List.all_eq_true.mp hrx g hg)

/-- **Levenshtein**: the row-by-row DP of `bounded_levenshtein` with its early exit returns the
textbook (Wagner–Fischer) distance when it is at most `max_edits`, and nothing otherwise. -/
theorem levenshtein_bounded_correct' (a b : Str) (k : Nat) :
    boundedLev a b k = if Spec.lev a b ≤ k then some (Spec.lev a b) else none :=
  levenshtein_bounded_correct a b k

/-- non-vacuity: `rust`/`rusk` are one edit apart, `rust`/`fast` two -/
example : boundedLev [114, 117, 115, 116] [114, 117, 115, 107] 1 = some 1 ∧
    boundedLev [114, 117, 115, 116] [102, 97, 115, 116] 1 = none ∧
    Spec.lev [114, 117, 115, 116] [102, 97, 115, 116] = 2 := by decide

/-- **Syntactic coverage**: if the query tree `forces` a scored term (every must-path or every
required should-path ends in a scored term/query-string/multi-match clause), every wanted document
is covered, on every corpus. -/
theorem forces_covered (c : Ctx) (segs : List Seg) (q : Q) (root : Option Flt)
    (hr : q.rootChain = true)
    (hx : expansionsComplete c segs q = true) (hf : forces true q = true) :
    coveredByScoredTerms c segs q root = true := by
  rw [coveredByScoredTerms_iff]
  right
  intro s hs o _ hw
  unfold Spec.wanted at hw
  cases hd : s.docs[o]? with
  | none => rw [hd] at hw; cases hw
  | some d =>
    rw [hd] at hw
    simp only [Bool.and_eq_true] at hw
    have he : evalM c segs s o (plan c true q) = true := by
      have := rootChain_accept c hs hd q hr (expansionsComplete_iff.mp hx)
      rw [hw.1.2, Bool.and_eq_true] at this
      exact this.1
    exact hasQualified_of_scoredHit c segs s o (forces_hit c segs s o q true hf he)

/-- refinement for forcing queries: no hypothesis about the corpus is left -/
theorem mechanism_eq_spec_of_forces (c : Ctx) (segs : List Seg) (q : Q) (root : Option Flt)
    (hr : q.rootChain = true)
    (hx : expansionsComplete c segs q = true) (hf : forces true q = true)
    {s : Seg} (hs : s ∈ segs) (o : Nat) :
    o ∈ searchSegQ c segs q root s ↔
      o ∈ (List.range s.docs.length).filter (Spec.wanted c q root s) :=
  mechanism_eq_spec_partial c segs q root hr hx (forces_covered c segs q root hr hx hf) hs o

/-- requests without any scored term group are answered by a full scan: always covered -/
theorem unscored_covered (c : Ctx) (segs : List Seg) (q : Q) (root : Option Flt)
    (h : (plan c true q).groups.all (fun g => !g.score) = true) :
    coveredByScoredTerms c segs q root = true := by
  rw [coveredByScoredTerms_iff]
  left
  unfold qualified
  have : (plan c true q).groups.filter (·.score) = [] := by
    rw [List.filter_eq_nil_iff]
    intro g hg
    have := List.all_eq_true.mp h g hg
    simpa using this
  rw [this]; rfl

/-! ## phrase slop -/

/-- `matches_phrase` (the recursive search with remaining slop, early `break` included) on
strictly sorted position lists ⇔ every term has a position and there are strictly increasing
positions, one per term, whose gaps add up to at most `slop` -/
theorem phrase_slop_correct (slots : List (List Nat)) (slop : Nat)
    (hs : ∀ ps ∈ slots, ps.Pairwise (· < ·)) :
    phMatch slots slop = true ↔
      (∀ ps ∈ slots, ps ≠ []) ∧
        ∃ qs, Pick qs slots ∧ Spec.increasing qs = true ∧ Spec.totalGap qs ≤ slop := by
  rw [phMatch_eq slots slop hs, Bool.and_eq_true, phraseOccurs_iff, List.all_eq_true]
  constructor
  · rintro ⟨h1, h2⟩
    refine ⟨fun ps hps hnil => ?_, h2⟩
    have := h1 ps hps
    rw [hnil] at this
    cases this
  · rintro ⟨h1, h2⟩
    refine ⟨fun ps hps => ?_, h2⟩
    cases ps with
    | nil => exact absurd rfl (h1 [] hps)
    | cons _ _ => rfl

/-- the position lists the mechanism feeds to `matches_phrase` are strictly sorted -/
theorem phrase_positions_sorted (l : List Nat) : (sortN l).Pairwise (· < ·) := sortN_sorted l

/-! ## every indexed word finds its document -/

/-- If some search-side token of word `w` (field `f`) is among the terms indexed for document `d`
(text field) — the hypothesis the harness tests on the configured analyzers — then the term query
`term(f, w)` is satisfied by `d` … -/
theorem indexed_word_matches (c : Ctx) (d : ADoc) (f w : Str) (hk : c.kind f = .text)
    (h : ∃ t ∈ c.searchAn f w, t.text ∈ docTerms d f) :
    Spec.matchesQ c true d true (.term f w) = true := by
  obtain ⟨t, ht, hmem⟩ := h
  simp only [Spec.matchesQ, Spec.group, List.any_cons, List.any_nil, Bool.or_false]
  rw [List.any_eq_true]
  refine ⟨t.text, hmem, ?_⟩
  simp only [Spec.termOk, exactTokens, hk]
  rw [List.any_eq_true]
  exact ⟨t.text, mem_dedup.mpr (List.mem_map.mpr ⟨t, ht, rfl⟩), by simp⟩

/-- … and the search returns it when it is live: a term query is covered by its own scored
term, whatever the segmentation, other documents and tombstones (no fuzzy options). -/
theorem indexed_word_found (c : Ctx) (segs : List Seg) (f w : Str) (hk : c.kind f = .text)
    (hfz : c.fuzzy = none) {s : Seg} (hs : s ∈ segs) {o : Nat} {d : ADoc}
    (hd : s.docs[o]? = some d) (hlive : s.deleted.contains o = false)
    (h : ∃ t ∈ c.searchAn f w, t.text ∈ docTerms d f) :
    o ∈ searchSegQ c segs (.term f w) none s := by
  have hx : expansionsComplete c segs (.term f w) = true := by
    rw [expansionsComplete_iff]
    intro g hg
    simp only [plan, Matcher.groups, List.mem_singleton] at hg
    subst hg
    exact exact_groupOK c segs _ rfl (Or.inr (Or.inl hfz))
  rw [mechanism_characterisation c segs _ none rfl hx hs o]
  constructor
  · unfold Spec.wanted
    simp only [hd, hlive, indexed_word_matches c d f w hk h]
    rfl
  · right
    obtain ⟨t, ht, hmem⟩ := h
    unfold hasQualified
    rw [List.any_eq_true]
    refine ⟨(f, t.text), ?_, ?_⟩
    · have hq : qualified c segs (plan c true (.term f w)) = expandGroup c segs ⟨[f], w, .exact, true⟩ := by
        simp [qualified, plan, Matcher.groups]
      rw [hq]
      unfold expandGroup
      rw [mem_dedup, List.mem_flatMap]
      refine ⟨f, by simp, List.mem_map.mpr ⟨t.text, ?_, rfl⟩⟩
      simp only [expandField, hfz, exactTokens, hk]
      exact mem_dedup.mpr (List.mem_map.mpr ⟨t, ht, rfl⟩)
    · rw [postings_contains hd, hasKey_iff]
      exact hmem

/-! ## non-vacuity and the negative witness -/

section Witness

/-- one text field `[1]`, identity analyzer (one token, the text itself) -/
def wCtx : Ctx where
  kind := fun f => if f = [1] then .text else .other
  searchAn := fun _ t => [⟨t, 0⟩]
  normPat := fun _ t => t
  defaultFields := [[1]]
  fuzzy := none
  rx := fun _ _ => false

def wDoc (id : Nat) (words : List Nat) : ADoc :=
  { id := [id], text := [([1], [words.zipIdx.map (fun (w, i) => ⟨[w], i⟩)])], kw := [], i64 := [] }

/-- two segments; document 1 of the first segment is tombstoned -/
def wSegs : List Seg :=
  [⟨[wDoc 10 [7, 8], wDoc 11 [8, 9]], [1]⟩, ⟨[wDoc 12 [9, 7], wDoc 13 [8]], []⟩]

/-- `bool { must: [match_all], should: [term body:7] }` -/
def wQuery : Q := .bool [.matchAll] [.term [1] [7]] [] [] none

/-- **Negative witness**: the should clause is optional (a must clause is present), so all three
live documents are wanted; the mechanism visits only the postings of `body:7` and returns two. -/
theorem mechanism_ne_spec_witness :
    searchOrds wCtx wSegs wQuery none = [[0], [0]] ∧
    Spec.searchOrds wCtx wSegs wQuery none = [[0], [0, 1]] ∧
    coveredByScoredTerms wCtx wSegs wQuery none = false ∧
    expansionsComplete wCtx wSegs wQuery = true := by decide

/-- non-vacuity of `mechanism_eq_spec_partial`: a covered query with a non-trivial answer
(`bool { must: [term 8], must_not: [term 9], should: [term 7] }` selects 10 and 13, rejects the
tombstoned 11 and 12) -/
example :
    let q : Q := .bool [.term [1] [8]] [.term [1] [7]] [.term [1] [9]] [] none
    expansionsComplete wCtx wSegs q = true ∧ coveredByScoredTerms wCtx wSegs q none = true ∧
      searchOrds wCtx wSegs q none = [[0], [1]] ∧ search wCtx wSegs q none = [[10], [13]] := by decide

/-- a document whose only field holds one value with the given tokens -/
def wDocT (id : Nat) (toks : List Str) : ADoc :=
  { id := [id], text := [([1], [toks.zipIdx.map (fun (w, i) => ⟨w, i⟩)])], kw := [], i64 := [] }

/-- regex oracle for the witness below: pattern `[7,8,63]` (think `ab?`) matches the terms
`[7]` and `[7,8]` -/
def wCtxRx : Ctx := { wCtx with rx := fun p t => p == [7, 8, 63] && (t == [7] || t == [7, 8]) }

/-- **Legacy witness 2** (`regex.literal-prefix`, repaired in repository commit eccd200): the old
`regex_literal_prefix("ab?")` was `ab`, which is not a prefix of the matching term `a`, so `a`
was never scanned; the repaired function yields `a` and the search agrees with the spec. -/
theorem legacy_regex_prefix_witness :
    rxPrefixLegacy [7, 8, 63] = [7, 8] ∧ isPrefix (rxPrefixLegacy [7, 8, 63]) [7] = false ∧
    rxPrefix [7, 8, 63] = [7] ∧
    -- top-level alternation `ab|a`: legacy prefix `ab`, repaired prefix empty
    rxPrefixLegacy [7, 8, 124, 7] = [7, 8] ∧ rxPrefix [7, 8, 124, 7] = [] ∧
    searchOrds wCtxRx [⟨[wDocT 20 [[7]], wDocT 21 [[7, 8]]], []⟩] (.regex [1] [7, 8, 63] 100) none = [[0, 1]] ∧
    Spec.searchOrds wCtxRx [⟨[wDocT 20 [[7]], wDocT 21 [[7, 8]]], []⟩] (.regex [1] [7, 8, 63] 100) none = [[0, 1]] ∧
    (plan wCtxRx true (.regex [1] [7, 8, 63] 100)).groups.all (rxPrefixOk wCtxRx [⟨[wDocT 20 [[7]], wDocT 21 [[7, 8]]], []⟩]) = true := by
  decide

/-- **The repaired literal prefix is sound** relative to the engine property `LiteralHead` (a
pattern without top-level alternation that starts with literals not followed by a quantifier
matches only words starting with them), for patterns `literals`, `literals stop …`,
`literals quantifier …` — all pattern classes the harness generates (`w`, `w.*`, `ws?`,
`w[a-z]+`, `w[a-z]*`, `(a|b)`, `a|b`).  `rxPrefixOk` (the decidable instance on the dictionary in
play) stays the hypothesis of `expansionsComplete_of_caps` for arbitrary patterns and engines; the
harness evaluates it with the real regex crate on every generated case. -/
theorem regex_prefix_sound (rx : Str → Str → Bool) (hrx : LiteralHead rx) (lit rest t : Str)
    (hl : lit.all isLitC = true)
    (hr : rest = [] ∨ ∃ q r, rest = q :: r ∧ (isStop q = true ∨ isQuant q = true))
    (hm : rx (lit ++ rest) t = true) : isPrefix (rxPrefix (lit ++ rest)) t = true :=
  rxPrefix_sound rx hrx lit rest t hl hr hm

/-- non-vacuity: `ab?` = literals `ab` + quantifier; `ab.*` = literals + stop -/
example : rxPrefix ([7, 8] ++ [63]) = [7] ∧ rxPrefix ([7, 8] ++ [46, 42]) = [7, 8] ∧
    isLitC 7 = true ∧ isQuant 63 = true ∧ isStop 46 = true := by decide


/-- documents with an i64 field `[2]` (think `year`) -/
def wDocY (id : Nat) (words : List Nat) (y : Int) : ADoc := { wDoc id words with i64 := [([2], [y])] }

def wSegsY : List Seg := [⟨[wDocY 30 [7] 1, wDocY 31 [7] 2, wDocY 32 [8] 2], []⟩]

/-- `function_score { query: match_all, functions: [weight 1 if year=2, weight 0], replace, min_score 1 }` -/
def wFs : Q := .functionScore .matchAll [⟨1, some (.i64Range [2] 2 2)⟩, ⟨0, none⟩] .sum none (some 1)

/-- **Negative witness 3** (`score-drop.nested`): as a *must* clause next to a scored term the
`min_score` is ignored (document 30 is returned although the clause rejects it); as an *optional
should* clause next to `match_all` it drops documents (30 is lost although the clause is
optional).  At the root (`rootChain`) the clause behaves as documented. -/
theorem nested_drop_witness :
    searchOrds wCtx wSegsY wFs none = [[1, 2]] ∧ Spec.searchOrds wCtx wSegsY wFs none = [[1, 2]] ∧
    searchOrds wCtx wSegsY (.bool [wFs, .term [1] [7]] [] [] [] none) none = [[0, 1]] ∧
    Spec.searchOrds wCtx wSegsY (.bool [wFs, .term [1] [7]] [] [] [] none) none = [[1]] ∧
    searchOrds wCtx wSegsY (.bool [.matchAll] [wFs] [] [] none) none = [[1, 2]] ∧
    Spec.searchOrds wCtx wSegsY (.bool [.matchAll] [wFs] [] [] none) none = [[0, 1, 2]] ∧
    Q.rootChain (.bool [.matchAll] [wFs] [] [] none) = false ∧ Q.rootChain wFs = true := by
  decide

/-- non-vacuity of `forces_covered` / `expansionsComplete_of_caps`: a forcing query with a prefix
clause below its cap (`bool { should: [prefix body:8*, term body:7] }`) -/
example :
    let q : Q := .bool [] [.pfx [1] [8] 5, .term [1] [7]] [] [] none
    forces true q = true ∧ (plan wCtx true q).groups.all (belowCaps wCtx wSegs) = true ∧
      (plan wCtx true q).groups.all (rxPrefixOk wCtx wSegs) = true ∧
      searchOrds wCtx wSegs q none = [[0], [1, 0]] := by decide

/-- non-vacuity of `mechanism_characterisation` on the scan path (no scored term) -/
example : searchOrds wCtx wSegs (.bool [.matchAll] [] [.phrase none [[8, 32, 9]] 0] [] none) none = [[0], [0, 1]] := by
  decide

/-- non-vacuity of `phrase_slop_correct`: `[1,4] [2] [3]` matches exactly; `[1] [4] [6]` needs slop 3 -/
example : phMatch [[1, 4], [2], [3]] 0 = true ∧ phMatch [[1], [4], [6]] 2 = false ∧ phMatch [[1], [4], [6]] 3 = true := by
  decide

/-- non-vacuity of `indexed_word_found` -/
example : 1 ∈ searchSegQ wCtx wSegs (.term [1] [8]) none ⟨[wDoc 12 [9, 7], wDoc 13 [8]], []⟩ := by
  decide

end Witness

end SL.Query
