import SLModel.Core.Filter
import SLModel.Core.FilterLegacy
import SLModel.Lemmas.Filter
import SLModel.Lemmas.FilterMore
/-!
# C08 — filters follow the documented filter semantics

Model: `Core/Filter`.  `Spec.passes` is the documented semantics on the document tree,
`flatten` the fast-field columns `collect_document` writes for one document (after the repair
a2fc693: the objects of a child path are numbered across all parent objects), `Col.passes` the
code's evaluation (`passes_filter`) over those columns.  Tie to the code: `Drv/C08` runs
`Col.passes ∘ flatten` and `Spec.passes`; the harness compares the first with the real
`search(match_all, filter)` per document (correspondence) and evaluates its own tree semantics
against the real hits (finder).

The property now holds in full: `flatten_sound` —

    Col.passes fold (flatten s kv) f = Spec.passes fold s kv f

for every schema (any nesting depth), EVERY document (any number of parent objects carrying
children at every level) and every `And`/`Or`/`Not`/`Nested` tree whose leaf clauses below `Nested`
clauses name plain (undotted) fields; dotted paths are allowed at the top level, where the
documentation describes them.  (`flatten_sound_partial` needed `singleCarrier` before the repair.)
`legacy_flatten_unsound_child_index_collision` is the kernel-checked witness of the original
defect over the columns as they were written before a2fc693 (`Core/FilterLegacy`), together with
the correct answers of the repaired columns on the same document
(`corpus/C08/child-index-collision.json`).  Plus small facts about the clause tests (case
folding, inclusive typed ranges, any value of a multi-valued field) and the fuel-free reading of
`Spec.passes` (`spec_fuel_irrelevant`, `spec_and`, `spec_or`, `spec_not`, `spec_nested`).
-/
set_option linter.unusedSectionVars false
set_option linter.unusedSimpArgs false
set_option linter.unusedVariables false
namespace SL.Filter
open SL.Doc

variable {σ : Type} [DecidableEq σ]

/-- **C08, full statement.**  The code's evaluation over the columns it writes equals the
documented tree semantics — for every schema, every document and every filter tree: `And`/`Or`/
`Not`, nested clauses at any depth under any number of parent objects, sibling nested clauses of
one `And` bound to one object, parent/child binding, dotted paths at the top level
(`plainInside`: below a `Nested` clause leaf clauses name plain fields — the only documented
form). -/
theorem flatten_sound (fold : σ → σ) (s : Schema σ) (kv : JO σ) (f : Filter σ)
    (hp : f.plainInside = true) :
    Col.passes fold (flatten s kv) f = Spec.passes fold s kv f := by
  unfold Col.passes Spec.passes flatten
  exact eval_top_sim fold f.size (rootProps s) (none, kv) f hp

/-- the same for filters without any dotted name -/
theorem flatten_sound_plain (fold : σ → σ) (s : Schema σ) (kv : JO σ) (f : Filter σ)
    (hp : f.allPlain = true) :
    Col.passes fold (flatten s kv) f = Spec.passes fold s kv f :=
  flatten_sound fold s kv f (allPlain_plainInside f hp)

/-- at every object of every nested path: the evaluation at object index `g` of the columns
written for the objects `objs` equals the semantics on the `g`-th object -/
theorem flatten_sound_inner (fold : σ → σ) (props : NProps σ) (objs : List (PObj σ)) (g : Nat)
    (f : Filter σ) (hg : g < objs.length) (hp : f.allPlain = true) :
    Col.eval fold f.size (flattenProps props objs) (some g) f =
      Spec.sat fold props (objs.getD g (none, .nil)).2 f :=
  eval_sim fold f.size props objs g f hg hp

/-! ## `Spec.passes` read without fuel

`Spec.eval` recurses on a fuel argument because the members of an `And` are regrouped by path;
`Spec.passes` runs it with fuel `f.size`.  Any larger fuel gives the same answer, and the
semantics satisfies the equations one would write down directly. -/

theorem spec_fuel_irrelevant (fold : σ → σ) (s : Schema σ) (kv : JO σ) (f : Filter σ) (n : Nat)
    (h : f.size ≤ n) : Spec.eval fold n (rootProps s) kv f = Spec.passes fold s kv f :=
  Spec.eval_fuel fold n (rootProps s) kv f h

theorem spec_not (fold : σ → σ) (s : Schema σ) (kv : JO σ) (g : Filter σ) :
    Spec.passes fold s kv (.not g) = !Spec.passes fold s kv g :=
  Spec.sat_not fold (rootProps s) kv g

theorem spec_or (fold : σ → σ) (s : Schema σ) (kv : JO σ) (fs : List (Filter σ)) :
    Spec.passes fold s kv (.or fs) = fs.any (Spec.passes fold s kv) :=
  Spec.sat_or fold (rootProps s) kv fs

/-- a nested clause: some object of the named child of the current object satisfies the inner
filter (and so on below: `Spec.sat` is `Spec.passes` at an inner object) -/
theorem spec_nested (fold : σ → σ) (s : Schema σ) (kv : JO σ) (r : σ) (g : Filter σ) :
    Spec.passes fold s kv (.nested r g) =
      Spec.bind (rootProps s) kv r (fun p o => Spec.sat fold p o g) :=
  Spec.sat_nested fold (rootProps s) kv r g

/-- `And`: the members that are not nested clauses all hold, and for every path named by nested
members ONE object of that child satisfies all their inner filters together -/
theorem spec_and (fold : σ → σ) (s : Schema σ) (kv : JO σ) (fs : List (Filter σ)) :
    Spec.passes fold s kv (.and fs) =
      ((fs.filter (fun f => !f.isNested)).all (Spec.passes fold s kv) &&
       (groupPaths fs).all (fun r =>
         Spec.bind (rootProps s) kv r (fun p o => Spec.sat fold p o (.and (inners r fs))))) :=
  Spec.sat_and fold (rootProps s) kv fs

/-- the same equations hold at every inner object -/
theorem spec_inner_and (fold : σ → σ) (props : NProps σ) (kv : JO σ) (fs : List (Filter σ)) :
    Spec.sat fold props kv (.and fs) =
      ((fs.filter (fun f => !f.isNested)).all (Spec.sat fold props kv) &&
       (groupPaths fs).all (fun r =>
         Spec.bind props kv r (fun p o => Spec.sat fold p o (.and (inners r fs))))) :=
  Spec.sat_and fold props kv fs

theorem spec_inner_nested (fold : σ → σ) (props : NProps σ) (kv : JO σ) (r : σ) (g : Filter σ) :
    Spec.sat fold props kv (.nested r g) =
      Spec.bind props kv r (fun p o => Spec.sat fold p o g) :=
  Spec.sat_nested fold props kv r g

/-! ## the clause tests say what the documentation says -/

/-- keyword equality is case-insensitive: values with the same case folding match -/
theorem kwEq_case_insensitive (fold : σ → σ) (s v : σ) (h : fold s = fold v) :
    (Clause.kwEq v).test fold .keyword (.str s) = true := by
  simp [Clause.test, h]

/-- membership: some listed value has the same case folding -/
theorem kwIn_iff (fold : σ → σ) (s : σ) (vs : List σ) :
    (Clause.kwIn vs).test fold .keyword (.str s) = true ↔ ∃ v ∈ vs, fold s = fold v := by
  simp [Clause.test]

/-- integer ranges are inclusive at both ends -/
theorem i64Range_iff (fold : σ → σ) (lo hi m : Int) :
    (Clause.i64Range (σ := σ) lo hi).test fold .i64 (.num m 0) = true ↔ lo ≤ m ∧ m ≤ hi := by
  simp [Clause.test]

/-- a range clause never matches a field of the other numeric type, a keyword clause never a
numeric field -/
theorem typed (fold : σ → σ) (lo hi : Int) (flo fhi : Int × Nat) (v : σ) (x : J σ) :
    (Clause.i64Range (σ := σ) lo hi).test fold .f64 x = false ∧
    (Clause.f64Range (σ := σ) flo fhi).test fold .i64 x = false ∧
    (Clause.kwEq v).test fold .i64 x = false ∧ (Clause.kwEq v).test fold .f64 x = false ∧
    (Clause.i64Range (σ := σ) lo hi).test fold .keyword x = false := by
  cases x <;> simp [Clause.test]

/-- any value of a multi-valued top-level field can satisfy a clause -/
theorem multi_valued_any (fold : σ → σ) (c : Clause σ) (props : NProps σ) (kv : JO σ) (a : σ)
    (l : Leaf σ) (hf : props.find a = some (.leaf l)) (hfast : l.fast = true) :
    Spec.leafPasses fold c props kv [a] =
      (collect l.kind ((kv.get a).getD .null)).any (c.test fold l.kind) := by
  simp [Spec.leafPasses, hf, hfast]

/-! ## witness of the repaired defect (atoms are `Nat`; `0` = id, `1` = c, `2` = c.a, `3` = c.r, `4` = c.r.t) -/

def wSchema : Schema Nat :=
  { idField := 0, flat := [],
    nested := [.mk 1 false
      (.cons (.leaf ⟨2, .keyword, true, true, true, true⟩)
        (.cons (.object (.mk 3 true (.cons (.leaf ⟨4, .keyword, true, true, true, true⟩) .nil)))
          .nil))] }

def wT (t : Nat) : J Nat := .obj (.cons 4 (.str t) .nil)
def wParent (a : Nat) (rs : JL Nat) : J Nat := .obj (.cons 2 (.str a) (.cons 3 (.arr rs) .nil))

/-- `{"_id":"99","c":[{"a":"p0","r":[{"t":"x"},{"t":"y"}]},{"a":"p1","r":[{"t":"z"}]}]}`
(`p0`=10, `p1`=11, `x`=20, `y`=21, `z`=22) -/
def wDoc : JO Nat :=
  .cons 0 (.str 99) (.cons 1 (.arr
    (.cons (wParent 10 (.cons (wT 20) (.cons (wT 21) .nil)))
      (.cons (wParent 11 (.cons (wT 22) .nil)) .nil))) .nil)

/-- `Nested(c){ And[ a = p, Nested(r){ t = t } ] }` -/
def wFilter (p t : Nat) : Filter Nat :=
  .nested 1 (.and [.leaf [2] (.kwEq p), .nested 3 (.leaf [4] (.kwEq t))])

/-- before a2fc693: the parent `p0` has the child `x`, yet the legacy columns said no (missed
match); the parent `p1` has no child `x`, yet they said yes (false match); both parents carry
children (`singleCarrier` false).  The repaired columns answer both correctly. -/
theorem legacy_flatten_unsound_child_index_collision :
    Spec.passes id wSchema wDoc (wFilter 10 20) = true ∧
    Col.passes id (Legacy.flatten wSchema wDoc) (wFilter 10 20) = false ∧
    Spec.passes id wSchema wDoc (wFilter 11 20) = false ∧
    Col.passes id (Legacy.flatten wSchema wDoc) (wFilter 11 20) = true ∧
    Legacy.singleCarrier wSchema wDoc = false ∧
    Col.passes id (flatten wSchema wDoc) (wFilter 10 20) = true ∧
    Col.passes id (flatten wSchema wDoc) (wFilter 11 20) = false := by decide

/-! ## non-vacuity -/

/-- one parent carries children, the other has `r: null`: the hypothesis holds, the nested-in-nested
filter is decided correctly both ways -/
def wDocOk : JO Nat :=
  .cons 0 (.str 99) (.cons 1 (.arr
    (.cons (wParent 10 (.cons (wT 20) (.cons (wT 21) .nil)))
      (.cons (.obj (.cons 2 (.str 11) (.cons 3 .null .nil))) .nil))) .nil)

example : Legacy.singleCarrier wSchema wDocOk = true ∧ (wFilter 10 20).allPlain = true ∧
    Col.passes id (flatten wSchema wDocOk) (wFilter 10 20) = true ∧
    Spec.passes id wSchema wDocOk (wFilter 10 20) = true ∧
    Col.passes id (flatten wSchema wDocOk) (wFilter 11 20) = false ∧
    Spec.passes id wSchema wDocOk (wFilter 11 20) = false := by decide

/-- sibling nested clauses under `And` bind one object: `a = p0` and `a = p1` are not both true
of one `c` object, although each is true of some -/
example :
    Spec.passes id wSchema wDocOk
      (.and [.nested 1 (.leaf [2] (.kwEq 10)), .nested 1 (.leaf [2] (.kwEq 11))]) = false ∧
    Spec.passes id wSchema wDocOk
      (.or [.nested 1 (.leaf [2] (.kwEq 10)), .nested 1 (.leaf [2] (.kwEq 11))]) = true ∧
    Spec.passes id wSchema wDocOk
      (.and [.nested 1 (.leaf [2] (.kwEq 10)), .not (.nested 1 (.leaf [2] (.kwEq 12)))]) = true :=
  by decide

/-- a dotted path at the top level: any `t` below any `r` below any `c` -/
example : (Filter.leaf [1, 3, 4] (Clause.kwEq 21)).plainInside = true ∧
    Col.passes id (flatten wSchema wDocOk) (.leaf [1, 3, 4] (.kwEq 21)) = true ∧
    Spec.passes id wSchema wDocOk (.leaf [1, 3, 4] (.kwEq 21)) = true ∧
    Spec.passes id wSchema wDocOk (.leaf [1, 3, 4] (.kwEq 22)) = false := by decide

example : (Clause.i64Range (σ := Nat) 2 5).test id .i64 (.num 5 0) = true ∧
    (Clause.i64Range (σ := Nat) 2 5).test id .i64 (.num 6 0) = false ∧
    (Clause.f64Range (σ := Nat) (25, 2) (5, 1)).test id .f64 (.num 50 2) = true ∧
    (Clause.f64Range (σ := Nat) (25, 2) (5, 1)).test id .f64 (.num 51 2) = false := by decide

end SL.Filter
