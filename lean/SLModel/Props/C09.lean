import SLModel.Core.TopK
import SLModel.Lemmas.TopKBridge
import SLModel.Lemmas.WandLoop
import SLModel.Lemmas.WandLoopB
import SLModel.Lemmas.BTop
/-!
# C09 — pruned top-k (wand, bmw) equals exhaustive top-k (bm25)

Model: `SL.TK` (`Core/TopK.lean`) — `brute` (`brute_force`), `wandLoop` (`wand_loop` as it is
since /repo efe566e and 355106c: pivot selection with the term-wide bounds, `blk = true` (bmw)
drops a candidate whose cursors' block maxima cannot reach the threshold, `hook = true` switches
pruning off), `pruneRule` (the same as a per-document decision rule), `search` (per-segment
top-(limit+1), merge, best `limit`), and the `legacy…` loop of the code before the two repairs.
Scores are `Nat` (fixed point); the driver (`Drv/C09`) runs exactly these definitions on the
numbers produced by `Core/Bm25` + `Core/Quant` and evaluates the decidable premise `segOk`
(`SegIn.wf`, `Term.blocksOk`, `boundsOk`, `blockBoundsOk`) on every generated case.

**Statement proved (`search_pruned_eq_bm25`):**
```
∀ (st : Strategy) (k limit : Nat) (segs : List SegIn), 0 < k → (∀ s ∈ segs, segOk st s = true) →
  search st k limit segs = search .bm25 k limit segs
```
`segOk` asks for what sound pruning needs and nothing else: well-formed postings / block
metadata and, unless a score hook switches pruning off, bounds that dominate the accepted scores
(term-wide bounds; for bmw also the maxima of the blocks containing the document).  Before the
repairs the statement was false (`legacy_…` witnesses below, kernel-checked).
-/
set_option linter.unusedSimpArgs false
namespace SL.TK

/-- the exhaustive top-k does not depend on the enumeration order of the hits
(hash-map iteration order in `brute_force`) -/
theorem brute_order_independent (k : Nat) {l₁ l₂ : List Hit} (p : l₁.Perm l₂) :
    best k l₁ = best k l₂ := best_perm k p

/-- **Decision rule = exhaustive**: on a segment, "score `d` iff the bounds of the terms
containing `d` reach the threshold" returns exactly the `k` best accepted candidates, for every
`k`, provided the bounds dominate the accepted scores. -/
theorem wandRule_eq_brute (k : Nat) (hk : 0 < k) (s : SegIn) (hwf : s.wf = true)
    (hb : boundsOk s = true) : wandRule k s.sc (ubsum s.terms) s.docs = brute k s := by
  have hdocs : s.docs.Pairwise (· < ·) := by
    unfold SegIn.wf at hwf
    simp only [Bool.and_eq_true] at hwf
    exact incr_pairwise _ hwf.1.1.1
  rw [wandRule_eq_best k hk s.sc _ (boundsOk_spec s hb) s.docs hdocs, s.hits_eq hdocs]
  exact best_perm k (List.reverse_perm _)

theorem SegIn.docs_pairwise (s : SegIn) (hwf : s.wf = true) : s.docs.Pairwise (· < ·) := by
  unfold SegIn.wf at hwf
  simp only [Bool.and_eq_true] at hwf
  exact incr_pairwise _ hwf.1.1.1

/-- **The repaired decision rule is exhaustive**: with a score hook nothing is skipped; without
one a candidate is skipped only below a bound that dominates its score. -/
theorem pruneRule_eq_brute (k : Nat) (hk : 0 < k) (blk : Bool) (s : SegIn) (hwf : s.wf = true)
    (h : s.hook = true ∨ (boundsOk s = true ∧ (blk = true → blockBoundsOk s = true))) :
    pruneRule k blk s.hook s.sc (ubsum s.terms) (blockSum s.terms) s.docs = brute k s := by
  have hdocs := s.docs_pairwise hwf
  unfold pruneRule
  rw [runDocsO_eq_best k hk s.sc _ ?_ s.docs hdocs, s.hits_eq hdocs]
  · exact best_perm k (List.reverse_perm _)
  · intro H d v hlen hskip hsc
    rcases h with hh | ⟨hb, hbb⟩
    · simp [pruneSkip, pivotTheta, hh] at hskip
    · have hθ : pivotTheta k s.hook H ≤ theta k H := by
        unfold pivotTheta; split <;> omega
      have hlt : v < theta k H := by
        simp only [pruneSkip, Bool.or_eq_true, Bool.and_eq_true, decide_eq_true_eq] at hskip
        rcases hskip with h1 | ⟨hblk, h2⟩
        · have := boundsOk_spec s hb d v hsc; omega
        · have := blockBoundsOk_spec s (hbb hblk) d v hsc; omega
      refine ⟨?_, hlt⟩
      have := SL.TopK.theta_pos_full k H hlen (by rw [← theta_eq]; omega)
      exact this

/-- **`wand_loop` = `brute_force`** on one segment, for wand and bmw, with and without a score
hook: cursor loop, pivot selection, `advance_to`/`skip_to_block`, the block check and the
conditional heap insertion together compute the exhaustive top-k. -/
theorem wandLoop_eq_brute (k : Nat) (hk : 0 < k) (blk : Bool) (s : SegIn) (hwf : s.wf = true)
    (hbl : blk = true → s.terms.all Term.blocksOk = true)
    (h : s.hook = true ∨ (boundsOk s = true ∧ (blk = true → blockBoundsOk s = true))) :
    wandLoop k blk s.hook s.sc s.terms = brute k s := by
  rw [wandLoop_eq_pruneRule k blk s hwf hbl, pruneRule_eq_brute k hk blk s hwf h]

theorem runSeg_eq_bm25 (st : Strategy) (k : Nat) (hk : 0 < k) (s : SegIn)
    (h : segOk st s = true) : runSeg st k s = runSeg .bm25 k s := by
  unfold runSeg
  by_cases hs : s.scan = true
  · simp [hs]
  · simp only [hs]
    unfold segOk at h
    simp only [hs, Bool.false_or, Bool.and_eq_true, Bool.or_eq_true] at h
    obtain ⟨⟨hwf, hbl⟩, hb⟩ := h
    cases st with
    | bm25 => rfl
    | wand =>
      apply wandLoop_eq_brute k hk false s hwf (by intro h; cases h)
      rcases hb with hb | hb
      · exact Or.inl hb
      · exact Or.inr ⟨hb.1, by intro h; cases h⟩
    | bmw =>
      have hbl' : s.terms.all Term.blocksOk = true := by
        rcases hbl with hbl | hbl
        · simp at hbl
        · exact hbl
      apply wandLoop_eq_brute k hk true s hwf (fun _ => hbl')
      rcases hb with hb | hb
      · exact Or.inl hb
      · refine Or.inr ⟨hb.1, fun _ => ?_⟩
        rcases hb.2 with h2 | h2
        · simp at h2
        · exact h2

/-- **C09**: every execution strategy returns the hits of `bm25`, for any number of segments,
any `k > 0` and limit, with and without score hooks — under the decidable premise `segOk`
(sound bounds, well-formed postings and block metadata). -/
theorem search_pruned_eq_bm25 (st : Strategy) (k limit : Nat) (hk : 0 < k) (segs : List SegIn)
    (h : ∀ s ∈ segs, segOk st s = true) :
    search st k limit segs = search .bm25 k limit segs := by
  unfold search
  have : segs.map (runSeg st k) = segs.map (runSeg .bm25 k) :=
    List.map_congr_left fun s hs => runSeg_eq_bm25 st k hk s (h s hs)
  rw [this]

/-- under a score hook nothing is pruned: no premise on the scores at all -/
theorem hook_no_pruning (k : Nat) (hk : 0 < k) (blk : Bool) (s : SegIn) (hwf : s.wf = true)
    (hbl : blk = true → s.terms.all Term.blocksOk = true) (hh : s.hook = true) :
    wandLoop k blk s.hook s.sc s.terms = brute k s :=
  wandLoop_eq_brute k hk blk s hwf hbl (Or.inl hh)

/-- **Repaired block-max rule**: with the bound of the block that *contains* the document the
decision rule is exhaustive again. -/
theorem bmwRepaired_eq_brute (k : Nat) (hk : 0 < k) (s : SegIn) (hwf : s.wf = true)
    (hb : blockBoundsOk s = true) : wandRule k s.sc (blockSum s.terms) s.docs = brute k s := by
  have hdocs : s.docs.Pairwise (· < ·) := by
    unfold SegIn.wf at hwf
    simp only [Bool.and_eq_true] at hwf
    exact incr_pairwise _ hwf.1.1.1
  rw [wandRule_eq_best k hk s.sc _ (blockBoundsOk_spec s hb) s.docs hdocs, s.hits_eq hdocs]
  exact best_perm k (List.reverse_perm _)

/-- **Repaired score-hook behaviour**: when nothing is pruned (what the code has to do while a
score hook is installed) the loop over the candidates is exhaustive, whatever the scores. -/
theorem noPrune_eq_brute (k : Nat) (hk : 0 < k) (s : SegIn) (hwf : s.wf = true) :
    runDocsO k s.sc (fun _ _ => false) [] s.docs = brute k s := by
  have hdocs : s.docs.Pairwise (· < ·) := by
    unfold SegIn.wf at hwf
    simp only [Bool.and_eq_true] at hwf
    exact incr_pairwise _ hwf.1.1.1
  rw [runDocsO_eq_best k hk s.sc _ (by intro H d v _ h; simp at h) s.docs hdocs, s.hits_eq hdocs]
  exact best_perm k (List.reverse_perm _)

/-- the score-hook hypothesis in the form of the design: `adjust(score) ≤ bound` -/
theorem hook_ok_of_adjust_le (k : Nat) (hk : 0 < k) (s : SegIn) (hwf : s.wf = true)
    (h : ∀ d v, s.sc d = some v → v ≤ ubsum s.terms d) :
    wandLoop k false s.hook s.sc s.terms = brute k s := by
  apply wandLoop_eq_brute k hk false s hwf (by intro h; cases h)
  refine Or.inr ⟨?_, by intro h; cases h⟩
  unfold boundsOk
  rw [List.all_eq_true]
  intro x hx
  obtain ⟨d, o⟩ := x
  cases o with
  | none => rfl
  | some v =>
    have hdocs : s.docs.Pairwise (· < ·) := by
      unfold SegIn.wf at hwf
      simp only [Bool.and_eq_true] at hwf
      exact incr_pairwise _ hwf.1.1.1
    have := h d v (s.sc_of_mem hdocs d (some v) hx)
    simpa using this

/-! ## where the bounds come from: sums of per-term contributions -/

theorem sumContrib_le_ubsum (ts : List Term) (h : validBounds ts = true) (d : Nat) :
    sumContrib ts d ≤ ubsum ts d := by
  induction ts with
  | nil => simp [sumContrib, ubsum]
  | cons t r ih =>
    unfold validBounds at h
    rw [List.all_cons, Bool.and_eq_true] at h
    have ihr := ih h.2
    unfold sumContrib ubsum
    have ht : t.contrib d ≤ (if t.has d = true then t.ub else 0) := by
      unfold Term.contrib Term.has
      cases hf : t.posts.find? (fun p => p.1 == d) with
      | none => simp
      | some p =>
        have hp : p ∈ t.posts := List.mem_of_find?_eq_some hf
        have hpd : (p.1 == d) = true := by
          have := List.find?_some hf
          simpa using this
        have hany : t.posts.any (fun p => p.1 == d) = true :=
          List.any_eq_true.mpr ⟨p, hp, hpd⟩
        have hle := (List.all_eq_true.mp h.1) p hp
        simp only [hany, if_true]
        simpa using hle
    omega

/-- dis_max with a tie breaker `num/den ∈ [0,1]` never exceeds the plain sum of its children
(`max + tie·(sum − max)`), so bounds that dominate the sum dominate dis_max scores too; boosts
are already inside the contributions -/
theorem disMax_le_sum (mx sm num den : Nat) (hmx : mx ≤ sm) (hnd : num ≤ den) :
    mx + num * (sm - mx) / den ≤ sm := by
  have h1 : num * (sm - mx) ≤ den * (sm - mx) := Nat.mul_le_mul_right _ hnd
  have h2 : num * (sm - mx) / den ≤ sm - mx := by
    apply Nat.div_le_of_le_mul
    exact h1
  omega

/-- what the block check of bmw needs: the recorded maximum of a posting's own block dominates
the posting.  Then the plain sum of the contributions is at most `blockSum`. -/
theorem contrib_le_blockBound (t : Term) (d : Nat) : ∀ (l : Posts) (i : Nat),
    validBlocksFrom t i l = true →
    (match l.find? (fun p => p.1 == d) with | some p => p.2 | none => 0) ≤
      (match Term.indexOf.go d l i with | some j => t.blockUb.getD (j / t.bs) 0 | none => 0) := by
  intro l
  induction l with
  | nil => intro i _; simp [Term.indexOf.go]
  | cons a as ih =>
    intro i h
    simp only [validBlocksFrom, Bool.and_eq_true, decide_eq_true_eq] at h
    by_cases ha : (a.1 == d) = true
    · simp only [List.find?_cons, ha, Term.indexOf.go, if_true]
      exact h.1
    · have ha' : (a.1 == d) = false := by simpa using ha
      simp only [List.find?_cons, ha', Term.indexOf.go]
      exact ih (i + 1) h.2

theorem sumContrib_le_blockSum (ts : List Term) (h : validBlockBounds ts = true) (d : Nat) :
    sumContrib ts d ≤ blockSum ts d := by
  induction ts with
  | nil => simp [sumContrib, blockSum]
  | cons t r ih =>
    unfold validBlockBounds at h
    rw [List.all_cons, Bool.and_eq_true] at h
    have ihr := ih h.2
    unfold sumContrib blockSum
    have ht : t.contrib d ≤ t.blockBoundOf d := by
      unfold Term.contrib Term.blockBoundOf Term.indexOf
      exact contrib_le_blockBound t d t.posts 0 h.1
    omega

/-- **Classical WAND / block-max WAND statement**: when every accepted final score is at most the
plain sum of the contributions (sums, boosts, dis_max), every posting respects its term bound
and (bmw) the maximum of its own block, `wand_loop` returns the exhaustive top-k. -/
theorem wandLoop_eq_brute_of_validBounds (k : Nat) (hk : 0 < k) (blk : Bool) (s : SegIn)
    (hwf : s.wf = true) (hbl : blk = true → s.terms.all Term.blocksOk = true)
    (hv : validBounds s.terms = true) (hvb : blk = true → validBlockBounds s.terms = true)
    (hs : ∀ d v, s.sc d = some v → v ≤ sumContrib s.terms d) :
    wandLoop k blk s.hook s.sc s.terms = brute k s := by
  rw [wandLoop_eq_pruneRule k blk s hwf hbl]
  have hdocs := s.docs_pairwise hwf
  unfold pruneRule
  rw [runDocsO_eq_best k hk s.sc _ ?_ s.docs hdocs, s.hits_eq hdocs]
  · exact best_perm k (List.reverse_perm _)
  · intro H d v hlen hskip hsc
    have hθ : pivotTheta k s.hook H ≤ theta k H := by
      unfold pivotTheta; split <;> omega
    have hv' := hs d v hsc
    have hlt : v < theta k H := by
      simp only [pruneSkip, Bool.or_eq_true, Bool.and_eq_true, decide_eq_true_eq] at hskip
      rcases hskip with h1 | ⟨hblk, h2⟩
      · have := sumContrib_le_ubsum s.terms hv d; omega
      · have := sumContrib_le_blockSum s.terms (hvb hblk) d; omega
    refine ⟨?_, hlt⟩
    have := SL.TopK.theta_pos_full k H hlen (by rw [← theta_eq]; omega)
    exact this

/-! ## per-segment truncation and merge -/

theorem ins_eq_sort (x : Hit) (l : List Hit) : ins x l = SL.Sort.ins better x l := by
  induction l with
  | nil => rfl
  | cons y ys ih => simp [ins, SL.Sort.ins, ih]

theorem sortHits_eq_sort (l : List Hit) : sortHits l = SL.Sort.isort better l := by
  induction l with
  | nil => rfl
  | cons y ys ih => simp [sortHits, SL.Sort.isort, ins_eq_sort, ih]

theorem best_eq_topk (k : Nat) (l : List Hit) : best k l = SL.Sort.topk better k l := by
  simp [best, SL.Sort.topk, sortHits_eq_sort]

def globs : Nat → List (List Hit) → List (List Hit)
  | _, [] => []
  | i, hs :: rest => globalise i hs :: globs (i + 1) rest

theorem mergeSegs_eq_flatten : ∀ (Ls : List (List Hit)) (i : Nat),
    mergeSegs i Ls = (globs i Ls).flatten := by
  intro Ls
  induction Ls with
  | nil => intro i; rfl
  | cons L r ih => intro i; simp [mergeSegs, globs, ih]

theorem globalise_best (i k : Nat) (L : List Hit) :
    globalise i (best k L) = best k (globalise i L) := by
  have hf : ∀ a b : Hit, better a b =
      better ((fun h : Hit => (h.1, i * segBase + h.2)) a) ((fun h : Hit => (h.1, i * segBase + h.2)) b) := by
    intro a b
    simp [better]
  unfold globalise
  rw [best_eq_topk, best_eq_topk]
  unfold SL.Sort.topk
  rw [List.map_take, SL.Sort.map_isort _ hf]

theorem globs_map_best (k : Nat) : ∀ (Ls : List (List Hit)) (i : Nat),
    globs i (Ls.map (best k)) = (globs i Ls).map (best k) := by
  intro Ls
  induction Ls with
  | nil => intro i; rfl
  | cons L r ih => intro i; simp [globs, globalise_best, ih]

/-- truncating every segment to its `k` best before the merge does not change the `limit ≤ k`
best of the merge -/
theorem merge_topk (k limit : Nat) (h : limit ≤ k) (Ls : List (List Hit)) :
    best limit (mergeSegs 0 (Ls.map (best k))) = best limit (mergeSegs 0 Ls) := by
  rw [mergeSegs_eq_flatten, mergeSegs_eq_flatten, globs_map_best, best_eq_topk, best_eq_topk]
  have hmap : (globs 0 Ls).map (best k) = (globs 0 Ls).map (SL.Sort.topk better k) :=
    List.map_congr_left fun l _ => best_eq_topk k l
  rw [hmap, ← SL.Sort.take_topk k limit h, ← SL.Sort.take_topk k limit h (globs 0 Ls).flatten,
    ← SL.Sort.topk_flatten better_strictTotal k]

/-- **`execution = bm25` end to end**: per-segment `limit+1`-heaps, merge, sort, truncate = the
`limit` best of all accepted candidates of all segments -/
theorem search_bm25_eq_global_best (k limit : Nat) (h : limit ≤ k) (segs : List SegIn) :
    search .bm25 k limit segs = best limit (mergeSegs 0 (segs.map SegIn.hits)) := by
  unfold search
  have : segs.map (runSeg .bm25 k) = (segs.map SegIn.hits).map (best k) := by
    rw [List.map_map]
    apply List.map_congr_left
    intro s _
    simp [runSeg, brute]
  rw [this, merge_topk k limit h]

/-- **C09 end to end**: the hits of every strategy are the `limit` best accepted candidates of the
whole index -/
theorem search_pruned_eq_global_best (st : Strategy) (k limit : Nat) (hk : 0 < k) (h : limit ≤ k)
    (segs : List SegIn) (hs : ∀ s ∈ segs, segOk st s = true) :
    search st k limit segs = best limit (mergeSegs 0 (segs.map SegIn.hits)) := by
  rw [search_pruned_eq_bm25 st k limit hk segs hs, search_bm25_eq_global_best k limit h]

/-! ## legacy negative witnesses (kernel-checked by `decide`; `corpus/C09` holds the same inputs
as regression cases for the code) — the loop before /repo 355106c and efe566e -/

/-- one term, `bmw_block_size = 1`, contributions 5, 5, 1, 20; `limit = 1` (`k = 2`) -/
def bmwTerm : Term :=
  { posts := [(0, 5), (1, 5), (2, 1), (3, 20)], ub := 21, bs := 1,
    blockUb := [6, 6, 2, 21], blockMaxDoc := [0, 1, 2, 3] }
def bmwSeg : SegIn :=
  { terms := [bmwTerm], fin := [(0, some 5), (1, some 5), (2, some 1), (3, some 20)] }

/-- **legacy: the block bound of the cursor's block is not a bound** — the segment satisfies every
premise (`segOk .bmw`), yet the old loop lost the best document; the repaired loop does not -/
theorem legacy_bmw_code_bound_unsound :
    segOk .bmw bmwSeg = true ∧
      legacySearch .bmw 2 1 [bmwSeg] = [(5, 0)] ∧ search .bm25 2 1 [bmwSeg] = [(20, 3)] ∧
      search .bmw 2 1 [bmwSeg] = [(20, 3)] := by decide

/-- two terms, block size 1 -/
def bmwA : Term :=
  { posts := [(0, 5), (1, 5), (2, 1), (3, 9)], ub := 10, bs := 1, blockUb := [6, 6, 2, 10],
    blockMaxDoc := [0, 1, 2, 3] }
def bmwB : Term :=
  { posts := [(0, 3), (1, 3), (3, 4), (4, 1)], ub := 5, bs := 1, blockUb := [4, 4, 5, 2],
    blockMaxDoc := [0, 1, 3, 4] }
def bmwSeg2 : SegIn :=
  { terms := [bmwA, bmwB],
    fin := [(0, some 8), (1, some 8), (2, some 1), (3, some 13), (4, some 1)] }

theorem legacy_bmw_code_bound_unsound_two_terms :
    segOk .bmw bmwSeg2 = true ∧
      legacySearch .bmw 2 1 [bmwSeg2] ≠ search .bm25 2 1 [bmwSeg2] ∧
      legacySearch .wand 2 1 [bmwSeg2] = search .bm25 2 1 [bmwSeg2] ∧
      search .bmw 2 1 [bmwSeg2] = search .bm25 2 1 [bmwSeg2] := by decide

/-- a multiplying score hook: BM25 contributions 3, 1, 1 with term bound 4; final scores
`3·10`, `1·2`, `1·50` -/
def hookTerm : Term :=
  { posts := [(0, 3), (1, 1), (2, 1)], ub := 4, bs := 128, blockUb := [4], blockMaxDoc := [2] }
def hookSeg : SegIn :=
  { terms := [hookTerm], fin := [(0, some 30), (1, some 2), (2, some 50)], hook := true }

/-- **legacy: pruning with BM25 bounds under a score hook was unsound**; the repaired loop does
not prune under a hook (`segOk` holds although `boundsOk` is false) -/
theorem legacy_hook_multiply_unsound :
    segOk .wand hookSeg = true ∧ segOk .bmw hookSeg = true ∧ boundsOk hookSeg = false ∧
      legacySearch .wand 1 1 [hookSeg] = [(30, 0)] ∧ search .bm25 1 1 [hookSeg] = [(50, 2)] ∧
      search .wand 1 1 [hookSeg] = [(50, 2)] ∧ search .bmw 1 1 [hookSeg] = [(50, 2)] := by
  decide

/-- the premise is not vacuous the other way either: without the hook flag (i.e. if the code
pruned) the same scores violate `segOk` -/
example : segOk .wand { hookSeg with hook := false } = false := by decide

/-! ## non-vacuity -/

/-- the premises are satisfiable by a segment on which pruning really happens: document 2 is
never scored by `wand` (term bounds 11 < threshold 12) -/
def okA : Term :=
  { posts := [(0, 9), (1, 8), (2, 2), (3, 10)], ub := 11, bs := 2, blockUb := [10, 11],
    blockMaxDoc := [1, 3] }
def okB : Term :=
  { posts := [(0, 5), (1, 4), (3, 1)], ub := 6, bs := 2, blockUb := [6, 2], blockMaxDoc := [1, 3] }
def okSeg : SegIn :=
  { terms := [okA, okB], fin := [(0, some 14), (1, some 12), (2, some 2), (3, some 11)] }

/-- a segment where the block check fires: after documents 0 and 1 the threshold is 12; document
2 passes pivot selection (term bounds 20 ≥ 12) but its block maximum 3 does not -/
def blkT : Term :=
  { posts := [(0, 14), (1, 12), (2, 2), (3, 20)], ub := 21, bs := 1, blockUb := [15, 13, 3, 21],
    blockMaxDoc := [0, 1, 2, 3] }
def blkSeg : SegIn :=
  { terms := [blkT], fin := [(0, some 14), (1, some 12), (2, some 2), (3, some 20)] }

example : segOk .wand okSeg = true ∧ segOk .bmw okSeg = true := by decide
example : wandLoop 2 false false okSeg.sc okSeg.terms = [(14, 0), (12, 1)] := by decide
example : wandLoop 2 true false okSeg.sc okSeg.terms = brute 2 okSeg := by decide
example : wandRule 2 okSeg.sc (ubsum okSeg.terms) okSeg.docs = brute 2 okSeg := by decide
example : search .bmw 2 1 [okSeg, bmwSeg] = search .bm25 2 1 [okSeg, bmwSeg] :=
  search_pruned_eq_bm25 .bmw 2 1 (by decide) _ (by decide)
example : segOk .bmw blkSeg = true ∧
    pruneSkip 2 true false (ubsum blkSeg.terms) (blockSum blkSeg.terms) [(14, 0), (12, 1)] 2 = true ∧
    decide (ubsum blkSeg.terms 2 < 12) = false ∧
    search .bmw 2 1 [blkSeg] = [(20, 3)] := by decide
example : wandRule 2 bmwSeg.sc (blockSum bmwSeg.terms) bmwSeg.docs = [(20, 3), (5, 0)] := by decide
example : runDocsO 1 hookSeg.sc (fun _ _ => false) [] hookSeg.docs = [(50, 2)] := by decide

end SL.TK
