import SLModel.Core.TopK
import SLModel.Lemmas.TopKBridge
import SLModel.Lemmas.WandLoop
import SLModel.Lemmas.BTop
/-!
# C09 — pruned top-k (wand, bmw) equals exhaustive top-k (bm25)

Model: `SL.TK` (`Core/TopK.lean`) — `brute` (`brute_force`), `wandLoop` (`wand_loop`, with the
plain bound `blk = false` and the block-max bound of the code `blk = true`), `wandRule` (the
per-document decision rule), `search` (per-segment top-(limit+1), merge, best `limit`).  Scores
are `Nat` (fixed point); the driver (`Drv/C09`) runs exactly these definitions on the numbers
produced by `Core/Bm25` + `Core/Quant` and evaluates the decidable hypotheses `SegIn.wf`,
`boundsOk`, `blockBoundsOk` on every generated case.

**Full statement (false of the unchanged code — see the negative witnesses):**
```
∀ (st : Strategy) (k limit : Nat) (segs : List SegIn), 0 < k → (∀ s ∈ segs, s.wf = true) →
  search st k limit segs = search .bm25 k limit segs
```
What holds and is proved: the statement for `st = .wand` under `boundsOk` (every accepted final
score is dominated by the sum of the term bounds — true for sums, boosts, dis_max; false when a
score hook rewrites the score), the repaired block-max rule, and pruning switched off.
-/
set_option linter.unusedSimpArgs false
namespace SL.TK

/-- the exhaustive top-k does not depend on the enumeration order of the hits
(hash-map iteration order in `brute_force`) -/
theorem brute_order_independent (k : Nat) {l₁ l₂ : List Hit} (p : l₁.Perm l₂) :
    best k l₁ = best k l₂ := best_perm k p

/-- **Decision rule = exhaustive**: on a segment, "score `d` iff the bounds of the terms
containing `d` reach the threshold" returns exactly the `k` best accepted candidates, for every
`k`, provided the bounds dominate the accepted scores. -/
theorem wandRule_eq_brute (k : Nat) (hk : 0 < k) (s : SegIn) (hwf : s.wf = true)
    (hb : boundsOk s = true) : wandRule k s.sc (ubsum s.terms) s.docs = brute k s := by
  have hdocs : s.docs.Pairwise (· < ·) := by
    unfold SegIn.wf at hwf
    simp only [Bool.and_eq_true] at hwf
    exact incr_pairwise _ hwf.1.1.1
  rw [wandRule_eq_best k hk s.sc _ (boundsOk_spec s hb) s.docs hdocs, s.hits_eq hdocs]
  exact best_perm k (List.reverse_perm _)

/-- **`wand_loop` = `brute_force`** on one segment: cursor loop, pivot selection, `advance_to`
and the conditional heap insertion together compute the exhaustive top-k. -/
theorem wandLoop_eq_brute (k : Nat) (hk : 0 < k) (s : SegIn) (hwf : s.wf = true)
    (hb : boundsOk s = true) : wandLoop k false s.sc s.terms = brute k s := by
  rw [wandLoop_eq_wandRule k s hwf, wandRule_eq_brute k hk s hwf hb]

theorem runSeg_wand_eq_bm25 (k : Nat) (hk : 0 < k) (s : SegIn)
    (h : s.scan = true ∨ (s.wf = true ∧ boundsOk s = true)) :
    runSeg .wand k s = runSeg .bm25 k s := by
  unfold runSeg
  by_cases hs : s.scan = true
  · simp [hs]
  · rcases h with h | h
    · exact absurd h hs
    · simp only [hs]
      exact wandLoop_eq_brute k hk s h.1 h.2

/-- **C09 for `execution = wand`, hook-free part** (`_partial`: the hypothesis `boundsOk`
excludes exactly the score-hook defect; `bmw` is excluded by the strategy).  Every segment is
either ranked by `scan_segment` (no scored term) or satisfies the decidable hypotheses. -/
theorem search_wand_eq_bm25_partial (k limit : Nat) (hk : 0 < k) (segs : List SegIn)
    (h : ∀ s ∈ segs, s.scan = true ∨ (s.wf = true ∧ boundsOk s = true)) :
    search .wand k limit segs = search .bm25 k limit segs := by
  unfold search
  have : segs.map (runSeg .wand k) = segs.map (runSeg .bm25 k) :=
    List.map_congr_left fun s hs => runSeg_wand_eq_bm25 k hk s (h s hs)
  rw [this]

/-- **Repaired block-max rule**: with the bound of the block that *contains* the document the
decision rule is exhaustive again. -/
theorem bmwRepaired_eq_brute (k : Nat) (hk : 0 < k) (s : SegIn) (hwf : s.wf = true)
    (hb : blockBoundsOk s = true) : wandRule k s.sc (blockSum s.terms) s.docs = brute k s := by
  have hdocs : s.docs.Pairwise (· < ·) := by
    unfold SegIn.wf at hwf
    simp only [Bool.and_eq_true] at hwf
    exact incr_pairwise _ hwf.1.1.1
  rw [wandRule_eq_best k hk s.sc _ (blockBoundsOk_spec s hb) s.docs hdocs, s.hits_eq hdocs]
  exact best_perm k (List.reverse_perm _)

/-- **Repaired score-hook behaviour**: when nothing is pruned (what the code has to do while a
score hook is installed) the loop over the candidates is exhaustive, whatever the scores. -/
theorem noPrune_eq_brute (k : Nat) (hk : 0 < k) (s : SegIn) (hwf : s.wf = true) :
    runDocsO k s.sc (fun _ _ => false) [] s.docs = brute k s := by
  have hdocs : s.docs.Pairwise (· < ·) := by
    unfold SegIn.wf at hwf
    simp only [Bool.and_eq_true] at hwf
    exact incr_pairwise _ hwf.1.1.1
  rw [runDocsO_eq_best k hk s.sc _ (by intro H d v _ h; simp at h) s.docs hdocs, s.hits_eq hdocs]
  exact best_perm k (List.reverse_perm _)

/-- the score-hook hypothesis in the form of the design: `adjust(score) ≤ bound` -/
theorem hook_ok_of_adjust_le (k : Nat) (hk : 0 < k) (s : SegIn) (hwf : s.wf = true)
    (h : ∀ d v, s.sc d = some v → v ≤ ubsum s.terms d) :
    wandLoop k false s.sc s.terms = brute k s := by
  apply wandLoop_eq_brute k hk s hwf
  unfold boundsOk
  rw [List.all_eq_true]
  intro x hx
  obtain ⟨d, o⟩ := x
  cases o with
  | none => rfl
  | some v =>
    have hdocs : s.docs.Pairwise (· < ·) := by
      unfold SegIn.wf at hwf
      simp only [Bool.and_eq_true] at hwf
      exact incr_pairwise _ hwf.1.1.1
    have := h d v (s.sc_of_mem hdocs d (some v) hx)
    simpa using this

/-! ## where the bounds come from: sums of per-term contributions -/

theorem sumContrib_le_ubsum (ts : List Term) (h : validBounds ts = true) (d : Nat) :
    sumContrib ts d ≤ ubsum ts d := by
  induction ts with
  | nil => simp [sumContrib, ubsum]
  | cons t r ih =>
    unfold validBounds at h
    rw [List.all_cons, Bool.and_eq_true] at h
    have ihr := ih h.2
    unfold sumContrib ubsum
    have ht : t.contrib d ≤ (if t.has d = true then t.ub else 0) := by
      unfold Term.contrib Term.has
      cases hf : t.posts.find? (fun p => p.1 == d) with
      | none => simp
      | some p =>
        have hp : p ∈ t.posts := List.mem_of_find?_eq_some hf
        have hpd : (p.1 == d) = true := by
          have := List.find?_some hf
          simpa using this
        have hany : t.posts.any (fun p => p.1 == d) = true :=
          List.any_eq_true.mpr ⟨p, hp, hpd⟩
        have hle := (List.all_eq_true.mp h.1) p hp
        simp only [hany, if_true]
        simpa using hle
    omega

/-- dis_max with a tie breaker `num/den ∈ [0,1]` never exceeds the plain sum of its children
(`max + tie·(sum − max)`), so bounds that dominate the sum dominate dis_max scores too; boosts
are already inside the contributions -/
theorem disMax_le_sum (mx sm num den : Nat) (hmx : mx ≤ sm) (hnd : num ≤ den) :
    mx + num * (sm - mx) / den ≤ sm := by
  have h1 : num * (sm - mx) ≤ den * (sm - mx) := Nat.mul_le_mul_right _ hnd
  have h2 : num * (sm - mx) / den ≤ sm - mx := by
    apply Nat.div_le_of_le_mul
    exact h1
  omega

/-- **Classical WAND statement**: when every accepted final score is at most the plain sum of
the contributions (sums, boosts, dis_max) and every posting respects its term bound, `wand_loop`
returns the exhaustive top-k. -/
theorem wandLoop_eq_brute_of_validBounds (k : Nat) (hk : 0 < k) (s : SegIn) (hwf : s.wf = true)
    (hv : validBounds s.terms = true)
    (hs : ∀ d v, s.sc d = some v → v ≤ sumContrib s.terms d) :
    wandLoop k false s.sc s.terms = brute k s := by
  rw [wandLoop_eq_wandRule k s hwf]
  have hdocs : s.docs.Pairwise (· < ·) := by
    unfold SegIn.wf at hwf
    simp only [Bool.and_eq_true] at hwf
    exact incr_pairwise _ hwf.1.1.1
  rw [wandRule_eq_best k hk s.sc _
    (fun d v h => Nat.le_trans (hs d v h) (sumContrib_le_ubsum s.terms hv d)) s.docs hdocs,
    s.hits_eq hdocs]
  exact best_perm k (List.reverse_perm _)

/-! ## per-segment truncation and merge -/

theorem ins_eq_sort (x : Hit) (l : List Hit) : ins x l = SL.Sort.ins better x l := by
  induction l with
  | nil => rfl
  | cons y ys ih => simp [ins, SL.Sort.ins, ih]

theorem sortHits_eq_sort (l : List Hit) : sortHits l = SL.Sort.isort better l := by
  induction l with
  | nil => rfl
  | cons y ys ih => simp [sortHits, SL.Sort.isort, ins_eq_sort, ih]

theorem best_eq_topk (k : Nat) (l : List Hit) : best k l = SL.Sort.topk better k l := by
  simp [best, SL.Sort.topk, sortHits_eq_sort]

def globs : Nat → List (List Hit) → List (List Hit)
  | _, [] => []
  | i, hs :: rest => globalise i hs :: globs (i + 1) rest

theorem mergeSegs_eq_flatten : ∀ (Ls : List (List Hit)) (i : Nat),
    mergeSegs i Ls = (globs i Ls).flatten := by
  intro Ls
  induction Ls with
  | nil => intro i; rfl
  | cons L r ih => intro i; simp [mergeSegs, globs, ih]

theorem globalise_best (i k : Nat) (L : List Hit) :
    globalise i (best k L) = best k (globalise i L) := by
  have hf : ∀ a b : Hit, better a b =
      better ((fun h : Hit => (h.1, i * segBase + h.2)) a) ((fun h : Hit => (h.1, i * segBase + h.2)) b) := by
    intro a b
    simp [better]
  unfold globalise
  rw [best_eq_topk, best_eq_topk]
  unfold SL.Sort.topk
  rw [List.map_take, SL.Sort.map_isort _ hf]

theorem globs_map_best (k : Nat) : ∀ (Ls : List (List Hit)) (i : Nat),
    globs i (Ls.map (best k)) = (globs i Ls).map (best k) := by
  intro Ls
  induction Ls with
  | nil => intro i; rfl
  | cons L r ih => intro i; simp [globs, globalise_best, ih]

/-- truncating every segment to its `k` best before the merge does not change the `limit ≤ k`
best of the merge -/
theorem merge_topk (k limit : Nat) (h : limit ≤ k) (Ls : List (List Hit)) :
    best limit (mergeSegs 0 (Ls.map (best k))) = best limit (mergeSegs 0 Ls) := by
  rw [mergeSegs_eq_flatten, mergeSegs_eq_flatten, globs_map_best, best_eq_topk, best_eq_topk]
  have hmap : (globs 0 Ls).map (best k) = (globs 0 Ls).map (SL.Sort.topk better k) :=
    List.map_congr_left fun l _ => best_eq_topk k l
  rw [hmap, ← SL.Sort.take_topk k limit h, ← SL.Sort.take_topk k limit h (globs 0 Ls).flatten,
    ← SL.Sort.topk_flatten better_strictTotal k]

/-- **`execution = bm25` end to end**: per-segment `limit+1`-heaps, merge, sort, truncate = the
`limit` best of all accepted candidates of all segments -/
theorem search_bm25_eq_global_best (k limit : Nat) (h : limit ≤ k) (segs : List SegIn) :
    search .bm25 k limit segs = best limit (mergeSegs 0 (segs.map SegIn.hits)) := by
  unfold search
  have : segs.map (runSeg .bm25 k) = (segs.map SegIn.hits).map (best k) := by
    rw [List.map_map]
    apply List.map_congr_left
    intro s _
    simp [runSeg, brute]
  rw [this, merge_topk k limit h]

/-- **C09, `wand`, end to end** (`_partial`: `boundsOk` excludes the score-hook defect): the hits
of `execution = wand` are the `limit` best accepted candidates of the whole index -/
theorem search_wand_eq_global_best_partial (k limit : Nat) (hk : 0 < k) (h : limit ≤ k)
    (segs : List SegIn)
    (hs : ∀ s ∈ segs, s.scan = true ∨ (s.wf = true ∧ boundsOk s = true)) :
    search .wand k limit segs = best limit (mergeSegs 0 (segs.map SegIn.hits)) := by
  rw [search_wand_eq_bm25_partial k limit hk segs hs, search_bm25_eq_global_best k limit h]

/-! ## negative witnesses (kernel-checked by `decide`, replayed on the code by `corpus/C09`) -/

/-- one term, `bmw_block_size = 1`, contributions 5, 5, 1, 20; `limit = 1` (`k = 2`) -/
def bmwTerm : Term :=
  { posts := [(0, 5), (1, 5), (2, 1), (3, 20)], ub := 21, bs := 1,
    blockUb := [6, 6, 2, 21], blockMaxDoc := [0, 1, 2, 3] }
def bmwSeg : SegIn :=
  { terms := [bmwTerm], fin := [(0, some 5), (1, some 5), (2, some 1), (3, some 20)] }

/-- **The block bound of the code is not a bound**: the segment is well formed, all bounds
dominate the scores (even per block), yet `bmw` loses the best document — the cursor stands in
a block whose maximum is below the threshold and the loop stops. -/
theorem bmw_code_bound_unsound :
    bmwSeg.wf = true ∧ boundsOk bmwSeg = true ∧ blockBoundsOk bmwSeg = true ∧
      search .bmw 2 1 [bmwSeg] = [(5, 0)] ∧ search .bm25 2 1 [bmwSeg] = [(20, 3)] ∧
      search .bmw 2 1 [bmwSeg] ≠ search .bm25 2 1 [bmwSeg] := by decide

/-- two terms, block size 1 -/
def bmwA : Term :=
  { posts := [(0, 5), (1, 5), (2, 1), (3, 9)], ub := 10, bs := 1, blockUb := [6, 6, 2, 10],
    blockMaxDoc := [0, 1, 2, 3] }
def bmwB : Term :=
  { posts := [(0, 3), (1, 3), (3, 4), (4, 1)], ub := 5, bs := 1, blockUb := [4, 4, 5, 2],
    blockMaxDoc := [0, 1, 3, 4] }
def bmwSeg2 : SegIn :=
  { terms := [bmwA, bmwB],
    fin := [(0, some 8), (1, some 8), (2, some 1), (3, some 13), (4, some 1)] }

theorem bmw_code_bound_unsound_two_terms :
    bmwSeg2.wf = true ∧ boundsOk bmwSeg2 = true ∧ blockBoundsOk bmwSeg2 = true ∧
      search .bmw 2 1 [bmwSeg2] ≠ search .bm25 2 1 [bmwSeg2] ∧
      search .wand 2 1 [bmwSeg2] = search .bm25 2 1 [bmwSeg2] := by decide

/-- a multiplying score hook: BM25 contributions 3, 1, 1 with term bound 4; final scores
`3·10`, `1·2`, `1·50` -/
def hookTerm : Term :=
  { posts := [(0, 3), (1, 1), (2, 1)], ub := 4, bs := 128, blockUb := [4], blockMaxDoc := [2] }
def hookSeg : SegIn :=
  { terms := [hookTerm], fin := [(0, some 30), (1, some 2), (2, some 50)] }

/-- **Pruning with BM25 bounds under a score hook is unsound** (`boundsOk` is false here, which
is exactly what `search_wand_eq_bm25_partial` needs) -/
theorem hook_multiply_unsound :
    hookSeg.wf = true ∧ boundsOk hookSeg = false ∧
      search .wand 1 1 [hookSeg] = [(30, 0)] ∧ search .bm25 1 1 [hookSeg] = [(50, 2)] := by
  decide

/-! ## non-vacuity -/

/-- the hypotheses of the positive theorems are satisfiable by a segment on which pruning really
happens (document 2 is never scored by `wand`: bound 11 < threshold 12) -/
def okA : Term :=
  { posts := [(0, 9), (1, 8), (2, 2), (3, 10)], ub := 11, bs := 2, blockUb := [10, 11],
    blockMaxDoc := [1, 3] }
def okB : Term :=
  { posts := [(0, 5), (1, 4), (3, 1)], ub := 6, bs := 2, blockUb := [6, 2], blockMaxDoc := [1, 3] }
def okSeg : SegIn :=
  { terms := [okA, okB], fin := [(0, some 14), (1, some 12), (2, some 2), (3, some 11)] }

example : okSeg.wf = true ∧ boundsOk okSeg = true ∧ blockBoundsOk okSeg = true := by decide
example : wandLoop 2 false okSeg.sc okSeg.terms = [(14, 0), (12, 1)] := by decide
example : wandRule 2 okSeg.sc (ubsum okSeg.terms) okSeg.docs = brute 2 okSeg := by decide
example : search .wand 2 1 [okSeg, bmwSeg] = search .bm25 2 1 [okSeg, bmwSeg] :=
  search_wand_eq_bm25_partial 2 1 (by decide) _ (by decide)
example : wandRule 2 bmwSeg.sc (blockSum bmwSeg.terms) bmwSeg.docs = [(20, 3), (5, 0)] := by decide
example : runDocsO 1 hookSeg.sc (fun _ _ => false) [] hookSeg.docs = [(50, 2)] := by decide

end SL.TK
