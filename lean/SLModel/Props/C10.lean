import SLModel.Core.Sort
import SLModel.Core.Bm25
import SLModel.Lemmas.BTop
import SLModel.Lemmas.SortCmp
/-!
# C10 — hit order follows the sort spec; scores follow BM25 and the scoring functions

Model: `SL.Sort` (`Core/Sort.lean`): `mkPlan`, `buildKey` (`pickInt`/`pickStr`: minimum for
ascending, maximum for descending; `Missing` when the document has no value), `Key.cmp`
(`Missing` last in both directions, then segment, then document), `search` (bounded heap of
`limit+1` for field sorts; per-segment top-`(limit+1)` + merge for the default score sort; final
sort and truncation).  The driver (`Drv/C10`) builds the keys of every matching document from
the scores of `Core/Bm25` and runs `search`; the harness compares ids, order and scores with
`IndexReader::search`.

The score half of the property ("equals BM25 combined through boosts and scoring functions") is
a definition in the model (`SL.Bm25.finalScore`) and is carried by the correspondence.  One
mechanism underneath it is proved: single-value reads of numeric fast fields (`colRead`) equal
the documented meaning (`colSpec`) — `colRead_eq_spec`, a full theorem since the repair of
/repo commit 96697a7; the legacy read keeps `legacy_colRead_eq_spec_partial` and the negative
witness `colRead_leaks_next_document`.
-/
set_option linter.unusedSimpArgs false
namespace SL.Sort
open SL.ISort (StrictTotal Sorted)

/-- keys that have the shape of a plan: the only keys `build_key` produces for that plan -/
abbrev PKey (pl : Plan) := {k : Key // k.shaped pl = true}

def PKey.lt {pl : Plan} (a b : PKey pl) : Bool := Key.lt a.1 b.1

/-- **The comparator is a strict total order on the keys of one plan**: irreflexive, transitive,
and any two different keys (in particular keys of two different documents) are ordered. -/
theorem cmp_strict_total (pl : Plan) : StrictTotal (PKey.lt (pl := pl)) := by
  have h := key_lin pl
  refine ⟨?_, ?_, ?_⟩
  · intro a
    simp [PKey.lt, Key.lt, h.refl a.1 a.2]
  · intro a b c h1 h2
    simp only [PKey.lt, Key.lt, beq_iff_eq] at *
    exact h.trans a.1 b.1 c.1 a.2 b.2 c.2 h1 h2
  · intro a b hab
    simp only [PKey.lt, Key.lt, beq_iff_eq]
    cases hc : a.1.cmp b.1 with
    | lt => exact Or.inl rfl
    | eq => exact absurd (Subtype.ext (h.eqv a.1 b.1 a.2 b.2 hc)) hab
    | gt => right; rw [h.swap a.1 b.1 a.2 b.2, hc]; rfl

/-- every key built from a plan has the shape of that plan -/
theorem buildKey_shaped (pl : Plan) (dv : DocVals) (r : Int) (seg doc : Nat) :
    (buildKey pl dv r seg doc).shaped pl = true := by
  unfold Key.shaped buildKey
  simp only
  induction pl with
  | nil => rfl
  | cons sp sps ih =>
    simp only [List.map_cons, shapedParts, ih, Bool.and_true, beq_self_eq_true, Bool.true_and]
    unfold Spec.value
    cases sp.field <;> simp only [kindOk]
    · cases pickStr sp.desc (lookupL _ dv.kw) <;> rfl
    · cases pickInt sp.desc (lookupL _ dv.i64) <;> rfl
    · cases pickInt sp.desc (lookupL _ dv.f64) <;> rfl

/-- **Missing values sort last regardless of the direction.** -/
theorem missing_last (a b : Part) (ha : a.val = .missing) (hb : b.val ≠ .missing) :
    a.cmp b = .gt ∧ b.cmp a = .lt := by
  unfold Part.cmp
  rw [ha]
  cases hv : b.val <;> simp [hv] at hb ⊢

theorem missing_eq (a b : Part) (ha : a.val = .missing) (hb : b.val = .missing) :
    a.cmp b = .eq := by
  unfold Part.cmp; rw [ha, hb]

/-! ### value selection on multi-valued fields -/

theorem minInt_spec : ∀ (vs : List Int) (m : Int), minInt vs = some m → m ∈ vs ∧ ∀ v ∈ vs, m ≤ v := by
  intro vs
  induction vs with
  | nil => intro m h; simp [minInt] at h
  | cons x xs ih =>
    intro m h
    simp only [minInt] at h
    cases hr : minInt xs with
    | none =>
      simp [hr] at h; subst h
      cases xs with
      | nil => simp
      | cons y ys =>
        simp only [minInt] at hr
        cases hm : minInt ys <;> simp [hm] at hr
    | some m' =>
      simp [hr] at h
      obtain ⟨hmem, hle⟩ := ih m' hr
      subst h
      split
      · refine ⟨by simp [hmem], ?_⟩
        intro v hv
        rcases List.mem_cons.mp hv with rfl | hv
        · omega
        · exact hle v hv
      · refine ⟨by simp, ?_⟩
        intro v hv
        rcases List.mem_cons.mp hv with rfl | hv
        · omega
        · have := hle v hv; omega

theorem maxInt_spec : ∀ (vs : List Int) (m : Int), maxInt vs = some m → m ∈ vs ∧ ∀ v ∈ vs, v ≤ m := by
  intro vs
  induction vs with
  | nil => intro m h; simp [maxInt] at h
  | cons x xs ih =>
    intro m h
    simp only [maxInt] at h
    cases hr : maxInt xs with
    | none =>
      simp [hr] at h; subst h
      cases xs with
      | nil => simp
      | cons y ys =>
        simp only [maxInt] at hr
        cases hm : maxInt ys <;> simp [hm] at hr
    | some m' =>
      simp [hr] at h
      obtain ⟨hmem, hle⟩ := ih m' hr
      subst h
      split
      · refine ⟨by simp [hmem], ?_⟩
        intro v hv
        rcases List.mem_cons.mp hv with rfl | hv
        · omega
        · exact hle v hv
      · refine ⟨by simp, ?_⟩
        intro v hv
        rcases List.mem_cons.mp hv with rfl | hv
        · omega
        · have := hle v hv; omega

theorem minInt_none (vs : List Int) : minInt vs = none ↔ vs = [] := by
  cases vs with
  | nil => simp [minInt]
  | cons x xs => simp only [minInt]; cases minInt xs <;> simp

theorem maxInt_none (vs : List Int) : maxInt vs = none ↔ vs = [] := by
  cases vs with
  | nil => simp [maxInt]
  | cons x xs => simp only [maxInt]; cases maxInt xs <;> simp

/-- **Ascending keys use the minimum, descending keys the maximum of a multi-valued numeric
field; the key is `Missing` exactly when the document has no value.** -/
theorem pick_min_max (desc : Bool) (vs : List Int) :
    (pickInt desc vs = none ↔ vs = []) ∧
    ∀ m, pickInt desc vs = some m →
      m ∈ vs ∧ (if desc then ∀ v ∈ vs, v ≤ m else ∀ v ∈ vs, m ≤ v) := by
  cases desc with
  | false =>
    simp only [pickInt, Bool.false_eq_true, if_false]
    exact ⟨minInt_none vs, fun m h => minInt_spec vs m h⟩
  | true =>
    simp only [pickInt, if_true]
    exact ⟨maxInt_none vs, fun m h => maxInt_spec vs m h⟩

theorem minStr_spec : ∀ (vs : List (List Nat)) (m : List Nat), minStr vs = some m →
    m ∈ vs ∧ ∀ v ∈ vs, lexCmp v m ≠ .lt := by
  intro vs
  induction vs with
  | nil => intro m h; simp [minStr] at h
  | cons x xs ih =>
    intro m h
    simp only [minStr] at h
    cases hr : minStr xs with
    | none =>
      simp [hr] at h; subst h
      cases xs with
      | nil => simp [lexCmp_lin.refl x trivial]
      | cons y ys =>
        simp only [minStr] at hr
        cases hm : minStr ys <;> simp [hm] at hr
    | some m' =>
      simp [hr] at h
      obtain ⟨hmem, hle⟩ := ih m' hr
      subst h
      by_cases hc : lexCmp m' x = .lt
      · rw [if_pos hc]
        refine ⟨by simp [hmem], ?_⟩
        intro v hv
        rcases List.mem_cons.mp hv with rfl | hv
        · rw [lexCmp_lin.swap m' v trivial trivial, hc]; simp
        · exact hle v hv
      · rw [if_neg hc]
        refine ⟨by simp, ?_⟩
        intro v hv
        rcases List.mem_cons.mp hv with rfl | hv
        · simp [lexCmp_lin.refl v trivial]
        · intro hlt
          -- v < x and not (m' < x): then v < m' contradicts minimality of m'
          apply hle v hv
          cases hmx : lexCmp m' x with
          | lt => exact absurd hmx hc
          | eq => rw [lexCmp_lin.eqv m' x trivial trivial hmx]; exact hlt
          | gt =>
            have hxm : lexCmp x m' = .lt := by
              rw [lexCmp_lin.swap m' x trivial trivial, hmx]; rfl
            exact lexCmp_lin.trans v x m' trivial trivial trivial hlt hxm

theorem maxStr_spec : ∀ (vs : List (List Nat)) (m : List Nat), maxStr vs = some m →
    m ∈ vs ∧ ∀ v ∈ vs, lexCmp m v ≠ .lt := by
  intro vs
  induction vs with
  | nil => intro m h; simp [maxStr] at h
  | cons x xs ih =>
    intro m h
    simp only [maxStr] at h
    cases hr : maxStr xs with
    | none =>
      simp [hr] at h; subst h
      cases xs with
      | nil => simp [lexCmp_lin.refl x trivial]
      | cons y ys =>
        simp only [maxStr] at hr
        cases hm : maxStr ys <;> simp [hm] at hr
    | some m' =>
      simp [hr] at h
      obtain ⟨hmem, hle⟩ := ih m' hr
      subst h
      by_cases hc : lexCmp x m' = .lt
      · rw [if_pos hc]
        refine ⟨by simp [hmem], ?_⟩
        intro v hv
        rcases List.mem_cons.mp hv with rfl | hv
        · rw [lexCmp_lin.swap v m' trivial trivial, hc]; simp
        · exact hle v hv
      · rw [if_neg hc]
        refine ⟨by simp, ?_⟩
        intro v hv
        rcases List.mem_cons.mp hv with rfl | hv
        · simp [lexCmp_lin.refl v trivial]
        · intro hlt
          apply hle v hv
          cases hmx : lexCmp x m' with
          | lt => exact absurd hmx hc
          | eq => rw [← lexCmp_lin.eqv x m' trivial trivial hmx]; exact hlt
          | gt =>
            have hxm : lexCmp m' x = .lt := by
              rw [lexCmp_lin.swap x m' trivial trivial, hmx]; rfl
            exact lexCmp_lin.trans m' x v trivial trivial trivial hxm hlt

/-- keyword fields: bytewise minimum for ascending, maximum for descending -/
theorem pick_min_max_str (desc : Bool) (vs : List (List Nat)) (m : List Nat)
    (h : pickStr desc vs = some m) :
    m ∈ vs ∧ (if desc then ∀ v ∈ vs, lexCmp m v ≠ .lt else ∀ v ∈ vs, lexCmp v m ≠ .lt) := by
  cases desc with
  | false => simp only [pickStr, Bool.false_eq_true, if_false] at h ⊢; exact minStr_spec vs m h
  | true => simp only [pickStr, if_true] at h ⊢; exact maxStr_spec vs m h

/-! ### the hits are the sorted prefix of all matches -/

/-- **`search` returns the `limit`-prefix of all matches in comparator order, and that list is
sorted** — for both code paths (one heap of capacity `limit+1` over all segments; per-segment
top-`(limit+1)` and merge), for any number of segments, matches and any limit. -/
theorem search_sorted (pl : Plan) (limit : Nat) (segs : List (List Key))
    (hs : ∀ s ∈ segs, ∀ k ∈ s, k.shaped pl = true) :
    search pl limit segs = specSearch Key.lt limit segs ∧
      Sorted Key.lt (search pl limit segs) := by
  have hst := cmp_strict_total pl
  have hf : ∀ a b : PKey pl, PKey.lt a b = Key.lt a.1 b.1 := fun _ _ => rfl
  let segs' := liftLL (fun k : Key => k.shaped pl = true) segs hs
  have hmap : segs'.map (List.map Subtype.val) = segs := liftLL_map _ segs hs
  have hspec : specSearch Key.lt limit segs = (specSearch PKey.lt limit segs').map Subtype.val := by
    rw [map_specSearch Subtype.val hf, hmap]
  have heq : search pl limit segs = specSearch Key.lt limit segs := by
    unfold search
    split
    · rw [← hmap, ← map_fastSearch Subtype.val hf, ← map_specSearch Subtype.val hf,
        fastSearch_eq_spec hst (limit + 1) limit (by omega)]
    · rw [← hmap, ← map_heapSearch Subtype.val hf, ← map_specSearch Subtype.val hf,
        heapSearch_eq_spec hst (limit + 1) limit (by omega)]
  refine ⟨heq, ?_⟩
  rw [heq, hspec]
  have := specSearch_sorted hst limit segs'
  unfold Sorted at this ⊢
  rw [List.pairwise_map]
  exact this

/-- the same for keys built from documents: no hypothesis left -/
theorem search_sorted_built (pl : Plan) (limit : Nat)
    (segs : List (List (DocVals × Int × Nat × Nat))) :
    let keys := segs.map fun s => s.map fun (dv, r, sg, d) => buildKey pl dv r sg d
    search pl limit keys = specSearch Key.lt limit keys ∧ Sorted Key.lt (search pl limit keys) := by
  intro keys
  apply search_sorted
  intro s hs k hk
  obtain ⟨s0, _, rfl⟩ := List.mem_map.mp hs
  obtain ⟨x, _, rfl⟩ := List.mem_map.mp hk
  exact buildKey_shaped pl _ _ _ _

/-! ### non-vacuity -/

def kA : Key := buildKey (mkPlan [(.i64 "n", none), (.score, none)])
  { kw := [], i64 := [("n", [5, 2, 9])], f64 := [] } 40 0 0
def kB : Key := buildKey (mkPlan [(.i64 "n", none), (.score, none)])
  { kw := [], i64 := [], f64 := [] } 70 0 1
def kC : Key := buildKey (mkPlan [(.i64 "n", none), (.score, none)])
  { kw := [], i64 := [("n", [2])], f64 := [] } 90 1 0

example : search (mkPlan [(.i64 "n", none), (.score, none)]) 2 [[kA, kB], [kC]] = [kC, kA] := by decide
example : kA.parts = [⟨false, .i64 2⟩, ⟨true, .score 40⟩] := by decide
example : (kB.parts.head?.map (·.val)) = some Val.missing := by decide
example : pickInt true [5, 2, 9] = some 9 ∧ pickInt false [5, 2, 9] = some 2 := by decide
example : Key.lt kA kB = true ∧ Key.lt kC kA = true := by decide

end SL.Sort

namespace SL.Bm25

/-! ### single-value reads of numeric fast fields (score functions)

Since /repo commit 96697a7 the read tests that the document's range is non-empty; the statement
`∀ col doc, colRead col doc = colSpec col doc` is now a theorem.  The legacy read
(`colReadLegacy`) keeps its partial theorem and its negative witness as documentation of the
repaired defect (known finding `score.list-column-missing`, fixed). -/

theorem drop_flatten_head {α : Type} (col : List (List α)) (doc : Nat) (v : α) (vs : List α)
    (h : col[doc]? = some (v :: vs)) : (col.drop doc).flatten.head? = some v := by
  have hlt : doc < col.length := (List.getElem?_eq_some_iff.mp h).1
  have hget : col[doc] = v :: vs := by
    have := List.getElem?_eq_getElem hlt
    rw [this] at h; exact Option.some.inj h
  rw [List.drop_eq_getElem_cons hlt, hget]
  simp

/-- **The single-value read of a numeric fast field is the document's own first value**, on
plain and on list columns, `none` exactly when the document has no value (so score functions
fall back to `missing`). -/
theorem colRead_eq_spec {α : Type} (col : List (List α)) (doc : Nat) :
    colRead col doc = colSpec col doc := by
  unfold colRead colSpec
  split
  · cases h : col[doc]? with
    | none => rfl
    | some vs =>
      cases vs with
      | nil => rfl
      | cons v r =>
        simp only [List.isEmpty_cons, Bool.false_eq_true, if_false, List.head?_cons]
        exact drop_flatten_head col doc v r h
  · rfl

/-- legacy read: right on plain columns and, on list columns, for documents that have a value -/
theorem legacy_colRead_eq_spec_partial {α : Type} (col : List (List α)) (doc : Nat)
    (h : isListCol col = false ∨ ∃ v vs, col[doc]? = some (v :: vs)) :
    colReadLegacy col doc = colSpec col doc := by
  unfold colReadLegacy colSpec
  rcases h with h | ⟨v, vs, h⟩
  · simp [h]
  · split
    · rw [drop_flatten_head col doc v vs h, h]; rfl
    · rfl

/-- **legacy negative witness** (the defect repaired by 96697a7): a document without a value
read the next document's first value; the repaired read does not -/
theorem colRead_leaks_next_document :
    colReadLegacy [([] : List Nat), [7, 8], [3]] 0 = some 7 ∧
      colSpec [([] : List Nat), [7, 8], [3]] 0 = none ∧
      colRead [([] : List Nat), [7, 8], [3]] 0 = none := by
  decide

example : colRead [([] : List Nat), [7], [3]] 0 = none := by decide
example : colRead [[1], ([] : List Nat), [7, 8]] 2 = some 7 := by decide
example : colRead [[1], ([] : List Nat), [7, 8]] 1 = none := by decide

end SL.Bm25
