import SLModel.Core.Cursor
import SLModel.Lemmas.KeysetGen
import SLModel.Lemmas.CursorJson
/-!
# C11 — cursor pagination is complete, duplicate-free and safe

Model: `SLModel/Core/Cursor.lean` (mechanism model of `decode_cursor`/`encode_cursor`, the cursor
test, `limit+1` look-ahead, `returned`, `total_hits_estimate`, segment generations).
Generic keyset lemma: `SLModel/Lemmas/KeysetGen.lean` (`SL.KeysetGen.walk_complete`).
Tie to the code: `Drv/C11` runs these definitions; `harness/src/props/c11.rs` compares them with
`IndexReader::search` page by page, cursor by cursor.
-/
namespace SL.Cursor
open SL.ISort SL.KeysetGen

/-! ## A. pages and walks (any key type, any strict total order) -/

section Walk
variable {κ : Type} {lt : κ → κ → Bool}

theorem insKey_eq (x : κ) (l : List κ) : insKey lt x l = ins lt x l := by
  induction l with
  | nil => rfl
  | cons y ys ih => simp [insKey, ins, ih]

/-- the model's sort is the insertion sort the lemmas are about -/
theorem sortKeys_eq (l : List κ) : sortKeys lt l = isort lt l := by
  induction l with
  | nil => rfl
  | cons x xs ih => simp [sortKeys, isort, insKey_eq, ih]

/-- the cursor points at the last element of `pre`, and `returned` counts `pre` -/
def CurAt (cur : Option (Cur κ)) (pre : List κ) : Prop :=
  match cur with
  | none => pre = []
  | some c => pre.getLast? = some c.key ∧ c.returned = pre.length

/-- what a response looks like when the sorted matches split into `pre` (already returned) and
`suf` (still to come) -/
def RespAt (r : Resp κ) (pre suf : List κ) (limit n : Nat) : Prop :=
  r.total = n ∧
  ((suf.length ≤ limit ∧ r.hits = suf ∧ r.next = none) ∨
   (limit < suf.length ∧ r.hits = suf.take limit ∧
      ∃ k, (suf.take limit).getLast? = some k ∧ r.next = some { key := k, returned := pre.length + limit }))

/-- One request at a consistent cursor returns the next `limit` sorted matches, an exact total,
and a next cursor iff more remain (mechanism: filter raw matches, sort, take `limit+1`). -/
theorem page_at (h : StrictTotal lt) (cfg : Limits) (hcfg : cfg.maxAdvance < u32Max)
    (matched : List κ) (hnd : matched.Nodup) (limit : Nat)
    (hl : 0 < limit) (hlc : limit ≤ cfg.maxCandidates) (hn : matched.length ≤ cfg.maxAdvance + 1)
    (pre suf : List κ) (hsplit : sortKeys lt matched = pre ++ suf)
    (cur : Option (Cur κ)) (hcur : CurAt cur pre) (hpre : suf ≠ [] ∨ cur = none) :
    ∃ r, page lt cfg matched cur limit = .ok r ∧ RespAt r pre suf limit matched.length := by
  have hperm : (sortKeys lt matched).Perm matched := by
    rw [sortKeys_eq]; exact isort_perm_self matched
  have hlen : pre.length + suf.length = matched.length := by
    have := hperm.length_eq
    rw [hsplit, List.length_append] at this
    exact this
  have hasc : Asc lt (pre ++ suf) := by
    rw [← hsplit, sortKeys_eq]; exact isort_asc h matched hnd
  -- `returned`, the cursor test and the candidates, by cases on the cursor
  have key : curReturned cur = pre.length ∧
      sawCursor lt matched cur = true ∧ sortKeys lt (afterCursor lt matched cur) = suf := by
    cases cur with
    | none =>
      have hp : pre = [] := hcur
      subst hp
      refine ⟨rfl, rfl, ?_⟩
      simpa [afterCursor] using hsplit
    | some c =>
      obtain ⟨hlast, hret⟩ := hcur
      obtain ⟨ini, hini⟩ := List.getLast?_eq_some_iff.mp hlast
      have hmem : c.key ∈ matched := by
        apply hperm.mem_iff.mp
        rw [hsplit, hini]; simp
      refine ⟨hret, ?_, ?_⟩
      · simp only [sawCursor, List.any_eq_true]
        exact ⟨c.key, hmem, by simp [keyEq, h.irrefl]⟩
      · simp only [afterCursor]
        rw [sortKeys_eq, isort_filter h, ← sortKeys_eq, hsplit, hini, List.append_assoc]
        apply filter_gt_sorted h
        have := hasc
        rw [hini, List.append_assoc] at this
        exact this
  obtain ⟨hret, hsaw, hcand⟩ := key
  have hcandlen : (afterCursor lt matched cur).length = suf.length := by
    have : (sortKeys lt (afterCursor lt matched cur)).Perm (afterCursor lt matched cur) := by
      rw [sortKeys_eq]; exact isort_perm_self _
    rw [← this.length_eq, hcand]
  have hcap : pre.length ≤ cfg.maxAdvance := by
    rcases hpre with hs | hc
    · have : 0 < suf.length := List.length_pos_iff.mpr hs
      omega
    · subst hc
      have hp : pre = [] := hcur
      simp [hp]
  have hng : ¬ pre.length > cfg.maxAdvance := by omega
  have hmc : min limit cfg.maxCandidates = limit := Nat.min_eq_left hlc
  unfold page
  simp only [hret, hsaw, hcand, hcandlen, hng, hmc, if_false, Bool.not_true, Bool.false_eq_true]
  unfold pageOf
  by_cases hgt : limit < suf.length
  · have htl : (List.take (limit + 1) suf).length > limit := by
      rw [List.length_take]; omega
    have htt : List.take limit (List.take (limit + 1) suf) = suf.take limit := by
      rw [List.take_take]; congr 1; omega
    have hne : suf.take limit ≠ [] := by
      intro h0
      have : (suf.take limit).length = 0 := by simp [h0]
      rw [List.length_take] at this
      omega
    obtain ⟨k, hk⟩ : ∃ k, (suf.take limit).getLast? = some k := by
      cases hq : (suf.take limit).getLast? with
      | none => exact absurd (List.getLast?_eq_none_iff.mp hq) hne
      | some k => exact ⟨k, rfl⟩
    have hmin : min (pre.length + limit) u32Max = pre.length + limit := by
      have : pre.length + limit ≤ u32Max := by omega
      exact Nat.min_eq_left this
    simp only [htl, if_true, htt, hk, hmin]
    refine ⟨_, rfl, ?_, Or.inr ⟨hgt, rfl, k, hk, rfl⟩⟩
    show suf.length - 0 + pre.length = matched.length
    omega
  · have hall : List.take (limit + 1) suf = suf := List.take_of_length_le (by omega)
    have hgt' : ¬ suf.length > limit := hgt
    simp only [hall, hgt', if_false]
    refine ⟨_, rfl, ?_, Or.inl ⟨by omega, rfl, rfl⟩⟩
    show suf.length - 0 + pre.length = matched.length
    omega

/-- shape of a complete walk: every page but the last is full and carries a cursor, the last
page carries none -/
def WalkShape (pages : List (Resp κ)) (limit : Nat) : Prop :=
  (∀ r ∈ pages.dropLast, r.next.isSome = true ∧ r.hits.length = limit) ∧
  (∃ r, pages.getLast? = some r ∧ r.next = none ∧ r.hits.length ≤ limit)

theorem walk_from (h : StrictTotal lt) (cfg : Limits) (hcfg : cfg.maxAdvance < u32Max)
    (recode : κ → κ) (matched : List κ) (hnd : matched.Nodup) (hrec : ∀ k ∈ matched, recode k = k)
    (limit : Nat) (hl : 0 < limit) (hlc : limit ≤ cfg.maxCandidates)
    (hn : matched.length ≤ cfg.maxAdvance + 1) :
    ∀ (fuel : Nat) (cur : Option (Cur κ)) (pre suf : List κ),
      sortKeys lt matched = pre ++ suf → CurAt cur pre → (suf ≠ [] ∨ cur = none) →
      suf.length < fuel * limit + 1 → 0 < fuel →
      ∃ pages, walkPages lt cfg recode matched limit fuel cur = some pages ∧
        (pages.map (·.hits)).flatten = suf ∧ (∀ r ∈ pages, r.total = matched.length) ∧
        WalkShape pages limit ∧ (suf ≠ [] → ∀ r ∈ pages, r.hits ≠ []) := by
  intro fuel
  induction fuel with
  | zero => intro _ _ _ _ _ _ _ hf; omega
  | succ fuel ih =>
    intro cur pre suf hsplit hcur hpre hlen _
    obtain ⟨r, hpage, htot, hshape⟩ :=
      page_at h cfg hcfg matched hnd limit hl hlc hn pre suf hsplit cur hcur hpre
    unfold walkPages
    simp only [hpage]
    rcases hshape with ⟨hle, hhits, hnext⟩ | ⟨hgt, hhits, k, hk, hnext⟩
    · -- last page
      simp only [hnext]
      refine ⟨[r], rfl, by simp [hhits], by simpa using htot, ⟨by simp, r, rfl, hnext, by rw [hhits]; exact hle⟩, ?_⟩
      intro hs r' hr'
      have : r' = r := by simpa using hr'
      subst this; rw [hhits]; exact hs
    · -- a full page and a cursor
      have hkmem : k ∈ matched := by
        have hp : (sortKeys lt matched).Perm matched := by
          rw [sortKeys_eq]; exact isort_perm_self matched
        apply hp.mem_iff.mp
        rw [hsplit]
        apply List.mem_append_right
        exact List.mem_of_mem_take (List.mem_of_getLast? hk)
      simp only [hnext, hrec k hkmem]
      have hfuel : 0 < fuel := by
        rcases Nat.eq_zero_or_pos fuel with h0 | h0
        · subst h0; simp at hlen; omega
        · exact h0
      have hlen' : (suf.drop limit).length < fuel * limit + 1 := by
        rw [List.length_drop]
        have : (fuel + 1) * limit = fuel * limit + limit := by rw [Nat.add_mul]; simp
        omega
      have hdropne : suf.drop limit ≠ [] := by
        intro h0
        have : (suf.drop limit).length = 0 := by simp [h0]
        rw [List.length_drop] at this
        omega
      have hcur' : CurAt (some ({ key := k, returned := pre.length + limit } : Cur κ)) (pre ++ suf.take limit) := by
        refine ⟨?_, ?_⟩
        · obtain ⟨ini, hini⟩ := List.getLast?_eq_some_iff.mp hk
          rw [hini, ← List.append_assoc]; simp
        · simp [List.length_take]; omega
      obtain ⟨rest, hrest, hflat, htots, ⟨hfull, rl, hrl, hrlnext, hrllen⟩, hne⟩ :=
        ih (some { key := k, returned := pre.length + limit }) (pre ++ suf.take limit) (suf.drop limit)
          (by rw [hsplit, List.append_assoc, List.take_append_drop]) hcur' (Or.inl hdropne) hlen' hfuel
      simp only [hrest]
      have hrestne : rest ≠ [] := by
        intro h0; rw [h0] at hrl; simp at hrl
      refine ⟨r :: rest, rfl, ?_, ?_, ⟨?_, rl, ?_, hrlnext, hrllen⟩, ?_⟩
      · simp only [List.map_cons, List.flatten_cons, hflat, hhits, List.take_append_drop]
      · intro r' hr'
        rcases List.mem_cons.mp hr' with rfl | hr'
        · exact htot
        · exact htots r' hr'
      · intro r' hr'
        rw [List.dropLast_cons_of_ne_nil hrestne] at hr'
        rcases List.mem_cons.mp hr' with rfl | hr'
        · refine ⟨by simp [hnext], ?_⟩
          rw [hhits, List.length_take]; omega
        · exact hfull r' hr'
      · rw [List.getLast?_cons, List.getLast?_eq_some_getLast hrestne] at *
        simpa using hrl
      · intro hs r' hr'
        rcases List.mem_cons.mp hr' with rfl | hr'
        · rw [hhits]
          intro h0
          have : (suf.take limit).length = 0 := by simp [h0]
          rw [List.length_take] at this
          omega
        · exact hne hdropne r' hr'

/-
Full statement (C11, first sentence) over the mechanism model:

  theorem walk_complete (h : StrictTotal lt) (matched) (hnd : matched.Nodup) (limit) (hl : 0 < limit) :
      ∃ pages, walkPages lt Limits.real id matched limit (matched.length + 1) none = some pages ∧
        (pages.map (·.hits)).flatten = sortKeys lt matched ∧ …

What is proved (`walk_complete_partial`) needs ONE hypothesis that excludes a behaviour of the code:
* `hn` — at most `MAX_CURSOR_ADVANCE + 1` matches (documented bound: deeper walks end in an error,
         negative witness `deep_walk_aborts`).
Two further hypotheses were needed for earlier states of /repo and are gone:
* `limit ≤ MAX_CANDIDATE_SIZE` until 7ad6649 (old cut: `pageLegacy`, `legacy_large_limit_truncates`);
* "the key survives `encode_cursor`/`decode_cursor`" until 0331be9: f64 sort values travelled as JSON
  numbers that serde_json does not always parse back.  The codec is exact now (`cursor_roundtrip_sort`
  has no side condition on f64 values), so the walk is stated with `recode = id`; the theorem with an
  arbitrary `recode` is kept as `walk_complete_recode`, the old failure as
  `legacy_walk_breaks_when_key_not_roundtripped`.
The order-theoretic core holds without any of them: `keyset_walk_complete`.
-/

/-- the walk theorem for a limit within the fetch cap -/
theorem walk_complete_small_limit (h : StrictTotal lt) (cfg : Limits) (hcfg : cfg.maxAdvance < u32Max)
    (recode : κ → κ) (matched : List κ) (hnd : matched.Nodup) (hrec : ∀ k ∈ matched, recode k = k)
    (limit : Nat) (hl : 0 < limit) (hlc : limit ≤ cfg.maxCandidates)
    (hn : matched.length ≤ cfg.maxAdvance + 1) :
    ∃ pages, walkPages lt cfg recode matched limit (matched.length + 1) none = some pages ∧
      (pages.map (·.hits)).flatten = sortKeys lt matched ∧
      (∀ r ∈ pages, r.total = matched.length) ∧ WalkShape pages limit := by
  have hlenS : (sortKeys lt matched).length = matched.length := by
    rw [sortKeys_eq]; exact (isort_perm_self matched).length_eq
  obtain ⟨pages, hw, hflat, htot, hshape, _⟩ :=
    walk_from h cfg hcfg recode matched hnd hrec limit hl hlc hn (matched.length + 1) none []
      (sortKeys lt matched)
      (by simp) rfl (Or.inr rfl)
      (by
        rw [hlenS]
        have : matched.length * 1 ≤ matched.length * limit := Nat.mul_le_mul_left _ hl
        have h2 : (matched.length + 1) * limit = matched.length * limit + limit := by
          rw [Nat.add_mul]; simp
        omega)
      (by omega)
  exact ⟨pages, hw, hflat, htot, hshape⟩


/-- a limit above the fetch cap behaves exactly like the cap (reader.rs since 7ad6649) -/
theorem page_min (cfg : Limits) (matched : List κ) (cur : Option (Cur κ)) (limit skipped : Nat) :
    page lt cfg matched cur limit skipped = page lt cfg matched cur (min limit cfg.maxCandidates) skipped := by
  unfold page
  have : min (min limit cfg.maxCandidates) cfg.maxCandidates = min limit cfg.maxCandidates := by omega
  rw [this]

theorem walkPages_min (cfg : Limits) (recode : κ → κ) (matched : List κ) (limit : Nat) :
    ∀ (fuel : Nat) (cur : Option (Cur κ)),
      walkPages lt cfg recode matched limit fuel cur =
        walkPages lt cfg recode matched (min limit cfg.maxCandidates) fuel cur := by
  intro fuel
  induction fuel with
  | zero => intro cur; rfl
  | succ fuel ih =>
    intro cur
    rw [walkPages, walkPages, ← page_min]
    cases hp : page lt cfg matched cur limit with
    | error e => rfl
    | ok r =>
      simp only
      cases hn : r.next with
      | none => rfl
      | some c => simp only; rw [ih]

/-- the walk theorem with an explicit key transformation between requests (`recode`) that is the
identity on the keys in play -/
theorem walk_complete_recode (h : StrictTotal lt) (cfg : Limits) (hcfg : cfg.maxAdvance < u32Max)
    (hmc : 0 < cfg.maxCandidates)
    (recode : κ → κ) (matched : List κ) (hnd : matched.Nodup) (hrec : ∀ k ∈ matched, recode k = k)
    (limit : Nat) (hl : 0 < limit) (hn : matched.length ≤ cfg.maxAdvance + 1) :
    ∃ pages, walkPages lt cfg recode matched limit (matched.length + 1) none = some pages ∧
      (pages.map (·.hits)).flatten = sortKeys lt matched ∧
      (∀ r ∈ pages, r.total = matched.length) ∧ WalkShape pages (min limit cfg.maxCandidates) := by
  rw [walkPages_min]
  exact walk_complete_small_limit h cfg hcfg recode matched hnd hrec (min limit cfg.maxCandidates)
    (by omega) (Nat.min_le_right _ _) hn

/-- **walk_complete_partial** — for any strict total order on the keys and ANY page size ≥ 1
(above `MAX_CANDIDATE_SIZE` the page size is the cap): following `next` from the first request
until it is absent never fails, the pages concatenate to exactly the sorted matches (every match
once, in order), every response reports the exact total, and `next` is absent exactly on the last
page (all earlier pages are full).  Partial only because of the documented depth bound `hn`. -/
theorem walk_complete_partial (h : StrictTotal lt) (cfg : Limits) (hcfg : cfg.maxAdvance < u32Max)
    (hmc : 0 < cfg.maxCandidates) (matched : List κ) (hnd : matched.Nodup)
    (limit : Nat) (hl : 0 < limit) (hn : matched.length ≤ cfg.maxAdvance + 1) :
    ∃ pages, walkPages lt cfg id matched limit (matched.length + 1) none = some pages ∧
      (pages.map (·.hits)).flatten = sortKeys lt matched ∧
      (∀ r ∈ pages, r.total = matched.length) ∧ WalkShape pages (min limit cfg.maxCandidates) :=
  walk_complete_recode h cfg hcfg hmc id matched hnd (fun _ _ => rfl) limit hl hn

/-- every match is returned exactly once: the concatenated pages are a permutation of the
matches without repetition -/
theorem walk_each_once_partial (h : StrictTotal lt) (cfg : Limits) (hcfg : cfg.maxAdvance < u32Max)
    (hmc : 0 < cfg.maxCandidates) (matched : List κ) (hnd : matched.Nodup)
    (limit : Nat) (hl : 0 < limit) (hn : matched.length ≤ cfg.maxAdvance + 1) :
    ∃ pages, walkPages lt cfg id matched limit (matched.length + 1) none = some pages ∧
      ((pages.map (·.hits)).flatten).Perm matched ∧ ((pages.map (·.hits)).flatten).Nodup := by
  obtain ⟨pages, hw, hflat, _, _⟩ := walk_complete_partial h cfg hcfg hmc matched hnd limit hl hn
  have hp : (sortKeys lt matched).Perm matched := by rw [sortKeys_eq]; exact isort_perm_self matched
  exact ⟨pages, hw, by rw [hflat]; exact hp, by rw [hflat]; exact hp.nodup_iff.mpr hnd⟩

/-- **keyset_walk_complete** (generic, unconditional): over ANY strict total order and any page
size ≥ 1, "return the first `n` results strictly after the cursor, hand out the last one as the
next cursor iff more than `n` remain" walks through exactly the ascending list. -/
theorem keyset_walk_complete (h : StrictTotal lt) (l : List κ) (hl : Asc lt l) (n : Nat) (hn : 0 < n) :
    (KeysetGen.walk lt l n (l.length + 1) none).flatten = l :=
  KeysetGen.walk_complete h l hl n hn

/-! ### totals -/

theorem filter_split_length (p : κ → Bool) (l : List κ) :
    (l.filter p).length + (l.filter (fun x => !p x)).length = l.length := by
  induction l with
  | nil => rfl
  | cons x xs ih =>
    by_cases hp : p x = true
    · simp [hp]; omega
    · simp [hp]; omega

theorem pageOf_total (top : List κ) (limit ret tot : Nat) (r : Resp κ)
    (hp : pageOf top limit ret tot = .ok r) : r.total = tot := by
  unfold pageOf at hp
  split at hp
  · split at hp <;> (injection hp with hp; subst hp; rfl)
  · injection hp with hp; subst hp; rfl

/-- `returned` of the cursor counts the matches at or before the cursor key (what a walk from
the first page maintains, see `countsPrefix_of_curAt`) -/
def CountsPrefix (lt : κ → κ → Bool) (matched : List κ) (cur : Option (Cur κ)) : Prop :=
  match cur with
  | none => True
  | some c => c.returned = (matched.filter (fun k => !lt c.key k)).length

/-- **total_le** — `total_hits_estimate` never exceeds the number of matches, whatever a pruning
executor skipped, and is exact when nothing was skipped (exhaustive execution). -/
theorem total_le (cfg : Limits) (matched : List κ) (cur : Option (Cur κ)) (limit skipped : Nat)
    (r : Resp κ) (hc : CountsPrefix lt matched cur) (hp : page lt cfg matched cur limit skipped = .ok r) :
    r.total ≤ matched.length ∧ (skipped = 0 → r.total = matched.length) := by
  unfold page at hp
  split at hp
  · cases hp
  · split at hp
    · cases hp
    · have ht := pageOf_total _ _ _ _ _ hp
      cases cur with
      | none =>
        simp only [afterCursor, curReturned] at ht
        constructor
        · omega
        · intro h0; omega
      | some c =>
        have hc' : c.returned = (matched.filter (fun k => !lt c.key k)).length := hc
        have hs := filter_split_length (fun k => lt c.key k) matched
        simp only [afterCursor, curReturned] at ht
        constructor
        · omega
        · intro h0; omega

/-- the cursors handed out along a walk count exactly the hits returned so far -/
theorem countsPrefix_of_curAt (h : StrictTotal lt) (matched : List κ) (hnd : matched.Nodup)
    (pre suf : List κ) (hsplit : sortKeys lt matched = pre ++ suf) (cur : Option (Cur κ))
    (hcur : CurAt cur pre) : CountsPrefix lt matched cur := by
  cases cur with
  | none => trivial
  | some c =>
    obtain ⟨hlast, hret⟩ := hcur
    obtain ⟨ini, hini⟩ := List.getLast?_eq_some_iff.mp hlast
    show c.returned = _
    have hperm : (sortKeys lt matched).Perm matched := by
      rw [sortKeys_eq]; exact isort_perm_self matched
    have hasc : Asc lt (ini ++ c.key :: suf) := by
      have : Asc lt (sortKeys lt matched) := by rw [sortKeys_eq]; exact isort_asc h matched hnd
      rw [hsplit, hini, List.append_assoc] at this
      exact this
    have hf : ((sortKeys lt matched).filter (fun k => lt c.key k)) = suf := by
      rw [hsplit, hini, List.append_assoc]
      exact filter_gt_sorted h c.key ini suf hasc
    have h1 := filter_split_length (fun k => lt c.key k) matched
    have h2 : (matched.filter (fun k => lt c.key k)).length = suf.length := by
      rw [← hf]; exact ((hperm.filter _).length_eq).symm
    have h3 : pre.length + suf.length = matched.length := by
      have := hperm.length_eq
      rw [hsplit, List.length_append] at this
      exact this
    omega

end Walk

/-! ## B. safety of `decode_cursor` -/

theorem parseScore_ok (raw : Bytes) (c : ScoreCursor) (hp : parseScore raw = .ok c) :
    c.version = cursorVersion ∧ c.returned ≤ maxCursorAdvance := by
  unfold parseScore at hp
  split at hp
  · cases hp
  · split at hp
    · cases hp
    · split at hp
      · cases hp
      · split at hp
        · cases hp
        · rename_i hv hr
          injection hp with hp
          subst hp
          simp only [Decidable.not_not] at hv
          exact ⟨hv, Nat.le_of_not_gt hr⟩
    · cases hp

theorem decodeScore_ok (req : Req) (raw : Bytes) (c : ScoreCursor) :
    decodeScore req raw = .ok c ↔ parseScore raw = .ok c ∧ c.generation = req.generation := by
  unfold decodeScore
  cases hp : parseScore raw with
  | ok c0 =>
    by_cases hg : c0.generation = req.generation
    · simp only [hg, ne_eq, not_true_eq_false, if_false, Dec.ok.injEq]
      constructor
      · intro h; subst h; exact ⟨rfl, hg⟩
      · intro h; exact h.1
    · simp only [ne_eq, hg, not_false_eq_true, if_true, Dec.ok.injEq]
      constructor
      · intro h; cases h
      · intro h; obtain ⟨h1, h2⟩ := h; subst h1; exact absurd h2 hg
  | error e => simp
  | unmodelled => simp

theorem checkSort_ok (req : Req) (c c' : SortCursor) :
    checkSort req c = .ok c' ↔
      c' = c ∧ c.version = sortCursorVersion ∧ c.generation = req.generation ∧
      c.planHash = req.planHash ∧ c.returned ≤ maxCursorAdvance ∧ c.values.length = req.planLen := by
  unfold checkSort
  by_cases h1 : c.version = sortCursorVersion
  · by_cases h2 : c.generation = req.generation
    · by_cases h3 : c.planHash = req.planHash
      · by_cases h4 : c.returned ≤ maxCursorAdvance
        · by_cases h5 : c.values.length = req.planLen
          · have h4' : ¬ c.returned > maxCursorAdvance := by omega
            have e : (if c.version ≠ sortCursorVersion then Dec.error DecErr.version
                else if c.generation ≠ req.generation then Dec.error DecErr.generation
                else if c.planHash ≠ req.planHash then Dec.error DecErr.planHash
                else if c.returned > maxCursorAdvance then Dec.error DecErr.advance
                else if c.values.length ≠ req.planLen then Dec.error DecErr.arity
                else Dec.ok c) = Dec.ok c := by
              simp [h1, h2, h3, h4', h5]
            rw [e]
            constructor
            · intro h; injection h with h; exact ⟨h.symm, h1, h2, h3, h4, h5⟩
            · intro h; rw [h.1]
          · have h4' : ¬ c.returned > maxCursorAdvance := by omega
            simp [h1, h2, h3, h4', h5]
        · have h4' : c.returned > maxCursorAdvance := by omega
          simp [h1, h2, h3, h4', h4]
      · simp [h1, h2, h3]
    · simp [h1, h2]
  · simp [h1]

theorem decodeSort_ok (req : Req) (raw : Bytes) (c : SortCursor) :
    decodeSort req raw = .ok c ↔ parseSort raw = .ok c ∧ checkSort req c = .ok c := by
  unfold decodeSort
  cases hp : parseSort raw with
  | ok c0 =>
    simp only [Dec.ok.injEq]
    constructor
    · intro h
      have := (checkSort_ok req c0 c).mp h
      obtain ⟨e, _⟩ := this
      subst e
      exact ⟨rfl, h⟩
    · intro h; obtain ⟨e, h2⟩ := h; subst e; exact h2
  | error e => simp
  | unmodelled => simp

/-- the successful outcomes of `decode_cursor`, spelled out -/
theorem decodeCursor_ok (req : Req) (raw : Bytes) (st : CursorState) :
    decodeCursor req raw = .ok st ↔
      (req.scoreFast = true ∧ ∃ c, parseScore raw = .ok c ∧ c.generation = req.generation ∧
        st = { values := [.score c.scoreBits], segmentOrd := c.segmentOrd, docId := c.docId,
               returned := c.returned, generation := c.generation, planHash := none }) ∨
      (req.scoreFast = false ∧ ∃ c, parseSort raw = .ok c ∧ checkSort req c = .ok c ∧
        st = { values := c.values, segmentOrd := c.segmentOrd, docId := c.docId,
               returned := c.returned, generation := c.generation, planHash := some c.planHash }) := by
  unfold decodeCursor
  cases hf : req.scoreFast with
  | true =>
    simp only [↓reduceIte]
    constructor
    · intro h
      refine Or.inl ⟨trivial, ?_⟩
      cases hd : decodeScore req raw with
      | ok c =>
        simp only [hd, Dec.ok.injEq] at h
        have := (decodeScore_ok req raw c).mp hd
        exact ⟨c, this.1, this.2, h.symm⟩
      | error e => simp only [hd] at h; cases h
      | unmodelled => simp only [hd] at h; cases h
    · intro h
      rcases h with ⟨_, c, hp, hg, hst⟩ | ⟨hx, _⟩
      · have := (decodeScore_ok req raw c).mpr ⟨hp, hg⟩
        simp only [this, hst]
      · cases hx
  | false =>
    simp only [Bool.false_eq_true, ↓reduceIte]
    constructor
    · intro h
      refine Or.inr ⟨trivial, ?_⟩
      cases hd : decodeSort req raw with
      | ok c =>
        simp only [hd, Dec.ok.injEq] at h
        have := (decodeSort_ok req raw c).mp hd
        exact ⟨c, this.1, this.2, h.symm⟩
      | error e => simp only [hd] at h; cases h
      | unmodelled => simp only [hd] at h; cases h
    · intro h
      rcases h with ⟨hx, _⟩ | ⟨_, c, hp, hg, hst⟩
      · cases hx
      · have := (decodeSort_ok req raw c).mpr ⟨hp, hg⟩
        simp only [this, hst]

/-- **cursor_rejected** — `decode_cursor` succeeds only if the cursor's generation equals the
reader's generation and, for a sort cursor, its plan hash equals the request's plan hash (and the
advance cap and the arity hold).  Contrapositive: a cursor from another generation or another
plan hash is an error (or outside the modelled JSON shapes) — never `ok`. -/
theorem cursor_rejected (req : Req) (raw : Bytes) (st : CursorState)
    (hd : decodeCursor req raw = .ok st) :
    st.generation = req.generation ∧ st.returned ≤ maxCursorAdvance ∧
    (req.scoreFast = true → st.planHash = none ∧ st.values.length = 1) ∧
    (req.scoreFast = false → st.planHash = some req.planHash ∧ st.values.length = req.planLen) := by
  rcases (decodeCursor_ok req raw st).mp hd with ⟨hf, c, hp, hg, hst⟩ | ⟨hf, c, hp, hc, hst⟩
  · subst hst
    have := parseScore_ok raw c hp
    refine ⟨hg, this.2, fun _ => ⟨rfl, rfl⟩, ?_⟩
    intro h0; rw [hf] at h0; cases h0
  · subst hst
    obtain ⟨_, _, hg, hh, hr, hl⟩ := (checkSort_ok req c c).mp hc
    refine ⟨hg, hr, ?_, fun _ => ⟨by rw [hh], hl⟩⟩
    intro h0; rw [hf] at h0; cases h0

/-- the generation a cursor carries does not depend on who decodes it -/
theorem decoded_generation_unique (req req' : Req) (raw : Bytes) (st st' : CursorState)
    (hf : req'.scoreFast = req.scoreFast)
    (hd : decodeCursor req raw = .ok st) (hd' : decodeCursor req' raw = .ok st') :
    st'.generation = st.generation := by
  rcases (decodeCursor_ok req raw st).mp hd with ⟨h1, c, hp, _, hst⟩ | ⟨h1, c, hp, _, hst⟩ <;>
  rcases (decodeCursor_ok req' raw st').mp hd' with ⟨h2, c', hp', _, hst'⟩ | ⟨h2, c', hp', _, hst'⟩
  · rw [hp] at hp'; injection hp' with e; subst e; subst hst; subst hst'; rfl
  · rw [hf, h1] at h2; cases h2
  · rw [hf, h1] at h2; cases h2
  · rw [hp] at hp'; injection hp' with e; subst e; subst hst; subst hst'; rfl

/-! ## C. generations: which index operations invalidate a cursor -/

theorem manifestGen_markDeleted (dels : List (Nat × Nat)) (i : Nat) (idx : Index) :
    manifestGen (markDeleted dels i idx) = manifestGen idx := by
  induction idx generalizing i with
  | nil => rfl
  | cons s r ih => simp [markDeleted, manifestGen, ih]

theorem manifestGen_append_one (idx : Index) (s : Seg) :
    manifestGen (idx ++ [s]) = max (manifestGen idx) s.generation := by
  induction idx with
  | nil => simp [manifestGen]
  | cons t r ih => simp [manifestGen, ih, Nat.max_assoc]

/-- a commit that writes a segment moves the generation -/
theorem gen_commit_adds (idx : Index) (dels : List (Nat × Nat)) (adds : Nat) (ha : adds ≠ 0) :
    manifestGen (commit idx dels adds) = manifestGen idx + 1 := by
  unfold commit
  simp only [ha, if_false]
  rw [manifestGen_append_one, manifestGen_markDeleted]
  show max (manifestGen idx) (manifestGen idx + 1) = manifestGen idx + 1
  omega

/-- a delete-only commit keeps the generation — the mechanism behind the known finding -/
theorem gen_commit_delete_only (idx : Index) (dels : List (Nat × Nat)) :
    manifestGen (commit idx dels 0) = manifestGen idx := by
  unfold commit
  simp [manifestGen_markDeleted]

/-- compaction of at least two segments moves the generation -/
theorem gen_compact (idx : Index) (h2 : 2 ≤ idx.length) :
    manifestGen (compact idx) = manifestGen idx + 1 := by
  unfold compact
  have : ¬ idx.length ≤ 1 := by omega
  simp [this, manifestGen]

/-! ### the manifest revision (fc973e1): every effective commit and compaction invalidates -/

theorem bump_lt (r : Nat) : bump r < u32Mod := Nat.mod_lt _ (by decide)

theorem apply_revision (st : IndexState) (op : IdxOp) :
    (op.apply st).revision = if op.effective st then bump st.revision else st.revision := by
  unfold IdxOp.apply
  cases h : op.effective st
  · simp
  · cases op <;> simp

/-- an operation that is not effective (commit without pending operations, compaction of ≤ 1
segment) leaves the index — contents and revision — untouched -/
theorem apply_ineffective (st : IndexState) (op : IdxOp) (h : op.effective st = false) : op.apply st = st := by
  unfold IdxOp.apply; simp [h]

/-- the revision after a history = revision before + number of effective operations (mod 2³²) -/
theorem revision_runOps : ∀ (ops : List IdxOp) (st : IndexState), st.revision < u32Mod →
    (runOps st ops).revision = (st.revision + effCount st ops) % u32Mod := by
  intro ops
  induction ops with
  | nil => intro st h; simp [runOps, effCount, Nat.mod_eq_of_lt h]
  | cons op r ih =>
    intro st h
    simp only [runOps, effCount]
    have hrev := apply_revision st op
    cases he : op.effective st
    · simp only [he, Bool.false_eq_true, if_false] at hrev ⊢
      rw [ih _ (by rw [hrev]; exact h), hrev]; simp
    · simp only [he, if_true] at hrev ⊢
      rw [ih _ (by rw [hrev]; exact bump_lt _), hrev]
      unfold bump
      rw [Nat.add_mod, Nat.mod_mod, ← Nat.add_mod]
      congr 1
      omega

/-- a history without effective operations changes nothing -/
theorem runOps_unchanged : ∀ (ops : List IdxOp) (st : IndexState), effCount st ops = 0 → runOps st ops = st := by
  intro ops
  induction ops with
  | nil => intro st _; rfl
  | cons op r ih =>
    intro st h
    simp only [effCount] at h
    cases he : op.effective st
    · simp only [he, Bool.false_eq_true, if_false, Nat.zero_add] at h
      simp only [runOps, apply_ineffective st op he] at h ⊢
      exact ih st h
    · simp [he] at h

/-- **stale_rejected** (full strength) — for EVERY history of commits (adds, updates,
delete-only — anything with pending operations) and compactions between the request that issued a
cursor and the request that presents it: if the history contains at least one effective operation
(and fewer than 2³² of them — the `u32` revision wraps), the cursor is not accepted by a reader of
the resulting index, whatever the sort plan.  (A history without effective operations leaves the
index unchanged: `runOps_unchanged`.) -/
theorem stale_rejected (st : IndexState) (ops : List IdxOp) (hr : st.revision < u32Mod)
    (hk : 0 < effCount st ops) (hk2 : effCount st ops < u32Mod)
    (req : Req) (raw : Bytes) (stc : CursorState) (h0 : req.generation = readerGen st)
    (hd : decodeCursor req raw = .ok stc) (stc' : CursorState) :
    decodeCursor { req with generation := readerGen (runOps st ops) } raw ≠ .ok stc' := by
  intro hd'
  have h1 := (cursor_rejected req raw stc hd).1
  have h2 := (cursor_rejected _ raw stc' hd').1
  have h3 := decoded_generation_unique req
    { req with generation := readerGen (runOps st ops) } raw stc stc' rfl hd hd'
  simp only [readerGen] at h0 h2
  rw [revision_runOps ops st hr] at h2
  have hne : (st.revision + effCount st ops) % u32Mod ≠ st.revision := by
    intro he
    unfold u32Mod at *
    omega
  apply hne
  rw [← h2, h3, h1, h0]

/-- contents can only change through an effective operation, so `stale_rejected` covers every
changed index (fewer than 2³² steps away) -/
theorem changed_index_rejects (st : IndexState) (ops : List IdxOp) (hchg : runOps st ops ≠ st) :
    0 < effCount st ops := by
  rcases Nat.eq_zero_or_pos (effCount st ops) with h | h
  · exact absurd (runOps_unchanged ops st h) hchg
  · exact h

/-- a cursor of one sort plan presented to a request whose plan has another hash is rejected
(sort cursors; a score cursor presented to a sort request or vice versa fails to parse, see the
examples below) -/
theorem other_plan_rejected (req : Req) (raw : Bytes) (st : CursorState) (hf : req.scoreFast = false)
    (hd : decodeCursor req raw = .ok st) (h' : Nat) (hne : h' ≠ req.planHash) (st' : CursorState) :
    decodeCursor { req with planHash := h' } raw ≠ .ok st' := by
  intro hd'
  have h1 := ((cursor_rejected req raw st hd).2.2.2 hf).1
  have h2 := ((cursor_rejected _ raw st' hd').2.2.2 hf).1
  rcases (decodeCursor_ok req raw st).mp hd with ⟨hx, _⟩ | ⟨_, c, hp, _, hst⟩
  · rw [hf] at hx; cases hx
  · rcases (decodeCursor_ok _ raw st').mp hd' with ⟨hx, _⟩ | ⟨_, c', hp', _, hst'⟩
    · simp only [hf] at hx; cases hx
    · rw [hp] at hp'; injection hp' with e; subst e
      subst hst; subst hst'
      simp only [Option.some.injEq] at h1 h2
      exact hne (h2.symm.trans h1)

/-! ## E. the cursor codecs: `decode (encode c) = ok c` -/

theorem hexVal_hexChar : ∀ n, n < 16 → hexVal (hexChar n) = some n ∧ (hexChar n).toNat ≠ 43 := by decide

theorem toUInt8_toNat (n : Nat) (h : n < 256) : n.toUInt8.toNat = n := by
  simp [Nat.toUInt8, UInt8.toNat_ofNat']; omega

theorem hexByte_enc (b : UInt8) : hexByte (hexChar (b.toNat / 16)) (hexChar (b.toNat % 16)) = some b := by
  have hb : b.toNat < 256 := UInt8.toNat_lt b
  have h1 := hexVal_hexChar (b.toNat / 16) (by omega)
  have h2 := hexVal_hexChar (b.toNat % 16) (by omega)
  unfold hexByte
  simp only [h1.2, if_false, h1.1, h2.1]
  have : b.toNat / 16 * 16 + b.toNat % 16 = b.toNat := by omega
  rw [this]
  simp [Nat.toUInt8, UInt8.ofNat_toNat]

theorem hexDecode_hexEncode (bs : Bytes) : hexDecode (hexEncode bs) = some bs := by
  induction bs with
  | nil => rfl
  | cons b r ih => simp [hexEncode, hexDecode, hexByte_enc, ih]

theorem hexEncode_length (bs : Bytes) : (hexEncode bs).length = 2 * bs.length := by
  induction bs with
  | nil => rfl
  | cons b r ih => simp [hexEncode, ih]; omega

theorem ofBe32_be32 (n : Nat) (h : n < 4294967296) :
    ofBe32 (n / 16777216 % 256).toUInt8 (n / 65536 % 256).toUInt8 (n / 256 % 256).toUInt8 (n % 256).toUInt8 = n := by
  unfold ofBe32
  rw [toUInt8_toNat _ (Nat.mod_lt _ (by decide)), toUInt8_toNat _ (Nat.mod_lt _ (by decide)),
    toUInt8_toNat _ (Nat.mod_lt _ (by decide)), toUInt8_toNat _ (Nat.mod_lt _ (by decide))]
  omega

/-- **cursor_roundtrip (score cursor)** — `PaginationCursor::decode(encode(c)) = Ok(c)` for every
cursor the code can produce (fields are `u32`, version 1, `returned` within the advance cap) -/
theorem cursor_roundtrip_score (c : ScoreCursor) (hw : c.wf) (hv : c.version = cursorVersion)
    (hr : c.returned ≤ maxCursorAdvance) : parseScore (encodeScore c) = .ok c := by
  obtain ⟨h0, h1, h2, h3, h4, h5⟩ := hw
  unfold parseScore encodeScore
  have hl : (hexEncode (scoreBytes c)).length = 42 := by
    rw [hexEncode_length]; simp [scoreBytes, be32]
  simp only [hl, ne_eq, not_true_eq_false, if_false, hexDecode_hexEncode]
  simp only [scoreBytes, be32, List.cons_append, List.nil_append]
  simp only [ofBe32_be32 _ h1, ofBe32_be32 _ h2, ofBe32_be32 _ h3, ofBe32_be32 _ h4, ofBe32_be32 _ h5]
  have : ¬ c.returned > maxCursorAdvance := by omega
  rw [toUInt8_toNat _ h0]
  simp only [hv, this, if_false, not_true_eq_false]
  cases c
  simp only at hv
  subst hv
  rfl


/-- the same through `decode_cursor` of a default-sort request of the same generation -/
theorem decodeCursor_encodeScore (req : Req) (c : ScoreCursor) (hw : c.wf) (hv : c.version = cursorVersion)
    (hr : c.returned ≤ maxCursorAdvance) (hf : req.scoreFast = true) (hg : c.generation = req.generation) :
    decodeCursor req (encodeScore c) =
      .ok ⟨[.score c.scoreBits], c.segmentOrd, c.docId, c.returned, c.generation, none⟩ := by
  apply (decodeCursor_ok req _ _).mpr
  exact Or.inl ⟨hf, c, cursor_roundtrip_score c hw hv hr, hg, rfl⟩

/-- **cursor_roundtrip (sort cursor)** — `hex_decode` + `serde_json::from_slice` applied to
`hex_encode(serde_json::to_vec(state))` give the state back, for every state the code can produce:
integer fields within their Rust types, keyword values valid UTF-8 (any bytes otherwise: quotes,
backslashes and control characters go through the escapes), `i64` within range, score bits `u32`,
`f64` values as their 64-bit pattern (0331be9; exact, no float printing or parsing involved). -/
theorem cursor_roundtrip_sort (c : SortCursor) (hw : c.wf) : parseSort (encodeSort c) = .ok c := by
  unfold parseSort encodeSort
  have hl : (hexEncode (sortJson c)).length % 2 = 0 := by rw [hexEncode_length]; omega
  simp only [hl, ne_eq, not_true_eq_false, if_false, hexDecode_hexEncode]
  exact parseSortJson_sortJson c hw

/-- the same through `decode_cursor` of a request with the cursor's generation, plan hash, arity -/
theorem decodeCursor_encodeSort (req : Req) (c : SortCursor) (hw : c.wf) (hf : req.scoreFast = false)
    (hv : c.version = sortCursorVersion) (hg : c.generation = req.generation)
    (hh : c.planHash = req.planHash) (hr : c.returned ≤ maxCursorAdvance)
    (hl : c.values.length = req.planLen) :
    decodeCursor req (encodeSort c) =
      .ok ⟨c.values, c.segmentOrd, c.docId, c.returned, c.generation, some c.planHash⟩ := by
  apply (decodeCursor_ok req _ _).mpr
  refine Or.inr ⟨hf, c, cursor_roundtrip_sort c hw, ?_, rfl⟩
  exact (checkSort_ok req c c).mpr ⟨rfl, hv, hg, hh, hr, hl⟩

-- non-vacuity of `cursor_roundtrip_sort` (every kind of value, a quote, a tab, a multi-byte
-- character and a negative number), decided on the bytes
set_option maxRecDepth 1000000 in
example : parseSort (encodeSort ⟨3, 3, 4, 885219400, 1, 2,
    [.score 1065353216, .i64 (-5), .f64 13859418557033966177, .str [113, 34, 9, 195, 169], .missing]⟩)
    = .ok ⟨3, 3, 4, 885219400, 1, 2,
    [.score 1065353216, .i64 (-5), .f64 13859418557033966177, .str [113, 34, 9, 195, 169], .missing]⟩ := by
  decide

/-! ## F. `decode_cursor` is total -/

/-- **decode_total** — on every byte string (any length, any bytes, any request) the decoder
terminates with `ok`, an error of the code, or `unmodelled`; the fuel of the two JSON loops
(members, values), started at "remaining bytes + 1", is never exhausted.  All other readers are
structurally recursive over the bytes. -/
theorem decode_total (req : Req) (raw : Bytes) : decodeCursor req raw ≠ .error .fuel := by
  have hsortj := parseSortJson_nofuel
  have hparse : parseSort raw ≠ .error .fuel := by
    unfold parseSort
    repeat' split
    all_goals first
      | (intro h; cases h; done)
      | exact hsortj _
  have hscore : parseScore raw ≠ .error .fuel := by
    unfold parseScore
    repeat' split
    all_goals (intro h; cases h)
  have hds : decodeScore req raw ≠ .error .fuel := by
    unfold decodeScore
    cases hp : parseScore raw with
    | ok c => simp only; split <;> (intro h; cases h)
    | error e => simp only; intro h; injection h with h; subst h; exact hscore hp
    | unmodelled => simp only; intro h; cases h
  have hdo : decodeSort req raw ≠ .error .fuel := by
    unfold decodeSort
    cases hp : parseSort raw with
    | ok c =>
      simp only
      unfold checkSort
      repeat' split
      all_goals (intro h; cases h)
    | error e => simp only; intro h; injection h with h; subst h; exact hparse hp
    | unmodelled => simp only; intro h; cases h
  unfold decodeCursor
  split
  · cases hd : decodeScore req raw with
    | ok c => simp only; intro h; cases h
    | error e => simp only; intro h; injection h with h; subst h; exact hds hd
    | unmodelled => simp only; intro h; cases h
  · cases hd : decodeSort req raw with
    | ok c => simp only; intro h; cases h
    | error e => simp only; intro h; injection h with h; subst h; exact hdo hd
    | unmodelled => simp only; intro h; cases h

/-- the three outcomes are exhaustive and exclusive by construction of `Dec`; in particular every
input has exactly one outcome class -/
theorem decode_outcome (req : Req) (raw : Bytes) :
    (∃ st, decodeCursor req raw = .ok st) ∨ (∃ e, e ≠ DecErr.fuel ∧ decodeCursor req raw = .error e) ∨
    decodeCursor req raw = .unmodelled := by
  cases h : decodeCursor req raw with
  | ok st => exact Or.inl ⟨st, rfl⟩
  | error e =>
    refine Or.inr (Or.inl ⟨e, ?_, rfl⟩)
    intro he; subst he; exact decode_total req raw h
  | unmodelled => exact Or.inr (Or.inr rfl)

/-! ## G. the driver's comparator (`SortKey::cmp` over rank-abstracted values) is a strict total
order on the keys of one plan -/

theorem cmpPart_refl (d : Bool) (a : Option Int) : cmpPart d a a = .eq := by
  cases a <;> simp [cmpPart]

theorem cmpPart_swap (d : Bool) (a b : Option Int) : cmpPart d b a = (cmpPart d a b).swap := by
  cases a <;> cases b <;> cases d <;> simp only [cmpPart, Ordering.swap] <;>
    (rename_i x y; by_cases h1 : x < y <;> by_cases h2 : y < x <;> simp [h1, h2] <;> omega)

theorem cmpPart_eq (d : Bool) (a b : Option Int) (h : cmpPart d a b = .eq) : a = b := by
  cases a <;> cases b <;> simp only [cmpPart] at h <;> try cases h
  · rfl
  · rename_i x y
    by_cases h1 : x < y <;> by_cases h2 : y < x <;> cases d <;> simp [h1, h2] at h <;>
      (congr 1; omega)

theorem cmpPart_trans (d : Bool) (a b c : Option Int) (h1 : cmpPart d a b = .lt) (h2 : cmpPart d b c = .lt) :
    cmpPart d a c = .lt := by
  cases a <;> cases b <;> cases c <;> simp only [cmpPart] at h1 h2 ⊢ <;> try cases h1 <;> try cases h2
  all_goals try rfl
  rename_i x y z
  cases d <;> (by_cases p1 : x < y <;> by_cases p2 : y < x <;> by_cases p3 : y < z <;> by_cases p4 : z < y <;>
    simp [p1, p2, p3, p4] at h1 h2 <;> (by_cases q1 : x < z <;> by_cases q2 : z < x <;> simp [q1, q2] <;> omega))


theorem cmpParts_refl (ds : List Bool) (a : List (Option Int)) : cmpParts ds a a = .eq := by
  induction ds generalizing a with
  | nil => simp [cmpParts]
  | cons d ds ih =>
    cases a with
    | nil => simp [cmpParts]
    | cons x xs => simp [cmpParts, cmpPart_refl, ih]

theorem cmpParts_swap (ds : List Bool) (a b : List (Option Int)) :
    cmpParts ds b a = (cmpParts ds a b).swap := by
  induction ds generalizing a b with
  | nil => simp [cmpParts, Ordering.swap]
  | cons d ds ih =>
    cases a with
    | nil => cases b <;> simp [cmpParts, Ordering.swap]
    | cons x xs =>
      cases b with
      | nil => simp [cmpParts, Ordering.swap]
      | cons y ys =>
        simp only [cmpParts]
        rw [cmpPart_swap d x y]
        cases h : cmpPart d x y with
        | eq => simp only [Ordering.swap]; exact ih xs ys
        | lt => simp [Ordering.swap]
        | gt => simp [Ordering.swap]

theorem cmpParts_eq (ds : List Bool) (a b : List (Option Int)) (ha : a.length = ds.length)
    (hb : b.length = ds.length) (h : cmpParts ds a b = .eq) : a = b := by
  induction ds generalizing a b with
  | nil =>
    have : a = [] := List.length_eq_zero_iff.mp ha
    have : b = [] := List.length_eq_zero_iff.mp hb
    simp [*]
  | cons d ds ih =>
    cases a with
    | nil => simp at ha
    | cons x xs =>
      cases b with
      | nil => simp at hb
      | cons y ys =>
        simp only [cmpParts] at h
        cases hxy : cmpPart d x y with
        | eq =>
          simp only [hxy] at h
          have e1 := cmpPart_eq d x y hxy
          have e2 := ih xs ys (by simpa using ha) (by simpa using hb) h
          rw [e1, e2]
        | lt => simp [hxy] at h
        | gt => simp [hxy] at h

theorem cmpParts_trans (ds : List Bool) (a b c : List (Option Int)) (ha : a.length = ds.length)
    (hb : b.length = ds.length) (hc : c.length = ds.length)
    (h1 : cmpParts ds a b = .lt) (h2 : cmpParts ds b c = .lt) : cmpParts ds a c = .lt := by
  induction ds generalizing a b c with
  | nil => simp [cmpParts] at h1
  | cons d ds ih =>
    cases a with
    | nil => simp at ha
    | cons x xs =>
    cases b with
    | nil => simp at hb
    | cons y ys =>
    cases c with
    | nil => simp at hc
    | cons z zs =>
      simp only [cmpParts] at h1 h2 ⊢
      cases hxy : cmpPart d x y with
      | gt => simp [hxy] at h1
      | lt =>
        cases hyz : cmpPart d y z with
        | gt => simp [hyz] at h2
        | lt => simp [cmpPart_trans d x y z hxy hyz]
        | eq =>
          have := cmpPart_eq d y z hyz; subst this
          simp [hxy]
      | eq =>
        have := cmpPart_eq d x y hxy; subst this
        simp only [hxy] at h1
        cases hyz : cmpPart d x z with
        | gt => simp [hyz] at h2
        | lt => simp
        | eq =>
          simp only [hyz] at h2 ⊢
          exact ih xs ys zs (by simpa using ha) (by simpa using hb) (by simpa using hc) h1 h2

theorem cmpNat_refl (a : Nat) : cmpNat a a = .eq := by simp [cmpNat]
theorem cmpNat_eq (a b : Nat) (h : cmpNat a b = .eq) : a = b := by
  unfold cmpNat at h
  by_cases h1 : a < b <;> by_cases h2 : b < a <;> simp [h1, h2] at h
  omega
theorem cmpNat_lt (a b : Nat) : cmpNat a b = .lt ↔ a < b := by
  unfold cmpNat
  by_cases h1 : a < b <;> by_cases h2 : b < a <;> simp [h1, h2]
theorem cmpNat_gt (a b : Nat) : cmpNat a b = .gt ↔ b < a := by
  unfold cmpNat
  by_cases h1 : a < b <;> by_cases h2 : b < a <;> simp [h1, h2]
  omega

/-- keys of one plan: as many parts as the plan has fields -/
def KeyN (n : Nat) := { k : DKey // k.parts.length = n }

def ltKeyN (dirs : List Bool) (a b : KeyN dirs.length) : Bool := ltKey dirs a.val b.val

/-- **the comparator of the driver is a strict total order** on the keys of one plan (the
generic `walk_complete_partial` therefore applies to it) -/
theorem ltKeyN_strictTotal (dirs : List Bool) : StrictTotal (ltKeyN dirs) where
  irrefl := by
    intro a
    simp [ltKeyN, ltKey, cmpKey, cmpParts_refl, cmpNat_refl]
  trans := by
    intro a b c hab hbc
    obtain ⟨a, ha⟩ := a; obtain ⟨b, hb⟩ := b; obtain ⟨c, hc⟩ := c
    simp only [ltKeyN, ltKey, cmpKey] at hab hbc ⊢
    cases h1 : cmpParts dirs a.parts b.parts with
    | gt => simp [h1] at hab
    | lt =>
      cases h2 : cmpParts dirs b.parts c.parts with
      | gt => simp [h2] at hbc
      | lt => simp [cmpParts_trans dirs _ _ _ ha hb hc h1 h2]
      | eq =>
        have := cmpParts_eq dirs _ _ hb hc h2
        rw [← this, h1]
    | eq =>
      have e1 := cmpParts_eq dirs _ _ ha hb h1
      simp only [h1] at hab
      cases h2 : cmpParts dirs b.parts c.parts with
      | gt => simp [h2] at hbc
      | lt => rw [e1, h2]
      | eq =>
        have e2 := cmpParts_eq dirs _ _ hb hc h2
        simp only [h2] at hbc
        rw [e1, h2]
        simp only
        -- segment, then document
        cases s1 : cmpNat a.seg b.seg with
        | gt => simp [s1] at hab
        | lt =>
          have l1 := (cmpNat_lt _ _).mp s1
          cases s2 : cmpNat b.seg c.seg with
          | gt => simp [s2] at hbc
          | lt =>
            have l2 := (cmpNat_lt _ _).mp s2
            have : cmpNat a.seg c.seg = .lt := (cmpNat_lt _ _).mpr (by omega)
            simp [this]
          | eq =>
            have := cmpNat_eq _ _ s2
            rw [← this, s1]
        | eq =>
          have q1 := cmpNat_eq _ _ s1
          simp only [s1] at hab
          cases s2 : cmpNat b.seg c.seg with
          | gt => simp [s2] at hbc
          | lt => rw [q1, s2]
          | eq =>
            simp only [s2] at hbc
            rw [q1, s2]
            simp only
            cases d1 : cmpNat a.doc b.doc with
            | gt => simp [d1] at hab
            | eq => simp [d1] at hab
            | lt =>
              cases d2 : cmpNat b.doc c.doc with
              | gt => simp [d2] at hbc
              | eq => simp [d2] at hbc
              | lt =>
                have l1 := (cmpNat_lt _ _).mp d1
                have l2 := (cmpNat_lt _ _).mp d2
                have : cmpNat a.doc c.doc = .lt := (cmpNat_lt _ _).mpr (by omega)
                simp [this]
  total := by
    intro a b hne
    obtain ⟨a, ha⟩ := a; obtain ⟨b, hb⟩ := b
    have hne' : a ≠ b := by
      intro h; apply hne; subst h; rfl
    simp only [ltKeyN, ltKey, cmpKey]
    rw [cmpParts_swap dirs a.parts b.parts]
    cases h1 : cmpParts dirs a.parts b.parts with
    | lt => simp
    | gt => simp [Ordering.swap]
    | eq =>
      have e1 := cmpParts_eq dirs _ _ ha hb h1
      simp only [Ordering.swap]
      cases s1 : cmpNat a.seg b.seg with
      | lt => simp
      | gt =>
        have := (cmpNat_gt _ _).mp s1
        have : cmpNat b.seg a.seg = .lt := (cmpNat_lt _ _).mpr this
        simp [this]
      | eq =>
        have q1 := cmpNat_eq _ _ s1
        have : cmpNat b.seg a.seg = .eq := by rw [q1]; exact cmpNat_refl _
        simp only [this]
        cases d1 : cmpNat a.doc b.doc with
        | lt => simp
        | gt =>
          have := (cmpNat_gt _ _).mp d1
          have : cmpNat b.doc a.doc = .lt := (cmpNat_lt _ _).mpr this
          simp [this]
        | eq =>
          have q2 := cmpNat_eq _ _ d1
          exfalso; apply hne'
          cases a; cases b
          simp only at e1 q1 q2
          subst e1; subst q1; subst q2; rfl


/-- `walk_complete_partial` instantiated with the comparator the driver runs -/
theorem walk_complete_driver_partial (dirs : List Bool) (matched : List (KeyN dirs.length))
    (hnd : matched.Nodup) (limit : Nat) (hl : 0 < limit)
    (hn : matched.length ≤ Limits.real.maxAdvance + 1) :
    ∃ pages, walkPages (ltKeyN dirs) Limits.real id matched limit (matched.length + 1) none = some pages ∧
      (pages.map (·.hits)).flatten = sortKeys (ltKeyN dirs) matched ∧
      (∀ r ∈ pages, r.total = matched.length) ∧
      WalkShape pages (min limit Limits.real.maxCandidates) :=
  walk_complete_partial (ltKeyN_strictTotal dirs) Limits.real (by decide) (by decide) matched hnd
    limit hl hn

/-! ## D. negative witnesses (decided by the kernel on concrete small inputs) and non-vacuity -/

section Witness

def ltNat (a b : Nat) : Bool := decide (a < b)

theorem ltNat_strictTotal : StrictTotal ltNat where
  irrefl := by intro a; simp [ltNat]
  trans := by intro a b c; simp only [ltNat, decide_eq_true_eq]; omega
  total := by intro a b hne; simp only [ltNat, decide_eq_true_eq]; omega

def hitsOf {κ : Type} : Option (List (Resp κ)) → Option (List (List κ))
  | none => none
  | some ps => some (ps.map (·.hits))

/-- non-vacuity of `walk_complete_partial`: ties of the primary value are resolved by the key
order, three pages of size 2 -/
example : hitsOf (walkPages ltNat Limits.real id [5, 3, 9, 1, 7] 2 6 none) = some [[1, 3], [5, 7], [9]] := by
  decide

/-- the repaired finding "large limit" (before 7ad6649): with `MAX_CANDIDATE_SIZE = 2` a request
with limit 3 over four matches returned three hits and **no** cursor (real constants: 20000 /
20001 hits) -/
theorem legacy_large_limit_truncates :
    (pageLegacy ltNat { maxAdvance := 10, maxCandidates := 2 } [3, 1, 4, 2] none 3).toOption
      = some { hits := [1, 2, 3], next := none, total := 4 } := by
  decide

/-- …and after the repair: a page of the cap's size with a cursor, and the walk completes -/
example : (page ltNat { maxAdvance := 10, maxCandidates := 2 } [3, 1, 4, 2] none 3).toOption
      = some { hits := [1, 2], next := some { key := 2, returned := 2 }, total := 4 } := by
  decide

example : hitsOf (walkPages ltNat { maxAdvance := 10, maxCandidates := 2 } id [3, 1, 4, 2] 3 5 none)
    = some [[1, 2], [3, 4]] := by decide

/-- the repaired finding "f64 sort value" (before 0331be9): if the key of the last hit of a page
does not come back unchanged from the cursor (here 2 ↦ 20), the next request fails (`saw_cursor`
stays false) -/
theorem legacy_walk_breaks_when_key_not_roundtripped :
    walkPages ltNat Limits.real (fun k => if k = 2 then 20 else k) [1, 2, 3] 1 4 none = none := by
  decide

/-- the documented depth bound: with `MAX_CURSOR_ADVANCE = 2` the walk over four matches ends in
an error on the fourth request (the real constant is 50000) -/
theorem deep_walk_aborts :
    walkPages ltNat { maxAdvance := 2, maxCandidates := 10 } id [1, 2, 3, 4] 1 5 none = none := by
  decide

/-- `total_hits_estimate` with pruning: two of the three remaining matches were never evaluated -/
example : (page ltNat Limits.real [1, 2, 3, 4] (some { key := 1, returned := 1 }) 1 2).toOption.map (·.total)
    = some 2 := by decide

def Dec.isOk {α : Type} : Dec α → Bool
  | .ok _ => true
  | _ => false

/-- two segments (generations 1 and 2), revision 2 -/
def wIdx : Index := [{ generation := 1, docs := 2, deleted := [] }, { generation := 2, docs := 1, deleted := [] }]
def wSt : IndexState := { segs := wIdx, revision := 2 }

/-- the cursor after the first hit (segment 0, doc 0, score 1.0) of a default-sort request -/
def wCur : ScoreCursor :=
  { version := 1, generation := 2, scoreBits := 1065353216, segmentOrd := 0, docId := 0, returned := 1 }

/-- a delete-only commit: document 0 of segment 1 is tombstoned (one pending operation) -/
def wDel : IdxOp := .commit [(1, 0)] 0 1

/-- **legacy witness** (before fc973e1 the reader compared cursors with the maximal segment
generation) — the delete-only commit changes the contents but not that generation, and the old
cursor still decodes -/
theorem legacy_stale_accepted_after_delete_only :
    liveCount (wDel.apply wSt).segs ≠ liveCount wSt.segs ∧
    readerGenLegacy (wDel.apply wSt) = readerGenLegacy wSt ∧
    (decodeCursor { generation := readerGenLegacy (wDel.apply wSt), planHash := 0, planLen := 1,
                    scoreFast := true } (encodeScore wCur)).isOk = true := by
  decide

/-- …with the revision the same delete-only commit invalidates the cursor (non-vacuity of
`stale_rejected`), and so does a compaction -/
example : (decodeCursor ⟨readerGen wSt, 0, 1, true⟩ (encodeScore wCur)).isOk = true ∧
    (decodeCursor ⟨readerGen (wDel.apply wSt), 0, 1, true⟩ (encodeScore wCur)) = .error .generation ∧
    (decodeCursor ⟨readerGen (runOps wSt [.compact]), 0, 1, true⟩ (encodeScore wCur)) = .error .generation ∧
    effCount wSt [.commit [] 0 0, wDel, .compact, .compact] = 2 := by
  decide

/-- a score cursor presented to a request with a sort plan is not even hex(JSON) -/
example : (decodeCursor { generation := 2, planHash := 7, planLen := 1, scoreFast := false }
    (encodeScore wCur)) = .error .json := by
  decide

end Witness

end SL.Cursor
