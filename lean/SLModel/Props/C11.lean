import SLModel.Core.Cursor
import SLModel.Lemmas.KeysetGen
/-!
# C11 — cursor pagination is complete, duplicate-free and safe

Model: `SLModel/Core/Cursor.lean` (mechanism model of `decode_cursor`/`encode_cursor`, the cursor
test, `limit+1` look-ahead, `returned`, `total_hits_estimate`, segment generations).
Generic keyset lemma: `SLModel/Lemmas/KeysetGen.lean` (`SL.KeysetGen.walk_complete`).
Tie to the code: `Drv/C11` runs these definitions; `harness/src/props/c11.rs` compares them with
`IndexReader::search` page by page, cursor by cursor.
-/
namespace SL.Cursor
open SL.ISort SL.KeysetGen

/-! ## A. pages and walks (any key type, any strict total order) -/

section Walk
variable {κ : Type} {lt : κ → κ → Bool}

theorem insKey_eq (x : κ) (l : List κ) : insKey lt x l = ins lt x l := by
  induction l with
  | nil => rfl
  | cons y ys ih => simp [insKey, ins, ih]

/-- the model's sort is the insertion sort the lemmas are about -/
theorem sortKeys_eq (l : List κ) : sortKeys lt l = isort lt l := by
  induction l with
  | nil => rfl
  | cons x xs ih => simp [sortKeys, isort, insKey_eq, ih]

/-- the cursor points at the last element of `pre`, and `returned` counts `pre` -/
def CurAt (cur : Option (Cur κ)) (pre : List κ) : Prop :=
  match cur with
  | none => pre = []
  | some c => pre.getLast? = some c.key ∧ c.returned = pre.length

/-- what a response looks like when the sorted matches split into `pre` (already returned) and
`suf` (still to come) -/
def RespAt (r : Resp κ) (pre suf : List κ) (limit n : Nat) : Prop :=
  r.total = n ∧
  ((suf.length ≤ limit ∧ r.hits = suf ∧ r.next = none) ∨
   (limit < suf.length ∧ r.hits = suf.take limit ∧
      ∃ k, (suf.take limit).getLast? = some k ∧ r.next = some { key := k, returned := pre.length + limit }))

/-- One request at a consistent cursor returns the next `limit` sorted matches, an exact total,
and a next cursor iff more remain (mechanism: filter raw matches, sort, take `limit+1`). -/
theorem page_at (h : StrictTotal lt) (matched : List κ) (hnd : matched.Nodup) (limit : Nat)
    (hl : 0 < limit) (hn : matched.length ≤ maxCursorAdvance + 1)
    (pre suf : List κ) (hsplit : sortKeys lt matched = pre ++ suf)
    (cur : Option (Cur κ)) (hcur : CurAt cur pre) (hpre : suf ≠ [] ∨ cur = none) :
    ∃ r, page lt matched cur limit = .ok r ∧ RespAt r pre suf limit matched.length := by
  have hperm : (sortKeys lt matched).Perm matched := by
    rw [sortKeys_eq]; exact isort_perm_self matched
  have hlen : pre.length + suf.length = matched.length := by
    have := hperm.length_eq
    rw [hsplit, List.length_append] at this
    exact this
  have hasc : Asc lt (pre ++ suf) := by
    rw [← hsplit, sortKeys_eq]; exact isort_asc h matched hnd
  -- `returned`, the cursor test and the candidates, by cases on the cursor
  have key : curReturned cur = pre.length ∧
      sawCursor lt matched cur = true ∧ sortKeys lt (afterCursor lt matched cur) = suf := by
    cases cur with
    | none =>
      have hp : pre = [] := hcur
      subst hp
      refine ⟨rfl, rfl, ?_⟩
      simpa [afterCursor] using hsplit
    | some c =>
      obtain ⟨hlast, hret⟩ := hcur
      obtain ⟨ini, hini⟩ := List.getLast?_eq_some_iff.mp hlast
      have hmem : c.key ∈ matched := by
        apply hperm.mem_iff.mp
        rw [hsplit, hini]; simp
      refine ⟨hret, ?_, ?_⟩
      · simp only [sawCursor, List.any_eq_true]
        exact ⟨c.key, hmem, by simp [keyEq, h.irrefl]⟩
      · simp only [afterCursor]
        rw [sortKeys_eq, isort_filter h, ← sortKeys_eq, hsplit, hini, List.append_assoc]
        apply filter_gt_sorted h
        have := hasc
        rw [hini, List.append_assoc] at this
        exact this
  obtain ⟨hret, hsaw, hcand⟩ := key
  have hcandlen : (afterCursor lt matched cur).length = suf.length := by
    have : (sortKeys lt (afterCursor lt matched cur)).Perm (afterCursor lt matched cur) := by
      rw [sortKeys_eq]; exact isort_perm_self _
    rw [← this.length_eq, hcand]
  have hcap : pre.length ≤ maxCursorAdvance := by
    rcases hpre with hs | hc
    · have : 0 < suf.length := List.length_pos_iff.mpr hs
      omega
    · subst hc
      have hp : pre = [] := hcur
      simp [hp]
  have hng : ¬ pre.length > maxCursorAdvance := by omega
  unfold page
  simp only [hret, hsaw, hcand, hcandlen, hng, if_false, Bool.not_true, Bool.false_eq_true]
  unfold pageOf
  by_cases hgt : limit < suf.length
  · have htl : (List.take (limit + 1) suf).length > limit := by
      rw [List.length_take]; omega
    have htt : List.take limit (List.take (limit + 1) suf) = suf.take limit := by
      rw [List.take_take]; congr 1; omega
    have hne : suf.take limit ≠ [] := by
      intro h0
      have : (suf.take limit).length = 0 := by simp [h0]
      rw [List.length_take] at this
      omega
    obtain ⟨k, hk⟩ : ∃ k, (suf.take limit).getLast? = some k := by
      cases hq : (suf.take limit).getLast? with
      | none => exact absurd (List.getLast?_eq_none_iff.mp hq) hne
      | some k => exact ⟨k, rfl⟩
    have hmin : min (pre.length + limit) u32Max = pre.length + limit := by
      have : pre.length + limit ≤ u32Max := by
        have : maxCursorAdvance + 1 ≤ u32Max := by decide
        omega
      exact Nat.min_eq_left this
    simp only [htl, if_true, htt, hk, hmin]
    refine ⟨_, rfl, ?_, Or.inr ⟨hgt, rfl, k, hk, rfl⟩⟩
    show suf.length - 0 + pre.length = matched.length
    omega
  · have hall : List.take (limit + 1) suf = suf := List.take_of_length_le (by omega)
    have hgt' : ¬ suf.length > limit := hgt
    simp only [hall, hgt', if_false]
    refine ⟨_, rfl, ?_, Or.inl ⟨by omega, rfl, rfl⟩⟩
    show suf.length - 0 + pre.length = matched.length
    omega

/-- shape of a complete walk: every page but the last is full and carries a cursor, the last
page carries none -/
def WalkShape (pages : List (Resp κ)) (limit : Nat) : Prop :=
  (∀ r ∈ pages.dropLast, r.next.isSome = true ∧ r.hits.length = limit) ∧
  (∃ r, pages.getLast? = some r ∧ r.next = none ∧ r.hits.length ≤ limit)

theorem walk_from (h : StrictTotal lt) (matched : List κ) (hnd : matched.Nodup) (limit : Nat)
    (hl : 0 < limit) (hn : matched.length ≤ maxCursorAdvance + 1) :
    ∀ (fuel : Nat) (cur : Option (Cur κ)) (pre suf : List κ),
      sortKeys lt matched = pre ++ suf → CurAt cur pre → (suf ≠ [] ∨ cur = none) →
      suf.length < fuel * limit + 1 → 0 < fuel →
      ∃ pages, walkPages lt matched limit fuel cur = some pages ∧
        (pages.map (·.hits)).flatten = suf ∧ (∀ r ∈ pages, r.total = matched.length) ∧
        WalkShape pages limit ∧ (suf ≠ [] → ∀ r ∈ pages, r.hits ≠ []) := by
  intro fuel
  induction fuel with
  | zero => intro _ _ _ _ _ _ _ hf; omega
  | succ fuel ih =>
    intro cur pre suf hsplit hcur hpre hlen _
    obtain ⟨r, hpage, htot, hshape⟩ := page_at h matched hnd limit hl hn pre suf hsplit cur hcur hpre
    unfold walkPages
    simp only [hpage]
    rcases hshape with ⟨hle, hhits, hnext⟩ | ⟨hgt, hhits, k, hk, hnext⟩
    · -- last page
      simp only [hnext]
      refine ⟨[r], rfl, by simp [hhits], by simpa using htot, ⟨by simp, r, rfl, hnext, by rw [hhits]; exact hle⟩, ?_⟩
      intro hs r' hr'
      have : r' = r := by simpa using hr'
      subst this; rw [hhits]; exact hs
    · -- a full page and a cursor
      simp only [hnext]
      have hfuel : 0 < fuel := by
        rcases Nat.eq_zero_or_pos fuel with h0 | h0
        · subst h0; simp at hlen; omega
        · exact h0
      have hlen' : (suf.drop limit).length < fuel * limit + 1 := by
        rw [List.length_drop]
        have : (fuel + 1) * limit = fuel * limit + limit := by rw [Nat.add_mul]; simp
        omega
      have hdropne : suf.drop limit ≠ [] := by
        intro h0
        have : (suf.drop limit).length = 0 := by simp [h0]
        rw [List.length_drop] at this
        omega
      have hcur' : CurAt (some ({ key := k, returned := pre.length + limit } : Cur κ)) (pre ++ suf.take limit) := by
        refine ⟨?_, ?_⟩
        · obtain ⟨ini, hini⟩ := List.getLast?_eq_some_iff.mp hk
          rw [hini, ← List.append_assoc]; simp
        · simp [List.length_take]; omega
      obtain ⟨rest, hrest, hflat, htots, ⟨hfull, rl, hrl, hrlnext, hrllen⟩, hne⟩ :=
        ih (some { key := k, returned := pre.length + limit }) (pre ++ suf.take limit) (suf.drop limit)
          (by rw [hsplit, List.append_assoc, List.take_append_drop]) hcur' (Or.inl hdropne) hlen' hfuel
      simp only [hrest]
      have hrestne : rest ≠ [] := by
        intro h0; rw [h0] at hrl; simp at hrl
      refine ⟨r :: rest, rfl, ?_, ?_, ⟨?_, rl, ?_, hrlnext, hrllen⟩, ?_⟩
      · simp only [List.map_cons, List.flatten_cons, hflat, hhits, List.take_append_drop]
      · intro r' hr'
        rcases List.mem_cons.mp hr' with rfl | hr'
        · exact htot
        · exact htots r' hr'
      · intro r' hr'
        rw [List.dropLast_cons_of_ne_nil hrestne] at hr'
        rcases List.mem_cons.mp hr' with rfl | hr'
        · refine ⟨by simp [hnext], ?_⟩
          rw [hhits, List.length_take]; omega
        · exact hfull r' hr'
      · rw [List.getLast?_cons, List.getLast?_eq_some_getLast hrestne] at *
        simpa using hrl
      · intro hs r' hr'
        rcases List.mem_cons.mp hr' with rfl | hr'
        · rw [hhits]
          intro h0
          have : (suf.take limit).length = 0 := by simp [h0]
          rw [List.length_take] at this
          omega
        · exact hne hdropne r' hr'

/-- **walk_complete** — for any strict total order on the keys, any page size ≥ 1 and any set of
at most `MAX_CURSOR_ADVANCE + 1` distinct matching keys: following `next` from the first request
until it is absent never fails, the pages concatenate to exactly the sorted matches (every match
once, in order), every response reports the exact total, and `next` is absent exactly on the last
page (all earlier pages are full). -/
theorem walk_complete (h : StrictTotal lt) (matched : List κ) (hnd : matched.Nodup) (limit : Nat)
    (hl : 0 < limit) (hn : matched.length ≤ maxCursorAdvance + 1) :
    ∃ pages, walkPages lt matched limit (matched.length + 1) none = some pages ∧
      (pages.map (·.hits)).flatten = sortKeys lt matched ∧
      (∀ r ∈ pages, r.total = matched.length) ∧ WalkShape pages limit := by
  have hlenS : (sortKeys lt matched).length = matched.length := by
    rw [sortKeys_eq]; exact (isort_perm_self matched).length_eq
  obtain ⟨pages, hw, hflat, htot, hshape, _⟩ :=
    walk_from h matched hnd limit hl hn (matched.length + 1) none [] (sortKeys lt matched)
      (by simp) rfl (Or.inr rfl)
      (by
        rw [hlenS]
        have : matched.length * 1 ≤ matched.length * limit := Nat.mul_le_mul_left _ hl
        have h2 : (matched.length + 1) * limit = matched.length * limit + limit := by
          rw [Nat.add_mul]; simp
        omega)
      (by omega)
  exact ⟨pages, hw, hflat, htot, hshape⟩

/-- every match is returned exactly once: the concatenated pages are a permutation of the
matches without repetition -/
theorem walk_each_once (h : StrictTotal lt) (matched : List κ) (hnd : matched.Nodup) (limit : Nat)
    (hl : 0 < limit) (hn : matched.length ≤ maxCursorAdvance + 1) :
    ∃ pages, walkPages lt matched limit (matched.length + 1) none = some pages ∧
      ((pages.map (·.hits)).flatten).Perm matched ∧ ((pages.map (·.hits)).flatten).Nodup := by
  obtain ⟨pages, hw, hflat, _, _⟩ := walk_complete h matched hnd limit hl hn
  have hp : (sortKeys lt matched).Perm matched := by rw [sortKeys_eq]; exact isort_perm_self matched
  exact ⟨pages, hw, by rw [hflat]; exact hp, by rw [hflat]; exact hp.nodup_iff.mpr hnd⟩

end Walk

end SL.Cursor
