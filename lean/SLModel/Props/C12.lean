import SLModel.Core.Aggs
import SLModel.Core.AggsLegacy
import SLModel.Lemmas.ISort
import SLModel.Lemmas.SMap
import SLModel.Lemmas.AggsOrder
import SLModel.Lemmas.AggsStats
import SLModel.Lemmas.AggsBuckets
import SLModel.Lemmas.AggsTree
import SLModel.Lemmas.AggsTopK
import SLModel.Lemmas.AggsCalendar
/-!
# C12 — aggregations are exact and independent of segmentation

`SL.Aggs.run a segs` is the mechanism of the code (one collector tree per segment with its
`finish`, `merge_intermediate_in_place` folded over the segments, `finalize_response`);
`SL.Aggs.Spec.agg a docs` is the reference: computed directly over all matched live documents,
every limit and threshold applied once to the global counts.  All statements quantify over every
aggregation tree (any depth), every document list and every segmentation of it; the key atoms
are any type with a strict total order (`String` in the driver: `stringLt_strictTotal`).

**Full statement, proved (`segmentation_independent`):**

```
theorem segmentation_independent (a : Agg φ κ) (s₀ : List (Doc φ κ)) (rest : List (List (Doc φ κ))) :
    run a (s₀ :: rest) = some (Spec.agg a (s₀ ++ rest.flatten))
```

No hypothesis on the request is left: the repairs 0d5edb4 (thresholds after the merge), a3ebc01
(top_hits window once), 71fb08f (composite histogram over i64), a754ee4 (quarter of 31 May) and
0b763bf (the bounds fill of date_histogram keeps the offset) removed every request class on
which the mechanism and the reference differed.  An explicit terms `shard_size` (per-segment
truncation, approximate by design) is outside the model and outside the claim.
`date_histogram_keys_aligned` adds what makes the reference's date_histogram buckets the right
ones: every bucket key, populated or created from the bounds, is a unit start shifted by the
offset (`k - offset = truncate (k - offset)`; a multiple of the step for fixed intervals).

The mechanism of the code *before* the repairs lives in `Core/AggsLegacy.lean`; the
`legacy_…` theorems below are the kernel-checked witnesses of the original defects, stated about
`Legacy.run`.  Tie to the code: `Drv/C12` runs `run` and `Spec.agg`; the harness compares `run`
with the implementation on every segment layout and `Spec.agg` with an independent Rust
computation.
-/
namespace SL.Aggs
open SL.ISort (StrictTotal)

section
variable {φ κ : Type} [KOrd κ] [DecidableEq κ]
set_option linter.unusedSectionVars false

/-! ## merge is a homomorphism: collecting a concatenation = merging the collections -/

theorem partSet_append (h : StrictTotal (KOrd.lt (κ := κ))) (xs ys : List (Part κ)) :
    partSet (xs ++ ys) = unionWith Part.lt (fun _ _ => ()) (partSet xs) (partSet ys) := by
  have hp := partLt_strictTotal h
  unfold partSet
  apply ext hp (ksorted_keySet hp _) (ksorted_unionWith hp _ _ (ksorted_keySet hp _))
  intro k
  rw [look_unionWith hp _ (ksorted_keySet hp _) (ksorted_keySet hp _), look_keySet hp,
    look_keySet hp, look_keySet hp]
  by_cases h1 : k ∈ xs <;> by_cases h2 : k ∈ ys <;> simp [h1, h2, optUnion]

theorem partSet_comm (h : StrictTotal (KOrd.lt (κ := κ))) (xs ys : List (Part κ)) :
    unionWith Part.lt (fun _ _ => ()) (partSet xs) (partSet ys) =
      unionWith Part.lt (fun _ _ => ()) (partSet ys) (partSet xs) := by
  rw [← partSet_append h, ← partSet_append h]
  unfold partSet
  exact keySet_congr (partLt_strictTotal h) (fun k => by simp [or_comm])

theorem vals_append (xs ys : List Rat) :
    sortBy ratLt (xs ++ ys) = sortBy ratLt (sortBy ratLt xs ++ sortBy ratLt ys) := by
  apply sortBy_perm ratLt_strictTotal
  exact (List.Perm.append (perm_sortBy ratLt xs) (perm_sortBy ratLt ys)).symm

mutual
/-- the intermediate of `xs ++ ys` is the merge of the intermediates of `xs`
and of `ys` — at every depth of the tree -/
theorem collect_append (h : StrictTotal (KOrd.lt (κ := κ))) :
    ∀ (a : Agg φ κ), ∀ xs ys : List (Doc φ κ),
      collect a (xs ++ ys) = merge a (collect a xs) (collect a ys)
  | .stats f m, xs, ys => by
    simp only [collect, merge, List.flatMap_append, collectStats_append]
  | .extStats f m, xs, ys => by
    simp only [collect, merge, List.flatMap_append, collectStats_append]
  | .valueCount f m, xs, ys => by
    simp only [collect, merge, List.flatMap_append, List.length_append]
  | .cardKw f m, xs, ys => by
    simp only [collect, merge, List.flatMap_append, partSet_append h]
  | .cardNum f m, xs, ys => by
    simp only [collect, merge, List.flatMap_append, List.map_append, partSet_append h]
  | .percentiles f m ps, xs, ys => by
    simp only [collect, merge, List.flatMap_append, ← vals_append]
  | .ranks f m ts, xs, ys => by
    simp only [collect, merge, List.flatMap_append, ← vals_append]
  | .topHits size fromN sort, xs, ys => by
    simp only [collect, merge, hitsKeep_eq, List.map_append, List.length_append,
      topN_merge (hitLt_strictTotal _)]
  | .bucket b subs, xs, ys => by
    simp only [collect, merge, finishSeg_eq]
    congr 1
    exact filter_raw_append h b b.minOf (BSpec.minOf_le b) (collectList subs) (mergeList subs)
      (collectList_append h subs) (mergeList_nil_nil subs) (mergeList_nil_left subs)
      (mergeList_nil_right subs) xs ys
theorem collectList_append (h : StrictTotal (KOrd.lt (κ := κ))) :
    ∀ (as : Aggs φ κ), ∀ xs ys : List (Doc φ κ),
      collectList as (xs ++ ys) = mergeList as (collectList as xs) (collectList as ys)
  | .nil, _, _ => by simp [collectList, mergeList]
  | .cons a rest, xs, ys => by
    simp only [collectList, mergeList, collect_append h a xs ys,
      collectList_append h rest xs ys]
end

/-! ## one segment: `finish` + `finalize_response` compute the reference -/

theorem finalizeList_nil (subs : Aggs φ κ) : finalizeList subs [] = [] := by
  cases subs <;> simp [finalizeList]

mutual
theorem finalize_collect (h : StrictTotal (KOrd.lt (κ := κ))) :
    ∀ (a : Agg φ κ), ∀ docs : List (Doc φ κ),
      finalize a (collect a docs) = Spec.agg a docs
  | .stats f m, docs => by simp only [collect, finalize, Spec.agg, collectStats_eq_spec]
  | .extStats f m, docs => by simp only [collect, finalize, Spec.agg, collectStats_eq_spec]
  | .valueCount f m, docs => by simp only [collect, finalize, Spec.agg]
  | .cardKw f m, docs => by simp only [collect, finalize, Spec.agg]
  | .cardNum f m, docs => by simp only [collect, finalize, Spec.agg]
  | .percentiles f m ps, docs => by simp only [collect, finalize, Spec.agg]
  | .ranks f m ts, docs => by simp only [collect, finalize, Spec.agg]
  | .topHits size fromN sort, docs => by
    simp only [collect, finalize, Spec.agg, hitsKeep_eq, window_of_topN]
  | .bucket b subs, docs => by
    have hch : rawBuckets b (Spec.aggs subs) docs =
        (rawBuckets b (collectList subs) docs).map (onChildren (finalizeList subs)) := by
      rw [rawBuckets_map b _ _ (finalizeList_nil subs)]
      exact rawBuckets_congr b _ _ (fun d => (finalizeList_collectList h subs d).symm) docs
    have hpost : finalPost b (finishSeg b (rawBuckets b (collectList subs) docs)) =
        finalPost b (rawBuckets b (collectList subs) docs) := finalPost_finishSeg b _
    simp only [collect, finalize, Spec.agg, specPost]
    rw [hch, finalPost_map, hpost]
    rfl
theorem finalizeList_collectList (h : StrictTotal (KOrd.lt (κ := κ))) :
    ∀ (as : Aggs φ κ), ∀ docs : List (Doc φ κ),
      finalizeList as (collectList as docs) = Spec.aggs as docs
  | .nil, _ => by simp [finalizeList, Spec.aggs]
  | .cons a rest, docs => by
    simp only [collectList, finalizeList, Spec.aggs, finalize_collect h a docs,
      finalizeList_collectList h rest docs]
end

/-! ## the property -/

/-- folding `merge` over the segments' intermediates gives the intermediate of all documents -/
theorem mergeAll_collect (h : StrictTotal (KOrd.lt (κ := κ))) (a : Agg φ κ)
    (s₀ : List (Doc φ κ)) (rest : List (List (Doc φ κ))) :
    mergeAll a ((s₀ :: rest).map (collect a)) = some (collect a (s₀ ++ rest.flatten)) := by
  simp only [List.map_cons, mergeAll]
  congr 1
  induction rest generalizing s₀ with
  | nil => simp
  | cons s₁ rest ih =>
    simp only [List.map_cons, List.foldl_cons, List.flatten_cons]
    rw [← collect_append h a, ih (s₀ ++ s₁), List.append_assoc]

/-- **C12** — for every aggregation tree, every corpus and every way of spreading it over one or
more segments, the response of the mechanism equals the reference computed over all matched live
documents. -/
theorem segmentation_independent (h : StrictTotal (KOrd.lt (κ := κ))) (a : Agg φ κ)
    (s₀ : List (Doc φ κ)) (rest : List (List (Doc φ κ))) :
    run a (s₀ :: rest) = some (Spec.agg a (s₀ ++ rest.flatten)) := by
  unfold run
  rw [mergeAll_collect h a, Option.map_some, finalize_collect h a]

/-- two segmentations of the same document sequence give the same response -/
theorem layouts_agree (h : StrictTotal (KOrd.lt (κ := κ))) (a : Agg φ κ)
    (s₀ t₀ : List (Doc φ κ)) (rs rt : List (List (Doc φ κ)))
    (hflat : s₀ ++ rs.flatten = t₀ ++ rt.flatten) :
    run a (s₀ :: rs) = run a (t₀ :: rt) := by
  rw [segmentation_independent h a, segmentation_independent h a, hflat]

/-- `merge` is associative on the intermediates that can arise (collections of segments) -/
theorem merge_assoc (h : StrictTotal (KOrd.lt (κ := κ))) (a : Agg φ κ)
    (xs ys zs : List (Doc φ κ)) :
    merge a (merge a (collect a xs) (collect a ys)) (collect a zs) =
      merge a (collect a xs) (merge a (collect a ys) (collect a zs)) := by
  rw [← collect_append h a, ← collect_append h a, ← collect_append h a,
    ← collect_append h a, List.append_assoc]

/-! ## date_histogram: every bucket key is aligned -/

def bucketsOf : Node κ → Buckets κ
  | .buckets bs _ => bs
  | _ => []

/-- the keys a date_histogram request can produce — from a document value or from the bounds
fill — are aligned: `k - offset = truncate (k - offset)` (calendar), `step ∣ k - offset` (fixed) -/
theorem dhist_keys_aligned (f : φ) (iv : DInterval) (offset : Int) (m : Nat)
    (ext hard : Option (Int × Int)) (missing : Option Int) (docs : List (Doc φ κ)) :
    ∀ k ∈ docs.flatMap (keysOf (.dhist f iv offset m ext hard missing : BSpec φ κ)) ++
        extraKeys (.dhist f iv offset m ext hard missing : BSpec φ κ),
      ∃ n, k = Key.num n ∧ Aligned iv offset n := by
  intro k hk
  rcases List.mem_append.mp hk with hk | hk
  · simp only [List.mem_flatMap, keysOf, List.mem_filterMap, Option.map_eq_some_iff] at hk
    obtain ⟨_, _, v, _, n, hn, rfl⟩ := hk
    exact ⟨n, rfl, aligned_dateBucket iv offset v n hn⟩
  · simp only [extraKeys] at hk
    split at hk
    · rename_i lo hi _
      split at hk
      · rename_i a b ha hb
        simp only [List.mem_map] at hk
        obtain ⟨n, hn, rfl⟩ := hk
        refine ⟨n, rfl, aligned_fillFrom iv offset _ _ _ ?_ n hn⟩
        split
        · exact aligned_dateBucket iv offset _ _ hb
        · exact aligned_dateBucket iv offset _ _ ha
      · simp at hk
    · simp at hk

/-- **bucket-key alignment** — every bucket of a date_histogram response, populated or created
from the extended/hard bounds, for every segmentation, has a key `k` with
`k - offset = truncate (k - offset)` (calendar intervals; for fixed intervals `k - offset` is a
multiple of the step).  This is what 0b763bf repaired for the bounds fill
(`legacy_date_histogram_fill_drops_offset`). -/
theorem date_histogram_keys_aligned (h : StrictTotal (KOrd.lt (κ := κ))) (f : φ) (iv : DInterval)
    (offset : Int) (m : Nat) (ext hard : Option (Int × Int)) (missing : Option Int)
    (subs : Aggs φ κ) (s₀ : List (Doc φ κ)) (rest : List (List (Doc φ κ))) (resp : Node κ)
    (hr : run (.bucket (.dhist f iv offset m ext hard missing) subs) (s₀ :: rest) = some resp) :
    ∀ x ∈ bucketsOf resp, ∃ n, x.1 = Key.num n ∧ Aligned iv offset n := by
  rw [segmentation_independent h] at hr
  simp only [Option.some.injEq] at hr
  subst hr
  intro x hx
  simp only [Spec.agg, specPost, finalPost, bucketsOf] at hx
  have hx' := (List.mem_filter.mp hx).1
  exact dhist_keys_aligned f iv offset m ext hard missing _ x.1
    (mem_rawBuckets_key h _ _ _ x hx')

/-- non-vacuity of `Aligned`: with a monthly interval and a one-hour offset, 1970-01-01T01:00 is
aligned, 1970-01-01T00:00 and 1970-02-01T00:00 (what the legacy fill produced) are not -/
example : Aligned (.calendar .month) 3600000 3600000 ∧ ¬ Aligned (.calendar .month) 3600000 0 ∧
    ¬ Aligned (.calendar .month) 3600000 2678400000 := by
  simp only [Aligned]
  decide +kernel

/-! ## merge is commutative on the intermediates that can arise -/

mutual
/-- the order in which two segments are merged does not matter (all kinds, every depth) -/
theorem merge_comm (h : StrictTotal (KOrd.lt (κ := κ))) :
    ∀ (a : Agg φ κ), ∀ xs ys : List (Doc φ κ),
      merge a (collect a xs) (collect a ys) = merge a (collect a ys) (collect a xs)
  | .stats f m, xs, ys => by
    simp only [collect, merge, collectStats_eq_spec, mergeStats_comm_spec]
  | .extStats f m, xs, ys => by
    simp only [collect, merge, collectStats_eq_spec, mergeStats_comm_spec]
  | .valueCount f m, xs, ys => by
    simp only [collect, merge, Nat.add_comm]
  | .cardKw f m, xs, ys => by
    simp only [collect, merge]; rw [partSet_comm h]
  | .cardNum f m, xs, ys => by
    simp only [collect, merge]; rw [partSet_comm h]
  | .percentiles f m ps, xs, ys => by
    simp only [collect, merge]
    rw [sortBy_perm ratLt_strictTotal List.perm_append_comm]
  | .ranks f m ts, xs, ys => by
    simp only [collect, merge]
    rw [sortBy_perm ratLt_strictTotal List.perm_append_comm]
  | .topHits size fromN sort, xs, ys => by
    simp only [collect, merge, hitsKeep, Nat.add_comm xs.length]
    rw [sortBy_perm (hitLt_strictTotal _) List.perm_append_comm]
  | .bucket b subs, xs, ys => by
    simp only [collect, merge, finishSeg_eq]
    congr 1
    exact filter_raw_comm h b b.minOf (collectList subs) (mergeList subs)
      (mergeList_comm h subs) (mergeList_nil_left subs) (mergeList_nil_right subs) xs ys
theorem mergeList_comm (h : StrictTotal (KOrd.lt (κ := κ))) :
    ∀ (as : Aggs φ κ), ∀ xs ys : List (Doc φ κ),
      mergeList as (collectList as xs) (collectList as ys) =
        mergeList as (collectList as ys) (collectList as xs)
  | .nil, _, _ => by simp [mergeList]
  | .cons a rest, xs, ys => by
    simp only [collectList, mergeList, merge_comm h a xs ys, mergeList_comm h rest xs ys]
end

/-- swapping two adjacent segments does not change the response -/
theorem swap_segments (h : StrictTotal (KOrd.lt (κ := κ))) (a : Agg φ κ)
    (s₀ s₁ : List (Doc φ κ)) :
    run a [s₀, s₁] = run a [s₁, s₀] := by
  simp only [run, List.map_cons, List.map_nil, mergeAll, List.foldl_cons, List.foldl_nil,
    merge_comm h a s₀ s₁]

end

/-! ## the code before the repairs violated the full statement: kernel-checked witnesses
(all about `Legacy.run`)

Key atoms are `Nat` (string literals do not reduce in the kernel); `counts` projects a response
to its (key, doc_count) list. -/

def counts {κ : Type} : Node κ → List (Key κ × Nat)
  | .buckets bs _ => bs.map (fun x => (x.1, x.2.1))
  | _ => []

/-- document with keyword values `ks` (field `()`) -/
def kdoc (i : Nat) (ks : List Nat) : Doc Unit Nat := ⟨i, fun _ => ks, fun _ => []⟩
/-- document with numeric values `vs` (field `()`) -/
def ndoc (i : Nat) (vs : List Rat) : Doc Unit Nat := ⟨i, fun _ => [], fun _ => vs⟩

/-- terms `min_doc_count = 2`, key `1` once in each of two segments: the mechanism returns no
bucket, the reference returns `1 ↦ 2` (`TermsCollector::finish` filters per segment) -/
theorem legacy_terms_min_doc_count_per_segment :
    let a : Agg Unit Nat := .bucket (.terms () none 2 none) .nil
    (Legacy.run a [[kdoc 0 [1]], [kdoc 1 [1]]]).map counts = some [] ∧
    counts (Spec.agg a [kdoc 0 [1], kdoc 1 [1]]) = [(Key.str 1, 2)] := by
  decide

/-- terms `size = 1`: segment 1 holds keys 1,1,2 and segment 2 holds keys 2,2,3,3,3.  Each
segment keeps only its own top-1 (`1 ↦ 2`, `3 ↦ 3`), so key 2 — globally `2 ↦ 3`, the reference's
top-1 by (count desc, key asc) — is lost and the mechanism answers `3 ↦ 3` -/
theorem legacy_terms_size_per_segment :
    let a : Agg Unit Nat := .bucket (.terms () (some 1) 1 none) .nil
    (Legacy.run a [[kdoc 0 [1], kdoc 1 [1], kdoc 2 [2]], [kdoc 3 [2], kdoc 4 [2], kdoc 5 [3], kdoc 6 [3], kdoc 7 [3]]]).map counts
      = some [(Key.str 3, 3)] ∧
    counts (Spec.agg a [kdoc 0 [1], kdoc 1 [1], kdoc 2 [2], kdoc 3 [2], kdoc 4 [2], kdoc 5 [3], kdoc 6 [3], kdoc 7 [3]])
      = [(Key.str 2, 3)] := by
  decide

/-- rare_terms `max_doc_count = 1`: key `1` twice in segment 1 (dropped there) and once in
segment 2: the mechanism reports it as rare with count 1, the reference does not (count 3) -/
theorem legacy_rare_terms_per_segment :
    let a : Agg Unit Nat := .bucket (.rare () 1 none) .nil
    (Legacy.run a [[kdoc 0 [1], kdoc 1 [1]], [kdoc 2 [1]]]).map counts = some [(Key.str 1, 1)] ∧
    counts (Spec.agg a [kdoc 0 [1], kdoc 1 [1], kdoc 2 [1]]) = [] := by
  decide

/-- rare_terms: the merge itself is not associative (a key dropped by an intermediate merge
comes back with the next segment) -/
theorem legacy_rare_terms_merge_not_assoc :
    let a : Agg Unit Nat := .bucket (.rare () 2 none) .nil
    let x := Legacy.collect a [kdoc 0 [1], kdoc 1 [1]]
    let y := Legacy.collect a [kdoc 2 [1]]
    let z := Legacy.collect a [kdoc 3 [1]]
    counts (Legacy.merge a (Legacy.merge a x y) z) = [(Key.str 1, 1)] ∧
    counts (Legacy.merge a x (Legacy.merge a y z)) = [] := by
  decide

/-- histogram `min_doc_count = 2` (interval 10): values 1 and 2 in different segments -/
theorem legacy_histogram_min_doc_count_per_segment :
    let a : Agg Unit Nat := .bucket (.hist () 10 0 2 none none none) .nil
    (Legacy.run a [[ndoc 0 [1]], [ndoc 1 [2]]]).map counts = some [] ∧
    counts (Spec.agg a [ndoc 0 [1], ndoc 1 [2]]) = [(Key.num 0, 2)] := by
  decide +kernel

/-- composite with a histogram source over an i64 column (`f64col = false`): no buckets at all,
even with one segment -/
theorem legacy_composite_histogram_i64_empty :
    let a : Agg Unit Nat := .bucket (.composite [.hist () 5 false] 10 none) .nil
    (Legacy.run a [[ndoc 0 [7]]]).map counts = some [] ∧
    counts (Spec.agg a [ndoc 0 [7]]) = [(Key.parts [Part.num 5], 1)] := by
  decide +kernel

/-- date_histogram (calendar day) `min_doc_count = 2`: two values of the same day in different
segments -/
theorem legacy_date_histogram_min_doc_count_per_segment :
    let a : Agg Unit Nat := .bucket (.dhist () (.calendar .day) 0 2 none none none) .nil
    (Legacy.run a [[ndoc 0 [3600000]], [ndoc 1 [7200000]]]).map counts = some [] ∧
    counts (Spec.agg a [ndoc 0 [3600000], ndoc 1 [7200000]]) = [(Key.num 0, 2)] := by
  decide +kernel

/-- date_histogram, calendar month, offset 1 h, extended bounds 1970-01-01 … 1970-02-10, no
documents: the bounds fill before 0b763bf started at 1969-12-01T01:00 and then stepped to
1970-01-01T00:00 and 1970-02-01T00:00 (`add_calendar` dropped the time of day, i.e. the offset);
the reference (and the code now) keeps the offset: 1970-01-01T01:00, 1970-02-01T01:00.  One
segment suffices. -/
theorem legacy_date_histogram_fill_drops_offset :
    let a : Agg Unit Nat :=
      .bucket (.dhist () (.calendar .month) 3600000 0 (some (0, 86400000 * 40)) none none) .nil
    (Legacy.run a [[]]).map counts =
      some [(Key.num (-2674800000), 0), (Key.num 0, 0), (Key.num 2678400000, 0)] ∧
    counts (Spec.agg a []) =
      [(Key.num (-2674800000), 0), (Key.num 3600000, 0), (Key.num 2682000000, 0)] := by
  decide +kernel

/-- date_histogram, calendar quarter: a value on 1970-05-31 gets no bucket in the mechanism
(`with_month(4)` on the 31st fails before `with_day(1)` is applied); the reference counts it in
the quarter starting 1970-04-01.  One segment suffices. -/
theorem legacy_date_histogram_quarter_drops_may31 :
    let a : Agg Unit Nat := .bucket (.dhist () (.calendar .quarter) 0 0 none none none) .nil
    (Legacy.run a [[ndoc 0 [12960000000]]]).map counts = some [] ∧
    counts (Spec.agg a [ndoc 0 [12960000000]]) = [(Key.num 7776000000, 1)] := by
  decide +kernel

def hitIds {κ : Type} : Node κ → List Nat
  | .hits _ hs => hs.map (·.2)
  | _ => []

/-- top_hits `from = 1, size = 1`, ascending by the value: documents 0,1 | 2,3.  Every segment
skips its own best hit, the merge skips once more: the mechanism returns document 3, the
reference (second best overall) document 1 -/
theorem legacy_top_hits_from_per_segment :
    let a : Agg Unit Nat := .topHits 1 1 [((), false)]
    (Legacy.run a [[ndoc 0 [1], ndoc 1 [2]], [ndoc 2 [3], ndoc 3 [4]]]).map hitIds = some [3] ∧
    hitIds (Spec.agg a [ndoc 0 [1], ndoc 1 [2], ndoc 2 [3], ndoc 3 [4]]) = [1] := by
  decide +kernel

/-! ## the repaired mechanism on the inputs of the legacy witnesses -/

example :
    let a : Agg Unit Nat := .bucket (.terms () none 2 none) .nil
    (run a [[kdoc 0 [1]], [kdoc 1 [1]]]).map counts = some [(Key.str 1, 2)] := by
  decide

example :
    let a : Agg Unit Nat := .bucket (.terms () (some 1) 1 none) .nil
    (run a [[kdoc 0 [1], kdoc 1 [1], kdoc 2 [2]], [kdoc 3 [2], kdoc 4 [2], kdoc 5 [3], kdoc 6 [3], kdoc 7 [3]]]).map counts
      = some [(Key.str 2, 3)] := by
  decide

example :
    let a : Agg Unit Nat := .bucket (.rare () 1 none) .nil
    (run a [[kdoc 0 [1], kdoc 1 [1]], [kdoc 2 [1]]]).map counts = some [] := by
  decide

example :
    let a : Agg Unit Nat := .topHits 1 1 [((), false)]
    (run a [[ndoc 0 [1], ndoc 1 [2]], [ndoc 2 [3], ndoc 3 [4]]]).map hitIds = some [1] := by
  decide +kernel

example :
    let a : Agg Unit Nat := .bucket (.composite [.hist () 5 false] 10 none) .nil
    (run a [[ndoc 0 [7]]]).map counts = some [(Key.parts [Part.num 5], 1)] := by
  decide +kernel

example :
    let a : Agg Unit Nat := .bucket (.dhist () (.calendar .quarter) 0 2 none none none) .nil
    (run a [[ndoc 0 [12960000000]], [ndoc 1 [12960000000]]]).map counts = some [(Key.num 7776000000, 2)] := by
  decide +kernel

/-! ## non-vacuity: the theorem computes on a depth-3 request -/

/-- terms ▸ histogram ▸ stats, two segments: mechanism = reference, with non-trivial content -/
example :
    let a : Agg Unit Nat := .bucket (.terms () none 1 none)
      (.cons (.bucket (.filter .tt) (.cons (.valueCount () none) .nil)) .nil)
    (run a [[kdoc 0 [1, 2]], [kdoc 1 [1]]]).map counts = some [(Key.str 1, 2), (Key.str 2, 1)] ∧
    (run a [[kdoc 0 [1, 2]], [kdoc 1 [1]]]).map counts =
      some (counts (Spec.agg a [kdoc 0 [1, 2], kdoc 1 [1]])) := by
  decide

/-- the repaired fill on the input of `legacy_date_histogram_fill_drops_offset` -/
example :
    let a : Agg Unit Nat :=
      .bucket (.dhist () (.calendar .month) 3600000 0 (some (0, 86400000 * 40)) none none) .nil
    (run a [[]]).map counts =
      some [(Key.num (-2674800000), 0), (Key.num 3600000, 0), (Key.num 2682000000, 0)] := by
  decide +kernel

/-- top_hits is inside the theorem: two segments, ascending by value -/
example :
    let a : Agg Unit Nat := .topHits 2 0 [((), false)]
    (run a [[ndoc 0 [5], ndoc 1 [1]], [ndoc 2 [3]]]).map hitIds = some [1, 2] ∧
    hitIds (Spec.agg a [ndoc 0 [5], ndoc 1 [1], ndoc 2 [3]]) = [1, 2] := by
  decide +kernel

/-- the hypothesis of the theorems is satisfiable for the driver's atoms -/
example : StrictTotal (KOrd.lt (κ := String)) := stringLt_strictTotal
example : StrictTotal (KOrd.lt (κ := Nat)) := natLt_strictTotal

end SL.Aggs
