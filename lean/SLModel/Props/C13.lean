import SLModel.Lemmas.Post
/-!
# C13 — aggregations and suggestions do not depend on paging

Spec (`SL.Post.Spec.search`): aggregations are functions of the matching documents only
(`aggs_paging_independent` — short, as it should be: the *content* of C13 is that the
implementation refines this spec, and that is what the differential run checks: every variant
of a request — pages of a cursor walk, limits, sorts, `return_hits`, execution strategies,
explain/profile, rescore — must return the same aggregations and suggestions).

Mechanism (`SL.Post.search`): since /repo 5e540f6 the aggregation collectors are fed *before* the
cursor test of the `accept` step, so the aggregations are taken over all matching documents.
Proved at full strength: the mechanism's aggregations equal the spec's for every request, cursor
pages included (`mech_aggs_eq_spec`), and depend on nothing else in the request
(`mech_aggs_paging_independent`); `total_hits` still counts from the cursor on
(`mech_total_after_cursor`).  The old accept-step order is kept as `legacyAggSearch`:
`legacy_aggs_with_cursor`, `legacy_aggs_eq_spec_partial` (only without a cursor),
`legacy_aggs_cursor_page_witness` next to `aggs_cursor_page_repaired`.

Suggestions are computed from the term dictionary and the suggest request alone
(`execute_suggest` takes nothing from the search); they are not part of this model and are
covered by the differential run only.
-/
namespace SL.Post
variable {S : Type}

/-- spec: any two requests over the same matching documents get the same aggregations -/
theorem aggs_paging_independent (o : ScoreOps S) (r r' : Req S) (matched : List (Hit S))
    (hf : r.aggField = r'.aggField) :
    (Spec.search o r matched).aggTerms = (Spec.search o r' matched).aggTerms ∧
    (Spec.search o r matched).aggCount = (Spec.search o r' matched).aggCount := by
  simp [Spec.search, hf]

/-! ### the mechanism -/

theorem members_map {f : Hit S → Hit S} (hf : ∀ h, (f h).grp = h.grp) (g : Nat) (l : List (Hit S)) :
    members g (l.map f) = (members g l).map f := by
  unfold members
  rw [List.filter_map]
  congr 1
  apply List.filter_congr
  intro h _
  simp [Function.comp, hf]

theorem aggTerms_map {f : Hit S → Hit S} (hf : ∀ h, (f h).grp = h.grp) (l : List (Hit S)) :
    aggTerms (l.map f) = aggTerms l := by
  unfold aggTerms countOf
  have hk : (l.map f).filterMap (·.grp) = l.filterMap (·.grp) := by
    rw [List.filterMap_map]
    apply filterMap_congr'
    intro h _
    simp [Function.comp, hf]
  rw [hk]
  apply List.map_congr_left
  intro g _
  rw [members_map hf, List.length_map]

theorem aggCount_map {f : Hit S → Hit S} (hf : ∀ h, (f h).flds = h.flds) (i : Nat) (l : List (Hit S)) :
    aggCount i (l.map f) = aggCount i l := by
  unfold aggCount
  rw [List.filter_map, List.length_map]
  congr 1
  apply List.filter_congr
  intro h _
  simp [Function.comp, hf]

theorem seen_grp (o : ScoreOps S) (r : Req S) (h : Hit S) : (seen o r h).grp = h.grp := by
  unfold seen; split <;> rfl

theorem seen_flds (o : ScoreOps S) (r : Req S) (h : Hit S) : (seen o r h).flds = h.flds := by
  unfold seen; split <;> rfl

/-- **the code's aggregations are the statement's**, for every request — with or without a cursor
(full statement since /repo 5e540f6: the collectors are fed before the cursor test) -/
theorem mech_aggs_eq_spec (o : ScoreOps S) (r : Req S) (matched : List (Hit S)) :
    (search o r matched).aggTerms = (Spec.search o r matched).aggTerms ∧
    (search o r matched).aggCount = (Spec.search o r matched).aggCount := by
  simp only [search, Spec.search]
  exact ⟨aggTerms_map (seen_grp o r) matched, aggCount_map (seen_flds o r) _ matched⟩

/-- hence nothing in the request (cursor/page, limit, sort, `return_hits`, explain, profile,
rescore, collapse, candidate size, segment layout parameter) influences the aggregations -/
theorem mech_aggs_paging_independent (o : ScoreOps S) (r r' : Req S) (matched : List (Hit S))
    (hf : r.aggField = r'.aggField) :
    (search o r matched).aggTerms = (search o r' matched).aggTerms ∧
    (search o r matched).aggCount = (search o r' matched).aggCount := by
  obtain ⟨h1, h2⟩ := mech_aggs_eq_spec o r matched
  obtain ⟨h3, h4⟩ := mech_aggs_eq_spec o r' matched
  obtain ⟨h5, h6⟩ := aggs_paging_independent o r r' matched hf
  exact ⟨by rw [h1, h3, h5], by rw [h2, h4, h6]⟩

/-- while `total_hits` still counts only the documents after the cursor (plus those returned on
earlier pages) — unchanged by 5e540f6 -/
theorem mech_total_after_cursor (o : ScoreOps S) (r : Req S) (matched : List (Hit S)) :
    (search o r matched).total =
      (afterCursor (klt o r.plan) r.cursor (matched.map (seen o r))).length + returned r.cursor := by
  simp [search]

/-! ### before /repo 5e540f6 -/

/-- what the old code aggregated: the documents that pass the cursor test -/
theorem legacy_aggs_with_cursor (o : ScoreOps S) (r : Req S) (matched : List (Hit S)) :
    (legacyAggSearch o r matched).aggTerms =
      aggTerms (afterCursor (klt o r.plan) r.cursor (matched.map (seen o r))) ∧
    (legacyAggSearch o r matched).aggCount =
      aggCount r.aggField (afterCursor (klt o r.plan) r.cursor (matched.map (seen o r))) := by
  simp [legacyAggSearch]

/-- the old code's aggregations equalled the statement's only **for requests without a cursor** -/
theorem legacy_aggs_eq_spec_partial (o : ScoreOps S) (r : Req S) (matched : List (Hit S))
    (hc : r.cursor = none) :
    (legacyAggSearch o r matched).aggTerms = (Spec.search o r matched).aggTerms ∧
    (legacyAggSearch o r matched).aggCount = (Spec.search o r matched).aggCount := by
  simp only [legacyAggSearch, Spec.search, hc, afterCursor]
  exact ⟨aggTerms_map (seen_grp o r) matched, aggCount_map (seen_flds o r) _ matched⟩

/-! ### non-vacuity and the negative witness -/

private def mk (doc : Nat) (score : Int) (g : Nat) : Hit Int :=
  { seg := 0, doc := doc, score := score, flds := [some 1], grp := some g, resc := .noMatch, expl := none }

private def docs : List (Hit Int) := [mk 0 4 0, mk 1 3 0, mk 2 2 1, mk 3 1 1]

private def page1 : Req Int where
  plan := [⟨.score, true⟩]
  limit := 2
  cand := none
  returnHits := true
  explain := false
  profile := false
  hook := false
  nseg := 1
  cursor := none
  rescore := none
  collapse := none
  aggField := 0

/-- second page: the cursor is the key of the last hit of the first page -/
private def page2 : Req Int := { page1 with cursor := some (mk 1 3 0, 2) }

example : (search intOps page1 docs).aggTerms = [(0, 2), (1, 2)] ∧ (search intOps page1 docs).aggCount = 4 ∧
    (search intOps page1 docs).next = some (mk 1 3 0) := by decide

/-- **legacy negative witness** (before /repo 5e540f6): on the second page of the walk the terms
aggregation had lost the two documents of the first page (spec: unchanged) -/
theorem legacy_aggs_cursor_page_witness :
    (legacyAggSearch intOps page2 docs).aggTerms = [(1, 2)] ∧ (legacyAggSearch intOps page2 docs).aggCount = 2 ∧
    (Spec.search intOps page2 docs).aggTerms = [(0, 2), (1, 2)] ∧ (Spec.search intOps page2 docs).aggCount = 4 := by
  decide

/-- the same page on the current model: aggregations of the whole result set, `total_hits` of
the documents after the cursor plus the two returned before -/
theorem aggs_cursor_page_repaired :
    (search intOps page2 docs).aggTerms = [(0, 2), (1, 2)] ∧ (search intOps page2 docs).aggCount = 4 ∧
    (search intOps page2 docs).total = 4 := by
  decide

end SL.Post
