import SLModel.Lemmas.ContentsInv
import SLModel.Lemmas.Doc
import SLModel.Core.DocContents
/-!
# C14 — compaction preserves observable contents

Model: `SL.Contents.compact` (no-op for ≤ 1 segment; refused for a schema that is not compact-safe;
otherwise every live stored document is re-ingested into one new segment, and a re-ingestion failure
leaves the manifest unchanged), `SL.Doc.project` (stored projection), `SL.Doc.ingestOk`
(`validate_document` ∧ `collect_document`), `SL.Doc.compactSafe` (`ensure_compact_safe`).

What is proved for all states / documents / schemas:
* `compact_contents`, `compact_after_any_history` — live ids and stored fields are unchanged;
* `compact_single_segment`, `compact_no_tombstones` — at most one segment, and after a compaction
  that ran no tombstones (a single segment with tombstones is left as it is: `compact` returns early
  for ≤ 1 segment — `compact_single_segment_keeps_tombstones`, not observable by a reader);
* `compact_refuses`, `compact_not_ok_unchanged` — refusal and failure leave the state unchanged;
* `project_idem` — re-projecting a stored document is the identity (why re-ingestion is harmless).

**Not true of the unchanged code, hence `_partial` + negative witnesses** (each reproduced on the real
code by the harness and listed in `known_findings.json`):

1. *"which documents any filter matches"*.  Full statement (false):
   `∀ n v f, nestedPasses n f (stored v) = nestedPasses n f v`.  The stored projection drops null
   elements, objects without stored non-null values and empty arrays of a nested value, so object
   counts and indices change after re-ingestion and `Nested{…Not…}` filters (and, through the
   parent/child bookkeeping, nested-in-nested filters) match differently.
   Proved: `nested_filter_stable_partial` (single-level filters over keyword leaves, compact-safe
   properties, hypothesis `keepsAll`: no element is dropped).  Witnesses:
   `stored_changes_object_count_witness`, `nested_not_filter_flips_witness`.
   Not modelled (finder only): numeric range leaves, nested-in-nested filters, top-level filters and
   queries.
2. *"leaves a single segment / refuses without changing anything"*.  Full statement (false):
   `cfg.safe → 2 ≤ segments → (compact cfg s).2 = .ok`.  A document that was accepted can have a
   stored form that is no longer ingestible (a required nested property is unstored, or its value's
   projection is empty and therefore dropped); compaction then fails for good.
   Proved: `compact_ok_partial` (hypothesis: every live stored document is re-ingestible).
   Witness: `accepted_document_not_reingestable_witness`.
3. A `bool` query whose `should` list contains a prefix clause that expands only to terms of deleted
   documents changes its result when compaction removes those terms from the dictionary (the clause
   is dropped and the query degenerates to its filter).  This is query planning, outside this model;
   it is reported by the finder only (`compact.query-changed.should-expansion-clause-without-live-match`).
-/
set_option linter.unusedSectionVars false
namespace SL.C14
open SL.Contents SL.Doc

variable {ι δ σ : Type} [DecidableEq ι] [DecidableEq σ]

/-- **compact_contents**: in every state satisfying the invariant the live documents (ids and stored
fields, even their order) are the same before and after `compact` -/
theorem compact_contents (cfg : Cfg δ) {s : St ι δ} (hi : Inv cfg.proj s) :
    abs (compact cfg s).1.segs = abs s.segs := by
  rcases compact_eq cfg s with e | e | e | ⟨_, _, _, e⟩
  · rw [e]
  · rw [e]
  · rw [e]
  · rw [e]; exact abs_compactSeg cfg.proj hi.seg.fixed s.nextSeg

/-- the same after any history over any number of handles: appending `compact` to a call list
changes neither what a reader sees nor what the spec prescribes -/
theorem compact_after_any_history (cfg : Cfg δ) (hproj : ∀ d, cfg.proj (cfg.proj d) = cfg.proj d)
    (mem : Bool) (cs : List (Call ι δ)) (i : ι) :
    copies (run cfg mem (cs ++ [.compact])).segs i = copies (run cfg mem cs).segs i := by
  have h1 := (SL.Contents.contents_refines_aux cfg hproj mem (cs ++ [.compact])) i
  have h2 := (SL.Contents.contents_refines_aux cfg hproj mem cs) i
  rw [h1, h2]
  unfold Spec.run
  rw [List.foldl_append]
  rfl

/-- **compact_single_segment**: a successful compaction leaves at most one segment -/
theorem compact_single_segment (cfg : Cfg δ) (s : St ι δ) (h : (compact cfg s).2 = .ok) :
    (compact cfg s).1.segs.length ≤ 1 := by
  unfold compact at h ⊢
  by_cases h1 : s.segs.length ≤ 1
  · simp [h1]
  · by_cases h2 : cfg.safe = true
    · by_cases h3 : (abs s.segs).all (fun p => cfg.reingestOk p.2) = true
      · simp [h1, h2, h3]
      · simp [h1, h2, h3] at h
    · simp [h1, h2] at h

/-- **compact_no_tombstones**: when compaction ran (≥ 2 segments, result ok) nothing deleted remains -/
theorem compact_no_tombstones (cfg : Cfg δ) (s : St ι δ) (hn : 2 ≤ s.segs.length)
    (h : (compact cfg s).2 = .ok) : ∀ g ∈ (compact cfg s).1.segs, g.deleted = [] := by
  rcases compact_eq cfg s with e | e | e | ⟨_, _, _, e⟩
  · unfold compact at h e ⊢
    have h1 : ¬ s.segs.length ≤ 1 := by omega
    by_cases h2 : cfg.safe = true
    · by_cases h3 : (abs s.segs).all (fun p => cfg.reingestOk p.2) = true
      · simp only [h1, h2, h3, if_false, Bool.not_true, Bool.false_eq_true]
        intro g hg; simp at hg; rw [hg]
      · simp [h1, h2, h3] at h
    · simp [h1, h2] at h
  · rw [e] at h; simp at h
  · rw [e] at h; simp at h
  · rw [e]; intro g hg
    simp at hg; rw [hg]; rfl

/-- **compact_refuses**: with a schema that has an indexed/fast unstored field the state is returned
unchanged, and with ≥ 2 segments the result is the refusal -/
theorem compact_refuses (cfg : Cfg δ) (s : St ι δ) (h : cfg.safe = false) :
    (compact cfg s).1 = s ∧ (2 ≤ s.segs.length → (compact cfg s).2 = .refused) := by
  unfold compact
  by_cases h1 : s.segs.length ≤ 1
  · simp [h1]; omega
  · simp [h1, h]

/-- any result other than `ok` (refusal, re-ingestion failure) leaves the state unchanged -/
theorem compact_not_ok_unchanged (cfg : Cfg δ) (s : St ι δ) (h : (compact cfg s).2 ≠ .ok) :
    (compact cfg s).1 = s := by
  rcases compact_eq cfg s with e | e | e | ⟨_, _, _, e⟩
  · rw [e]
  · rw [e]
  · rw [e]
  · rw [e] at h; exact absurd rfl h

/-- a single segment is returned as it is — with its tombstones (not observable: readers skip
deleted documents) -/
theorem compact_single_segment_keeps_tombstones :
    ((run cfgId false [.newWriter 0, .add 0 1 10 9, .add 0 2 20 9, .commit 0, .del 0 1 7, .commit 0,
      .compact] : St Nat Nat).segs.map (·.deleted)) = [[1]] := by decide

/-- **compact_ok_partial** (finding 2): for a compact-safe schema, ≥ 2 segments and live documents
whose stored form can be re-ingested, compaction succeeds, leaves exactly one segment without
tombstones and the same contents -/
theorem compact_ok_partial (cfg : Cfg δ) {s : St ι δ} (hi : Inv cfg.proj s) (hsafe : cfg.safe = true)
    (hn : 2 ≤ s.segs.length) (hre : ∀ p ∈ abs s.segs, cfg.reingestOk p.2 = true) :
    (compact cfg s).2 = .ok ∧ (compact cfg s).1.segs.length = 1 ∧
    (∀ g ∈ (compact cfg s).1.segs, g.deleted = []) ∧
    abs (compact cfg s).1.segs = abs s.segs := by
  have hall : (abs s.segs).all (fun p => cfg.reingestOk p.2) = true := by
    rw [List.all_eq_true]; exact hre
  have h1 : ¬ s.segs.length ≤ 1 := by omega
  have e : compact cfg s =
      ({ s with segs := [compactSeg cfg.proj s.segs s.nextSeg], nextSeg := s.nextSeg + 1 }, .ok) := by
    unfold compact
    simp only [h1, hsafe, hall, if_false, Bool.not_true, Bool.false_eq_true]
    rfl
  refine ⟨by rw [e], by rw [e]; rfl, ?_, compact_contents cfg hi⟩
  rw [e]; intro g hg; simp at hg; rw [hg]; rfl

/-- a re-ingestion failure is a failure: compact-safe schema, ≥ 2 segments, some live stored document
not ingestible ⇒ result `failed`, state unchanged (mechanism of finding 2) -/
theorem compact_fails_when_not_reingestable (cfg : Cfg δ) (s : St ι δ) (hsafe : cfg.safe = true)
    (hn : 2 ≤ s.segs.length) (p : ι × δ) (hp : p ∈ abs s.segs) (hbad : cfg.reingestOk p.2 = false) :
    compact cfg s = (s, .failed) := by
  have h1 : ¬ s.segs.length ≤ 1 := by omega
  have hall : ¬ (abs s.segs).all (fun p => cfg.reingestOk p.2) = true := by
    rw [List.all_eq_true]; intro h; have := h p hp; simp [hbad] at this
  unfold compact
  simp [h1, hsafe, hall]

/-- **project_idem**: the stored projection is idempotent, for every schema and document -/
theorem project_idem (s : Schema σ) (d : J σ) : project s (project s d) = project s d :=
  SL.Doc.project_idem s d

/-- the schema-level instance of C04/C14: for documents and `docCfg s` every history followed by
`compact` shows a reader exactly what the spec prescribes -/
theorem compact_preserves_documents (s : Schema σ) (mem : Bool) (cs : List (Call σ (J σ))) (i : σ) :
    copies (run (docCfg s) mem (cs ++ [.compact])).segs i =
      (alGet (Spec.run (project s) mem cs).committed i).toList := by
  rw [compact_after_any_history (docCfg s) (SL.Doc.project_idem s) mem cs i]
  exact SL.Contents.contents_refines_aux (docCfg s) (SL.Doc.project_idem s) mem cs i

/-- **nested_filter_stable_partial** (finding 1): if the projection keeps every element of the
nested array (`keepsAll`) and the nested properties are compact-safe, every single-level nested
filter over keyword leaves evaluates the same on the stored value -/
theorem nested_filter_stable_partial (n : Nested σ) (hsafe : propsSafe n.props = true) (f : NF σ)
    (a : JL σ) (hk : keepsAll n.props a = true) :
    nestedPasses n f (.arr (storedList n a)) = nestedPasses n f (.arr a) := by
  simp only [nestedPasses]
  exact anyJL_storedList n hsafe f a hk

/-! ## witnesses (atoms are naturals: field `1` = nested field `c`, `2` = keyword `a`, `3` = child `r`) -/

def leafA : Leaf Nat := { name := 2, kind := .keyword, stored := true, indexed := true, fast := true, nullable := true }
def nestedC : Nested Nat := .mk 1 true (.cons (.leaf leafA) .nil)

/-- `c: [null, {a: 5}]` -/
def valNullThenObj : J Nat := .arr (.cons .null (.cons (.obj (.cons 2 (.str 5) .nil)) .nil))

/-- non-vacuity of the partial theorem: `c: [{a: 5}, {a: 6}]` keeps all its elements -/
example : keepsAll nestedC.props (.cons (.obj (.cons 2 (.str 5) .nil)) (.cons (.obj (.cons 2 (.str 6) .nil)) .nil)) = true := by
  decide

/-- the stored projection drops the null element: two objects before, one after re-ingestion -/
theorem stored_changes_object_count_witness :
    nestedCount valNullThenObj = 2 ∧ (storedNested nestedC valNullThenObj).map nestedCount = some 1 := by
  decide

/-- negative witness for "compaction never changes which documents a filter matches":
`Nested{c, Not(a = 5)}` matches `c: [null, {a: 5}]` (the null element is an object without values)
and does not match its stored form `c: [{a: 5}]` -/
theorem nested_not_filter_flips_witness :
    nestedPasses nestedC (.not (.kwEq 2 5)) valNullThenObj = true ∧
    (storedNested nestedC valNullThenObj).map (nestedPasses nestedC (.not (.kwEq 2 5))) = some false := by
  decide

/-- schema with a *required* (non-nullable) child object `r` under `c` -/
def nestedCReq : Nested Nat :=
  .mk 1 true (.cons (.leaf leafA) (.cons (.object (.mk 3 false (.cons (.leaf { leafA with name := 4 }) .nil))) .nil))
def schemaReq : Schema Nat := { idField := 0, flat := [], nested := [nestedCReq] }
/-- `{_id: 9, c: [{a: 5, r: []}]}` -/
def docEmptyChild : J Nat :=
  .obj (.cons 0 (.str 9) (.cons 1 (.arr (.cons (.obj (.cons 2 (.str 5) (.cons 3 (.arr .nil) .nil))) .nil)) .nil))

/-- negative witness for finding 2: the schema is compact-safe, the document is accepted, its stored
form (the empty child array is dropped) is not ingestible any more -/
theorem accepted_document_not_reingestable_witness :
    compactSafe schemaReq = true ∧ ingestOk schemaReq docEmptyChild = true ∧
    ingestOk schemaReq (project schemaReq docEmptyChild) = false := by
  decide

/-- `compactSafe` looks at the properties of nested objects at every depth
(`schema.resolved_fields()` contains the nested paths): a compact-safe property list has only
safe leaves … -/
theorem compact_safe_covers_nested_leaves (props : NProps σ) (x : σ) (l : Leaf σ)
    (hs : propsSafe props = true) (hx : props.find x = some (.leaf l)) : l.safe = true :=
  find_leaf_safe props x l hs hx

/-- … so a fast-only numeric property of a nested object, and an indexed unstored keyword of a
nested-in-nested object, make the schema unsafe (compaction refuses) -/
example : compactSafe ({ idField := 0, flat := [], nested :=
    [.mk 1 true (.cons (.leaf leafA)
      (.cons (.leaf { name := 7, kind := .i64, stored := false, indexed := false, fast := true, nullable := true }) .nil))] }
    : Schema Nat) = false := by decide

example : compactSafe ({ idField := 0, flat := [], nested :=
    [.mk 1 true (.cons (.leaf leafA)
      (.cons (.object (.mk 3 true (.cons (.leaf { leafA with name := 4, stored := false }) .nil))) .nil))] }
    : Schema Nat) = false := by decide

example : compactSafe schemaReq = true := by decide

/-- non-vacuity of `compact_ok_partial` / `compact_contents`: two segments, one tombstone -/
example :
    (compact cfgId (run cfgId false
      [.newWriter 0, .add 0 1 10 9, .commit 0, .add 0 2 20 9, .del 0 1 7, .commit 0] : St Nat Nat)).2 = .ok := by
  decide

/-- non-vacuity of `compact_refuses` -/
example :
    (compact { cfgId with safe := false } (run cfgId false
      [.newWriter 0, .add 0 1 10 9, .commit 0, .add 0 2 20 9, .commit 0] : St Nat Nat)).2 = .refused := by
  decide

end SL.C14
