import SLModel.Core.DocValidate
import SLModel.Core.DocValidateLegacy
import SLModel.Core.FastCol
/-!
# C15 — every accepted document can be committed

Model: `Core/DocValidate` — the code after the repairs 37df93e / 919e2f9 / 6d0f8bf (add-time
validation as strict as collection) and 8c4f4e4 (`ensure_storable`: the stored projection is
checked against the docstore cap when the document is queued).  `validateDoc` =
`Schema::validate_document`, `validateAdd` = `IndexWriter::add_document` accepts, `collectOk` =
what `write_segment_stream` needs for one document.  Tie to the code: `Drv/C15` runs the same
definitions; the harness compares them with the real `add_document` / `commit` results.

The property now holds in full:

* `accepted_commits` — `validateAdd = true → collectOk = true`, for every schema, JSON document,
  size function and cap (`accepted_iff_commits`: add time accepts exactly what commit needs);
* `accepted_conforms` / `accepted_iff_conforms` — add time accepts exactly the documents that obey
  the schema as documented and whose stored form fits the cap;
* `violations_rejected_*`, `nestedValid_*`, `rejected_of_invalid`, `violations_rejected_oversize` —
  the documented classes of violations are rejected when the document is queued;
* `validated_collects` — `validate_document` alone already implies every content check of
  `collect_document` (so `ensure_storable` can only fail on the size);
* `colset_total`, `colrun_total`, `colset_get` — commit-time state shared ACROSS the documents of
  one commit: the fast-field column builder (`Core/FastCol`, `FastFieldsWriter::set`) accepts
  every sequence of single- and multi-valued documents of the field's type (promotion single →
  list is total, later single values are stored as one-element lists) and keeps each document's
  values; `seeded_colset_fails` is the kernel-checked witness of the seeded variant panicking;
* `legacy_*` — kernel-checked witnesses of the four original defects (validation before the
  repairs accepted documents that could not be committed / violated the schema) and of their
  rejection by the repaired code.
-/
set_option linter.unusedSectionVars false
set_option linter.unusedSimpArgs false
set_option linter.unusedVariables false
namespace SL.Doc

variable {σ : Type} [DecidableEq σ]

/-! ## entries of objects and arrays as lists (statement vocabulary) -/

def JO.toList : JO σ → List (σ × J σ)
  | .nil => []
  | .cons k v t => (k, v) :: JO.toList t

def NProps.toList : NProps σ → List (NProp σ)
  | .nil => []
  | .cons p t => p :: NProps.toList t

/-- a JSON scalar other than null -/
def J.isScalar : J σ → Bool
  | .bool _ | .num _ _ | .str _ => true
  | _ => false

/-! ## inversion lemmas for add-time validation -/

theorem fieldsValid_mem {s : Schema σ} : ∀ {kv : JO σ} {k : σ} {v : J σ},
    fieldsValid s kv = true → (k, v) ∈ kv.toList →
    (match s.findNested k with
     | some n => nestedValid n v
     | none => match s.findFlat k with
       | some l => flatOk l v
       | none => decide (k = s.idField)) = true
  | .nil, _, _, _, hm => by simp [JO.toList] at hm
  | .cons k' v' t, k, v, h, hm => by
    simp only [fieldsValid, Bool.and_eq_true] at h
    simp only [JO.toList, List.mem_cons, Prod.mk.injEq] at hm
    rcases hm with ⟨rfl, rfl⟩ | hm
    · exact h.1
    · exact fieldsValid_mem h.2 hm

theorem elemsValid_mem {n : Nested σ} : ∀ {a : JL σ} {e : J σ},
    elemsValid n a = true → e ∈ a.toList → e.isArr = false ∧ nestedValid n e = true
  | .nil, _, _, hm => by simp [JL.toList] at hm
  | .cons h t, e, hv, hm => by
    simp only [elemsValid, Bool.and_eq_true, Bool.not_eq_true'] at hv
    simp only [JL.toList, List.mem_cons] at hm
    rcases hm with rfl | hm
    · exact hv.1
    · exact elemsValid_mem hv.2 hm

theorem entriesValid_mem {props : NProps σ} : ∀ {kv : JO σ} {k : σ} {v : J σ},
    entriesValid props kv = true → (k, v) ∈ kv.toList →
    (match props.find k with
     | some (.leaf l) => flatOk l v
     | some (.object child) => if v.isNull then child.nullable else nestedValid child v
     | none => false) = true
  | .nil, _, _, _, hm => by simp [JO.toList] at hm
  | .cons k' v' t, k, v, h, hm => by
    simp only [entriesValid, Bool.and_eq_true] at h
    simp only [JO.toList, List.mem_cons, Prod.mk.injEq] at hm
    rcases hm with ⟨rfl, rfl⟩ | hm
    · exact h.1
    · exact entriesValid_mem h.2 hm

theorem requiredPresent_mem {kv : JO σ} : ∀ {props : NProps σ} {p : NProp σ},
    requiredPresent kv props = true → p ∈ props.toList →
    (kv.hasKey p.name || p.nullable) = true
  | .nil, _, _, hm => by simp [NProps.toList] at hm
  | .cons q t, p, h, hm => by
    simp only [requiredPresent, Bool.and_eq_true] at h
    simp only [NProps.toList, List.mem_cons] at hm
    rcases hm with rfl | hm
    · exact h.1
    · exact requiredPresent_mem h.2 hm

/-! ## `violations_rejected` — the documented classes are refused at add time -/

/-- not a JSON object -/
theorem violations_rejected_not_object (blank : σ → Bool) (s : Schema σ) (d : J σ)
    (h : ∀ kv, d ≠ .obj kv) : validateDoc blank s d = false := by
  cases d with
  | obj kv => exact absurd rfl (h kv)
  | _ => rfl

/-- missing id -/
theorem violations_rejected_missing_id (blank : σ → Bool) (s : Schema σ) (kv : JO σ)
    (h : kv.get s.idField = none) : validateDoc blank s (.obj kv) = false := by
  simp [validateDoc, idOk, h]

/-- blank id -/
theorem violations_rejected_blank_id (blank : σ → Bool) (s : Schema σ) (kv : JO σ) (x : σ)
    (h : kv.get s.idField = some (.str x)) (hb : blank x = true) :
    validateDoc blank s (.obj kv) = false := by
  simp [validateDoc, idOk, h, hb]

/-- id that is not a string -/
theorem violations_rejected_id_not_string (blank : σ → Bool) (s : Schema σ) (kv : JO σ) (v : J σ)
    (h : kv.get s.idField = some v) (hs : v.isStr = false) :
    validateDoc blank s (.obj kv) = false := by
  cases v <;> simp_all [validateDoc, idOk, J.isStr]

/-- wrong value type (or null where not nullable) in a top-level field -/
theorem violations_rejected_flat_type (blank : σ → Bool) (s : Schema σ) (kv : JO σ) (k : σ)
    (v : J σ) (l : Leaf σ) (hm : (k, v) ∈ kv.toList) (hn : s.findNested k = none)
    (hf : s.findFlat k = some l) (hbad : flatOk l v = false) :
    validateDoc blank s (.obj kv) = false := by
  cases hv : validateDoc blank s (.obj kv) with
  | false => rfl
  | true =>
    simp only [validateDoc, Bool.and_eq_true] at hv
    have := fieldsValid_mem hv.2 hm
    simp [hn, hf, hbad] at this

/-- any violation inside the value of a nested field -/
theorem violations_rejected_nested (blank : σ → Bool) (s : Schema σ) (kv : JO σ) (k : σ)
    (v : J σ) (n : Nested σ) (hm : (k, v) ∈ kv.toList) (hn : s.findNested k = some n)
    (hbad : nestedValid n v = false) : validateDoc blank s (.obj kv) = false := by
  cases hv : validateDoc blank s (.obj kv) with
  | false => rfl
  | true =>
    simp only [validateDoc, Bool.and_eq_true] at hv
    have := fieldsValid_mem hv.2 hm
    simp [hn, hbad] at this

/-- a top-level name that is neither a nested field, nor a flat field, nor the id field -/
theorem violations_rejected_unknown_field (blank : σ → Bool) (s : Schema σ) (kv : JO σ) (k : σ)
    (v : J σ) (hm : (k, v) ∈ kv.toList) (hn : s.findNested k = none) (hf : s.findFlat k = none)
    (hid : k ≠ s.idField) : validateDoc blank s (.obj kv) = false := by
  cases hv : validateDoc blank s (.obj kv) with
  | false => rfl
  | true =>
    simp only [validateDoc, Bool.and_eq_true] at hv
    have := fieldsValid_mem hv.2 hm
    simp [hn, hf, hid] at this

/-- a nested value that is a scalar -/
theorem nestedValid_scalar (n : Nested σ) (v : J σ) (h : v.isScalar = true) :
    nestedValid n v = false := by
  cases v <;> simp_all [J.isScalar, nestedValid]

/-- a nested array with a scalar element -/
theorem nestedValid_scalar_elem (n : Nested σ) (a : JL σ) (e : J σ) (he : e ∈ a.toList)
    (h : e.isScalar = true) : nestedValid n (.arr a) = false := by
  cases hv : nestedValid n (.arr a) with
  | false => rfl
  | true =>
    simp only [nestedValid] at hv
    have := (elemsValid_mem hv he).2
    rw [nestedValid_scalar n e h] at this
    exact absurd this (by simp)

/-- a nested array with a null element where the field is not nullable -/
theorem nestedValid_null_elem (n : Nested σ) (a : JL σ) (he : J.null ∈ a.toList)
    (h : n.nullable = false) : nestedValid n (.arr a) = false := by
  cases hv : nestedValid n (.arr a) with
  | false => rfl
  | true =>
    simp only [nestedValid] at hv
    have := (elemsValid_mem hv he).2
    simp [nestedValid, h] at this

/-- an object that lacks a non-nullable property -/
theorem nestedValid_missing_required (n : Nested σ) (o : JO σ) (p : NProp σ)
    (hp : p ∈ n.props.toList) (hreq : p.nullable = false) (hmiss : o.hasKey p.name = false) :
    nestedValid n (.obj o) = false := by
  cases hv : nestedValid n (.obj o) with
  | false => rfl
  | true =>
    simp only [nestedValid, Bool.and_eq_true] at hv
    have := requiredPresent_mem hv.2 hp
    simp [hreq, hmiss] at this

/-- an object with a property the schema does not know -/
theorem nestedValid_unknown_property (n : Nested σ) (o : JO σ) (k : σ) (v : J σ)
    (hm : (k, v) ∈ o.toList) (hu : n.props.find k = none) : nestedValid n (.obj o) = false := by
  cases hv : nestedValid n (.obj o) with
  | false => rfl
  | true =>
    simp only [nestedValid, Bool.and_eq_true] at hv
    have := entriesValid_mem hv.1 hm
    simp [hu] at this

/-- an object with an ill-typed leaf property: null where not nullable, a scalar of another type
(a non-integer in an i64 property included), an object, or an array with such an element -/
theorem nestedValid_leaf_type (n : Nested σ) (o : JO σ) (k : σ) (v : J σ) (l : Leaf σ)
    (hm : (k, v) ∈ o.toList) (hl : n.props.find k = some (.leaf l))
    (hbad : flatOk l v = false) : nestedValid n (.obj o) = false := by
  cases hv : nestedValid n (.obj o) with
  | false => rfl
  | true =>
    simp only [nestedValid, Bool.and_eq_true] at hv
    have := entriesValid_mem hv.1 hm
    simp [hl, hbad] at this

/-- an object whose child object property is invalid (recursively any of the above) -/
theorem nestedValid_child (n child : Nested σ) (o : JO σ) (k : σ) (v : J σ)
    (hm : (k, v) ∈ o.toList) (hc : n.props.find k = some (.object child))
    (hbad : (if v.isNull then child.nullable else nestedValid child v) = false) :
    nestedValid n (.obj o) = false := by
  cases hv : nestedValid n (.obj o) with
  | false => rfl
  | true =>
    simp only [nestedValid, Bool.and_eq_true] at hv
    have := entriesValid_mem hv.1 hm
    simp [hc, hbad] at this

/-- an invalid element makes the whole array invalid (lifts the object lemmas to arrays of
parents) -/
theorem nestedValid_elem (n : Nested σ) (a : JL σ) (e : J σ) (he : e ∈ a.toList)
    (hbad : nestedValid n e = false) : nestedValid n (.arr a) = false := by
  cases hv : nestedValid n (.arr a) with
  | false => rfl
  | true =>
    simp only [nestedValid] at hv
    have := (elemsValid_mem hv he).2
    rw [hbad] at this
    exact absurd this (by simp)

/-- a nested array with an element that is itself an array -/
theorem nestedValid_array_elem (n : Nested σ) (a : JL σ) (e : J σ) (he : e ∈ a.toList)
    (h : e.isArr = true) : nestedValid n (.arr a) = false := by
  cases hv : nestedValid n (.arr a) with
  | false => rfl
  | true =>
    simp only [nestedValid] at hv
    have := (elemsValid_mem hv he).1
    rw [h] at this
    exact absurd this (by simp)

/-! ## accepted ⇒ collectable (no side condition any more) -/

mutual
theorem collectNested_of_valid : ∀ (n : Nested σ) (v : J σ),
    nestedValid n v = true → collectNested n v = true
  | n, .null, h => by simpa [nestedValid, collectNested] using h
  | n, .arr a, h => by
    simp only [nestedValid] at h
    simp only [collectNested]
    exact collectElems_of_valid n a h
  | n, .obj kv, h => by
    simp only [nestedValid, Bool.and_eq_true] at h
    simp only [collectNested, Bool.and_eq_true]
    exact ⟨collectEntries_of_valid n.props kv h.1, h.2⟩
  | _, .bool _, h => by simp [nestedValid] at h
  | _, .num _ _, h => by simp [nestedValid] at h
  | _, .str _, h => by simp [nestedValid] at h
theorem collectElems_of_valid : ∀ (n : Nested σ) (a : JL σ),
    elemsValid n a = true → collectElems n a = true
  | _, .nil, _ => by simp [collectElems]
  | n, .cons e t, h => by
    simp only [elemsValid, Bool.and_eq_true, Bool.not_eq_true'] at h
    have ih := collectElems_of_valid n t h.2
    cases e with
    | null =>
      simp only [collectElems, Bool.and_eq_true]
      exact ⟨by simpa [nestedValid] using h.1.2, ih⟩
    | obj kv =>
      have h1 := h.1.2
      simp only [nestedValid, Bool.and_eq_true] at h1
      simp only [collectElems, Bool.and_eq_true]
      exact ⟨⟨collectEntries_of_valid n.props kv h1.1, h1.2⟩, ih⟩
    | arr a => simp [J.isArr] at h
    | bool b => simp [nestedValid] at h
    | num m x => simp [nestedValid] at h
    | str x => simp [nestedValid] at h
theorem collectEntries_of_valid : ∀ (props : NProps σ) (kv : JO σ),
    entriesValid props kv = true → collectEntries props kv = true
  | _, .nil, _ => by simp [collectEntries]
  | props, .cons k v t, h => by
    simp only [entriesValid, Bool.and_eq_true] at h
    simp only [collectEntries, Bool.and_eq_true]
    refine ⟨?_, collectEntries_of_valid props t h.2⟩
    have h1 := h.1
    cases hf : props.find k with
    | none => simp [hf] at h1
    | some p =>
      cases p with
      | leaf l => rfl
      | object child =>
        simp only [hf] at h1 ⊢
        cases hn : v.isNull with
        | true => simpa [hn] using h1
        | false =>
          simp only [hn] at h1 ⊢
          exact collectNested_of_valid child v (by simpa using h1)
end

theorem collectFields_of_valid (s : Schema σ) : ∀ (kv : JO σ),
    fieldsValid s kv = true → collectFields s kv = true
  | .nil, _ => by simp [collectFields]
  | .cons k v t, h => by
    simp only [fieldsValid, Bool.and_eq_true] at h
    simp only [collectFields, Bool.and_eq_true]
    refine ⟨?_, collectFields_of_valid s t h.2⟩
    by_cases hk : k = s.idField
    · simp [hk]
    · simp only [hk, if_false]
      cases hf : s.findFlat k with
      | some l => rfl
      | none =>
        have h1 := h.1
        cases hn : s.findNested k with
        | none => simp [hk, hf, hn] at h1
        | some n =>
          simp only [hn] at h1 ⊢
          cases hnull : v.isNull with
          | true => cases v <;> simp_all [J.isNull, nestedValid]
          | false =>
            simp only [Bool.false_eq_true, if_false]
            exact collectNested_of_valid n v h1

/-- **C15, content part, full**: a document accepted by `add_document` passes every check of
`collect_document` / `collect_nested` / `collect_nested_object` — for every schema and every JSON
document.  (Before the repairs this needed "no unknown top-level name, no array in a nested
array".) -/
theorem validated_collects (blank : σ → Bool) (s : Schema σ) (d : J σ)
    (h : validateDoc blank s d = true) : collectDoc s d = true := by
  cases d with
  | obj kv =>
    simp only [validateDoc, Bool.and_eq_true] at h
    exact collectFields_of_valid s kv h.2
  | null => simp [validateDoc] at h
  | bool b => simp [validateDoc] at h
  | num m e => simp [validateDoc] at h
  | str x => simp [validateDoc] at h
  | arr a => simp [validateDoc] at h

/-- **C15, proved part**: an accepted document passes everything `commit` needs, provided its
stored projection fits the docstore cap (the one condition add time still does not check). -/
theorem validated_commits_partial (blank : σ → Bool) (size : J σ → Nat) (cap : Nat)
    (s : Schema σ) (d : J σ) (h : validateDoc blank s d = true)
    (hsz : size (project s d) ≤ cap) : collectOk blank size cap s d = true := by
  simp [collectOk, h, validated_collects blank s d h, hsz]

/-- the cap is the only way an accepted document can fail to commit -/
theorem validated_commit_fails_iff (blank : σ → Bool) (size : J σ → Nat) (cap : Nat)
    (s : Schema σ) (d : J σ) (h : validateDoc blank s d = true) :
    collectOk blank size cap s d = false ↔ cap < size (project s d) := by
  simp [collectOk, h, validated_collects blank s d h, Nat.not_le]

/-! ## accepted ⇔ conforming -/

mutual
theorem nestedValid_of_strict : ∀ (n : Nested σ) (v : J σ),
    nestedStrict n v = true → nestedValid n v = true
  | n, .arr a, h => by
    simp only [nestedStrict] at h
    simp only [nestedValid]
    exact elemsValid_of_strict n a h
  | n, .obj kv, h => by
    simp only [nestedStrict, Bool.and_eq_true] at h
    simp only [nestedValid, Bool.and_eq_true]
    exact ⟨entriesValid_of_strict n.props kv h.1, h.2⟩
  | _, .null, h => by simp [nestedStrict] at h
  | _, .bool _, h => by simp [nestedStrict] at h
  | _, .num _ _, h => by simp [nestedStrict] at h
  | _, .str _, h => by simp [nestedStrict] at h
theorem elemsValid_of_strict : ∀ (n : Nested σ) (a : JL σ),
    elemsStrict n a = true → elemsValid n a = true
  | _, .nil, _ => by simp [elemsValid]
  | n, .cons e t, h => by
    simp only [elemsValid, Bool.and_eq_true, Bool.not_eq_true']
    cases e with
    | null =>
      simp only [elemsStrict, Bool.and_eq_true] at h
      exact ⟨⟨rfl, by simpa [nestedValid] using h.1⟩, elemsValid_of_strict n t h.2⟩
    | obj kv =>
      simp only [elemsStrict, Bool.and_eq_true] at h
      simp only [nestedValid, Bool.and_eq_true]
      exact ⟨⟨rfl, entriesValid_of_strict n.props kv h.1.1, h.1.2⟩,
        elemsValid_of_strict n t h.2⟩
    | arr a => simp [elemsStrict] at h
    | bool b => simp [elemsStrict] at h
    | num m x => simp [elemsStrict] at h
    | str x => simp [elemsStrict] at h
theorem entriesValid_of_strict : ∀ (props : NProps σ) (kv : JO σ),
    entriesStrict props kv = true → entriesValid props kv = true
  | _, .nil, _ => by simp [entriesValid]
  | props, .cons k v t, h => by
    simp only [entriesStrict, Bool.and_eq_true] at h
    simp only [entriesValid, Bool.and_eq_true]
    refine ⟨?_, entriesValid_of_strict props t h.2⟩
    have h1 := h.1
    cases hf : props.find k with
    | none => simp [hf] at h1
    | some p =>
      cases p with
      | leaf l => simpa [hf, leafStrict] using h1
      | object child =>
        simp only [hf] at h1 ⊢
        cases hn : v.isNull with
        | true => simpa [hn] using h1
        | false =>
          simp only [hn] at h1 ⊢
          exact nestedValid_of_strict child v (by simpa using h1)
end

mutual
theorem nestedStrict_of_valid : ∀ (n : Nested σ) (v : J σ), v.isNull = false →
    nestedValid n v = true → nestedStrict n v = true
  | n, .arr a, _, h => by
    simp only [nestedValid] at h
    simp only [nestedStrict]
    exact elemsStrict_of_valid n a h
  | n, .obj kv, _, h => by
    simp only [nestedValid, Bool.and_eq_true] at h
    simp only [nestedStrict, Bool.and_eq_true]
    exact ⟨entriesStrict_of_valid n.props kv h.1, h.2⟩
  | _, .null, hn, _ => by simp [J.isNull] at hn
  | _, .bool _, _, h => by simp [nestedValid] at h
  | _, .num _ _, _, h => by simp [nestedValid] at h
  | _, .str _, _, h => by simp [nestedValid] at h
theorem elemsStrict_of_valid : ∀ (n : Nested σ) (a : JL σ),
    elemsValid n a = true → elemsStrict n a = true
  | _, .nil, _ => by simp [elemsStrict]
  | n, .cons e t, h => by
    simp only [elemsValid, Bool.and_eq_true, Bool.not_eq_true'] at h
    have ih := elemsStrict_of_valid n t h.2
    cases e with
    | null =>
      simp only [elemsStrict, Bool.and_eq_true]
      exact ⟨by simpa [nestedValid] using h.1.2, ih⟩
    | obj kv =>
      have h1 := h.1.2
      simp only [nestedValid, Bool.and_eq_true] at h1
      simp only [elemsStrict, Bool.and_eq_true]
      exact ⟨⟨entriesStrict_of_valid n.props kv h1.1, h1.2⟩, ih⟩
    | arr a => simp [J.isArr] at h
    | bool b => simp [nestedValid] at h
    | num m x => simp [nestedValid] at h
    | str x => simp [nestedValid] at h
theorem entriesStrict_of_valid : ∀ (props : NProps σ) (kv : JO σ),
    entriesValid props kv = true → entriesStrict props kv = true
  | _, .nil, _ => by simp [entriesStrict]
  | props, .cons k v t, h => by
    simp only [entriesValid, Bool.and_eq_true] at h
    simp only [entriesStrict, Bool.and_eq_true]
    refine ⟨?_, entriesStrict_of_valid props t h.2⟩
    have h1 := h.1
    cases hf : props.find k with
    | none => simp [hf] at h1
    | some p =>
      cases p with
      | leaf l => simpa [hf, leafStrict] using h1
      | object child =>
        simp only [hf] at h1 ⊢
        cases hn : v.isNull with
        | true => simpa [hn] using h1
        | false =>
          simp only [hn] at h1 ⊢
          exact nestedStrict_of_valid child v hn (by simpa using h1)
end

theorem fieldsValid_of_strict (s : Schema σ) (hid : idNotNested s = true) : ∀ (kv : JO σ),
    fieldsStrict s kv = true → fieldsValid s kv = true
  | .nil, _ => by simp [fieldsValid]
  | .cons k v t, h => by
    simp only [fieldsStrict, Bool.and_eq_true] at h
    have ih := fieldsValid_of_strict s hid t h.2
    simp only [idNotNested, Bool.and_eq_true, Option.isNone_iff_eq_none] at hid
    simp only [fieldsValid, Bool.and_eq_true]
    refine ⟨?_, ih⟩
    by_cases hk : k = s.idField
    · subst hk; simp [hid.1, hid.2]
    · have h1 := h.1
      simp only [hk, if_false] at h1
      cases hn : s.findNested k with
      | some n =>
        simp only [hn] at h1 ⊢
        cases hnull : v.isNull with
        | true => cases v <;> simp_all [J.isNull, nestedValid]
        | false =>
          simp only [hnull, Bool.false_eq_true, if_false] at h1
          exact nestedValid_of_strict n v h1
      | none =>
        simp only [hn] at h1 ⊢
        cases hf : s.findFlat k with
        | some l => simpa [hf, leafStrict] using h1
        | none => simp [hf] at h1

theorem fieldsStrict_of_valid (s : Schema σ) : ∀ (kv : JO σ),
    fieldsValid s kv = true → fieldsStrict s kv = true
  | .nil, _ => by simp [fieldsStrict]
  | .cons k v t, h => by
    simp only [fieldsValid, Bool.and_eq_true] at h
    simp only [fieldsStrict, Bool.and_eq_true]
    refine ⟨?_, fieldsStrict_of_valid s t h.2⟩
    by_cases hk : k = s.idField
    · simp [hk]
    · simp only [hk, if_false]
      have h1 := h.1
      cases hn : s.findNested k with
      | some n =>
        simp only [hn] at h1 ⊢
        cases hnull : v.isNull with
        | true => cases v <;> simp_all [J.isNull, nestedValid]
        | false =>
          simp only [Bool.false_eq_true, if_false]
          exact nestedStrict_of_valid n v hnull h1
      | none =>
        simp only [hn] at h1 ⊢
        cases hf : s.findFlat k with
        | some l => simpa [hf, leafStrict] using h1
        | none => simp [hk, hf] at h1

/-- **every accepted document obeys the schema as documented** — for every schema and JSON
document, no exceptions left (was `accepted_conforms_partial` with three excluded classes) -/
theorem validated_conforms (blank : σ → Bool) (s : Schema σ) (d : J σ)
    (h : validateDoc blank s d = true) : conforms blank s d = true := by
  cases d with
  | obj kv =>
    simp only [validateDoc, Bool.and_eq_true] at h
    simp only [conforms, Bool.and_eq_true]
    exact ⟨h.1, fieldsStrict_of_valid s kv h.2⟩
  | null => simp [validateDoc] at h
  | bool b => simp [validateDoc] at h
  | num m e => simp [validateDoc] at h
  | str x => simp [validateDoc] at h
  | arr a => simp [validateDoc] at h

/-- a document that obeys the schema as documented is accepted by `add_document` … -/
theorem conforms_validated (blank : σ → Bool) (s : Schema σ) (d : J σ)
    (hid : idNotNested s = true) (h : conforms blank s d = true) :
    validateDoc blank s d = true := by
  cases d with
  | obj kv =>
    simp only [conforms, Bool.and_eq_true] at h
    simp only [validateDoc, Bool.and_eq_true]
    exact ⟨h.1, fieldsValid_of_strict s hid kv h.2⟩
  | null => simp [conforms] at h
  | bool b => simp [conforms] at h
  | num m e => simp [conforms] at h
  | str x => simp [conforms] at h
  | arr a => simp [conforms] at h

/-- add-time validation accepts exactly the conforming documents -/
theorem validated_iff_conforms (blank : σ → Bool) (s : Schema σ) (d : J σ)
    (hid : idNotNested s = true) : validateDoc blank s d = conforms blank s d := by
  cases hc : conforms blank s d with
  | true => exact conforms_validated blank s d hid hc
  | false =>
    cases hv : validateDoc blank s d with
    | false => rfl
    | true => rw [validated_conforms blank s d hv] at hc; exact absurd hc (by simp)

/-- … and can be committed (if its stored form fits the docstore cap) -/
theorem conforms_commits_of_size (blank : σ → Bool) (size : J σ → Nat) (cap : Nat) (s : Schema σ)
    (d : J σ) (hid : idNotNested s = true) (h : conforms blank s d = true)
    (hsz : size (project s d) ≤ cap) : collectOk blank size cap s d = true :=
  validated_commits_partial blank size cap s d (conforms_validated blank s d hid h) hsz

/-! ## `add_document` (validate_document + ensure_storable) -/

/-- whatever `validate_document` refuses, `add_document` refuses -/
theorem rejected_of_invalid (blank : σ → Bool) (size : J σ → Nat) (cap : Nat) (s : Schema σ)
    (d : J σ) (h : validateDoc blank s d = false) : validateAdd blank size cap s d = false := by
  simp [validateAdd, h]

/-- a document whose stored form exceeds the docstore cap is refused when it is queued -/
theorem violations_rejected_oversize (blank : σ → Bool) (size : J σ → Nat) (cap : Nat)
    (s : Schema σ) (d : J σ) (h : cap < size (project s d)) :
    validateAdd blank size cap s d = false := by
  simp [validateAdd, storable, Nat.not_le.mpr h]

/-- **C15, full statement**: every document accepted by `add_document` passes everything `commit`
needs — content checks and the docstore cap — for every schema, document, size function and cap -/
theorem accepted_commits (blank : σ → Bool) (size : J σ → Nat) (cap : Nat) (s : Schema σ)
    (d : J σ) (h : validateAdd blank size cap s d = true) :
    collectOk blank size cap s d = true := by
  simp only [validateAdd, storable, Bool.and_eq_true] at h
  simp [collectOk, h.1, h.2.1, h.2.2]

/-- add time accepts exactly what commit needs -/
theorem accepted_iff_commits (blank : σ → Bool) (size : J σ → Nat) (cap : Nat) (s : Schema σ)
    (d : J σ) : validateAdd blank size cap s d = collectOk blank size cap s d := by
  simp [validateAdd, storable, collectOk, Bool.and_assoc]

/-- `ensure_storable` can only fail on the size: the content checks of `collect_document` are
implied by `validate_document` -/
theorem accepted_iff_valid_and_fits (blank : σ → Bool) (size : J σ → Nat) (cap : Nat)
    (s : Schema σ) (d : J σ) :
    validateAdd blank size cap s d = (validateDoc blank s d && decide (size (project s d) ≤ cap)) := by
  cases hv : validateDoc blank s d with
  | false => simp [validateAdd, hv]
  | true => simp [validateAdd, storable, hv, validated_collects blank s d hv]

/-- every accepted document obeys the schema as documented -/
theorem accepted_conforms (blank : σ → Bool) (size : J σ → Nat) (cap : Nat) (s : Schema σ)
    (d : J σ) (h : validateAdd blank size cap s d = true) : conforms blank s d = true := by
  simp only [validateAdd, Bool.and_eq_true] at h
  exact validated_conforms blank s d h.1

/-- a conforming document whose stored form fits the cap is accepted -/
theorem conforms_accepted (blank : σ → Bool) (size : J σ → Nat) (cap : Nat) (s : Schema σ)
    (d : J σ) (hid : idNotNested s = true) (h : conforms blank s d = true)
    (hsz : size (project s d) ≤ cap) : validateAdd blank size cap s d = true := by
  rw [accepted_iff_valid_and_fits]
  simp [conforms_validated blank s d hid h, hsz]

/-- add time accepts exactly the conforming documents that fit the cap -/
theorem accepted_iff_conforms (blank : σ → Bool) (size : J σ → Nat) (cap : Nat) (s : Schema σ)
    (d : J σ) (hid : idNotNested s = true) :
    validateAdd blank size cap s d = (conforms blank s d && decide (size (project s d) ≤ cap)) := by
  rw [accepted_iff_valid_and_fits, validated_iff_conforms blank s d hid]

/-- … and such a document can be committed -/
theorem conforms_commits (blank : σ → Bool) (size : J σ → Nat) (cap : Nat) (s : Schema σ)
    (d : J σ) (hid : idNotNested s = true) (h : conforms blank s d = true)
    (hsz : size (project s d) ≤ cap) : collectOk blank size cap s d = true :=
  accepted_commits blank size cap s d (conforms_accepted blank size cap s d hid h hsz)

/-! ## witnesses (atoms are `Nat`; `0` = id field) -/

/-- schema: id `0`, text field `1`, nested field `2` with a keyword property `3` -/
def wSchema : Schema Nat :=
  { idField := 0,
    flat := [⟨1, .text, true, true, false, false⟩],
    nested := [.mk 2 false (.cons (.leaf ⟨3, .keyword, true, true, true, true⟩) .nil)] }

/-- `{"_id":"7","body":"8","zzz":"9"}` -/
def wUnknown : J Nat :=
  .obj (.cons 0 (.str 7) (.cons 1 (.str 8) (.cons 9 (.str 9) .nil)))

/-- `{"_id":"7","c":[[{"a":"5"}]]}` -/
def wArrArr : J Nat :=
  .obj (.cons 0 (.str 7) (.cons 2 (.arr (.cons (.arr (.cons (.obj (.cons 3 (.str 5) .nil)) .nil))
    .nil)) .nil))

/-- `{"_id":"7","body":"8"}` -/
def wPlain : J Nat := .obj (.cons 0 (.str 7) (.cons 1 (.str 8) .nil))

/-- `{"_id":"7","c":{"a":[1,2]}}` — numbers in a nested keyword -/
def wLeafArr : J Nat :=
  .obj (.cons 0 (.str 7) (.cons 2 (.obj (.cons 3 (.arr (.cons (.num 1 0) (.cons (.num 2 0) .nil)))
    .nil)) .nil))

/-- before 8c4f4e4: `add_document` was `validate_document` alone — a document whose stored
projection exceeds the cap was accepted and could not be committed; the repaired `add_document`
rejects it -/
theorem legacy_accepted_commits_false_docstore_cap :
    validateDoc (fun _ => false) wSchema wPlain = true ∧
    collectOk (fun _ => false) (fun _ => 5) 4 wSchema wPlain = false ∧
    validateAdd (fun _ => false) (fun _ => 5) 4 wSchema wPlain = false := by decide

/-- before 37df93e: an unknown top-level field was accepted and could not be committed; the
repaired validation rejects it -/
theorem legacy_accepted_commits_false_unknown_field :
    Legacy.validateAdd (fun _ => false) wSchema wUnknown = true ∧
    Legacy.collectOk (fun _ => false) (fun _ => 0) 0 wSchema wUnknown = false ∧
    validateAdd (fun _ => false) (fun _ => 0) 0 wSchema wUnknown = false := by decide

/-- before 919e2f9: an array directly inside a nested array was accepted and could not be
committed; the repaired validation rejects it -/
theorem legacy_accepted_commits_false_array_in_array :
    Legacy.validateAdd (fun _ => false) wSchema wArrArr = true ∧
    Legacy.collectOk (fun _ => false) (fun _ => 0) 0 wSchema wArrArr = false ∧
    validateAdd (fun _ => false) (fun _ => 0) 0 wSchema wArrArr = false := by decide

/-- before 6d0f8bf: the elements of an array value of a nested leaf were not looked at (accepted,
committed, values dropped); the repaired validation rejects the document -/
theorem legacy_nested_leaf_array_unchecked :
    Legacy.validateAdd (fun _ => false) wSchema wLeafArr = true ∧
    conforms (fun _ => false) wSchema wLeafArr = false ∧
    Legacy.collectOk (fun _ => false) (fun _ => 0) 0 wSchema wLeafArr = true ∧
    validateAdd (fun _ => false) (fun _ => 0) 0 wSchema wLeafArr = false := by decide

/-! ## non-vacuity -/

example : validateAdd (fun _ => false) (fun _ => 0) 0 wSchema wPlain = true ∧
    collectOk (fun _ => false) (fun _ => 0) 0 wSchema wPlain = true := by decide

example : conforms (fun _ => false) wSchema wPlain = true ∧ idNotNested wSchema = true := by decide

/-- a conforming document with a nested array of two parents is accepted -/
example : validateAdd (fun _ => false) (fun _ => 0) 0 wSchema
    (.obj (.cons 0 (.str 7) (.cons 2 (.arr (.cons (.obj (.cons 3 (.str 5) .nil))
      (.cons (.obj .nil) .nil))) .nil))) = true := by decide

/-- the rejection lemmas apply: a scalar inside a nested array -/
example : validateAdd (fun _ => false) (fun _ => 0) 0 wSchema
    (.obj (.cons 0 (.str 7) (.cons 2 (.arr (.cons (.str 4) .nil)) .nil))) = false := by decide

end SL.Doc

/-! ## commit-time state shared by the documents of one commit: the fast-field column builder -/

namespace SL.FastCol

variable {α : Type}

/-- a column (or no column yet) of type `ty` -/
def okFor (ty : Ty) : Option (Col α) → Prop
  | none => True
  | some c => c.ty = ty

/-- `set` never hits `type mismatch` on a column of the value's type, whatever the column's
shape and whatever the value's shape, and the column keeps its type -/
theorem colset_total (ty : Ty) (col : Option (Col α)) (idx : Nat) (v : FV α)
    (h : okFor ty col) : ∃ c, set ty col idx v = some c ∧ c.ty = ty := by
  cases col with
  | none => cases v <;> exact ⟨_, rfl, rfl⟩
  | some c =>
    cases c with
    | single t vals =>
      have ht : t = ty := h
      subst ht
      cases v <;> simp [set, Col.ty]
    | list t vals =>
      have ht : t = ty := h
      subst ht
      cases v <;> simp [set, Col.ty]

/-- every sequence of `set` calls with values of the field's type succeeds: single- and
multi-valued documents in any order, with gaps -/
theorem colrun_total (ty : Ty) : ∀ (calls : List (Nat × FV α)) (col : Option (Col α)),
    okFor ty col → ∃ c, run set ty col calls = some c ∧ okFor ty c
  | [], col, h => ⟨col, rfl, h⟩
  | (i, v) :: t, col, h => by
    obtain ⟨c, hc, hty⟩ := colset_total ty col i v h
    simp only [run, hc]
    exact colrun_total ty t (some c) hty

theorem getD_setAt {β : Type} (d : β) : ∀ (l : List β) (i : Nat) (x : β),
    (setAt d l i x).getD i d = x
  | [], 0, _ => rfl
  | [], i + 1, x => by simpa [setAt] using getD_setAt d [] i x
  | _ :: _, 0, _ => rfl
  | _ :: t, i + 1, x => by simpa [setAt] using getD_setAt d t i x

theorem getElem?_setAt {β : Type} (d : β) (l : List β) (i : Nat) (x : β) :
    (setAt d l i x)[i]?.getD d = x := by
  rw [← List.getD_eq_getElem?_getD]; exact getD_setAt d l i x

/-- after `set`, the column holds exactly the document's values -/
theorem colset_get (ty : Ty) (col : Option (Col α)) (idx : Nat) (v : FV α) (c : Col α)
    (h : set ty col idx v = some c) : c.get idx = v.toList := by
  cases col with
  | none =>
    cases v with
    | one x =>
      simp only [set, Option.some.injEq] at h
      subst h
      simp [Col.get, getElem?_setAt, FV.toList]
    | many xs =>
      simp only [set, Option.some.injEq] at h
      subst h
      simp [Col.get, getElem?_setAt, FV.toList]
  | some c0 =>
    cases c0 with
    | single t vals =>
      by_cases ht : t = ty
      · cases v with
        | one x =>
          simp only [set, ht, if_true, Option.some.injEq] at h
          subst h
          simp [Col.get, getElem?_setAt, FV.toList]
        | many xs =>
          simp only [set, ht, if_true, Option.some.injEq] at h
          subst h
          simp [Col.get, getElem?_setAt, FV.toList]
      · cases v <;> simp [set, ht] at h
    | list t vals =>
      by_cases ht : t = ty
      · cases v with
        | one x =>
          simp only [set, ht, if_true, Option.some.injEq] at h
          subst h
          simp [Col.get, getElem?_setAt, FV.toList]
        | many xs =>
          simp only [set, ht, if_true, Option.some.injEq] at h
          subst h
          simp [Col.get, getElem?_setAt, FV.toList]
      · cases v <;> simp [set, ht] at h

/-- the seeded change C15-b: document 0 has two f64 values, document 1 one — both accepted, the
commit panics; with the real arms the same calls succeed and keep both documents' values -/
theorem seeded_colset_fails :
    run setSeeded .f64 (none : Option (Col Nat)) [(0, .many [1, 2]), (1, .one 3)] = none ∧
    (∃ c, run set .f64 (none : Option (Col Nat)) [(0, .many [1, 2]), (1, .one 3)] = some (some c) ∧
      c.get 0 = [1, 2] ∧ c.get 1 = [3]) ∧
    -- the other order (single first, promoted by the second document) works in both variants
    (run setSeeded .f64 (none : Option (Col Nat)) [(0, .one 3), (1, .many [1, 2])]).isSome = true := by
  refine ⟨by decide, ⟨_, rfl, by decide, by decide⟩, by decide⟩

end SL.FastCol
