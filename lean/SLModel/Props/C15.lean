import SLModel.Core.DocValidate
/-!
# C15 — every accepted document can be committed

Model: `Core/DocValidate` (`validateAdd` = `Schema::validate_document` as called by
`IndexWriter::add_document`; `collectOk` = what `write_segment_stream` needs for one document).
Tie to the code: `Drv/C15` runs the same definitions; the harness compares them with the real
`add_document` / `commit` results on mutated documents.

The full statement

    theorem accepted_commits (h : validateAdd blank s d = true) :
        collectOk blank size cap s d = true

is **false** for the code as it exists: `accepted_commits_false_unknown_field`,
`accepted_commits_false_array_in_array`, `accepted_commits_false_docstore_cap` are kernel-checked
counterexamples (each replayed on the real code by `corpus/C15/*.json`).  What is proved:

* `accepted_commits_partial` — the statement under the decidable hypothesis `benign` (no unknown
  top-level name, no array directly inside a nested array, stored projection within the cap);
* `violations_rejected_*` — the documented classes of schema violations are rejected at add time;
* `conforms_accepted`, `conforms_commits` — a document that obeys the schema as documented is
  accepted and can be committed;
* `nested_leaf_array_unchecked` — negative witness for the second sentence of the property:
  a nested keyword holding an array of numbers is accepted (and silently loses the values);
* `accepted_conforms_partial` — the recorded classes are complete: an accepted document obeys the
  documented rules unless it has an unknown top-level name, an array inside a nested array or
  an untyped nested leaf value (`leavesTypedTop`).
-/
set_option linter.unusedSectionVars false
set_option linter.unusedSimpArgs false
set_option linter.unusedVariables false
namespace SL.Doc

variable {σ : Type} [DecidableEq σ]

/-! ## entries of objects and arrays as lists (statement vocabulary) -/

def JO.toList : JO σ → List (σ × J σ)
  | .nil => []
  | .cons k v t => (k, v) :: JO.toList t

def NProps.toList : NProps σ → List (NProp σ)
  | .nil => []
  | .cons p t => p :: NProps.toList t

/-- a JSON scalar other than null -/
def J.isScalar : J σ → Bool
  | .bool _ | .num _ _ | .str _ => true
  | _ => false

/-! ## inversion lemmas for add-time validation -/

theorem fieldsValid_mem {s : Schema σ} : ∀ {kv : JO σ} {k : σ} {v : J σ},
    fieldsValid s kv = true → (k, v) ∈ kv.toList →
    (match s.findNested k with
     | some n => nestedValid n v
     | none => match s.findFlat k with
       | some l => flatOk l v
       | none => true) = true
  | .nil, _, _, _, hm => by simp [JO.toList] at hm
  | .cons k' v' t, k, v, h, hm => by
    simp only [fieldsValid, Bool.and_eq_true] at h
    simp only [JO.toList, List.mem_cons, Prod.mk.injEq] at hm
    rcases hm with ⟨rfl, rfl⟩ | hm
    · exact h.1
    · exact fieldsValid_mem h.2 hm

theorem elemsValid_mem {n : Nested σ} : ∀ {a : JL σ} {e : J σ},
    elemsValid n a = true → e ∈ a.toList → nestedValid n e = true
  | .nil, _, _, hm => by simp [JL.toList] at hm
  | .cons h t, e, hv, hm => by
    simp only [elemsValid, Bool.and_eq_true] at hv
    simp only [JL.toList, List.mem_cons] at hm
    rcases hm with rfl | hm
    · exact hv.1
    · exact elemsValid_mem hv.2 hm

theorem entriesValid_mem {props : NProps σ} : ∀ {kv : JO σ} {k : σ} {v : J σ},
    entriesValid props kv = true → (k, v) ∈ kv.toList →
    (match props.find k with
     | some (.leaf l) => leafPropOk l v
     | some (.object child) => if v.isNull then child.nullable else nestedValid child v
     | none => false) = true
  | .nil, _, _, _, hm => by simp [JO.toList] at hm
  | .cons k' v' t, k, v, h, hm => by
    simp only [entriesValid, Bool.and_eq_true] at h
    simp only [JO.toList, List.mem_cons, Prod.mk.injEq] at hm
    rcases hm with ⟨rfl, rfl⟩ | hm
    · exact h.1
    · exact entriesValid_mem h.2 hm

theorem requiredPresent_mem {kv : JO σ} : ∀ {props : NProps σ} {p : NProp σ},
    requiredPresent kv props = true → p ∈ props.toList →
    (kv.hasKey p.name || p.nullable) = true
  | .nil, _, _, hm => by simp [NProps.toList] at hm
  | .cons q t, p, h, hm => by
    simp only [requiredPresent, Bool.and_eq_true] at h
    simp only [NProps.toList, List.mem_cons] at hm
    rcases hm with rfl | hm
    · exact h.1
    · exact requiredPresent_mem h.2 hm

/-! ## `violations_rejected` — the documented classes are refused at add time -/

/-- not a JSON object -/
theorem violations_rejected_not_object (blank : σ → Bool) (s : Schema σ) (d : J σ)
    (h : ∀ kv, d ≠ .obj kv) : validateAdd blank s d = false := by
  cases d with
  | obj kv => exact absurd rfl (h kv)
  | _ => rfl

/-- missing id -/
theorem violations_rejected_missing_id (blank : σ → Bool) (s : Schema σ) (kv : JO σ)
    (h : kv.get s.idField = none) : validateAdd blank s (.obj kv) = false := by
  simp [validateAdd, idOk, h]

/-- blank id -/
theorem violations_rejected_blank_id (blank : σ → Bool) (s : Schema σ) (kv : JO σ) (x : σ)
    (h : kv.get s.idField = some (.str x)) (hb : blank x = true) :
    validateAdd blank s (.obj kv) = false := by
  simp [validateAdd, idOk, h, hb]

/-- id that is not a string -/
theorem violations_rejected_id_not_string (blank : σ → Bool) (s : Schema σ) (kv : JO σ) (v : J σ)
    (h : kv.get s.idField = some v) (hs : v.isStr = false) :
    validateAdd blank s (.obj kv) = false := by
  cases v <;> simp_all [validateAdd, idOk, J.isStr]

/-- wrong value type (or null where not nullable) in a top-level field -/
theorem violations_rejected_flat_type (blank : σ → Bool) (s : Schema σ) (kv : JO σ) (k : σ)
    (v : J σ) (l : Leaf σ) (hm : (k, v) ∈ kv.toList) (hn : s.findNested k = none)
    (hf : s.findFlat k = some l) (hbad : flatOk l v = false) :
    validateAdd blank s (.obj kv) = false := by
  cases hv : validateAdd blank s (.obj kv) with
  | false => rfl
  | true =>
    simp only [validateAdd, Bool.and_eq_true] at hv
    have := fieldsValid_mem hv.2 hm
    simp [hn, hf, hbad] at this

/-- any violation inside the value of a nested field -/
theorem violations_rejected_nested (blank : σ → Bool) (s : Schema σ) (kv : JO σ) (k : σ)
    (v : J σ) (n : Nested σ) (hm : (k, v) ∈ kv.toList) (hn : s.findNested k = some n)
    (hbad : nestedValid n v = false) : validateAdd blank s (.obj kv) = false := by
  cases hv : validateAdd blank s (.obj kv) with
  | false => rfl
  | true =>
    simp only [validateAdd, Bool.and_eq_true] at hv
    have := fieldsValid_mem hv.2 hm
    simp [hn, hbad] at this

/-- a nested value that is a scalar -/
theorem nestedValid_scalar (n : Nested σ) (v : J σ) (h : v.isScalar = true) :
    nestedValid n v = false := by
  cases v <;> simp_all [J.isScalar, nestedValid]

/-- a nested array with a scalar element -/
theorem nestedValid_scalar_elem (n : Nested σ) (a : JL σ) (e : J σ) (he : e ∈ a.toList)
    (h : e.isScalar = true) : nestedValid n (.arr a) = false := by
  cases hv : nestedValid n (.arr a) with
  | false => rfl
  | true =>
    simp only [nestedValid] at hv
    have := elemsValid_mem hv he
    rw [nestedValid_scalar n e h] at this
    exact absurd this (by simp)

/-- a nested array with a null element where the field is not nullable -/
theorem nestedValid_null_elem (n : Nested σ) (a : JL σ) (he : J.null ∈ a.toList)
    (h : n.nullable = false) : nestedValid n (.arr a) = false := by
  cases hv : nestedValid n (.arr a) with
  | false => rfl
  | true =>
    simp only [nestedValid] at hv
    have := elemsValid_mem hv he
    simp [nestedValid, h] at this

/-- an object that lacks a non-nullable property -/
theorem nestedValid_missing_required (n : Nested σ) (o : JO σ) (p : NProp σ)
    (hp : p ∈ n.props.toList) (hreq : p.nullable = false) (hmiss : o.hasKey p.name = false) :
    nestedValid n (.obj o) = false := by
  cases hv : nestedValid n (.obj o) with
  | false => rfl
  | true =>
    simp only [nestedValid, Bool.and_eq_true] at hv
    have := requiredPresent_mem hv.2 hp
    simp [hreq, hmiss] at this

/-- an object with a property the schema does not know -/
theorem nestedValid_unknown_property (n : Nested σ) (o : JO σ) (k : σ) (v : J σ)
    (hm : (k, v) ∈ o.toList) (hu : n.props.find k = none) : nestedValid n (.obj o) = false := by
  cases hv : nestedValid n (.obj o) with
  | false => rfl
  | true =>
    simp only [nestedValid, Bool.and_eq_true] at hv
    have := entriesValid_mem hv.1 hm
    simp [hu] at this

/-- an object with a leaf property of the wrong shape (scalar of another type, object, or null
where not nullable) -/
theorem nestedValid_leaf_shape (n : Nested σ) (o : JO σ) (k : σ) (v : J σ) (l : Leaf σ)
    (hm : (k, v) ∈ o.toList) (hl : n.props.find k = some (.leaf l))
    (hbad : leafPropOk l v = false) : nestedValid n (.obj o) = false := by
  cases hv : nestedValid n (.obj o) with
  | false => rfl
  | true =>
    simp only [nestedValid, Bool.and_eq_true] at hv
    have := entriesValid_mem hv.1 hm
    simp [hl, hbad] at this

/-- an object whose child object property is invalid (recursively any of the above) -/
theorem nestedValid_child (n child : Nested σ) (o : JO σ) (k : σ) (v : J σ)
    (hm : (k, v) ∈ o.toList) (hc : n.props.find k = some (.object child))
    (hbad : (if v.isNull then child.nullable else nestedValid child v) = false) :
    nestedValid n (.obj o) = false := by
  cases hv : nestedValid n (.obj o) with
  | false => rfl
  | true =>
    simp only [nestedValid, Bool.and_eq_true] at hv
    have := entriesValid_mem hv.1 hm
    simp [hc, hbad] at this

/-- an invalid element makes the whole array invalid (lifts the object lemmas to arrays of
parents) -/
theorem nestedValid_elem (n : Nested σ) (a : JL σ) (e : J σ) (he : e ∈ a.toList)
    (hbad : nestedValid n e = false) : nestedValid n (.arr a) = false := by
  cases hv : nestedValid n (.arr a) with
  | false => rfl
  | true =>
    simp only [nestedValid] at hv
    have := elemsValid_mem hv he
    rw [hbad] at this
    exact absurd this (by simp)

/-! ## accepted ⇒ committable, away from the three defect classes -/

mutual
theorem collectNested_of_valid : ∀ (n : Nested σ) (v : J σ),
    nestedValid n v = true → arrInArr n v = false → collectNested n v = true
  | n, .null, h, _ => by simpa [nestedValid, collectNested] using h
  | n, .arr a, h, hb => by
    simp only [nestedValid] at h
    simp only [arrInArr] at hb
    simp only [collectNested]
    exact collectElems_of_valid n a h hb
  | n, .obj kv, h, hb => by
    simp only [nestedValid, Bool.and_eq_true] at h
    simp only [arrInArr] at hb
    simp only [collectNested, Bool.and_eq_true]
    exact ⟨collectEntries_of_valid n.props kv h.1 hb, h.2⟩
  | _, .bool _, h, _ => by simp [nestedValid] at h
  | _, .num _ _, h, _ => by simp [nestedValid] at h
  | _, .str _, h, _ => by simp [nestedValid] at h
theorem collectElems_of_valid : ∀ (n : Nested σ) (a : JL σ),
    elemsValid n a = true → arrInArrElems n a = false → collectElems n a = true
  | _, .nil, _, _ => by simp [collectElems]
  | n, .cons e t, h, hb => by
    simp only [elemsValid, Bool.and_eq_true] at h
    have ih := fun hb2 => collectElems_of_valid n t h.2 hb2
    cases e with
    | null =>
      simp only [arrInArrElems, Bool.false_or] at hb
      simp only [collectElems, Bool.and_eq_true]
      exact ⟨by simpa [nestedValid] using h.1, ih hb⟩
    | obj kv =>
      simp only [arrInArrElems, Bool.or_eq_false_iff] at hb
      have h1 := h.1
      simp only [nestedValid, Bool.and_eq_true] at h1
      simp only [collectElems, Bool.and_eq_true]
      exact ⟨⟨collectEntries_of_valid n.props kv h1.1 hb.1, h1.2⟩, ih hb.2⟩
    | arr a => simp [arrInArrElems] at hb
    | bool b => simp [nestedValid] at h
    | num m x => simp [nestedValid] at h
    | str x => simp [nestedValid] at h
theorem collectEntries_of_valid : ∀ (props : NProps σ) (kv : JO σ),
    entriesValid props kv = true → arrInArrEntries props kv = false →
    collectEntries props kv = true
  | _, .nil, _, _ => by simp [collectEntries]
  | props, .cons k v t, h, hb => by
    simp only [entriesValid, Bool.and_eq_true] at h
    simp only [arrInArrEntries, Bool.or_eq_false_iff] at hb
    simp only [collectEntries, Bool.and_eq_true]
    refine ⟨?_, collectEntries_of_valid props t h.2 hb.2⟩
    have h1 := h.1
    have hb1 := hb.1
    cases hf : props.find k with
    | none => simp [hf] at h1
    | some p =>
      cases p with
      | leaf l => rfl
      | object child =>
        simp only [hf] at h1 hb1 ⊢
        cases hn : v.isNull with
        | true => simpa [hn] using h1
        | false =>
          simp only [hn] at h1 ⊢
          exact collectNested_of_valid child v (by simpa using h1) hb1
end

theorem collectFields_of_valid (s : Schema σ) : ∀ (kv : JO σ),
    fieldsValid s kv = true → unknownTop s kv = false → arrInArrTop s kv = false →
    collectFields s kv = true
  | .nil, _, _, _ => by simp [collectFields]
  | .cons k v t, h, hu, hb => by
    simp only [fieldsValid, Bool.and_eq_true] at h
    simp only [unknownTop, Bool.or_eq_false_iff] at hu
    simp only [arrInArrTop, Bool.or_eq_false_iff] at hb
    simp only [collectFields, Bool.and_eq_true]
    refine ⟨?_, collectFields_of_valid s t h.2 hu.2 hb.2⟩
    by_cases hk : k = s.idField
    · simp [hk]
    · simp only [hk, if_false]
      cases hf : s.findFlat k with
      | some l => rfl
      | none =>
        cases hn : s.findNested k with
        | none => simp [hk, hf, hn] at hu
        | some n =>
          have h1 := h.1
          have hb1 := hb.1
          simp only [hn] at h1 hb1 ⊢
          cases hnull : v.isNull with
          | true =>
            cases v <;> simp_all [J.isNull, nestedValid]
          | false =>
            simp only [Bool.false_eq_true, if_false]
            exact collectNested_of_valid n v h1 hb1

/-- **C15, proved part**: a document accepted by `add_document` passes everything `commit`
needs, provided it has no unknown top-level name, no array directly inside a nested array, and
its stored projection fits the docstore cap. -/
theorem accepted_commits_partial (blank : σ → Bool) (size : J σ → Nat) (cap : Nat)
    (s : Schema σ) (d : J σ) (h : validateAdd blank s d = true)
    (hb : benign size cap s d = true) : collectOk blank size cap s d = true := by
  cases d with
  | obj kv =>
    simp only [benign, Bool.and_eq_true, Bool.not_eq_true', decide_eq_true_eq] at hb
    have hv := h
    simp only [validateAdd, Bool.and_eq_true] at hv
    simp only [collectOk, h, collectDoc, Bool.and_eq_true, decide_eq_true_eq, true_and]
    exact ⟨collectFields_of_valid s kv hv.2 hb.1.1 hb.1.2, hb.2⟩
  | null => simp [validateAdd] at h
  | bool b => simp [validateAdd] at h
  | num m e => simp [validateAdd] at h
  | str x => simp [validateAdd] at h
  | arr a => simp [validateAdd] at h

/-! ## conforming documents are accepted and committable -/

theorem leafPropOk_of_strict (l : Leaf σ) (v : J σ) (h : leafStrict l v = true) :
    leafPropOk l v = true := by
  unfold leafStrict flatOk at h
  unfold leafPropOk
  cases v with
  | null => exact h
  | arr a => rfl
  | bool b => cases hk : l.kind <;> simp_all [Kind.accepts, J.isStr, J.isNum, J.isInt]
  | str x => cases hk : l.kind <;> simp_all [Kind.accepts, J.isStr, J.isNum, J.isInt]
  | obj kv => cases hk : l.kind <;> simp_all [Kind.accepts, J.isStr, J.isNum, J.isInt]
  | num m e => cases hk : l.kind <;> simp_all [Kind.accepts, J.isStr, J.isNum, J.isInt]

mutual
theorem nestedValid_of_strict : ∀ (n : Nested σ) (v : J σ),
    nestedStrict n v = true → nestedValid n v = true
  | n, .arr a, h => by
    simp only [nestedStrict] at h
    simp only [nestedValid]
    exact elemsValid_of_strict n a h
  | n, .obj kv, h => by
    simp only [nestedStrict, Bool.and_eq_true] at h
    simp only [nestedValid, Bool.and_eq_true]
    exact ⟨entriesValid_of_strict n.props kv h.1, h.2⟩
  | _, .null, h => by simp [nestedStrict] at h
  | _, .bool _, h => by simp [nestedStrict] at h
  | _, .num _ _, h => by simp [nestedStrict] at h
  | _, .str _, h => by simp [nestedStrict] at h
theorem elemsValid_of_strict : ∀ (n : Nested σ) (a : JL σ),
    elemsStrict n a = true → elemsValid n a = true
  | _, .nil, _ => by simp [elemsValid]
  | n, .cons e t, h => by
    simp only [elemsValid, Bool.and_eq_true]
    cases e with
    | null =>
      simp only [elemsStrict, Bool.and_eq_true] at h
      exact ⟨by simpa [nestedValid] using h.1, elemsValid_of_strict n t h.2⟩
    | obj kv =>
      simp only [elemsStrict, Bool.and_eq_true] at h
      simp only [nestedValid, Bool.and_eq_true]
      exact ⟨⟨entriesValid_of_strict n.props kv h.1.1, h.1.2⟩, elemsValid_of_strict n t h.2⟩
    | arr a => simp [elemsStrict] at h
    | bool b => simp [elemsStrict] at h
    | num m x => simp [elemsStrict] at h
    | str x => simp [elemsStrict] at h
theorem entriesValid_of_strict : ∀ (props : NProps σ) (kv : JO σ),
    entriesStrict props kv = true → entriesValid props kv = true
  | _, .nil, _ => by simp [entriesValid]
  | props, .cons k v t, h => by
    simp only [entriesStrict, Bool.and_eq_true] at h
    simp only [entriesValid, Bool.and_eq_true]
    refine ⟨?_, entriesValid_of_strict props t h.2⟩
    have h1 := h.1
    cases hf : props.find k with
    | none => simp [hf] at h1
    | some p =>
      cases p with
      | leaf l =>
        simp only [hf] at h1 ⊢
        exact leafPropOk_of_strict l v h1
      | object child =>
        simp only [hf] at h1 ⊢
        cases hn : v.isNull with
        | true => simpa [hn] using h1
        | false =>
          simp only [hn] at h1 ⊢
          exact nestedValid_of_strict child v (by simpa using h1)
end

mutual
theorem arrInArr_of_strict : ∀ (n : Nested σ) (v : J σ),
    nestedStrict n v = true → arrInArr n v = false
  | n, .arr a, h => by
    simp only [nestedStrict] at h
    simp only [arrInArr]
    exact arrInArrElems_of_strict n a h
  | n, .obj kv, h => by
    simp only [nestedStrict, Bool.and_eq_true] at h
    simp only [arrInArr]
    exact arrInArrEntries_of_strict n.props kv h.1
  | _, .null, _ => by simp [arrInArr]
  | _, .bool _, _ => by simp [arrInArr]
  | _, .num _ _, _ => by simp [arrInArr]
  | _, .str _, _ => by simp [arrInArr]
theorem arrInArrElems_of_strict : ∀ (n : Nested σ) (a : JL σ),
    elemsStrict n a = true → arrInArrElems n a = false
  | _, .nil, _ => by simp [arrInArrElems]
  | n, .cons e t, h => by
    cases e with
    | null =>
      simp only [elemsStrict, Bool.and_eq_true] at h
      simp only [arrInArrElems, Bool.false_or]
      exact arrInArrElems_of_strict n t h.2
    | obj kv =>
      simp only [elemsStrict, Bool.and_eq_true] at h
      simp only [arrInArrElems, Bool.or_eq_false_iff]
      exact ⟨arrInArrEntries_of_strict n.props kv h.1.1, arrInArrElems_of_strict n t h.2⟩
    | arr a => simp [elemsStrict] at h
    | bool b => simp [elemsStrict] at h
    | num m x => simp [elemsStrict] at h
    | str x => simp [elemsStrict] at h
theorem arrInArrEntries_of_strict : ∀ (props : NProps σ) (kv : JO σ),
    entriesStrict props kv = true → arrInArrEntries props kv = false
  | _, .nil, _ => by simp [arrInArrEntries]
  | props, .cons k v t, h => by
    simp only [entriesStrict, Bool.and_eq_true] at h
    simp only [arrInArrEntries, Bool.or_eq_false_iff]
    refine ⟨?_, arrInArrEntries_of_strict props t h.2⟩
    have h1 := h.1
    cases hf : props.find k with
    | none => rfl
    | some p =>
      cases p with
      | leaf l => rfl
      | object child =>
        simp only [hf] at h1 ⊢
        cases hn : v.isNull with
        | true => cases v <;> simp_all [J.isNull, arrInArr]
        | false =>
          simp only [hn] at h1
          exact arrInArr_of_strict child v (by simpa using h1)
end

theorem fieldsValid_of_strict (s : Schema σ) (hid : idNotNested s = true) : ∀ (kv : JO σ),
    fieldsStrict s kv = true →
    fieldsValid s kv = true ∧ unknownTop s kv = false ∧ arrInArrTop s kv = false
  | .nil, _ => by simp [fieldsValid, unknownTop, arrInArrTop]
  | .cons k v t, h => by
    simp only [fieldsStrict, Bool.and_eq_true] at h
    obtain ⟨ih1, ih2, ih3⟩ := fieldsValid_of_strict s hid t h.2
    simp only [idNotNested, Bool.and_eq_true, Option.isNone_iff_eq_none] at hid
    simp only [fieldsValid, unknownTop, arrInArrTop, Bool.and_eq_true, Bool.or_eq_false_iff]
    refine ⟨⟨?_, ih1⟩, ⟨?_, ih2⟩, ⟨?_, ih3⟩⟩
    · by_cases hk : k = s.idField
      · subst hk; simp [hid.1, hid.2]
      · have h1 := h.1
        simp only [hk, if_false] at h1
        cases hn : s.findNested k with
        | some n =>
          simp only [hn] at h1 ⊢
          cases hnull : v.isNull with
          | true => cases v <;> simp_all [J.isNull, nestedValid]
          | false =>
            simp only [hnull, Bool.false_eq_true, if_false] at h1
            exact nestedValid_of_strict n v h1
        | none =>
          simp only [hn] at h1 ⊢
          cases hf : s.findFlat k with
          | some l => simpa [hf, leafStrict] using h1
          | none => simp [hf] at h1
    · by_cases hk : k = s.idField
      · simp [hk]
      · have h1 := h.1
        simp only [hk, if_false] at h1
        cases hn : s.findNested k with
        | some n => simp
        | none =>
          simp only [hn] at h1
          cases hf : s.findFlat k with
          | some l => simp
          | none => simp [hf] at h1
    · by_cases hk : k = s.idField
      · subst hk; simp [hid.1]
      · have h1 := h.1
        simp only [hk, if_false] at h1
        cases hn : s.findNested k with
        | some n =>
          simp only [hn] at h1 ⊢
          cases hnull : v.isNull with
          | true => cases v <;> simp_all [J.isNull, arrInArr]
          | false =>
            simp only [hnull, Bool.false_eq_true, if_false] at h1
            exact arrInArr_of_strict n v h1
        | none => rfl

/-- a document that obeys the schema as documented is accepted by `add_document` … -/
theorem conforms_accepted (blank : σ → Bool) (s : Schema σ) (d : J σ)
    (hid : idNotNested s = true) (h : conforms blank s d = true) :
    validateAdd blank s d = true := by
  cases d with
  | obj kv =>
    simp only [conforms, Bool.and_eq_true] at h
    simp only [validateAdd, Bool.and_eq_true]
    exact ⟨h.1, (fieldsValid_of_strict s hid kv h.2).1⟩
  | null => simp [conforms] at h
  | bool b => simp [conforms] at h
  | num m e => simp [conforms] at h
  | str x => simp [conforms] at h
  | arr a => simp [conforms] at h

/-- … and can be committed (if its stored form fits the docstore cap) -/
theorem conforms_commits (blank : σ → Bool) (size : J σ → Nat) (cap : Nat) (s : Schema σ)
    (d : J σ) (hid : idNotNested s = true) (h : conforms blank s d = true)
    (hsz : size (project s d) ≤ cap) : collectOk blank size cap s d = true := by
  apply accepted_commits_partial blank size cap s d (conforms_accepted blank s d hid h)
  cases d with
  | obj kv =>
    simp only [conforms, Bool.and_eq_true] at h
    obtain ⟨_, h2, h3⟩ := fieldsValid_of_strict s hid kv h.2
    simp [benign, h2, h3, hsz]
  | _ => rfl

/-! ## accepted ⇒ conforming, away from the recorded classes -/

mutual
theorem nestedStrict_of_valid : ∀ (n : Nested σ) (v : J σ), v.isNull = false →
    nestedValid n v = true → arrInArr n v = false → leavesTyped n v = true →
    nestedStrict n v = true
  | n, .arr a, _, h, hb, ht => by
    simp only [nestedValid] at h
    simp only [arrInArr] at hb
    simp only [leavesTyped] at ht
    simp only [nestedStrict]
    exact elemsStrict_of_valid n a h hb ht
  | n, .obj kv, _, h, hb, ht => by
    simp only [nestedValid, Bool.and_eq_true] at h
    simp only [arrInArr] at hb
    simp only [leavesTyped] at ht
    simp only [nestedStrict, Bool.and_eq_true]
    exact ⟨entriesStrict_of_valid n.props kv h.1 hb ht, h.2⟩
  | _, .null, hn, _, _, _ => by simp [J.isNull] at hn
  | _, .bool _, _, h, _, _ => by simp [nestedValid] at h
  | _, .num _ _, _, h, _, _ => by simp [nestedValid] at h
  | _, .str _, _, h, _, _ => by simp [nestedValid] at h
theorem elemsStrict_of_valid : ∀ (n : Nested σ) (a : JL σ),
    elemsValid n a = true → arrInArrElems n a = false → leavesTypedElems n a = true →
    elemsStrict n a = true
  | _, .nil, _, _, _ => by simp [elemsStrict]
  | n, .cons e t, h, hb, ht => by
    simp only [elemsValid, Bool.and_eq_true] at h
    cases e with
    | null =>
      simp only [arrInArrElems, Bool.false_or] at hb
      simp only [leavesTypedElems, Bool.true_and] at ht
      simp only [elemsStrict, Bool.and_eq_true]
      exact ⟨by simpa [nestedValid] using h.1, elemsStrict_of_valid n t h.2 hb ht⟩
    | obj kv =>
      simp only [arrInArrElems, Bool.or_eq_false_iff] at hb
      simp only [leavesTypedElems, Bool.and_eq_true] at ht
      have h1 := h.1
      simp only [nestedValid, Bool.and_eq_true] at h1
      simp only [elemsStrict, Bool.and_eq_true]
      exact ⟨⟨entriesStrict_of_valid n.props kv h1.1 hb.1 ht.1, h1.2⟩,
        elemsStrict_of_valid n t h.2 hb.2 ht.2⟩
    | arr a => simp [arrInArrElems] at hb
    | bool b => simp [nestedValid] at h
    | num m x => simp [nestedValid] at h
    | str x => simp [nestedValid] at h
theorem entriesStrict_of_valid : ∀ (props : NProps σ) (kv : JO σ),
    entriesValid props kv = true → arrInArrEntries props kv = false →
    leavesTypedEntries props kv = true → entriesStrict props kv = true
  | _, .nil, _, _, _ => by simp [entriesStrict]
  | props, .cons k v t, h, hb, ht => by
    simp only [entriesValid, Bool.and_eq_true] at h
    simp only [arrInArrEntries, Bool.or_eq_false_iff] at hb
    simp only [leavesTypedEntries, Bool.and_eq_true] at ht
    simp only [entriesStrict, Bool.and_eq_true]
    refine ⟨?_, entriesStrict_of_valid props t h.2 hb.2 ht.2⟩
    have h1 := h.1
    have hb1 := hb.1
    have ht1 := ht.1
    cases hf : props.find k with
    | none => simp [hf] at h1
    | some p =>
      cases p with
      | leaf l => simpa [hf] using ht1
      | object child =>
        simp only [hf] at h1 hb1 ht1 ⊢
        cases hn : v.isNull with
        | true => simpa [hn] using h1
        | false =>
          simp only [hn] at h1 ⊢
          exact nestedStrict_of_valid child v hn (by simpa using h1) hb1 ht1
end

theorem fieldsStrict_of_valid (s : Schema σ) (hid : idNotNested s = true) : ∀ (kv : JO σ),
    fieldsValid s kv = true → unknownTop s kv = false → arrInArrTop s kv = false →
    leavesTypedTop s kv = true → fieldsStrict s kv = true
  | .nil, _, _, _, _ => by simp [fieldsStrict]
  | .cons k v t, h, hu, hb, ht => by
    simp only [fieldsValid, Bool.and_eq_true] at h
    simp only [unknownTop, Bool.or_eq_false_iff] at hu
    simp only [arrInArrTop, Bool.or_eq_false_iff] at hb
    simp only [leavesTypedTop, Bool.and_eq_true] at ht
    simp only [fieldsStrict, Bool.and_eq_true]
    refine ⟨?_, fieldsStrict_of_valid s hid t h.2 hu.2 hb.2 ht.2⟩
    by_cases hk : k = s.idField
    · simp [hk]
    · simp only [hk, if_false]
      have h1 := h.1
      have hb1 := hb.1
      have ht1 := ht.1
      cases hn : s.findNested k with
      | some n =>
        simp only [hn] at h1 hb1 ht1 ⊢
        cases hnull : v.isNull with
        | true => cases v <;> simp_all [J.isNull, nestedValid]
        | false =>
          simp only [Bool.false_eq_true, if_false]
          exact nestedStrict_of_valid n v hnull h1 hb1 ht1
      | none =>
        simp only [hn] at h1 ⊢
        cases hf : s.findFlat k with
        | some l => simpa [hf, leafStrict] using h1
        | none => simp [hk, hf, hn] at hu

/-- **completeness of the recorded classes**: a document accepted by `add_document` obeys the
documented rules, unless it has an unknown top-level name, an array directly inside a nested
array, or a nested leaf value that is not typed as documented (unchecked array elements,
non-integer in an i64 property).  Together with `conforms_accepted` this characterises what
add-time validation accepts. -/
theorem accepted_conforms_partial (blank : σ → Bool) (s : Schema σ) (kv : JO σ)
    (hid : idNotNested s = true) (h : validateAdd blank s (.obj kv) = true)
    (hu : unknownTop s kv = false) (hb : arrInArrTop s kv = false)
    (ht : leavesTypedTop s kv = true) : conforms blank s (.obj kv) = true := by
  simp only [validateAdd, Bool.and_eq_true] at h
  simp only [conforms, Bool.and_eq_true]
  exact ⟨h.1, fieldsStrict_of_valid s hid kv h.2 hu hb ht⟩

/-! ## negative witnesses (atoms are `Nat`; `0` = id field) -/

/-- schema: id `0`, text field `1`, nested field `2` with a keyword property `3` -/
def wSchema : Schema Nat :=
  { idField := 0,
    flat := [⟨1, .text, true, true, false, false⟩],
    nested := [.mk 2 false (.cons (.leaf ⟨3, .keyword, true, true, true, true⟩) .nil)] }

/-- `{"_id":"7","body":"8","zzz":"9"}` -/
def wUnknown : J Nat :=
  .obj (.cons 0 (.str 7) (.cons 1 (.str 8) (.cons 9 (.str 9) .nil)))

/-- `{"_id":"7","c":[[{"a":"5"}]]}` -/
def wArrArr : J Nat :=
  .obj (.cons 0 (.str 7) (.cons 2 (.arr (.cons (.arr (.cons (.obj (.cons 3 (.str 5) .nil)) .nil))
    .nil)) .nil))

/-- `{"_id":"7","body":"8"}` -/
def wPlain : J Nat := .obj (.cons 0 (.str 7) (.cons 1 (.str 8) .nil))

/-- `{"_id":"7","c":{"a":[1,2]}}` — numbers in a nested keyword -/
def wLeafArr : J Nat :=
  .obj (.cons 0 (.str 7) (.cons 2 (.obj (.cons 3 (.arr (.cons (.num 1 0) (.cons (.num 2 0) .nil)))
    .nil)) .nil))

/-- the full statement fails: unknown top-level field -/
theorem accepted_commits_false_unknown_field :
    validateAdd (fun _ => false) wSchema wUnknown = true ∧
    collectOk (fun _ => false) (fun _ => 0) 0 wSchema wUnknown = false := by decide

/-- the full statement fails: array directly inside a nested array -/
theorem accepted_commits_false_array_in_array :
    validateAdd (fun _ => false) wSchema wArrArr = true ∧
    collectOk (fun _ => false) (fun _ => 0) 0 wSchema wArrArr = false := by decide

/-- the full statement fails: stored projection above the docstore cap -/
theorem accepted_commits_false_docstore_cap :
    validateAdd (fun _ => false) wSchema wPlain = true ∧
    collectOk (fun _ => false) (fun _ => 5) 4 wSchema wPlain = false := by decide

/-- "wrong value types are rejected when queued" fails inside nested objects: the elements of
an array value of a nested leaf are not looked at -/
theorem nested_leaf_array_unchecked :
    validateAdd (fun _ => false) wSchema wLeafArr = true ∧
    conforms (fun _ => false) wSchema wLeafArr = false ∧
    collectOk (fun _ => false) (fun _ => 0) 0 wSchema wLeafArr = true := by decide

/-! ## non-vacuity -/

example : validateAdd (fun _ => false) wSchema wPlain = true ∧
    benign (fun _ => 0) 0 wSchema wPlain = true ∧
    collectOk (fun _ => false) (fun _ => 0) 0 wSchema wPlain = true := by decide

example : conforms (fun _ => false) wSchema wPlain = true ∧ idNotNested wSchema = true := by decide

/-- a conforming document with a nested array of two parents -/
example : conforms (fun _ => false) wSchema
    (.obj (.cons 0 (.str 7) (.cons 2 (.arr (.cons (.obj (.cons 3 (.str 5) .nil))
      (.cons (.obj .nil) .nil))) .nil))) = true := by decide

example : benign (fun _ => 0) 0 wSchema wUnknown = false ∧
    benign (fun _ => 0) 0 wSchema wArrArr = false ∧
    benign (fun _ => 5) 4 wSchema wPlain = false := by decide

/-- the rejection lemmas apply: a scalar inside a nested array -/
example : validateAdd (fun _ => false) wSchema
    (.obj (.cons 0 (.str 7) (.cons 2 (.arr (.cons (.str 4) .nil)) .nil))) = false := by decide

example : leavesTypedTop wSchema
    (.cons 0 (.str 7) (.cons 2 (.obj (.cons 3 (.arr (.cons (.num 1 0) .nil)) .nil)) .nil)) = false ∧
    leavesTypedTop wSchema
    (.cons 0 (.str 7) (.cons 2 (.obj (.cons 3 (.arr (.cons (.str 1) .nil)) .nil)) .nil)) = true := by
  decide

end SL.Doc
